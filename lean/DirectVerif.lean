import DirectVerif.Model.Basic
import DirectVerif.Driver.Common
