import DirectVerif.Model.Basic
import DirectVerif.Model.Crop
import DirectVerif.Model.Shift
