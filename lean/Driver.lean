import DirectVerif.Model.Basic
import DirectVerif.Model.Crop
import DirectVerif.Model.Shift
/-!
Line-protocol driver: one operation per input line, one answer line per operation.

  OPNAME g0 | g1 | g2 …      (groups of space-separated integers separated by `|`)

Answers: `ok g0 | g1 …` or `err <Kind>`.   Run: `lake env lean --run Driver.lean < ops > out`.
-/
open DirectVerif

def parseGroups (s : String) : Option (List (List Int)) :=
  let groups := s.splitOn "|"
  groups.mapM fun g =>
    (g.splitOn " ").filter (· ≠ "") |>.mapM String.toInt?

def fmtInts (xs : List Int) : String := " ".intercalate (xs.map toString)
def fmtGroups (gs : List (List Int)) : String := " | ".intercalate (gs.map fmtInts)
def okT (t : Tensor Int) : String := "ok " ++ fmtGroups [t.shape.map Int.ofNat, t.data]
def nats (xs : List Int) : List Nat := xs.map Int.toNat

def mkT (shape data : List Int) : Option (Tensor Int) :=
  let t : Tensor Int := { shape := nats shape, data := data }
  if t.wellFormed then some t else none

/-- n-D `center_crop` on the last two axes -/
def opCenterCrop (t : Tensor Int) (s : List Int) : String :=
  let r := t.shape.length
  if r < 2 ∨ s.length < 2 then "err BadOp" else
  let n2 : Int := t.shape.getD (r - 2) 0
  let n1 : Int := t.shape.getD (r - 1) 0
  let s2 := s.getD (s.length - 2) 0
  let s1 := s.getD (s.length - 1) 0
  if !(Crop.centerCropOk n2 s2) || !(Crop.centerCropOk n1 s1) then "err ValueError" else
  let t := t.alongAxis (r - 2) (Crop.centerCrop s2.toNat)
  let t := t.alongAxis (r - 1) (Crop.centerCrop s1.toNat)
  okT t

/-- n-D `crop_to_bbox` -/
def opBbox (t : Tensor Int) (bbox : List Int) (fill : Int) : String := Id.run do
  let r := t.shape.length
  if bbox.length ≠ 2 * r then return "err BadOp"
  let mut cur := t
  let mut bad := false
  for ax in List.range r do
    let coord := bbox.getD ax 0
    let size := bbox.getD (r + ax) 0
    let n := cur.shape.getD ax 0
    -- does this axis fit?
    match Crop.cropToBbox fill ((List.range n).map Int.ofNat) coord size with
    | .shapeError => bad := true
    | .ok _ => pure ()
    cur := cur.alongAxis ax fun xs =>
      match Crop.cropToBbox fill xs coord size with
      | .ok ys => ys
      | .shapeError => []
  if bad then return "err ShapeError"
  return okT cur

/-- n-D `pad_tensor` (repaired order) on the last `target.length` axes -/
def opPad (t : Tensor Int) (target : List Int) (fill : Int) : String := Id.run do
  let r := t.shape.length
  let k := target.length
  if k ≠ 2 ∧ k ≠ 3 then return "err ValueError"
  if r < k then return "err BadOp"
  let dims : List (Int × Int) := (List.range k).map fun j =>
    (target.getD j 0, (t.shape.getD (r - k + j) 0 : Nat))
  let pad := Crop.padPairs false dims
  let mut cur := t
  for j in List.range k do     -- j-th axis from the last
    let (l, rr) := Crop.padOfAxisFromLast pad j
    cur := cur.alongAxis (r - 1 - j) (Crop.fPad fill l.toNat rr.toNat)
  return okT cur

/-- `complex_center_crop`: build the bbox as the code does, then `crop_to_bbox` -/
def opCCC (t : Tensor Int) (crop : List Int) (offset : Nat) : String :=
  let r := t.shape.length
  let img : List Int := t.shape.map Int.ofNat
  if offset + crop.length > r then "err IndexError" else
  let shape : List Int := (List.range crop.length).map fun idx =>
    let c := crop.getD idx 0
    if c ≠ 0 then c else img.getD (idx + offset) 0
  let starts : List Int := (List.range r).map fun ax =>
    if offset ≤ ax ∧ ax < offset + crop.length then
      Crop.cccStart (img.getD ax 0) (shape.getD (ax - offset) 0) else 0
  let sizes : List Int := (List.range r).map fun ax =>
    if offset ≤ ax ∧ ax < offset + crop.length then shape.getD (ax - offset) 0 else img.getD ax 0
  if starts.any (· < 0) then "err ValueError" else
  opBbox t (starts ++ sizes) 0

def step (line : String) : String :=
  match line.trimAscii.toString.splitOn " " with
  | [] => "err BadOp"
  | op :: _ =>
    let rest := (line.trimAscii.toString.drop op.length).toString
    match parseGroups rest with
    | none => "err BadOp"
    | some gs =>
      match op, gs with
      | "roll", [shape, data, shifts, dims] =>
        match mkT shape data with
        | some t => if shifts.length ≠ dims.length then "err ValueError" else okT (Shift.roll t shifts (nats dims))
        | none => "err BadOp"
      | "fftshift", [shape, data, dims] =>
        match mkT shape data with
        | some t => okT (Shift.fftshift t (nats dims))
        | none => "err BadOp"
      | "ifftshift", [shape, data, dims] =>
        match mkT shape data with
        | some t => okT (Shift.ifftshift t (nats dims))
        | none => "err BadOp"
      | "center_crop", [shape, data, s] =>
        match mkT shape data with
        | some t => opCenterCrop t s
        | none => "err BadOp"
      | "bbox", [shape, data, bbox, [fill]] =>
        match mkT shape data with
        | some t => opBbox t bbox fill
        | none => "err BadOp"
      | "ccc", [shape, data, crop, [offset]] =>
        match mkT shape data with
        | some t => opCCC t crop offset.toNat
        | none => "err BadOp"
      | "pad", [shape, data, target, [fill]] =>
        match mkT shape data with
        | some t => opPad t target fill
        | none => "err BadOp"
      | _, _ => "err BadOp"

partial def loop (h : IO.FS.Stream) (out : IO.FS.Stream) : IO Unit := do
  let line ← h.getLine
  if line.isEmpty then return ()
  out.putStrLn (step line)
  loop h out

def main : IO Unit := do
  let out ← IO.getStdout
  loop (← IO.getStdin) out
  out.flush
