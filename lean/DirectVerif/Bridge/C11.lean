import DirectVerif.Gen.C11
import DirectVerif.Model.SslSplit
import DirectVerif.Model.SslHistory
/-!
# Bridge C11 — what the translator read in `/repo` equals the hand-written model

Each lemma is closed by a fixed script; a semantically equal rewrite of the source keeps them provable, a
change of the loop guard, the acceptance test, a slice bound, a count / cap / seed expression, the mask
algebra or the statement order does not.
-/
set_option linter.unusedSimpArgs false
namespace DirectVerif.Bridge.C11
open DirectVerif DirectVerif.SslSplit DirectVerif.Gen.C11

/-! ## the rejection loop of `_gaussian_fill.pyx` -/

theorem fill_loop_guard_eq (count n : Int) : fill_loop_guard count n = loopGuard count n := by
  rw [Bool.eq_iff_iff]
  simp only [fill_loop_guard, loopGuard, Bool.and_eq_true, Bool.or_eq_true, decide_eq_true_eq, Bool.not_eq_true',
    decide_eq_false_iff_not] <;> omega

theorem fill_accept_eq (indx indy nrow ncol m o : Int) :
    fill_accept indx indy nrow ncol m o = acceptTest indx indy nrow ncol m o := by
  rw [Bool.eq_iff_iff]
  simp only [fill_accept, acceptTest, Bool.and_eq_true, Bool.or_eq_true, decide_eq_true_eq, Bool.not_eq_true',
    decide_eq_false_iff_not, beq_iff_eq, bne_iff_ne, ne_eq] <;> omega

theorem fill_count_init_eq : fill_count_init = 0 := by decide
theorem fill_count_step_eq (count : Int) : fill_count_step count = count + 1 := by
  simp only [fill_count_step] <;> omega
/-- the kernel marks an accepted cell with `1` (= `true` in the boolean grid of the model) -/
theorem fill_mark_value_eq : fill_mark_value = b2i true := by decide
/-- the kernel seeds libc with its `seed` argument before the loop -/
theorem fill_srand_seed_eq : fill_srand_seed = true := by decide

/-! ## protected-region slices, for the three splitters -/

theorem gaussian_region_eq (nrow ncol a0 a1 : Int) :
    gaussian_region nrow ncol a0 a1 = [regionLo nrow a0, regionHi nrow a0, regionLo ncol a1, regionHi ncol a1] := by
  simp only [gaussian_region, regionLo, regionHi, centre, Int.fdiv_eq_ediv_of_nonneg _ (by decide : (0 : Int) ≤ 2),
    List.cons.injEq, and_true] <;> omega

theorem uniform_region_eq (nrow ncol a0 a1 : Int) :
    uniform_region nrow ncol a0 a1 = [regionLo nrow a0, regionHi nrow a0, regionLo ncol a1, regionHi ncol a1] := by
  simp only [uniform_region, regionLo, regionHi, centre, Int.fdiv_eq_ediv_of_nonneg _ (by decide : (0 : Int) ≤ 2),
    List.cons.injEq, and_true] <;> omega

theorem half_region_eq (nrow ncol a0 a1 : Int) :
    half_region nrow ncol a0 a1 = [regionLo nrow a0, regionHi nrow a0, regionLo ncol a1, regionHi ncol a1] := by
  simp only [half_region, regionLo, regionHi, centre, Int.fdiv_eq_ediv_of_nonneg _ (by decide : (0 : Int) ≤ 2),
    List.cons.injEq, and_true] <;> omega

/-- the region is cleared / protected exactly when `keep_acs` is off (as `freeMask` / `halfSplit` do) -/
theorem gaussian_region_guard_eq (keep : Bool) : gaussian_region_guard (b2i keep) = !keep := by
  cases keep <;> decide
theorem uniform_region_guard_eq (keep : Bool) : uniform_region_guard (b2i keep) = !keep := by
  cases keep <;> decide
theorem half_region_guard_eq (keep : Bool) : half_region_guard (b2i keep) = !keep := by
  cases keep <;> decide

/-! ## counts, cap, early return -/

theorem gaussian_count_eq (S p q : Int) (hq : 0 ≤ q) : gaussian_count S p q = ratioCeil S p q := by
  simp only [gaussian_count, ratioCeil, Int.one_mul, Int.mul_one, Int.fdiv_eq_ediv_of_nonneg _ hq]

theorem uniform_count_eq (S p q : Int) (hq : 0 ≤ q) : uniform_count S p q = ratioFloor S p q := by
  simp only [uniform_count, ratioFloor, Int.one_mul, Int.mul_one, Int.fdiv_eq_ediv_of_nonneg _ hq]

theorem gaussian_cap_eq (c free : Int) : gaussian_cap c free = capRequest c free := by
  simp only [gaussian_cap, capRequest, pyMin] <;> omega

/-- `uniform_fill` returns zeros without drawing exactly when the model does -/
theorem uniform_early_return_eq (count free : Nat) :
    uniform_early_return count free = true ↔ (count = 0 ∨ free = 0) := by
  simp only [uniform_early_return, Bool.or_eq_true, Bool.and_eq_true, Bool.not_eq_true', Bool.not_eq_eq_eq_not, Bool.not_not,
    Bool.not_true, Bool.not_false, Bool.and_eq_false_imp, Bool.or_eq_false_iff, beq_iff_eq, bne_iff_ne, ne_eq,
    beq_eq_false_iff_ne, bne_eq_false_iff_eq, decide_eq_true_eq, decide_eq_false_iff_not] <;> omega

/-! ## half split geometry -/

theorem half_row_bound_eq (nrow ncol : Int) : half_row_bound nrow ncol = centre nrow := by
  simp only [half_row_bound, centre, Int.fdiv_eq_ediv_of_nonneg _ (by decide : (0 : Int) ≤ 2)] <;> omega
theorem half_col_bound_eq (nrow ncol : Int) : half_col_bound nrow ncol = centre ncol := by
  simp only [half_col_bound, centre, Int.fdiv_eq_ediv_of_nonneg _ (by decide : (0 : Int) ≤ 2)] <;> omega

/-- the diagonal predicates, evaluated on the exact `linspace(-1, 1, n)` fractions, are the model's sides -/
theorem half_diag_right_eq (nrow ncol i j : Nat) :
    half_diag_right_input (coordNum nrow i) (coordDen nrow) (coordNum ncol j) (coordDen ncol)
      = inputSide .diagRight nrow ncol i j ∧
    half_diag_right_target (coordNum nrow i) (coordDen nrow) (coordNum ncol j) (coordDen ncol)
      = !inputSide .diagRight nrow ncol i j := by
  simp only [inputSide]
  generalize coordNum nrow i = xn, coordDen nrow = xd, coordNum ncol j = yn, coordDen ncol = yd
  constructor <;>
  · rw [Bool.eq_iff_iff]
    simp only [half_diag_right_input, half_diag_right_target, inputSide, Int.mul_one, Int.zero_mul, Int.one_mul,
      Int.mul_zero, decide_eq_true_eq, Bool.not_eq_true', decide_eq_false_iff_not] <;> omega

theorem half_diag_left_eq (nrow ncol i j : Nat) :
    half_diag_left_input (coordNum nrow i) (coordDen nrow) (coordNum ncol j) (coordDen ncol)
      = inputSide .diagLeft nrow ncol i j ∧
    half_diag_left_target (coordNum nrow i) (coordDen nrow) (coordNum ncol j) (coordDen ncol)
      = !inputSide .diagLeft nrow ncol i j := by
  simp only [inputSide]
  generalize coordNum nrow i = xn, coordDen nrow = xd, coordNum ncol j = yn, coordDen ncol = yd
  constructor <;>
  · rw [Bool.eq_iff_iff]
    simp only [half_diag_left_input, half_diag_left_target, inputSide, Int.mul_one, Int.zero_mul, Int.one_mul,
      Int.mul_zero, decide_eq_true_eq, Bool.not_eq_true', decide_eq_false_iff_not] <;> omega

/-! ## boolean mask algebra -/

theorem gAnd_gNot (a b : Grid) : gAnd a (gNot b) = gAndNot a b := by
  simp [gAnd, gNot, gAndNot, List.zipWith_map_right]

theorem gaussian_reduce_eq (mask acs : Grid) : gaussian_reduce mask acs = reducedMask true mask acs := by
  simp only [gaussian_reduce, reducedMask, gAnd_gNot, if_true]
theorem uniform_reduce_eq (mask acs : Grid) : uniform_reduce mask acs = reducedMask true mask acs := by
  simp only [uniform_reduce, reducedMask, gAnd_gNot, if_true]

theorem gaussian_finish_eq (mask' acs t : Grid) :
    finish false mask' acs t = (gaussian_input mask' t, t) ∧
    finish true mask' acs t = (gaussian_keep_input (gaussian_input mask' t) t acs,
                               gaussian_keep_target (gaussian_input mask' t) t acs) := by
  simp only [finish, gaussian_input, gaussian_keep_input, gaussian_keep_target, gAnd_gNot, if_true,
    Bool.false_eq_true, if_false, and_self]

theorem uniform_finish_eq (mask' acs t : Grid) :
    finish false mask' acs t = (uniform_input mask' t, t) ∧
    finish true mask' acs t = (uniform_keep_input (uniform_input mask' t) t acs,
                               uniform_keep_target (uniform_input mask' t) t acs) := by
  simp only [finish, uniform_input, uniform_keep_input, uniform_keep_target, gAnd_gNot, if_true,
    Bool.false_eq_true, if_false, and_self]

theorem half_finish_eq (d : Dir) (xs ys : List Int) (a0 a1 : Int) (nrow ncol : Nat) (mask acs : Grid) :
    halfSplit d xs ys true a0 a1 nrow ncol mask acs =
      (half_keep_input (halfParts d xs ys nrow ncol mask).1 (halfParts d xs ys nrow ncol mask).2 acs,
       half_keep_target (halfParts d xs ys nrow ncol mask).1 (halfParts d xs ys nrow ncol mask).2 acs) ∧
    halfSplit d xs ys false a0 a1 nrow ncol mask acs =
      (half_protect_input (halfParts d xs ys nrow ncol mask).1 (halfParts d xs ys nrow ncol mask).2 mask
         (protectedGrid nrow ncol a0 a1 mask.length),
       half_protect_target (halfParts d xs ys nrow ncol mask).1 (halfParts d xs ys nrow ncol mask).2 mask
         (protectedGrid nrow ncol a0 a1 mask.length)) := by
  simp only [halfSplit, half_keep_input, half_keep_target, half_protect_input, half_protect_target, gAnd_gNot, if_true,
    Bool.false_eq_true, if_false, and_self]

/-! ## key plumbing of the SSL branch and of the SSL engines -/

theorem ssl_plumbing_ok (keep : Bool) : plumbingOk (ssl_tail keep) ssl_engine_reads = true := by
  cases keep <;> decide
theorem jssl_plumbing_ok (keep : Bool) : plumbingOk (ssl_tail keep) jssl_engine_reads = true := by
  cases keep <;> decide
/-- the k-space path of the training step is the one `sslOutput` models: prediction masked with the complement of
the input mask (directly, or inside `_forward_operator`), plus the input k-space, projected on the target mask -/
def kpathExpected : List String :=
  ["forward:~mask", "mask:output_kspace:~mask", "dc:kspace+output_kspace",
   "mask:output_kspace:data['target_sampling_mask']"]
theorem ssl_engine_kpath_eq : ssl_engine_kpath = kpathExpected ∧ jssl_engine_kpath = kpathExpected := by decide

/-- outside training the engines read the un-split keys -/
theorem ssl_eval_reads : ssl_engine_reads.evalK = "masked_kspace" ∧ ssl_engine_reads.evalMask = "sampling_mask" ∧
    jssl_engine_reads.evalK = "masked_kspace" ∧ jssl_engine_reads.evalMask = "sampling_mask" := by decide

/-! ## statement order of `_gaussian_split`, seeding -/

def pos (l : List String) (s : String) : Nat := l.idxOf s

/-- reduce before count (the ratio applies to the mask without ACS), clone → protect → cap → fill → input →
`| acs`, every stage exactly once -/
def stagesOk (l : List String) : Bool :=
  (["reduce", "count", "clone", "protect", "cap", "fill", "input", "acs"].all fun s => l.count s == 1) &&
  l.length == 8 &&
  pos l "reduce" < pos l "count" && pos l "reduce" < pos l "clone" && pos l "count" < pos l "cap" &&
  pos l "clone" < pos l "protect" && pos l "protect" < pos l "cap" && pos l "cap" < pos l "fill" &&
  pos l "fill" < pos l "input" && pos l "input" < pos l "acs"

theorem gaussian_stages_ok : stagesOk gaussian_stages = true := by decide

/-- every draw of the split (`_choose_ratio`, `uniform_fill`'s `rng.choice`) is inside
`with temp_seed(self.rng, seed)` -/
theorem draws_seeded : draws_in_temp_seed.all (fun d => d.2) = true ∧ draws_in_temp_seed.length = 3 := by decide

theorem seed_tuple_eq (filename slice : List Nat) : seed_tuple filename slice = seedTuple filename slice := rfl
theorem seed_is_none_eq (useSeed : Bool) : seed_is_none useSeed = !useSeed := by
  cases useSeed <;> decide
theorem gaussian_seed_eq (t : List Nat) : gaussian_seed t = gaussianSeed t := by
  simp only [gaussian_seed, gaussianSeed, Int.fdiv_eq_ediv_of_nonneg _ (Int.natCast_nonneg _)]

/-! ## state kept between calls, the seed across processes, admissible ratios -/

/-- **no splitter keeps anything between calls**: in `direct/ssl/ssl.py` and `direct/ssl/mask_fillers.py` every write to
an object attribute, a class attribute, a module global or a mutable default is a plain `self.<attr> = …` in a
constructor, and no function carries a memoising decorator — so a splitter object is the state-free machine
`runHist none` of the model -/
theorem state_writes_ok : stateWritesOk state_writes = true := by decide

theorem forward_keeps_no_memo : memoOfTable state_writes = none := by
  unfold memoOfTable; rw [state_writes_ok]; rfl

/-- no function on `forward`'s path returns early (a memo hit, a "nothing to do" shortcut) apart from the modelled
early return of `uniform_fill` -/
theorem forward_exits_ok : exitsOk forward_exits = true := by decide

/-- the table speaks about every function `forward` can reach inside the two modules -/
theorem forward_reach_scanned :
    reachCovered state_scanned forward_reach = true ∧ forward_unresolved = [] ∧
      forward_reach.contains "MaskSplitter.forward" = true := by decide

/-- the seed derivation calls nothing that is private to an interpreter process (no salted `hash`, `id`, pid, clock,
`random`) -/
theorem seed_calls_ok : seedCallsOk seed_calls = true := by decide

/-- …and is the model's derivation, which does not read the process at all -/
theorem seed_of_code_eq (p : Proc) (filename slice : List Nat) :
    seedOfCode p filename slice = seed_tuple filename slice := rfl

/-- **every reader of the split keys under `direct/nn`** — the two `_do_iteration`s of `direct/nn/ssl`, the two vSHARP
engines that re-implement the training step, the forward functions of the U-Net and VarNet SSL / JSSL engines —
reads the split input exactly when `engineUsesSplit` says so, and every `_do_iteration` projects on the target mask -/
theorem engine_sites_ok : engine_sites.all engineSiteOk = true := by decide

/-- …and these are all of them (a new reader must be added to the model and to the probes of the check) -/
theorem engine_sites_names : engine_sites.map (·.name) =
    ["SSLMRIModelEngine._do_iteration", "JSSLMRIModelEngine._do_iteration", "Unet2dSSLEngine.forward_function",
     "Unet2dJSSLEngine.forward_function", "EndToEndVarNetSSLEngine.forward_function",
     "EndToEndVarNetJSSLEngine.forward_function", "VSharpNetSSLEngine._do_iteration",
     "VSharpNetJSSLEngine._do_iteration"] := by decide

/-- the k-space path of the vSHARP engines' training step: data consistency with the prediction masked by the complement
of the input mask (inside `_forward_operator`), then the projection on the target mask — `sslOutput` again -/
theorem vsharp_kpath_eq :
    vsharp_ssl_engine_kpath.take 2 = ["dc:kspace+self._forward_operator(output_image,data['sensitivity_map'],~mask)",
                                       "mask:output_kspace:data['target_sampling_mask']"] ∧
    vsharp_jssl_engine_kpath.take 2 = vsharp_ssl_engine_kpath.take 2 := by decide

/-- every test of an enum-valued option (half-split direction, splitter type in the builder) against a `DirectEnum`
member goes through `__eq__` (`==`, `!=`, membership in a list / tuple, `match`) — never identity, never a hash
lookup — so the option may be handed over as the member or as a string of any case (`resolveDir .eq`) -/
theorem enum_compares_ok : enumComparesOk enum_compares = true := by decide

/-- `0 < r < 1` for every ratio, as `ratioValid` -/
theorem ratio_guard_eq (p q : Int) : ratio_guard p q = ratioValid p q := by
  rw [Bool.eq_iff_iff]
  simp only [ratio_guard, ratioValid, Bool.and_eq_true, decide_eq_true_eq, Int.zero_mul, Int.mul_one, Int.one_mul]

end DirectVerif.Bridge.C11
