import DirectVerif.Gen.C15
import DirectVerif.Model.Train
import DirectVerif.Model.C15Engine
/-!
# Bridge C15 — what the translator read in `/repo` is what the model executes
-/
namespace DirectVerif.Bridge.C15
open DirectVerif DirectVerif.Ckpt DirectVerif.Train DirectVerif.Gen.C15

/-- the statement table of `Checkpointer.save` read from /repo is **well formed**: every final name is only ever the
target of a replace from its completely written, closed temporary; `last_model.txt` is replaced after
`model_<it>.pt`; older checkpoints are deleted, if at all, only after the pointer moved (`Props/C15.lean :
crash_safe_all_wf_tables`, `Props/C15Engine.lean : crash_safe_with_pruning` then apply — to any harmless reordering as well) -/
theorem save_table_wf : wfSaveX saveStmts = true := by decide

/-- … its core (the table without pruning statements, if there are any) is a well-formed table … -/
theorem save_table_core_wf : wfSave (saveStmts.filter (· != .prune)) = true := by decide

/-- … and satisfies the structural reading of well-formedness -/
theorem save_table_wf_struct : wfSaveStruct (saveStmts.filter (· != .prune)) = true := by decide

/-- `start_iter = checkpoint["iteration"] + 1` -/
theorem start_iter_eq (label : Int) : start_iter label = resumeStart label := by
  simp only [start_iter, resumeStart]

/-- the kill path saves under `iter_idx - 1` … -/
theorem kill_label_eq (it : Int) : kill_label it = killLabel it := by
  simp only [kill_label, killLabel]

/-- … only when `iter_idx >= 5` -/
theorem kill_guard_eq (it : Int) : kill_guard it = killGuard it := by
  simp only [kill_guard, killGuard]

/-- the periodic checkpoint after iteration `i` is labelled `i` -/
theorem ckpt_label_eq (it : Int) : ckpt_label it = it := by
  simp only [ckpt_label]

/-- `iter_idx >= 5 and (iter_idx % checkpoint_steps == 0 or iter_idx + 1 == total_iter)` -/
theorem ckpt_guard_eq (it ck total : Nat) : ckpt_guard (it : Int) (ck : Int) (total : Int) = ckptGuard it ck total := by
  simp only [ckpt_guard, ckptGuard]
  rw [Int.fmod_eq_emod_of_nonneg _ (Int.natCast_nonneg ck)]
  have e : (it : Int) % (ck : Int) = ((it % ck : Nat) : Int) := by simp
  rw [e]
  have h1 : (decide ((it : Int) ≥ 5)) = decide (it ≥ 5) := by
    by_cases h : it ≥ 5
    · simp [h]; omega
    · simp [h]; omega
  have h2 : ((((it % ck : Nat) : Int)) == 0) = (it % ck == 0) := by
    cases it % ck with
    | zero => simp
    | succ n => simp; omega
  have h3 : (((it : Int) + 1) == (total : Int)) = (it + 1 == total) := by
    rw [Bool.eq_iff_iff]
    simp only [beq_iff_eq]
    omega
  rw [h1, h2, h3]

/-- `_get_warmup_factor_at_iter` -/
theorem warmup_factor_at_eq (m : Sched.Warmup) (cur w : Int) (wf : Rat) :
    warmup_factor_at m cur w wf = Sched.warmupFactorAt m cur w wf := by
  cases m <;> simp [warmup_factor_at, Sched.warmupFactorAt]

/-- `WarmupMultiStepLR.get_lr` -/
theorem multistep_lr_eq (c : Sched.MultiStep) (e : Int) :
    c.lr e = (warmup_factor_at c.method e c.warmupIters c.wf).map
      fun w => multistep_lr c.base w c.gamma c.milestones e := by
  simp only [Sched.MultiStep.lr, warmup_factor_at_eq, multistep_lr]

/-- `WarmupCosineLR.get_lr` -/
theorem cosine_lr_eq (cosPi : Int → Int → Rat) (c : Sched.Cosine) (e : Int) :
    c.lr cosPi e = (warmup_factor_at c.method e c.warmupIters c.wf).map
      fun w => cosine_lr cosPi c.base w c.maxIters e := by
  simp only [Sched.Cosine.lr, warmup_factor_at_eq, cosine_lr]

/-! ### the code around the core (`Model/C15Engine.lean`) -/

/-- `if iteration in ("latest", -1)`: the aliases of "the latest checkpoint" (`-1` is the default of `Engine.predict`) -/
theorem latest_aliases_eq : Gen.C15.latestAliases = C15E.latestAliases := by decide

/-- the `if start_iter > 0 and initialization … elif initialization …` chain of `Engine.train` is **well formed**
(`Props/C15Engine.lean`: `initialization_never_restores_training_state`, `resume_wins_over_initialization` hold for every
well-formed chain) … -/
theorem init_table_wf : C15E.wfInit Gen.C15.initTable = true := by decide

/-- … and is the chain the model executes -/
theorem init_table_eq : Gen.C15.initTable = C15E.initTable := by decide

/-- `validation_loop` ends with `self.models_training_mode()` -/
theorem val_tail_eq : Gen.C15.valTail = C15E.valTail := by decide

/-- constructor unwraps `model` and every `*model` key, `save` is guarded by `save_to_disk`, `Engine.train` writes on the
main process only, `Engine.predict` never writes, no directory listing in the load path, missing keys raise,
`load_models_from_file` passes `only_models=True`, `Engine.train` loads 'latest' only under `if resume:`, the trainer
checkpoints model / optimizer / lr_scheduler / scaler -/
theorem api_facts_wf : C15E.wfApi Gen.C15.apiFacts = true := by decide

theorem guard_core (it c total : Nat) :
    (decide ((it : Int) ≥ 5) && (Int.fmod (it : Int) (c : Int) == 0 || (it : Int) + 1 == (total : Int)))
      = (decide (it ≥ 5) && (it % c == 0 || it + 1 == total)) := by
  rw [Int.fmod_eq_emod_of_nonneg _ (Int.natCast_nonneg c)]
  have e : (it : Int) % (c : Int) = ((it % c : Nat) : Int) := by simp
  rw [e]
  have h1 : (decide ((it : Int) ≥ 5)) = decide (it ≥ 5) := by
    by_cases h : it ≥ 5
    · simp [h]; omega
    · simp [h]; omega
  have h2 : ((((it % c : Nat) : Int)) == 0) = (it % c == 0) := by
    cases it % c with
    | zero => simp
    | succ n => simp; omega
  have h3 : (((it : Int) + 1) == (total : Int)) = (it + 1 == total) := by
    rw [Bool.eq_iff_iff]
    simp only [beq_iff_eq]
    omega
  rw [h1, h2, h3]

/-- `validate_model_at_interval` -/
theorem val_guard_eq (it vs total : Nat) : val_guard (it : Int) (vs : Int) (total : Int) = C15E.valGuard it vs total := by
  simp only [val_guard, C15E.valGuard]
  exact guard_core it vs total

/-- `write_to_logs_at_interval` -/
theorem log_guard_eq (it vs total : Nat) : log_guard (it : Int) (vs : Int) (total : Int) = C15E.logGuard it vs total := by
  simp only [log_guard, C15E.logGuard]
  have h20 : (Int.fmod (it : Int) 20 == 0) = (it % 20 == 0) := by
    rw [Int.fmod_eq_emod_of_nonneg _ (by decide)]
    have e : (it : Int) % 20 = ((it % 20 : Nat) : Int) := by simp
    rw [e]
    cases it % 20 with
    | zero => simp
    | succ n => simp; omega
  have := guard_core it vs total
  by_cases h5 : it ≥ 5
  · have h5' : (it : Int) ≥ 5 := by omega
    simp only [h5, h5', decide_true, Bool.true_and] at this ⊢
    rw [h20, Bool.or_assoc, this, Bool.or_assoc]
  · have h5' : ¬ (it : Int) ≥ 5 := by omega
    simp [h5, h5']

/-- `list(range(lr_step_size, num_iterations, lr_step_size))` in `direct/train.py` -/
theorem solver_steps_eq (step total : Int) : solver_steps step total = C15E.solverSteps step total := rfl

/-- **every object the real engine hands to its Checkpointer passes the `HasStateDict` filter of `save`** (or is `__meta__`):
nothing of the training state is silently left out of a checkpoint — the gradient scaler the engine constructs itself
included (`Props/C15.lean : full_load_restores_every_object` needs exactly this of every key) -/
theorem train_objects_all_kept : C15E.wfTrainObjects Gen.C15.trainObjects = true := by decide

/-- the `with` / `try … finally` structure of `save`: **while an exception unwinds only files are closed** (no rename of a
temporary on the exceptional path), and the annotated table is the table (`Props/C15Engine.lean : exception_safe`) -/
theorem save_unwind_wf : wfUnwind Gen.C15.saveStmtsX = true ∧ Gen.C15.saveStmtsX.map (·.stmt) = saveStmts := by decide

/-- of the statements of the loop body **only `_do_iteration` is inside the `try` that routes to the kill path** (which
labels its checkpoint `iter_idx − 1`): nothing that mutates parameters / optimiser / scheduler / scaler
(`Props/C15Engine.lean : kill_path_after_step_violates`) -/
theorem kill_path_try_wf : C15E.wfTry Gen.C15.tryEvents = true := by decide

end DirectVerif.Bridge.C15
