import DirectVerif.Gen.C15
import DirectVerif.Model.Train
/-!
# Bridge C15 — what the translator read in `/repo` is what the model executes
-/
namespace DirectVerif.Bridge.C15
open DirectVerif DirectVerif.Ckpt DirectVerif.Train DirectVerif.Gen.C15

/-- the statement table of `Checkpointer.save` read from /repo is **well formed**: every final name is only ever the
target of a replace from its completely written, closed temporary; `last_model.txt` is replaced after
`model_<it>.pt` (`Props/C15.lean : crash_safe_all_wf_tables` then applies — to any harmless reordering as well) -/
theorem save_table_wf : wfSave saveStmts = true := by decide

/-- … and satisfies the structural reading of well-formedness -/
theorem save_table_wf_struct : wfSaveStruct saveStmts = true := by decide

/-- `start_iter = checkpoint["iteration"] + 1` -/
theorem start_iter_eq (label : Int) : start_iter label = resumeStart label := by
  simp only [start_iter, resumeStart]

/-- the kill path saves under `iter_idx - 1` … -/
theorem kill_label_eq (it : Int) : kill_label it = killLabel it := by
  simp only [kill_label, killLabel]

/-- … only when `iter_idx >= 5` -/
theorem kill_guard_eq (it : Int) : kill_guard it = killGuard it := by
  simp only [kill_guard, killGuard]

/-- the periodic checkpoint after iteration `i` is labelled `i` -/
theorem ckpt_label_eq (it : Int) : ckpt_label it = it := by
  simp only [ckpt_label]

/-- `iter_idx >= 5 and (iter_idx % checkpoint_steps == 0 or iter_idx + 1 == total_iter)` -/
theorem ckpt_guard_eq (it ck total : Nat) : ckpt_guard (it : Int) (ck : Int) (total : Int) = ckptGuard it ck total := by
  simp only [ckpt_guard, ckptGuard]
  rw [Int.fmod_eq_emod_of_nonneg _ (Int.natCast_nonneg ck)]
  have e : (it : Int) % (ck : Int) = ((it % ck : Nat) : Int) := by simp
  rw [e]
  have h1 : (decide ((it : Int) ≥ 5)) = decide (it ≥ 5) := by
    by_cases h : it ≥ 5
    · simp [h]; omega
    · simp [h]; omega
  have h2 : ((((it % ck : Nat) : Int)) == 0) = (it % ck == 0) := by
    cases it % ck with
    | zero => simp
    | succ n => simp; omega
  have h3 : (((it : Int) + 1) == (total : Int)) = (it + 1 == total) := by
    rw [Bool.eq_iff_iff]
    simp only [beq_iff_eq]
    omega
  rw [h1, h2, h3]

/-- `_get_warmup_factor_at_iter` -/
theorem warmup_factor_at_eq (m : Sched.Warmup) (cur w : Int) (wf : Rat) :
    warmup_factor_at m cur w wf = Sched.warmupFactorAt m cur w wf := by
  cases m <;> simp [warmup_factor_at, Sched.warmupFactorAt]

/-- `WarmupMultiStepLR.get_lr` -/
theorem multistep_lr_eq (c : Sched.MultiStep) (e : Int) :
    c.lr e = (warmup_factor_at c.method e c.warmupIters c.wf).map
      fun w => multistep_lr c.base w c.gamma c.milestones e := by
  simp only [Sched.MultiStep.lr, warmup_factor_at_eq, multistep_lr]

/-- `WarmupCosineLR.get_lr` -/
theorem cosine_lr_eq (cosPi : Int → Int → Rat) (c : Sched.Cosine) (e : Int) :
    c.lr cosPi e = (warmup_factor_at c.method e c.warmupIters c.wf).map
      fun w => cosine_lr cosPi c.base w c.maxIters e := by
  simp only [Sched.Cosine.lr, warmup_factor_at_eq, cosine_lr]

end DirectVerif.Bridge.C15
