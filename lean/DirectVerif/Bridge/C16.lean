import DirectVerif.Gen.C16
import DirectVerif.Model.Train
/-!
# Bridge C16 — the loop body translated from `/repo` is the one the model interprets
-/
namespace DirectVerif.Bridge.C16
open DirectVerif DirectVerif.Train DirectVerif.Gen.C16

/-- statement order and guards of `Engine.training_loop` = the table `Train.iter` interprets -/
theorem loop_table_eq : Gen.C16.loopTable = Train.loopTable := by decide

/-- "`zero_grad` occurs only inside the step branch, after the optimiser step" (and the rest of `wfLoop`) -/
theorem loop_table_wf : wfLoop Gen.C16.loopTable = true := by decide

/-- every engine class of direct/nn only *adds* its batch's gradient to `.grad` (`wfEngine`): what `Ops.grad` stands for -/
theorem engine_rows_wf : wfEngines engineRows = true := by decide

/-- `div_(gradient_steps)` and `clip_grad_norm_` act on the gradients of `self.model` and of every model in
`self.models` (what `Toy.opsAux` / `Props/C16.lean : additional_models_receive_mean` assume) -/
theorem div_scope_eq : divScope = .allModels ∧ clipScope = .allModels := by decide

/-- `(iter_idx + 1) % gradient_steps == 0` -/
theorem step_guard_eq (it k : Nat) : step_guard (it : Int) (k : Int) = evalGuard { k := k } it .stepBranch := by
  simp only [step_guard, evalGuard]
  rw [Int.fmod_eq_emod_of_nonneg _ (Int.natCast_nonneg k)]
  have : ((it : Int) + 1) % (k : Int) = (((it + 1) % k : Nat) : Int) := by
    simp
  rw [this]
  cases h : (it + 1) % k with
  | zero => simp
  | succ n => simp; omega

/-- `gradient_steps > 1` -/
theorem div_guard_eq (it : Int) (k : Nat) : div_guard it (k : Int) = evalGuard { k := k } 0 .kGt1 := by
  simp only [div_guard, evalGuard]
  by_cases h : k > 1
  · simp [h]; omega
  · simp [h]; omega

end DirectVerif.Bridge.C16
