import DirectVerif.Gen.C16
import DirectVerif.Model.Train
/-!
# Bridge C16 — the loop body translated from `/repo` is the one the model interprets
-/
namespace DirectVerif.Bridge.C16
open DirectVerif DirectVerif.Train DirectVerif.Gen.C16

/-- statement order and guards of `Engine.training_loop` = the table `Train.iter` interprets -/
theorem loop_table_eq : Gen.C16.loopTable = Train.loopTable := by decide

/-- "`zero_grad` occurs only inside the step branch, after the optimiser step" (and the rest of `wfLoop`) -/
theorem loop_table_wf : wfLoop Gen.C16.loopTable = true := by decide

/-- every engine class of direct/nn only *adds* its batch's gradient to `.grad` (`wfEngine`): what `Ops.grad` stands for -/
theorem engine_rows_wf : wfEngines engineRows = true := by decide

/-- `div_(gradient_steps)` and `clip_grad_norm_` act on the gradients of `self.model` and of every model in
`self.models` (what `Toy.opsAux` / `Props/C16.lean : additional_models_receive_mean` assume) -/
theorem div_scope_eq : divScope = .allModels ∧ clipScope = .allModels := by decide

/-- `(iter_idx + 1) % gradient_steps == 0` -/
theorem step_guard_eq (it k : Nat) : step_guard (it : Int) (k : Int) = evalGuard { k := k } it .stepBranch := by
  simp only [step_guard, evalGuard]
  rw [Int.fmod_eq_emod_of_nonneg _ (Int.natCast_nonneg k)]
  have : ((it : Int) + 1) % (k : Int) = (((it + 1) % k : Nat) : Int) := by
    simp
  rw [this]
  cases h : (it + 1) % k with
  | zero => simp
  | succ n => simp; omega

/-- `gradient_steps > 1` -/
theorem div_guard_eq (it : Int) (k : Nat) : div_guard it (k : Int) = evalGuard { k := k } 0 .kGt1 := by
  simp only [div_guard, evalGuard]
  by_cases h : k > 1
  · simp [h]; omega
  · simp [h]; omega

/-! ### between iterations -/

/-- the statements of `validation_loop` / `evaluate` / `reconstruct_volumes` / `checkpoint_model_at_interval` /
`Checkpointer.save` / `write_to_logs…` / `checkpoint_and_write_to_logs` / `log_first_training_example_and_model` and of the
prologue of `Engine.train` that touch `.grad`, optimiser, scheduler or scaler = the table `C16E.history` interprets -/
theorem between_table_eq : Gen.C16.betweenTable = C16E.table := by decide

/-- … i.e. none, except the prologue's `optimizer.zero_grad()` — which must be there -/
theorem between_table_wf : C16E.wfBetween Gen.C16.betweenTable = true := by decide

/-- first-example logging and `start_with_validation` precede `_do_iteration`; checkpoint, log write and validation follow
`lr_scheduler.step()`; nothing in between -/
theorem loop_calls_eq :
    preCalls = C16E.preOrder ∧ midCalls = [] ∧ postCalls = C16E.postOrder := by decide

/-- `start_iter = checkpoint["iteration"] + 1` (and nothing else happens to `start_iter` before `training_loop`) -/
theorem resume_start_eq (label k : Int) : resume_start label k = C16E.resumeStart label k := by
  first
    | rfl
    | (simp only [resume_start, C16E.resumeStart]; omega)

theorem guard_core16 (it c total : Nat) :
    (decide ((it : Int) ≥ 5) && (Int.fmod (it : Int) (c : Int) == 0 || (it : Int) + 1 == (total : Int)))
      = (decide (it ≥ 5) && (it % c == 0 || it + 1 == total)) := by
  rw [Int.fmod_eq_emod_of_nonneg _ (Int.natCast_nonneg c)]
  have e : (it : Int) % (c : Int) = ((it % c : Nat) : Int) := by simp
  rw [e]
  have h1 : (decide ((it : Int) ≥ 5)) = decide (it ≥ 5) := by
    by_cases h : it ≥ 5
    · simp [h]; omega
    · simp [h]; omega
  have h2 : ((((it % c : Nat) : Int)) == 0) = (it % c == 0) := by
    cases it % c with
    | zero => simp
    | succ n => simp; omega
  have h3 : (((it : Int) + 1) == (total : Int)) = (it + 1 == total) := by
    rw [Bool.eq_iff_iff]
    simp only [beq_iff_eq]
    omega
  rw [h1, h2, h3]

/-- `validate_model_at_interval`: which iterations are followed by a validation round -/
theorem val_guard_eq (it vs total : Nat) : val_guard (it : Int) (vs : Int) (total : Int) = C16E.valGuard it vs total := by
  simp only [val_guard, C16E.valGuard]
  exact guard_core16 it vs total

/-- `clip_grad_norm_` is called once, on the flat list of the parameters of `self.model` and of all `self.models` -/
theorem clip_form_eq : Gen.C16.clipForm = C16E.clipForm := by decide

/-- every `zero_grad` call of the loop body (OOM recovery, step branch) leaves `.grad = None` (`set_to_none` is not False) -/
theorem zero_forms_eq : Gen.C16.zeroGradForms = C16E.zeroGradForms := by decide

theorem zero_forms_wf : C16E.wfZero Gen.C16.zeroGradForms = true := by decide

/-! ### mixed precision -/

/-- order and guards of `div_` / `unscale_` / `clip_grad_norm_` / `scaler.step` / `scaler.update` in the step branch -/
theorem amp_table_eq : Gen.C16.ampTable = C16E.ampTable := by decide

theorem amp_table_wf : C16E.wfAmp Gen.C16.ampTable = true := by decide

end DirectVerif.Bridge.C16
