import DirectVerif.Gen.C20
/-!
# Bridge C20 — structural facts read from the source agree with what the model assumes

`build_transforms_from_environment` removes exactly the key `masking` from a dataset block's `transforms` before it
flattens them into keyword arguments; the model's `transformsCheck` removes `tables.kMasking`.
-/
namespace DirectVerif.Bridge.C20
open DirectVerif DirectVerif.Config DirectVerif.Gen.C20

theorem removed_transform_keys_eq : removedTransformKeys = [tables.strOf tables.kMasking] := by decide +kernel

/-- the well-known keys of the tables are the strings the code uses -/
theorem well_known_keys :
    (tables.strOf tables.kName, tables.strOf tables.kModelName, tables.strOf tables.kEngineName) =
      ([110, 97, 109, 101], [109, 111, 100, 101, 108, 95, 110, 97, 109, 101],
       [101, 110, 103, 105, 110, 101, 95, 110, 97, 109, 101]) := by decide +kernel

end DirectVerif.Bridge.C20
