import DirectVerif.Gen.C20
import DirectVerif.Lemmas.C20Split
/-!
# Bridge C20 — what the translator read from the source equals what the model computes

* the string arithmetic of every name look-up (`load_model_from_name`, `load_model_config_from_name`, `setup_engine`,
  `load_dataset_config`, `build_operators`, `build_masking_function`, `build_dataset`, `Engine.build_metrics`), translated
  from the Python AST to functions on code-point lists, equals the model's `…Target` functions **for every name**;
* the statement order of `setup_common_environment` is the one `mergeCheck` / `checkConfig` assume: models are loaded and
  merged before the key loop, the loop skips `models` / `additional_models`, skips falsy sections, resolves the dataset config
  classes of a section before merging it, merges every remaining key exactly once, and operators / model / engine come after;
* `dict_flatten` recurses into maps, drops the intermediate key and keeps leaves under their own key (`flattenKVs`);
* `build_transforms_from_environment` / `build_inference_transforms` remove exactly `masking` before flattening.
-/
namespace DirectVerif.Bridge.C20
open DirectVerif DirectVerif.Config DirectVerif.Gen.C20

theorem load_model_target_eq : loadModelTarget = modelTarget := by
  funext n; simp [loadModelTarget, modelTarget, strDirectNn]

theorem load_model_config_target_eq : loadModelConfigTarget = modelConfigTarget := by
  funext n; simp [loadModelConfigTarget, modelConfigTarget, strDirectNn, strDotConfig, strConfig, lastPart_config]

theorem setup_engine_target_eq : setupEngineTarget = engineTarget := by
  funext n e; cases e <;> simp [setupEngineTarget, engineTarget, strDirectNn, strEngineMod, strEngine, dot]

theorem load_dataset_config_target_eq : loadDatasetConfigTarget = datasetConfigTarget := by
  funext n; simp [loadDatasetConfigTarget, datasetConfigTarget, strModDatasetsConfig, strConfig]

theorem build_operators_target_eq : buildOperatorsTarget = operatorTarget := by
  funext n; simp [buildOperatorsTarget, operatorTarget, strModTransforms]

theorem build_masking_function_target_eq : buildMaskingFunctionTarget = maskFuncTarget := by
  funext n; simp [buildMaskingFunctionTarget, maskFuncTarget, strModSubsample, strMaskFunc]

theorem build_dataset_target_eq : buildDatasetTarget = datasetClassTarget := by
  funext n; simp [buildDatasetTarget, datasetClassTarget, strModDatasets, strDataset]

theorem build_metrics_target_eq : buildMetricsTarget = functionalTarget := by
  funext n; simp [buildMetricsTarget, functionalTarget, strModFunctionals]

/-! ## statement order of `setup_common_environment` -/

/-- `xs` occur in `ys` in this order (other entries in between are ignored: harmless rewrites stay quiet) -/
def subseq : List Nat → List Nat → Bool
  | [], _ => true
  | _ :: _, [] => false
  | x :: xs, y :: ys => if x = y then subseq xs ys else subseq (x :: xs) ys

/-- the order facts the model relies on -/
def mergeOrderOk (steps : List (Nat × Nat)) : Bool :=
  let codes := steps.map (·.1)
  -- defaults and models before the loop, the loop before operators / model / engine
  subseq [2, 3, 4, 5, 9, 15, 16, 17] codes &&
  subseq [2, 6, 9] codes && subseq [2, 7, 9] codes && subseq [2, 8, 9] codes &&
  -- inside the loop: skip list first, then the falsy-section skip, dataset config classes, then the merge — once, at loop level
  subseq [9, 10, 11, 12, 14] codes && subseq [9, 10, 11, 13, 14] codes &&
  (steps.filter fun s => s.1 = 14) == [(14, 1)] &&
  (steps.filter fun s => s.1 = 10) == [(10, 1)] &&
  (steps.filter fun s => s.1 = 9) == [(9, 0)] &&
  -- every one-off step occurs exactly once
  ([2, 3, 4, 5, 6, 7, 8, 11, 12, 13, 15, 16, 17].all fun c => (codes.filter (· = c)).length = 1)

theorem merge_order_as_modelled : mergeOrderOk mergeSteps = true := by decide +kernel

/-- the same strings, in any order and however the key lists are spelled (literal lists, module tuples, `a or b` tests) -/
def sameKeys (xs ys : List (List Nat)) : Bool := xs.all (ys.contains ·) && ys.all (xs.contains ·)

/-- the keys skipped by the loop / treated as typed sections are the model's -/
theorem merge_keys_as_modelled :
    sameKeys mergeSkippedKeys [tables.strOf tables.kModels, tables.strOf tables.kAdditionalModels] = true ∧
    sameKeys mergeSectionKeys
      [tables.strOf tables.kTraining, tables.strOf tables.kValidation, tables.strOf tables.kInference] = true := by
  decide +kernel

/-- a dropped key is noticed -/
example : sameKeys [[109, 111, 100, 101, 108, 115]] [[109, 111, 100, 101, 108, 115], [97]] = false := by decide

/-- a wrong order is rejected by the predicate (merge before the models are loaded; two merges) -/
example : mergeOrderOk [(2, 0), (9, 0), (10, 1), (11, 2), (12, 4), (13, 3), (14, 1), (3, 0), (4, 0), (5, 0), (6, 0), (7, 0),
    (8, 0), (15, 0), (16, 0), (17, 0)] = false := by decide
example : mergeOrderOk (mergeSteps ++ [(14, 1)]) = false := by decide +kernel

/-! ## `dict_flatten`, removed keys, well-known keys -/

theorem dict_flatten_as_modelled : dictFlattenShape = [1, 1, 1, 1] := by decide

theorem removed_transform_keys_eq :
    removedTransformKeys = [tables.strOf tables.kMasking] ∧ removedInferenceTransformKeys = [tables.strOf tables.kMasking] := by
  decide +kernel

/-- the well-known keys of the tables are the strings the code uses -/
theorem well_known_keys :
    (tables.strOf tables.kName, tables.strOf tables.kModelName, tables.strOf tables.kEngineName) =
      ([110, 97, 109, 101], [109, 111, 100, 101, 108, 95, 110, 97, 109, 101],
       [101, 110, 103, 105, 110, 101, 95, 110, 97, 109, 101]) := by decide +kernel

end DirectVerif.Bridge.C20
