import DirectVerif.Gen.C17
import DirectVerif.Model.Shapes
import DirectVerif.Model.ShapesChan
import DirectVerif.Lemmas.C17Nets
/-!
# Bridge C17 — the pad / crop arithmetic translated from `/repo` equals the hand-written shape model

Fixed scripts (`simp only [defs …]; omega`, `decide` for the literal tables).  Sizes are natural numbers in the model and
Python ints in the translation, hence the casts.
-/
namespace DirectVerif.Bridge.C17
open DirectVerif DirectVerif.Shapes DirectVerif.Gen.C17

theorem pyOr_mult (n : Nat) : Shapes.pyOr ((n : Int) - 1) 15 + 1 = (mult16 n : Int) := by
  cases n with
  | zero => decide
  | succ k =>
    have e : ((k + 1 : Nat) : Int) - 1 = (k : Int) := by omega
    simp only [e, pyOr, mult16, Int.natCast_nonneg, if_true, Int.toNat_natCast, Nat.add_sub_cancel, Nat.succ_ne_zero, if_false]
    rfl

/-- `((w − 1) | 15) + 1` -/
theorem normunet_w_mult_eq (n : Nat) : normunet_w_mult n = (mult16 n : Int) := by
  first | exact pyOr_mult n | simp only [normunet_w_mult, Int.toNat_natCast]
theorem normunet_h_mult_eq (n : Nat) : normunet_h_mult n = (mult16 n : Int) := by
  first | exact pyOr_mult n | simp only [normunet_h_mult, Int.toNat_natCast]
theorem normunet3d_z_mult_eq (n : Nat) : normunet3d_z_mult n = (mult16 n : Int) := by
  first | exact pyOr_mult n | simp only [normunet3d_z_mult, Int.toNat_natCast]

/-- the pad amounts at `m = mult16 n`: floor and ceiling of half the difference — whatever spelling the source uses
(`math.floor(d / 2)` / `math.ceil(d / 2)`, `d // 2` / `d - d // 2`, with `m` a parameter or inlined as `((n − 1) | 15) + 1`):
the equality is arithmetic, proved by `omega` after normalising the bit trick with `pyOr_mult` -/
theorem normunet_w_pad_lo_eq (n : Nat) : normunet_w_pad_lo (mult16 n) n = (pad16Lo n : Int) := by
  have := C17L.le_mult16 n
  simp only [normunet_w_pad_lo, pad16Lo, pyOr_mult, Int.fdiv_eq_ediv_of_nonneg _ (by decide : (0 : Int) ≤ 2)]; omega
theorem normunet_w_pad_hi_eq (n : Nat) : normunet_w_pad_hi (mult16 n) n = (pad16Hi n : Int) := by
  have := C17L.le_mult16 n
  simp only [normunet_w_pad_hi, pad16Hi, pyOr_mult, Int.fdiv_eq_ediv_of_nonneg _ (by decide : (0 : Int) ≤ 2)]; omega
theorem normunet_h_pad_lo_eq (n : Nat) : normunet_h_pad_lo (mult16 n) n = (pad16Lo n : Int) := by
  have := C17L.le_mult16 n
  simp only [normunet_h_pad_lo, pad16Lo, pyOr_mult, Int.fdiv_eq_ediv_of_nonneg _ (by decide : (0 : Int) ≤ 2)]; omega
theorem normunet_h_pad_hi_eq (n : Nat) : normunet_h_pad_hi (mult16 n) n = (pad16Hi n : Int) := by
  have := C17L.le_mult16 n
  simp only [normunet_h_pad_hi, pad16Hi, pyOr_mult, Int.fdiv_eq_ediv_of_nonneg _ (by decide : (0 : Int) ≤ 2)]; omega

/-- the model's pad amounts are these with `m = mult16 n` -/
theorem pad16_amounts (n : Nat) : pad16Lo n = (mult16 n - n) / 2 ∧ pad16Hi n = (mult16 n - n + 1) / 2 := ⟨rfl, rfl⟩

/-- `x[..., lo : m − hi]` on both axes -/
theorem normunet_unpad_eq (lo hi m : Int) :
    normunet_unpad_h_lower lo hi m = lo ∧ normunet_unpad_h_upper lo hi m = m - hi ∧
      normunet_unpad_w_lower lo hi m = lo ∧ normunet_unpad_w_upper lo hi m = m - hi := ⟨rfl, rfl, rfl, rfl⟩

/-- … which on an axis of length `c` keeps `min (m − hi) c − min lo c` samples: the model's `unpad16` -/
theorem unpad16_is_slice (orig c : Nat) :
    unpad16 orig c = min (mult16 orig - pad16Hi orig) c - min (pad16Lo orig) c := rfl

theorem normunet_pad_order_eq : normunet_pad_order = ["w_pad", "h_pad"] ∧ normunet3d_pad_order = ["w_pad", "h_pad", "z_pad"] ∧
    normunet_pad_modes = ["constant"] := by decide

/-- `pad_to_pow_of_2` -/
theorem pow2_model (n k : Nat) : (n : Int) + (pow2Lo k n : Int) + (pow2Hi k n : Int) = (padPow2 k n : Int) := by
  simp only [pow2Lo, pow2Hi, padPow2]
  generalize 2 ^ k = P
  split <;> omega

theorem pow2_eq (n k : Nat) : pow2_lo n k = (pow2Lo k n : Int) ∧ pow2_hi n k = (pow2Hi k n : Int) ∧
    (n : Int) + pow2_lo n k + pow2_hi n k = (padPow2 k n : Int) := by
  first
  | (have e : ((2 : Int) ^ ((k : Int).toNat)) = ((2 ^ k : Nat) : Int) := by
       rw [Int.toNat_natCast, Int.natCast_pow]; rfl
     simp only [pow2_lo, pow2_hi, pow2Lo, pow2Hi, padPow2, e, Int.fdiv_eq_ediv_of_nonneg _ (by decide : (0 : Int) ≤ 2)]
     generalize 2 ^ k = P
     refine ⟨?_, ?_, ?_⟩ <;> (repeat' split) <;> (try simp only [decide_eq_true_eq] at *) <;> omega)
  | (-- fallback form (kernel skipped): the generated definitions are the model's
     simp only [pow2_lo, pow2_hi, Int.toNat_natCast, true_and]
     exact pow2_model n k)

theorem pow2_tables : pow2_pad_modes = ["constant"] ∧ unet3d_unpad = [[2, 4, 2, 5], [3, 2, 3, 3], [4, 0, 4, 1]] := by decide

/-- `crop_to_shape` (three copies) -/
theorem crop_eq (n s : Nat) : mwcnn_crop_h n s = (cropTo s n : Int) ∧ mwcnn_crop_w n s = (cropTo s n : Int) ∧
    dub_crop_h n s = (cropTo s n : Int) ∧ dub_crop_w n s = (cropTo s n : Int) ∧
    didn_crop_h n s = (cropTo s n : Int) ∧ didn_crop_w n s = (cropTo s n : Int) := by
  simp only [mwcnn_crop_h, mwcnn_crop_w, dub_crop_h, dub_crop_w, didn_crop_h, didn_crop_w, cropTo, pyMin]
  refine ⟨?_, ?_, ?_, ?_, ?_, ?_⟩ <;> (repeat' split) <;> (try simp only [decide_eq_true_eq] at *) <;> omega

/-- IWT doubles (factor `self._r`) -/
theorem iwt_eq (r n : Int) : iwt_out_height r n = r * n ∧ iwt_out_width r n = r * n := ⟨rfl, rfl⟩

theorem dwt_slices_eq : dwt_slices = [[2, 0, 2], [2, 1, 2], [3, 0, 2], [3, 0, 2], [3, 1, 2], [3, 1, 2]] := by decide

theorem even1 (n : Nat) : (if (Int.fmod (n : Int) 2 != 0) then (1 : Int) else 0) = ((padEvenOut n - n : Nat) : Int) := by
  simp only [padEvenOut, Int.fmod_eq_emod_of_nonneg _ (by decide : (0 : Int) ≤ 2), bne_iff_ne, ne_eq]
  split <;> omega

/-- reflect pad by one on odd axes: `F.pad` list `[0, p_w, 0, p_h]` — whether written `1 if n % 2 != 0 else 0` or `n % 2` -/
theorem pad_even_list_eq (h w : Nat) :
    mwcnn_pad_list h w = [0, ((padEvenOut w - w : Nat) : Int), 0, ((padEvenOut h - h : Nat) : Int)] ∧
      dub_pad_list h w = [0, ((padEvenOut w - w : Nat) : Int), 0, ((padEvenOut h - h : Nat) : Int)] := by
  have e2 : ∀ n : Nat, Int.fmod (n : Int) 2 = ((padEvenOut n - n : Nat) : Int) := by
    intro n; simp only [padEvenOut, Int.fmod_eq_emod_of_nonneg _ (by decide : (0 : Int) ≤ 2)]; omega
  have e1 : ∀ n : Nat, (if (((padEvenOut n - n : Nat) : Int) != 0) then (1 : Int) else 0) = ((padEvenOut n - n : Nat) : Int) := by
    intro n; simp only [padEvenOut, bne_iff_ne, ne_eq]; split <;> omega
  constructor <;> simp only [mwcnn_pad_list, dub_pad_list, e2, e1]

theorem pad_modes_eq : mwcnn_pad_modes = ["reflect"] ∧ dub_pad_modes = ["reflect"] ∧ unet2d_pad_modes = ["reflect"] ∧
    unet3d_pad_modes = ["reflect"] := by decide

theorem up1 (o d : Nat) : (if ((o : Int) != (d : Int)) then (1 : Int) else 0) = ((upPad d o : Nat) : Int) := by
  simp only [upPad, bne_iff_ne, ne_eq, Int.natCast_inj]
  split <;> rfl

/-- U-Net up path: pad by one exactly where the up-sampled size differs from the skip connection -/
theorem unet_up_padding_eq (o1 d1 o2 d2 : Nat) :
    unet2d_up_padding o1 d1 o2 d2 = [0, (upPad d1 o1 : Int), 0, (upPad d2 o2 : Int)] ∧
      multidomain_up_padding o1 d1 o2 d2 = [0, (upPad d1 o1 : Int), 0, (upPad d2 o2 : Int)] := by
  simp only [unet2d_up_padding, multidomain_up_padding, up1, and_self]

theorem unet3d_up_padding_eq (o1 d1 o2 d2 o3 d3 : Nat) :
    unet3d_up_padding o1 d1 o2 d2 o3 d3 = [0, (upPad d1 o1 : Int), 0, (upPad d2 o2 : Int), 0, (upPad d3 o3 : Int)] := by
  simp only [unet3d_up_padding, up1]

/-- pooling literals are the ones of `UnetP.std` -/
theorem pool_eq : unet2d_pool = [(UnetP.std.pk : Int), UnetP.std.ps, 0] ∧ unet3d_pool = [(UnetP.std.pk : Int), UnetP.std.ps, 0] ∧
    multidomain_pool = [(UnetP.std.pk : Int), UnetP.std.ps, 0] := by decide

/-- Conv2dGRU block `idx`: the model's `gruBlock` uses exactly the translated kernel / dilation / padding expressions
(zero padding `2 if idx in (0, 1) else 1` after the repair) -/
theorem gru_block_eq (idx : Nat) :
    gruBlock false idx = [.conv (gru_kernel idx).toNat 1 (gru_padding 0 idx).toNat (gru_dilation idx).toNat] ∧
      gruBlock true idx = [.replPad (gru_repl_pad idx).toNat,
        .conv (gru_kernel idx).toNat 1 (gru_padding 1 idx).toNat (gru_dilation idx).toNat] := by
  simp only [gruBlock, gru_kernel, gru_padding, gru_dilation, gru_repl_pad]
  by_cases h0 : idx = 0
  · subst h0; decide
  · by_cases h1 : idx = 1
    · subst h1; decide
    · have a : ¬ ((idx : Int) = 0) := by omega
      have b : ¬ ((idx : Int) = 1) := by omega
      simp [h0, h1, a, b]


/-- no functional pad / pool / interpolate / fold call under `direct/nn` outside the functions the shape model covers (and
the table is not empty: the scan found the known sites) -/
theorem size_sites_ok : sizeSitesOk size_sites = true ∧ 8 ≤ size_sites.length := by decide

/-! ## forward programs: the AST of every `forward`, interpreted on instantiated modules, is the expansion of the
hand-written shape program the theorems are about (`C17.expanded_program_equiv` relates the two semantically) -/

theorem forward_unet2d_eq :
    fw_unet2d_L1 = expand (unet UnetP.std 1) ∧
    fw_unet2d_L2 = expand (unet UnetP.std 2) ∧
    fw_unet2d_L3 = expand (unet UnetP.std 3) ∧
    fw_unet2d_L4 = expand (unet UnetP.std 4) ∧
    fw_unet2d_L5 = expand (unet UnetP.std 5) := by decide

theorem forward_normunet2d_eq :
    fw_normunet2d_L1 = expand (normUnet UnetP.std 1) ∧
    fw_normunet2d_L2 = expand (normUnet UnetP.std 2) ∧
    fw_normunet2d_L3 = expand (normUnet UnetP.std 3) ∧
    fw_normunet2d_L4 = expand (normUnet UnetP.std 4) := by decide

theorem forward_unet3d_eq :
    fw_unet3d_L1 = expand (unet3d UnetP.std 1) ∧
    fw_unet3d_L2 = expand (unet3d UnetP.std 2) ∧
    fw_unet3d_L3 = expand (unet3d UnetP.std 3) := by decide

theorem forward_normunet3d_eq :
    fw_normunet3d_L1 = expand (normUnet3d UnetP.std 1) ∧
    fw_normunet3d_L2 = expand (normUnet3d UnetP.std 2) := by decide

theorem forward_mwcnn_eq :
    fw_mwcnn_S1 = expand (mwcnn MwP.std 1) ∧
    fw_mwcnn_S2 = expand (mwcnn MwP.std 2) ∧
    fw_mwcnn_S3 = expand (mwcnn MwP.std 3) ∧
    fw_mwcnn_S4 = expand (mwcnn MwP.std 4) ∧
    fw_mwcnn_S5 = expand (mwcnn MwP.std 5) ∧
    fw_mwcnn_S3_bn = expand (mwcnn MwP.std 3) := by decide

theorem forward_dub_eq :
    fw_dub_hooked = expand (dub DidnP.std true) ∧
    fw_dub_plain = expand (dub DidnP.std false) := by decide

theorem forward_didn_eq :
    fw_didn_1_1_noskip = expand (didn DidnP.std 1 1 false) ∧
    fw_didn_1_1_skip = expand (didn DidnP.std 1 1 true) ∧
    fw_didn_2_3_noskip = expand (didn DidnP.std 2 3 false) ∧
    fw_didn_2_3_skip = expand (didn DidnP.std 2 3 true) ∧
    fw_didn_3_2_noskip = expand (didn DidnP.std 3 2 false) ∧
    fw_didn_3_2_skip = expand (didn DidnP.std 3 2 true) := by decide

theorem forward_resnet_eq :
    fw_resnet_B1 = expand (resnet 3 1 1) ∧
    fw_resnet_B2 = expand (resnet 3 1 2) ∧
    fw_resnet_B3 = expand (resnet 3 1 3) ∧
    fw_resnet_B2_nobn = expand (resnet 3 1 2) := by decide

theorem forward_conv_eq :
    fw_conv_N1 = expand (convNet 3 1 false 1) ∧
    fw_conv_N1_bn = expand (convNet 3 1 true 1) ∧
    fw_conv_N2 = expand (convNet 3 1 false 2) ∧
    fw_conv_N2_bn = expand (convNet 3 1 true 2) ∧
    fw_conv_N3 = expand (convNet 3 1 false 3) ∧
    fw_conv_N3_bn = expand (convNet 3 1 true 3) ∧
    fw_conv_N4 = expand (convNet 3 1 false 4) ∧
    fw_conv_N4_bn = expand (convNet 3 1 true 4) := by decide

theorem forward_gru_eq :
    fw_gru_repl_noin_1 = expand (gru true false 1) ∧
    fw_gru_repl_noin_2 = expand (gru true false 2) ∧
    fw_gru_repl_noin_3 = expand (gru true false 3) ∧
    fw_gru_repl_in_1 = expand (gru true true 1) ∧
    fw_gru_repl_in_2 = expand (gru true true 2) ∧
    fw_gru_repl_in_3 = expand (gru true true 3) ∧
    fw_gru_zero_noin_1 = expand (gru false false 1) ∧
    fw_gru_zero_noin_2 = expand (gru false false 2) ∧
    fw_gru_zero_noin_3 = expand (gru false false 3) ∧
    fw_gru_zero_in_1 = expand (gru false true 1) ∧
    fw_gru_zero_in_2 = expand (gru false true 2) ∧
    fw_gru_zero_in_3 = expand (gru false true 3) := by decide

theorem forward_normgru_eq :
    fw_normgru_2 = expand (gru true false 2) := by decide


/-! ## channel programs: the channel arithmetic read from the AST of every `forward` (and from the `in_channels` /
`out_channels` of the instantiated layers, i.e. from the width arithmetic of every `__init__`) is the hand-written
parametric channel program the full-shape theorems are about.  Widths are pairwise different where the architecture
allows. -/

theorem channels_unet2d_eq :
    fwc_unet2d_2_2_2_L1 = unetC 2 2 2 1 ∧
    fwc_unet2d_3_5_2_L2 = unetC 3 5 2 2 ∧
    fwc_unet2d_2_2_3_L3 = unetC 2 2 3 3 ∧
    fwc_unet2d_4_2_2_L4 = unetC 4 2 2 4 := by decide

theorem channels_mdunet_eq :
    fwc_mdunet_2_2_4_L1 = mdUnetC 2 2 4 1 ∧
    fwc_mdunet_4_3_2_L2 = mdUnetC 4 3 2 2 ∧
    fwc_mdunet_2_5_6_L3 = mdUnetC 2 5 6 3 ∧
    fwc_mdunet_6_2_4_L0 = mdUnetC 6 2 4 0 := by decide

theorem channels_normunet2d_eq :
    fwc_normunet2d_2_2_2_L2 = normUnetC 2 2 2 2 ∧
    fwc_normunet2d_6_2_3_L1 = normUnetC 6 2 3 1 ∧
    fwc_normunet2d_4_4_2_L4 = normUnetC 4 4 2 4 := by decide

theorem channels_unet3d_eq :
    fwc_unet3d_2_2_2_L1 = unetC 2 2 2 1 ∧
    fwc_unet3d_3_2_2_L2 = unetC 3 2 2 2 ∧
    fwc_unet3d_6_2_3_L3 = unetC 6 2 3 3 := by decide

theorem channels_normunet3d_eq :
    fwc_normunet3d_2_2_2_L1 = normUnetC 2 2 2 1 ∧
    fwc_normunet3d_6_2_3_L2 = normUnetC 6 2 3 2 := by decide

theorem channels_mwcnn_eq :
    fwc_mwcnn_2_2_S1 = mwcnnC false 2 2 1 ∧
    fwc_mwcnn_2_3_S2 = mwcnnC false 2 3 2 ∧
    fwc_mwcnn_4_2_S3 = mwcnnC false 4 2 3 ∧
    fwc_mwcnn_2_2_S3_bn = mwcnnC true 2 2 3 ∧
    fwc_mwcnn_2_2_S4 = mwcnnC false 2 2 4 ∧
    fwc_mwcnn_6_3_S2_bn = mwcnnC true 6 3 2 ∧
    fwc_mwcnn_2_2_S5 = mwcnnC false 2 2 5 := by decide

theorem channels_dub_eq :
    fwc_dub_4_hooked = dubC 4 true ∧
    fwc_dub_3_plain = dubC 3 false := by decide

theorem channels_didn_eq :
    fwc_didn_2_2_4_1_1_noskip = didnC 2 2 4 1 1 false ∧
    fwc_didn_2_2_4_1_2_skip = didnC 2 2 4 1 2 true ∧
    fwc_didn_2_2_4_2_3_skip = didnC 2 2 4 2 3 true ∧
    fwc_didn_2_4_3_3_2_skip = didnC 2 4 3 3 2 false ∧
    fwc_didn_3_3_2_4_1_skip = didnC 3 3 2 4 1 true ∧
    fwc_didn_2_2_3_3_1_noskip = didnC 2 2 3 3 1 false := by decide +kernel

theorem channels_resnet_eq :
    fwc_resnet_2_2_4_B1 = resnetC 2 2 4 true 0 ∧
    fwc_resnet_2_3_4_B2 = resnetC 2 3 4 true 1 ∧
    fwc_resnet_3_3_5_B3_nobn = resnetC 3 3 5 false 2 ∧
    fwc_resnet_2_5_3_B4 = resnetC 2 5 3 true 3 := by decide

theorem channels_conv_eq :
    fwc_conv_2_2_4_N1 = convNetC 2 2 4 false 1 ∧
    fwc_conv_2_3_4_N2_bn = convNetC 2 3 4 true 2 ∧
    fwc_conv_3_2_5_N3 = convNetC 3 2 5 false 3 ∧
    fwc_conv_2_2_4_N4_bn = convNetC 2 2 4 true 4 ∧
    fwc_conv_2_3_4_N1_bn = convNetC 2 3 4 true 1 := by decide

/-- the learned initialisers: dilated chain, multi-scale concatenation of the last `multiscale_depth` feature maps, 1×1 output
block with `sum(channels[-multiscale_depth:])` input channels (2-D and 3-D vSHARP: the parametric `lagrangeC`; RIMInit /
RecurrentInit with their `depth` output blocks: the program runs, ends with `out_channels` and leaves no register) -/
theorem channels_initializers_ok :
    fwc_lagrange_2_2_ms1 = lagrangeC 2 2 [2, 3, 4, 5] 1 ∧
    fwc_lagrange_2_3_ms3 = lagrangeC 2 3 [2, 3, 4] 3 ∧
    fwc_lagrange_2_2_ms2 = lagrangeC 2 2 [3, 4, 5, 6] 2 ∧
    fwc_lagrange3d_2_2_ms2 = lagrangeC 2 2 [2, 3, 4] 2 ∧
    runC fwc_riminit_2_5_ms2 ⟨2, [], []⟩ = .ok ⟨5, [], []⟩ ∧
    runC fwc_recurrentinit_2_4_ms3 ⟨2, [], []⟩ = .ok ⟨4, [], []⟩ ∧
    runC (lagrangeC 2 3 [2, 3, 4] 3) ⟨2, [], []⟩ = .ok ⟨3, [], []⟩ ∧
    runC (lagrangeC 2 2 [3, 4, 5, 6] 2) ⟨2, [], []⟩ = .ok ⟨2, [], []⟩ := by decide

/-- Conv2dGRU (with and without dense connections, normalised variant): the channel program read from `forward` runs for
the instantiated widths, ends with `out_channels`, leaves no register behind, and shows `hidden_channels` at every
hooked conv block and `out_channels` at the last (`gruChanTrace`, which the driver uses for the full hook shapes) -/
theorem channels_gru_ok :
    runC fwc_gru_4_3_2_L1_d0 ⟨4, [], []⟩ = .ok ⟨2, [], gruChanTrace 3 2 1⟩ ∧
    runC fwc_gru_4_3_2_L2_d0 ⟨4, [], []⟩ = .ok ⟨2, [], gruChanTrace 3 2 2⟩ ∧
    runC fwc_gru_4_3_2_L2_d1 ⟨4, [], []⟩ = .ok ⟨2, [], gruChanTrace 3 2 2⟩ ∧
    runC fwc_gru_4_5_2_L3_d2 ⟨4, [], []⟩ = .ok ⟨2, [], gruChanTrace 5 2 3⟩ ∧
    runC fwc_gru_4_3_2_L3_d1 ⟨4, [], []⟩ = .ok ⟨2, [], gruChanTrace 3 2 3⟩ ∧
    runC fwc_gru_4_3_2_L2_d1_norm ⟨4, [], []⟩ = .ok ⟨2, [], gruChanTrace 3 2 2⟩ ∧
    runC fwc_gru_6_4_3_L4_d3 ⟨6, [], []⟩ = .ok ⟨3, [], gruChanTrace 4 3 4⟩ := by decide


/-! ## block schedules of the unrolled networks: read from each `forward` = hand-written `Shapes.Sched` -/

theorem schedule_Unet2d_eq :
    sched_Unet2d_plain_sense = Sched.blocks (schedUnet2d) 0 ∧
    sched_Unet2d_plain_sense_skip = Sched.blocks (schedUnet2d) 0 ∧
    sched_Unet2d_plain_zero_filled = Sched.blocks (schedUnet2d) 0 ∧
    sched_Unet2d_norm_sense = Sched.blocks (schedUnet2d) 0 ∧
    sched_Unet2d_norm_sense_skip = Sched.blocks (schedUnet2d) 0 ∧
    sched_Unet2d_norm_zero_filled = Sched.blocks (schedUnet2d) 0 ∧
    sched_Unet2d_norm_sense_dropout = Sched.blocks (schedUnet2d) 0 := by decide

theorem schedule_EndToEndVarNet_eq :
    sched_EndToEndVarNet_dropout = Sched.blocks (schedSingle 2 2) 2 ∧
    sched_EndToEndVarNet = Sched.blocks (schedSingle 2 2) 2 := by decide

theorem schedule_RIM_eq :
    sched_RIM_default = Sched.blocks (schedSingle 4 2) 2 ∧
    sched_RIM_shared = Sched.blocks (schedSingle 4 2) 2 ∧
    sched_RIM_instnorm = Sched.blocks (schedSingle 4 2) 2 ∧
    sched_RIM_dense = Sched.blocks (schedSingle 4 2) 2 ∧
    sched_RIM_sense = Sched.blocks (schedSingle 4 2) 2 ∧
    sched_RIM_learned_init = Sched.blocks (schedSingle 4 2) 2 ∧
    sched_RIM_normalized = Sched.blocks (schedSingle 4 2) 2 ∧
    sched_RIM_noskip = Sched.blocks (schedSingle 4 2) 2 ∧
    sched_RIM_zeropad = Sched.blocks (schedSingle 4 2) 2 ∧
    sched_RIM_scaled_loglikelihood = Sched.blocks (schedSingle 4 2) 2 := by decide

theorem schedule_LPDNet_eq :
    sched_LPDNet_MWCNN_DIDN = Sched.blocks (schedLpd 2 2) 2 ∧
    sched_LPDNet_MWCNN_CONV = Sched.blocks (schedLpd 2 2) 2 ∧
    sched_LPDNet_UNET_UNET = Sched.blocks (schedLpd 2 2) 2 ∧
    sched_LPDNet_NORMUNET_NORMUNET = Sched.blocks (schedLpd 2 2) 2 ∧
    sched_LPDNet_UNET_DIDN = Sched.blocks (schedLpd 2 2) 2 ∧
    sched_LPDNet_NORMUNET_CONV = Sched.blocks (schedLpd 2 2) 2 := by decide

theorem schedule_XPDNet_eq :
    sched_XPDNet_primal_only = Sched.blocks (schedXpd 1 2 false) 2 ∧
    sched_XPDNet_CONV = Sched.blocks (schedXpd 2 2 true) 2 ∧
    sched_XPDNet_DIDN = Sched.blocks (schedXpd 2 2 true) 2 ∧
    sched_XPDNet_primal_only_bn = Sched.blocks (schedXpd 1 2 false) 2 ∧
    sched_XPDNet_normalize = Sched.blocks (schedXpd 1 2 false) 2 := by decide

theorem schedule_KIKINet_eq :
    sched_KIKINet_MWCNN_DIDN = Sched.blocks (schedKiki) 2 ∧
    sched_KIKINet_UNET_CONV = Sched.blocks (schedKiki) 2 ∧
    sched_KIKINet_NORMUNET_UNET = Sched.blocks (schedKiki) 2 ∧
    sched_KIKINet_MWCNN_NORMUNET = Sched.blocks (schedKiki) 2 ∧
    sched_KIKINet_normalize = Sched.blocks (schedKiki) 2 := by decide

theorem schedule_JointICNet_eq :
    sched_JointICNet_unet = Sched.blocks (schedJointIC) 2 ∧
    sched_JointICNet_normunet = Sched.blocks (schedJointIC) 2 := by decide

theorem schedule_MultiDomainNet_eq :
    sched_MultiDomainNet_std_dropout = Sched.blocks (schedMultiDomain true) 0 ∧
    sched_MultiDomainNet_std = Sched.blocks (schedMultiDomain true) 0 ∧
    sched_MultiDomainNet_nostd = Sched.blocks (schedMultiDomain false) 0 := by decide

theorem schedule_RecurrentVarNet_eq :
    sched_RecurrentVarNet_default = Sched.blocks (schedSingle 2 2) 2 ∧
    sched_RecurrentVarNet_shared = Sched.blocks (schedSingle 2 2) 2 ∧
    sched_RecurrentVarNet_normalized = Sched.blocks (schedSingle 2 2) 2 ∧
    sched_RecurrentVarNet_learned_sense = Sched.blocks (schedSingle 2 2) 2 ∧
    sched_RecurrentVarNet_learned_zero_filled = Sched.blocks (schedSingle 2 2) 2 := by decide

theorem schedule_CIRIM_eq :
    sched_CIRIM_noshare = Sched.blocks (schedCirim 2 4) 4 ∧
    sched_CIRIM_share = Sched.blocks (schedCirim 2 4) 4 := by decide

theorem schedule_IterDualNet_eq :
    sched_IterDualNet_default = Sched.blocks (schedIterDual true) 2 ∧
    sched_IterDualNet_normunets = Sched.blocks (schedIterDual true) 2 ∧
    sched_IterDualNet_shared_nopercoil = Sched.blocks (schedIterDual false) 2 := by decide

theorem schedule_ConjGradNet_eq :
    sched_ConjGradNet_resnet_sense_FR = Sched.blocks (schedSingle 2 2) 2 ∧
    sched_ConjGradNet_unet_zero_filled_PRP = Sched.blocks (schedSingle 2 2) 2 ∧
    sched_ConjGradNet_normunet_zeros_DY = Sched.blocks (schedSingle 2 2) 2 ∧
    sched_ConjGradNet_didn_sense_BAN = Sched.blocks (schedSingle 2 2) 2 ∧
    sched_ConjGradNet_conv_sense_FR = Sched.blocks (schedSingle 2 2) 2 ∧
    sched_ConjGradNet_conv_sense_FR_tol1e_3 = Sched.blocks (schedSingle 2 2) 2 := by decide

theorem schedule_MRIVarSplitNet_eq :
    sched_MRIVarSplitNet_unet_None_sense = Sched.blocks (schedVarSplit false) 2 ∧
    sched_MRIVarSplitNet_resnet_conv_sense = Sched.blocks (schedVarSplit true) 2 ∧
    sched_MRIVarSplitNet_didn_unet_sense = Sched.blocks (schedVarSplit true) 2 ∧
    sched_MRIVarSplitNet_conv_didn_zero_filled = Sched.blocks (schedVarSplit true) 2 ∧
    sched_MRIVarSplitNet_unet_resnet_sense = Sched.blocks (schedVarSplit true) 2 ∧
    sched_MRIVarSplitNet_unet_normunet_sense = Sched.blocks (schedVarSplit true) 2 ∧
    sched_MRIVarSplitNet_normunet_None_zero_filled = Sched.blocks (schedVarSplit false) 2 := by decide

theorem schedule_VSharpNet_eq :
    sched_VSharpNet_unet_sense = Sched.blocks (schedVSharp) 2 ∧
    sched_VSharpNet_normunet_zero_filled = Sched.blocks (schedVSharp) 2 ∧
    sched_VSharpNet_resnet_sense = Sched.blocks (schedVSharp) 2 ∧
    sched_VSharpNet_didn_sense = Sched.blocks (schedVSharp) 2 ∧
    sched_VSharpNet_conv_zero_filled = Sched.blocks (schedVSharp) 2 := by decide

theorem schedule_VSharpNet3D_eq :
    sched_VSharpNet3D_unet = Sched.blocks (schedVSharp) 2 ∧
    sched_VSharpNet3D_normunet = Sched.blocks (schedVSharp) 2 := by decide


/-! ### further zoo entries (architecture options, call options; `harness/props/c17_zoo.py`) -/

theorem schedule_RIM_more_eq :
    sched_RIM_given_input_image = Sched.blocks (schedSingle 4 2) 2 ∧
    sched_RIM_init_input_kspace = Sched.blocks (schedSingle 4 2) 2 ∧
    sched_RIM_init_input_image = Sched.blocks (schedSingle 4 2) 2 ∧
    sched_RIM_two_calls_previous_state = Sched.blocks (schedSingle 4 2) 2 ∧
    sched_RIM_learned_init_ms1_depth2 = Sched.blocks (schedSingle 4 2) 2 ∧
    sched_RIM_shared_length3 = Sched.blocks (schedSingle 4 2) 3 := by decide

theorem schedule_RecurrentVarNet_more_eq :
    sched_RecurrentVarNet_learned_sense_ms3 = Sched.blocks (schedSingle 2 2) 3 := by decide

theorem schedule_ConjGradNet_more_eq :
    sched_ConjGradNet_resnet_sense_FR_shared = Sched.blocks (schedSingle 2 2) 3 := by decide

theorem schedule_MRIVarSplitNet_more_eq :
    sched_MRIVarSplitNet_conv_conv_sense_shared = Sched.blocks (schedVarSplit true) 3 := by decide

theorem schedule_VSharpNet_more_eq :
    sched_VSharpNet_unet_sense_shared = Sched.blocks (schedVSharp) 3 ∧
    sched_VSharpNet_conv_sense_aux1_ms1_relu = Sched.blocks (schedVSharp) 3 ∧
    sched_VSharpNet_resnet_zero_filled_aux2_leaky = Sched.blocks (schedVSharp) 3 := by decide

theorem schedule_IterDualNet_more_eq :
    sched_IterDualNet_image_normunet = Sched.blocks (schedIterDual true) 2 ∧
    sched_IterDualNet_kspace_normunet_shared_image = Sched.blocks (schedIterDual true) 2 := by decide

theorem schedule_LPDNet_more_eq :
    sched_LPDNet_MWCNN_UNET = Sched.blocks (schedLpd 2 3) 2 ∧
    sched_LPDNet_MWCNN_NORMUNET = Sched.blocks (schedLpd 2 3) 2 ∧
    sched_LPDNet_UNET_CONV = Sched.blocks (schedLpd 2 3) 2 ∧
    sched_LPDNet_UNET_NORMUNET = Sched.blocks (schedLpd 2 3) 2 ∧
    sched_LPDNet_NORMUNET_DIDN = Sched.blocks (schedLpd 2 3) 2 ∧
    sched_LPDNet_NORMUNET_UNET = Sched.blocks (schedLpd 2 3) 2 := by decide

theorem schedule_KIKINet_more_eq :
    sched_KIKINet_MWCNN_CONV = Sched.blocks (schedKiki) 3 ∧
    sched_KIKINet_MWCNN_UNET = Sched.blocks (schedKiki) 3 ∧
    sched_KIKINet_UNET_DIDN = Sched.blocks (schedKiki) 3 ∧
    sched_KIKINet_UNET_UNET = Sched.blocks (schedKiki) 3 ∧
    sched_KIKINet_UNET_NORMUNET = Sched.blocks (schedKiki) 3 ∧
    sched_KIKINet_NORMUNET_CONV = Sched.blocks (schedKiki) 3 ∧
    sched_KIKINet_NORMUNET_DIDN = Sched.blocks (schedKiki) 3 ∧
    sched_KIKINet_NORMUNET_NORMUNET = Sched.blocks (schedKiki) 3 := by decide

theorem schedule_VSharpNet3D_more_eq :
    sched_VSharpNet3D_unet_zero_filled_shared = Sched.blocks (schedVSharp) 2 ∧
    sched_VSharpNet3D_normunet_aux1_ms2 = Sched.blocks (schedVSharp) 2 := by decide

/-- every denoiser call of every unrolled network is made on the channels-first view of its tensor (behind the batch axis,
or behind batch and coil for per-coil calls) and its result is brought back by the inverse permutation (RIM keeps the
documented channels-first output) -/
theorem schedule_permute_pairs_ok : sched_permute_pairs.all permRowOk = true ∧ sched_permute_pairs ≠ [] := by decide

/-- the permuted views on which the denoisers are called are the channel-first layouts of the model -/
theorem schedule_permutes_eq :
    sched_permutes = [(0, toChannelsFirst4), (0, toChannelsFirst3d), (1, toChannelsFirst5)] := by decide

end DirectVerif.Bridge.C17
