import DirectVerif.Gen.C17
import DirectVerif.Model.Shapes
/-!
# Bridge C17 — the pad / crop arithmetic translated from `/repo` equals the hand-written shape model

Fixed scripts (`simp only [defs …]; omega`, `decide` for the literal tables).  Sizes are natural numbers in the model and
Python ints in the translation, hence the casts.
-/
namespace DirectVerif.Bridge.C17
open DirectVerif DirectVerif.Shapes DirectVerif.Gen.C17

theorem pyOr_mult (n : Nat) : Shapes.pyOr ((n : Int) - 1) 15 + 1 = (mult16 n : Int) := by
  cases n with
  | zero => decide
  | succ k =>
    have e : ((k + 1 : Nat) : Int) - 1 = (k : Int) := by omega
    simp only [e, pyOr, mult16, Int.natCast_nonneg, if_true, Int.toNat_natCast, Nat.add_sub_cancel, Nat.succ_ne_zero, if_false]
    rfl

/-- `((w − 1) | 15) + 1` -/
theorem normunet_w_mult_eq (n : Nat) : normunet_w_mult n = (mult16 n : Int) := pyOr_mult n
theorem normunet_h_mult_eq (n : Nat) : normunet_h_mult n = (mult16 n : Int) := pyOr_mult n
theorem normunet3d_z_mult_eq (n : Nat) : normunet3d_z_mult n = (mult16 n : Int) := pyOr_mult n

/-- `math.floor((m − n)/2)`, `math.ceil((m − n)/2)` -/
theorem normunet_w_pad_lo_eq (m n : Nat) (h : n ≤ m) : normunet_w_pad_lo m n = (((m - n) / 2 : Nat) : Int) := by
  simp only [normunet_w_pad_lo, Int.fdiv_eq_ediv_of_nonneg _ (by decide : (0 : Int) ≤ 2)]; omega
theorem normunet_w_pad_hi_eq (m n : Nat) (h : n ≤ m) : normunet_w_pad_hi m n = (((m - n + 1) / 2 : Nat) : Int) := by
  simp only [normunet_w_pad_hi, Int.fdiv_eq_ediv_of_nonneg _ (by decide : (0 : Int) ≤ 2)]; omega
theorem normunet_h_pad_lo_eq (m n : Nat) (h : n ≤ m) : normunet_h_pad_lo m n = (((m - n) / 2 : Nat) : Int) := by
  simp only [normunet_h_pad_lo, Int.fdiv_eq_ediv_of_nonneg _ (by decide : (0 : Int) ≤ 2)]; omega
theorem normunet_h_pad_hi_eq (m n : Nat) (h : n ≤ m) : normunet_h_pad_hi m n = (((m - n + 1) / 2 : Nat) : Int) := by
  simp only [normunet_h_pad_hi, Int.fdiv_eq_ediv_of_nonneg _ (by decide : (0 : Int) ≤ 2)]; omega

/-- the model's pad amounts are these with `m = mult16 n` -/
theorem pad16_amounts (n : Nat) : pad16Lo n = (mult16 n - n) / 2 ∧ pad16Hi n = (mult16 n - n + 1) / 2 := ⟨rfl, rfl⟩

/-- `x[..., lo : m − hi]` on both axes -/
theorem normunet_unpad_eq (lo hi m : Int) :
    normunet_unpad_h_lower lo hi m = lo ∧ normunet_unpad_h_upper lo hi m = m - hi ∧
      normunet_unpad_w_lower lo hi m = lo ∧ normunet_unpad_w_upper lo hi m = m - hi := ⟨rfl, rfl, rfl, rfl⟩

/-- … which on an axis of length `c` keeps `min (m − hi) c − min lo c` samples: the model's `unpad16` -/
theorem unpad16_is_slice (orig c : Nat) :
    unpad16 orig c = min (mult16 orig - pad16Hi orig) c - min (pad16Lo orig) c := rfl

theorem normunet_pad_order_eq : normunet_pad_order = ["w_pad", "h_pad"] ∧ normunet3d_pad_order = ["w_pad", "h_pad", "z_pad"] ∧
    normunet_pad_modes = ["constant"] := by decide

/-- `pad_to_pow_of_2` -/
theorem pow2_eq (n k : Nat) : pow2_lo n k = (pow2Lo k n : Int) ∧ pow2_hi n k = (pow2Hi k n : Int) ∧
    (n : Int) + pow2_lo n k + pow2_hi n k = (padPow2 k n : Int) := by
  have e : ((2 : Int) ^ ((k : Int).toNat)) = ((2 ^ k : Nat) : Int) := by
    rw [Int.toNat_natCast, Int.natCast_pow]; rfl
  simp only [pow2_lo, pow2_hi, pow2Lo, pow2Hi, padPow2, e, Int.fdiv_eq_ediv_of_nonneg _ (by decide : (0 : Int) ≤ 2)]
  generalize 2 ^ k = P
  refine ⟨?_, ?_, ?_⟩ <;> (repeat' split) <;> (try simp only [decide_eq_true_eq] at *) <;> omega

theorem pow2_tables : pow2_pad_modes = ["constant"] ∧ unet3d_unpad = [[2, 4, 2, 5], [3, 2, 3, 3], [4, 0, 4, 1]] := by decide

/-- `crop_to_shape` (three copies) -/
theorem crop_eq (n s : Nat) : mwcnn_crop_h n s = (cropTo s n : Int) ∧ mwcnn_crop_w n s = (cropTo s n : Int) ∧
    dub_crop_h n s = (cropTo s n : Int) ∧ dub_crop_w n s = (cropTo s n : Int) ∧
    didn_crop_h n s = (cropTo s n : Int) ∧ didn_crop_w n s = (cropTo s n : Int) := by
  simp only [mwcnn_crop_h, mwcnn_crop_w, dub_crop_h, dub_crop_w, didn_crop_h, didn_crop_w, cropTo, pyMin]
  refine ⟨?_, ?_, ?_, ?_, ?_, ?_⟩ <;> (repeat' split) <;> (try simp only [decide_eq_true_eq] at *) <;> omega

/-- IWT doubles (factor `self._r`) -/
theorem iwt_eq (r n : Int) : iwt_out_height r n = r * n ∧ iwt_out_width r n = r * n := ⟨rfl, rfl⟩

theorem dwt_slices_eq : dwt_slices = [[2, 0, 2], [2, 1, 2], [3, 0, 2], [3, 0, 2], [3, 1, 2], [3, 1, 2]] := by decide

theorem even1 (n : Nat) : (if (Int.fmod (n : Int) 2 != 0) then (1 : Int) else 0) = ((padEvenOut n - n : Nat) : Int) := by
  simp only [padEvenOut, Int.fmod_eq_emod_of_nonneg _ (by decide : (0 : Int) ≤ 2), bne_iff_ne, ne_eq]
  split <;> omega

/-- reflect pad by one on odd axes: `F.pad` list `[0, p_w, 0, p_h]` -/
theorem pad_even_list_eq (h w : Nat) :
    mwcnn_pad_list h w = [0, ((padEvenOut w - w : Nat) : Int), 0, ((padEvenOut h - h : Nat) : Int)] ∧
      dub_pad_list h w = [0, ((padEvenOut w - w : Nat) : Int), 0, ((padEvenOut h - h : Nat) : Int)] := by
  simp only [mwcnn_pad_list, dub_pad_list, even1, and_self]

theorem pad_modes_eq : mwcnn_pad_modes = ["reflect"] ∧ dub_pad_modes = ["reflect"] ∧ unet2d_pad_modes = ["reflect"] ∧
    unet3d_pad_modes = ["reflect"] := by decide

theorem up1 (o d : Nat) : (if ((o : Int) != (d : Int)) then (1 : Int) else 0) = ((upPad d o : Nat) : Int) := by
  simp only [upPad, bne_iff_ne, ne_eq, Int.natCast_inj]
  split <;> rfl

/-- U-Net up path: pad by one exactly where the up-sampled size differs from the skip connection -/
theorem unet_up_padding_eq (o1 d1 o2 d2 : Nat) :
    unet2d_up_padding o1 d1 o2 d2 = [0, (upPad d1 o1 : Int), 0, (upPad d2 o2 : Int)] ∧
      multidomain_up_padding o1 d1 o2 d2 = [0, (upPad d1 o1 : Int), 0, (upPad d2 o2 : Int)] := by
  simp only [unet2d_up_padding, multidomain_up_padding, up1, and_self]

theorem unet3d_up_padding_eq (o1 d1 o2 d2 o3 d3 : Nat) :
    unet3d_up_padding o1 d1 o2 d2 o3 d3 = [0, (upPad d1 o1 : Int), 0, (upPad d2 o2 : Int), 0, (upPad d3 o3 : Int)] := by
  simp only [unet3d_up_padding, up1]

/-- pooling literals are the ones of `UnetP.std` -/
theorem pool_eq : unet2d_pool = [(UnetP.std.pk : Int), UnetP.std.ps, 0] ∧ unet3d_pool = [(UnetP.std.pk : Int), UnetP.std.ps, 0] ∧
    multidomain_pool = [(UnetP.std.pk : Int), UnetP.std.ps, 0] := by decide

/-- Conv2dGRU block `idx`: the model's `gruBlock` uses exactly the translated kernel / dilation / padding expressions
(zero padding `2 if idx in (0, 1) else 1` after the repair) -/
theorem gru_block_eq (idx : Nat) :
    gruBlock false idx = [.conv (gru_kernel idx).toNat 1 (gru_padding 0 idx).toNat (gru_dilation idx).toNat] ∧
      gruBlock true idx = [.replPad (gru_repl_pad idx).toNat,
        .conv (gru_kernel idx).toNat 1 (gru_padding 1 idx).toNat (gru_dilation idx).toNat] := by
  simp only [gruBlock, gru_kernel, gru_padding, gru_dilation, gru_repl_pad]
  by_cases h0 : idx = 0
  · subst h0; decide
  · by_cases h1 : idx = 1
    · subst h1; decide
    · have a : ¬ ((idx : Int) = 0) := by omega
      have b : ¬ ((idx : Int) = 1) := by omega
      simp [h0, h1, a, b]

end DirectVerif.Bridge.C17
