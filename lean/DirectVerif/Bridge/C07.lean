import DirectVerif.Gen.C07
import DirectVerif.Model.MaskBudget
import DirectVerif.Model.C07Magic
import DirectVerif.Model.C07Bisect
import DirectVerif.Model.C07State
import DirectVerif.Model.C07Circus
import DirectVerif.Lemmas.C07State
import DirectVerif.Props.C07
import Mathlib.Tactic.Ring
import Mathlib.Data.Rat.Floor
/-!
# Bridge C07 — the budget expressions translated from `/repo` equal the hand-written model

Rational expressions are closed by `unfold …; ring` (field normalisation, no side conditions needed
for equal rearrangements), the rounded requests by `congr 1; ring` under `roundHalfEven`, the source
skeletons by `decide`.
-/
set_option linter.unusedSimpArgs false
set_option linter.unusedTactic false
set_option linter.unreachableTactic false
namespace DirectVerif.Bridge.C07
open DirectVerif DirectVerif.MaskBudget DirectVerif.Gen.C07

theorem acs_pad_eq (n l : Int) : acs_pad n l = acsPad n l := by
  first
  | rfl
  | simp only [acs_pad, acsPad, Int.fdiv_eq_ediv_of_nonneg _ (by decide : (0:Int) ≤ 2)]

theorem random_prob_eq (N R L : ℚ) : random_prob N R L = randomProb N R L := by
  first | rfl | (unfold random_prob randomProb; ring)

theorem equispaced_adjusted_accel_eq (N R L : ℚ) : equispaced_adjusted_accel N R L = adjAccel N R L := by
  first | rfl | (unfold equispaced_adjusted_accel adjAccel; ring)

theorem equispaced_offset_bound_eq (a : ℚ) : equispaced_offset_bound a = offsetBound a := by
  first | rfl | (unfold equispaced_offset_bound offsetBound; rfl)

/-- `np.arange(offset, num_cols - 1, adjusted_accel)`: the grid of `equiPositions` -/
theorem equispaced_arange_eq (off N a : ℚ) :
    equispaced_arange_start off N a = off ∧ equispaced_arange_stop off N a = N - 1 ∧
    equispaced_arange_step off N a = a := by
  unfold equispaced_arange_start equispaced_arange_stop equispaced_arange_step
  exact ⟨by ring, by ring, by ring⟩

theorem gaussian1d_request_eq (N R : ℚ) (L : Int) :
    gaussian1d_request N R L = gaussianRequest (N / R) L := by
  simp only [gaussian1d_request, gaussianRequest, Rat.floor_intCast]
  try (congr 1; ring)

theorem gaussian2d_request_eq (rows cols R : ℚ) (L : Int) :
    gaussian2d_request rows cols R L = gaussianRequest (rows * cols / R) L := by
  simp only [gaussian2d_request, gaussianRequest, Rat.floor_intCast]
  try (congr 1; ring)

/-! ### Magic -/

theorem magic_target_eq (N : Int) (R : ℚ) : magic_target (N : ℚ) R = magicTarget N R := by
  first | rfl | (unfold magic_target magicTarget; rfl)

theorem magic_adjusted_eq (N rest : Int) : magic_adjusted (N : ℚ) (rest : ℚ) = magicAdj N rest := by
  unfold magic_adjusted magicAdj
  by_cases h : rest > 0
  · have h' : (rest : ℚ) > 0 := by exact_mod_cast h
    simp only [h, h', if_true]
  · have h' : ¬ (rest : ℚ) > 0 := by exact_mod_cast h
    simp only [h, h', if_false]

theorem magic_low_eq (l t : Int) : magic_low l t = magicLow l t := by
  first
  | rfl
  | (unfold magic_low magicLow pyMax pyMin; split_ifs <;> omega)

theorem magic_rest_eq (t l : Int) : magic_rest t l = magicRest t l := by
  first | rfl | (unfold magic_rest magicRest; rfl)

theorem magic_off_pos_eq (offset : Int) : magic_off_pos offset = magicOffPos offset := by
  first
  | rfl
  | simp only [magic_off_pos, magicOffPos, Int.fmod_eq_emod_of_nonneg _ (by decide : (0 : Int) ≤ 2), beq_iff_eq]

theorem magic_off_neg_eq (offset : Int) : magic_off_neg offset = magicOffNeg offset := by
  first
  | rfl
  | simp only [magic_off_neg, magicOffNeg, Int.fmod_eq_emod_of_nonneg _ (by decide : (0 : Int) ≤ 2), beq_iff_eq]

theorem magic_poslen_eq (n : Int) : magic_poslen n = magicPosLen n := by
  first
  | rfl
  | simp only [magic_poslen, magicPosLen, Int.fdiv_eq_ediv_of_nonneg _ (by decide : (0 : Int) ≤ 2)]

theorem magic_neglen_eq (n : Int) : magic_neglen n = magicNegLen n := by
  first
  | rfl
  | simp only [magic_neglen, magicNegLen, Int.fdiv_eq_ediv_of_nonneg _ (by decide : (0 : Int) ≤ 2)]

/-- the frame loop draws, strides, flips, shifts and unites exactly as `magicFrame` does -/
theorem magic_plan_eq : magicPlan = expectedMagicPlan := by decide

/-- the call's parameters computed with the **translated** expressions are the model's -/
theorem magic_params_eq (N lRaw : Int) (R : ℚ) :
    (magic_target (N : ℚ) R, magic_low lRaw (magic_target (N : ℚ) R),
      magic_adjusted (N : ℚ) ((magic_rest (magic_target (N : ℚ) R) (magic_low lRaw (magic_target (N : ℚ) R)) : Int) : ℚ)) =
    magicParams N lRaw R := by
  simp only [magic_target_eq, magic_low_eq, magic_rest_eq, magic_adjusted_eq, magicParams]

theorem gaussian_loops_eq : gaussianLoops = expectedGaussianLoops := by decide

theorem poisson_skeleton_eq : poissonSkeleton = expectedPoissonSkeleton := by decide

/-- `choose_acceleration`: one index draw selects acceleration and centre fraction of the same position; `uniform_range` raises -/
theorem choose_skeleton_eq : chooseSkeleton = expectedChooseSkeleton := by decide

/-! ### the interval bookkeeping of the bisection -/

/-- `slope = (slope_max + slope_min) / 2` -/
theorem poisson_mid_eq (lo hi : ℚ) : poisson_mid lo hi = exactMid lo hi := by
  first | rfl | (unfold poisson_mid exactMid; ring)

/-- the binary64 midpoint the driver executes is the rounded **translated** expression: sum rounded, halving exact -/
theorem poisson_float_mid_eq (lo hi : ℚ) : floatMid lo hi = rnd53 (2 * poisson_mid lo hi) / 2 := by
  unfold floatMid poisson_mid; congr 2; ring

/-- `actual < acceleration` moves the lower end, otherwise the upper end — as `bisectIv` does -/
theorem poisson_update_eq : poissonUpdate = expectedPoissonUpdate := by decide

theorem poisson_init_eq : poissonInit = expectedPoissonInit := by decide

/-- `tol` is the bound of both tolerance tests, `max_attempts` reaches the kernel, `crop_corner` crops before the
acceleration is evaluated -/
theorem poisson_options_eq : poissonOptions = expectedPoissonOptions := by decide

/-- nothing between the last tolerance evaluation and `return mask` modifies `mask`, and `mask` itself is returned -/
theorem poisson_post_ok : postOk poissonPost = true := by decide

/-- hence every mask `poisson` returns realises the acceleration within the tolerance — for the code as it is -/
theorem code_bisection_post_returned (R tol : ℚ) (ps : List Probe) (effect : ℚ → ℚ) (a : ℚ) (n : Nat)
    (hr : poisson R tol ps (postOfTable poissonPost effect) = .returned a n) : |a - R| < tol :=
  DirectVerif.C07.bisection_post_returned_table R tol ps poissonPost poisson_post_ok effect a n hr

/-- the interval post-condition for the code as it is: generated post table, any midpoint function -/
theorem code_bisection_iv_post_returned (mid : ℚ → ℚ → ℚ) (R tol : ℚ) (accs : List ℚ) (lo hi : ℚ) (effect : ℚ → ℚ)
    (a : ℚ) (n : Nat) (s : ℚ) (hr : poissonIv mid R tol accs lo hi (postOfTable poissonPost effect) = .returned a n s) :
    |a - R| < tol :=
  DirectVerif.C07.bisection_iv_post_returned mid R tol accs lo hi poissonPost poisson_post_ok effect a n s hr

/-! ### CIRCUS arithmetic -/

theorem circus_M_radial_eq (prod a maxd mind : ℚ) : circus_M_radial prod a maxd mind = circusM prod a maxd mind := by
  first | rfl | (unfold circus_M_radial circusM circusDenom; rfl)

theorem circus_M_spiral_eq (prod a maxd mind : ℚ) : circus_M_spiral prod a maxd mind = circusM prod a maxd mind := by
  first | rfl | (unfold circus_M_spiral circusM circusDenom; rfl)

/-- with a centre disc the patterns are drawn for the same ACS-adjusted acceleration as the equispaced lines, over
`rows·cols` cells -/
theorem circus_adjusted_accel_eq (rows cols R L : ℚ) : circus_adjusted_accel rows cols R L = adjAccel (rows * cols) R L := by
  first | rfl | (unfold circus_adjusted_accel adjAccel; ring)

/-! ### nothing is carried from one call to the next -/

/-- no memoising decorator, no mutable default argument, no module- or class-level container in `subsample.py` -/
theorem no_process_state : noProcessState moduleCaches mutableDefaults moduleState = true := by decide

/-- every in-place kernel call gets an array bound to a fresh object in the same call -/
theorem kernel_arrays_ok : kernelArraysOk kernelArrays = true := by decide

/-- hence, for the code as it is, no kernel call site shares its array with another call -/
theorem code_kernel_arrays_not_shared : ∀ r ∈ kernelArrays, rowShared r = false :=
  DirectVerif.C07.kernel_arrays_not_shared kernelArrays kernel_arrays_ok

end DirectVerif.Bridge.C07
