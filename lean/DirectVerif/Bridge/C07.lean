import DirectVerif.Gen.C07
import DirectVerif.Model.MaskBudget
import DirectVerif.Props.C07
import Mathlib.Tactic.Ring
import Mathlib.Data.Rat.Floor
/-!
# Bridge C07 — the budget expressions translated from `/repo` equal the hand-written model

Rational expressions are closed by `unfold …; ring` (field normalisation, no side conditions needed
for equal rearrangements), the rounded requests by `congr 1; ring` under `roundHalfEven`, the source
skeletons by `decide`.
-/
set_option linter.unusedSimpArgs false
set_option linter.unusedTactic false
set_option linter.unreachableTactic false
namespace DirectVerif.Bridge.C07
open DirectVerif DirectVerif.MaskBudget DirectVerif.Gen.C07

theorem acs_pad_eq (n l : Int) : acs_pad n l = acsPad n l := by
  simp only [acs_pad, acsPad, Int.fdiv_eq_ediv_of_nonneg _ (by decide : (0:Int) ≤ 2)]

theorem random_prob_eq (N R L : ℚ) : random_prob N R L = randomProb N R L := by
  unfold random_prob randomProb; ring

theorem equispaced_adjusted_accel_eq (N R L : ℚ) : equispaced_adjusted_accel N R L = adjAccel N R L := by
  unfold equispaced_adjusted_accel adjAccel; ring

theorem equispaced_offset_bound_eq (a : ℚ) : equispaced_offset_bound a = offsetBound a := by
  unfold equispaced_offset_bound offsetBound; rfl

/-- `np.arange(offset, num_cols - 1, adjusted_accel)`: the grid of `equiPositions` -/
theorem equispaced_arange_eq (off N a : ℚ) :
    equispaced_arange_start off N a = off ∧ equispaced_arange_stop off N a = N - 1 ∧
    equispaced_arange_step off N a = a := by
  unfold equispaced_arange_start equispaced_arange_stop equispaced_arange_step
  exact ⟨by ring, by ring, by ring⟩

theorem gaussian1d_request_eq (N R : ℚ) (L : Int) :
    gaussian1d_request N R L = gaussianRequest (N / R) L := by
  simp only [gaussian1d_request, gaussianRequest, Rat.floor_intCast]
  try (congr 1; ring)

theorem gaussian2d_request_eq (rows cols R : ℚ) (L : Int) :
    gaussian2d_request rows cols R L = gaussianRequest (rows * cols / R) L := by
  simp only [gaussian2d_request, gaussianRequest, Rat.floor_intCast]
  try (congr 1; ring)

theorem gaussian_loops_eq : gaussianLoops = expectedGaussianLoops := by decide

theorem poisson_skeleton_eq : poissonSkeleton = expectedPoissonSkeleton := by decide

/-- `choose_acceleration`: one index draw selects acceleration and centre fraction of the same position; `uniform_range` raises -/
theorem choose_skeleton_eq : chooseSkeleton = expectedChooseSkeleton := by decide

/-- nothing between the last tolerance evaluation and `return mask` modifies `mask`, and `mask` itself is returned -/
theorem poisson_post_ok : postOk poissonPost = true := by decide

/-- hence every mask `poisson` returns realises the acceleration within the tolerance — for the code as it is -/
theorem code_bisection_post_returned (R tol : ℚ) (ps : List Probe) (effect : ℚ → ℚ) (a : ℚ) (n : Nat)
    (hr : poisson R tol ps (postOfTable poissonPost effect) = .returned a n) : |a - R| < tol :=
  DirectVerif.C07.bisection_post_returned_table R tol ps poissonPost poisson_post_ok effect a n hr

end DirectVerif.Bridge.C07
