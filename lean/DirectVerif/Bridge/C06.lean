import DirectVerif.Gen.C06
import DirectVerif.Model.MaskGeom
/-!
# Bridge C06 — the ACS arithmetic translated from `/repo` equals the hand-written model
-/
namespace DirectVerif.Bridge.C06
open DirectVerif DirectVerif.MaskGeom DirectVerif.Gen.C06

theorem center_mask_pad_eq (n l : Int) : center_mask_pad n l = centerPad n l := by
  unfold center_mask_pad centerPad
  simp only [Int.fdiv_eq_ediv_of_nonneg _ (by decide : (0 : Int) ≤ 2)]
  try omega

/-- the slice `mask[pad : pad + num_low_freqs] = True` -/
theorem center_mask_lo_eq (n l : Int) : center_mask_lo n l = centerPad n l := by
  unfold center_mask_lo centerPad
  simp only [Int.fdiv_eq_ediv_of_nonneg _ (by decide : (0 : Int) ≤ 2)]
  try omega

theorem center_mask_hi_eq (n l : Int) : center_mask_hi n l = centerPad n l + l := by
  unfold center_mask_hi centerPad
  simp only [Int.fdiv_eq_ediv_of_nonneg _ (by decide : (0 : Int) ≤ 2)]
  try omega

theorem zero_pad_start_eq (t c : Int) : zero_pad_start t c = zeroPadStart t c := by
  unfold zero_pad_start zeroPadStart
  simp only [Int.fdiv_eq_ediv_of_nonneg _ (by decide : (0 : Int) ≤ 2)]
  try omega

theorem zero_pad_stop_eq (t c : Int) : zero_pad_stop t c = zeroPadStart t c + c := by
  unfold zero_pad_stop zeroPadStart
  simp only [Int.fdiv_eq_ediv_of_nonneg _ (by decide : (0 : Int) ≤ 2)]
  try omega

/-- `num_low_freqs` glue -/
theorem num_low_random_eq (f r c : Int) : num_low_random f r c = numLowFreqs (f != 0) r c := by
  simp only [num_low_random, numLowFreqs]

theorem num_low_equispaced_eq (f r c : Int) : num_low_equispaced f r c = numLowFreqs (f != 0) r c := by
  simp only [num_low_equispaced, numLowFreqs]

theorem num_low_magic_eq (f r c : Int) : num_low_magic f r c = numLowFreqs (f == 0) r c := by
  simp only [num_low_magic, numLowFreqs]
  by_cases h : f = 0 <;> simp [h]

theorem magic_cap_eq (l t : Int) : magic_cap l t = magicCap l t := by
  simp only [magic_cap, magicCap]

/-- the budget test `adjusted_target_cols_to_sample > 0` of the Magic generators -/
theorem magic_adjusted_target_eq (n : Nat) (l t : Int) :
    magicAdjusted n t l = if magic_adjusted_target l t > 0 then roundDiv n (magic_adjusted_target l t).toNat else 0 := by
  unfold magic_adjusted_target magicAdjusted
  by_cases h : t - l > 0
  · simp
  · simp

/-- `centered_disk_mask`: centre sample `(rows // 2, cols // 2)`, strict `<` against `radius²` -/
theorem disk_pred_eq (rows cols : Nat) (radius : Int) (x y : Nat) :
    disk_pred rows cols radius x y = inDisk rows cols radius x y := by
  unfold disk_pred inDisk
  simp only [Int.fdiv_eq_ediv_of_nonneg _ (by decide : (0 : Int) ≤ 2)]
  try omega
  have e1 : ((rows : Int) / 2) = ((rows / 2 : Nat) : Int) := by omega
  have e2 : ((cols : Int) / 2) = ((cols / 2 : Nat) : Int) := by omega
  rw [e1, e2]

/-- CIRCUS disc: `(Y - c0)² + (X - c1)² <= radius²` -/
theorem circus_disk_pred_eq (rows cols : Nat) (thr : Int) (x y : Nat) :
    circus_disk_pred ((rows / 2 : Nat) : Int) ((cols / 2 : Nat) : Int) thr x y = inDiskLe rows cols thr x y := by
  simp only [circus_disk_pred, inDiskLe]

end DirectVerif.Bridge.C06
