import DirectVerif.Gen.C06
import DirectVerif.Model.MaskGeom
import DirectVerif.Model.C06Seed
import DirectVerif.Model.C06Crop
import DirectVerif.Model.C06Grid
/-!
# Bridge C06 — the ACS arithmetic translated from `/repo` equals the hand-written model
-/
set_option linter.unusedSimpArgs false
namespace DirectVerif.Bridge.C06
open DirectVerif DirectVerif.MaskGeom DirectVerif.Gen.C06 DirectVerif.C06Seed DirectVerif.C06Round

theorem center_mask_pad_eq (n l : Int) : center_mask_pad n l = centerPad n l := by
  unfold center_mask_pad centerPad
  simp only [Int.fdiv_eq_ediv_of_nonneg _ (by decide : (0 : Int) ≤ 2)]
  try omega

/-- the slice `mask[pad : pad + num_low_freqs] = True` -/
theorem center_mask_lo_eq (n l : Int) : center_mask_lo n l = centerPad n l := by
  unfold center_mask_lo centerPad
  simp only [Int.fdiv_eq_ediv_of_nonneg _ (by decide : (0 : Int) ≤ 2)]
  try omega

theorem center_mask_hi_eq (n l : Int) : center_mask_hi n l = centerPad n l + l := by
  unfold center_mask_hi centerPad
  simp only [Int.fdiv_eq_ediv_of_nonneg _ (by decide : (0 : Int) ≤ 2)]
  try omega

theorem zero_pad_start_eq (t c : Int) : zero_pad_start t c = zeroPadStart t c := by
  unfold zero_pad_start zeroPadStart
  simp only [Int.fdiv_eq_ediv_of_nonneg _ (by decide : (0 : Int) ≤ 2)]
  try omega

theorem zero_pad_stop_eq (t c : Int) : zero_pad_stop t c = zeroPadStart t c + c := by
  unfold zero_pad_stop zeroPadStart
  simp only [Int.fdiv_eq_ediv_of_nonneg _ (by decide : (0 : Int) ≤ 2)]
  try omega

/-! `num_low_freqs` glue, float arithmetic and branch conditions included (`ty` is the code of the Python TYPE of the
configured value: the width depends on the VALUE only, for every type): the translated expressions are `numLow` of the object model
(`Model/C06Seed.lean`), generator by generator -/

theorem num_low_random_eq (cols : Nat) (p : PairCfg) (ty : Int) (g : Gen) (hg : g = .fastmriRandom ∨ g = .cartesianRandom) :
    num_low_random cols p.cfNum p.cfDen ty = numLow g cols p := by
  rcases hg with rfl | rfl <;>
  · simp only [num_low_random, numLowFraction, numLow, numLowFreqs, roundMul, Int.toNat_natCast, Int.one_mul, Int.ofNat_lt, decide_eq_true_eq]

theorem num_low_equispaced_eq (cols : Nat) (p : PairCfg) (ty : Int) (g : Gen) (hg : g = .fastmriEquispaced ∨ g = .cartesianEquispaced) :
    num_low_equispaced cols p.cfNum p.cfDen ty = numLow g cols p := by
  rcases hg with rfl | rfl <;>
  · simp only [num_low_equispaced, numLowFraction, numLow, numLowFreqs, roundMul, Int.toNat_natCast, Int.one_mul, Int.ofNat_lt, decide_eq_true_eq]

/-- Magic: raw width, sampling budget `round(num_cols / acceleration)`, cap -/
theorem num_low_magic_eq (cols : Nat) (p : PairCfg) (ty ty' : Int) (g : Gen) (hg : g = .fastmriMagic ∨ g = .cartesianMagic) :
    magic_cap (num_low_magic cols p.cfNum p.cfDen ty) (magic_target cols p.accNum p.accDen ty') = numLow g cols p := by
  rcases hg with rfl | rfl <;>
  · simp only [magic_cap, num_low_magic, numLowMagicRaw, magic_target, numLow, numLowFreqs, magicCap, roundMul, roundQuot, Int.toNat_natCast,
      Int.one_mul, gt_iff_lt, Int.ofNat_lt, decide_eq_true_eq]
    by_cases h : p.cfDen < p.cfNum <;> simp [h]

/-- constructor guards (`if not all(… for center_fraction in center_fractions): raise ValueError`) -/
theorem ctor_accepts_eq (p : PairCfg) (isInt : Bool) :
    ctor_accepts_fastmrirandom p.cfNum p.cfDen (if isInt then 1 else 0) = ctorAccepts .fastmriRandom p isInt ∧
    ctor_accepts_fastmriequispaced p.cfNum p.cfDen (if isInt then 1 else 0) = ctorAccepts .fastmriEquispaced p isInt ∧
    ctor_accepts_fastmrimagic p.cfNum p.cfDen (if isInt then 1 else 0) = ctorAccepts .fastmriMagic p isInt ∧
    ctor_accepts_cartesianrandom p.cfNum p.cfDen (if isInt then 1 else 0) = ctorAccepts .cartesianRandom p isInt ∧
    ctor_accepts_cartesianequispaced p.cfNum p.cfDen (if isInt then 1 else 0) = ctorAccepts .cartesianEquispaced p isInt ∧
    ctor_accepts_cartesianmagic p.cfNum p.cfDen (if isInt then 1 else 0) = ctorAccepts .cartesianMagic p isInt := by
  simp only [ctor_accepts_fastmrirandom, ctor_accepts_fastmriequispaced, ctor_accepts_fastmrimagic, ctor_accepts_cartesianrandom,
    ctor_accepts_cartesianequispaced, ctor_accepts_cartesianmagic, ctorAccepts, fractionAccepted, countAccepted, and_self]

theorem num_low_gaussian1d_eq (cols : Nat) (p : PairCfg) (ty : Int) :
    num_low_gaussian1d cols p.cfNum p.cfDen ty = numLow .gaussian1d cols p := by
  simp only [num_low_gaussian1d, numLow, roundMul, Int.toNat_natCast]

theorem num_low_ktuniform_eq (cols : Nat) (p : PairCfg) (ty : Int) :
    num_low_ktuniform cols p.cfNum p.cfDen ty = numLow .ktUniform cols p := by
  simp only [num_low_ktuniform, numLow, roundMul, Int.toNat_natCast]

theorem num_low_ktgaussian1d_eq (cols : Nat) (p : PairCfg) (ty : Int) :
    num_low_ktgaussian1d cols p.cfNum p.cfDen ty = numLow .ktGaussian1d cols p := by
  simp only [num_low_ktgaussian1d, numLow, roundMul, Int.toNat_natCast]

theorem magic_cap_eq (l t : Int) : magic_cap l t = magicCap l t := by
  simp only [magic_cap, magicCap]

/-- the budget test `adjusted_target_cols_to_sample > 0` of the Magic generators -/
theorem magic_adjusted_target_eq (n : Nat) (l t : Int) :
    magicAdjusted n t l = if magic_adjusted_target l t > 0 then roundDiv n (magic_adjusted_target l t).toNat else 0 := by
  unfold magic_adjusted_target magicAdjusted
  by_cases h : t - l > 0
  · simp
  · simp

/-- `centered_disk_mask`: centre sample `(rows // 2, cols // 2)`, strict `<` against `radius²` -/
theorem disk_pred_eq (rows cols : Nat) (radius : Int) (x y : Nat) :
    disk_pred rows cols radius x y = inDisk rows cols radius x y := by
  unfold disk_pred inDisk
  simp only [Int.fdiv_eq_ediv_of_nonneg _ (by decide : (0 : Int) ≤ 2)]
  try omega
  have e1 : ((rows : Int) / 2) = ((rows / 2 : Nat) : Int) := by omega
  have e2 : ((cols : Int) / 2) = ((cols / 2 : Nat) : Int) := by omega
  rw [e1, e2]

/-- CIRCUS disc: `(Y - c0)² + (X - c1)² <= radius²` -/
theorem circus_disk_pred_eq (rows cols : Nat) (thr : Int) (x y : Nat) :
    circus_disk_pred ((rows / 2 : Nat) : Int) ((cols / 2 : Nat) : Int) thr x y = inDiskLe rows cols thr x y := by
  simp only [circus_disk_pred, inDiskLe]

/-! ## structural tables of the current source (all `decide` on generated data) -/

/-- `temp_seed` is `state = rng.get_state(); rng.seed(seed); try: yield finally: rng.set_state(state)`: the caller's
seed reaches `rng.seed` unchanged — also `0`, `False`, `np.int64(0)` -/
theorem seed_passes_unchanged : seedPassOk tempSeed tempSeedArgs = true := by decide

/-- no instance / class / module state is written, no memoising decorator or mutable default argument is used in any
function reachable from `mask_func` or `__call__` of the 14 generators -/
theorem no_state_written : stateWritesOk stateWrites = true := by decide

/-- `__call__` is its guards followed by `return self.mask_func(shape, *args, **kwargs)` -/
theorem call_forwards : callPlanOk callPlans = true := by decide

/-- every generator: one `with temp_seed(self.rng, seed)` over its own, never rebound, `seed`; `choose_acceleration`
is called once, inside it, before the `return_acs` return -/
theorem seed_param_ok : seedParamOk seedParams = true := by decide

/-- the call sites outside `subsample.py` request mask and ACS with the same `shape` and `seed`; `integerize_seed`
hands int seeds on unchanged -/
theorem call_site_plumbing_ok : plumbingOk callSitePlumbing = true := by decide

/-- the machine the translated facts select is the one the property theorems (`Props/C06.lean`, section histories)
are about -/
theorem code_machine {σ Seed : Type} :
    @callWith σ Seed (SeedArg.ofTexts tempSeedArgs) (MemoPolicy.ofWrites stateWrites) = @call σ Seed := by
  have h1 : SeedArg.ofTexts tempSeedArgs = .unchanged := by decide
  have h2 : MemoPolicy.ofWrites stateWrites = .none := by decide
  rw [h1, h2]; rfl

/-- the geometry helpers build their index grids with the default (64-bit signed) integer type and cast nothing to a
narrow or unsigned integer: the squared distances of `Model/MaskGeom.lean` (computed in ℤ) are what the code computes,
for every k-space size -/
theorem grid_index_dtypes_ok : C06Grid.gridDtypesOk gridDtypes = true := by decide

/-- `poisson`: the corner crop is applied to the rasterised pattern BEFORE the ACS disc is OR-ed in — the translated
statement order selects `C06Crop.poissonFrame`, the frame `Props.C06.poisson_crop_acs_subset` is about -/
theorem poisson_crop_before_disc : C06Crop.frameOfOrder poissonOrder = C06Crop.poissonFrame := by
  have h : poissonOrder = ["raster", "crop", "disc"] := by decide
  rw [h]; rfl

end DirectVerif.Bridge.C06
