import DirectVerif.Gen.C03
import DirectVerif.Model.Mask
/-!
# Bridge C03 — what the translator read in `/repo` is what the model says

* every `torch.where` that implements under-sampling has the predicate / branches of the model
  kernel (`mask == 0 ? +0 : data`, `padding == 1 ? +0 : data`), for every mask element type;
* the masked operators compose their stages in the modelled order, and — the decidable
  well-formedness the property theorems need — the forward operator *ends* with the mask and the
  backward operators *start* with it;
* `apply_mask` hands `kspace.shape[1:]` and the seed to the mask function, uses a tensor mask as is
  and asserts the complex axis; `MRILogLikelihood.forward` never uses the data or the prediction
  outside the data branch of a `where`.
-/
namespace DirectVerif.Bridge.C03
open DirectVerif DirectVerif.Mask DirectVerif.Gen.C03

theorem apply_mask_kernel_eq {μ : Type} [MaskVal μ] (mv : μ) (kv : FVal) :
    apply_mask_kernel mv kv = whereZero mv kv := by
  simp only [apply_mask_kernel, whereZero]

theorem apply_padding_kernel_eq {μ : Type} [MaskVal μ] (pv : μ) (dv : FVal) :
    apply_padding_kernel pv dv = wherePad pv dv := by
  simp only [apply_padding_kernel, wherePad]

theorem loglik_forward_kernel_eq {μ : Type} [MaskVal μ] (mv : μ) (kv : FVal) :
    loglik_forward_kernel mv kv = whereZero mv kv := by
  simp only [loglik_forward_kernel, whereZero]

theorem loglik_data_kernel_eq {μ : Type} [MaskVal μ] (mv : μ) (kv : FVal) :
    loglik_data_kernel mv kv = whereZero mv kv := by
  simp only [loglik_data_kernel, whereZero]

theorem loglik_no_raw_use : loglik_raw_uses = 0 := by decide

theorem a_star_kernel_eq {μ : Type} [MaskVal μ] (mv : μ) (kv : FVal) :
    a_star_kernel mv kv = whereZero mv kv := by
  simp only [a_star_kernel, whereZero]

theorem a_star_stages_eq : a_star_stages = bwdStages := by decide
theorem a_star_stages_wf : a_star_stages.head? = some .mask := by decide

theorem forward_operator_stages_eq : forward_operator_stages = fwdStages := by decide
theorem forward_operator_stages_wf : forward_operator_stages.getLast? = some .mask := by decide

theorem backward_operator_stages_eq : backward_operator_stages = bwdStages := by decide
theorem backward_operator_stages_wf : backward_operator_stages.head? = some .mask := by decide

/-- the mask function sees `kspace.shape[1:]` (as `applyMaskFunc` models), gets the seed, a tensor
mask is used unchanged, and the complex axis is asserted -/
theorem apply_mask_plan_eq : apply_mask_plan = (1, true, true, true) := by decide
theorem apply_mask_shape_slice_eq : apply_mask_shape_slice = (1, none) := by decide

/-- `ApplyMaskModule.forward` has no return and no other logic before its unconditional
`T.apply_mask(sample[input_kspace_key], sample[sampling_mask_key])` call besides the two key
guards, and stores the result under the target key — i.e. it is `Mask.applyMaskModule`, a function
of (input, mask) only (`apply_mask_module_ignores_existing_target`). -/
theorem apply_mask_module_plan_eq : apply_mask_module_plan = (0, 0, true, true, true, true) := by decide

/-- **every** masking site found under `direct/nn` is of an accepted form: `torch.where(mask == 0, +0 of an
explicit tensor dtype, data)`, a call of the verified `apply_mask`, or a call of a masked operator method;
no product with a mask, no `masked_fill` (`Props/C03.wf_site_*` then apply to each of them) -/
theorem nn_mask_sites_wf : nn_mask_sites.all Site.wf = true := by decide +kernel

/-- … and every site lies in a function the oracle exercises on the real module, or in an engine training
iteration whose sites are calls of verified functions (listed in `Mask.structuralOnly`) -/
theorem nn_mask_sites_accounted : nn_mask_sites.all Site.accounted = true := by decide +kernel

/-- no covered function has lost its masking: every function the oracle list names still contains at
least one masking site -/
theorem nn_mask_sites_present :
    oracleCovered.all (fun f => nn_mask_sites.any (fun s => s.func == f)) = true := by decide +kernel

/-- the classes that contain masking sites keep **no state between calls**: no attribute write outside
`__init__`, no module-level container written from a method, no caching decorator — so a mask (or a
comparison with it) cannot survive from one call to the next and every call is a function of its
arguments and the parameters only (what `Mask.fwdOp` / `bwdOp` / `aStarOp` / `loglik` model) -/
theorem nn_state_writes_none : nn_state_writes = [] := by decide

/-! ## phase 3 -/

/-- the functions that decide the property (private helpers followed) behave as the model presupposes: no return of an
input tensor outside a `is None` guard, **no state written** (no `global`, no attribute / module-level container /
function-attribute / mutable-default write, no caching decorator), **no in-place update of an argument**, and **no
condition or loop range that depends on a tensor's shape, dtype or values or on the training / grad mode** (size
thresholds, chunking, mode-dependent paths).  Layout (number of returns, if/else vs conditional expression, hoisted
locals, extracted helpers) is not part of the facts. -/
theorem func_facts_eq : func_facts = expectedFacts := by decide +kernel
theorem func_facts_pure : func_facts.all FuncFacts.pure = true := by decide +kernel

/-- masking sites outside `direct/nn`: verified forms, mask algebra, or a weighting of an operand `apply_mask` has already
masked; any product of unmasked data with a mask (such as the repaired `kspace * acs_mask + 0.0`,
`Props/C03.acs_mul_pinned_violates`) breaks this lemma -/
theorem data_mask_sites_wf : data_mask_sites.all Site.wfData = true := by decide +kernel

/-- no covered function of `direct/nn` has lost (or silently gained) a masking site -/
theorem nn_site_counts_eq :
    expectedSiteCounts.all (fun fc => siteCount nn_mask_sites fc.1 == fc.2) = true := by decide +kernel
theorem nn_sites_all_counted :
    nn_mask_sites.all (fun s => expectedSiteCounts.any (fun fc => fc.1 == s.func)) = true := by decide +kernel

/-- `CreateSamplingMask.__call__` is `Mask.createSamplingMask`: default shape `kspace.shape[1:]`, `None` entries from
`kspace.shape[1:-1]` then `+ (2,)`, complete shapes `+ (2,)`, seed = ord-tuple of the file name iff `use_seed`,
`mask_func(shape, seed, return_acs=False)`, padding cleared with `apply_padding`, stored afterwards -/
theorem create_sampling_mask_plan_eq :
    create_sampling_mask_plan = [true, true, true, true, true, true, true] := by decide

/-- the zero constant of `apply_mask` / `apply_padding` carries the dtype and device of the data (so float16 / float64 /
boolean data keep their dtype, as the oracle's dtype ladder checks) -/
theorem where_zero_dtypes_eq : where_zero_dtypes =
    [("apply_mask", "kspace.dtype", "kspace.device"), ("apply_padding", "data.dtype", "data.device")] := by decide +kernel

/-- `ApplyZeroPadding.__call__` reads and writes the configured `kspace_key` / `padding_key` and nothing else -/
theorem apply_zero_padding_plan_eq : apply_zero_padding_plan = [true, true, true, true, true] := by decide

/-- every masking site outside the listed alternatives is **unconditional**: no `where` / `apply_mask` / masked-operator
call of a block sits under an `if` or a flag of its function (helpers inlined) -/
theorem nn_conditional_sites_eq : nn_conditional_sites = expectedConditionalSites := by decide +kernel

end DirectVerif.Bridge.C03
