import DirectVerif.Gen.C04
import DirectVerif.Model.MaskGeom
/-!
# Bridge C04 — what the translator extracted from `/repo` equals the hand-written model

Kernels are closed by fixed scripts; the structural tables (reshape index assignments, `_broadcast_mask`
branches, what every `return` of the 14 `mask_func` is wrapped in, the constructor-parameter table of
`build_masking_function`) are compared by `decide`.
-/
namespace DirectVerif.Bridge.C04
open DirectVerif DirectVerif.MaskGeom DirectVerif.Gen.C04

/-- `BaseMaskFunc.__call__` guards -/
theorem call_rejects_eq (framed : Bool) (rank : Int) :
    (call_rejects_rank rank || call_rejects_framed (if framed then 1 else 0) rank) = callRejects framed rank := by
  cases framed <;> simp [call_rejects_rank, call_rejects_framed, callRejects]

/-- `Kt*MaskFunc.mask_func` rank guard, for the three Kt generators -/
theorem kt_rejects_eq (rank : Nat) :
    (kt_rejects_KtRadial rank = true ↔ ktGuard rank = .error .valueError) ∧
    (kt_rejects_KtUniform rank = true ↔ ktGuard rank = .error .valueError) ∧
    (kt_rejects_KtGaussian1D rank = true ↔ ktGuard rank = .error .valueError) := by
  simp only [kt_rejects_KtRadial, kt_rejects_KtUniform, kt_rejects_KtGaussian1D, ktGuard]
  by_cases h4 : rank = 4
  · subst h4; simp
  · by_cases h5 : rank = 5
    · subst h5; simp
    · have e4 : ¬ ((rank : Int) = 4) := by omega
      have e5 : ¬ ((rank : Int) = 5) := by omega
      simp [h4, h5, e4, e5]

/-- `_reshape_and_add_coil_axis`: which entries of `mask_shape` are overwritten with which of `shape` -/
theorem reshape_tables_eq :
    reshape_assign = reshapeAssign ∧ reshape_assign_framed = reshapeAssignFramed := by decide

/-- `_broadcast_mask` branches -/
theorem broadcast_table_eq : broadcast_branches = broadcastBranches := by decide

/-- every `return` of every `mask_func` is `self._reshape_and_add_coil_axis(…, shape)`, both branches;
the `center_mask_func` line generators go through `self._broadcast_mask(…, num_rows)` -/
theorem return_table_ok : returnTableOk return_table = true := by decide

/-- `build_masking_function`: constructor parameters per class; Kt generators pin `mode = DYNAMIC` -/
theorem build_table_eq : build_table = buildTable ∧ kt_mode_pinned_dynamic = true := by decide

/-- Magic offsets and half lengths -/
theorem magic_offset_pos_eq (offset : Int) : magic_offset_pos offset = magicOffPos offset := by
  simp only [magic_offset_pos, magicOffPos, Int.fmod_eq_emod_of_nonneg _ (by decide : (0 : Int) ≤ 2), beq_iff_eq]

theorem magic_offset_neg_eq (offset : Int) : magic_offset_neg offset = magicOffNeg offset := by
  simp only [magic_offset_neg, magicOffNeg, Int.fmod_eq_emod_of_nonneg _ (by decide : (0 : Int) ≤ 2), beq_iff_eq]

theorem magic_poslen_eq (n : Int) : magic_poslen n = magicPosLen n := by
  unfold magic_poslen magicPosLen
  simp only [Int.fdiv_eq_ediv_of_nonneg _ (by decide : (0 : Int) ≤ 2)]
  try omega

theorem magic_neglen_eq (n : Int) : magic_neglen n = magicNegLen n := by
  unfold magic_neglen magicNegLen
  simp only [Int.fdiv_eq_ediv_of_nonneg _ (by decide : (0 : Int) ≤ 2)]
  try omega

end DirectVerif.Bridge.C04
