import DirectVerif.Gen.C04
import DirectVerif.Model.MaskInterior
import DirectVerif.Model.C04Poisson
import DirectVerif.Model.C04Tables
/-!
# Bridge C04 — what the translator extracted from `/repo` equals the hand-written model

Kernels are closed by fixed scripts; the structural tables (reshape index assignments, `_broadcast_mask`
branches, what every `return` of the 14 `mask_func` is wrapped in, the constructor-parameter table of
`build_masking_function`) are compared by `decide`.
-/
namespace DirectVerif.Bridge.C04
open DirectVerif DirectVerif.MaskGeom DirectVerif.Gen.C04

/-- `BaseMaskFunc.__call__` guards -/
theorem call_rejects_eq (framed : Bool) (rank : Int) :
    (call_rejects_rank rank || call_rejects_framed (if framed then 1 else 0) rank) = callRejects framed rank := by
  cases framed <;> simp [call_rejects_rank, call_rejects_framed, callRejects]

/-- `Kt*MaskFunc.mask_func` rank guard, for the three Kt generators -/
theorem kt_rejects_eq (rank : Nat) :
    (kt_rejects_KtRadial rank = true ↔ ktGuard rank = .error .valueError) ∧
    (kt_rejects_KtUniform rank = true ↔ ktGuard rank = .error .valueError) ∧
    (kt_rejects_KtGaussian1D rank = true ↔ ktGuard rank = .error .valueError) := by
  simp only [kt_rejects_KtRadial, kt_rejects_KtUniform, kt_rejects_KtGaussian1D, ktGuard]
  by_cases h4 : rank = 4
  · subst h4; simp
  · by_cases h5 : rank = 5
    · subst h5; simp
    · have e4 : ¬ ((rank : Int) = 4) := by omega
      have e5 : ¬ ((rank : Int) = 5) := by omega
      simp [h4, h5, e4, e5]

/-- `_reshape_and_add_coil_axis`: which entries of `mask_shape` are overwritten with which of `shape` -/
theorem reshape_tables_eq :
    reshape_assign = reshapeAssign ∧ reshape_assign_framed = reshapeAssignFramed := by decide

/-- `_broadcast_mask` branches -/
theorem broadcast_table_eq : broadcast_branches = broadcastBranches := by decide

/-- every `return` of every `mask_func` is `self._reshape_and_add_coil_axis(…, shape)`, both branches;
the `center_mask_func` line generators go through `self._broadcast_mask(…, num_rows)` -/
theorem return_table_ok : returnTableOk return_table = true := by decide

/-- per-generator final assembly (abstract interpretation of every `mask_func`): the value returned by the mask
branch is `pattern-of-this-frame ∨ acs`, the `return_acs` branch returns `acs` — a draw moved out of the
frame loop, a frame copied from another one, or a dropped `| acs` makes this fail -/
theorem assembly_table_ok : assemblyTableOk assembly_table = true := by decide

/-- `build_masking_function`: constructor parameters per class; Kt generators pin `mode = DYNAMIC` -/
theorem build_table_eq : build_table = buildTable ∧ kt_mode_pinned_dynamic = true := by decide

/-- Magic offsets and half lengths -/
theorem magic_offset_pos_eq (offset : Int) : magic_offset_pos offset = magicOffPos offset := by
  have h : offset % 2 = 0 ∨ offset % 2 = 1 := by omega
  rcases h with h | h <;>
    simp [magic_offset_pos, magicOffPos, Int.fmod_eq_emod_of_nonneg _ (by decide : (0 : Int) ≤ 2), h] <;> omega

theorem magic_offset_neg_eq (offset : Int) : magic_offset_neg offset = magicOffNeg offset := by
  have h : offset % 2 = 0 ∨ offset % 2 = 1 := by omega
  rcases h with h | h <;>
    simp [magic_offset_neg, magicOffNeg, Int.fmod_eq_emod_of_nonneg _ (by decide : (0 : Int) ≤ 2), h] <;> omega

theorem magic_poslen_eq (n : Int) : magic_poslen n = magicPosLen n := by
  unfold magic_poslen magicPosLen
  try simp only [Int.fdiv_eq_ediv_of_nonneg _ (by decide : (0 : Int) ≤ 2)]
  first | done | omega

theorem magic_neglen_eq (n : Int) : magic_neglen n = magicNegLen n := by
  unfold magic_neglen magicNegLen
  try simp only [Int.fdiv_eq_ediv_of_nonneg _ (by decide : (0 : Int) ≤ 2)]
  first | done | omega

/-! k-t grid helpers (numpy float idioms `np.floor(a / b)`, `np.ceil(a / b)` translated as floor / ceiling division) -/

theorem kt_linear_eq (idx row : Int) (h : 0 ≤ row) : (kt_linear_x idx row, kt_linear_y idx row) = linear2d idx row := by
  unfold kt_linear_x kt_linear_y linear2d
  simp only [Int.fdiv_eq_ediv_of_nonneg _ h]

theorem kt_phase_corrected_eq (phase ny : Int) : kt_phase_corrected phase ny = phase + halfUp ny := by
  unfold kt_phase_corrected halfUp
  simp only [Int.fdiv_eq_ediv_of_nonneg _ (by decide : (0 : Int) ≤ 2)]
  first | done | omega

theorem kt_time_corrected_eq (time nt : Int) : kt_time_corrected time nt = time + halfUp nt := by
  unfold kt_time_corrected halfUp
  simp only [Int.fdiv_eq_ediv_of_nonneg _ (by decide : (0 : Int) ≤ 2)]
  first | done | omega

theorem kt_trajectory_index_eq (phase time ny nt : Int) :
    kt_trajectory_index (kt_time_corrected time nt) (kt_phase_corrected phase ny) ny = trajIndex ny nt phase time := by
  rw [kt_time_corrected_eq, kt_phase_corrected_eq]
  rfl

/-- `ph`, `ti`, `inds` of KtUniform (and `inds` of KtGaussian1D) -/
theorem kt_uniform_ph_ti_eq (ind : Int) (n nt : Nat) :
    kt_uniform_ph ind n = ind % n - ((n / 2 : Nat) : Int) ∧ kt_uniform_ti ind n nt = ind / n - ((nt / 2 : Nat) : Int) := by
  unfold kt_uniform_ph kt_uniform_ti
  simp only [Int.fdiv_eq_ediv_of_nonneg _ (by decide : (0 : Int) ≤ 2), Int.fdiv_eq_ediv_of_nonneg _ (Int.natCast_nonneg n),
    Int.fmod_eq_emod_of_nonneg _ (Int.natCast_nonneg n)]
  constructor <;> (first | done | omega)

theorem kt_inds_eq (ph ti : List Int) (n nt : Nat) :
    ktInds n nt ph ti = List.zipWith (fun p t => kt_uniform_inds p t n nt) ph ti ∧
    ktInds n nt ph ti = List.zipWith (fun p t => kt_gaussian_inds p t n nt) ph ti := by
  unfold ktInds kt_uniform_inds kt_gaussian_inds
  simp only [Int.fdiv_eq_ediv_of_nonneg _ (by decide : (0 : Int) ≤ 2)]
  have e1 : ((nt : Int) / 2) = ((nt / 2 : Nat) : Int) := by omega
  have e2 : ((n : Int) / 2) = ((n / 2 : Nat) : Int) := by omega
  rw [e1, e2]
  exact ⟨rfl, rfl⟩

/-- the clamp `inds[inds <= 0] = 1` exists in KtUniform (the driver runs `ktUniformFlat true`) and not in
KtGaussian1D -/
theorem clamp_table_eq : clamp_KtUniform = some (0, 1) ∧ clamp_KtGaussian1D = none := by decide

/-- both Poisson-disc radii are clipped to at least one pixel before the `_poisson` kernel sees them -/
theorem poisson_radius_floor_eq : poisson_radius_floor = poissonRadiusFloor := by decide

/-! `direct/common/_poisson.pyx` (through the `.pyx` front-end): the statements `Model/C04Poisson.lean` mirrors -/

/-- every located statement of `poisson` (initialisation, selection of the active point, the float assignments of an
attempt, window bounds, distance, conflict test, accept / remove updates, `random_uniform`, `randint`) reads as the
model assumes -/
theorem pyx_facts_eq : pyx_facts = C04Poisson.pyxFacts := by decide

/-- `while num_actives > 0` is the model's `acts.size = 0` stop -/
theorem pyx_outer_guard_eq (na : Nat) : pyx_outer_guard na = !(decide (na = 0)) := by
  unfold pyx_outer_guard
  by_cases h : na = 0
  · subst h; simp
  · have h2 : 0 < na := by omega
    simp [h, h2]

/-- `while not done and k < max_attempts`: after `k` failed attempts the model has `max_attempts - k` left -/
theorem pyx_attempt_guard_eq (k ma : Nat) :
    pyx_attempt_guard 0 k ma = decide (0 < ma - k) ∧ pyx_attempt_guard 1 k ma = false := by
  unfold pyx_attempt_guard
  constructor
  · by_cases h : k < ma
    · have : ((k : Int) < ma) := by omega
      have h2 : 0 < ma - k := by omega
      simp [this, h2]
    · have : ¬ ((k : Int) < ma) := by omega
      have h2 : ¬ 0 < ma - k := by omega
      simp [this, h2]
  · simp

/-- the grid test, on integer points (the model applies the same four comparisons to the exact float value) -/
theorem pyx_in_grid_eq (qx qy : Int) (nx ny : Nat) :
    pyx_in_grid qx qy nx ny = C04Poisson.inGridTest (C04Poisson.Dy.ofInt qx) (C04Poisson.Dy.ofInt qy) nx ny := by
  unfold pyx_in_grid C04Poisson.inGridTest C04Poisson.Dy.nonneg C04Poisson.Dy.ltNat C04Poisson.Dy.ofInt C04Poisson.Dy.pow2
  simp [Bool.and_assoc]

/-- `num_actives += 1` / `num_actives -= 1` / `k += 1` are the model's `push` / `pop` / one attempt less -/
theorem pyx_counter_updates_eq (na k : Int) :
    pyx_na_accept na = na + 1 ∧ pyx_na_remove na = na - 1 ∧ pyx_k_step k = k + 1 := ⟨rfl, rfl, rfl⟩

/-! tables about ALL classes deriving from `BaseMaskFunc` (discovered in the source, not a fixed list) and the callers -/

/-- no mask-function class (the 14 generators, their abstract bases, `CalgaryCampinasMaskFunc`) writes an instance
attribute, a class attribute or a `global` outside its construction: a call keeps no state for the next one -/
theorem state_table_ok : C04Tables.stateTableOk state_table = true := by decide

/-- every class with a concrete `mask_func` returns only through `self._reshape_and_add_coil_axis(…, shape)` — except
`CalgaryCampinasMaskFunc` (out of the property's scope: it returns `(1, rows, cols, 1)` arrays built by hand); the 14
generators are all present -/
theorem class_table_ok : C04Tables.classTableOk class_table = true := by decide

/-- callers in `direct/` (`CreateSamplingMask`, `EstimateBodyCoilImage`, `apply_mask`) call the mask-function object
itself — through `BaseMaskFunc.__call__` and its rank guards — with keywords among `shape`, `seed`, `return_acs` -/
theorem call_sites_ok : C04Tables.callSitesOk call_sites = true := by decide

end DirectVerif.Bridge.C04
