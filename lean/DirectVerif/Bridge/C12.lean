import DirectVerif.Gen.C12
import DirectVerif.Model.Dataset
/-!
# Bridge C12 — what the translator read off `/repo` equals the hand-written model

Arithmetic kernels: closed by `simp only [defs]; omega`.  Structural tables: every entry must be
`true` (`decide`); the seed-plumbing tables of `FakeMRIData` and `SheppLoganDataset` must be all-true.
-/
namespace DirectVerif.Bridge.C12
open DirectVerif DirectVerif.Dataset DirectVerif.Gen.C12

theorem window_lo_eq (s c n len : Int) : window_lo s c n len = windowLo s c := by
  simp only [window_lo, windowLo, pyMax]; first | done | omega

theorem window_hi_eq (s c n len : Int) : window_hi s c n len = windowHi s c n := by
  simp only [window_hi, windowHi, pyMin]; first | done | omega

theorem window_short_eq (s c n len : Int) : window_short s c n len = windowShort len c := by
  simp only [window_short, windowShort]

theorem fill_before_guard_eq (s c n len : Int) : fill_before_guard s c n len = fillBeforeGuard s c := by
  simp only [fill_before_guard, fillBeforeGuard]

theorem fill_before_len_eq (s c n len : Int) : fill_before_len s c n len = fillBeforeLen s c := by
  simp only [fill_before_len, fillBeforeLen]

theorem fill_after_guard_eq (s c n len : Int) : fill_after_guard s c n len = fillAfterGuard s c n := by
  simp only [fill_after_guard, fillAfterGuard]

theorem fill_after_len_eq (s c n len : Int) : fill_after_len s c n len = fillAfterLen s c n := by
  simp only [fill_after_len, fillAfterLen]

/-- the condition under which `ValueError` is raised, whether the guard is nested in `if idx < 0:` (`-idx > len`) or stands
before it (`idx < -len`): for every length `len ≥ 0` it is `idx < 0 ∧ -idx > len`, the test `locate` makes -/
theorem concat_neg_reject_eq (idx len : Int) (h : 0 ≤ len) :
    concat_neg_reject idx len = (decide (idx < 0) && concatNegReject idx len) := by
  rw [Bool.eq_iff_iff]
  simp only [concat_neg_reject, concatNegReject, Bool.and_eq_true, decide_eq_true_eq]
  first | done | omega

theorem concat_neg_idx_eq (idx len : Int) : concat_neg_idx idx len = concatNegIdx idx len := by
  simp only [concat_neg_idx, concatNegIdx]
  first | done | omega

/-- the local index: `idx if d == 0 else idx - prev`, or `idx - (prev if d > 0 else 0)` through the start offset of the
selected member — equal for every member number `d ≥ 0` (the bisection result) -/
theorem concat_sample_idx_eq (idx d prev curc : Int) (hd : 0 ≤ d) :
    concat_sample_idx idx d prev curc = concatSampleIdx idx d prev := by
  unfold concat_sample_idx concatSampleIdx
  by_cases h0 : d = 0 <;> by_cases h1 : d > 0 <;> simp [h0, h1] <;> omega

/-- `out_sequence.append(length + total); total += length` is the step of `cumsumFrom` -/
theorem cumsum_step_eq (l t : Nat) (ls : List Nat) :
    cumsumFrom t (l :: ls) = (cumsum_append l t).toNat :: cumsumFrom (cumsum_total l t).toNat ls := by
  simp only [cumsumFrom, cumsum_append, cumsum_total]
  congr 1 <;> omega

/-- `volume_indices[filename] = range(cur, cur + num)` (a `dict` assignment), `cur += num` is the step of
`parseStep` -/
theorem parse_step_eq {φ : Type} [DecidableEq φ] (filt : Option PySliceT) (st : Parsed φ) (f : φ) (n : Nat) :
    (parseStep filt st (f, some n)).vols =
        dictSet st.vols f ((parse_vol_start st.cur (numSlices filt n)).toNat,
                           (parse_vol_stop st.cur (numSlices filt n)).toNat) ∧
    (parseStep filt st (f, some n)).cur = (parse_next_cur st.cur (numSlices filt n)).toNat := by
  simp only [parseStep, parse_vol_start, parse_vol_stop, parse_next_cur]
  constructor
  · congr 2 <;> omega
  · omega

theorem parse_table_ok : parseTable.all (·.2) = true := by decide
theorem window_table_ok : windowTable.all (·.2) = true := by decide
theorem concat_table_ok : concatTable.all (·.2) = true := by decide
/-- per-sample seeds come from a private stream seeded with the dataset seed (`temp_seed`) -/
theorem init_seed_table_ok : initSeedTable.all (·.2) = true := by decide

/-- file selection of `H5SliceData.__init__` / `CMRxReconDataset.__init__` is `selectFiles`; the listing is sorted iff the
model says so -/
theorem select_table_ok : selectTable.all (·.2) = true := by decide
theorem cmr_select_table_ok : cmrSelectTable.all (·.2) = true := by decide
theorem listing_sorted_eq : listingSorted = listingSortedCurrent ∧ cmrListingSorted = cmrListingSortedCurrent := by decide
/-- repeated names are dropped keeping the first (`list(dict.fromkeys(...))`) iff the model does -/
theorem dedup_eq : dedupNames = dedupCurrent ∧ cmrDedupNames = dedupCurrent := by decide
/-- … and they are recognised on the `pathlib.Path` objects, not on the entries as given (`selectFilesRaw … onNorm`) -/
theorem dedup_on_normalised_eq :
    dedupOnNormalised = dedupOnNormalisedCurrent ∧ cmrDedupOnNormalised = dedupOnNormalisedCurrent := by decide
/-- what the subclasses forward is `classParams`; `CMRxReconDataset` is `cmrParse` / `cmrBlock` -/
theorem class_table_ok : classTable.all (·.2) = true := by decide
theorem cmr_table_ok : cmrTable.all (·.2) = true := by decide

/-- dataset objects share no state: the item functions of the model take no argument for "what other objects did" -/
theorem shared_state_table_ok : sharedStateTable.all (·.2) = true := by decide

/-- the seed reaches `make_blobs(random_state=…)` and `simulate_sensitivity_maps(seed=…)`, which seeds
for every seed that is not `None` -/
theorem fake_table_ok : fakeTable.allTrue = true := by decide

/-- `SheppLoganDataset.__getitem__` hands the slice's seed to `simulate_sensitivity_maps` and draws the
noise of all-zero slices from a stream seeded with it -/
theorem shepp_table_ok : sheppTable.allTrue = true := by decide

/-! ## phase 3 -/

/-- `n_samples = self.blobs_n_samples if self.blobs_n_samples else np.prod(list(spatial_shape)) // self.ndim` -/
theorem blobs_n_samples_eq (given total ndim : Int) : blobs_n_samples given total ndim = blobsNSamples given total ndim := by
  simp only [blobs_n_samples, blobsNSamples, bne_iff_ne]

/-- `num_slices = self.spatial_shape[0] if len(self.spatial_shape) == 3 else 1` -/
theorem fake_num_slices_eq (ndim shape0 : Int) : fake_num_slices ndim shape0 = fakeNumSlices ndim shape0 := by
  simp only [fake_num_slices, fakeNumSlices, beq_iff_eq]

/-- `FakeMRIBlobsDataset`: names / ranges / `(filename, slice_no, seed)` list / item plumbing are `fakeNames` / `fakeBuild` /
`fakeIndex` -/
theorem fake_index_table_ok : fakeIndexTable.all (·.2) = true := by decide
/-- `SheppLoganDataset.__getitem__` is `sheppIndex`; the reported `slice_no` is the index as given iff the model says so -/
theorem shepp_index_table_ok : sheppIndexTable.all (·.2) = true := by decide
theorem shepp_slice_no_eq : sheppSliceNoIsIndexAsGiven = sheppReportsIndexAsGiven := by decide
/-- the `make_blobs` call is `blobArgs` (centres = coils, features = ndim, default shuffle); `simulate_sensitivity_maps`
draws one `uniform(0, 2π, 1)` and nothing for a single coil -/
theorem blob_call_table_ok : blobCallTable.all (·.2) = true := by decide
/-- loading an item writes no attribute of the dataset object (the item functions of the model return no new dataset) -/
theorem instance_state_table_ok : instanceStateTable.all (·.2) = true := by decide
/-- no dataset is constructed outside the data modules except through `build_dataset(_from_input)` / direct's
`ConcatDataset` -/
theorem callers_table_ok : callersTable.all (·.2) = true := by decide
theorem build_table_ok : buildTable.all (·.2) = true := by decide

end DirectVerif.Bridge.C12
