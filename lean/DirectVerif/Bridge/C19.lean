import DirectVerif.Gen.C19
import DirectVerif.Model.DataConsistency
/-!
# Bridge C19 — the operator composition translated from `/repo` is the hand-written model

1. `*_eq`: the plans generated from the Python AST of `MRILogLikelihood.forward`, `ConjGrad._A_star_op`,
   `_A_star_A_op`, `B_op`, `cg` (prologue, loop body per `bk_update_type` with `_PRP/_DY/_BAN` inlined, control
   skeleton) and `forward` equal the plans written in `Model/DataConsistency.lean` (`decide`).
2. `*_sem`: those plans, interpreted over **any** operations record, compute exactly `loglik`, `aStar`,
   `aStarA`, `bOp`, `cgInit`, `cgStep` — the definitions the property theorems are about and the driver runs.

A change of composition order, a dropped/added mask, a swapped operand of `-`, another reduction axis, a moved
`break`, a different inner product in `ak`/`bk` changes the generated plan and `decide` fails.
-/
namespace DirectVerif.Bridge.C19
open DirectVerif DirectVerif.DataConsistency DirectVerif.Gen.C19

theorem coil_dim_eq : coil_dim = 1 := by decide

theorem loglik_plan_eq : loglik_plan = loglikPlan := by decide
theorem loglik_default_scaling : loglik_default_scaling_is_one = true := by decide
theorem a_star_plan_eq : a_star_plan = aStarPlan := by decide
theorem a_star_a_plan_eq : a_star_a_plan = aStarAPlan := by decide
theorem b_op_plan_eq : b_op_plan = bOpPlan := by decide
theorem cg_init_plan_eq : cg_init_plan = cgInitPlan := by decide
theorem cg_body_plan_eq (u : Update) : cg_body_plan u = cgBodyPlan u := by cases u <;> decide
theorem cg_loop_shape_eq : cg_loop_shape = cgLoopShape := by decide
/-- `forward(masked_kspace, S, mask, z, lambd)` returns `self.cg(z, masked_kspace, S, mask, lambd, z)` -/
theorem forward_call_args_eq : forward_call_args = [3, 0, 1, 2, 4, 3] := by decide

section Semantics
universe u v w
variable {K : Type u} {V : Type v} {W : Type w} (o : Ops K V W)

/-- the plan of `MRILogLikelihood.forward` computes `loglik` -/
theorem loglik_plan_sem (s : K) (x : V) (y : W) :
    evalPlan o [.v x, .w y, .k s] loglik_plan = some [.v (loglik o s x y)] := by
  rw [loglik_plan_eq]
  simp [evalPlan, evalNodes, evalNode, loglikPlan, loglik]

theorem a_star_plan_sem (y : W) : evalPlan o [.w y] a_star_plan = some [.v (aStar o y)] := by
  rw [a_star_plan_eq]
  simp [evalPlan, evalNodes, evalNode, aStarPlan, aStar]

theorem a_star_a_plan_sem (x : V) : evalPlan o [.v x] a_star_a_plan = some [.v (aStarA o x)] := by
  rw [a_star_a_plan_eq]
  simp [evalPlan, evalNodes, evalNode, aStarAPlan, aStarA, aStar]

theorem b_op_plan_sem (x : V) (lam : K) : evalPlan o [.v x, .k lam] b_op_plan = some [.v (bOp o lam x)] := by
  rw [b_op_plan_eq]
  simp [evalPlan, evalNodes, evalNode, bOpPlan, bOp, aStarA, aStar]

/-- the statements of `cg` before the loop compute `cgInit` -/
theorem cg_init_plan_sem (x z : V) (y : W) (lam : K) :
    evalPlan o [.v x, .w y, .k lam, .v z] cg_init_plan =
      some [.v (cgInit o lam y z x).x, .v (cgInit o lam y z x).r, .v (cgInit o lam y z x).p,
            .k (cgInit o lam y z x).rr] := by
  rw [cg_init_plan_eq]
  simp [evalPlan, evalNodes, evalNode, cgInitPlan, cgInit, rhs, bOp, aStarA, aStar]

/-- the loop body of `cg` computes `cgStep` with `B = B_op(·, S, mask, lambd)`, for each update type -/
theorem cg_body_plan_sem (u : Update) (s : CGState K V) (lam : K) :
    evalPlan o [.v s.x, .v s.r, .v s.p, .k s.rr, .k lam] (cg_body_plan u) =
      some [.v (cgStep o u (bOp o lam) s).x, .v (cgStep o u (bOp o lam) s).r,
            .v (cgStep o u (bOp o lam) s).p, .k (cgStep o u (bOp o lam) s).rr] := by
  rw [cg_body_plan_eq]
  cases u <;>
    simp [evalPlan, evalNodes, evalNode, cgBodyPlan, cgHeadNodes, betaNodes, cgStep, beta, bOp, aStarA, aStar]

end Semantics
end DirectVerif.Bridge.C19
