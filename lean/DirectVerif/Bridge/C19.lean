import DirectVerif.Gen.C19
import DirectVerif.Model.DataConsistency
/-!
# Bridge C19 — the operator composition translated from `/repo` is the hand-written model

`*_sem`: the plans generated from the Python AST of `MRILogLikelihood.forward`, `ConjGrad._A_star_op`, `_A_star_A_op`,
`B_op`, `cg` (prologue, loop body per `bk_update_type` with the helpers inlined), interpreted over **any** operations
record, compute exactly `loglik`, `aStar`, `aStarA`, `bOp`, `cgInit`, `cgStep` — the definitions the property theorems
are about and the driver runs.  The lemmas are closed by evaluating the generated plan, so they are insensitive to
statement order, local names, hoisted sub-expressions and helper extraction (phase 3: the former textual `*_plan_eq`
lemmas were dropped for that reason); the control skeleton of `cg` is compared as data (`cg_loop_shape_eq`).

A change of composition order, a dropped/added mask, a swapped operand of `-`, another reduction axis, a moved
`break`, a different inner product in `ak`/`bk` changes the value of the generated plan and `simp` no longer closes.
-/
set_option linter.unusedSimpArgs false

namespace DirectVerif.Bridge.C19
open DirectVerif DirectVerif.DataConsistency DirectVerif.Gen.C19

theorem coil_dim_eq : coil_dim = 1 := by decide

theorem loglik_default_scaling : loglik_default_scaling_is_one = true := by decide
/-- a per-sample `loglikelihood_scaling` of shape `(N,)` is broadcast along the batch axis (`reshape(-1, 1, 1, 1, 1)`) -/
theorem loglik_scaling_batch_axis : loglik_scaling_on_batch_axis = true := by decide
theorem cg_loop_shape_eq : cg_loop_shape = cgLoopShape := by decide
/-- `forward(masked_kspace, S, mask, z, lambd)` returns `self.cg(z, masked_kspace, S, mask, lambd, z)` -/
theorem forward_call_args_eq : forward_call_args = [3, 0, 1, 2, 4, 3] := by decide

section Semantics
universe u v w
variable {K : Type u} {V : Type v} {W : Type w} (ox : OpsX K V W)

local notation "o" => ox.toOps

/-! The lemmas below are stated on the GENERATED plans and closed by evaluation: they do not depend on the order in which
independent statements appear, on the names of locals, on hoisted sub-expressions or on helper extraction — only on the
value the plan computes for every operations record.  (When a kernel is skipped the generated plan is the model's.) -/

/-- the plan of `MRILogLikelihood.forward` computes `loglik` -/
theorem loglik_plan_sem (s : K) (x : V) (y : W) :
    evalPlan ox [.v x, .w y, .k s] loglik_plan = some [.v (loglik o s x y)] := by
  simp [evalPlan, evalNodes, evalNode, loglik_plan, loglikPlan, loglik]

theorem a_star_plan_sem (y : W) : evalPlan ox [.w y] a_star_plan = some [.v (aStar o y)] := by
  simp [evalPlan, evalNodes, evalNode, a_star_plan, aStarPlan, aStar]

theorem a_star_a_plan_sem (x : V) : evalPlan ox [.v x] a_star_a_plan = some [.v (aStarA o x)] := by
  simp [evalPlan, evalNodes, evalNode, a_star_a_plan, aStarAPlan, aStarA, aStar]

theorem b_op_plan_sem (x : V) (lam : K) : evalPlan ox [.v x, .k lam] b_op_plan = some [.v (bOp o lam x)] := by
  simp [evalPlan, evalNodes, evalNode, b_op_plan, bOpPlan, bOp, aStarA, aStar]

/-- the statements of `cg` before the loop compute `cgInit` -/
theorem cg_init_plan_sem (x z : V) (y : W) (lam : K) :
    evalPlan ox [.v x, .w y, .k lam, .v z] cg_init_plan =
      some [.v (cgInit o lam y z x).x, .v (cgInit o lam y z x).r, .v (cgInit o lam y z x).p,
            .k (cgInit o lam y z x).rr] := by
  simp [evalPlan, evalNodes, evalNode, cg_init_plan, cgInitPlan, cgInit, rhs, bOp, aStarA, aStar]

/-- the loop body of `cg` computes `cgStep` with `B = B_op(·, S, mask, lambd)`, for each update type (the dispatch on
`bk_update_type` — if / elif chain, early returns in a helper — is resolved by the translator per update type) -/
theorem cg_body_plan_sem (u : Update) (s : CGState K V) (lam : K) :
    evalPlan ox [.v s.x, .v s.r, .v s.p, .k s.rr, .k lam] (cg_body_plan u) =
      some [.v (cgStep o u (bOp o lam) s).x, .v (cgStep o u (bOp o lam) s).r,
            .v (cgStep o u (bOp o lam) s).p, .k (cgStep o u (bOp o lam) s).rr] := by
  cases u <;>
    simp [evalPlan, evalNodes, evalNode, cg_body_plan, cgBodyPlan, cgHeadNodes, betaNodes, cgStep, beta, bOp, aStarA, aStar]

/-! ### phase 2: every re-implementation of the physics inside the unrolled models and engines evaluates to one of
the model's forms (`softDC`, `sense`, `feOp`, `aOp`, `aStar`, `dcGradTwice`, `dcGradAfter`, `loglik`, `cirimKspace`,
`hardDC`, `sensGrad`).  The lemmas are stated on the GENERATED plans: a sign, a mask on another term, a dropped
conjugate (`reduce` → unknown), another coil axis or other spatial dims changes the plan and `simp` no longer closes. -/

macro "site_simp" defs:Lean.Parser.Tactic.simpLemma,* : tactic =>
  `(tactic| simp [evalPlan, evalNodes, evalNode, softDC, sense, feOp, aOp, aStar, dcGradTwice, dcGradAfter, loglik,
      cirimKspace, hardDC, sensGrad, $defs,*])

theorem site_varnet_softdc_sem (k y : W) :
    evalPlan ox [.w k, .w y] site_varnet_softdc = some [.w (softDC o k y)] := by site_simp site_varnet_softdc, softDCPlan
theorem site_varnet_reg_in_sem (k y : W) :
    evalPlan ox [.w k, .w y] site_varnet_reg_in = some [.v (sense o k)] := by site_simp site_varnet_reg_in, sensePlan
theorem site_varnet_reg_out_sem (x : V) :
    evalPlan ox [.v x] site_varnet_reg_out = some [.w (feOp o x)] := by site_simp site_varnet_reg_out, feOpPlan
theorem site_rvn_softdc_sem (k y : W) :
    evalPlan ox [.w k, .w y] site_rvn_softdc = some [.w (softDC o k y)] := by site_simp site_rvn_softdc, softDCPlan
theorem site_rvn_reg_in_sem (k y : W) :
    evalPlan ox [.w k, .w y] site_rvn_reg_in = some [.v (sense o k)] := by site_simp site_rvn_reg_in, senseFirstPlan
theorem site_rvn_reg_out_sem (x : V) :
    evalPlan ox [.v x] site_rvn_reg_out = some [.w (feOp o x)] := by site_simp site_rvn_reg_out, feOpPlan
theorem site_vsharp_dc_sem (x : V) (y : W) :
    evalPlan ox [.v x, .w y] site_vsharp_dc = some [.v (dcGradAfter o x y)] := by site_simp site_vsharp_dc, dcGradAfterPlan
theorem site_vsharp3d_dc_sem (x : V) (y : W) :
    evalPlan ox [.v x, .w y] site_vsharp3d_dc = some [.v (dcGradAfter o x y)] := by
  site_simp site_vsharp3d_dc, dcGradAfterPlan
theorem site_vsharp_init_sem (x : V) (y : W) :
    evalPlan ox [.v x, .w y] site_vsharp_init = some [.v (sense o y)] := by site_simp site_vsharp_init, senseYPlan
theorem site_jointic_fwd_sem (x : V) : evalPlan ox [.v x] site_jointic_fwd = some [.w (aOp o x)] := by
  site_simp site_jointic_fwd, aOpPlan
theorem site_jointic_bwd_sem (k : W) : evalPlan ox [.w k] site_jointic_bwd = some [.v (aStar o k)] := by
  site_simp site_jointic_bwd, aStarPlan
theorem site_iterdual_fwd_sem (x : V) : evalPlan ox [.v x] site_iterdual_fwd = some [.w (aOp o x)] := by
  site_simp site_iterdual_fwd, aOpPlan
theorem site_iterdual_bwd_sem (k : W) : evalPlan ox [.w k] site_iterdual_bwd = some [.v (aStar o k)] := by
  site_simp site_iterdual_bwd, aStarPlan
theorem site_lpd_fwd_sem (x : V) : evalPlan ox [.v x] site_lpd_fwd = some [.w (aOp o x)] := by
  site_simp site_lpd_fwd, aOpPlan
theorem site_lpd_bwd_sem (k : W) : evalPlan ox [.w k] site_lpd_bwd = some [.v (aStar o k)] := by
  site_simp site_lpd_bwd, aStarPlan
theorem site_xpd_fwd_sem (x : V) : evalPlan ox [.v x] site_xpd_fwd = some [.w (aOp o x)] := by
  site_simp site_xpd_fwd, aOpPlan
theorem site_xpd_bwd_sem (k : W) : evalPlan ox [.w k] site_xpd_bwd = some [.v (aStar o k)] := by
  site_simp site_xpd_bwd, aStarPlan
theorem site_engine_fwd_sem (x : V) : evalPlan ox [.v x] site_engine_fwd = some [.w (aOp o x)] := by
  site_simp site_engine_fwd, aOpPlan
theorem site_engine_bwd_sem (k : W) : evalPlan ox [.w k] site_engine_bwd = some [.v (aStar o k)] := by
  site_simp site_engine_bwd, aStarPlan
theorem site_jointic_image_dc_sem (x : V) (y : W) :
    evalPlan ox [.v x, .w y] site_jointic_image_dc = some [.v (dcGradTwice o x y)] := by
  site_simp site_jointic_image_dc, dcGradTwicePlan
theorem site_jointic_sens_grad_sem (x : V) (y : W) :
    evalPlan ox [.v x, .w y] site_jointic_sens_grad = some [.w (sensGrad ox x y)] := by
  site_simp site_jointic_sens_grad, sensGradPlan
theorem site_iterdual_dc_sem (x : V) (y : W) :
    evalPlan ox [.v x, .w y] site_iterdual_dc = some [.v (dcGradTwice o x y)] := by
  site_simp site_iterdual_dc, dcGradTwicePlan
theorem site_iterdual_init_sem (x : V) (y : W) :
    evalPlan ox [.v x, .w y] site_iterdual_init = some [.v (sense o y)] := by site_simp site_iterdual_init, senseYPlan
/-- MRIVarSplitNet's DC step is literally the likelihood-gradient block (with `scaling_factor`) -/
theorem site_varsplit_dc_sem (x : V) (y : W) (s : K) :
    evalPlan ox [.v x, .w y, .k s] site_varsplit_dc = some [.v (loglik o s x y)] := by
  site_simp site_varsplit_dc, loglikCorePlan
theorem site_kiki_image_sem (k : W) : evalPlan ox [.w k] site_kiki_image = some [.v (aStar o k)] := by
  site_simp site_kiki_image, aStarPlan
theorem site_kiki_kspace_sem (x : V) : evalPlan ox [.v x] site_kiki_kspace = some [.w (aOp o x)] := by
  site_simp site_kiki_kspace, aOpPlan
theorem site_cirim_softdc_sem (k y : W) (x : V) :
    evalPlan ox [.w k, .w y, .v x] site_cirim_softdc = some [.w (softDC o k y)] := by
  site_simp site_cirim_softdc, softDCPlan
theorem site_cirim_image_sem (k y : W) (x : V) :
    evalPlan ox [.w k, .w y, .v x] site_cirim_image = some [.v (sense o k)] := by site_simp site_cirim_image, sensePlan
theorem site_cirim_kspace_sem (k y : W) (x : V) :
    evalPlan ox [.w k, .w y, .v x] site_cirim_kspace = some [.w (cirimKspace o x k y)] := by
  site_simp site_cirim_kspace, cirimKspacePlan
theorem site_ssl_harddc_sem (x : V) (y : W) :
    evalPlan ox [.v x, .w y] site_ssl_harddc = some [.w (hardDC ox x y)] := by site_simp site_ssl_harddc, hardDCPlan
theorem site_jssl_harddc_sem (x : V) (y : W) :
    evalPlan ox [.v x, .w y] site_jssl_harddc = some [.w (hardDC ox x y)] := by site_simp site_jssl_harddc, hardDCPlan
theorem site_vsharp_ssl_harddc0_sem (x : V) (y : W) :
    evalPlan ox [.v x, .w y] site_vsharp_ssl_harddc0 = some [.w (hardDC ox x y)] := by
  site_simp site_vsharp_ssl_harddc0, hardDCPlan
theorem site_vsharp_ssl_harddc1_sem (x : V) (y : W) :
    evalPlan ox [.v x, .w y] site_vsharp_ssl_harddc1 = some [.w (hardDC ox x y)] := by
  site_simp site_vsharp_ssl_harddc1, hardDCPlan
theorem site_vsharp_jssl_harddc0_sem (x : V) (y : W) :
    evalPlan ox [.v x, .w y] site_vsharp_jssl_harddc0 = some [.w (hardDC ox x y)] := by
  site_simp site_vsharp_jssl_harddc0, hardDCPlan
theorem site_vsharp_engine_harddc_sem (x : V) (y : W) :
    evalPlan ox [.v x, .w y] site_vsharp_engine_harddc = some [.w (hardDC ox x y)] := by
  site_simp site_vsharp_engine_harddc, hardDCPadPlan
theorem site_vsharp3d_engine_harddc_sem (x : V) (y : W) :
    evalPlan ox [.v x, .w y] site_vsharp3d_engine_harddc = some [.w (hardDC ox x y)] := by
  site_simp site_vsharp3d_engine_harddc, hardDCPadPlan

/-- `ConjGradNet.init_z` (SENSE branch): `z₀ = R Fb y` -/
theorem site_conjgradnet_init_sem (y : W) :
    evalPlan ox [.w y] site_conjgradnet_init = some [.v (sense o y)] := by site_simp site_conjgradnet_init, sensePlan

theorem rim_llg_call_args : rim_llg_call_args_ok = true := by decide
theorem cirim_llg_call_args : cirim_llg_call_args_ok = true := by decide

end Semantics

/-! ### phase 3: the caller of `ConjGrad`, and state that outlives a call -/

/-- every `self.conj_grad(…)` call of `ConjGradNet.forward` is `(masked_kspace, sensitivity_map, sampling_mask, z, self.mu)`:
`ConjGrad.forward(masked_kspace, S, mask, z, lambd)` then runs `cg(z, masked_kspace, S, mask, lambd, z)` (`forward_call_args_eq`) -/
theorem conjgradnet_cg_calls_ok : conjGradNetCallsOk conjgradnet_cg_calls = true := by decide
/-- `ConjGradNet.__init__` hands `cg_iters, cg_tol, cg_param_update_type` to `num_iters, tol, bk_update_type` -/
theorem conjgradnet_ctor_args_eq :
    conjgrad_ctor_params = conjGradCtorParams ∧ conjgradnet_ctor_args = conjGradNetCtorArgs := by decide

/-- **no call of a data-consistency block writes state that outlives it** (attributes of `self`, class attributes, module
globals / containers, mutable defaults, memoising decorators), in any function reachable from the entry points of the 25
classes of the site table, and every entry point was scanned -/
theorem dc_state_writes_ok : stateWritesOk dc_state_writes dc_state_reach = true := by decide

/-- the anchored blocks and the tensor helpers under them have a single exit (their last statement) and no in-place
operation (`x += …`, `x[...] = …` on an argument, `x.op_()`, `out=`): the plans above cover every path, and no argument
is modified -/
theorem dc_block_shape_ok : blockShapeOk dc_block_exits dc_block_inplace = true := by decide

/-- the control flow of the blocks is the modelled one: straight-line plans plus the one loop of `cg`; no branch on the
mode (`self.training`, grad mode), on a shape, a coil count, a dtype or a device, and no loop over coils or chunks in the two
anchored blocks; the loops and mode- / shape-dependent branches of the other data-consistency classes are the recorded ones
(seeded regression C18-6: coils accumulated in chunks of 8 in eval mode, remainder dropped) -/
theorem dc_control_ok : controlOk dc_block_control dc_site_control = true := by decide

end DirectVerif.Bridge.C19
