import DirectVerif.Gen.C18
import DirectVerif.Model.BatchSep
import DirectVerif.Props.C18
/-!
# Bridge C18 — the tables extracted from `/repo` satisfy the decidable predicates the theorems of `Props/C18.lean` need
-/
namespace DirectVerif.Bridge.C18
open DirectVerif DirectVerif.BatchSep DirectVerif.Gen.C18

/-- no reduction of the anchored normalisation code / coil reduction touches the batch axis (hypothesis of
`C18.norm_separable`) -/
theorem reductions_wf : Table.wf reductions = true := by decide

/-- no nn.Module method of the zoo (constructors aside) assigns to `self.*` (hypothesis `ro` of
`C18.no_hidden_state_across_calls`) -/
theorem forward_writes_none : Writes.none forwardWrites = true := by decide

/-- every reduction over all axes is either the warning-only one or the pending finding -/
theorem global_reductions_accounted :
    globalReductions.all (fun e => allowedGlobal.contains e || pendingGlobal.contains e) = true := by decide

/-- FINDING witness: the batch-mean stopping test is present in the current tree -/
theorem conjgrad_stop_current_violates : globalReductions.contains ("ConjGrad.cg", "mean") = true := by decide

/-- **complete scan**: every reduction on a forward / reconstruction path of direct/nn either names explicit axes none of
which is the batch axis, or is one of the justified exceptions, or is the known finding -/
theorem all_reductions_accounted : allReductions.all Row.accounted = true := by decide

/-- the scan is not vacuous: it sees the normalisation layers, the coil sums and the finding -/
theorem all_reductions_nonvacuous :
    allReductions.contains ⟨"NormUnetModel2d.norm", "std", 0, [-1]⟩ = true ∧
      allReductions.contains ⟨"Unet2d.forward", "sum", 0, [1]⟩ = true ∧
      allReductions.contains ⟨"ConjGrad.cg", "mean", 1, []⟩ = true := by decide

/-- every `view(-1, …)` / `reshape(-1, …)` is the per-sample broadcast idiom `(-1, 1, …, 1)`; no `flatten` merges the batch -/
theorem reshapes_keep_batch : reshapeRows.all (fun r => r.2.2 == 1) = true := by decide

/-- no RNG seeding and no unguarded random draw on any forward path; no operation singles out a coil or depends on the
coil order (integer index at the coil position, `select(coil, const)`, sort / argmax / flip / cumsum …) -/
theorem no_seed_no_random_no_coil_order :
    seedCalls = [] ∧ randomCalls.all (fun r => r.2.2 == 1) = true ∧ coilOrderOps = [] := by decide

/-! ## phase 3: per-function primitive tables, per-model function lists, effects -/

/-- **every batched primitive of every forward / reconstruction path is per-sample** (reductions, along-axis operations,
permutes, transposes, reshapes, flattens, subscripts at the batch position, functionals with batch statistics,
whole-tensor queries), and every `batch * coil` fold is un-folded in the same function — or it is the known finding -/
theorem prim_table_accounted : primTable.all FuncRow.accounted = true := by decide +kernel

/-- the only function with a rejected primitive is `ConjGrad.cg` (the batch-mean stopping test) -/
theorem prim_table_ok_except_cg : primTable.all (fun f => f.ok || f.name == "ConjGrad.cg") = true := by decide +kernel

/-- FINDING witness in the new table -/
theorem conjgrad_stop_prim_current_violates :
    (primTable.any fun f => f.prims.any fun p => !p.ok && p.op == "mean" && p.fn == "ConjGrad.cg") = true := by decide +kernel

def cgIndex : Nat := primTable.findIdx fun f => f.name == "ConjGrad.cg"

/-- **every zoo model** executes only functions whose primitives are per-sample — except the models that run `ConjGrad.cg` -/
theorem zoo_models_ok_except_cg : modelFuncs.all (fun m => m.ok primTable || m.2.contains cgIndex) = true := by decide +kernel

theorem zoo_models_accounted : modelFuncs.all (ModelRow.accounted primTable) = true := by decide +kernel

/-- the trace is not vacuous: it sees denoisers, recurrent and unrolled models, and every model executes something -/
theorem zoo_models_nonvacuous :
    (modelFuncs.all fun m => !m.2.isEmpty && m.2.all (· < primTable.length)) = true ∧
      (modelFuncs.isEmpty || modelFuncs.any fun m => m.2.contains cgIndex) = true := by decide +kernel

/-- **closure, instantiated**: for every zoo model whose row passes, any data-flow graph over the primitives of the
functions it executes denotes a separable operation under every sound interpretation (`C18.stdInterp_sound` gives one) -/
theorem zoo_models_separable (m : ModelRow) (_hm : m ∈ modelFuncs) (hok : m.ok primTable = true) (I : Interp)
    (hI : C18.SoundInterp I) (e : Prog) (he : ∀ p ∈ e.prims, p ∈ m.prims primTable) : Separable (e.eval I) :=
  C18.model_separable primTable m hok I hI e he

/-- **no state across calls, extended**: no forward path writes an attribute chain of `self`, a buffer, a class attribute,
a module-level name or memo table, a process-wide torch switch, has a mutable default argument, or updates a caller's
tensor in place (the engines' updates of their own input dictionary and in-place methods on local tensors aside) -/
theorem effects_accounted : effectRows.all EffRow.ok = true := by decide +kernel

/-- every batch-statistics layer is constructed with tracked running statistics (so that eval mode uses fixed statistics) -/
theorem norm_layers_track_running_stats : normCtors.all (fun r => r.2.2 == 0) = true := by decide +kernel

/-- **no shape- or mode-dependent branching that changes which elements are reduced**: every `if` on `self.training` or on
a tensor extent and every partial / chunked `range` loop of a forward path guards a region that neither reduces, nor slices
the batch / coil axis with computed bounds, nor accumulates; loops over a full extent are complete by construction -/
theorem control_flow_keeps_reduced_set :
    (primTable.all fun f => f.prims.all fun p => p.family != 8 || p.ok) = true := by decide +kernel

/-- the control-flow scan is not vacuous: it sees the eval-mode memory clearing of `RIM.forward`, size tests and the
per-coil loops -/
theorem control_flow_rows_nonvacuous :
    (primTable.any fun f => f.prims.any fun p => p.family == 8 && p.form == 0) = true ∧
      (primTable.any fun f => f.prims.any fun p => p.family == 8 && p.form == 1) = true ∧
      (primTable.any fun f => f.prims.any fun p => p.family == 8 && p.form == 3) = true := by decide +kernel

end DirectVerif.Bridge.C18
