import DirectVerif.Gen.C18
import DirectVerif.Model.BatchSep
/-!
# Bridge C18 — the tables extracted from `/repo` satisfy the decidable predicates the theorems of `Props/C18.lean` need
-/
namespace DirectVerif.Bridge.C18
open DirectVerif DirectVerif.BatchSep DirectVerif.Gen.C18

/-- no reduction of the anchored normalisation code / coil reduction touches the batch axis (hypothesis of
`C18.norm_separable`) -/
theorem reductions_wf : Table.wf reductions = true := by decide

/-- no nn.Module method of the zoo (constructors aside) assigns to `self.*` (hypothesis `ro` of
`C18.no_hidden_state_across_calls`) -/
theorem forward_writes_none : Writes.none forwardWrites = true := by decide

/-- every reduction over all axes is either the warning-only one or the pending finding -/
theorem global_reductions_accounted :
    globalReductions.all (fun e => allowedGlobal.contains e || pendingGlobal.contains e) = true := by decide

/-- FINDING witness: the batch-mean stopping test is present in the current tree -/
theorem conjgrad_stop_current_violates : globalReductions.contains ("ConjGrad.cg", "mean") = true := by decide

end DirectVerif.Bridge.C18
