import DirectVerif.Gen.C18
import DirectVerif.Model.BatchSep
/-!
# Bridge C18 — the tables extracted from `/repo` satisfy the decidable predicates the theorems of `Props/C18.lean` need
-/
namespace DirectVerif.Bridge.C18
open DirectVerif DirectVerif.BatchSep DirectVerif.Gen.C18

/-- no reduction of the anchored normalisation code / coil reduction touches the batch axis (hypothesis of
`C18.norm_separable`) -/
theorem reductions_wf : Table.wf reductions = true := by decide

/-- no nn.Module method of the zoo (constructors aside) assigns to `self.*` (hypothesis `ro` of
`C18.no_hidden_state_across_calls`) -/
theorem forward_writes_none : Writes.none forwardWrites = true := by decide

/-- every reduction over all axes is either the warning-only one or the pending finding -/
theorem global_reductions_accounted :
    globalReductions.all (fun e => allowedGlobal.contains e || pendingGlobal.contains e) = true := by decide

/-- FINDING witness: the batch-mean stopping test is present in the current tree -/
theorem conjgrad_stop_current_violates : globalReductions.contains ("ConjGrad.cg", "mean") = true := by decide

/-- **complete scan**: every reduction on a forward / reconstruction path of direct/nn either names explicit axes none of
which is the batch axis, or is one of the justified exceptions, or is the known finding -/
theorem all_reductions_accounted : allReductions.all Row.accounted = true := by decide

/-- the scan is not vacuous: it sees the normalisation layers, the coil sums and the finding -/
theorem all_reductions_nonvacuous :
    allReductions.contains ⟨"NormUnetModel2d.norm", "std", 0, [-1]⟩ = true ∧
      allReductions.contains ⟨"Unet2d.forward", "sum", 0, [1]⟩ = true ∧
      allReductions.contains ⟨"ConjGrad.cg", "mean", 1, []⟩ = true := by decide

/-- every `view(-1, …)` / `reshape(-1, …)` is the per-sample broadcast idiom `(-1, 1, …, 1)`; no `flatten` merges the batch -/
theorem reshapes_keep_batch : reshapeRows.all (fun r => r.2.2 == 1) = true := by decide

/-- no RNG seeding and no unguarded random draw on any forward path; no operation singles out a coil or depends on the
coil order (integer index at the coil position, `select(coil, const)`, sort / argmax / flip / cumsum …) -/
theorem no_seed_no_random_no_coil_order :
    seedCalls = [] ∧ randomCalls.all (fun r => r.2.2 == 1) = true ∧ coilOrderOps = [] := by decide

end DirectVerif.Bridge.C18
