import DirectVerif.Gen.C08
import DirectVerif.Model.Pipeline
import DirectVerif.Lemmas.C08NF
/-!
# Bridge C08 — the stage table translated from `/repo` equals the hand-written builder

`Gen.C08.build` is produced on every run from the source text of `build_supervised_mri_transforms` /
`build_mri_transforms` (statement order, guards, constructor arguments), `zero_padding_threshold` from
`ComputeZeroPadding.__call__`, the seed definitions from the `__call__` bodies.  Every lemma is closed by
`rfl` / `decide` for *symbolic* flags: moving a stage (`ComputeImage` before `Normalize`), dropping one,
changing a guard, a key, the relative threshold or a seed expression changes the generated definition and
the lemma no longer checks.
-/
namespace DirectVerif.Bridge.C08
open DirectVerif DirectVerif.Pipeline

theorem zero_padding_threshold_eq : Gen.C08.zero_padding_threshold = thrCurrent := by decide

/-- the translated threshold is relative (homogeneous), whatever its exact form -/
theorem zero_padding_threshold_relative : Gen.C08.zero_padding_threshold.homogeneous = true := by decide

theorem mask_seed_eq (u : Bool) : Gen.C08.maskSeed u = seedOf u [.filename] := by cases u <;> decide
theorem body_seed_eq (u : Bool) : Gen.C08.bodySeed u = seedOf u [.filename] := by cases u <;> decide
theorem split_seed_eq (u : Bool) : Gen.C08.splitSeed u = seedOf u [.filename, .sliceNo] := by cases u <;> decide
theorem crop_seed_eq : Gen.C08.crop_seed_fields = cropSeedFields := by decide

/-- the generated table is, literally, the list normal form of the modelled builder (`rfl`): the normal
form does not depend on how the source groups unconditional `mri_transforms += [...]` statements -/
theorem build_supervised_nf (c : Config) : Gen.C08.build_supervised c = buildSupervisedNF c := rfl
theorem build_gen_nf (c : Config) : Gen.C08.build c = buildNF c := rfl

theorem build_supervised_eq (c : Config) : Gen.C08.build_supervised c = buildSupervised c :=
  (build_supervised_nf c).trans (buildSupervised_nf c).symm

theorem build_eq (c : Config) : Gen.C08.build c = build c :=
  (build_gen_nf c).trans (build_nf c).symm

/-- **the stage programs**: what every transform class reads, writes, guards on and applies — translated from
the `forward` / `__call__` bodies — is, stage by stage and for every constructor argument, the modelled program.
A class that starts reading another key, normalises a different key set, divides without the guard
(`.divUnsafe` instead of `.safeDiv`), drops a `require`, … changes `Gen.C08.compile` and this no longer checks. -/
theorem compile_eq (s : Stage) : Gen.C08.compile s = compile s := by
  cases s with
  | cropKspace center useSeed => cases center <;> rfl
  | createSamplingMask fromCrop seed returnAcs => cases fromCrop <;> cases returnAcs <;> rfl
  | estimateSensitivityMap kk ty gaussian => cases ty <;> cases gaussian <;> rfl
  | computeScalingFactor nk pct sfk => cases nk <;> cases pct <;> rfl
  | computeImage kk tk r => cases r <;> rfl
  | maskSplitter ty keepAcs seed kk => cases keepAcs <;> rfl
  | _ => rfl

/-- hence the composed programs coincide -/
theorem program_eq (c : Config) : (Gen.C08.build c).flatMap Gen.C08.compile = program (build c) := by
  rw [build_eq]
  unfold program
  congr 1
  funext s
  exact compile_eq s

end DirectVerif.Bridge.C08
