import DirectVerif.Gen.C08
import DirectVerif.Model.Pipeline
import DirectVerif.Lemmas.C08NF
import DirectVerif.Model.PipelinePrePost
import DirectVerif.Model.PipelineTables
/-!
# Bridge C08 — the stage table translated from `/repo` equals the hand-written builder

`Gen.C08.build` is produced on every run from the source text of `build_supervised_mri_transforms` /
`build_mri_transforms` (statement order, guards, constructor arguments), `zero_padding_threshold` from
`ComputeZeroPadding.__call__`, the seed definitions from the `__call__` bodies.  Every lemma is closed by
`rfl` / `decide` for *symbolic* flags: moving a stage (`ComputeImage` before `Normalize`), dropping one,
changing a guard, a key, the relative threshold or a seed expression changes the generated definition and
the lemma no longer checks.
-/
namespace DirectVerif.Bridge.C08
open DirectVerif DirectVerif.Pipeline

theorem zero_padding_threshold_eq : Gen.C08.zero_padding_threshold = thrCurrent := by decide

/-- the translated threshold is relative (homogeneous), whatever its exact form -/
theorem zero_padding_threshold_relative : Gen.C08.zero_padding_threshold.homogeneous = true := by decide

theorem mask_seed_eq (u : Bool) : Gen.C08.maskSeed u = seedOf u [.filename] := by cases u <;> decide
theorem body_seed_eq (u : Bool) : Gen.C08.bodySeed u = seedOf u [.filename] := by cases u <;> decide
theorem split_seed_eq (u : Bool) : Gen.C08.splitSeed u = seedOf u [.filename, .sliceNo] := by cases u <;> decide
theorem crop_seed_eq : Gen.C08.crop_seed_fields = cropSeedFields := by decide

/-- the generated table is, literally, the list normal form of the modelled builder (`rfl`): the normal
form does not depend on how the source groups unconditional `mri_transforms += [...]` statements -/
theorem build_supervised_nf (c : Config) : Gen.C08.build_supervised c = buildSupervisedNF c := rfl
theorem build_gen_nf (c : Config) : Gen.C08.build c = buildNF c := rfl

theorem build_supervised_eq (c : Config) : Gen.C08.build_supervised c = buildSupervised c :=
  (build_supervised_nf c).trans (buildSupervised_nf c).symm

theorem build_eq (c : Config) : Gen.C08.build c = build c :=
  (build_gen_nf c).trans (build_nf c).symm

/-- **the stage programs**: what every transform class reads, writes, guards on and applies — translated from
the `forward` / `__call__` bodies — is, stage by stage and for every constructor argument, the modelled program.
A class that starts reading another key, normalises a different key set, divides without the guard
(`.divUnsafe` instead of `.safeDiv`), drops a `require`, … changes `Gen.C08.compile` and this no longer checks. -/
theorem compile_eq (s : Stage) : Gen.C08.compile s = compile s := by
  cases s with
  | cropKspace center useSeed => cases center <;> rfl
  | createSamplingMask fromCrop seed returnAcs => cases fromCrop <;> cases returnAcs <;> rfl
  | estimateSensitivityMap kk ty gaussian => cases ty <;> cases gaussian <;> rfl
  | computeScalingFactor nk pct sfk => cases nk <;> cases pct <;> rfl
  | computeImage kk tk r => cases r <;> rfl
  | maskSplitter ty keepAcs seed kk => cases keepAcs <;> rfl
  | _ => rfl

/-- hence the composed programs coincide -/
theorem program_eq (c : Config) : (Gen.C08.build c).flatMap Gen.C08.compile = program (build c) := by
  rw [build_eq]
  exact congrArg (fun f => (build c).flatMap f) (funext compile_eq)

/-! ## phase 3 — the second builder pair, signatures, defaults, wrappers, call forms -/

/-- `NormalizeModule`'s default key list (what the post-transform normalises: the target and the body-coil image
too) -/
theorem default_norm_keys_eq : Gen.C08.default_norm_keys = defaultNormKeys := by decide

/-- `build_pre_mri_transforms` / `build_post_mri_transforms`: literally the list normal forms of the model (`rfl`);
`Lemmas/C08PrePost.lean` relates the normal forms to `buildPre` / `buildPost` -/
theorem build_pre_nf (c : Config) : Gen.C08.build_pre c = buildPreNF c := rfl
theorem build_post_nf (c : Config) : Gen.C08.build_post c = buildPostNF c := rfl

theorem build_pre_eq (c : Config) : Gen.C08.build_pre c = buildPre c :=
  (build_pre_nf c).trans (buildPreNF_eq c).symm
theorem build_post_eq (c : Config) : Gen.C08.build_post c = buildPost c :=
  (build_post_nf c).trans (buildPostNF_eq c).symm

/-- the composed pre ++ post program the theorems of `Props/C08.lean` are about -/
theorem program_prepost_eq (c : Config) :
    (Gen.C08.build_pre c ++ Gen.C08.build_post c).flatMap Gen.C08.compile = program (buildPrePost c) := by
  rw [build_pre_eq, build_post_eq]
  exact congrArg (fun f => (buildPre c ++ buildPost c).flatMap f) (funext compile_eq)

/-- **every parameter of the four builders is the one the model knows, classified as the model classifies it**: a new
parameter, a renamed or re-ordered one changes the generated table -/
theorem supervised_params_eq : Gen.C08.supervised_params = supervisedParams := by decide
theorem outer_params_eq : Gen.C08.outer_params = outerParams := by decide
theorem pre_params_eq : Gen.C08.pre_params = preParams := by decide
theorem post_params_eq : Gen.C08.post_params = postParams := by decide
theorem params_classified :
    Gen.C08.supervised_params.ok && Gen.C08.outer_params.ok && Gen.C08.pre_params.ok && Gen.C08.post_params.ok = true := by
  decide

/-- **the default arguments denote the default configuration of the model** (`use_seed=True`, `padding_eps > 0`,
`scale_percentile` set, scaling on the masked k-space, `delete_kspace=True`, supervised, …) -/
theorem default_config_eq : Gen.C08.default_config = ({} : Config) := by decide
theorem default_config_supervised_eq : Gen.C08.default_config_supervised = ({} : Config) := by decide
theorem default_config_prepost_eq : Gen.C08.default_config_prepost = ({} : Config) := by decide

/-- every `ModuleWrapper` alias the model knows exists with the modelled module class and `toggle_dims` (further
aliases may be added), and all aliases obey the batching rule -/
theorem wrappers_cover : wrapperTable.all (fun r => Gen.C08.wrappers.contains r) = true := by decide
theorem wrappers_ok : Gen.C08.wrappers.ok = true := by decide

/-- the builders compose the classes in the modelled form: through the `ModuleWrapper` alias in the pipelines that run
on un-batched samples, raw modules in the batched post-transform -/
theorem stage_forms_supervised_eq : Gen.C08.stage_forms_supervised = supervisedForms := by decide
theorem stage_forms_outer_eq : Gen.C08.stage_forms_outer = outerForms := by decide
theorem stage_forms_pre_eq : Gen.C08.stage_forms_pre = preForms := by decide
theorem stage_forms_post_eq : Gen.C08.stage_forms_post = postForms := by decide
theorem stage_forms_unbatched_ok :
    Gen.C08.stage_forms_supervised.unbatchedOk && Gen.C08.stage_forms_outer.unbatchedOk
      && Gen.C08.stage_forms_pre.unbatchedOk = true := by decide

/-- **no transform class of `mri_transforms.py` / `ssl.py` writes instance, class or module state after construction**
(assignments to `self.…`, mutating calls on `self.…`, `global`, `setattr`, memoising decorators — in any method but
`__init__`): a cache of a threshold, a scaling factor or a mask on the transform object changes the generated table -/
theorem instance_state_writes_none : Gen.C08.instance_state_writes.none = true := by decide
theorem classes_scanned_pos : 30 ≤ Gen.C08.classes_scanned := by decide

/-- **no stage class has a data-dependent early `return sample` the model does not know** ("nothing to crop", "already the
right size", … shortcuts skip the modelled program of the stage) -/
theorem data_early_returns_eq : Gen.C08.data_early_returns = dataEarlyReturns := by decide

/-- the seed derivations (mask, body-coil image, random crop, SSL split) call nothing but `tuple`, `map`, `ord`, `str`, …:
no `hash` (salted per interpreter), `id`, `random` — the seed of a file name is the same in every process -/
theorem seed_derivation_pure : Gen.C08.seed_disallowed_calls = [] := by decide

end DirectVerif.Bridge.C08
