import DirectVerif.Gen.C14
import DirectVerif.Model.Recon
import DirectVerif.Model.C14Loop
/-!
# Bridge C14 — what the translator reads in `reconstruct_volumes` / `_process_output` equals the model

* the window written is `[slice_counter, slice_counter + n)` (`writeSlice` clips it to the volume),
  the counter advances by `n`, a volume is yielded when the counter equals `volume_size`;
* the filename guard is `len(set(filenames)) != 1`;
* the statements touching the assembly state occur in the order, with the resets, the `volume_size`
  lookup and the yielded pair that `Recon.rstep` implements; `_process_output` scales along the batch
  axis, takes the modulus, adds the channel axis and crops, in this order.
-/
set_option linter.unusedSimpArgs false
namespace DirectVerif.Bridge.C14
open DirectVerif DirectVerif.Recon DirectVerif.Gen.C14

theorem recon_write_lo_eq (sc n vs : Int) : recon_write_lo sc n vs = sc := rfl
theorem recon_write_hi_eq (sc n vs : Int) : recon_write_hi sc n vs = sc + n := rfl
theorem recon_counter_next_eq (sc n vs : Int) : recon_counter_next sc n vs = sc + n := rfl

theorem recon_yield_cond_eq (sc n vs : Nat) :
    recon_yield_cond sc n vs = decide (sc = vs) := by
  simp only [recon_yield_cond] <;>
    (rw [Bool.eq_iff_iff]
     simp only [Bool.or_eq_true, Bool.and_eq_true, beq_iff_eq, decide_eq_true_eq] <;> omega)

/-- the window of `writeSlice` is the translated one, clipped to the volume as torch does -/
theorem write_window_eq {β} (cur outs : List β) (sc : Nat) (out : List β)
    (h : writeSlice cur sc outs = some out) (hfit : sc + outs.length ≤ cur.length) :
    out = cur.take (recon_write_lo sc outs.length cur.length).toNat ++ outs ++
      cur.drop (recon_write_hi sc outs.length cur.length).toNat := by
  unfold writeSlice at h
  have e1 : min sc cur.length = sc := by omega
  have e2 : min (sc + outs.length) cur.length = sc + outs.length := by omega
  simp only [e1, e2, show sc + outs.length - sc = outs.length by omega, if_true, Option.some.injEq] at h
  rw [← h, recon_write_lo_eq, recon_write_hi_eq]
  congr 2 <;> omega

theorem filename_guard_eq (fn : List Nat) (f : Nat) (h : filenameOf fn = some f) :
    filename_guard (fn.eraseDups.length : Nat) = false := by
  -- all elements equal `f` and the list is non-empty, so exactly one distinct filename
  cases fn with
  | nil => simp [filenameOf] at h
  | cons a rest =>
    simp only [filenameOf] at h
    split at h
    · rename_i hall
      have hall' : ∀ x ∈ rest, x = a := by
        intro x hx
        have := List.all_eq_true.mp hall x hx
        simpa using this
      have : (a :: rest).eraseDups = [a] := by
        rw [List.eraseDups_cons]
        have : rest.filter (fun b => !b == a) = [] := by
          rw [List.filter_eq_nil_iff]
          intro x hx
          simp [hall' x hx]
        rw [this]; simp [List.eraseDups]
      simp [this, filename_guard]
    · simp at h

theorem recon_loop_stages_eq : recon_loop_stages = expectedLoopStages := rfl
theorem process_stages_eq : process_stages = expectedProcessStages := rfl

/-! ### phase 2: the plumbing around the loop, as read from the source -/

/-- `Engine.predict`: sequential batch sampler without a volume limit → `build_loader` → the list of what
`reconstruct_volumes(…, add_target=False, crop=crop)` yields (`Recon.predictFull`) -/
theorem predict_facts_eq : predict_facts = expectedPredictFacts := rfl
/-- `build_loader`: the batch sampler is handed to `DataLoader` unchanged; no shuffling, no own sampler,
no `drop_last` -/
theorem loader_facts_eq : loader_facts = expectedLoaderFacts := rfl
/-- `build_batch_sampler`: `"random"` → concat sampler (list of datasets required), `"sequential"` →
`BatchVolumeSampler(DistributedSequentialSampler(dataset, **kwargs))`, else `ValueError`
(`Recon.buildBatchSampler`) -/
theorem sampler_dispatch_eq : sampler_dispatch = expectedSamplerDispatch := rfl
/-- `_compute_resolution` and its call with `key=crop` and the batch's `reconstruction_size`
(`Recon.computeResolution`) -/
theorem resolution_facts_eq : resolution_facts = expectedResolutionFacts := rfl
/-- `write_output_to_h5`: basename, channel 0 as float32, mode "w", key (`Recon.writeOutput`) -/
theorem writer_facts_eq : writer_facts = expectedWriterFacts := rfl


/-! ### phase 3 -/

/-- the loop body reads `filename` (through `_get_filename_from_batch`), `scaling_factor`, `target`,
`reconstruction_size` and hands the batch to `_do_iteration` — **not `slice_no`**: the window written is
the running `slice_counter` range (`recon_write_lo_eq`, `recon_write_hi_eq`), as `Recon.rstep` /
`Recon.rstepL` implement (`C14.reconstruct_ignores_slice_no`) -/
theorem recon_loop_reads_eq : recon_loop_reads = expectedLoopReads := rfl
/-- `curr_target` is reset with `curr_volume`, allocated as its clone, written at the same window from
`_process_output(data["target"], same factors, same resolution)`; `loss_dict_list` is created before the
loop, appended at allocation only and never cleared (`Recon.rstepL`); the tuple layout of the yield -/
theorem recon_target_facts_eq : recon_target_facts = expectedTargetFacts := rfl
/-- nothing on the reconstruction path keeps state outside locals, except `predict` setting
`self.ndim` / `self.checkpointer` before the loop (so generator runs cannot influence one another) -/
theorem recon_state_writes_ok : stateWritesOk recon_state_writes = true := by decide
theorem recon_state_writes_eq : recon_state_writes = expectedStateWrites := by decide
/-- `evaluate` consumes `reconstruct_volumes(loader, add_target=True, crop=cfg.validation.crop)` and keys
the metrics by basename; `validation_loop` builds, per dataset, the sequential batch sampler without a
volume limit and the loader exactly as `predict` does; `direct/inference.py` calls `predict` and
`write_output_to_h5`; there is no other call site -/
theorem recon_caller_facts_eq : recon_caller_facts = expectedCallerFacts := rfl

/-! phase 4: the `ndim == 3` branch of `evaluate` -/
theorem eval3d_rows_eq (d0 d1 d2 d3 d4 : Int) : eval3d_rows d0 d1 d2 d3 d4 = d0 * d2 := by
  unfold eval3d_rows; first | rfl | exact Int.mul_comm _ _

/-- the first `reshape` argument is the number of rows of `evalReshape` -/
theorem eval3d_rows_length {β} (z : Nat) (vol : List (List (List β))) (c x y : Nat) :
    ((evalReshape z vol).length : Int) = eval3d_rows vol.length c z x y := by
  rw [eval3d_rows_eq]
  simp only [evalReshape, transpose12, List.length_flatten, List.map_map, Function.comp_def, List.length_map,
    List.length_range]
  induction vol with
  | nil => simp
  | cons a rest ih => simp only [List.map_cons, List.sum_cons, List.length_cons]; push_cast at ih ⊢; rw [ih, Int.add_mul, Int.one_mul, Int.add_comm]

theorem eval3d_facts_eq : eval3d_facts = expectedEval3dFacts := rfl

end DirectVerif.Bridge.C14
