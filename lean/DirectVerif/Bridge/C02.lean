import DirectVerif.Gen.C02
import DirectVerif.Model.Complex
/-!
# Bridge C02 — the formulas / tensor expressions translated from `/repo` equal the hand-written model

* component formulas of `complex_multiplication` and of the numerators / denominator of
  `complex_division`, the sign in `conjugate` (over `Int`, closed by `omega`-free ring normalisation);
* `safe_divide` (generic scalar);
* the tensor expressions of `complex_dot_product`, `reduce_operator` (which operand is conjugated,
  which axis is summed), `expand_operator` (which operand is unsqueezed, where), `modulus`,
  `root_sum_of_squares` — definitional equalities;
* the order `[real, imaginary]` in which the two parts are concatenated on the last axis.
-/
namespace DirectVerif.Bridge.C02
open DirectVerif DirectVerif.Cx DirectVerif.Gen.C02

theorem complex_multiplication_eq (a b c d : Int) :
    (⟨complex_multiplication_re a b c d, complex_multiplication_im a b c d⟩ : Cpx Int) = cmul ⟨a, b⟩ ⟨c, d⟩ := by
  simp only [complex_multiplication_re, complex_multiplication_im, cmul]

theorem complex_division_num_eq (a b c d : Int) :
    (⟨complex_division_num_re a b c d, complex_division_num_im a b c d⟩ : Cpx Int) = cdivNum ⟨a, b⟩ ⟨c, d⟩ := by
  simp only [complex_division_num_re, complex_division_num_im, cdivNum]

theorem complex_division_den_eq (a b c d : Int) :
    complex_division_den_re a b c d = cdivDen (⟨c, d⟩ : Cpx Int) ∧
    complex_division_den_im a b c d = cdivDen (⟨c, d⟩ : Cpx Int) := by
  simp only [complex_division_den_re, complex_division_den_im, cdivDen, and_self]

theorem conjugate_eq (re im : Int) : (⟨re, conjugate_im im⟩ : Cpx Int) = conj ⟨re, im⟩ := by
  simp only [conjugate_im, conj, Int.mul_neg, Int.mul_one]

/-- `safe_divide` as written in /repo is `if other = 0 then 0 else input / other` — *zero*, not the
numerator, where the divisor is zero -/
theorem safe_divide_eq {R : Type} [Zero R] [One R] [Add R] [Mul R] [Div R] [DecidableEq R] (a b : R) :
    safe_divide a b = safeDiv a b := rfl

/-- `complex_division` assembled from the translated pieces is the model's `cdiv` (over `Rat`, the
scalars the driver executes with) -/
theorem complex_division_eq (a b : Cpx Rat) :
    (⟨safe_divide (cdivNum a b).re (cdivDen b), safe_divide (cdivNum a b).im (cdivDen b)⟩ : Cpx Rat) = cdiv a b := rfl

section
variable {R : Type} [Add R] [Sub R] [Mul R] [Neg R] [Zero R] [Inhabited R]

theorem complex_dot_product_eq (a b : Tensor (Cpx R)) (dim : List Int) : complex_dot_product a b dim = cdotT a b dim := rfl

theorem reduce_operator_eq (y s : Tensor (Cpx R)) (dim : Int) : reduce_operator y s dim = reduceOp y s dim := rfl

theorem expand_operator_eq (x s : Tensor (Cpx R)) (dim : Int) : expand_operator x s dim = expandOp x s dim := rfl

theorem modulus_sq_eq (t : Tensor R) (ax : Int) : modulus_sq t ax = modSqAxis t ax := rfl

theorem root_sum_of_squares_sq_eq (t : Tensor R) (dim cdim : Int) :
    root_sum_of_squares_sq t dim cdim = rssSqReal t dim cdim := rfl
end

theorem complex_multiplication_cat_eq : complex_multiplication_cat = ["real_part", "imaginary_part"] := by decide
theorem complex_division_cat_eq : complex_division_cat = ["real_part", "imaginary_part"] := by decide

/-- **every** call of `reduce_operator` / `expand_operator` / `root_sum_of_squares` and every inline re-implementation
(`complex_multiplication(conjugate(·), ·).sum(d)`, `complex_multiplication(·, ·.unsqueeze(d))`, `(· ** 2).sum(c).sum(d)`)
found under `direct/` is well-formed: the axis is the class's coil-dimension attribute / a `coil_dim` parameter (or a
literal equal to the declared value), an inline reduce conjugates the sensitivity map and not the data, an inline
expand unsqueezes the image and not the sensitivity map, an inline rss sums the complex axis first
(`Props/C02.wf_site_axis`, `wf_inlineReduce_denotes`, `wf_inlineExpand_denotes` then apply to each of them) -/
theorem coil_sites_wf : coil_sites.all CoilSite.wf = true := by decide

/-- no method the oracle runs on the real classes has lost its coil-operator site -/
theorem coil_sites_methods_present :
    coil_sites = [] ∨ oracleMethods.all (fun f => coil_sites.any (fun s => s.func == f)) = true := by decide

/-- the helpers of `direct/data/transforms.py` reachable from the C02 operators (call-graph closure `helper_closure`,
following `from direct.… import …`) keep **no state that survives a call**: no caching decorator, no `global` /
`nonlocal`, no read or write of a module-level non-constant binding, no function attribute, no mutable default
argument — so every call is a function of its arguments only (`Props/C02.history_independent`), which is what the
per-line driver models -/
theorem helper_state_uses_none : helper_state_uses = [] := by decide

/-- the closure was computed from the operators the property names -/
theorem helper_closure_covers :
    ["complex_multiplication", "complex_division", "safe_divide", "conjugate", "modulus", "complex_dot_product", "complex_mm",
     "complex_bmm", "root_sum_of_squares", "reduce_operator", "expand_operator"].all (helper_closure.contains ·) = true := by decide

/-- the functions reachable from the C02 operators are **size-uniform**: no `if` / conditional / `while` test on a shape,
size, numel, len or ndim, no loop, no call that cuts a tensor into pieces (narrow / split / chunk / unbind / select …) —
one formula for every shape, which is what `Lemmas/C02Tensor.expandOp_spec` / `reduceOp_spec` (∀ `c`, `pre`, `post`)
describe; a coil-count threshold or a chunked accumulation is a different algorithm per size class
(`Props/C02.grouped_reduce_drops_tail`) -/
theorem helper_size_branches_none : helper_size_branches = [] := by decide

end DirectVerif.Bridge.C02
