import DirectVerif.Gen.C13
import DirectVerif.Model.Sampler
import DirectVerif.Model.C13Machine
/-!
# Bridge C13 — what the translator reads in `/repo` equals the hand-written sampler model

Fixed scripts: a semantically equal rewrite of the Python keeps them provable; a changed formula,
comparison or a write to `self` inside `__iter__` does not.
-/
set_option linter.unusedSimpArgs false
namespace DirectVerif.Bridge.C13
open DirectVerif DirectVerif.Sampler DirectVerif.Gen.C13

/-- closes `b₁ = b₂` for Boolean combinations of integer comparisons that are *semantically* equal -/
macro "bool_bridge" : tactic =>
  `(tactic| (first | rfl | (rw [Bool.eq_iff_iff]
                            simp only [Bool.or_eq_true, Bool.and_eq_true, Bool.not_eq_true', beq_iff_eq,
                              bne_iff_ne, decide_eq_true_eq, beq_eq_false_iff_ne, ne_eq] <;> omega)))

theorem natCast_beq (a b : Nat) : ((a : Int) == (b : Int)) = (a == b) := by
  rw [Bool.eq_iff_iff]; simp only [beq_iff_eq]; omega

/-! ### `chunks`

`∀ n k idx, Gen = Model`: the translated expression (whatever algebraic form the source uses — nested conditionals,
`min`, `quotient * idx + …`) is unfolded, quotient and remainder are generalised, and the equality is left to case
analysis + ring arithmetic (`grind`).  A formula that is not equal for all arguments does not pass. -/

theorem chunks_si_eq (n k idx : Int) (hk : 0 ≤ k) : chunks_si n k idx = chunkStartI n k idx := by
  simp only [chunks_si, chunkStartI, Int.fdiv_eq_ediv_of_nonneg _ hk, Int.fmod_eq_emod_of_nonneg _ hk,
    decide_eq_true_eq, pyMin, pyMax] <;>
    (generalize n / k = d; generalize n % k = r; grind)

theorem chunks_stop_eq (n k idx : Int) (hk : 0 ≤ k) : chunks_stop n k idx = chunkStopI n k idx := by
  simp only [chunks_stop, chunkStopI, chunkStartI, Int.fdiv_eq_ediv_of_nonneg _ hk,
    Int.fmod_eq_emod_of_nonneg _ hk, decide_eq_true_eq, pyMin, pyMax] <;>
    (generalize n / k = d; generalize n % k = r; grind)

/-- the `Int` formulas agree with the `Nat` model the theorems are about -/
theorem chunkStartI_cast (n k idx : Nat) : chunkStartI n k idx = (chunkStart n k idx : Nat) := by
  unfold chunkStartI chunkStart
  have e1 : ((n : Int) / (k : Int)) = ((n / k : Nat) : Int) := (Int.natCast_ediv n k).symm
  have e2 : ((n : Int) % (k : Int)) = ((n % k : Nat) : Int) := (Int.natCast_emod n k).symm
  rw [e1, e2]
  by_cases h : idx < n % k
  · have h' : (idx : Int) < ((n % k : Nat) : Int) := by omega
    simp only [h, h', if_true, Int.natCast_add, Int.natCast_mul, Int.natCast_one, Int.natCast_zero]
  · have h' : ¬ ((idx : Int) < ((n % k : Nat) : Int)) := by omega
    have h2 : ((idx - n % k : Nat) : Int) = (idx : Int) - ((n % k : Nat) : Int) := by omega
    simp only [h, h', if_false, Int.natCast_add, Int.natCast_mul, Int.natCast_one, h2]

theorem chunkStopI_cast (n k idx : Nat) :
    chunkStopI n k idx = ((chunkStart n k idx + chunkLen n k idx : Nat) : Int) := by
  unfold chunkStopI
  rw [chunkStartI_cast, Int.natCast_add]
  congr 1
  unfold chunkLen
  have e1 : ((n : Int) / (k : Int)) = ((n / k : Nat) : Int) := (Int.natCast_ediv n k).symm
  have e2 : ((n : Int) % (k : Int)) = ((n % k : Nat) : Int) := (Int.natCast_emod n k).symm
  rw [e1, e2]
  by_cases h : idx < n % k
  · have h' : (idx : Int) < ((n % k : Nat) : Int) := by omega
    simp only [h, h', if_true, Int.natCast_add, Int.natCast_one]
  · have h' : ¬ ((idx : Int) < ((n % k : Nat) : Int)) := by omega
    simp only [h, h', if_false]

/-! ### `BatchVolumeSampler` -/

theorem bvs_yield_cond_eq (lenb bs idx nv : Nat) :
    bvs_yield_cond lenb bs idx nv = yieldCond lenb bs (some nv) idx := by
  simp only [bvs_yield_cond, yieldCond, isVolEnd] <;> bool_bridge

theorem bvs_advance_cond_eq (lenb bs idx nv : Nat) :
    bvs_advance_cond lenb bs idx nv = isVolEnd (some nv) idx := by
  simp only [bvs_advance_cond, isVolEnd] <;> bool_bridge

theorem bvs_end_value_eq (start stop bs : Int) : bvs_end_value start stop bs = stop := rfl

/-- `-((-a) // b) = (a + b - 1) / b` for `a ≥ 0`, `b > 0` -/
theorem ceil_neg_fdiv (a b : Int) (hb : 0 < b) : -(Int.fdiv (-a) b) = (a + b - 1) / b := by
  rw [Int.fdiv_eq_ediv_of_nonneg _ (by omega : (0 : Int) ≤ b)]
  have h1 := Int.emod_add_mul_ediv (a + b - 1) b
  have h2 := Int.emod_nonneg (a + b - 1) (by omega : b ≠ 0)
  have h3 := Int.emod_lt_of_pos (a + b - 1) hb
  have key : (-a) / b = -((a + b - 1) / b) ∧ (-a) % b = b - 1 - (a + b - 1) % b := by
    rw [Int.ediv_emod_unique hb]
    refine ⟨?_, by omega, by omega⟩
    rw [Int.mul_neg]
    omega
  rw [key.1, Int.neg_neg]

theorem bvs_len_term_eq (start stop bs : Nat) (h : start ≤ stop) (hbs : 0 < bs) :
    bvs_len_term start stop bs = (ceilDiv (stop - start) bs : Nat) := by
  simp only [bvs_len_term, pyCeilTrueDiv]
  rw [ceil_neg_fdiv _ _ (by omega)]
  unfold ceilDiv
  rw [Int.natCast_ediv]
  congr 1
  omega

/-- `__iter__` neither assigns, advances nor mutates anything stored on the object … -/
theorem bvs_iter_self_writes_eq : bvs_iter_self_writes = [] := by decide

/-- … it rebuilds its end-of-volume iterator from `self.end_of_volume` on every call
(`BVS.iterate` starts from `pyNext b.ends none`) -/
theorem bvs_iter_rebuilds_eq : bvs_iter_rebuilds = true := by decide

theorem seq_iter_is_indices_eq : seq_iter_is_indices = true := by decide

/-! ### `ConcatDatasetBatchSampler` -/

theorem concat_elem_eq (i off : Int) : concat_elem i off = i + off := rfl

theorem concat_yield_cond_eq (lenb bs : Nat) : concat_yield_cond lenb bs = (lenb == bs) := by
  simp only [concat_yield_cond] <;> bool_bridge

theorem cumsum_append_eq (e s : Int) : cumsum_append e s = e + s := rfl
theorem cumsum_next_eq (e s : Int) : cumsum_next e s = s + e := rfl

theorem concat_offset_eq (sizes : List Nat) (idx : Nat) :
    concat_offset ((cumsum sizes).map Int.ofNat) idx = (concatOffset sizes idx : Nat) := by
  unfold concat_offset concatOffset
  cases idx with
  | zero => simp
  | succ i =>
    have h1 : ((((i + 1 : Nat) : Int)) == 0) = false := by
      rw [beq_eq_false_iff_ne]; omega
    have h2 : (((i + 1 : Nat) : Int) - 1).toNat = i := by omega
    simp only [h1, Bool.false_eq_true, if_false, h2, Nat.add_one_ne_zero, Nat.add_sub_cancel]
    rw [List.getD_eq_getElem?_getD, List.getD_eq_getElem?_getD, List.getElem?_map]
    cases (cumsum sizes)[i]? <;> simp

/-! ### `DistributedSampler` -/

theorem dist_start_eq (rank world : Int) : dist_start rank world = rank := rfl
theorem dist_step_eq (rank world : Int) : dist_step rank world = world := rfl

/-! ### phase 2: structure read from the source -/

/-- no call site of `build_batch_sampler` passes a volume limit (`limit_number_of_volumes=None` or absent):
the theorems with `limit = 0` cover every use -/
theorem batch_sampler_calls_eq : batch_sampler_calls = expectedBatchSamplerCalls := rfl
/-- `DistributedSampler` has no `set_epoch`; one generator seeded once yields `randperm` (or `arange`)
epoch after epoch (`Sampler.infinitePrefix`) -/
theorem dist_structure_eq : dist_structure = expectedDistStructure := rfl
/-- the concat sampler draws the member with weights = lengths and advances that member's generator
(`Sampler.concatRun`) -/
theorem concat_next_eq : concat_next = expectedConcatNextFlow := rfl

/-! ### phase 3: the object across iterators -/

/-- what the multi-iterator machine (`Model/C13Machine.lean`) relies on, read from the source: no method other
than `__init__` writes / advances anything on `self`, `__init__` stores no one-shot iterator, `__iter__` reads only
`batch_size`, `end_of_volume`, `sampler`, rebuilds its lookup locally, and the inner sampler's `__iter__` is a
fresh `iter(self.indices)` -/
theorem iter_tables_wf :
    (IterTables.mk bvs_iter_self_writes bvs_iter_self_reads bvs_other_method_writes bvs_init_iterator_attrs
      bvs_iter_rebuilds bvs_len_is_num_batches seq_iter_is_indices seq_method_writes).wf = true := by decide

theorem bvs_other_method_writes_eq : bvs_other_method_writes = [] := by decide
theorem bvs_init_iterator_attrs_eq : bvs_init_iterator_attrs = [] := by decide
theorem seq_method_writes_eq : seq_method_writes = [] := by decide
/-- `self.indices` (what `iter(self.sampler)` restarts from) is a list, not a one-shot iterator -/
theorem seq_init_iterator_attrs_eq : seq_init_iterator_attrs = [] := by decide

/-- data flow of `DistributedSequentialSampler.__init__` (locals inlined): communication defaults → volume limit →
`chunks` → this rank's chunk; the limit is applied to the list that is then distributed over the ranks (`rankVols`:
`chunks (applyLimit …) world`), not to a rank's chunk -/
theorem seq_init_order_eq : seq_init_order = expectedSeqInitOrder := rfl

/-- seed / rank / world size of `DistributedSampler`: a missing seed is replaced by the seed shared by all processes -/
theorem dist_init_seed_eq : dist_init_seed = expectedDistInit := by decide

end DirectVerif.Bridge.C13
