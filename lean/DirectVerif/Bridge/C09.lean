import DirectVerif.Gen.C09
import DirectVerif.Model.Sens
/-!
# Bridge C09 — what the translator read in `/repo` is what the model says

* `safe_divide` is `b == 0 ? 0 : a / b` for every scalar type and every division;
* both norm computations of the data pipeline (`root_sum_of_squares(acs_image, dim=coil_dim)`,
  `sensitivity_map_norm`) and the one of the engine take the square root of the sum of squares
  over the complex axis (-1) then the coil axis (1) and re-insert coil then complex axis — the
  layout `Sens.normAt` / `Sens.divMap` assume;
* the statement order is `safe_divide → norm over the coil axis → safe_divide` (data pipeline) and
  `refine → norm → safe_divide` (engine), refinement only for more than one coil;
* the UNIT map puts `1` in complex component `0`.
-/
namespace DirectVerif.Bridge.C09
open DirectVerif DirectVerif.Sens DirectVerif.Gen.C09

theorem safe_divide_eq {α : Type} [Zero α] [DecidableEq α] (num : Num α) (a b : α) :
    safe_divide num a b = safeDivide num a b := by
  simp only [safe_divide, safeDivide]

theorem estimate_rss_plan_eq : estimate_rss_plan = normPlan := by decide
theorem estimate_norm_plan_eq : estimate_norm_plan = normPlan := by decide
theorem engine_norm_plan_eq : engine_norm_plan = normPlan := by decide
theorem estimate_order_eq : estimate_order = estimateOrder := by decide
theorem engine_order_eq : engine_order = engineOrder := by decide
theorem engine_multicoil_eq : engine_multicoil_gt = 1 := by decide
theorem unit_fill_eq : (unit_fill_index, unit_fill_value) = (0, 1) := by decide

/-- every sensitivity-map site under `direct/nn` either calls the verified `compute_sensitivity_map`
or normalises the map itself inside a function the oracle observes on the real module … -/
theorem sens_sites_accounted : sens_sites.all sensSiteAccounted = true := by decide +kernel

/-- … with an accepted norm plan (sqrt of the sum of squares over complex then coil axis, re-inserted
in either order): `Props/C09.divisorShape_of_wf` and the `renorm_*` theorems apply -/
theorem own_norm_plans_wf : own_norm_plans.all (fun p => planWf p.2) = true := by decide +kernel

/-- the three translated plans are accepted plans too -/
theorem plans_wf : planWf estimate_rss_plan && planWf estimate_norm_plan && planWf engine_norm_plan = true := by
  decide

/-- `Normalize` never rescales the sensitivity map -/
theorem normalize_keys_ok : normalize_keys.all (fun k => normalizeKeysAllowed.contains k) = true := by decide


/-! ## phase 3 -/

/-- the Gaussian window is `exp(-((linspace(-1, 1, W) / sigma)^2))` along the width axis (dim -2), switched off for
`None` / `0`, multiplied onto the masked k-space: `Sens.linspaceCoord`, `Sens.gaussWeight`, `Sens.gaussianActive`,
`Sens.acsKspace` -/
theorem window_eq : window_linspace = windowLinspace ∧ window_on_for = windowOnFor ∧
    acs_mask_primitives = acsMaskPrimitives ∧ window_axis = -2 := by decide

/-- the ACS masking is `torch.where(mask == 0, 0, kspace)` (`Sens.maskPixels`): exact zeros off the mask, the data
itself (not a product) on it -/
theorem acs_mask_where_eq : acs_mask_where = applyMaskWhere := by decide

/-- `forward` has exactly the three branches of `Sens.forwardMap`, all flowing into the one guarded division that is
written to the sample; the ESPIRiT branch is limited to 2-D -/
theorem forward_branches_eq : forward_branches = forwardBranches ∧ forward_output_writes = forwardOutputWrites ∧
    espirit_rank_limit = espiritRankLimit := by decide

/-- no instance / module state is written, no in-place operation on an input, no early return in the functions that
decide the property (the only stores are on fresh locals and on the output key) -/
theorem sens_effects_ok : sens_effects.all effectAllowed = true := by decide +kernel

/-- every constructor site forwards every sensitivity-map option of the builders to the right keyword, and
`build_mri_transforms` hands the options through unchanged -/
theorem option_forwarding_ok : ctor_sites.all forwardingOk = true ∧
    passthroughRequired.all (fun r => builder_passthrough.contains r) = true := by decide +kernel

/-- enum-valued options (`type_of_map`, `kspace_key`) are only compared with `==` / `!=` (the key option is also used as
a dictionary key): every accepted form of the option — member, lower / UPPER / Mixed-case string — selects the same branch
everywhere, so `Sens.forwardMap`'s single `ty` describes the behaviour -/
theorem enum_compares_ok : enum_compares.all enumCompareOk = true := by decide +kernel

/-- no engine overrides `compute_sensitivity_map` -/
theorem compute_sensitivity_map_single_def : compute_sensitivity_map_defs = computeDefs := by decide

/-- which refinement model is applied -/
theorem engine_model_choice_eq (mc h2 h3 : Bool) (nd : Int) :
    engine_model_choice mc h2 h3 nd = modelChoice mc h2 h3 nd := by
  by_cases h : nd = 2 <;> cases mc <;> cases h2 <;> cases h3 <;> simp [engine_model_choice, modelChoice, h]

/-- the channel-first permutations are the model's and undo each other -/
theorem engine_perms_eq : engine_perm_in_2d = permIn2d ∧ engine_perm_out_2d = permOut2d ∧
    engine_perm_in_3d = permIn3d ∧ engine_perm_out_3d = permOut3d ∧
    permInverse engine_perm_in_2d engine_perm_out_2d = true ∧ permInverse engine_perm_in_3d engine_perm_out_3d = true := by
  decide

end DirectVerif.Bridge.C09
