import DirectVerif.Gen.C09
import DirectVerif.Model.Sens
/-!
# Bridge C09 — what the translator read in `/repo` is what the model says

* `safe_divide` is `b == 0 ? 0 : a / b` for every scalar type and every division;
* both norm computations of the data pipeline (`root_sum_of_squares(acs_image, dim=coil_dim)`,
  `sensitivity_map_norm`) and the one of the engine take the square root of the sum of squares
  over the complex axis (-1) then the coil axis (1) and re-insert coil then complex axis — the
  layout `Sens.normAt` / `Sens.divMap` assume;
* the statement order is `safe_divide → norm over the coil axis → safe_divide` (data pipeline) and
  `refine → norm → safe_divide` (engine), refinement only for more than one coil;
* the UNIT map puts `1` in complex component `0`.
-/
namespace DirectVerif.Bridge.C09
open DirectVerif DirectVerif.Sens DirectVerif.Gen.C09

theorem safe_divide_eq {α : Type} [Zero α] [DecidableEq α] (num : Num α) (a b : α) :
    safe_divide num a b = safeDivide num a b := by
  simp only [safe_divide, safeDivide]

theorem estimate_rss_plan_eq : estimate_rss_plan = normPlan := by decide
theorem estimate_norm_plan_eq : estimate_norm_plan = normPlan := by decide
theorem engine_norm_plan_eq : engine_norm_plan = normPlan := by decide
theorem estimate_order_eq : estimate_order = estimateOrder := by decide
theorem engine_order_eq : engine_order = engineOrder := by decide
theorem engine_multicoil_eq : engine_multicoil_gt = 1 := by decide
theorem unit_fill_eq : (unit_fill_index, unit_fill_value) = (0, 1) := by decide

end DirectVerif.Bridge.C09
