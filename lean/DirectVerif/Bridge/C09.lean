import DirectVerif.Gen.C09
import DirectVerif.Model.Sens
/-!
# Bridge C09 — what the translator read in `/repo` is what the model says

* `safe_divide` is `b == 0 ? 0 : a / b` for every scalar type and every division;
* both norm computations of the data pipeline (`root_sum_of_squares(acs_image, dim=coil_dim)`,
  `sensitivity_map_norm`) and the one of the engine take the square root of the sum of squares
  over the complex axis (-1) then the coil axis (1) and re-insert coil then complex axis — the
  layout `Sens.normAt` / `Sens.divMap` assume;
* the statement order is `safe_divide → norm over the coil axis → safe_divide` (data pipeline) and
  `refine → norm → safe_divide` (engine), refinement only for more than one coil;
* the UNIT map puts `1` in complex component `0`.
-/
namespace DirectVerif.Bridge.C09
open DirectVerif DirectVerif.Sens DirectVerif.Gen.C09

theorem safe_divide_eq {α : Type} [Zero α] [DecidableEq α] (num : Num α) (a b : α) :
    safe_divide num a b = safeDivide num a b := by
  simp only [safe_divide, safeDivide]

theorem estimate_rss_plan_eq : estimate_rss_plan = normPlan := by decide
theorem estimate_norm_plan_eq : estimate_norm_plan = normPlan := by decide
theorem engine_norm_plan_eq : engine_norm_plan = normPlan := by decide
theorem estimate_order_eq : estimate_order = estimateOrder := by decide
theorem engine_order_eq : engine_order = engineOrder := by decide
theorem engine_multicoil_eq : engine_multicoil_gt = 1 := by decide
theorem unit_fill_eq : (unit_fill_index, unit_fill_value) = (0, 1) := by decide

/-- every sensitivity-map site under `direct/nn` either calls the verified `compute_sensitivity_map`
or normalises the map itself inside a function the oracle observes on the real module … -/
theorem sens_sites_accounted : sens_sites.all sensSiteAccounted = true := by decide +kernel

/-- … with an accepted norm plan (sqrt of the sum of squares over complex then coil axis, re-inserted
in either order): `Props/C09.divisorShape_of_wf` and the `renorm_*` theorems apply -/
theorem own_norm_plans_wf : own_norm_plans.all (fun p => planWf p.2) = true := by decide +kernel

/-- the three translated plans are accepted plans too -/
theorem plans_wf : planWf estimate_rss_plan && planWf estimate_norm_plan && planWf engine_norm_plan = true := by
  decide

/-- `Normalize` never rescales the sensitivity map -/
theorem normalize_keys_ok : normalize_keys.all (fun k => normalizeKeysAllowed.contains k) = true := by decide

end DirectVerif.Bridge.C09
