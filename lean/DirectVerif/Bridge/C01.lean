import DirectVerif.Gen.C01
import DirectVerif.Model.Shift
import DirectVerif.Model.Fft
/-!
# Bridge C01 — what the translator read from `/repo` equals the hand-written model

* shift amounts of `fftshift` / `ifftshift`;
* `roll_one_dim`: the `%`, the two `narrow` windows and the operand order of `torch.cat`, assembled
  into `genRollOne` and proved equal to `Shift.rollOne` for every list and shift;
* the ordered, flag-guarded call sequence of `fft2` / `ifft2` and the per-element `dim` test.

A semantically equal rewrite of the Python keeps these provable; dropping / swapping a shift, using
the wrong transform or norm, moving a step out of its `if`, changing `n // 2` or a narrow offset
does not.
-/
namespace DirectVerif.Bridge.C01
open DirectVerif DirectVerif.Shift DirectVerif.Fft DirectVerif.Gen.C01

theorem fftshift_amount_eq (n : Int) : fftshift_amount n = fftshiftAmount n := by
  simp only [fftshift_amount, fftshiftAmount, Int.fdiv_eq_ediv_of_nonneg _ (by decide : (0:Int) ≤ 2)]

theorem ifftshift_amount_eq (n : Int) : ifftshift_amount n = ifftshiftAmount n := by
  simp only [ifftshift_amount, ifftshiftAmount, Int.fdiv_eq_ediv_of_nonneg _ (by decide : (0:Int) ≤ 2)]

/-- `data.narrow(dim, start, len)` on one axis -/
def narrow {α} (xs : List α) (start len : Int) : List α := (xs.drop start.toNat).take len.toNat

/-- `roll_one_dim` assembled from the translated pieces -/
def genRollOne {α} (shift : Int) (xs : List α) : List α :=
  let n : Int := xs.length
  if n = 0 then xs else
  let s := roll_one_dim_shift shift n
  if s = 0 then xs else
  let left := narrow xs (roll_left_start s n) (roll_left_len s n)
  let right := narrow xs (roll_right_start s n) (roll_right_len s n)
  (roll_cat_order.map fun i => if i = 0 then left else right).flatten

/-- **the translated `roll_one_dim` is the model's `rollOne`**, for every list and every shift -/
theorem roll_one_dim_eq {α} (shift : Int) (xs : List α) : genRollOne shift xs = rollOne shift xs := by
  simp only [genRollOne, rollOne, roll_one_dim_shift, roll_left_start, roll_left_len, roll_right_start,
    roll_right_len, roll_cat_order, narrow]
  by_cases hn : xs.length = 0
  · simp [hn]
  · have hn' : ¬ ((xs.length : Int) = 0) := by omega
    rw [if_neg hn', if_neg hn]
    have h0 : 0 ≤ Int.fmod shift xs.length := by
      rw [Int.fmod_eq_emod_of_nonneg _ (Int.natCast_nonneg _)]; exact Int.emod_nonneg _ hn'
    have h1 : Int.fmod shift xs.length < xs.length := by
      rw [Int.fmod_eq_emod_of_nonneg _ (Int.natCast_nonneg _)]; exact Int.emod_lt_of_pos _ (by omega)
    obtain ⟨k, hkdef⟩ : ∃ k, Int.fmod shift xs.length = k := ⟨_, rfl⟩
    simp only [hkdef] at h0 h1 ⊢
    by_cases hk : k = 0
    · simp [hk]
    · have hk' : ¬ (k.toNat = 0) := by omega
      rw [if_neg hk, if_neg hk']
      have e1 : ((xs.length : Int) - k).toNat = xs.length - k.toNat := by omega
      simp only [List.map_cons, List.map_nil, List.flatten_cons, List.flatten_nil, List.append_nil,
        e1, Int.toNat_zero, List.drop_zero, if_true, Nat.succ_ne_zero, if_false]
      rw [List.take_of_length_le (l := List.drop _ xs) (by simp only [List.length_drop]; omega)]

theorem fft2_plan_eq : fft2_plan = fft2Plan := by decide
theorem ifft2_plan_eq : ifft2_plan = ifft2Plan := by decide

theorem fft2_dim_ok_eq (d : Int) : fft2_dim_ok d = dimOk d := by
  simp only [fft2_dim_ok, dimOk, Bool.and_true]

theorem ifft2_dim_ok_eq (d : Int) : ifft2_dim_ok d = dimOk d := by
  simp only [ifft2_dim_ok, dimOk, Bool.and_true]

/-- `verify_fft_dtype_possible` (single precision only; real float32 only for power-of-two lengths) -/
theorem verify_fft_dtype_possible_eq (dt : DType) (lens : List Nat) :
    verify_fft_dtype_possible (dt == .complex64) (dt == .float32) (lens.all is_power_of_two) = dtypeOk dt lens := by
  have hp : is_power_of_two = isPow2 := by
    funext n; simp only [is_power_of_two, isPow2]
  rw [hp]
  -- whatever decision tree the source spells, it is a Boolean function of three inputs: compare by cases
  -- (complex64 and float32 are different dtypes, so the (true, true) row cannot occur)
  unfold dtypeOk
  generalize lens.all isPow2 = p
  cases dt <;> cases p <;> first | rfl | decide

/-! ### phase 3: re-implementations, purity of the anchored functions, call sites -/

/-- `direct/data/fake.py: fft` is the centred orthonormal plan, every stage over the same two axes -/
theorem reimpl_fake_fft_ok : reimpl_fake_fft.ok = true ∧ reimpl_fake_fft.inverse = false := by decide
theorem reimpl_fake_ifft_ok : reimpl_fake_ifft.ok = true ∧ reimpl_fake_ifft.inverse = true := by decide
/-- `SheppLoganDataset.fft` (repaired: `ifftshift → fft2 → fftshift`, all over axes (1, 2)) -/
theorem reimpl_shepp_fft_ok : reimpl_shepp_fft.ok = true ∧ reimpl_shepp_fft.inverse = false := by decide

/-- no function of the mechanism (private helpers included) keeps state across calls, updates an argument in place, reads an
ambient torch mode (autocast, grad mode, default dtype, backend flags), has a mutable default or a decorator, or returns early (except `roll_one_dim`'s `if shift == 0: return data`, which the model has) -/
theorem transforms_pure : fn_facts.all FnFacts.pure = true := by decide
theorem transforms_all_listed :
    fn_facts.map (·.fn) = [.fft2, .ifft2, .roll, .rollOneDim, .fftshift, .ifftshift, .verifyDtype, .viewAsComplex, .viewAsReal] := by
  decide

/-- every call site under `direct/` passes `dim` in a form that denotes distinct non-negative axis pairs / triples and
overrides only the three modelled flags with Boolean constants -/
theorem call_sites_ok : call_sites.all CallSite.ok = true := by decide

end DirectVerif.Bridge.C01
