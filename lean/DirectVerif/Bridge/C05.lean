import DirectVerif.Gen.C05
import DirectVerif.Props.C05
import DirectVerif.Lemmas.C05Driver
/-!
# Bridge C05 — the RNG-access table generated from /repo's current source is admissible

Every lemma is `decide` on generated data.  A draw moved outside `with temp_seed(self.rng, seed)`,
switched to `np.random.*` / `random.*` / `torch.rand*`, a kernel seeded from something else, a
`temp_seed` that no longer restores in `finally`, a `return_acs` return hoisted above the
`choose_acceleration` draw, or a `.pyx` kernel that calls `rand()` before `srand(seed)` flips one of
them.  The last theorems instantiate the universal theorems of `Props/C05.lean` with that table.
-/
namespace DirectVerif.Bridge.C05
open DirectVerif DirectVerif.Rng DirectVerif.Gen.C05

/-- the table of the current source, as the model's `Table` -/
def table : Table := Table.ofCodes sites

/-- every draw/seed statement reads `self.rng` (or the local stream of `integerize_seed`) inside the scope -/
theorem table_ok : tableOk table = true := by decide

/-- all 14 generators are covered; each has one `with temp_seed(self.rng, seed)` over its own `seed`,
its site indices are in range, and `choose_acceleration` is drawn before `if return_acs: return` -/
theorem gens_ok : gensOk sites.length gens = true := by decide

/-- every Cython kernel call is inside the scope and seeded by an in-scope draw from `self.rng` -/
theorem kernel_calls_ok : kernelCalls.all kernelCallOk = true := by decide

/-- … and that drawn integer reaches the kernel unchanged: no `or`, no condition on it, no arithmetic, no rebinding
on the way (also through helpers such as `poisson(…, seed)`) -/
theorem kernel_seed_passed_unchanged : kernelSeedsUnchanged kernelSeedPaths = true := by decide

/-- every `.pyx` kernel does `srand(seed)` once, before any `rand()` -/
theorem pyx_kernels_ok : (pyxKernels.all (·.2) && !pyxKernels.isEmpty) = true := by decide

/-- the libc event list of every `.pyx` kernel starts with `srand(seed)` on the unmodified int parameter, at the top
level of the body, there is no second seeding, and the kernel does draw: the premise of `kernelProg_libcOk` -/
theorem pyx_table_ok : pyxTableOk pyxEvents = true := by decide

/-- hence a kernel run of the current `.pyx` files, as the driver builds it, keeps the libc discipline -/
theorem code_kernel_libcOk {Req Val Out : Type} (k : String × List String) (hk : k ∈ pyxEvents) (b : Bool) (v : Val) (r : Req)
    (c : Val → Prog Req Val Out) (hc : ∀ x, LibcOk true (c x)) :
    LibcOk b (kernelProg (pyxSrandFirst k.2) v r c) := by
  have h := pyx_table_ok
  simp only [pyxTableOk, Bool.and_eq_true, List.all_eq_true] at h
  exact C05.kernelProg_libcOk k.2 (h.2 k hk).1.1 b v r c hc

/-- closed world: no call reachable from a `mask_func` escaped the walk, so "no draw from a global stream anywhere
in the reachable set" is what `table_ok` says -/
theorem reach_closed : reachClosed unresolved = true := by decide

/-- every consumer of a generator outside `subsample.py` (`CreateSamplingMask`, `EstimateBodyCoilImage`, `apply_mask`)
hands over the file-name tuple or its own `seed` parameter -/
theorem consumers_ok : consumersOk consumers = true := by decide

/-- `temp_seed` is `get_state; seed(seed); try: yield; finally: set_state(state)` — what `tempSeed` mirrors -/
theorem temp_seed_shape_eq : Gen.C05.tempSeedShape = Rng.tempSeedShape := by decide

/-- `CreateSamplingMask` derives the seed from the file name only and passes `shape`/`seed` unchanged to both the
mask and the ACS call; `integerize_seed` returns int seeds unchanged -/
theorem plumbing_ok : plumbingOk plumbing = true := by decide

/-- no generator keeps memory between calls — per instance, per class, per module, in a closure, in a mutable default
or behind a memoising decorator (nothing of the kind is written in `mask_func` or anything it reaches) — so modelling
a call's body as a function of (arguments, drawn values) is faithful, also across instances and classes -/
theorem no_instance_state_written : selfWritesOk selfWrites = true := by decide

/-- the universal theorems, for the code as it is -/
theorem code_seeded_call_history_independent {σ Seed Req Val Out : Type} (O : Ops σ Seed Req Val)
    (prog : Prog Req Val Out) (hp : SitesIn table.length prog) (hl : LibcOk false prog)
    (s : Seed) (i i' : Nat) (st st' : State σ Val) :
    (call table O prog (some s) i st).1 = (call table O prog (some s) i' st').1 :=
  C05.seeded_call_history_independent table table_ok O prog hp hl s i i' st st'

theorem code_call_restores {σ Seed Req Val Out : Type} (O : Ops σ Seed Req Val)
    (prog : Prog Req Val Out) (hp : SitesIn table.length prog) (seed : Option Seed) (i : Nat) (st : State σ Val) :
    (call table O prog seed i st).2.priv = st.priv ∧ (call table O prog seed i st).2.np = st.np ∧
    (call table O prog seed i st).2.torch = st.torch ∧ (call table O prog seed i st).2.py = st.py :=
  C05.seeded_call_restores table table_ok O prog hp seed i st

theorem code_history_independent {σ Seed Req Val Out G A : Type} (O : Ops σ Seed Req Val)
    (body : G → A → Prog Req Val Out) (hb : ∀ g a, SitesIn table.length (body g a)) (hl : ∀ g a, LibcOk false (body g a))
    (h : List (Op Seed Req G A)) (g : G) (a : A) (s : Seed) (i i' : Nat) (st st' : State σ Val) :
    observe table O body st (h ++ [.call g a i (some s)]) = observe table O body st' [.call g a i' (some s)] :=
  C05.history_independent table table_ok O body hb hl h g a s i i' st st'

theorem code_history_globals {σ Seed Req Val Out G A : Type} (O : Ops σ Seed Req Val)
    (body : G → A → Prog Req Val Out) (hb : ∀ g a, SitesIn table.length (body g a))
    (h : List (Op Seed Req G A)) (st : State σ Val) :
    C05.globals (run table O body st h).1 = C05.globals (run table O body st (h.filter fun op => !C05.isCall op)).1 :=
  C05.history_globals_eq_noncall table table_ok O body hb h st st rfl

/-- the `.pyx` flags the driver works with, from the generated event table: all `true` -/
def pyxFlags : List Bool := pyxEvents.map fun k => pyxSrandFirst k.2

/-- **end to end for the code as it is**: with the generated site table and the generated `.pyx` events, every
recorded call body whose indices are in range (what the correspondence feeds the driver) gives, for the same seed,
the same symbolic output from any two states on any two instances — no hypothesis left to discharge by hand -/
theorem code_driver_call_history_independent (g : List Int × List Int)
    (hg : C05Driver.evsOk table.length pyxFlags.length g.2 = true) (s : Int) (i i' : Nat)
    (st st' : State Driver.C05.Sym Driver.C05.Sym) :
    (call table Driver.C05.symOps (Driver.C05.bodyOf pyxFlags g ()) (some s) i st).1 =
    (call table Driver.C05.symOps (Driver.C05.bodyOf pyxFlags g ()) (some s) i' st').1 :=
  C05Driver.driver_call_history_independent table table_ok pyxFlags
    (C05Driver.flags_of_pyxTableOk pyxEvents pyx_table_ok) g hg s i i' st st'

end DirectVerif.Bridge.C05
