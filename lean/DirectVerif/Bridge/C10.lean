import DirectVerif.Gen.C10
import DirectVerif.Model.Crop
import DirectVerif.Model.C10Modules
/-!
# Bridge C10 — the arithmetic translated from `/repo` equals the hand-written model

Each lemma is closed by a fixed script (`unfold`/`simp` + `omega`); a semantically equal rewrite of
the Python keeps them provable, a change of the arithmetic does not.
-/
namespace DirectVerif.Bridge.C10
open DirectVerif DirectVerif.Crop DirectVerif.Gen.C10

/-- closing script for integer bridges: unfold Python max/min and decide, split conditionals, linear arithmetic with `/ 2` -/
macro "bridge_arith" : tactic =>
  `(tactic| ((try simp only [pyMax, pyMin, decide_eq_true_eq, Int.fdiv_eq_ediv_of_nonneg _ (by decide : (0:Int) ≤ 2)]) <;> (repeat' split) <;> omega))

theorem center_crop_width_lower_eq (dn2 sn2 dn1 sn1 : Int) :
    center_crop_width_lower dn2 sn2 dn1 sn1 = centerCropLower dn2 sn2 := by
  simp only [center_crop_width_lower, centerCropLower, Int.fdiv_eq_ediv_of_nonneg _ (by decide : (0:Int) ≤ 2)] <;> bridge_arith

theorem center_crop_width_upper_eq (dn2 sn2 dn1 sn1 : Int) :
    center_crop_width_upper dn2 sn2 dn1 sn1 = centerCropLower dn2 sn2 + sn2 := by
  simp only [center_crop_width_upper, centerCropLower, Int.fdiv_eq_ediv_of_nonneg _ (by decide : (0:Int) ≤ 2)] <;> bridge_arith

theorem center_crop_height_lower_eq (dn2 sn2 dn1 sn1 : Int) :
    center_crop_height_lower dn2 sn2 dn1 sn1 = centerCropLower dn1 sn1 := by
  simp only [center_crop_height_lower, centerCropLower, Int.fdiv_eq_ediv_of_nonneg _ (by decide : (0:Int) ≤ 2)] <;> bridge_arith

theorem center_crop_height_upper_eq (dn2 sn2 dn1 sn1 : Int) :
    center_crop_height_upper dn2 sn2 dn1 sn1 = centerCropLower dn1 sn1 + sn1 := by
  simp only [center_crop_height_upper, centerCropLower, Int.fdiv_eq_ediv_of_nonneg _ (by decide : (0:Int) ≤ 2)] <;> bridge_arith

/-- the guard of `center_crop`, as a boolean expression over the four comparisons `0 < s₂`, `s₂ ≤ n₂`, `0 < s₁`, `s₁ ≤ n₁`:
however it is written (`not A or not B`, `not (A and B)`, …) it rejects exactly when one axis is not `0 < s ≤ n`
(decided by cases on the four atoms; `omega` closes re-expressed comparisons such as `s ≥ 1`) -/
theorem center_crop_rejects_eq (dn2 sn2 dn1 sn1 : Int) :
    center_crop_rejects dn2 sn2 dn1 sn1 = (!(centerCropOk dn2 sn2) || !(centerCropOk dn1 sn1)) := by
  by_cases h1 : 0 < sn2 <;> by_cases h2 : sn2 ≤ dn2 <;> by_cases h3 : 0 < sn1 <;> by_cases h4 : sn1 ≤ dn1 <;>
    simp [center_crop_rejects, centerCropOk, h1, h2, h3, h4] <;> omega

theorem complex_center_crop_start_eq (n s : Int) : complex_center_crop_start n s = cccStart n s := by
  simp only [complex_center_crop_start, cccStart, Int.fdiv_eq_ediv_of_nonneg _ (by decide : (0:Int) ≤ 2)] <;> bridge_arith

theorem complex_center_crop_size_eq (n s : Int) : complex_center_crop_size n s = s := by
  simp only [complex_center_crop_size] <;> bridge_arith

theorem pad_tensor_before_eq (t i : Int) : pad_tensor_before t i = padBefore t i := by
  simp only [pad_tensor_before, padBefore] <;> bridge_arith

theorem pad_tensor_after_eq (t i : Int) : pad_tensor_after t i = padAfter t i := by
  simp only [pad_tensor_after, padAfter, padBefore] <;> bridge_arith

/-- the flat `F.pad` list: per axis `(left, right) = (before, after)`, last axis first — however the source builds it
(pairs collected first-to-last and the list reversed, or pairs visited last-to-first): the reversals are normalised here
(`reverse ∘ flatMap = flatMap-on-reversed ∘ reverse`), the per-axis arithmetic is closed by `omega` -/
theorem pad_tensor_pad_list_eq (dims : List (Int × Int)) :
    pad_tensor_pad_list dims = padPairs false dims := by
  unfold pad_tensor_pad_list padPairs
  simp only [List.reverse_flatMap, List.reverse_reverse, Function.comp_def, List.reverse_cons, List.reverse_nil,
    List.nil_append, List.cons_append, Bool.false_eq_true, if_false] <;>
  (try (congr 1 <;> try (funext ⟨t, i⟩ <;> simp only [padAfter, padBefore, List.cons.injEq, and_true] <;> bridge_arith)))

/-! `crop_to_bbox` offsets and slice bounds (element-wise reading of the numpy vector code) -/
theorem bbox_l_offset_eq (n c s : Int) : bbox_l_offset n c s = bboxLOff c := by
  simp only [bbox_l_offset, bboxLOff, decide_eq_true_eq] <;> bridge_arith

theorem bbox_r_offset_eq (n c s : Int) : bbox_r_offset n c s = bboxROff n c s := by
  simp only [bbox_r_offset, bboxROff, decide_eq_true_eq] <;> bridge_arith

theorem bbox_region_lo_eq (n c s : Int) : bbox_region_lo n c s = c + bboxLOff c := by
  simp only [bbox_region_lo, bboxLOff, decide_eq_true_eq] <;> bridge_arith

theorem bbox_region_hi_eq (n c s : Int) :
    bbox_region_hi n c s = max (c + bboxLOff c) (c + s - bboxROff n c s) := by
  simp only [bbox_region_hi, bboxLOff, bboxROff, pyMax, decide_eq_true_eq] <;>
  first | done | (split <;> split <;> split <;> bridge_arith) | bridge_arith

theorem bbox_patch_lo_eq (n c s : Int) : bbox_patch_lo n c s = bboxLOff c := by
  simp only [bbox_patch_lo, bboxLOff, decide_eq_true_eq] <;> bridge_arith

theorem bbox_patch_hi_eq (n c s : Int) :
    bbox_patch_hi n c s = max (bboxLOff c) (s - bboxROff n c s) := by
  simp only [bbox_patch_hi, bboxLOff, bboxROff, pyMax, decide_eq_true_eq] <;>
  first | done | (split <;> split <;> split <;> bridge_arith) | bridge_arith

/-! `PadKspace` / `CropKspace`: the chain of calls applied to the k-space is the modelled plan -/
theorem pad_kspace_plan_eq : Gen.C10.padKspacePlan = some Crop.padKspacePlan := by decide

theorem crop_kspace_plan_eq : Gen.C10.cropKspacePlan = some Crop.cropKspacePlan := by decide

/-- neither transform has an early `return` that would skip the plan -/
theorem kspace_plans_no_early_return :
    Gen.C10.padKspacePlanReturns = 1 ∧ Gen.C10.cropKspacePlanReturns = 1 := by decide

/-- the padded patch of `crop_to_bbox` is allocated with `full(size, pad_value, dtype=data.dtype)` on both paths -/
theorem bbox_patch_alloc_full : (Gen.C10.bboxPatchAlloc.map fun l => l.all (· == Crop.PatchAlloc.full)) = some true := by decide

/-- `crop_to_largest`: `crop_start = -((max_shape - shape) // 2)` -/
theorem crop_to_largest_start_eq (mx n : Int) : crop_to_largest_start mx n = cropToLargestStart mx n := by
  simp only [crop_to_largest_start, cropToLargestStart, Int.fdiv_eq_ediv_of_nonneg _ (by decide : (0:Int) ≤ 2)] <;> bridge_arith

/-! ### key plumbing, state, argument forms of the k-space modules (helper functions followed by the translator) -/

/-- `PadKspace` reads the k-space under `self.kspace_key` and stores the result under `self.kspace_key` -/
theorem pad_kspace_io_eq : Gen.C10.padKspacePlanIO = Crop.padKspaceIO := by decide

/-- `CropKspace` (which has no key option) reads and stores `sample["kspace"]` -/
theorem crop_kspace_io_eq : Gen.C10.cropKspacePlanIO = Crop.cropKspaceIO := by decide

theorem rescale_kspace_io_eq : Gen.C10.rescaleKspaceIO = Crop.rescaleKspaceIO := by decide

/-- no method other than `__init__` (nor a private helper it calls) writes instance, class or module state -/
theorem module_state_writes_none : Crop.stateWritesOk Gen.C10.moduleStateWrites = true := by decide

/-- every reference to a crop / pad primitive inside `direct/` resolves to the modelled definition -/
theorem primitive_callers_ok : Crop.callersOk Gen.C10.primitiveCallers = true := by decide +kernel

/-- the composites are still built on the modelled primitives (no call edge of the model was removed) -/
theorem primitive_edges_ok : Crop.edgesOk Gen.C10.primitiveEdges = true := by decide +kernel

/-- no primitive and no module call modifies an argument in place -/
theorem no_inplace_on_inputs : Gen.C10.inplaceOnInputs = [] := by decide

/-- every access to the sample uses the configured key or one of the documented side keys; nothing escapes -/
theorem module_key_access_ok : Crop.keyAccessOk Gen.C10.moduleKeyAccess = true := by decide +kernel

/-- the crop shape for the three argument forms of `CropKspace(crop=…)` -/
theorem crop_shape_resolve_eq (form : Crop.CropForm) (ndim : Int) (crop keyVal : List Int) (slices : Int) :
    Gen.C10.crop_shape_resolve form ndim crop keyVal slices = Crop.cropShapeResolve form ndim crop keyVal slices := by
  have h : ((crop.length : Int) = 2) ↔ crop.length = 2 := by omega
  cases form <;> simp [Gen.C10.crop_shape_resolve, Crop.cropShapeResolve, h]

/-- `PadCoilDimensionModule.forward`: the guard chain and the zero-coil count of the source are the model's decision -/
theorem pad_coil_forward_eq (num cur : Int) (hasKey : Bool) :
    Gen.C10.pad_coil_forward num cur hasKey = Crop.padCoilDecision num cur hasKey := by
  unfold Gen.C10.pad_coil_forward Crop.padCoilDecision
  by_cases h0 : num = 0
  · simp [h0]
  · cases hasKey
    · simp [h0]
    · by_cases h1 : cur > num
      · simp [h0, h1]
      · by_cases h2 : cur = num
        · simp [h0, h2]
        · have hm : pyMax (num - cur) 0 = max (num - cur) 0 := by
            simp only [pyMax]; split <;> omega
          simp [h0, h1, h2, hm]

/-- the zeros are concatenated IN FRONT of the data (`torch.cat([zeros, data], dim=self.coil_dim)`) -/
theorem pad_coil_cat_eq : Gen.C10.padCoilCat = Crop.padCoilCatModel := by decide

end DirectVerif.Bridge.C10
