import DirectVerif.Driver.Common
import DirectVerif.Model.Crop
import DirectVerif.Model.C10Modules
namespace DirectVerif.Driver.C10
open DirectVerif DirectVerif.Driver

/-- n-D `center_crop` on the last two axes -/
def opCenterCrop (t : Tensor Int) (s : List Int) : String :=
  let r := t.shape.length
  if r < 2 ∨ s.length < 2 then "err BadOp" else
  let n2 : Int := t.shape.getD (r - 2) 0
  let n1 : Int := t.shape.getD (r - 1) 0
  let s2 := s.getD (s.length - 2) 0
  let s1 := s.getD (s.length - 1) 0
  if !(Crop.centerCropOk n2 s2) || !(Crop.centerCropOk n1 s1) then "err ValueError" else
  let t := t.alongAxis (r - 2) (Crop.centerCrop s2.toNat)
  let t := t.alongAxis (r - 1) (Crop.centerCrop s1.toNat)
  okT t

/-- n-D `crop_to_bbox` -/
def opBbox (t : Tensor Int) (bbox : List Int) (fill : Int) : String := Id.run do
  let r := t.shape.length
  if bbox.length ≠ 2 * r then return "err BadOp"
  let mut cur := t
  let mut bad := false
  for ax in List.range r do
    let coord := bbox.getD ax 0
    let size := bbox.getD (r + ax) 0
    let n := cur.shape.getD ax 0
    -- does this axis fit?
    match Crop.cropToBbox fill ((List.range n).map Int.ofNat) coord size with
    | .shapeError => bad := true
    | .ok _ => pure ()
    cur := cur.alongAxis ax fun xs =>
      match Crop.cropToBbox fill xs coord size with
      | .ok ys => ys
      | .shapeError => []
  if bad then return "err ShapeError"
  return okT cur

/-- n-D `pad_tensor` (repaired order) on the last `target.length` axes -/
def opPad (t : Tensor Int) (target : List Int) (fill : Int) : String := Id.run do
  let r := t.shape.length
  let k := target.length
  if k ≠ 2 ∧ k ≠ 3 then return "err ValueError"
  if r < k then return "err BadOp"
  let dims : List (Int × Int) := (List.range k).map fun j =>
    (target.getD j 0, (t.shape.getD (r - k + j) 0 : Nat))
  let pad := Crop.padPairs false dims
  let mut cur := t
  for j in List.range k do     -- j-th axis from the last
    let (l, rr) := Crop.padOfAxisFromLast pad j
    cur := cur.alongAxis (r - 1 - j) (Crop.fPad fill l.toNat rr.toNat)
  return okT cur

/-- `complex_center_crop`: build the bbox as the code does, then `crop_to_bbox` -/
def opCCC (t : Tensor Int) (crop : List Int) (offset : Nat) : String :=
  let r := t.shape.length
  let img : List Int := t.shape.map Int.ofNat
  if offset + crop.length > r then "err IndexError" else
  let shape : List Int := (List.range crop.length).map fun idx =>
    let c := crop.getD idx 0
    if c ≠ 0 then c else img.getD (idx + offset) 0
  let starts : List Int := (List.range r).map fun ax =>
    if offset ≤ ax ∧ ax < offset + crop.length then
      Crop.cccStart (img.getD ax 0) (shape.getD (ax - offset) 0) else 0
  let sizes : List Int := (List.range r).map fun ax =>
    if offset ≤ ax ∧ ax < offset + crop.length then shape.getD (ax - offset) 0 else img.getD ax 0
  if starts.any (· < 0) then "err ValueError" else
  opBbox t (starts ++ sizes) 0

/-- `complex_random_crop` given the drawn (and, for the gaussian sampler, clipped) lower corner -/
def opRandomCrop (t : Tensor Int) (crop : List Int) (offset : Nat) (lower : List Int) : String :=
  let r := t.shape.length
  let img : List Int := t.shape.map Int.ofNat
  if offset + crop.length > r then "err IndexError" else
  let shape : List Int := (List.range crop.length).map fun idx =>
    let c := crop.getD idx 0
    if c ≠ 0 then c else img.getD (idx + offset) 0
  let limits : List Int := (List.range crop.length).map fun idx => img.getD (offset + idx) 0 - shape.getD idx 0
  if limits.any (· < 0) then "err ValueError" else
  let starts : List Int := (List.range r).map fun ax =>
    if offset ≤ ax ∧ ax < offset + crop.length then lower.getD (ax - offset) 0 else 0
  let sizes : List Int := (List.range r).map fun ax =>
    if offset ≤ ax ∧ ax < offset + crop.length then shape.getD (ax - offset) 0 else img.getD ax 0
  opBbox t (starts ++ sizes) 0

/-! ### the k-space modules: the plan of `Model/Crop.lean` interpreted on tensors, with the key plumbing of
`Model/C10Modules.lean`.  The operator pair is the exact involution `flip(dim)` (passed to the real transforms as
`forward_operator` / `backward_operator`), so model and implementation are compared bit for bit. -/

abbrev R := Except String (Tensor Int)

def resultStr : R → String
  | .ok t => okT t
  | .error e => e

/-- an op of the protocol as a tensor-valued function -/
def asR (f : Tensor Int → String) (g : Tensor Int → Tensor Int) (t : Tensor Int) : R :=
  let s := f t
  if s.startsWith "err" then .error s else .ok (g t)

open DirectVerif.Crop (flipAxes spatialDims)

/-- tensor result of `crop_to_bbox` (same loop as `opBbox`) -/
def bboxT (t : Tensor Int) (bbox : List Int) (fill : Int) : Tensor Int := Id.run do
  let r := t.shape.length
  let mut cur := t
  for ax in List.range r do
    let coord := bbox.getD ax 0
    let size := bbox.getD (r + ax) 0
    cur := cur.alongAxis ax fun xs =>
      match Crop.cropToBbox fill xs coord size with
      | .ok ys => ys
      | .shapeError => []
  return cur

/-- tensor result of `complex_center_crop` -/
def cccT (t : Tensor Int) (crop : List Int) (offset : Nat) : R :=
  let r := t.shape.length
  let img : List Int := t.shape.map Int.ofNat
  let shape : List Int := (List.range crop.length).map fun idx =>
    let c := crop.getD idx 0
    if c ≠ 0 then c else img.getD (idx + offset) 0
  let starts : List Int := (List.range r).map fun ax =>
    if offset ≤ ax ∧ ax < offset + crop.length then
      Crop.cccStart (img.getD ax 0) (shape.getD (ax - offset) 0) else 0
  let sizes : List Int := (List.range r).map fun ax =>
    if offset ≤ ax ∧ ax < offset + crop.length then shape.getD (ax - offset) 0 else img.getD ax 0
  asR (fun t => opCCC t crop offset) (fun t => bboxT t (starts ++ sizes) 0) t

/-- `view_as_real(pad_tensor(view_as_complex(x), target))`: the last `target.length` axes *before* the trailing
complex axis are padded (the views only regroup the trailing axis of size 2) -/
def padComplexT (t : Tensor Int) (target : List Int) (fill : Int) : R := Id.run do
  let r := t.shape.length
  let k := target.length
  if k ≠ 2 ∧ k ≠ 3 then return .error "err ValueError"
  if r < k + 1 then return .error "err BadOp"
  let dims : List (Int × Int) := (List.range k).map fun j =>
    (target.getD j 0, (t.shape.getD (r - 1 - k + j) 0 : Nat))
  let pad := Crop.padPairs false dims
  let mut cur := t
  for j in List.range k do     -- j-th axis from the last, not counting the complex axis
    let (l, rr) := Crop.padOfAxisFromLast pad j
    cur := cur.alongAxis (r - 2 - j) (Crop.fPad fill l.toNat rr.toNat)
  return .ok cur

/-- the operators a plan is run with: flips as forward / backward operator, views as identities -/
def kops (dims : List Nat) (pad crop : R → R) : Crop.KOps R :=
  { fwd := fun x => x.map (flipAxes dims), bwd := fun x => x.map (flipAxes dims), vc := id, vr := id, pad := pad, crop := crop }

/-- `CropKspace(crop, image_space_center_crop=True)`: resolve the crop shape for the argument form, then the plan -/
def cropKspaceRun (form : Crop.CropForm) (crop keyVal : List Int) (x : R) : R :=
  match x with
  | .error e => .error e
  | .ok t =>
    let shape := Crop.cropShapeResolve form t.shape.length crop keyVal (t.shape.getD 1 0)
    Crop.runPlan (kops (spatialDims t.shape.length) id (fun y => y.bind fun u => cccT u shape 1)) Crop.cropKspacePlan (.ok t)

/-- `PadKspace(pad_shape)` on the tensor it read -/
def padKspaceRun (target : List Int) (x : R) : R :=
  match x with
  | .error e => .error e
  | .ok t => Crop.runPlan (kops (spatialDims t.shape.length) (fun y => y.bind fun u => padComplexT u target 0) id)
      Crop.padKspacePlan (.ok t)

def fmtSample (s : Crop.KSample R) : String :=
  match s.kspace, s.masked with
  | some (.ok a), some (.ok b) => "ok " ++ fmtGroups [a.shape.map Int.ofNat, a.data, b.shape.map Int.ofNat, b.data]
  | some (.error e), _ => e
  | _, some (.error e) => e
  | _, _ => "err KeyError"

/-- a k-space module applied to a sample holding both k-space keys; answer = both tensors afterwards -/
def opModule (io : Crop.KIO) (cfg : Crop.KKey) (f : R → R) (tk tm : Tensor Int) : String :=
  match Crop.moduleCall io cfg f ⟨some (.ok tk), some (.ok tm)⟩ with
  | some s => fmtSample s
  | none => "err KeyError"

def keyOfCode (c : Int) : Crop.KKey := if c = 1 then .masked else .kspace
def formOfCode (c : Int) : Crop.CropForm := if c = 0 then .intString else if c = 1 then .key else .seq

/-- `PadCoilDimensionModule(pad_coils=num, coil_dim)` on the tensor under its key: every fibre along the coil axis goes
through `Crop.padCoils1` (all fibres have the same length, hence take the same branch); `none` = `ValueError` -/
def padCoilT (num : Int) (coilDim : Nat) (x : R) : Option R :=
  match x with
  | .error e => some (.error e)
  | .ok t =>
    if (Crop.padCoilDecision num (t.shape.getD coilDim 0 : Nat) true).1 = 1 then none else
    some (.ok (t.alongAxis coilDim fun xs => (Crop.padCoils1 0 num xs).getD xs))

def fmtOpt : Option R → List (List Int)
  | some (.ok a) => [a.shape.map Int.ofNat, a.data]
  | _ => [[-1], [-1]]

/-- `padcoil`: the sample holds the k-space keys flagged present; answer = both entries afterwards (`-1 | -1` = absent) -/
def opPadCoil (num : Int) (key : Crop.KKey) (coilDim : Nat) (tk tm : Option (Tensor Int)) : String :=
  match Crop.padCoilCall key (padCoilT num coilDim) ⟨tk.map .ok, tm.map .ok⟩ with
  | some s => "ok " ++ fmtGroups (fmtOpt s.kspace ++ fmtOpt s.masked)
  | none => "err ValueError"

def step (op : String) (gs : List (List Int)) : String :=
  match op, gs with
  | "center_crop", [shape, data, s] =>
    match mkT shape data with
    | some t => opCenterCrop t s
    | none => "err BadOp"
  | "bbox", [shape, data, bbox, [fill]] =>
    match mkT shape data with
    | some t => opBbox t bbox fill
    | none => "err BadOp"
  | "ccc", [shape, data, crop, [offset]] =>
    match mkT shape data with
    | some t => opCCC t crop offset.toNat
    | none => "err BadOp"
  | "rcrop", [shape, data, crop, [offset], lower] =>
    match mkT shape data with
    | some t => opRandomCrop t crop offset.toNat lower
    | none => "err BadOp"
  | "pad", [shape, data, target, [fill]] =>
    match mkT shape data with
    | some t => opPad t target fill
    | none => "err BadOp"
  | "largest", [shape, data, mx, [fill]] =>
    -- one item of `crop_to_largest`: bbox = (crop_start per axis, max_shape)
    match mkT shape data with
    | some t =>
      if mx.length ≠ t.shape.length then "err BadOp" else
      opBbox t ((List.range mx.length).map (fun ax => Crop.cropToLargestStart (mx.getD ax 0) (t.shape.getD ax 0 : Nat)) ++ mx) fill
    | none => "err BadOp"
  | "padk", [[key], shapeK, dataK, shapeM, dataM, target] =>
    match mkT shapeK dataK, mkT shapeM dataM with
    | some tk, some tm => opModule Crop.padKspaceIO (keyOfCode key) (padKspaceRun target) tk tm
    | _, _ => "err BadOp"
  | "cropk", [[form], shapeK, dataK, shapeM, dataM, crop, keyVal] =>
    match mkT shapeK dataK, mkT shapeM dataM with
    | some tk, some tm => opModule Crop.cropKspaceIO .kspace (cropKspaceRun (formOfCode form) crop keyVal) tk tm
    | _, _ => "err BadOp"
  | "padcoil", [[num, key, coilDim, hasK, hasM], shapeK, dataK, shapeM, dataM] =>
    match mkT shapeK dataK, mkT shapeM dataM with
    | some tk, some tm =>
      if coilDim < 0 ∨ coilDim.toNat ≥ tk.shape.length ∨ coilDim.toNat ≥ tm.shape.length then "err BadOp" else
      opPadCoil num (keyOfCode key) coilDim.toNat (if hasK = 1 then some tk else none) (if hasM = 1 then some tm else none)
    | _, _ => "err BadOp"
  | _, _ => "err BadOp"

end DirectVerif.Driver.C10
