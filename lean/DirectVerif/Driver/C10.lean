import DirectVerif.Driver.Common
import DirectVerif.Model.Crop
namespace DirectVerif.Driver.C10
open DirectVerif DirectVerif.Driver

/-- n-D `center_crop` on the last two axes -/
def opCenterCrop (t : Tensor Int) (s : List Int) : String :=
  let r := t.shape.length
  if r < 2 ∨ s.length < 2 then "err BadOp" else
  let n2 : Int := t.shape.getD (r - 2) 0
  let n1 : Int := t.shape.getD (r - 1) 0
  let s2 := s.getD (s.length - 2) 0
  let s1 := s.getD (s.length - 1) 0
  if !(Crop.centerCropOk n2 s2) || !(Crop.centerCropOk n1 s1) then "err ValueError" else
  let t := t.alongAxis (r - 2) (Crop.centerCrop s2.toNat)
  let t := t.alongAxis (r - 1) (Crop.centerCrop s1.toNat)
  okT t

/-- n-D `crop_to_bbox` -/
def opBbox (t : Tensor Int) (bbox : List Int) (fill : Int) : String := Id.run do
  let r := t.shape.length
  if bbox.length ≠ 2 * r then return "err BadOp"
  let mut cur := t
  let mut bad := false
  for ax in List.range r do
    let coord := bbox.getD ax 0
    let size := bbox.getD (r + ax) 0
    let n := cur.shape.getD ax 0
    -- does this axis fit?
    match Crop.cropToBbox fill ((List.range n).map Int.ofNat) coord size with
    | .shapeError => bad := true
    | .ok _ => pure ()
    cur := cur.alongAxis ax fun xs =>
      match Crop.cropToBbox fill xs coord size with
      | .ok ys => ys
      | .shapeError => []
  if bad then return "err ShapeError"
  return okT cur

/-- n-D `pad_tensor` (repaired order) on the last `target.length` axes -/
def opPad (t : Tensor Int) (target : List Int) (fill : Int) : String := Id.run do
  let r := t.shape.length
  let k := target.length
  if k ≠ 2 ∧ k ≠ 3 then return "err ValueError"
  if r < k then return "err BadOp"
  let dims : List (Int × Int) := (List.range k).map fun j =>
    (target.getD j 0, (t.shape.getD (r - k + j) 0 : Nat))
  let pad := Crop.padPairs false dims
  let mut cur := t
  for j in List.range k do     -- j-th axis from the last
    let (l, rr) := Crop.padOfAxisFromLast pad j
    cur := cur.alongAxis (r - 1 - j) (Crop.fPad fill l.toNat rr.toNat)
  return okT cur

/-- `complex_center_crop`: build the bbox as the code does, then `crop_to_bbox` -/
def opCCC (t : Tensor Int) (crop : List Int) (offset : Nat) : String :=
  let r := t.shape.length
  let img : List Int := t.shape.map Int.ofNat
  if offset + crop.length > r then "err IndexError" else
  let shape : List Int := (List.range crop.length).map fun idx =>
    let c := crop.getD idx 0
    if c ≠ 0 then c else img.getD (idx + offset) 0
  let starts : List Int := (List.range r).map fun ax =>
    if offset ≤ ax ∧ ax < offset + crop.length then
      Crop.cccStart (img.getD ax 0) (shape.getD (ax - offset) 0) else 0
  let sizes : List Int := (List.range r).map fun ax =>
    if offset ≤ ax ∧ ax < offset + crop.length then shape.getD (ax - offset) 0 else img.getD ax 0
  if starts.any (· < 0) then "err ValueError" else
  opBbox t (starts ++ sizes) 0

/-- `complex_random_crop` given the drawn (and, for the gaussian sampler, clipped) lower corner -/
def opRandomCrop (t : Tensor Int) (crop : List Int) (offset : Nat) (lower : List Int) : String :=
  let r := t.shape.length
  let img : List Int := t.shape.map Int.ofNat
  if offset + crop.length > r then "err IndexError" else
  let shape : List Int := (List.range crop.length).map fun idx =>
    let c := crop.getD idx 0
    if c ≠ 0 then c else img.getD (idx + offset) 0
  let limits : List Int := (List.range crop.length).map fun idx => img.getD (offset + idx) 0 - shape.getD idx 0
  if limits.any (· < 0) then "err ValueError" else
  let starts : List Int := (List.range r).map fun ax =>
    if offset ≤ ax ∧ ax < offset + crop.length then lower.getD (ax - offset) 0 else 0
  let sizes : List Int := (List.range r).map fun ax =>
    if offset ≤ ax ∧ ax < offset + crop.length then shape.getD (ax - offset) 0 else img.getD ax 0
  opBbox t (starts ++ sizes) 0

def step (op : String) (gs : List (List Int)) : String :=
  match op, gs with
  | "center_crop", [shape, data, s] =>
    match mkT shape data with
    | some t => opCenterCrop t s
    | none => "err BadOp"
  | "bbox", [shape, data, bbox, [fill]] =>
    match mkT shape data with
    | some t => opBbox t bbox fill
    | none => "err BadOp"
  | "ccc", [shape, data, crop, [offset]] =>
    match mkT shape data with
    | some t => opCCC t crop offset.toNat
    | none => "err BadOp"
  | "rcrop", [shape, data, crop, [offset], lower] =>
    match mkT shape data with
    | some t => opRandomCrop t crop offset.toNat lower
    | none => "err BadOp"
  | "pad", [shape, data, target, [fill]] =>
    match mkT shape data with
    | some t => opPad t target fill
    | none => "err BadOp"
  | _, _ => "err BadOp"

end DirectVerif.Driver.C10
