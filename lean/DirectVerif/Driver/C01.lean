import DirectVerif.Driver.Common
import DirectVerif.Model.Shift
namespace DirectVerif.Driver.C01
open DirectVerif DirectVerif.Driver

def step (op : String) (gs : List (List Int)) : String :=
  match op, gs with
  | "roll", [shape, data, shifts, dims] =>
    match mkT shape data with
    | some t => if shifts.length ≠ dims.length then "err ValueError" else okT (Shift.roll t shifts (nats dims))
    | none => "err BadOp"
  | "fftshift", [shape, data, dims] =>
    match mkT shape data with
    | some t => okT (Shift.fftshift t (nats dims))
    | none => "err BadOp"
  | "ifftshift", [shape, data, dims] =>
    match mkT shape data with
    | some t => okT (Shift.ifftshift t (nats dims))
    | none => "err BadOp"
  | _, _ => "err BadOp"

end DirectVerif.Driver.C01
