import DirectVerif.Driver.Common
import DirectVerif.Model.Shift
import DirectVerif.Model.Fft
namespace DirectVerif.Driver.C01
open DirectVerif DirectVerif.Driver

def dtypeOfCode : Int → Fft.DType
  | 0 => .float32 | 1 => .float64 | 2 => .float16 | 3 => .complex64 | 4 => .complex128 | _ => .other

/-- `ok <shape> | L num den | E…` for a symbolic tensor: entry = `sqrt(num/den) · exp(-2πi E / L)`, `E = -1` for 0 -/
def renderSym (cshape dims : List Nat) (y : Fft.SymT) : String :=
  let r := cshape.length
  let lens := dims.map fun d => cshape.getD d 1
  let L := lens.foldl Nat.lcm 1
  if y.t.data.any (· == Fft.symBad) then "err NotSparse" else
  let es : List Int := y.t.data.map fun v =>
    match v with
    | none => (-1 : Int)
    | some es =>
      ((List.range r).foldl (fun (acc : Int) a => acc + es.getD a 0 * ((L / cshape.getD a 1 : Nat) : Int)) 0) % (L : Int)
  okG [y.t.shape.map Int.ofNat, [(L : Int), (y.num : Int), (y.den : Int)], es]

def impulse (cshape pos : List Nat) : Fft.SymT :=
  let off := Tensor.offset cshape pos
  ⟨⟨cshape, (List.range (prod cshape)).map fun i => if i = off then some (List.replicate cshape.length 0) else none⟩, 1, 1⟩

def normOfCode : Int → Fft.Norm
  | 0 => .ortho | 1 => .backward | _ => .forward

/-- the external transform alone — what `torch.fft.fftn / ifftn (x, dim=dims, norm=…)` is assumed to be: the per-axis DFT
(`Fft.symBackend.transform`, i.e. `applyAxes` of the lifted 1-D DFT) of the unit impulse at `pos`; no shifts, no glue.
`dims` must be distinct in-range axes of non-zero length (the harness only sends such lines). -/
def opFftn (shape pos dims : List Int) (inv nm : Int) : String :=
  let cshape := nats shape
  let ds := nats dims
  if pos.length ≠ cshape.length ∨ dims.any (· < 0) ∨ ds.any (· ≥ cshape.length) ∨ Fft.hasDup dims ∨ prod cshape = 0 then "err BadOp" else
  renderSym cshape ds ((Fft.symBackend ds).transform (inv != 0) (normOfCode nm) (impulse cshape (nats pos)))

/-- `fft2` / `ifft2` of the unit impulse at complex position `pos` of a tensor of shape `shape`
(the shape as passed, i.e. with the trailing 2 when `complex_input`).
Answer: `ok <complex shape> | L num den | E…` — entry = `sqrt(num/den) · exp(-2πi E / L)`, `E = -1` for 0. -/
def opFft (shape pos dims flags : List Int) (dt : Int) : String :=
  match flags with
  | [c, n, ci, inv] =>
    let cfg : Fft.Cfg := ⟨c != 0, n != 0, ci != 0⟩
    let plan := if inv != 0 then Fft.ifft2Plan else Fft.fft2Plan
    match Fft.validate cfg dims plan ⟨nats shape, dtypeOfCode dt⟩ with
    | .error e => "err " ++ e.name
    | .ok _ =>
      let cshape := if cfg.complexInput then (nats shape).dropLast else nats shape
      let r := cshape.length
      if pos.length ≠ r then "err BadOp" else
      let off := Tensor.offset cshape (nats pos)
      let data : List Fft.Sym := (List.range (prod cshape)).map fun i =>
        if i = off then some (List.replicate r 0) else none
      let x : Fft.SymT := ⟨⟨cshape, data⟩, 1, 1⟩
      let B := Fft.symBackend (nats dims)
      let y := if inv != 0 then Fft.ifft2 B cfg x else Fft.fft2 B cfg x
      renderSym cshape (nats dims) y
  | _ => "err BadOp"

/-- Python axis indexing: negative axes count from the end; out of range is an `IndexError` -/
def normDims (rank : Nat) (dims : List Int) : Option (List Nat) :=
  dims.mapM fun d =>
    let d' : Int := if d < 0 then d + (rank : Int) else d
    if 0 ≤ d' ∧ d' < (rank : Int) then some d'.toNat else none

def step (op : String) (gs : List (List Int)) : String :=
  match op, gs with
  | "roll", [shape, data, shifts, dims] =>
    match mkT shape data with
    | some t =>
      if shifts.length ≠ dims.length then "err ValueError" else
      match normDims t.shape.length dims with
      | some ds => okT (Shift.roll t shifts ds)
      | none => "err IndexError"
    | none => "err BadOp"
  | "fftshift", [shape, data, dims] =>
    match mkT shape data with
    | some t =>
      match normDims t.shape.length dims with
      | some ds => okT (Shift.fftshift t ds)
      | none => "err IndexError"
    | none => "err BadOp"
  | "ifftshift", [shape, data, dims] =>
    match mkT shape data with
    | some t =>
      match normDims t.shape.length dims with
      | some ds => okT (Shift.ifftshift t ds)
      | none => "err IndexError"
    | none => "err BadOp"
  | "fft", [shape, pos, dims, flags, [dt]] => opFft shape pos dims flags dt
  | "fftn", [shape, pos, dims, [inv, nm]] => opFftn shape pos dims inv nm
  | _, _ => "err BadOp"

end DirectVerif.Driver.C01
