import DirectVerif.Driver.Common
import DirectVerif.Model.C04PoissonGen
/-!
Line-protocol operations of `Model/C04Poisson.lean` (dispatched from `Driver/C04.lean`).

Floating-point values travel as pairs `mantissa exponent` (the dyadic rational `m · 2^e`); answers are printed
in canonical form (odd mantissa).
-/
namespace DirectVerif.Driver.C04Poisson
open DirectVerif DirectVerif.Driver DirectVerif.C04Poisson DirectVerif.MaskGeom

def pack (row : List Bool) : Int :=
  Int.ofNat (row.foldr (fun b acc => 2 * acc + (if b then 1 else 0)) 0)

def dys : List Int → List Dy
  | m :: e :: rest => ⟨m, e⟩ :: dys rest
  | _ => []

def triples : List Int → List (Dy × Dy × Dy)
  | a :: b :: c :: d :: e :: f :: rest => (⟨a, b⟩, ⟨c, d⟩, ⟨e, f⟩) :: triples rest
  | _ => []

def outDy (x : Dy) : List Int := let n := x.norm; [n.m, n.e]

def fmtOf : Int → Fmt
  | 32 => f32
  | _ => f64

/-- the kernel on recorded inputs: `ok rows | pos att iters accepts removals stale maxna` or `err <Halt>` -/
def opKernel (par : List Int) (draws rx ry trig : List Int) : String :=
  match par with
  | [nx, ny, ma, fuel] =>
    let env : Env := { nx := nx.toNat, ny := ny.toNat, maxAttempts := ma.toNat, rx := (dys rx).toArray,
                       ry := (dys ry).toArray, draws := (nats draws).toArray, trig := (triples trig).toArray }
    match kernel env fuel.toNat with
    | ⟨some h, _⟩ => "err " ++ h.name
    | ⟨none, st⟩ =>
      okG [(chunksOf env.ny st.mask.toList).map pack,
           [st.pos, st.att, st.iters, st.accepts, st.removals, st.stale, st.maxna].map Int.ofNat]
  | _ => "err BadOp"

def envOf (par draws rx ry trig : List Int) : Option (Env × Nat) :=
  match par with
  | [nx, ny, ma, fuel] =>
    some ({ nx := nx.toNat, ny := ny.toNat, maxAttempts := ma.toNat, rx := (dys rx).toArray, ry := (dys ry).toArray,
            draws := (nats draws).toArray, trig := (triples trig).toArray }, fuel.toNat)
  | _ => none

/-- frames `par | draws | rx | ry | trig` … -/
def frameMasks : List (List Int) → Except String (List (List Bool))
  | par :: draws :: rx :: ry :: trig :: rest =>
    match envOf par draws rx ry trig with
    | none => .error "err BadOp"
    | some (env, fuel) =>
      match kernelMask env fuel with
      | .error h => .error ("err " ++ h.name)
      | .ok k =>
        match frameMasks rest with
        | .error e => .error e
        | .ok ks => .ok (k :: ks)
  | [] => .ok []
  | _ => .error "err BadOp"

def modeOf : Int → Option Mode
  | 0 => some .static | 1 => some .dynamic | 2 => some .multislice | _ => none

def unpack (cols : Nat) (v : Int) : List Bool := (List.range cols).map fun j => v.toNat.testBit j

/-- `VariableDensityPoisson` mask branch: `gen_poisson mode | shape | radius hasCrop | crop rows | frames…` -/
def opGenPoisson (hdr shape par cropRows : List Int) (frames : List (List Int)) : String :=
  match hdr, par with
  | [mi], [radius, hasCrop] =>
    match modeOf mi with
    | none => "err BadOp"
    | some m =>
      let shp := nats shape
      if shp.length < neededRank m then
        match assemblePoisson m shp radius none [] with
        | .ok _ => "err BadOp"
        | .error e => "err " ++ e.name
      else
      let cols := colsOf shp
      let crop := if hasCrop != 0 then some ((cropRows.map (unpack cols)).flatten) else none
      match frameMasks frames with
      | .error e => e
      | .ok ks =>
        match assemblePoisson m shp radius crop ks with
        | .ok t => okG [t.shape.map Int.ofNat, (chunksOf cols t.data).map pack]
        | .error e => "err " ++ e.name
  | _, _ => "err BadOp"

def step (op : String) (gs : List (List Int)) : String :=
  match op, gs with
  | "gen_poisson", hdr :: shape :: par :: cropRows :: frames => opGenPoisson hdr shape par cropRows frames
  | "poisson_kernel", [par, draws, rx, ry, trig] => opKernel par draws rx ry trig
  | "poisson_kernel", [par, draws, rx, ry] => opKernel par draws rx ry []
  -- one IEEE operation: 0 round, 1 add, 2 sub, 3 mul, 4 div; format 32 / 64
  | "fop", [[code, fmt], [xm, xe], [ym, ye]] =>
    let f := fmtOf fmt
    let x : Dy := ⟨xm, xe⟩
    let y : Dy := ⟨ym, ye⟩
    match code with
    | 0 => okG [outDy (round f x)]
    | 1 => okG [outDy (fadd f x y)]
    | 2 => okG [outDy (fsub f x y)]
    | 3 => okG [outDy (fmul f x y)]
    | 4 => if ym = 0 then "err ZeroDivisionError" else okG [outDy (fdiv f x y)]
    | _ => "err BadOp"
  | "fcmp", [[xm, xe], [ym, ye], [n]] =>
    let x : Dy := ⟨xm, xe⟩
    okG [[b2i (Dy.lt x ⟨ym, ye⟩), b2i (Dy.veq x ⟨ym, ye⟩), b2i x.nonneg, b2i (x.ltNat n.toNat), x.trunc]]
  -- the helpers fed by one `rand()` value
  | "prand", [[r, upper]] =>
    okG [outDy (uniform r.toNat), [Int.ofNat (randint r.toNat upper.toNat)], outDy (vOf r.toNat), outDy (tOf r.toNat)]
  -- one attempt: `pattempt nx ny px py r1 | rx | ry | c s` -> inGrid cx cy | near…
  | "pattempt", [[nx, ny, px, py, r1], rx, ry, [cm, ce, sm, se]] =>
    let env : Env := { nx := nx.toNat, ny := ny.toNat, maxAttempts := 1, rx := (dys rx).toArray, ry := (dys ry).toArray,
                       draws := #[], trig := #[] }
    let a := attempt env px.toNat py.toNat r1.toNat ⟨cm, ce⟩ ⟨sm, se⟩
    okG [[b2i a.inGrid, a.cx, a.cy], a.near.map Int.ofNat]
  | _, _ => "err BadOp"

end DirectVerif.Driver.C04Poisson
