import DirectVerif.Driver.Common
import DirectVerif.Model.Shapes
import DirectVerif.Model.ShapesChan
/-!
Line-protocol interpreter of the C17 shape model.

Network ops answer `ok <shape of hooked block 1> | <shape 2> | … | <final shape>` (spatial axes only) or
`err RuntimeError` / `err ValueError`, to be compared with what forward hooks record on the real network.
Hyper-parameters arrive through the protocol (read from the instantiated torch modules by the harness).
-/
namespace DirectVerif.Driver.C17
open DirectVerif DirectVerif.Driver DirectVerif.Shapes

def errName : Err → String
  | .runtime => "err RuntimeError"
  | .value => "err ValueError"

def ints (s : List Nat) : List Int := s.map Int.ofNat

def answer (r : Except Err State) : String :=
  match r with
  | .ok st => okG ((st.trace ++ [st.cur]).map ints)
  | .error e => errName e

def runOn (p : List Op) (dims : List Int) : String := answer (run p { cur := nats dims })

/-- full shapes `(N, C, *spatial)` at every hooked block and at the end -/
def fullAnswer (r : Except Err Full) : String :=
  match r with
  | .ok f => okG ((f.trace ++ [f.final]).map ints)
  | .error e => errName e

def fullOn (sp : List Op) (ch : List COp) (n c : Int) (dims : List Int) : String :=
  fullAnswer (fullRun sp ch n.toNat c.toNat (nats dims))

def unetP (g : List Int) : Option UnetP :=
  match g with
  | [ck, cp, pk, ps, tk, ts] => some ⟨ck.toNat, cp.toNat, pk.toNat, ps.toNat, tk.toNat, ts.toNat⟩
  | _ => none

def didnP (g : List Int) : Option DidnP :=
  match g with
  | [ck, cp, dk, ds, dp, r] => some ⟨ck.toNat, cp.toNat, dk.toNat, ds.toNat, dp.toNat, r.toNat⟩
  | _ => none

def blocks : List Int → Option (List Block)
  | [] => some []
  | d :: cin :: cout :: rest =>
    match blocks rest with
    | none => none
    | some bs =>
      let dom? : Option Dom := if d = 0 then some .image else if d = 1 then some .perCoil else if d = 2 then some .coilBatch else none
      dom?.map fun dom => ⟨dom, cin.toNat, cout.toNat⟩ :: bs
  | _ => none

def optShape (o : Option Shape) : String :=
  match o with
  | some s => okG [ints s]
  | none => "err RuntimeError"

def step (op : String) (gs : List (List Int)) : String :=
  match op, gs with
  -- whole networks -------------------------------------------------------------------------------
  | "unet", [[L], p, dims] =>
    match unetP p with
    | some P => runOn (unet P L.toNat) dims
    | none => "err BadOp"
  | "normunet", [[L], p, [groups, c], dims] =>
    match unetP p with
    | some P =>
      if groupReshapeOk groups.toNat c.toNat (nats dims) then runOn (normUnet P L.toNat) dims else "err RuntimeError"
    | none => "err BadOp"
  | "unet3d", [[L], p, dims] =>
    match unetP p with
    | some P => runOn (unet3d P L.toNat) dims
    | none => "err BadOp"
  | "normunet3d", [[L], p, [groups, c], dims] =>
    match unetP p with
    | some P =>
      if groupReshapeOk groups.toNat c.toNat (nats dims) then runOn (normUnet3d P L.toNat) dims else "err RuntimeError"
    | none => "err BadOp"
  | "mwcnn", [[S], [k, r], dims] => runOn (mwcnn ⟨k.toNat, r.toNat⟩ S.toNat) dims
  | "dub", [[e], p, dims] =>
    match didnP p with
    | some P => runOn (dub P (e != 0)) dims
    | none => "err BadOp"
  | "didn", [[ndubs, nconv, skip], p, dims] =>
    match didnP p with
    | some P => runOn (didn P ndubs.toNat nconv.toNat (skip != 0)) dims
    | none => "err BadOp"
  | "resnet", [[k, p, nblocks], dims] => runOn (resnet k.toNat p.toNat nblocks.toNat) dims
  | "convnet", [[k, p, bn, n], dims] => runOn (convNet k.toNat p.toNat (bn != 0) n.toNat) dims
  | "gru", [[repl, inorm, layers], [groups, c], dims] =>
    if groups != 0 && !(groupReshapeOk groups.toNat c.toNat (nats dims)) then "err RuntimeError"
    else runOn (gru (repl != 0) (inorm != 0) layers.toNat) dims
  -- whole networks, full shapes (batch, channels, spatial…): spatial program × channel program ------------------------
  | "unetF", [[L], p, [n, cin, cout, F], dims] =>
    match unetP p with
    | some P => fullOn (unet P L.toNat) (unetC cin.toNat cout.toNat F.toNat L.toNat) n cin dims
    | none => "err BadOp"
  | "mdunetF", [[L], p, [n, cin, cout, F], dims] =>
    match unetP p with
    | some P => fullOn (unet P L.toNat) (mdUnetC cin.toNat cout.toNat F.toNat L.toNat) n cin dims
    | none => "err BadOp"
  | "normunetF", [[L], p, [groups], [n, cin, cout, F], dims] =>
    match unetP p with
    | some P =>
      if groupReshapeOk groups.toNat cin.toNat (nats dims) && groupReshapeOk groups.toNat cout.toNat (nats dims) then
        fullOn (normUnet P L.toNat) (normUnetC cin.toNat cout.toNat F.toNat L.toNat) n cin dims
      else "err RuntimeError"
    | none => "err BadOp"
  | "unet3dF", [[L], p, [n, cin, cout, F], dims] =>
    match unetP p with
    | some P => fullOn (unet3d P L.toNat) (unetC cin.toNat cout.toNat F.toNat L.toNat) n cin dims
    | none => "err BadOp"
  | "normunet3dF", [[L], p, [groups], [n, cin, cout, F], dims] =>
    match unetP p with
    | some P =>
      if groupReshapeOk groups.toNat cin.toNat (nats dims) && groupReshapeOk groups.toNat cout.toNat (nats dims) then
        fullOn (normUnet3d P L.toNat) (normUnetC cin.toNat cout.toNat F.toNat L.toNat) n cin dims
      else "err RuntimeError"
    | none => "err BadOp"
  | "mwcnnF", [[S], [k, r], [n, cin, F, bn], dims] =>
    fullOn (mwcnn ⟨k.toNat, r.toNat⟩ S.toNat) (mwcnnC (bn != 0) cin.toNat F.toNat S.toNat) n cin dims
  | "dubF", [[e], p, [n, c], dims] =>
    match didnP p with
    | some P => fullOn (dub P (e != 0)) (dubC c.toNat (e != 0)) n c dims
    | none => "err BadOp"
  | "didnF", [[ndubs, nconv, skip], p, [n, cin, cout, c], dims] =>
    match didnP p with
    | some P =>
      fullOn (didn P ndubs.toNat nconv.toNat (skip != 0)) (didnC cin.toNat cout.toNat c.toNat ndubs.toNat nconv.toNat (skip != 0)) n cin dims
    | none => "err BadOp"
  | "resnetF", [[k, p, nblocks], [n, cin, cout, h, bn], dims] =>
    if nblocks ≤ 0 then "err BadOp"
    else fullOn (resnet k.toNat p.toNat nblocks.toNat) (resnetC cin.toNat cout.toNat h.toNat (bn != 0) (nblocks.toNat - 1)) n cin dims
  | "convnetF", [[k, p, bn, m], [n, cin, cout, h], dims] =>
    fullOn (convNet k.toNat p.toNat (bn != 0) m.toNat) (convNetC cin.toNat cout.toNat h.toNat (bn != 0) m.toNat) n cin dims
  | "gruF", [[repl, inorm, layers], [groups, c], [n, cin, h, cout], dims] =>
    if groups != 0 && !(groupReshapeOk groups.toNat c.toNat (nats dims) && groupReshapeOk groups.toNat cout.toNat (nats dims)) then
      "err RuntimeError"
    else fullOn (gru (repl != 0) (inorm != 0) layers.toNat) (gruChanFallback cin.toNat h.toNat cout.toNat layers.toNat) n cin dims
  -- parameters the theorems are stated for ------------------------------------------------------------
  | "stdparams", [[kind], p] =>
    let same : Bool :=
      if kind = 0 then unetP p == some UnetP.std
      else if kind = 1 then (match p with | [k, r] => (⟨k.toNat, r.toNat⟩ : MwP) == MwP.std | _ => false)
      else if kind = 2 then didnP p == some DidnP.std
      else false
    okG [[b2i same]]
  -- pad / crop kernels ----------------------------------------------------------------------------------
  | "pad16", [dims] =>
    -- NormUnetModel*.pad: per axis (mult, lo, hi), last axis first as in `w_pad + h_pad (+ z_pad)`
    okG [ints ((nats dims).map mult16), ints ((nats dims).reverse.flatMap fun n => [pad16Lo n, pad16Hi n])]
  | "unpad16", [orig, cur] => okG [ints (List.zipWith unpad16 (nats orig) (nats cur))]
  | "padeven", [dims] =>
    if (nats dims).all padEvenOk then okG [ints ((nats dims).map padEvenOut)] else "err RuntimeError"
  | "crop", [target, dims] => okG [ints (List.zipWith cropTo (nats target) (nats dims))]
  | "pow2", [[k], dims] =>
    okG [ints ((nats dims).map (padPow2 k.toNat)),
         ints ((nats dims).reverse.flatMap fun n => [pow2Lo k.toNat n, pow2Hi k.toNat n])]
  | "uppad", [skip, cur] =>
    -- UnetModel2d/3d up path: F.pad list `[0, p_last, 0, p_prev, …]`
    okG [ints ((List.zipWith upPad (nats skip) (nats cur)).reverse.flatMap fun p => [0, p])]
  | "dwt", [dims] => if (nats dims).all dwtOk then okG [ints ((nats dims).map dwtOut)] else "err RuntimeError"
  | "iwt", [[r], dims] => okG [ints ((nats dims).map (r.toNat * ·))]
  | "conv1", [[k, s, p, d], dims] =>
    if (nats dims).all (convOk k.toNat s.toNat p.toNat d.toNat) then
      okG [ints ((nats dims).map (convOut k.toNat s.toNat p.toNat d.toNat))] else "err RuntimeError"
  | "convt1", [[k, s, p], dims] =>
    if (nats dims).all (convTOk k.toNat s.toNat p.toNat) then
      okG [ints ((nats dims).map (convTOut k.toNat s.toNat p.toNat))] else "err RuntimeError"
  | "pool1", [[k, s], dims] =>
    if (nats dims).all (poolOk k.toNat s.toNat) then okG [ints ((nats dims).map (poolOut k.toNat s.toNat))]
    else "err RuntimeError"
  | "groupreshape", [[groups, c], dims] => okG [[b2i (groupReshapeOk groups.toNat c.toNat (nats dims))]]
  -- full shapes -------------------------------------------------------------------------------------------
  | "permute", [perm, shape] => okG [ints (permute (nats perm) (nats shape))]
  | "broadcast", [a, b] => optShape (broadcast (nats a) (nats b))
  | "coil2batch", [shape] => okG [ints (coilToBatch (nats shape)), ints (batchToCoil (shape.getD 0 0).toNat (shape.getD 1 0).toNat (coilToBatch (nats shape)))]
  | "unrolled", [[n, coil, iters], sp, pre, body] =>
    match blocks pre, blocks body with
    | some pre, some body =>
      okG ((unrolledCalls pre body iters.toNat n.toNat coil.toNat (nats sp)).flatMap fun c => [ints c.inp, ints c.out])
    | _, _ => "err BadOp"
  | _, _ => "err BadOp"

end DirectVerif.Driver.C17
