import DirectVerif.Driver.Common
import DirectVerif.Model.Sampler
/-!
Line-protocol interpreter of the sampler model (C13).

  chunks n k                                   -> groups = chunks of [0..n)
  seq    layout | world rank limit             -> indices | ids of the rank's volumes
  bvs    layout | world rank limit bs | ops    -> per op (0 = iter, 1 = len): iter -> batch lengths | indices ; len -> n
  bvsraw indices | starts | stops | bs | ops   -> same, on an arbitrary inner sampler
  concat sizes | bs | draws | stream_0 | …     -> one group per draw
  dist   size rank world count | perm_0 | …    -> first `count` indices of the rank's stream
-/
namespace DirectVerif.Driver.C13
open DirectVerif DirectVerif.Driver DirectVerif.Sampler

/-- `chunked[rank]` with Python's indexing (`none` = IndexError) -/
def pyIndex (len : Nat) (i : Int) : Option Nat :=
  let j := if i < 0 then i + len else i
  if 0 ≤ j ∧ j < len then some j.toNat else none

/-- construction of the sequential sampler: error kind or the rank's volumes -/
def seqVols (layout : List Int) (world rank limit : Int) : Except String (List Vol) :=
  if world = 0 then .error "ZeroDivisionError" else
  let k := world.toNat            -- range(negative) is empty
  match pyIndex k rank with
  | none => .error "IndexError"
  | some r => .ok (rankVols (nats layout) k r limit)

def fmtBatches (bb : List (List Nat)) : List (List Int) :=
  [bb.map fun b => (b.length : Int), bb.flatten.map Int.ofNat]

def runOps (b : BVS) (ops : List Int) : String :=
  let ops' : List Op := ops.map fun o => if o = 0 then Op.iter else Op.len
  if b.raises ∧ ops'.any (· == Op.iter) then "err TypeError" else
  okG ((b.run ops').flatMap fun
    | .batches bb => fmtBatches bb
    | .len n => [[(n : Int)]])

def step (op : String) (gs : List (List Int)) : String :=
  match op, gs with
  | "chunks", [[n, k]] =>
    if k = 0 then "err ZeroDivisionError" else
    if n < 0 then "err BadOp" else
    okG ((chunks (List.range n.toNat) k.toNat).map fun c => c.map Int.ofNat)
  | "seq", [layout, [world, rank, limit]] =>
    match seqVols layout world rank limit with
    | .error e => "err " ++ e
    | .ok vols => okG [(vols.flatMap Vol.indices).map Int.ofNat, vols.map fun v => (v.id : Int)]
  | "bvs", [layout, [world, rank, limit, bs], ops] =>
    match seqVols layout world rank limit with
    | .error e => "err " ++ e
    | .ok vols =>
      if bs < 0 then "err BadOp" else
      if bs = 0 ∧ !vols.isEmpty then "err ZeroDivisionError" else
      runOps (BVS.mk' vols bs.toNat) ops
  | "bvsraw", [indices, starts, stops, [bs], ops] =>
    if bs ≤ 0 ∨ starts.length ≠ stops.length then "err BadOp" else
    let vols : List Vol := (List.zip (nats starts) (nats stops)).mapIdx fun i (a, b) => ⟨i, a, b⟩
    let b : BVS := { BVS.mk' vols bs.toNat with indices := nats indices }
    runOps b ops
  | "concat", sizes :: [bs] :: draws :: streams =>
    if bs ≤ 0 then "err ValueError" else
    if sizes.any (· ≤ 0) then "err AssertionError" else
    let out := concatRun (nats sizes) bs.toNat (streams.map nats) (nats draws)
    if out.any Option.isNone then "err StopIteration" else
    okG (out.map fun o => (o.getD []).map Int.ofNat)
  | "dist", [size, rank, world, count] :: perms =>
    if size ≤ 0 then "err AssertionError" else
    if world ≤ 0 ∨ rank < 0 then "err ValueError" else
    okG [((distStream (perms.map nats) rank.toNat world.toNat).take count.toNat).map Int.ofNat]
  | _, _ => "err BadOp"

end DirectVerif.Driver.C13
