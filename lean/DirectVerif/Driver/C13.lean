import DirectVerif.Driver.Common
import DirectVerif.Model.Sampler
import DirectVerif.Model.C13Machine
/-!
Line-protocol interpreter of the sampler model (C13).

  chunks n k                                   -> groups = chunks of [0..n)
  seq    layout | world rank limit             -> indices | ids of the rank's volumes
  bvs    layout | world rank limit bs | ops    -> per op (0 = iter, 1 = len): iter -> batch lengths | indices ; len -> n
  bvsraw indices | starts | stops | bs | ops   -> same, on an arbitrary inner sampler
  concat sizes | bs | draws | stream_0 | …     -> one group per draw
  dist   size rank world count | perm_0 | …    -> first `count` indices of the rank's stream
  bvsm   layout | world rank limit bs mode | c0 a0 c1 a1 …   several live iterators over one BatchVolumeSampler:
         (code, arg) = (0,_) iter · (1,_) len · (2,h) next(it_h) · (3,h) abandon it_h; one group per op:
         handle | n | batch or -1 (StopIteration) | -3 (closed) | -2 (no such live iterator).  `mode` says how
         the harness built / iterated the real object (direct, Engine.build_batch_sampler, DataLoader); the
         model does not depend on it
  bvsmraw indices | starts | stops | bs | c0 a0 …            same on an arbitrary inner sampler
-/
namespace DirectVerif.Driver.C13
open DirectVerif DirectVerif.Driver DirectVerif.Sampler

/-- `chunked[rank]` with Python's indexing (`none` = IndexError) -/
def pyIndex (len : Nat) (i : Int) : Option Nat :=
  let j := if i < 0 then i + len else i
  if 0 ≤ j ∧ j < len then some j.toNat else none

/-- construction of the sequential sampler: error kind or the rank's volumes -/
def seqVols (layout : List Int) (world rank limit : Int) : Except String (List Vol) :=
  if world = 0 then .error "ZeroDivisionError" else
  let k := world.toNat            -- range(negative) is empty
  match pyIndex k rank with
  | none => .error "IndexError"
  | some r => .ok (rankVols (nats layout) k r limit)

def fmtBatches (bb : List (List Nat)) : List (List Int) :=
  [bb.map fun b => (b.length : Int), bb.flatten.map Int.ofNat]

def runOps (b : BVS) (ops : List Int) : String :=
  let ops' : List Op := ops.map fun o => if o = 0 then Op.iter else Op.len
  if b.raises ∧ ops'.any (· == Op.iter) then "err TypeError" else
  okG ((b.run ops').flatMap fun
    | .batches bb => fmtBatches bb
    | .len n => [[(n : Int)]])

def decodeOps : List Int → Option (List MOp)
  | [] => some []
  | [_] => none
  | c :: a :: rest =>
    match decodeOps rest with
    | none => none
    | some ops =>
      if a < 0 then none else
      if c = 0 then some (.iter :: ops) else if c = 1 then some (.len :: ops)
      else if c = 2 then some (.next a.toNat :: ops) else if c = 3 then some (.abandon a.toNat :: ops) else none

def fmtOut : MOut → List Int
  | .handle h => [(h : Int)]
  | .batch b => b.map Int.ofNat
  | .stop => [-1]
  | .len n => [(n : Int)]
  | .closed => [-3]
  | .bad => [-2]

def runMachine (b : BVS) (ops : List Int) : String :=
  match decodeOps ops with
  | none => "err BadOp"
  | some ops' =>
    -- `None - 1` (TypeError) is evaluated by the first `next` that sees an index while there is no volume end
    if b.raises ∧ ops'.any (fun o => match o with | .next _ => true | _ => false) then "err TypeError" else
    okG (((Machine.init b).run ops').map fmtOut)

def step (op : String) (gs : List (List Int)) : String :=
  match op, gs with
  | "bvsm", [layout, [world, rank, limit, bs, _mode], ops] =>
    match seqVols layout world rank limit with
    | .error e => "err " ++ e
    | .ok vols =>
      if bs < 0 then "err BadOp" else
      if bs = 0 ∧ !vols.isEmpty then "err ZeroDivisionError" else
      runMachine (BVS.mk' vols bs.toNat) ops
  | "bvsmraw", [indices, starts, stops, [bs], ops] =>
    if bs ≤ 0 ∨ starts.length ≠ stops.length then "err BadOp" else
    let vols : List Vol := (List.zip (nats starts) (nats stops)).mapIdx fun i (a, b) => ⟨i, a, b⟩
    let b : BVS := { BVS.mk' vols bs.toNat with indices := nats indices }
    runMachine b ops
  | "chunks", [[n, k]] =>
    if k = 0 then "err ZeroDivisionError" else
    if n < 0 then "err BadOp" else
    okG ((chunks (List.range n.toNat) k.toNat).map fun c => c.map Int.ofNat)
  | "seq", [layout, [world, rank, limit]] =>
    match seqVols layout world rank limit with
    | .error e => "err " ++ e
    | .ok vols => okG [(vols.flatMap Vol.indices).map Int.ofNat, vols.map fun v => (v.id : Int)]
  | "bvs", [layout, [world, rank, limit, bs], ops] =>
    match seqVols layout world rank limit with
    | .error e => "err " ++ e
    | .ok vols =>
      if bs < 0 then "err BadOp" else
      if bs = 0 ∧ !vols.isEmpty then "err ZeroDivisionError" else
      runOps (BVS.mk' vols bs.toNat) ops
  | "bvsraw", [indices, starts, stops, [bs], ops] =>
    if bs ≤ 0 ∨ starts.length ≠ stops.length then "err BadOp" else
    let vols : List Vol := (List.zip (nats starts) (nats stops)).mapIdx fun i (a, b) => ⟨i, a, b⟩
    let b : BVS := { BVS.mk' vols bs.toNat with indices := nats indices }
    runOps b ops
  | "concat", sizes :: [bs] :: draws :: streams =>
    if bs ≤ 0 then "err ValueError" else
    if sizes.any (· ≤ 0) then "err AssertionError" else
    let out := concatRun (nats sizes) bs.toNat (streams.map nats) (nats draws)
    if out.any Option.isNone then "err StopIteration" else
    okG (out.map fun o => (o.getD []).map Int.ofNat)
  | "dist", [size, rank, world, count] :: perms =>
    if size ≤ 0 then "err AssertionError" else
    if world ≤ 0 ∨ rank < 0 then "err ValueError" else
    okG [((distStream (perms.map nats) rank.toNat world.toNat).take count.toNat).map Int.ofNat]
  | _, _ => "err BadOp"

end DirectVerif.Driver.C13
