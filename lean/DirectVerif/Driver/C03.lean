import DirectVerif.Driver.Common
import DirectVerif.Model.Mask
/-!
Line-protocol interpreter of the C03 model.

Values travel as `(tag, payload)` pairs: `0 _` = +0, `1 _` = −0, `2 q` = finite non-zero integer
value `q`, `3 _` = +∞, `4 _` = −∞ (the harness derives the tags from the float32 bit patterns).
Masks: group `[kind]` with kind 0 = integer/bool mask (plain integers), 1 = float mask (pairs),
2 = `None` (apply_padding only).
-/
namespace DirectVerif.Driver.C03
open DirectVerif DirectVerif.Driver DirectVerif.Mask

def decodeVals : List Int → Option (List FVal)
  | [] => some []
  | [_] => none
  | t :: p :: rest =>
    let v : Option FVal :=
      if t = 0 then some .posZero else if t = 1 then some .negZero
      else if t = 2 then (if p = 0 then none else some (.fin p))
      else if t = 3 then some .posInf else if t = 4 then some .negInf else none
    match v, decodeVals rest with
    | some v, some vs => some (v :: vs)
    | _, _ => none

def encodeVals (vs : List FVal) : List Int :=
  vs.flatMap fun
    | .posZero => [0, 0]
    | .negZero => [1, 0]
    | .fin q => [2, q]
    | .posInf => [3, 0]
    | .negInf => [4, 0]

def mkV (shape data : List Int) : Option (Tensor FVal) :=
  match decodeVals data with
  | none => none
  | some vs =>
    let t : Tensor FVal := { shape := nats shape, data := vs }
    if t.wellFormed && shape.all (· ≥ 0) then some t else none

def okV (t : Tensor FVal) : String :=
  if t.data.any (fun v => !v.wf) then "err NaN"
  else "ok " ++ fmtGroups [t.shape.map Int.ofNat, encodeVals t.data]

def resStr (r : Res (Tensor FVal)) : String :=
  match r with
  | .ok o => okV o
  | .assertionError => "err AssertionError"
  | .runtimeError => "err RuntimeError"

/-- dispatch on the mask element type -/
def withMask (kind : Int) (shape data : List Int) (onInt : Tensor Int → String)
    (onFloat : Tensor FVal → String) : String :=
  if kind = 0 then
    match mkT shape data with
    | some m => if shape.all (· ≥ 0) then onInt m else "err BadOp"
    | none => "err BadOp"
  else if kind = 1 then
    match mkV shape data with
    | some m => onFloat m
    | none => "err BadOp"
  else "err BadOp"

def maskStr {μ} [Inhabited μ] [MaskVal μ] (k : Tensor FVal) (m : Tensor μ) : String :=
  resStr (applyMask m k)

def fwdStr {μ} [Inhabited μ] [MaskVal μ] (p : Tensor FVal) (m : Tensor μ) : String :=
  -- forward_operator ∘ expand_operator is supplied by its value `p` (computed by the real code)
  match fwdOp id (fun _ => p) m { shape := [0], data := [] } with
  | some o => okV o
  | none => resStr (applyMask m p)

def bwdStr {μ} [Inhabited μ] [MaskVal μ] (y : Tensor FVal) (m : Tensor μ) : String :=
  -- observed at the input of the (recording, identity) backward operator; reduce := id
  match bwdOp id id m y with
  | some o => okV o
  | none => resStr (applyMask m y)

def aStarStr {μ} [Inhabited μ] [MaskVal μ] (y : Tensor FVal) (m : Tensor μ) : String :=
  match aStarOp id id m y with
  | some o => okV o
  | none => "err RuntimeError"

def loglikStr {μ} [Inhabited μ] [MaskVal μ] (p y : Tensor FVal) (s : Int) (m : Tensor μ) : String :=
  if p.shape ≠ y.shape then "err BadOp" else
  match loglikError m p y s with
  | some o => okV o
  | none => "err RuntimeError"

def maskFuncStr {μ} [Inhabited μ] [MaskVal μ] (enc : Tensor μ → List (List Int)) (k : Tensor FVal)
    (seed : Option Int) (m : Tensor μ) : String :=
  -- the mask function returns the supplied tensor and the request it received is reported
  match applyMaskFunc (fun _ _ => m) k seed with
  | .ok (o, mk) =>
    if o.data.any (fun v => !v.wf) then "err NaN" else
    "ok " ++ fmtGroups ([o.shape.map Int.ofNat, encodeVals o.data] ++ enc mk ++
      [(k.shape.drop 1).map Int.ofNat, seed.toList])
  | .assertionError => "err AssertionError"
  | .runtimeError => "err RuntimeError"

def padStr {μ} [Inhabited μ] [MaskVal μ] (d : Tensor FVal) (p : Tensor μ) : String :=
  resStr (applyPadding (some p) d)

def pairUp : List (List Int) → Option (List (List Int × List Int))
  | [] => some []
  | [_] => none
  | a :: b :: rest => (pairUp rest).map ((a, b) :: ·)

def modResStr (rs : List ModRes) : String :=
  match rs.find? (fun r => match r with | .ok _ => false | _ => true) with
  | some .valueError => "err ValueError"
  | some .assertionError => "err AssertionError"
  | some .runtimeError => "err RuntimeError"
  | _ =>
    let outs := rs.filterMap fun r => match r with | .ok o => some o | _ => none
    if outs.any (fun o => o.data.any (fun v => !v.wf)) then "err NaN"
    else "ok " ++ fmtGroups (outs.flatMap fun o => [o.shape.map Int.ofNat, encodeVals o.data])

/-- a history of `ApplyMaskModule` applications on one sample dict -/
def modHist (kind : Int) (k : Tensor FVal) (t : Option (Tensor FVal)) (masks : List (List Int × List Int)) :
    String :=
  if kind = 0 then
    match masks.mapM (fun (ms, md) => if ms.all (· ≥ 0) then mkT ms md else none) with
    | some ms => modResStr (moduleHistory k t ms)
    | none => "err BadOp"
  else if kind = 1 then
    match masks.mapM (fun (ms, md) => mkV ms md) with
    | some ms => modResStr (moduleHistory k t ms)
    | none => "err BadOp"
  else "err BadOp"


/-- integer (bool) tensor from two groups, `none` when ill-formed -/
def mkI (shape data : List Int) : Option (Tensor Int) :=
  if shape.all (· ≥ 0) then mkT shape data else none

def optI (flag : Int) (shape data : List Int) : Option (Option (Tensor Int)) :=
  if flag = 0 then some none else (mkI shape data).map some

def optStr (r : Option (Tensor FVal)) : String :=
  match r with
  | some o => okV o
  | none => "err RuntimeError"

/-- `-1` encodes a `None` entry of `CreateSamplingMask(shape=…)` -/
def decodeShapeOpt (flag : Int) (vals : List Int) : Option (List (Option Nat)) :=
  if flag = 0 then none else some (vals.map fun v => if v < 0 then none else some v.toNat)

def pipelineStr (opt : Option (List (Option Nat))) (useSeed : Bool) (fn : List Int) (m : Tensor FVal)
    (pad : Option (Tensor Int)) (k : Tensor FVal) : String :=
  match createMaskShape opt k.shape with
  | none => "err IndexError"
  | some shp =>
    if k.shape.getLast? ≠ some 2 then "err AssertionError" else
    match pipelineMasked (fun _ _ => m) opt useSeed fn pad k with
    | none => "err RuntimeError"
    | some (o, mk) =>
      if o.data.any (fun v => !v.wf) then "err NaN" else
      "ok " ++ fmtGroups [o.shape.map Int.ofNat, encodeVals o.data, mk.shape.map Int.ofNat, encodeVals mk.data,
        shp.map Int.ofNat, [b2i (seedOf useSeed fn).isSome], (seedOf useSeed fn).getD []]

def step (op : String) (gs : List (List Int)) : String :=
  match op, gs with
  | "mask", [[kind], ms, md, ks, kd] =>
    match mkV ks kd with
    | some k => withMask kind ms md (maskStr k) (maskStr k)
    | none => "err BadOp"
  | "maskfunc", [[kind], ms, md, ks, kd, seed] =>
    match mkV ks kd with
    | some k =>
      let sd : Option Int := seed.head?
      withMask kind ms md
        (maskFuncStr (fun t => [t.shape.map Int.ofNat, t.data]) k sd)
        (maskFuncStr (fun t => [t.shape.map Int.ofNat, encodeVals t.data]) k sd)
    | none => "err BadOp"
  | "pad", [[kind], ps, pd, ds, dd] =>
    match mkV ds dd with
    | some d =>
      if kind = 2 then resStr (applyPadding (none : Option (Tensor Int)) d)
      else withMask kind ps pd (padStr d) (padStr d)
    | none => "err BadOp"
  | "fwd", [[kind], ms, md, ps, pd] =>
    match mkV ps pd with
    | some p => withMask kind ms md (fwdStr p) (fwdStr p)
    | none => "err BadOp"
  | "bwd", [[kind], ms, md, ys, yd] =>
    match mkV ys yd with
    | some y => withMask kind ms md (bwdStr y) (bwdStr y)
    | none => "err BadOp"
  | "astar", [[kind], ms, md, ys, yd] =>
    match mkV ys yd with
    | some y => withMask kind ms md (aStarStr y) (aStarStr y)
    | none => "err BadOp"
  | "modhist", [kind] :: ks :: kd :: [hasT] :: ts :: td :: rest =>
    match mkV ks kd, pairUp rest with
    | some k, some masks =>
      if hasT = 0 then modHist kind k none masks
      else match mkV ts td with
        | some t => modHist kind k (some t) masks
        | none => "err BadOp"
    | _, _ => "err BadOp"
  | "modmissing", [[which], ks, kd] =>
    match mkV ks kd with
    | some k =>
      let m : Tensor Int := { shape := [], data := [1] }
      let s : Sample Int := if which = 0 then { input := none, mask := some m, target := none }
                            else { input := some k, mask := none, target := none }
      modResStr [applyMaskModule s]
    | none => "err BadOp"
  | "harddc", [ms, md, ys, yd, ps, pd, [hasPad], pads, padd, [hasT], ts, td] =>
    match mkI ms md, mkV ys yd, mkV ps pd, optI hasPad pads padd, optI hasT ts td with
    | some m, some y, some p, some pad, some tgt => optStr (sslOutput m y p pad tgt)
    | _, _, _, _, _ => "err BadOp"
  | "pipeline", [[optFlag], optVals, [useSeed], fn, ms, md, [hasPad], pads, padd, ks, kd] =>
    match mkV ms md, optI hasPad pads padd, mkV ks kd with
    | some m, some pad, some k => pipelineStr (decodeShapeOpt optFlag optVals) (useSeed != 0) fn m pad k
    | _, _, _ => "err BadOp"
  | "acsmul", [ms, md, ks, kd] =>
    match mkI ms md, mkV ks kd with
    | some m, some k => resStr (acsKspace m k)
    | _, _ => "err BadOp"
  | "maskhist", gs =>
    -- a call history on one persistent object: groups are (mask shape, mask data, k shape, k data) per call
    let rec parse : List (List Int) → Option (List (Tensor Int × Tensor FVal))
      | [] => some []
      | ms :: md :: ks :: kd :: rest =>
        match mkI ms md, mkV ks kd, parse rest with
        | some m, some k, some tl => some ((m, k) :: tl)
        | _, _, _ => none
      | _ => none
    match parse gs with
    | none => "err BadOp"
    | some calls =>
      let rs := maskHistory calls
      match rs.find? (fun r => match r with | .ok _ => false | _ => true) with
      | some r => resStr r
      | none =>
        let outs := rs.filterMap fun r => match r with | .ok o => some o | _ => none
        if outs.any (fun o => o.data.any (fun v => !v.wf)) then "err NaN"
        else "ok " ++ fmtGroups (outs.flatMap fun o => [o.shape.map Int.ofNat, encodeVals o.data])
  | "bshape", [a, b] =>
    -- numpy broadcast of two shapes (the index arithmetic all theorems rest on), tied to np.broadcast_shapes
    if a.any (· < 0) || b.any (· < 0) then "err BadOp" else
    match bShapeR (nats a).reverse (nats b).reverse with
    | some s => okG [s.reverse.map Int.ofNat]
    | none => "err ValueError"
  | "bindex", [src, out] =>
    -- for every flat output position: the flat source offset read under broadcasting (np.broadcast_to of arange)
    if src.any (· < 0) || out.any (· < 0) then "err BadOp" else
    let sR := (nats src).reverse
    let oR := (nats out).reverse
    if bShapeR sR oR ≠ some oR then "err ValueError" else
    okG [(List.range (prodR oR)).map fun fl => Int.ofNat (ravelR sR (bIdxR sR (unravelR oR fl)))]
  | "unravel", [shape, [fl]] =>
    if shape.any (· < 0) || fl < 0 then "err BadOp" else
    okG [(unravelR (nats shape).reverse fl.toNat).reverse.map Int.ofNat]
  | "loglik", [[kind], ms, md, ps, pd, ys, yd, [s]] =>
    match mkV ps pd, mkV ys yd with
    | some p, some y => withMask kind ms md (loglikStr p y s) (loglikStr p y s)
    | _, _ => "err BadOp"
  | _, _ => "err BadOp"

end DirectVerif.Driver.C03
