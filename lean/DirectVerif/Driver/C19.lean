import DirectVerif.Driver.Common
import DirectVerif.Model.DataConsistency
/-!
Line-protocol interpreter of the C19 model (`MRILogLikelihood`, `ConjGrad`) over exact Gaussian
rationals.

Problem groups (shared prefix of every operation after the header group):
  `F` (2n² ints, re/im interleaved, row-major) | `[fden]` | `Bw` (2n²) | `[bden]` | `S` (2cn) | `mask` (n or cn)
matrices are `ints / den`.  Answers: `ok D | ints` = the rational vector `ints / D` with `D` the
least common denominator (`D = 1` for an all-integer vector).
-/
namespace DirectVerif.Driver.C19
open DirectVerif DirectVerif.Driver DirectVerif.DataConsistency

/-- `[re0, im0, re1, im1, …] / den` (complex-last layout) -/
def vecLast (xs : List Int) (den : Int) : Vec :=
  let a := xs.toArray
  (Array.range (a.size / 2)).map fun i =>
    ⟨Q.norm (a[2 * i]! * den.sign) den.natAbs, Q.norm (a[2 * i + 1]! * den.sign) den.natAbs⟩

/-- `[re0, re1, …, im0, im1, …]` (complex-first layout `(2, H, W)` of `input_image`) -/
def vecFirst (xs : List Int) : Vec :=
  let a := xs.toArray
  let n := a.size / 2
  (Array.range n).map fun i => GQ.ofInts a[i]! a[n + i]!

def lcmDen (v : Vec) : Nat := v.foldl (fun acc g => Nat.lcm (Nat.lcm acc g.re.den) g.im.den) 1

def scaled (q : Q) (d : Nat) : Int := q.num * ((d / q.den : Nat) : Int)

def okLast (v : Vec) : String :=
  let d := lcmDen v
  okG [[(d : Int)], v.toList.flatMap fun g => [scaled g.re d, scaled g.im d]]

def okFirst (v : Vec) : String :=
  let d := lcmDen v
  okG [[(d : Int)], (v.toList.map fun g => scaled g.re d) ++ (v.toList.map fun g => scaled g.im d)]

def mkProblem (n c : Nat) (f : List Int) (fden : Int) (bw : List Int) (bden : Int) (s mask : List Int) :
    Option Problem :=
  if n = 0 ∨ c = 0 ∨ fden = 0 ∨ bden = 0 then none
  else if f.length ≠ 2 * n * n ∨ bw.length ≠ 2 * n * n ∨ s.length ≠ 2 * c * n then none
  else if mask.length ≠ n ∧ mask.length ≠ c * n then none
  else some { n := n, c := c, F := vecLast f fden, Bw := vecLast bw bden, S := vecLast s 1,
              mask := mask.toArray }

def updateOf : Int → Option Update
  | 0 => some .FR | 1 => some .PRP | 2 => some .DY | 3 => some .BAN | _ => none

def qOf (num den : Int) : Q := Q.norm (num * den.sign) den.natAbs

def step (op : String) (gs : List (List Int)) : String :=
  match op, gs with
  | "loglik", [[n, c, cy, xc], f, [fden], bw, [bden], s, mask, x, y, [snum, sden]] =>
    match mkProblem n.toNat c.toNat f fden bw bden s mask with
    | none => "err BadOp"
    | some P =>
      -- `complex_multiplication` asserts a trailing axis of size 2 on the permuted image
      if xc ≠ 2 then "err AssertionError"
      else if x.length ≠ 2 * P.n ∨ sden = 0 then "err BadOp"
      -- torch refuses to broadcast a coil axis of a different size (sizes ≥ 2)
      else if cy ≠ c then (if cy = 1 ∨ c = 1 then "err BadOp" else "err ShapeError")
      else if y.length ≠ 2 * P.c * P.n then "err BadOp"
      else
        let sc : GQ := ⟨qOf snum sden, Q.zero⟩
        okFirst (loglik P.ops sc (vecFirst x) (vecLast y 1))
  | "astar", [[n, c], f, [fden], bw, [bden], s, mask, y] =>
    match mkProblem n.toNat c.toNat f fden bw bden s mask with
    | none => "err BadOp"
    | some P => if y.length ≠ 2 * P.c * P.n then "err BadOp" else okLast (aStar P.ops (vecLast y 1))
  | "astara", [[n, c, xc], f, [fden], bw, [bden], s, mask, x] =>
    match mkProblem n.toNat c.toNat f fden bw bden s mask with
    | none => "err BadOp"
    | some P =>
      -- `expand_operator` asserts a trailing axis of size 2
      if xc ≠ 2 then "err AssertionError"
      else if x.length ≠ 2 * P.n then "err BadOp" else okLast (aStarA P.ops (vecLast x 1))
  | "bop", [[n, c], f, [fden], bw, [bden], s, mask, x, [lnum, lden]] =>
    match mkProblem n.toNat c.toNat f fden bw bden s mask with
    | none => "err BadOp"
    | some P =>
      if x.length ≠ 2 * P.n ∨ lden = 0 then "err BadOp"
      else okLast (bOp P.ops ⟨qOf lnum lden, Q.zero⟩ (vecLast x 1))
  | "cg", [[n, c, iters, ut], f, [fden], bw, [bden], s, mask, x0, y, z, [lnum, lden], [tnum, tden]] =>
    match mkProblem n.toNat c.toNat f fden bw bden s mask, updateOf ut with
    | some P, some u =>
      if x0.length ≠ 2 * P.n ∨ z.length ≠ 2 * P.n ∨ y.length ≠ 2 * P.c * P.n ∨ lden = 0 ∨ tden = 0
      then "err BadOp"
      else
        okLast (cg P.ops u iters.toNat (stopQ (qOf tnum tden)) ⟨qOf lnum lden, Q.zero⟩
          (vecLast x0 1) (vecLast y 1) (vecLast z 1))
    | _, _ => "err BadOp"
  | "forward", [[n, c, iters, ut], f, [fden], bw, [bden], s, mask, y, z, [lnum, lden], [tnum, tden]] =>
    match mkProblem n.toNat c.toNat f fden bw bden s mask, updateOf ut with
    | some P, some u =>
      if z.length ≠ 2 * P.n ∨ y.length ≠ 2 * P.c * P.n ∨ lden = 0 ∨ tden = 0 then "err BadOp"
      else
        okLast (conjGradForward P.ops u iters.toNat (stopQ (qOf tnum tden)) ⟨qOf lnum lden, Q.zero⟩
          (vecLast y 1) (vecLast z 1))
    | _, _ => "err BadOp"
  | "site", [[n, c, code], f, [fden], bw, [bden], s, mask, g1, g2, g3] =>
    -- the forms of the phase-2 sites (see `Bridge/C19.lean`), all in the complex-last layout
    match mkProblem n.toNat c.toNat f fden bw bden s mask with
    | none => "err BadOp"
    | some P =>
      let o := P.ops
      let ox := P.opsX
      let img (g : List Int) : Option Vec := if g.length = 2 * P.n then some (vecLast g 1) else none
      let ksp (g : List Int) : Option Vec := if g.length = 2 * P.c * P.n then some (vecLast g 1) else none
      match code, img g1, ksp g1, ksp g2, ksp g3 with
      | 0, _, some k, some y, _ => okLast (softDC o k y)
      | 1, _, some k, _, _ => okLast (sense o k)
      | 2, some x, _, _, _ => okLast (feOp o x)
      | 3, some x, _, _, _ => okLast (aOp o x)
      | 4, _, some k, _, _ => okLast (aStar o k)
      | 5, some x, _, some y, _ => okLast (dcGradTwice o x y)
      | 6, some x, _, some y, _ => okLast (dcGradAfter o x y)
      | 7, some x, _, some y, _ => okLast (hardDC ox x y)
      | 8, some x, _, some y, _ => okLast (sensGrad ox x y)
      | 9, some x, _, some k, some y => okLast (cirimKspace o x k y)
      | 10, some x, _, _, _ => okLast (ox.maskC (feOp o x))
      | _, _, _, _, _ => "err BadOp"
  | "cgbatch", [n, c, nb, iters, ut] :: f :: [fden] :: bw :: [bden] :: [lnum, lden] :: [tnum, tden] :: rest =>
    -- per sample five groups: S | mask | x0 | y | z
    match updateOf ut with
    | none => "err BadOp"
    | some u =>
      if rest.length ≠ 5 * nb.toNat ∨ lden = 0 ∨ tden = 0 then "err BadOp" else
      let samples : List (Option (Sample GQ Vec Vec)) := (List.range nb.toNat).map fun b =>
        match rest.drop (5 * b) with
        | s :: mask :: x0 :: y :: z :: _ =>
          match mkProblem n.toNat c.toNat f fden bw bden s mask with
          | some P =>
            if x0.length ≠ 2 * P.n ∨ z.length ≠ 2 * P.n ∨ y.length ≠ 2 * P.c * P.n then none
            else some { o := P.ops, x0 := vecLast x0 1, y := vecLast y 1, z := vecLast z 1 }
          | none => none
        | _ => none
      match samples.mapM id with
      | none => "err BadOp"
      | some ss =>
        let lam : GQ := ⟨qOf lnum lden, Q.zero⟩
        let tol := qOf tnum tden
        let lo := cgBatch u iters.toNat (fun rrs => (stopQB tol rrs).getD false) lam ss
        let hi := cgBatch u iters.toNat (fun rrs => (stopQB tol rrs).getD true) lam ss
        if lo != hi then "err Borderline" else okLast (lo.foldl (· ++ ·) #[])
  | _, _ => "err BadOp"

end DirectVerif.Driver.C19
