import DirectVerif.Driver.Common
import DirectVerif.Model.MaskInterior
import DirectVerif.Driver.C04Poisson
/-!
Line-protocol interpreter of `Model/MaskGeom.lean` (shared by C04 and C06).

Boolean rows travel bit-packed: a row of `cols` booleans is the natural number `Σ b_j 2^j`
(bit `j` = column `j`).
-/
namespace DirectVerif.Driver.C04
open DirectVerif DirectVerif.Driver DirectVerif.MaskGeom

def unpack (cols : Nat) (v : Int) : List Bool := (List.range cols).map fun j => v.toNat.testBit j
def pack (row : List Bool) : Int :=
  Int.ofNat (row.foldr (fun b acc => 2 * acc + (if b then 1 else 0)) 0)
def bits (row : List Bool) : List Int := row.map b2i

def modeOf : Int → Option Mode
  | 0 => some .static | 1 => some .dynamic | 2 => some .multislice | _ => none
def modeIdx : Mode → Int
  | .static => 0 | .dynamic => 1 | .multislice => 2

def genOf (i : Int) : Option Gen := Gen.all[i.toNat]?

def errS (e : Err) : String := "err " ++ e.name

/-- a boolean tensor as `shape | packed rows` (rows of the second-last axis … the last axis of the
real tensor has size one, so rows have `cols` entries) -/
def okMask (cols : Nat) (t : Tensor Bool) : String :=
  okG [t.shape.map Int.ofNat, (chunksOf cols t.data).map pack]

def specOf (g : List Int) : Option AcsSpec :=
  match g with
  | [0, l] => some (.lines l)
  | [1, r] => some (.disc r)
  | 2 :: thr => some (.search thr)
  | _ => none

/-- interior patterns from packed rows -/
def interiorOf (fam : Family) (rows cols : Nat) (packed : List Int) : List (List Bool) :=
  match fam with
  | .line | .ktLine => packed.map (unpack cols)
  | .disc => if rows = 0 then [] else (chunksOf rows packed).map fun fr => (fr.map (unpack cols)).flatten

def runAssemble (g : Gen) (m : Mode) (shape : List Nat) (spec : AcsSpec) (racs : Bool)
    (interior : List (List Bool)) : String :=
  match assemble g m shape spec racs interior with
  | .ok t => okMask (colsOf shape) t
  | .error e => errS e

def opGen (hdr shape specG packed : List Int) : String :=
  match hdr with
  | [gid, mi, racs] =>
    match genOf gid, modeOf mi, specOf specG with
    | some g, some m, some spec =>
      let shp := nats shape
      let m := g.effectiveMode m
      -- when the rank checks fail no pattern is looked at
      if shp.length < neededRank m then runAssemble g m shp spec (racs != 0) [] else
      let rows := rowsOf shp
      let cols := colsOf shp
      let needInterior := racs == 0 || (match spec with | .search _ => true | _ => false)
      let interior := if needInterior then interiorOf g.family rows cols packed
                      else List.replicate (framesOf m shp) []
      runAssemble g m shp spec (racs != 0) interior
    | _, _, _ => "err BadOp"
  | _ => "err BadOp"

/-- Magic generators: cap, adjusted acceleration and the offset pattern are computed by the model -/
def opGenMagic (hdr shape par offsets : List Int) : String :=
  match hdr, par with
  | [gid, mi, racs], [lRaw, target] =>
    match genOf gid, modeOf mi with
    | some g, some m =>
      let shp := nats shape
      if shp.length < neededRank m then runAssemble g m shp (.lines 0) (racs != 0) [] else
      let cols := colsOf shp
      let l := magicCap lRaw target
      let adj := magicAdjusted cols target l
      if racs != 0 then
        runAssemble g m shp (.lines l) true (List.replicate (framesOf m shp) [])
      else if adj = 0 then "err ValueError"     -- `rng.randint(0, high=0)`
      else runAssemble g m shp (.lines l) false (offsets.map fun o => magicPattern cols adj o.toNat)
    | _, _ => "err BadOp"
  | _, _ => "err BadOp"

/-- Gaussian generators: the rejection loop runs in the model on the candidate stream of each frame;
the stream must be consumed exactly. -/
def opGenGauss (hdr shape par : List Int) (cands : List (List Int)) : String :=
  match hdr, par with
  | [gid, mi, racs], [a, need] =>
    match genOf gid, modeOf mi with
    | some g, some m =>
      let shp := nats shape
      let spec : AcsSpec := if g.family = .disc then .disc a else .lines a
      if shp.length < neededRank m then runAssemble g m shp spec (racs != 0) [] else
      let rows := rowsOf shp
      let cols := colsOf shp
      if racs != 0 then runAssemble g m shp spec true (List.replicate (framesOf m shp) []) else
      match acsFrame g.family rows cols spec [] with
      | none => "err ValueError"
      | some acs =>
        let runs := cands.map fun cs => (gaussLoop need.toNat acs cs, gaussConsumed need.toNat acs cs, cs.length)
        if runs.any (fun r => r.1.2 != 0 || r.2.1 != r.2.2) then "err Stuck"
        else runAssemble g m shp spec false (runs.map fun r => r.1.1)
    | _, _ => "err BadOp"
  | _, _ => "err BadOp"

/-- KtUniform / KtGaussian1D: the k-t sample array is computed by the model from the comb index lists /
the recorded `rng.choice` draws -/
def opGenKt (uniform : Bool) (hdr shape par : List Int) (groups : List (List Int)) : String :=
  match hdr, par with
  | [gid, mi, racs], [l] =>
    match genOf gid, modeOf mi with
    | some g, some m =>
      let shp := nats shape
      let m := g.effectiveMode m
      if shp.length < neededRank m then runAssemble g m shp (.lines l) (racs != 0) [] else
      let cols := colsOf shp
      let nt := framesOf m shp
      if racs != 0 then runAssemble g m shp (.lines l) true (List.replicate nt []) else
      -- the ACS block is built (and may raise) before the interior
      match acsFrame g.family (rowsOf shp) cols (.lines l) [] with
      | none => "err ValueError"
      | some _ =>
      let frames : Option (List (List Bool)) :=
        if uniform then
          match groups with
          | [pIdx, tIdx] => (ktUniformFlat true cols nt pIdx tIdx).map (ktUniformFrames cols nt)
          | _ => none
        else (ktGaussianFlat cols nt groups).map (ktGaussianFrames cols nt)
      match frames with
      | none => "err IndexError"
      | some fr => runAssemble g m shp (.lines l) false fr
    | _, _ => "err BadOp"
  | _, _ => "err BadOp"

/-- Radial / Spiral: per frame the flat list of perimeter positions (`M` per nested square) -/
def opGenCircus (hdr shape specG par : List Int) (frames : List (List Int)) : String :=
  match hdr, par with
  | [gid, mi, racs], [mPer] =>
    match genOf gid, modeOf mi, specOf specG with
    | some g, some m, some spec =>
      let shp := nats shape
      if shp.length < neededRank m then runAssemble g m shp spec (racs != 0) [] else
      let rows := rowsOf shp
      let cols := colsOf shp
      let needInterior := racs == 0 || (match spec with | .search _ => true | _ => false)
      if !needInterior then runAssemble g m shp spec true (List.replicate (framesOf m shp) []) else
      let nsq := circusSide rows cols / 2
      let pats := frames.map fun fl =>
        circusFrame rows cols (if mPer = 0 then List.replicate nsq [] else chunksOf mPer.toNat (nats fl))
      if pats.any Option.isNone then "err IndexError"
      else runAssemble g m shp spec (racs != 0) (pats.filterMap id)
    | _, _, _ => "err BadOp"
  | _, _ => "err BadOp"

def verdictOf : Int → Verdict
  | 0 => .within | 1 => .below | _ => .above

/-- grid points visited by the bisection when the k-th evaluation answers `vs[k]` (default `above`) -/
def scriptPoints (mid : Nat → Nat → Nat) : (fuel : Nat) → (lo hi : Nat) → List Verdict → List (Nat × Verdict)
  | 0, _, _, _ => []
  | fuel + 1, lo, hi, vs =>
    if lo < hi then
      let m := mid lo hi
      let v := vs.headD .above
      match v with
      | .within => [(m, v)]
      | .below => if m = lo ∨ m = hi then [(m, v)] else (m, v) :: scriptPoints mid fuel m hi vs.tail
      | .above => if m = lo ∨ m = hi then [(m, v)] else (m, v) :: scriptPoints mid fuel lo m vs.tail
    else []

def step (op : String) (gs : List (List Int)) : String :=
  match op, gs with
  | "center_mask", [[n, l]] => okG [bits (centerMask n.toNat l)]
  | "zero_pad_row", [[n, l]] =>
    match zeroPadRow n.toNat l.toNat with
    | some r => okG [bits r]
    | none => "err ValueError"
  | "zero_pad_1d", [[target], data] =>
    match zeroPad1d 0 data target.toNat with
    | some r => okG [r]
    | none => "err ValueError"
  | "mask_shape", [[mi], shape] =>
    match modeOf mi with
    | some m => if shape.length < neededRank m then "err IndexError" else okG [(maskShape m (nats shape)).map Int.ofNat]
    | none => "err BadOp"
  | "reshape", [[mi], shape, mshape, data] =>
    match modeOf mi with
    | some m =>
      match reshapeAndAddCoil m { shape := nats mshape, data := data } (nats shape) with
      | .ok t => okG [t.shape.map Int.ofNat, bits t.data]
      | .error e => errS e
    | none => "err BadOp"
  | "broadcast", [[rows], mshape, data] =>
    match broadcastRows ({ shape := nats mshape, data := data } : Tensor Int) rows.toNat with
    | .ok t => okT t
    | .error e => errS e
  | "call_guard", [[mi, kt, rank]] =>
    match modeOf mi with
    | some m =>
      match callGuard m rank.toNat with
      | .error e => errS e
      | .ok () =>
        match (if kt != 0 then ktGuard rank.toNat else .ok ()) with
        | .error e => errS e
        | .ok () => "ok"
    | none => "err BadOp"
  | "num_low", [[isF, rounded, count]] => okG [[numLowFreqs (isF != 0) rounded count]]
  | "magic", [[n, lRaw, target]] =>
    let l := magicCap lRaw target
    okG [[l, (magicAdjusted n.toNat target l : Nat)]]
  | "magic_pattern", [[n, adj, off]] => okG [bits (magicPattern n.toNat adj.toNat off.toNat)]
  | "disc", [[rows, cols, radius]] =>
    okG [(chunksOf cols.toNat (centeredDisk rows.toNat cols.toNat radius)).map pack]
  | "circus", [[rows, cols], thr, packed] =>
    let mask := (packed.map (unpack cols.toNat)).flatten
    match circusDisc rows.toNat cols.toNat mask thr with
    | some r => okG [(chunksOf cols.toNat r).map pack]
    | none => "err Timeout"
  | "gauss", [[need], mask, cands] =>
    let m := mask.map (· != 0)
    let r := gaussLoop need.toNat m cands
    okG [bits r.1, [Int.ofNat r.2, Int.ofNat (gaussConsumed need.toNat m cands)]]
  | "bisect", [[hi, fuel], verdicts] =>
    -- dyadic grid 0 … hi, midpoint (lo + hi) / 2; the verdicts are scripted by evaluation number,
    -- which on a bisection path determines the grid point (points never repeat)
    let mid := fun (lo hi : Nat) => (lo + hi) / 2
    let pts := scriptPoints mid fuel.toNat 0 hi.toNat (verdicts.map verdictOf)
    let f := fun (p : Nat) => (pts.lookup p).getD .above
    match bisect mid f fuel.toNat 0 hi.toNat with
    | .returned p => okG [[Int.ofNat (bisectCalls mid f fuel.toNat 0 hi.toNat), Int.ofNat p]]
    | .valueError => "err ValueError"
    | .outOfFuel => "err Timeout"
  | "gen", [hdr, shape, specG, packed] => opGen hdr shape specG packed
  | "gen_magic", [hdr, shape, par, offsets] => opGenMagic hdr shape par offsets
  | "gen_gauss", hdr :: shape :: par :: cands => opGenGauss hdr shape par cands
  | "gen_ktuniform", hdr :: shape :: par :: groups => opGenKt true hdr shape par groups
  | "gen_ktgauss", hdr :: shape :: par :: groups => opGenKt false hdr shape par groups
  | "gen_circus", hdr :: shape :: specG :: par :: frames => opGenCircus hdr shape specG par frames
  | "linear2d", [[idx, row]] => let p := linear2d idx row; okG [[p.1, p.2]]
  | "nearest", [[target, row], empty] =>
    match findNearestEmpty target empty row with
    | some e => okG [[e]]
    | none => "err ValueError"
  | "resolve", [[ny, nt], phase, time] =>
    match resolveDuplicates phase time ny.toNat nt.toNat with
    | some (p, t) => okG [p, t]
    | none => "err ValueError"
  | "square", [[side, sq]] => okG [(squareOrdered side.toNat sq.toNat).flatMap fun rc => [Int.ofNat rc.1, Int.ofNat rc.2]]
  | "poisson", [[guard, nx, ny, den, r], mask, acts, script] =>
    -- script: triples (i, qx, qy) with qx = -1 for "all attempts failed"
    let s0 : PoissonState := { mask := mask.map (· != 0),
                               actives := (chunksOf 2 acts).map fun p => ((p.getD 0 0).toNat, (p.getD 1 0).toNat) }
    let evs := (chunksOf 3 script).map fun e =>
      ((e.getD 0 0).toNat, if e.getD 1 0 < 0 then none else some (e.getD 1 0, e.getD 2 0))
    let s := poissonRun (guard != 0) nx.toNat ny.toNat den r s0 evs
    okG [bits s.mask, [Int.ofNat s.actives.length, b2i (poissonOverrun nx.toNat ny.toNat s)]]
  | "call_uniform", [[gid]] =>
    -- `uniform_range=True`: `choose_acceleration` raises NotImplementedError wherever the option is accepted
    match genOf gid with
    | some g => if g.accepts.2.1 then "err NotImplementedError" else "ok"
    | none => "err BadOp"
  | "build", [[gid, mi]] =>
    match genOf gid, modeOf mi with
    | some g, some m =>
      let (a, b, _) := g.accepts
      okG [[b2i a, b2i b, b2i (g.effectiveMode m == m), modeIdx (g.effectiveMode m), b2i g.acceptsCropCorner]]
    | _, _ => "err BadOp"
  -- `_poisson.pyx` kernel, IEEE helpers (Model/C04Poisson.lean)
  | _, _ => DirectVerif.Driver.C04Poisson.step op gs

end DirectVerif.Driver.C04
