import DirectVerif.Driver.Common
import DirectVerif.Model.Sens
/-!
Line-protocol interpreter of the C09 model, executed with exact rationals (`ratNum`).

Tensors arrive as integers in the layout `(batch, coil, *spatial, complex=2)` — the model's
`SMap` is one batch item with the spatial axes flattened, i.e. the coil axis is axis 1 and the
complex axis the last one (`Sens.normAxes`).  Answers are rationals as `num den` pairs.
`err Inexact` = some squared sum is not the square of a rational (the harness only sends such).
-/
namespace DirectVerif.Driver.C09
open DirectVerif DirectVerif.Driver DirectVerif.Sens

/-- split `(batch, coil, pixels, 2)` data into batch items `[coil][pixel]` (`Sens.toSMap`: row-major offsets) -/
def toMaps (b c px : Nat) (data : List Int) : Option (List (SMap Rat)) :=
  if data.length ≠ b * c * px * 2 then none else
  some ((List.range b).map fun bi => toSMap b c px data bi)

def fmtMaps (shape : List Int) (ms : List (SMap Rat)) : String :=
  let flat : List Int := ms.flatMap fun m => m.flatMap fun coil => coil.flatMap fun (re, im) =>
    [re.num, (re.den : Int), im.num, (im.den : Int)]
  "ok " ++ fmtGroups [shape, flat]

/-- every per-pixel squared sum of `S` has an exact rational square root -/
def exactOn (S : SMap Rat) (px : Nat) : Bool :=
  (List.range px).all fun p =>
    let s := sumSqAt S p
    ratSqrt s * ratSqrt s == s

def dims (shape : List Int) : Option (Nat × Nat × Nat) :=
  match shape with
  | b :: c :: rest =>
    if rest.getLast? ≠ some 2 ∨ shape.any (· < 0) then none
    else some (b.toNat, c.toNat, prod (nats rest.dropLast))
  | _ => none

def step (op : String) (gs : List (List Int)) : String :=
  match op, gs with
  | "renorm", [shape, data] =>
    match dims shape with
    | none => "err BadOp"
    | some (b, c, px) =>
      match toMaps b c px data with
      | none => "err BadOp"
      | some ms =>
        if ms.all (exactOn · px) then fmtMaps shape (ms.map (renorm ratNum)) else "err Inexact"
  | "estimate", [shape, data] =>
    match dims shape with
    | none => "err BadOp"
    | some (b, c, px) =>
      match toMaps b c px data with
      | none => "err BadOp"
      | some ms =>
        if ms.all (fun a => exactOn a px && exactOn (rssNormalise ratNum a) px) then
          fmtMaps shape (ms.map (estimateRSS ratNum))
        else "err Inexact"
  | "engine", [shape, [hasModel], data, refined] =>
    match dims shape with
    | none => "err BadOp"
    | some (b, c, px) =>
      match toMaps b c px data, toMaps b c px refined with
      | some ms, some rs =>
        let used := (ms.zip rs).map fun (m, r) => if m.length > 1 ∧ hasModel ≠ 0 then r else m
        if used.all (exactOn · px) then
          fmtMaps shape ((ms.zip rs).map fun (m, r) =>
            computeSensitivityMap ratNum (hasModel ≠ 0) (fun _ => r) m)
        else "err Inexact"
      | _, _ => "err BadOp"
  | "unit", [shape] =>
    match dims shape with
    | none => "err BadOp"
    | some (b, c, px) =>
      let u : SMap Rat := unitMap c px
      if exactOn u px then fmtMaps shape (List.replicate b (estimateUnit ratNum c px)) else "err Inexact"
  | "window", [[w], [sn, sd]] =>
    -- the exponents `(linspace(-1,1,W)[j] / sigma)^2` of the Gaussian window; `sd = 0` encodes `None`
    let sigma : Option Rat := if sd = 0 then none else some ((sn : Rat) / (sd : Rat))
    match gaussianActive sigma with
    | none => "ok off"
    | some s =>
      let es := (List.range w.toNat).map fun j => gaussExponent ratNum (linspaceCoord ratNum ratWin) s w.toNat j
      "ok " ++ fmtGroups [es.flatMap fun q => [q.num, (q.den : Int)]]
  | "estgauss", [shape, [sn, sd], data, mask] =>
    match dims shape with
    | none => "err BadOp"
    | some (b, c, px) =>
      let w := (shape.dropLast.getLast?.getD 1).toNat
      let sigma : Option Rat := if sd = 0 then none else some ((sn : Rat) / (sd : Rat))
      if mask.length ≠ b * px then "err BadOp" else
      match toMaps b c px data with
      | none => "err BadOp"
      | some ms =>
        let as := (List.range b).map fun bi =>
          estimateAcsImage ratNum ratWin id sigma w (ms.getD bi []) (fun p => ((mask.getD (bi * px + p) 0 : Int) : Rat))
        if as.all (fun a => exactOn a px && exactOn (rssNormalise ratNum a) px) then
          fmtMaps shape (as.map (estimateRSS ratNum))
        else "err Inexact"
  | "forward", [[ty], shape, calib, acs] =>
    match dims shape with
    | none => "err BadOp"
    | some (b, c, px) =>
      let t : Option MapType := if ty = 0 then some .unit else if ty = 1 then some .rssEstimate else if ty = 2 then some .espirit else none
      if t == some .espirit && !espiritSupported shape.length then "err NotImplementedError" else
      match t, toMaps b c px calib, toMaps b c px acs with
      | some t, some cs, some as =>
        let used := (cs.zip as).map fun (cm, a) =>
          match t with
          | .unit => (unitMap c px : SMap Rat)
          | .rssEstimate => rssNormalise ratNum a
          | .espirit => cm
        if used.all (exactOn · px) && (t != .rssEstimate || as.all (exactOn · px)) then
          fmtMaps shape ((cs.zip as).map fun (cm, a) => forwardMap ratNum t cm a c px)
        else "err Inexact"
      | _, _, _ => "err BadOp"
  | "choice", [[mc, h2, h3, nd]] =>
    let r := modelChoice (mc != 0) (h2 != 0) (h3 != 0) nd
    if r = 4 then "err KeyError" else "ok " ++ toString r
  | "safediv", [a, b] =>
    if a.length ≠ b.length then "err BadOp" else
    let qs := List.zipWith (fun (x y : Int) => safeDivide ratNum (x : Rat) (y : Rat)) a b
    "ok " ++ fmtGroups [qs.flatMap fun q => [q.num, (q.den : Int)]]
  | _, _ => "err BadOp"

end DirectVerif.Driver.C09
