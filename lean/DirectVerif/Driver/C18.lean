import DirectVerif.Driver.Common
import DirectVerif.Model.BatchSep
/-!
Line-protocol interpreter of the C18 model: exact integer group statistics of the normalisation layers, coil
reduction / expansion / standardisation on Gaussian integers, and the per-sample predicate on reduction specs.
-/
namespace DirectVerif.Driver.C18
open DirectVerif DirectVerif.Driver DirectVerif.BatchSep

/-- `[re0, im0, re1, im1, …]` -> Gaussian integers -/
def pairs : List Int → List G
  | a :: b :: rest => (a, b) :: pairs rest
  | _ => []

def unpairs (xs : List G) : List Int := xs.flatMap fun p => [p.1, p.2]

/-- split a flat list into `k` consecutive rows of length `n` -/
def rows {α} (k n : Nat) (xs : List α) : List (List α) := (List.range k).map fun i => (xs.drop (i * n)).take n

/-- per pixel: the list over coils of `(S_i, x_i)` -/
def perPixel (coil npix : Nat) (s x : List G) : List (List (G × G)) :=
  let sr := rows coil npix s
  let xr := rows coil npix x
  (List.range npix).map fun p => (List.zip sr xr).map fun (a, b) => (a.getD p (0, 0), b.getD p (0, 0))

/-- nested tensor from a shape and row-major data -/
def buildNT : List Nat → List Int → NT
  | [], data => .leaf (data.headD 0)
  | n :: rest, data =>
    let sz := prod rest
    .node ((List.range n).map fun i => buildNT rest ((data.drop (i * sz)).take sz))

partial def leavesNT : NT → List Int
  | .leaf v => [v]
  | .node xs => xs.flatMap leavesNT

partial def addNT : NT → NT → NT
  | .leaf a, .leaf b => .leaf (a + b)
  | .node xs, .node ys => .node (List.zipWith addNT xs ys)
  | t, _ => t

/-- per-axis actions used by the `along` op: 0 sum of the children, 1 flip, 2 select child 0, 3 cumulative sum -/
def alongAction (code : Int) : NT → NT
  | .node (x :: xs) =>
    if code == 0 then xs.foldl addNT x
    else if code == 1 then .node (x :: xs).reverse
    else if code == 2 then x
    else .node ((xs.foldl (fun (acc : List NT × NT) y => let s := addNT acc.2 y; (acc.1 ++ [s], s)) ([x], x)).1)
  | t => t

def step (op : String) (gs : List (List Int)) : String :=
  match op, gs with
  | "normstats", [[groups], [b, len], data] =>
    if data.length ≠ b.toNat * len.toNat then "err BadOp" else
    if groups.toNat = 0 ∨ len.toNat % groups.toNat ≠ 0 then "err RuntimeError" else
    okG (normBatch groups.toNat (rows b.toNat len.toNat data))
  | "reduce", [[coil, npix], s, x] =>
    okG [unpairs ((perPixel coil.toNat npix.toNat (pairs s) (pairs x)).map reducePix)]
  | "expand", [[coil, npix], s, x] =>
    -- x: one value per pixel; output coil-major
    let sr := rows coil.toNat npix.toNat (pairs s)
    let xs := pairs x
    okG [unpairs (sr.flatMap fun srow => (List.zip srow xs).map fun (si, xi) => cmul si xi)]
  | "standardize", [[coil, npix], s, x] =>
    -- output layout (coil, pixel, 4)
    let pp := (perPixel coil.toNat npix.toNat (pairs s) (pairs x)).map standardizePix    -- pixel -> coil -> 4
    okG [(List.range coil.toNat).flatMap fun c => pp.flatMap fun perCoil => perCoil.getD c []]
  | "dc", [[coil, npix], s, y, x] =>
    let pp := perPixel coil.toNat npix.toNat (pairs s) (pairs y)
    okG [unpairs ((List.zip pp (pairs x)).map fun (sy, xi) => dcPix sy xi)]
  | "persample", [[rank, batchFirst], axes] =>
    okG [[b2i (Red.perSample ⟨"", "", rank.toNat, axes, batchFirst != 0⟩)]]
  | "primok", [[family, form, sink], args] =>
    okG [[b2i (Prim.ok ⟨"", family.toNat, "", form.toNat, args, sink.toNat⟩)]]
  | "permute", [shape, perm, data] =>
    if data.length ≠ prod (nats shape) then "err BadOp" else
    okG [leavesNT (permuteNT (nats perm) (buildNT (nats shape) data))]
  | "along", [[code, d], shape, data] =>
    if data.length ≠ prod (nats shape) then "err BadOp" else
    match nats shape with
    | [] => "err BadOp"
    | _ :: rest =>
      -- the tensor as a batch (axis 0 = list of samples), the action along axis d, flattened again
      let sz := prod rest
      let batch := (List.range (nats shape).head!).map fun i => buildNT rest ((data.drop (i * sz)).take sz)
      okG [(batchedAlong (alongAction code) d.toNat batch).flatMap leavesNT]
  | "mergemap", [[b, c, m], [a, k], data] =>
    if data.length ≠ b.toNat * c.toNat * m.toNat then "err BadOp" else
    let xs : List (List (List Int)) := (rows b.toNat (c.toNat * m.toNat) data).map fun smp => rows c.toNat m.toNat smp
    okG [((multiCoilFold (fun row : List Int => row.map fun v => a * v + k) c.toNat xs).flatten).flatten]
  | "unmerge", [[b, c], data] =>
    okG [(unmergeBC b.toNat c.toNat data).flatten, (unmergeCB b.toNat c.toNat data).flatten]
  | "chunksum", [[k], data] =>
    if k ≤ 0 then "err BadOp" else
    let xs := pairs data
    okG [unpairs [chunkSumFloor k.toNat xs], unpairs [chunkSumCeil k.toNat xs], unpairs [csum xs]]
  | _, _ => "err BadOp"

end DirectVerif.Driver.C18
