import DirectVerif.Driver.Common
import DirectVerif.Model.Recon
import DirectVerif.Model.C14Loop
/-!
Line-protocol interpreter of the reconstruction model (C14).

  process shape | data | scale nums | scale dens | res        (shape = b h w  or  b h w 2)
      -> shape' | data'                                        (`_process_output`)
  recon   fname size … | fnames_1 | outs_1 targets_1 | fnames_2 | outs_2 targets_2 | …
      -> per yield: fname n outs… targets… ; trailing group `-1 code` if the generator raised
  predict layout | world rank bs | h w cplx | res | scale nums | scale dens | data [| slice_nos]
      -> per yielded volume: fname n h' w' data…      (the items' `slice_no` are part of the input; the model has
         no use for them: `C14.reconstruct_ignores_slice_no`, `Bridge.C14.recon_loop_reads_eq`)
  recon2  fname size … | fnames_1 | outs_1 targets_1 | slice_nos_1 loss_1 | fnames_2 | …
      -> per yield: fname n outs… targets… mean(loss_dict_list) ; trailing group `-1 code` if the generator raised
  inwindow k | delivered order of the batches 0 … n-1
      -> 1 iff a loader with `k` batches in flight can deliver this order (`Recon.windowOrders`)
-/
namespace DirectVerif.Driver.C14
open DirectVerif DirectVerif.Driver DirectVerif.Recon DirectVerif.Sampler

/-- scaling factor `num / den` on integers (the harness only sends exact cases) -/
def mulQ (x : Int) (s : Int × Int) : Int := x * s.1 / s.2
def exactQ (x : Int) (s : Int × Int) : Bool := s.2 ≠ 0 && (x * s.1) % s.2 == 0

def isSquare (n : Int) : Bool := let r := n.toNat.sqrt; (r * r : Nat) == n.toNat
def modulusI (a b : Int) : Int := ((a * a + b * b).toNat.sqrt : Nat)

def toRows {α} (w : Nat) (xs : List α) : List (List α) := chunksOf w xs
def pairs : List Int → List (Int × Int)
  | a :: b :: rest => (a, b) :: pairs rest
  | _ => []

def resOf (res : List Int) : Option (Option (Nat × Nat)) :=
  match res with
  | [] => some none
  | [h, w] => if h < 0 ∨ w < 0 then none else some (some (h.toNat, w.toNat))
  | _ => none

def fmtImgs (imgs : List (Img Int)) : String :=
  let h := (imgs.headD []).length
  let w := ((imgs.headD []).headD []).length
  okG [[(imgs.length : Int), 1, h, w], imgs.flatMap fun i => i.flatten]

def opProcess (shape data nums dens res : List Int) : String :=
  match resOf res with
  | none => "err BadOp"
  | some res =>
  let scales := List.zip nums dens
  match shape with
  | [b, h, w] =>
    if w = 2 ∨ data.length ≠ (b * h * w).toNat ∨ scales.length ≠ b.toNat then "err BadOp" else
    let imgs : List (Img Int) := (chunksOf (h * w).toNat data).map (toRows w.toNat)
    if !((List.zip imgs scales).all fun (i, s) => i.all fun r => r.all (exactQ · s)) then "err Inexact" else
    match processOutput mulQ res imgs scales with
    | none => "err ValueError"
    | some out => fmtImgs out
  | [b, h, w, 2] =>
    if data.length ≠ (b * h * w * 2).toNat ∨ scales.length ≠ b.toNat then "err BadOp" else
    let imgs : List (Img (Int × Int)) := (chunksOf (h * w * 2).toNat data).map fun d => toRows w.toNat (pairs d)
    if !((List.zip imgs scales).all fun (i, s) => i.all fun r => r.all fun p =>
        exactQ p.1 s && exactQ p.2 s && isSquare (mulQ p.1 s * mulQ p.1 s + mulQ p.2 s * mulQ p.2 s)) then "err Inexact" else
    match (List.zipWith (processSliceC mulQ modulusI res) imgs scales).mapM id with
    | none => "err ValueError"
    | some out => fmtImgs out
  | _ => "err BadOp"

def errCode : RErr → Int
  | .valueError => 1 | .keyError => 2 | .runtimeError => 3 | .indexError => 4

def parseBatches : List (List Int) → Option (List (RBatch (Int × Int)))
  | [] => some []
  | fn :: vals :: rest =>
    let n := fn.length
    if vals.length ≠ 2 * n then none else
    (parseBatches rest).map fun bs => ⟨nats fn, List.zip (vals.take n) (vals.drop n)⟩ :: bs
  | _ => none

def opRecon (table : List Int) (gs : List (List Int)) : String :=
  let tbl := pairs table
  let sizeOf (f : Nat) : Option Nat := (tbl.find? fun p => p.1 == (f : Int)).map fun p => p.2.toNat
  match parseBatches gs with
  | none => "err BadOp"
  | some bs =>
    let r := reconstruct sizeOf ((0, 0) : Int × Int) RState.init bs
    let ys : List (List Int) := r.1.map fun (vol, f) =>
      [(f : Int), (vol.length : Int)] ++ vol.map (·.1) ++ vol.map (·.2)
    okG (ys ++ match r.2 with | none => [] | some e => [[-1, errCode e]])

/-- batches with slice numbers and a loss value: three groups per batch -/
def parseBatchesL : List (List Int) → Option (List (LBatch (Int × Int) Int))
  | [] => some []
  | fn :: vals :: mt :: rest =>
    let n := fn.length
    if vals.length ≠ 2 * n ∨ mt.length ≠ n + 1 then none else
    (parseBatchesL rest).map fun bs =>
      ⟨nats fn, mt.take n, List.zip (vals.take n) (vals.drop n), mt.getD n 0⟩ :: bs
  | _ => none

/-- `reduce_list_of_dicts(loss_dict_list)`: the mean (the harness sends values for which it is an integer) -/
def meanI (ls : List Int) : Option Int :=
  if ls.isEmpty then some 0 else
  let s := ls.foldl (· + ·) 0
  if s % (ls.length : Int) == 0 then some (s / (ls.length : Int)) else none

def opRecon2 (table : List Int) (gs : List (List Int)) : String :=
  let tbl := pairs table
  let sizeOf (f : Nat) : Option Nat := (tbl.find? fun p => p.1 == (f : Int)).map fun p => p.2.toNat
  match parseBatchesL gs with
  | none => "err BadOp"
  | some bs =>
    let r := reconstructL sizeOf ((0, 0) : Int × Int) LState.init bs
    if r.1.any (fun y => (meanI y.2.1).isNone) then "err Inexact" else
    let ys : List (List Int) := r.1.map fun (vol, ls, f) =>
      [(f : Int), (vol.length : Int)] ++ vol.map (·.1) ++ vol.map (·.2) ++ [(meanI ls).getD 0]
    okG (ys ++ match r.2 with | none => [] | some e => [[-1, errCode e]])

def opInWindow (k : Int) (delivered : List Int) : String :=
  let n := delivered.length
  if k ≤ 0 ∨ n > 9 then "err BadOp" else
  if (windowOrders k.toNat ((List.range n).map fun (i : Nat) => (i : Int))).contains delivered then "ok 1" else "ok 0"

def errName : RErr → String
  | .valueError => "ValueError" | .keyError => "KeyError" | .runtimeError => "RuntimeError"
  | .indexError => "IndexError"

def cropKey (c : Int) : CropKey := if c = 1 then .header else if c = 2 then .other else .none

/-- `_process_output(data, scales, resolution=_compute_resolution(key, reconstruction_size))` on one batch -/
def opProcBatch (key : Int) (shape data nums dens : List Int) (recon : List (List Int)) : String :=
  match shape with
  | [b, h, w] =>
    let scales := List.zip nums dens
    if w = 2 ∨ data.length ≠ (b * h * w).toNat ∨ scales.length ≠ b.toNat then "err BadOp" else
    let imgs : List (Img Int) := (chunksOf (h * w).toNat data).map (toRows w.toNat)
    if !((List.zip imgs scales).all fun (i, s) => i.all fun r => r.all (exactQ · s)) then "err Inexact" else
    -- element 0 of the batch for every dimension
    let recons : List (List Nat) := (List.range b.toNat).map fun k => recon.map fun d => (d.getD k 0).toNat
    match processBatch mulQ (cropKey key) imgs scales recons with
    | .error e => "err " ++ errName e
    | .ok out => fmtImgs out
  | _ => "err BadOp"

/-- offsets of the volumes' data in the flat data group -/
def offsets (sizes : List Nat) : List Nat := (sizes.foldl (fun (acc : List Nat × Nat) n => (acc.1 ++ [acc.2], acc.2 + n)) ([], 0)).1

def fmtVol (f : Nat) (imgs : List (Img Int)) : List Int :=
  let h' := (imgs.headD []).length
  let w' := ((imgs.headD []).headD []).length
  [(f : Int), (imgs.length : Int), (h' : Int), (w' : Int)] ++ imgs.flatMap fun i => i.flatten

def sortDir {γ} (d : Dir γ) : Dir γ := (d.toArray.qsort fun a b => a.1 < b.1).toList

def opPredict (layout cfg flags hs ws rx ry nums dens data : List Int) : String :=
  match cfg, flags with
  | [world, rank, bs], [cplx, crop, write] =>
    let lay := nats layout
    let nv := lay.length
    let total := lay.sum
    if world ≤ 0 ∨ rank < 0 ∨ rank ≥ world ∨ bs ≤ 0 ∨ layout.any (· ≤ 0) ∨ hs.length ≠ nv ∨ ws.length ≠ nv
        ∨ nums.length ≠ total ∨ dens.length ≠ total ∨ (rx.length ≠ nv ∧ rx.length ≠ 0) ∨ ry.length ≠ rx.length
        ∨ (cplx = 0 ∧ ws.any (· = 2)) then "err BadOp" else
    let c : Nat := if cplx = 1 then 2 else 1
    let per : List Nat := (List.range nv).map fun v => (hs.getD v 0).toNat * (ws.getD v 0).toNat * c
    -- item -> volume, item -> offset of its data
    let volOf : Array Nat := ((List.range nv).flatMap fun v => List.replicate (lay.getD v 0) v).toArray
    let sizes : List Nat := (List.range total).map fun i => per.getD (volOf.getD i 0) 0
    let offs := (offsets sizes).toArray
    if data.length ≠ sizes.sum then "err BadOp" else
    let arr := data.toArray
    let raw (i : Nat) : List Int := (List.range (sizes.getD i 0)).map fun k => arr.getD (offs.getD i 0 + k) 0
    let scales := (List.zip nums dens).toArray
    let fwd (i : Nat) : Img Int :=
      let w := (ws.getD (volOf.getD i 0) 0).toNat
      if cplx = 1 then (toRows w (pairs (raw i))).map fun r => r.map fun p => modulusI p.1 p.2
      else toRows w (raw i)
    let recon (i : Nat) : List Nat :=
      if rx.length = 0 then [] else [(rx.getD (volOf.getD i 0) 0).toNat, (ry.getD (volOf.getD i 0) 0).toNat, 1]
    let exact := (List.range total).all fun i => (fwd i).all fun r => r.all (exactQ · (scales.getD i (1, 1)))
    if !exact then "err Inexact" else
    let r := predictFull mulQ lay world.toNat rank.toNat bs.toNat (cropKey crop) fwd (fun i => scales.getD i (1, 1)) recon id
    match r.2 with
    | some e => "err " ++ errName e
    | none =>
      if write = 0 then okG (r.1.map fun (vol, f) => fmtVol f vol)
      else
        let d : Dir (List (Img Int)) := writeOutput id id "reconstruction" [] r.1
        okG ((sortDir d).map fun e => fmtVol e.1 e.2.2)
  | _, _ => "err BadOp"

/-- `write_output_to_h5` on arbitrary tuples.  names = (dir, base) pairs; dims = (n, c, h, w) per volume.
`stale` = an earlier run left files (other shape, other keys) under the names of the volumes at even positions:
mode "w" replaces them (`C14.write_roundtrip` holds for every directory content), the initial directory is modelled. -/
def opWrite (flags names dims data : List Int) : String :=
  match flags with
  | [create, dirExists, stale] =>
    let nm := pairs names
    let nv := nm.length
    if dims.length ≠ 4 * nv then "err BadOp" else
    if create = 0 ∧ dirExists = 0 ∧ nv > 0 then "err FileNotFoundError" else
    let dim (v k : Nat) : Nat := (dims.getD (4 * v + k) 0).toNat
    let sizes := (List.range nv).map fun v => dim v 0 * dim v 1 * dim v 2 * dim v 3
    if data.length ≠ sizes.sum then "err BadOp" else
    let offs := offsets sizes
    let vols : List (List (List (Img Int)) × Nat) := (List.range nv).map fun v =>
      let d := (data.drop (offs.getD v 0)).take (sizes.getD v 0)
      -- (slice, channel, h, w)
      let slices := chunksOf (dim v 1 * dim v 2 * dim v 3) d
      (slices.map fun s => (chunksOf (dim v 2 * dim v 3) s).map (toRows (dim v 3)), v)
    let base (v : Nat) : Nat := ((nm.getD v (0, 0)).2).toNat
    let d0 : Dir (List (Img Int)) :=
      if stale = 0 then [] else
        ((List.range nv).filter fun v => v % 2 == 0).foldl (fun d v => writeFile d (base v) "stale" [[[-5, -5], [-5, -5]]]) []
    let dir : Dir (List (Img Int)) :=
      writeOutput base (fun (vol : List (List (Img Int))) => vol.map fun s => s.headD []) "reconstruction" d0 vols
    if dir.any (fun e => e.2.1 != "reconstruction") then "err BadFile" else
    okG ((sortDir dir).map fun e => fmtVol e.1 e.2.2)
  | _ => "err BadOp"

/-- `Engine.build_batch_sampler`: type 0 = "random", 1 = "sequential", 2 = "Random", 3 = None, 4 = "";
input 0 = one dataset, 1 = list of datasets, 2 = list with a non-dataset -/
def opBbs (ty inp : Int) : String :=
  let t : Option String := if ty = 0 then some "random" else if ty = 1 then some "sequential"
    else if ty = 2 then some "Random" else if ty = 4 then some "" else none
  match buildBatchSampler t (inp = 1) with
  | .error e => "err " ++ errName e
  | .ok .concatDatasetBatchSampler => "ok 0"
  | .ok .batchVolumeOverSequential => if inp = 0 then "ok 1" else "err AttributeError"

/-- `eval3d sc c z x y | data`: the volume `evaluate` receives (row-major, shape `(sc, c, z, x, y)`) ->
shape and data of the tensor handed to the metrics in the `ndim == 3` branch -/
def opEval3d (dims data : List Int) : String :=
  match dims.map Int.toNat with
  | [sc, c, z, x, y] =>
    let p := x * y
    if p = 0 ∨ z = 0 ∨ c = 0 ∨ data.length ≠ sc * c * z * p then "err BadOp" else
    let vol : List (List (List (List Int))) :=
      (chunksOf (c * z * p) data).map fun s => (chunksOf (z * p) s).map (chunksOf p)
    let out := evalReshape z vol
    okG [[(out.length : Int), (c : Int), (x : Int), (y : Int)], out.flatten.flatten]
  | _ => "err BadOp"

def step (op : String) (gs : List (List Int)) : String :=
  match op, gs with
  | "process", [shape, data, nums, dens, res] => opProcess shape data nums dens res
  | "procbatch", [key] :: shape :: data :: nums :: dens :: recon => opProcBatch key shape data nums dens recon
  | "recon", table :: rest => opRecon table rest
  | "predict", [layout, cfg, flags, hs, ws, rx, ry, nums, dens, data] => opPredict layout cfg flags hs ws rx ry nums dens data
  | "predict", [layout, cfg, flags, hs, ws, rx, ry, nums, dens, data, snos] =>
    if snos.length ≠ nums.length then "err BadOp" else opPredict layout cfg flags hs ws rx ry nums dens data
  | "recon2", table :: rest => opRecon2 table rest
  | "inwindow", [[k], delivered] => opInWindow k delivered
  | "write", [flags, names, dims, data] => opWrite flags names dims data
  | "bbs", [[ty, inp]] => opBbs ty inp
  | "eval3d", [dims, data] => opEval3d dims data
  | _, _ => "err BadOp"

end DirectVerif.Driver.C14
