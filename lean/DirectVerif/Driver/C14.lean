import DirectVerif.Driver.Common
import DirectVerif.Model.Recon
/-!
Line-protocol interpreter of the reconstruction model (C14).

  process shape | data | scale nums | scale dens | res        (shape = b h w  or  b h w 2)
      -> shape' | data'                                        (`_process_output`)
  recon   fname size … | fnames_1 | outs_1 targets_1 | fnames_2 | outs_2 targets_2 | …
      -> per yield: fname n outs… targets… ; trailing group `-1 code` if the generator raised
  predict layout | world rank bs | h w cplx | res | scale nums | scale dens | data
      -> per yielded volume: fname n h' w' data…
-/
namespace DirectVerif.Driver.C14
open DirectVerif DirectVerif.Driver DirectVerif.Recon DirectVerif.Sampler

/-- scaling factor `num / den` on integers (the harness only sends exact cases) -/
def mulQ (x : Int) (s : Int × Int) : Int := x * s.1 / s.2
def exactQ (x : Int) (s : Int × Int) : Bool := s.2 ≠ 0 && (x * s.1) % s.2 == 0

def isSquare (n : Int) : Bool := let r := n.toNat.sqrt; (r * r : Nat) == n.toNat
def modulusI (a b : Int) : Int := ((a * a + b * b).toNat.sqrt : Nat)

def toRows {α} (w : Nat) (xs : List α) : List (List α) := chunksOf w xs
def pairs : List Int → List (Int × Int)
  | a :: b :: rest => (a, b) :: pairs rest
  | _ => []

def resOf (res : List Int) : Option (Option (Nat × Nat)) :=
  match res with
  | [] => some none
  | [h, w] => if h < 0 ∨ w < 0 then none else some (some (h.toNat, w.toNat))
  | _ => none

def fmtImgs (imgs : List (Img Int)) : String :=
  let h := (imgs.headD []).length
  let w := ((imgs.headD []).headD []).length
  okG [[(imgs.length : Int), 1, h, w], imgs.flatMap fun i => i.flatten]

def opProcess (shape data nums dens res : List Int) : String :=
  match resOf res with
  | none => "err BadOp"
  | some res =>
  let scales := List.zip nums dens
  match shape with
  | [b, h, w] =>
    if w = 2 ∨ data.length ≠ (b * h * w).toNat ∨ scales.length ≠ b.toNat then "err BadOp" else
    let imgs : List (Img Int) := (chunksOf (h * w).toNat data).map (toRows w.toNat)
    if !((List.zip imgs scales).all fun (i, s) => i.all fun r => r.all (exactQ · s)) then "err Inexact" else
    match processOutput mulQ res imgs scales with
    | none => "err ValueError"
    | some out => fmtImgs out
  | [b, h, w, 2] =>
    if data.length ≠ (b * h * w * 2).toNat ∨ scales.length ≠ b.toNat then "err BadOp" else
    let imgs : List (Img (Int × Int)) := (chunksOf (h * w * 2).toNat data).map fun d => toRows w.toNat (pairs d)
    if !((List.zip imgs scales).all fun (i, s) => i.all fun r => r.all fun p =>
        exactQ p.1 s && exactQ p.2 s && isSquare (mulQ p.1 s * mulQ p.1 s + mulQ p.2 s * mulQ p.2 s)) then "err Inexact" else
    match (List.zipWith (processSliceC mulQ modulusI res) imgs scales).mapM id with
    | none => "err ValueError"
    | some out => fmtImgs out
  | _ => "err BadOp"

def errCode : RErr → Int
  | .valueError => 1 | .keyError => 2 | .runtimeError => 3

def parseBatches : List (List Int) → Option (List (RBatch (Int × Int)))
  | [] => some []
  | fn :: vals :: rest =>
    let n := fn.length
    if vals.length ≠ 2 * n then none else
    (parseBatches rest).map fun bs => ⟨nats fn, List.zip (vals.take n) (vals.drop n)⟩ :: bs
  | _ => none

def opRecon (table : List Int) (gs : List (List Int)) : String :=
  let tbl := pairs table
  let sizeOf (f : Nat) : Option Nat := (tbl.find? fun p => p.1 == (f : Int)).map fun p => p.2.toNat
  match parseBatches gs with
  | none => "err BadOp"
  | some bs =>
    let r := reconstruct sizeOf ((0, 0) : Int × Int) RState.init bs
    let ys : List (List Int) := r.1.map fun (vol, f) =>
      [(f : Int), (vol.length : Int)] ++ vol.map (·.1) ++ vol.map (·.2)
    okG (ys ++ match r.2 with | none => [] | some e => [[-1, errCode e]])

def opPredict (layout cfg shp res nums dens data : List Int) : String :=
  match cfg, shp, resOf res with
  | [world, rank, bs], [h, w, cplx], some res =>
    let total := (nats layout).sum
    let per := (h * w * (if cplx = 1 then 2 else 1)).toNat
    if world ≤ 0 ∨ rank < 0 ∨ rank ≥ world ∨ bs ≤ 0 ∨ layout.any (· ≤ 0) ∨ data.length ≠ total * per
        ∨ nums.length ≠ total ∨ dens.length ≠ total ∨ (cplx = 0 ∧ w = 2) then "err BadOp" else
    let raw := (chunksOf per data).toArray
    let scales := (List.zip nums dens).toArray
    -- `_do_iteration` takes the modulus of a complex model output before `_process_output` scales it
    let fwd (i : Nat) : Img Int :=
      if cplx = 1 then (toRows w.toNat (pairs (raw.getD i []))).map fun r => r.map fun p => modulusI p.1 p.2
      else toRows w.toNat (raw.getD i [])
    let out (i : Nat) : Option (Img Int) := processSlice mulQ res (fwd i) (scales.getD i (1, 1))
    let exact := (List.range total).all fun i => (fwd i).all fun r => r.all (exactQ · (scales.getD i (1, 1)))
    if !exact then "err Inexact" else
    let r := predict (nats layout) world.toNat rank.toNat bs.toNat out none
    match r.2 with
    | some e => "err " ++ (match e with | .valueError => "ValueError" | .keyError => "KeyError" | .runtimeError => "RuntimeError")
    | none =>
      if r.1.any fun (vol, _) => vol.any Option.isNone then "err ValueError" else
      okG (r.1.map fun (vol, f) =>
        let imgs := vol.map fun o => o.getD []
        let h' := (imgs.headD []).length
        let w' := ((imgs.headD []).headD []).length
        [(f : Int), (imgs.length : Int), (h' : Int), (w' : Int)] ++ imgs.flatMap fun i => i.flatten)
  | _, _, _ => "err BadOp"

def step (op : String) (gs : List (List Int)) : String :=
  match op, gs with
  | "process", [shape, data, nums, dens, res] => opProcess shape data nums dens res
  | "recon", table :: rest => opRecon table rest
  | "predict", [layout, cfg, shp, res, nums, dens, data] => opPredict layout cfg shp res nums dens data
  | _, _ => "err BadOp"

end DirectVerif.Driver.C14
