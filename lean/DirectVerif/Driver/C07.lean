import DirectVerif.Driver.Common
import DirectVerif.Model.MaskBudget
import DirectVerif.Model.C07Magic
import DirectVerif.Model.C07Bisect
import DirectVerif.Model.C07Random
import DirectVerif.Model.C07Ties
import DirectVerif.Model.C07Circus
/-!
# Driver C07 — the budget model executed on recorded draws

  `random N L Rn Rd | k₀ k₁ …`           uniforms `u_i = k_i / 2^53` as recorded       → `ok count | bits`
  `equi N L Rn Rd off`                                             → `ok count count-by-decomposition bound | grid points outside the ACS` or `err …`
  `equienum N L Rn Rd`   every offset `0 ≤ off < round(adjusted)`, via `equiCountFast` (= `equiCount` by
                         `equi_count_decomp`)                                             → `ok bound | counts`
  `gauss1d N L Rn Rd | candidates`        candidate columns of the libc stream           → `ok k returned count | bits`
  `gauss2d nrow ncol Rn Rd | acs bits | x₀ y₀ x₁ y₁ …`                                  → `ok k returned count`
  `gchoose N uniform choice | accs (n d)* | cfs (n d)*`  the pair used, #ACS, request  → `ok choice L k` / `err NotImplementedError`
  `equit N L Rn Rd off extra | ups`     the equispaced frame at exact ties: indices of the ties the code rounded up and
                         whether the grid got one more point (read off the real mask)  → `ok count bound #ties | grid points outside the ACS`
  `circusm rows cols Rn Rd L Mreal`   CIRCUS: adjusted acceleration for a centre region of L cells (L = 0: none) and the number of
                         picks per nested square; `Mreal` is the value the real (binary64) code computed
                         → `ok admissible nsq` (admissible = exact floor, or one less at an exact whole quotient)
  `choose uniform choice | accs (n d)* | L per pair`  the pair a call of any generator uses → `ok choice Rn Rd L` / `err NotImplementedError`
  `magic N lRaw Rn Rd | offsets`          one offset per frame                          → `ok L adj | count formula … | bits of frame 0 | …`
                         / `err ValueError` when the ACS block uses up the budget
  `bisect Rn Rd tn td | an ad stalled … | post flags`  accelerations seen by the tolerance test; the table of
                         statements after it  → `ok code iters num den` (acceleration of the RETURNED mask)
  `bisectiv Rn Rd tn td lon lod hin hid | an ad … | sn sd … | post flags`  the interval model with the binary64 midpoint:
                         accelerations the tolerance test saw, the slopes the real loop probed
                         → `ok code iters num den first-slope-mismatch(-1 = none)` / `err UnboundLocalError`
-/
namespace DirectVerif.Driver.C07
open DirectVerif DirectVerif.Driver DirectVerif.MaskBudget

def q (n d : Int) : Rat := mkRat n d.toNat

def bits (m : List Bool) : List Int := m.map b2i

def acsMask (N L : Int) : List Bool := (List.range N.toNat).map fun (i : Nat) => inAcs N L (i : Int)

def pairs : List Int → List (Int × Int)
  | x :: y :: rest => (x, y) :: pairs rest
  | _ => []

def probes : List Int → List Probe
  | an :: ad :: s :: rest => ⟨q an ad, s != 0⟩ :: probes rest
  | _ => []

def step (op : String) (gs : List (List Int)) : String :=
  match op, gs with
  | "random", [[N, L, Rn, Rd], ks] =>
    let p := randomProb N (q Rn Rd) L
    let m := randomMask N L p (ks.map fun k => mkRat k (2 ^ 53))
    okG [[countTrue m], bits m]
  | "equi", [[N, L, Rn, Rd, off]] =>
    match equiReject N L (q Rn Rd) with
    | some e => "err " ++ e
    | none =>
      let a := adjAccel N (q Rn Rd) L
      okG [[equiCount N L (q Rn Rd) off, equiCountFast N L a off, offsetBound a],
           (equiPositions N a off).filter fun p => !inAcs N L p]
  | "equienum", [[N, L, Rn, Rd]] =>
    match equiReject N L (q Rn Rd) with
    | some e => "err " ++ e
    | none =>
      let a := adjAccel N (q Rn Rd) L
      let b := offsetBound a
      okG [[b], (List.range b.toNat).map fun (o : Nat) => (equiCountFast N L a (o : Int) : Int)]
  | "gauss1d", [[N, L, Rn, Rd], cands] =>
    let k := gaussianRequest ((N : Rat) / q Rn Rd) L
    match gaussLoop k cands 0 (acsMask N L) with
    | some m => okG [[k, 1, countTrue m], bits m]
    | none => okG [[k, 0, 0], []]
  | "gauss2d", [[nrow, ncol, Rn, Rd], acs, xy] =>
    let m0 := acs.map (· != 0)
    let k := gaussianRequest (((nrow * ncol : Int) : Rat) / q Rn Rd) (countTrue m0)
    match gaussLoop k ((pairs xy).map fun (x, y) => cell2d nrow ncol x y) 0 m0 with
    | some m => okG [[k, 1, countTrue m]]
    | none => okG [[k, 0, 0]]
  | "gchoose", [[N, uniform, choice], accs, cfs] =>
    -- which pair a Gaussian1D call uses, its ACS size and its request
    let toQ := fun (l : List Int) => (pairs l).map fun (n, d) => q n d
    match chooseAcceleration (uniform != 0) (toQ accs) (toQ cfs) choice.toNat with
    | .error e => "err " ++ e
    | .ok (c, r) =>
      let L := numLowFreqs N c
      okG [[choice, L, gaussianRequest ((N : Rat) / r) L]]
  | "equit", [[N, L, Rn, Rd, off, extra], ups] =>
    match equiReject N L (q Rn Rd) with
    | some e => "err " ++ e
    | none =>
      let a := adjAccel N (q Rn Rd) L
      okG [[equiCountT N L a off ups extra.toNat, offsetBound a, (tieIndices N a off).length],
           (equiPositionsT N a off ups extra.toNat).filter fun p => !inAcs N L p]
  | "circusm", [[rows, cols, Rn, Rd, L, mReal]] =>
    let P : Rat := ((rows * cols : Int) : Rat)
    let a : Rat := if L = 0 then q Rn Rd else adjAccel P (q Rn Rd) L
    let maxd : Int := max rows cols - (max rows cols) % 2
    let mind : Int := min rows cols - (min rows cols) % 2
    okG [[b2i (circusMAdmissible P a maxd mind mReal), maxd / 2]]
  | "choose", [[uniform, choice], accs, ls] =>
    let toQ := fun (l : List Int) => (pairs l).map fun (n, d) => q n d
    match choosePair (uniform != 0) (toQ accs) ls choice.toNat with
    | .error e => "err " ++ e
    | .ok (r, l) => okG [[choice, r.num, r.den, l]]
  | "magic", [[N, lRaw, Rn, Rd], offs] =>
    let p := magicParams N lRaw (q Rn Rd)
    if p.2.2 ≤ 0 then "err ValueError" else
    let frames := offs.map fun o => magicMask N.toNat p.2.1.toNat p.2.2.toNat o.toNat
    okG ([[p.2.1, p.2.2], (offs.zip frames).flatMap fun (o, m) =>
            [(countTrue m : Int), (magicCountFormula N.toNat p.2.1.toNat p.2.2.toNat o.toNat : Int)]] ++ frames.map bits)
  | "bisect", [[Rn, Rd, tn, td], ps, postFlags] =>
    -- post statements from the generated table; a mask-modifying one has an effect the model cannot know: sentinel -1
    match poisson (q Rn Rd) (q tn td) (probes ps) (postOfTable (postFlags.map fun f => ("", f != 0)) fun _ => -1) with
    | .returned a n => okG [[0, n, a.num, a.den]]
    | .raised n => okG [[1, n, 0, 1]]
    | .running n => okG [[2, n, 0, 1]]
  | "bisectiv", [[Rn, Rd, tn, td, lon, lod, hin, hid], accs, slopes, postFlags] =>
    let toQ := fun (l : List Int) => (pairs l).map fun (n, d) => q n d
    let R := q Rn Rd
    let tol := q tn td
    let lo := q lon lod
    let hi := q hin hid
    let mism := firstSlopeMismatch (probedSlopes floatMid R tol (toQ accs) lo hi) (toQ slopes)
    match poissonIv floatMid R tol (toQ accs) lo hi (postOfTable (postFlags.map fun f => ("", f != 0)) fun _ => -1) with
    | .returned a n _ => okG [[0, n, a.num, a.den, mism]]
    | .raised n _ => okG [[1, n, 0, 1, mism]]
    | .running n _ _ => okG [[2, n, 0, 1, mism]]
    | .notEntered => "err UnboundLocalError"
  | _, _ => "err BadOp"

end DirectVerif.Driver.C07
