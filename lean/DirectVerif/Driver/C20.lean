import DirectVerif.Driver.Common
import DirectVerif.Model.Config
import DirectVerif.Model.ConfigGuard
import DirectVerif.Gen.C20
/-!
Line-protocol interpreter of the C20 model.

  cfg i                         checkConfig on the i-th shipped file
  cfgmut i | path | val         … after replacing (val non-empty) / deleting (val empty) the node at `path`
  validate s | val              validate against the s-th schema of `Gen.C20.schemas`
  resolve kind | name [| eng]   kind 0 model class, 1 model config class, 2 engine class, 3 dataset config, 4 masking function
  flatten | val                 dict_flatten keys of a tree
  reg kind i                    the i-th entry of a registry table (0 models, 1 engines, 2 datasets, 3 masking functions,
                                4 TransformsType members, 5 referenced functionals, 6 referenced losses, 7 dataset base classes)

  guard route typed | name | val  verdict of the guards of the class the block is routed to: 0 rejected, 1 passes, 2 undecided
                                (route 0 model block, 1 masking block, 2 dataset block, 4 dispatches without a raising else;
                                 typed = 1: values are merged into the config class first)
  consume i | val               the i-th consumer (`_compute_resolution` …) accepts the value the file tree `val` leaves at its path
  kwpol | name | key            `Model(**{…, key: …})` is let through by the constructor's keyword handling
  chain | path                  the attribute chain names declared fields of the installed `DefaultConfig`
  optim | val                   `training.optimizer` of the file tree is an attribute of `torch.optim`
  binds | name | keys           the masking function `name` gets its mandatory parameters from a raw block with these keys

Trees on the wire: 0 null | 1 missing | 2 i | 3 sym (float) | 4 b | 5 sym kind | 6 n e₁…eₙ | 7 n k₁ v₁ … kₙ vₙ.
Path steps: `k ≥ 0` = map key `k`, `-(i+1)` = list index `i`.
-/
namespace DirectVerif.Driver.C20
open DirectVerif DirectVerif.Driver DirectVerif.Config

def errName : Err → String
  | .validationError => "ValidationError"
  | .configKeyError => "ConfigKeyError"
  | .configTypeError => "ConfigTypeError"
  | .configAttributeError => "ConfigAttributeError"
  | .missingMandatoryValue => "MissingMandatoryValue"
  | .systemExit => "SystemExit"
  | .attributeError => "AttributeError"
  | .valueError => "ValueError"
  | .typeError => "TypeError"
  | .syntaxError => "SyntaxError"

partial def decodeVal : List Int → Option (Val × List Int)
  | 0 :: r => some (.null, r)
  | 1 :: r => some (.missing, r)
  | 2 :: i :: r => some (.int i, r)
  | 3 :: s :: r => some (.float s.toNat, r)
  | 4 :: b :: r => some (.bool (b != 0), r)
  | 5 :: s :: k :: r => some (.str s.toNat k.toNat, r)
  | 6 :: n :: r => do
    let mut xs : Array Val := #[]
    let mut rest := r
    for _ in List.range n.toNat do
      let (v, r') ← decodeVal rest
      xs := xs.push v
      rest := r'
    pure (.list xs.toList, rest)
  | 7 :: n :: r => do
    let mut kvs : Array (Sym × Val) := #[]
    let mut rest := r
    for _ in List.range n.toNat do
      match rest with
      | k :: r' =>
        let (v, r'') ← decodeVal r'
        kvs := kvs.push (k.toNat, v)
        rest := r''
      | [] => none
    pure (.map kvs.toList, rest)
  | _ => none

def decodeAll (g : List Int) : Option Val :=
  match decodeVal g with
  | some (v, []) => some v
  | _ => none

def decodePath (g : List Int) : List (Sym ⊕ Nat) :=
  g.map fun i => if i ≥ 0 then .inl i.toNat else .inr (-(i + 1)).toNat

def fmtCfg (r : Except (Nat × Err) Unit) : String :=
  match r with
  | .ok () => "ok"
  | .error (st, e) => s!"err {st} {errName e}"

def fmtRes (r : Res) : String :=
  match r with
  | .ok () => "ok"
  | .error e => "err " ++ errName e

def step (op : String) (gs : List (List Int)) : String :=
  let T := Gen.C20.tables
  match op, gs with
  | "cfg", [[i]] =>
    match Gen.C20.configs[i.toNat]? with
    | some c => fmtCfg (checkConfig T c.2)
    | none => "err BadOp"
  | "cfgmut", [[i], path, val] =>
    match Gen.C20.configs[i.toNat]? with
    | some c =>
      if val.isEmpty then fmtCfg (checkConfig T (setPath none (decodePath path) c.2)) else
      match decodeAll val with
      | some v => fmtCfg (checkConfig T (setPath (some v) (decodePath path) c.2))
      | none => "err BadOp"
    | none => "err BadOp"
  | "validate", [[s], val] =>
    match Gen.C20.schemas[s.toNat]?, decodeAll val with
    | some sc, some v => fmtRes (validate sc.2 v)
    | _, _ => "err BadOp"
  | "resolve", [[kind], name] =>
    let n := nats name
    if kind = 0 then okG [[b2i (resolves T.modules (modelTarget n))]]
    else if kind = 1 then okG [[b2i (lookupSchema T (modelConfigTarget n)).isSome]]
    else if kind = 2 then okG [[b2i (resolves T.modules (engineTarget n none))]]
    else if kind = 3 then okG [[b2i (lookupSchema T (datasetConfigTarget n)).isSome]]
    else if kind = 4 then okG [[b2i (resolves T.modules (maskFuncTarget n))]]
    else "err BadOp"
  | "resolve", [[2], name, eng] =>
    okG [[b2i (resolves T.modules (engineTarget (nats name) (if eng.isEmpty then none else some (nats eng))))]]
  | "reg", [[kind, i]] =>
    let i := i.toNat
    let bit (b? : Option Bool) : String := match b? with | some b => okG [[b2i b]] | none => "err BadOp"
    if kind = 0 then bit ((Gen.C20.registeredModels[i]?).map (modelRegistered T))
    else if kind = 1 then bit ((Gen.C20.registeredEngines[i]?).map (engineReachable T))
    else if kind = 2 then bit ((Gen.C20.registeredDatasets[i]?).map (datasetRegistered T))
    else if kind = 3 then bit ((Gen.C20.registeredMaskFuncs[i]?).map (maskFuncRegistered T))
    else if kind = 4 then bit ((Gen.C20.transformsTypes[i]?).map
      (transformsTypeAccepted Gen.C20.transformSchema Gen.C20.kTransformsType))
    else if kind = 5 then bit ((Gen.C20.referencedFunctionals[i]?).map (functionalResolves T))
    else if kind = 6 then bit ((Gen.C20.referencedLosses[i]?).map (Gen.C20.permissibleLosses.contains ·))
    else if kind = 7 then bit ((Gen.C20.datasetBaseClasses[i]?).map (datasetRegistered T))
    else "err BadOp"
  | "guard", [[route, typed], name, val] =>
    match decodeAll val with
    | none => "err BadOp"
    | some block =>
      let G := Gen.C20.gtables
      let n := nats name
      if route = 0 ∨ route = 4 then
        match modelClassOf T block with
        | some cls => okG [[Int.ofNat (guardsVerdict T G route.toNat cls (modelSchema T block) block)]]
        | none => "err BadOp"
      else if route = 1 then
        okG [[Int.ofNat (guardsVerdict T G 1 (packPair (maskFuncTarget n))
          (if typed = 1 then some Gen.C20.maskingSchema else none) block)]]
      else if route = 2 then
        okG [[Int.ofNat (guardsVerdict T G 2 (packPair (datasetClassTarget n))
          (if typed = 1 then lookupSchema T (datasetConfigTarget n) else none) block)]]
      else "err BadOp"
  | "consume", [[i], val] =>
    match Gen.C20.consumers[i.toNat]?, decodeAll val with
    | some k, some file => okG [[b2i (consumerOk T Gen.C20.gtables (installedRoot T) file k)]]
    | _, _ => "err BadOp"
  | "kwpol", [name, key] =>
    match classInfo Gen.C20.gtables 0 (packPair (modelTarget (nats name))) with
    | some info =>
      let k := nats key
      okG [[b2i ((info.params.any fun p => T.strOf p.1 == k) || (info.varkw && kwAllowed info.kwPolicy k))]]
    | none => "err BadOp"
  | "chain", [path] => okG [[b2i (chainOk (installedRoot T) (path.map Int.toNat))]]
  | "optim", [val] =>
    match decodeAll val with
    | some file => okG [[b2i (optimizerOk T Gen.C20.kOptimizer file)]]
    | none => "err BadOp"
  | "binds", [name, keys] =>
    okG [[b2i (maskCtorBinds T Gen.C20.gtables none
      (.map ((T.kName, .str (T.symbols.idxOf (pack (nats name))) 0) :: keys.map fun k => (k.toNat, Val.null))))]]
  | "flatten", [val] =>
    match decodeAll val with
    | some v => okG [(flattenKeys v).map Int.ofNat]
    | none => "err BadOp"
  | "flatten", [[], val] =>
    match decodeAll val with
    | some v => okG [(flattenKeys v).map Int.ofNat]
    | none => "err BadOp"
  | _, _ => "err BadOp"

end DirectVerif.Driver.C20
