import DirectVerif.Driver.Common
import DirectVerif.Model.Rng
/-!
# Driver C05 — the `Rng` model executed on *symbolic* streams

A stream state is the list `origin ++ requests served so far`; a drawn value is the state it was
drawn from plus the request.  Two symbolic states are equal iff they were produced the same way, so
first-occurrence numbering of the symbolic states can be diffed against first-occurrence numbering
of the SHA-1 of the real `get_state()`s, and symbolic outputs against digests of the real masks.

Line: `hist nInst | table (src inScope)* | pyx events | op | op | …`  with ops
  `0 inst key seed(-1 = None) (kind site req)*`   generator call with its recorded statements
      (kind 0 draw, 1 `rng.seed(integerize_seed(seed))`, 2 Cython kernel run: `2 kernelIndex args`; the
      kernel's integer seed is the value of the draw before it)
  `1 inst`           new generator object
  `2 which req`      draw from global stream `which` (0 numpy, 1 torch, 2 python, 3 libc `rand()`)
  `3 which seed`     seed a global stream (3: libc `srand`)
  `4 src dst`        deep copy / pickle round trip of a generator object
`pyx events`: the generated libc event lists of the `.pyx` kernels (0 `srand(seed)`, 1 other `srand`,
2 `rand()`; `-1` ends a kernel); a kernel run is `kernelProg (pyxSrandFirst events)`.
Answer: `ok np ids | torch ids | python ids | private ids (per time, per instance) | output ids | libc ids`
(ids taken after every op, the initial state first).

Line: `acs | table | pyx events | seed | lead statements | rest statements` → request traces of the
`return_acs=True` and of the mask program built by `withAcs`, and the ids of the values they saw.
-/
namespace DirectVerif.Driver.C05
open DirectVerif DirectVerif.Driver DirectVerif.Rng

abbrev Sym := List Int

def symOps : Ops Sym Int Int Sym where
  seedTo := fun s => [0, s]
  draw := fun st r => (st ++ [r], st ++ [r])
  intz := fun s => s
  entropy := fun n => -((n : Int) + 1)
  srandTo := fun v => 7 :: v

def srcOf (c : Int) : Src := if c < 0 then .unknown else srcOfCode c.toNat

def tableOf : List Int → Table
  | c :: s :: rest => ⟨srcOf c, s != 0⟩ :: tableOf rest
  | _ => []

/-- decode the `.pyx` event lists (`-1` terminated) -/
def pyxOf (xs : List Int) : List (List String) :=
  let tok (x : Int) : String := if x = 0 then "srand:seed" else if x = 1 then "srand:other" else "rand"
  let r := xs.foldl (fun (acc : List (List String) × List String) x =>
    if x = -1 then (acc.1 ++ [acc.2], []) else (acc.1, acc.2 ++ [tok x])) ([], [])
  r.1

/-- `srand(seed)` first, per kernel index, decided by the model's own predicate -/
def flagsOf (xs : List Int) : List Bool := (pyxOf xs).map pyxSrandFirst

/-- the body program of one recorded call: its statements in order; output = key ++ values seen
(the values of private draws and the results of the kernel runs) -/
def progOf (flags : List Bool) (key : List Int) : List Int → List Int → Sym → Prog Int Sym (List Int)
  | kind :: site :: r :: es, acc, last =>
    if kind = 0 then .draw site.toNat r fun v => progOf flags key es (acc ++ v ++ [-999]) v
    else if kind = 1 then .reseed site.toNat (progOf flags key es acc last)
    else kernelProg (flags.getD site.toNat false) last r fun x => progOf flags key es (acc ++ x ++ [-999]) last
  | _, acc, _ => .ret (key ++ acc)

/-- G = (key, statements), A = Unit -/
def bodyOf (flags : List Bool) (g : List Int × List Int) (_ : Unit) : Prog Int Sym (List Int) :=
  progOf flags g.1 g.2 [] []

def opOf : List Int → Option (Op Int Int (List Int × List Int) Unit)
  | 0 :: inst :: key :: seed :: evs => some (.call ([key], evs) () inst.toNat (if seed < 0 then none else some seed))
  | [1, inst] => some (.newInst inst.toNat)
  | [2, w, r] => some (.drawGlobal w.toNat r)
  | [3, w, s] => some (.seedGlobal w.toNat s)
  | [4, src, dst] => some (.clone src.toNat dst.toNat)
  | _ => none

def initState : State Sym Sym := ⟨fun i => [1, (i : Int)], [2], [3], [4], [5], 0⟩

/-- first-occurrence numbering -/
def number {α} [BEq α] (xs : List α) : List Int := Id.run do
  let mut seen : Array α := #[]
  let mut out : Array Int := #[]
  for x in xs do
    match seen.findIdx? (· == x) with
    | some i => out := out.push i
    | none => out := out.push seen.size; seen := seen.push x
  return out.toList

/-- states after every prefix of the history, using the very `step` of the model -/
def states (t : Table) (fl : List Bool) :
    State Sym Sym → List (Op Int Int (List Int × List Int) Unit) → List (State Sym Sym)
  | st, [] => [st]
  | st, op :: ops => st :: states t fl (step t symOps (bodyOf fl) st op).1 ops

def opHist (nInst : Nat) (t : Table) (fl : List Bool) (ops : List (Op Int Int (List Int × List Int) Unit)) : String :=
  let sts := states t fl initState ops
  let outs := (run t symOps (bodyOf fl) initState ops).2.filterMap id
  okG [number (sts.map (·.np)), number (sts.map (·.torch)), number (sts.map (·.py)),
       number (sts.flatMap fun st => (List.range nInst).map st.priv), number outs, number (sts.map (·.libc))]

def opAcs (t : Table) (fl : List Bool) (seed : Int) (lead rest : List Int) : String :=
  let sd := if seed < 0 then none else some seed
  -- lead returns the values it saw; `rest` continues from them
  let leadP : Prog Int Sym (List Int) := progOf fl [] lead [] []
  let acsP := withAcs leadP (fun x => x) (fun x => progOf fl [] rest x []) true
  let maskP := withAcs leadP (fun x => x) (fun x => progOf fl [] rest x []) false
  let cur := symOps.seedTo (effSeedE symOps sd 0).1
  let a := runIn t symOps sd acsP cur (effSeedE symOps sd 0).2 [5]
  let m := runIn t symOps sd maskP cur (effSeedE symOps sd 0).2 [5]
  let enc (tr : List (Nat × Int)) : List Int := tr.flatMap fun (s, r) => [(s : Int), r]
  -- values: the output lists are `v ++ [-999]` blocks; number the blocks of both calls together
  let blocks (o : List Int) : List (List Int) :=
    (o.foldl (fun (acc : List (List Int) × List Int) x =>
      if x = -999 then (acc.1 ++ [acc.2], []) else (acc.1, acc.2 ++ [x])) ([], [])).1
  let ids := number (blocks a.out ++ blocks m.out)
  okG [[b2i ((enc a.trace).isPrefixOf (enc m.trace))], enc a.trace, enc m.trace, ids]

def step (op : String) (gs : List (List Int)) : String :=
  match op, gs with
  | "hist", [nInst] :: tbl :: pyx :: ops =>
    match ops.mapM opOf with
    | some os => opHist nInst.toNat (tableOf tbl) (flagsOf pyx) os
    | none => "err BadOp"
  | "acs", [tbl, pyx, [seed], lead, rest] => opAcs (tableOf tbl) (flagsOf pyx) seed lead rest
  | _, _ => "err BadOp"

end DirectVerif.Driver.C05
