import DirectVerif.Driver.C04
import DirectVerif.Model.C06Seed
import DirectVerif.Model.C06Crop
/-! C06 shares the line-protocol interpreter of `Model/MaskGeom.lean` with C04 and adds the object machine of
`Model/C06Seed.lean` (`acs_hist`) and the exact float glue of `Model/C06Round.lean` (`num_low`, `fl53`). -/
namespace DirectVerif.Driver.C06
open DirectVerif DirectVerif.Driver DirectVerif.MaskGeom DirectVerif.C06Seed DirectVerif.C06Round DirectVerif.C06Crop

/-- `cfNum cfDen accNum accDen (rows cols radius)*` -/
def pairOf (g : List Int) : Option PairCfg :=
  match g with
  | cn :: cd :: an :: ad :: rest =>
    some { cfNum := cn.toNat, cfDen := cd.toNat, accNum := an.toNat, accDen := ad.toNat,
           radii := (chunksOf 3 rest).map fun t => (((t.getD 0 0).toNat, (t.getD 1 0).toNat), t.getD 2 0) }
  | _ => none

/-- `seedIdx return_acs shape…` -/
def callOf (g : List Int) : Option (Call Nat) :=
  match g with
  | s :: r :: shape => some { shape := nats shape, seed := s.toNat, returnAcs := r != 0 }
  | _ => none

def errCode : Err → Int
  | .valueError => 1 | .runtimeError => 2 | .indexError => 3

/-- `acs_hist gid mode npairs | choices | pair_1 | … | pair_n | call_1 | … | call_m`: the whole history runs on ONE
object of the machine (`run`); the answers of the `return_acs` requests are printed (`shape | packed rows`, or
`-1 | error code`).  The stream is the table `seed index ↦ RandomState(seed).randint(0, npairs)`. -/
def opAcsHist (hdr choices : List Int) (rest : List (List Int)) : String :=
  match hdr with
  | [gid, mi, np] =>
    match C04.genOf gid, C04.modeOf mi with
    | some g, some m =>
      let n := np.toNat
      match (rest.take n).mapM pairOf, (rest.drop n).mapM callOf with
      | some pairs, some calls =>
        let ops := tableOps (nats choices) [] []
        let cfg := pairsCfg g m pairs
        let answers := (run ops cfg newObj calls).1
        let out := (calls.zip answers).filter (fun ca => ca.1.returnAcs) |>.flatMap fun ca =>
          match ca.2 with
          | .ok t => [t.shape.map Int.ofNat, (chunksOf (colsOf ca.1.shape) t.data).map C04.pack]
          | .error e => [[-1], [errCode e]]
        okG out
      | _, _ => "err BadOp"
    | _, _ => "err BadOp"
  | _ => "err BadOp"

def step (op : String) (gs : List (List Int)) : String :=
  match op, gs with
  | "acs_hist", hdr :: choices :: rest => opAcsHist hdr choices rest
  -- `num_low gid cols | cfNum cfDen accNum accDen`: the ACS width the generator's glue computes
  | "num_low_exact", [[gid, cols], [cn, cd, an, ad, isInt]] =>
    match C04.genOf gid with
    | some g =>
      let p : PairCfg := { cfNum := cn.toNat, cfDen := cd.toNat, accNum := an.toNat, accDen := ad.toNat, radii := [] }
      if ctorAccepts g p (isInt != 0) then okG [[numLow g cols.toNat p]] else "err ValueError"
    | none => "err BadOp"
  -- `num_low_value gid cols | cfNum cfDen accNum accDen`: the width as a function of the VALUES alone (no constructor
  -- guard: also for the unguarded base classes Random / Equispaced / Magic, whatever object carries the numbers)
  | "num_low_value", [[gid, cols], [cn, cd, an, ad]] =>
    match C04.genOf gid with
    | some g => okG [[numLow g cols.toNat { cfNum := cn.toNat, cfDen := cd.toNat, accNum := an.toNat, accDen := ad.toNat, radii := [] }]]
    | none => "err BadOp"
  -- `disc_probe rows cols radius | x0 y0 x1 y1 …`: `centered_disk_mask` at single cells (large k-space sizes)
  | "disc_probe", [[rows, cols, radius], cells] =>
    okG [(chunksOf 2 cells).map fun c => b2i (inDisk rows.toNat cols.toNat radius (c.getD 0 0).toNat (c.getD 1 0).toNat)]
  -- `fl53 num den`: the binary64 nearest to num / den, and Python's round / int of it
  | "fl53", [[num, den]] =>
    let p := fl53 num.toNat den.toNat
    let g := Nat.gcd p.1 p.2
    okG [[Int.ofNat (p.1 / g), Int.ofNat (p.2 / g)], [Int.ofNat (roundHalfEven p.1 p.2), Int.ofNat (truncQ p.1 p.2)]]
  -- `poisson_crop rows cols radius crop | packed raster rows`: one VD-Poisson frame as the code assembles it now,
  -- and whether the ACS disc is a subset of it
  | "poisson_crop", [[rows, cols, radius, crop], packed] =>
    let raster := (packed.map (C04.unpack cols.toNat)).flatten
    let m := poissonFrame (crop != 0) rows.toNat cols.toNat radius raster
    okG [(chunksOf cols.toNat m).map C04.pack, [b2i (subsetB (centeredDisk rows.toNat cols.toNat radius) m)]]
  | _, _ => DirectVerif.Driver.C04.step op gs

end DirectVerif.Driver.C06
