import DirectVerif.Driver.C04
/-! C06 shares the line-protocol interpreter of `Model/MaskGeom.lean` with C04. -/
namespace DirectVerif.Driver.C06

def step (op : String) (gs : List (List Int)) : String := DirectVerif.Driver.C04.step op gs

end DirectVerif.Driver.C06
