import DirectVerif.Driver.Common
import DirectVerif.Model.Complex
namespace DirectVerif.Driver.C02
open DirectVerif DirectVerif.Driver DirectVerif.Cx

def toReal (shape data : List Int) : Except String (Tensor Rat) :=
  match mkT shape data with
  | none => .error "BadOp"
  | some t => .ok ⟨t.shape, t.data.map fun (v : Int) => (v : Rat)⟩

/-- real-layout integer tensor `(…, 2)` → complex tensor over `Rat` (the model's `viewAsComplex`) -/
def toCx (shape data : List Int) : Except String (Tensor (Cpx Rat)) := do
  let t ← toReal shape data
  match viewAsComplex t with
  | none => .error "AssertionError"
  | some z => .ok z

def fmtRats (shape : List Nat) (qs : List Rat) : String :=
  let nums := qs.map (·.num)
  let dens := qs.map fun q => (q.den : Int)
  if dens.all (· == 1) then okG [shape.map Int.ofNat, nums] else okG [shape.map Int.ofNat, nums, dens]

def fmtCx (t : Tensor (Cpx Rat)) : String :=
  if !t.wellFormed then "err RuntimeError" else
  let r := viewAsReal t
  fmtRats r.shape r.data

def fmtReal (t : Tensor Rat) : String :=
  if !t.wellFormed then "err RuntimeError" else fmtRats t.shape t.data

/-- axis given for the real-layout tensor → axis of the complex-level tensor (the trailing pair axis
is not addressable) -/
def cdim (d : Int) : Option Int := if d = -1 then none else some (if d < 0 then d + 1 else d)

def inRange (rank : Nat) (d : Int) : Bool := decide (-(rank : Int) ≤ d ∧ d < (rank : Int))

def rows {α} (n m : Nat) (xs : List α) : List (List α) := (List.range n).map fun i => (xs.drop (i * m)).take m

/-- `complex_mm` on real-layout `(n, m, 2)`, `(m', p, 2)` -/
def opMM (a b : Tensor (Cpx Rat)) : Except String (Tensor (Cpx Rat)) :=
  match a.shape, b.shape with
  | [n, m], [m', p] =>
    if m ≠ m' then .error "RuntimeError" else
    .ok ⟨[n, p], (cmm p (rows n m a.data) (rows m p b.data)).flatten⟩
  | _, _ => .error "RuntimeError"

def opBMM (a b : Tensor (Cpx Rat)) : Except String (Tensor (Cpx Rat)) :=
  match a.shape, b.shape with
  | [ba, n, m], [bb, m', p] =>
    if m ≠ m' ∨ ba ≠ bb then .error "RuntimeError" else
    let As := rows ba (n * m) a.data
    let Bs := rows bb (m * p) b.data
    .ok ⟨[ba, n, p], (List.zipWith (fun x y => (cmm p (rows n m x) (rows m p y)).flatten) As Bs).flatten⟩
  | _, _ => .error "RuntimeError"

def run (r : Except String String) : String :=
  match r with
  | .ok s => s
  | .error e => "err " ++ e

def step (op : String) (gs : List (List Int)) : String :=
  match op, gs with
  | "cmul", [sa, da, sb, db] => run do
    let a ← toCx sa da; let b ← toCx sb db
    return fmtCx (cmulT a b)
  | "conj", [sa, da] => run do
    let a ← toCx sa da
    return fmtCx (conjT a)
  | "cdiv", [sa, da, sb, db] => run do
    let a ← toCx sa da; let b ← toCx sb db
    return fmtCx (cdivT a b)
  | "sdiv", [sa, da, sb, db] => run do
    let a ← toReal sa da; let b ← toReal sb db
    return fmtReal (safeDivT a b)
  | "modif", [sa, da, [ax]] => run do
    let a ← toReal sa da
    if !(inRange a.shape.length ax) then throw "IndexError"
    let (isC, r) := modSqIfComplex a ax
    return (if isC then "ok 1 | " else "ok 0 | ") ++ ((fmtReal r).drop 3).toString
  | "modsq", [sa, da, [ax]] => run do
    let a ← toReal sa da
    if !(inRange a.shape.length ax) then throw "IndexError"
    if a.shape.getD (normAxis a.shape.length ax) 0 ≠ 2 then throw "AssertionError"
    return fmtReal (modSqAxis a ax)
  | "rss", [sa, da, [dim, cdimArg]] => run do
    let a ← toReal sa da
    let r := a.shape.length
    if a.shape.getLast? = some 2 then
      if !(inRange r cdimArg) then throw "IndexError"
      if !(inRange (r - 1) dim) then throw "IndexError"
    else if !(inRange r dim) then throw "IndexError"
    return fmtReal (rssSqReal a dim cdimArg)
  | "cdot", [sa, da, sb, db, dims] => run do
    let a ← toCx sa da; let b ← toCx sb db
    let prod := cmulT (conjT a) b
    if !prod.wellFormed then throw "RuntimeError"
    let ds ← match dims.mapM cdim with | some ds => pure ds | none => throw "BadOp"
    if ds.any fun d => !(inRange prod.shape.length d) then throw "IndexError"
    return fmtCx (cdotT a b ds)
  | "mm", [sa, da, sb, db] => run do
    let a ← toCx sa da; let b ← toCx sb db
    return fmtCx (← opMM a b)
  | "bmm", [sa, da, sb, db] => run do
    let a ← toCx sa da; let b ← toCx sb db
    return fmtCx (← opBMM a b)
  | "expand", [sx, dx, ss, ds, [dim]] => run do
    let x ← toCx sx dx; let s ← toCx ss ds
    let d ← match cdim dim with | some d => pure d | none => throw "BadOp"
    if !(decide (-(x.shape.length : Int) - 1 ≤ d ∧ d ≤ (x.shape.length : Int))) then throw "IndexError"
    return fmtCx (expandOp x s d)
  | "reduce", [sy, dy, ss, ds, [dim]] => run do
    let y ← toCx sy dy; let s ← toCx ss ds
    let d ← match cdim dim with | some d => pure d | none => throw "BadOp"
    let prod := cmulT (conjT s) y
    if !prod.wellFormed then throw "RuntimeError"
    if !(inRange prod.shape.length d) then throw "IndexError"
    return fmtCx (reduceOp y s d)
  | "tcn", [sa, da] => run do          -- tensor_to_complex_numpy: shape | real parts | imaginary parts
    let z ← toCx sa da
    return okG [z.shape.map Int.ofNat, z.data.map (·.re.num), z.data.map (·.im.num)]
  | "vrt", [sa, da] => run do          -- view_as_real (view_as_complex x)
    let a ← toReal sa da
    match viewAsComplex a with
    | none => throw "RuntimeError"
    | some z => return fmtReal (viewAsReal z)
  | _, _ => "err BadOp"

end DirectVerif.Driver.C02
