import DirectVerif.Driver.Common
import DirectVerif.Model.SslSplit
import DirectVerif.Model.SslHistory
/-!
Line-protocol interpreter of the C11 model.

  gsplit  nrow ncol keep a0 a1 c p q | mask | acs | xs | ys      -> ok input | target | n free
  usplit  nrow ncol keep a0 a1 count p q | mask | acs | chosen   -> ok input | target | count free   (last group empty when nothing is drawn)
  hsplit  nrow ncol keep a0 a1 dir form | mask | acs | xs | ys (float32 linspace values, one integer scale)                        -> ok input | target
  seed    | filename code points | slice code points             -> ok seed | tuple
  fwd     kind B C nrow ncol keep a0 a1 dir useSeed | <per sample: mask | acs | filename | slice | kspace |
          c p q idx seed | tuple | xs-or-chosen | ys>             -> ok <per sample: in | tgt | inK | tgtK>

  ssl_out cells | input mask | target mask | masked k-space | prediction -> ok projected prediction | loss reference

`c` / `count` is the float32-derived integer computed by the harness (its own emulation of the float32 product); it
must equal the count of the model's float32 product (`countCeilF32` / `countFloorF32`), else `err CountOutsideRatio`.
  f32count S p q -> ok ceil floor ratioCeil ratioFloor
  mshape  | sampling-mask shape | collated k-space shape -> ok split-mask shape | broadcasts aligned
  hist    <as fwd; the B samples are the successive calls on ONE splitter object>  -> as fwd   (`runHist`, no memo)
  seedx   salt | filename code points | slice code points -> ok seed | tuple   (seed derivation in a process with that hash salt)
  eng_in  | joint train isSsl hasMask -> ok k m   (1/3 = input_kspace / input_sampling_mask, 2/4 = masked_kspace / sampling_mask, 0 = no mask)
  ctor    | p q p q …                                      -> ok 1 / err ValueError (every ratio p/q must be in (0, 1))
-/
namespace DirectVerif.Driver.C11
open DirectVerif DirectVerif.Driver DirectVerif.SslSplit

def toGrid (xs : List Int) : Grid := xs.map (· != 0)
def ofGrid (g : Grid) : List Int := g.map SslSplit.b2i
def isBits (xs : List Int) : Bool := xs.all fun v => v == 0 || v == 1
def pairs (xs ys : List Int) : List (Int × Int) := List.zip xs ys

def dirOf : Int → Option Dir
  | 0 => some .horizontal
  | 1 => some .vertical
  | 2 => some .diagLeft
  | 3 => some .diagRight
  | _ => none

/-- the requested count must be the one the float32 model of the product yields -/
def ceilSlackOk (S p q c : Int) : Bool := 0 ≤ S && 0 ≤ p && 0 < q && c == countCeilF32 S.toNat p.toNat q.toNat
def floorSlackOk (S p q c : Int) : Bool := 0 ≤ S && 0 ≤ p && 0 < q && c == countFloorF32 S.toNat p.toNat q.toNat

structure Shape where
  nrow : Nat
  ncol : Nat
  mask : Grid
  acs : Grid

/-- shape / argument checks shared by the split ops; `acs = []` stands for `acs_mask=None` -/
def mkShape (nrow ncol keep : Int) (mask acs : List Int) : Except String Shape :=
  if nrow < 2 || ncol < 2 then .error "err BadOp" else
  if mask.length ≠ (nrow * ncol).toNat || !isBits mask || !isBits acs then .error "err BadOp" else
  if keep != 0 && acs.isEmpty then .error "err ValueError" else
  if keep != 0 && acs.length ≠ mask.length then .error "err BadOp" else
  .ok { nrow := nrow.toNat, ncol := ncol.toNat, mask := toGrid mask,
        acs := if keep != 0 then toGrid acs else zeros mask.length }

def opGSplit (hdr mask acs xs ys : List Int) : String :=
  match hdr with
  | [nrow, ncol, keep, a0, a1, c, p, q] =>
    match mkShape nrow ncol keep mask acs with
    | .error e => e
    | .ok s =>
      if q ≤ 0 || xs.length ≠ ys.length then "err BadOp" else
      let kp := keep != 0
      let S := cnt (reducedMask kp s.mask s.acs)
      if !ceilSlackOk S p q c then "err CountOutsideRatio" else
      let free := cnt (freeMask kp a0 a1 s.nrow s.ncol s.mask s.acs)
      match gaussianSplit kp a0 a1 s.nrow s.ncol s.mask s.acs c (pairs xs ys) with
      | none => "err Exhausted"
      | some (i, t) => okG [ofGrid i, ofGrid t, [capRequest c free, free]]
  | _ => "err BadOp"

def uerr : UErr → String
  | .nanProb => "err ValueError"
  | .badDraw => "err BadDraw"

def opUSplit (hdr mask acs chosen : List Int) : String :=
  match hdr with
  | [nrow, ncol, keep, a0, a1, count, p, q] =>
    match mkShape nrow ncol keep mask acs with
    | .error e => e
    | .ok s =>
      if q ≤ 0 || count < 0 || chosen.any (· < 0) then "err BadOp" else
      let kp := keep != 0
      let free := cnt (freeMask kp a0 a1 s.nrow s.ncol s.mask s.acs)
      if !floorSlackOk free p q count then "err CountOutsideRatio" else
      match uniformSplit kp a0 a1 s.nrow s.ncol s.mask s.acs count.toNat (nats chosen) with
      | .error e => uerr e
      | .ok (i, t) => okG [ofGrid i, ofGrid t, if count == 0 || free == 0 then [] else [count, free]]
  | _ => "err BadOp"

def formOf : Int → Option OptForm
  | 0 => some .member
  | 1 => some .lower
  | 2 => some .upper
  | 3 => some .mixed
  | _ => none

/-- `form`: how the direction option was handed over (enum member / lower / UPPER / MiXeD-case string); the code
compares it with `==`, under which every form selects the same branch (`resolveDir .eq`) -/
def opHSplit (hdr mask acs xs ys : List Int) : String :=
  match hdr with
  | [nrow, ncol, keep, a0, a1, dir, form] =>
    match mkShape nrow ncol keep mask acs, dirOf dir, formOf form with
    | .error e, _, _ => e
    | _, none, _ => "err BadOp"
    | _, _, none => "err BadOp"
    | .ok s, some d, some f =>
      match resolveDir .eq f d with
      | none => "err NoBranch"
      | some d' =>
        let (i, t) := halfSplit d' xs ys (keep != 0) a0 a1 s.nrow s.ncol s.mask s.acs
        okG [ofGrid i, ofGrid t]
  | _ => "err BadOp"

def outGroups (o : SplitOut) : List (List Int) :=
  [ofGrid o.inputMask, ofGrid o.targetMask, o.inputK, o.targetK]

/-- one sample of `forward`; `rest` = mask | acs | filename | slice | kspace | c p q idx seed | tuple | d0 | d1 -/
def fwdSample (kind nrow ncol keep a0 a1 dir useSeed coils : Int) (g : List (List Int)) : Except String (List (List Int)) :=
  match g with
  | [mask, acs, filename, slice, k, [c, p, q, idx, seed], tuple, d0, d1] =>
    match mkShape nrow ncol keep mask acs with
    | .error e => .error e
    | .ok s =>
      if k.length ≠ (coils * nrow * ncol * 2).toNat || q ≤ 0 then .error "err BadOp" else
      let kp := keep != 0
      let us := useSeed != 0
      let amb : Ambient := { entropy := nats tuple, globalDraw := seed }
      if kind == 2 then
        match dirOf dir with
        | none => .error "err BadOp"
        | some d => .ok (outGroups (forwardHalf d d0 d1 kp a0 a1 s.nrow s.ncol s.mask s.acs k))
      else if kind == 0 then
        let S := cnt (reducedMask kp s.mask s.acs)
        if !ceilSlackOk S p q c then .error "err CountOutsideRatio" else
        let src : Sources :=
          { ratioIdx := fun t _ => if t = nats tuple then idx.toNat else 0
            choice := fun _ _ _ => []
            candidates := fun sd _ _ _ => if sd = seed then pairs d0 d1 else [] }
        let cfg : Cfg := { keep := kp, a0 := a0, a1 := a1, useSeed := us, request := fun _ _ => c, nRatios := 1 }
        match forwardGaussian src cfg amb 0 s.nrow s.ncol (nats filename) (nats slice) s.mask s.acs k with
        | none => .error "err Exhausted"
        | some o => .ok (outGroups o)
      else if kind == 1 then
        let free := cnt (freeMask kp a0 a1 s.nrow s.ncol s.mask s.acs)
        if c < 0 || !floorSlackOk free p q c then .error "err CountOutsideRatio" else
        let src : Sources :=
          { ratioIdx := fun t _ => if t = nats tuple then idx.toNat else 0
            choice := fun t _ _ => if t = nats tuple then nats d0 else [0, 0]
            candidates := fun _ _ _ _ => [] }
        let cfg : Cfg := { keep := kp, a0 := a0, a1 := a1, useSeed := us, request := fun _ _ => c, nRatios := 1 }
        match forwardUniform src cfg amb s.nrow s.ncol (nats filename) (nats slice) s.mask s.acs k with
        | .error e => .error (uerr e)
        | .ok o => .ok (outGroups o)
      else .error "err BadOp"
  | _ => .error "err BadOp"

def opFwd (hdr : List Int) (rest : List (List Int)) : String :=
  match hdr with
  | [kind, B, C, nrow, ncol, keep, a0, a1, dir, useSeed] =>
    if rest.length ≠ (9 * B).toNat then "err BadOp" else
    let samples := chunksOf 9 rest
    match samples.mapM (fwdSample kind nrow ncol keep a0 a1 dir useSeed C) with
    | .error e => e
    | .ok gs => okG gs.flatten
  | _ => "err BadOp"

/-- a history of calls on one splitter object: the model object keeps nothing between calls (`memo = none`) -/
def opHist (hdr : List Int) (rest : List (List Int)) : String :=
  match hdr with
  | [kind, B, C, nrow, ncol, keep, a0, a1, dir, useSeed] =>
    if rest.length ≠ (9 * B).toNat then "err BadOp" else
    let outs := runHist (κ := Unit) none 0 (fwdSample kind nrow ncol keep a0 a1 dir useSeed C) [] (chunksOf 9 rest)
    match outs.mapM id with
    | .error e => e
    | .ok gs => okG gs.flatten
  | _ => "err BadOp"

def ratioPairsOk : List Int → Option Bool
  | [] => some true
  | [_] => none
  | p :: q :: rest => if q ≤ 0 then none else (ratioPairsOk rest).map (fun b => ratioValid p q && b)

def step (op : String) (gs : List (List Int)) : String :=
  match op, gs with
  | "hist", hdr :: rest => opHist hdr rest
  | "seedx", [[salt], filename, slice] =>
    if filename.isEmpty && slice.isEmpty || salt < 0 then "err ValueError" else
    let t := seedOfCode { salt := salt.toNat } (nats filename) (nats slice)
    okG [[gaussianSeed t], t.map Int.ofNat]
  | "eng_in", [_, [joint, train, isSsl, hasMask]] =>
    let u := engineUsesSplit (joint != 0) (train != 0) (isSsl != 0)
    okG [[if u then 1 else 2, if hasMask != 0 then (if u then 3 else 4) else 0]]
  | "ctor", [_, rs] =>
    match ratioPairsOk rs with
    | none => "err BadOp"
    | some true => if rs.isEmpty then "err BadOp" else okG [[1]]
    | some false => "err ValueError"
  | "gsplit", [hdr, mask, acs, xs, ys] => opGSplit hdr mask acs xs ys
  | "usplit", [hdr, mask, acs, chosen] => opUSplit hdr mask acs chosen
  | "hsplit", [hdr, mask, acs, xs, ys] => opHSplit hdr mask acs xs ys
  | "seed", [_, filename, slice] =>
    if filename.isEmpty && slice.isEmpty then "err ValueError" else
    let t := seedTuple (nats filename) (nats slice)
    okG [[gaussianSeed t], t.map Int.ofNat]
  | "fwd", hdr :: rest => opFwd hdr rest
  | "mshape", [_, ms, ks] =>
    -- per-sample sampling-mask shape, collated k-space shape (B first) -> split-mask shape | broadcasts, batch axes meet
    match ks with
    | [] => "err BadOp"
    | B :: _ =>
      let m := B.toNat :: splitMaskShape (nats ms)
      okG [(splitMaskShape (nats ms)).map Int.ofNat, [b2i (broadcastsTo m (nats ks)), b2i (batchAligned m (nats ks))]]
  | "f32count", [[S, p, q]] =>
    if S < 0 || p < 0 || q ≤ 0 then "err BadOp" else
    okG [[countCeilF32 S.toNat p.toNat q.toNat, countFloorF32 S.toNat p.toNat q.toNat, ratioCeil S p q, ratioFloor S p q]]
  | "ssl_out", [[cells], i, t, k, pred] =>
    if cells ≤ 0 || i.length ≠ cells.toNat || t.length ≠ cells.toNat || pred.length ≠ k.length || !isBits i || !isBits t then
      "err BadOp"
    else
      okG [sslOutput cells.toNat (toGrid i) (toGrid t) (applyMaskK cells.toNat (toGrid i) k) pred,
           applyMaskK cells.toNat (toGrid t) k]
  | _, _ => "err BadOp"

end DirectVerif.Driver.C11
