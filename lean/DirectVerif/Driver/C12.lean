import DirectVerif.Driver.Common
import DirectVerif.Model.Dataset
/-!
Line protocol of C12.

* `parse  F | ids | ns`                 → `ok dataFile | dataSlice | volFile | volStart | volStop | len`
* `items  F | ids | ns | c | idxs`      → one group per index: `file slice e₀ … e_k` (entry = 1000·file + slice, 0 = zero
                                           block) or `-1 <err>`
* `dataset hdr | F | poolIds | poolNs | listing | filter | regexIds | extraNs | idxs | lists…` → data / vols / items of an
  `H5SliceData` / `FastMRIDataset` / `CalgaryCampinasDataset` built from constructor arguments
* `cmr ctx mode rootGiven | poolIds | as | bs | sel | idxs | lists…` → data / vols / items of a `CMRxReconDataset`
  (`mode` 0: `sel` is the directory listing in OS order, 1: `filenames_filter`, 2: `filenames_lists`)
* `locate sizes | idx`                  → `ok d j`
* `locatex objSizes | pattern | idx ty` → `ok d obj j` (`ConcatDataset` with repeated objects, `ty` = index type code, not read)
* `bisect xs | x`                       → `ok n` (`bisect.bisect_right`, any list)
* `sliceidx F | n`                      → `ok start stop step | len(range) | list(range)` or `err ValueError`
* `dedup xs`                            → `ok list(dict.fromkeys(xs))`
* `fakeidx sampleSize ndim shape0 | given | seeds | idxs` → names / data / vols / items of a `FakeMRIBlobsDataset`
* `sheppidx nz | idxs`                  → per index `renderedSlice seedIndex reportedSliceNo` or `-1 <err>`
* `fake   coils seed given | shape`     → `ok finalGlobal | blobsSource + requests | offsetSource`
* `shepp  coils seed zero | nx ny`      → `ok finalGlobal | offsetSource | noiseSource`

`F` = `0` (no filter) | `2` (truthy non-slice) | `1 hasStart start hasStop stop hasStep step`;
`ns[i] = -1` marks an unreadable file.
-/
namespace DirectVerif.Driver.C12
open DirectVerif DirectVerif.Driver DirectVerif.Dataset

def errName : Err → String
  | .valueError => "ValueError"
  | .indexError => "IndexError"
  | .notImplemented => "NotImplementedError"
  | .assertionError => "AssertionError"

def errCode : Err → Int
  | .valueError => 1
  | .indexError => 2
  | .notImplemented => 3
  | .assertionError => 4

def parseFilter : List Int → Option FilterArg
  | [0] => some .none
  | [2] => some .other
  | [1, hs, s, hp, p, ht, t] =>
    some (.slice ⟨if hs = 0 then none else some s, if hp = 0 then none else some p,
                  if ht = 0 then none else some t⟩)
  | _ => none

def mkFiles (ids ns : List Int) : List (Int × Option Nat) :=
  (ids.zip ns).map fun (f, n) => (f, if n < 0 then none else some n.toNat)

def encEntry (f : Int) : Entry → Int
  | .slice i => 1000 * f + i
  | .zero => 0

def opParse (F : FilterArg) (ids ns : List Int) : String :=
  match parseChecked (mkFiles ids ns) F with
  | .error e => "err " ++ errName e
  | .ok P =>
    okG [P.data.map (·.1), P.data.map fun x => (x.2 : Int), P.vols.map (·.1),
         P.vols.map fun x => (x.2.1 : Int), P.vols.map fun x => (x.2.2 : Int), [(P.data.length : Int)]]

def opItems (F : FilterArg) (ids ns : List Int) (c : Nat) (idxs : List Int) : String :=
  match parseChecked (mkFiles ids ns) F with
  | .error e => "err " ++ errName e
  | .ok P =>
    let nOf (f : Int) : Nat := ((ids.zip ns).lookup f).getD 0 |>.toNat
    okG (idxs.map fun idx =>
      match h5Item P nOf c idx with
      | .error e => [-1, errCode e]
      | .ok (f, s, es) => f :: (s : Int) :: es.map (encEntry f))

def encOps (g : List GOp) : List Int :=
  g.flatMap fun
    | .init => [0]
    | .seed s => [1, (s : Int)]
    | .uniform => [2]
    | .randn k => [3, (k : Int)]
    | .uniformN k => [5, (k : Int)]
    | .normalN k => [6, (k : Int)]
    | .shuffleN n => [7, (n : Int)]

def encExtra (f : Int) : Entry → Int
  | .slice i => 500000 + 1000 * f + i
  | .zero => 0

/-- entries of `filter` / `lists` are given as `10000 · form + normalised id` (two entries are equal *as given* iff the codes
are equal, equal as `pathlib.Path` objects iff the normalised ids are); normalised id = `1000 · class + file` (class 4: the
file of the same name in the companion directory, whose content is labelled `500000 + …`) -/
def normEntry (e : Int) : Int := e % 10000
def contentBase (f : Int) : Int := (if f / 1000 = 4 then 500000 else 0) + 1000 * (f % 1000)
def encMain (f : Int) : Entry → Int
  | .slice i => contentBase f + i
  | .zero => 0
def encComp (f : Int) : Entry → Int
  | .slice i => 500000 + 1000 * (f % 1000) + i
  | .zero => 0

/-- `dataset cls crop ctxArg mode listsRootGiven hasRegex hasExtra | F | poolIds | poolNs | listing | filter |
regexIds | extraNs | idxs | list₀ | list₁ …` -/
def opDataset (hdr : List Int) (Farg : FilterArg) (poolIds poolNs listing filter regexIds extraNs idxs : List Int)
    (lists : List (List Int)) : String :=
  match hdr with
  | [cls, crop, ctxArg, mode, rootGiven, hasRegex, hasExtra] =>
    let cl : H5Class := if cls = 1 then .fastmri else if cls = 2 then .calgary else .h5
    let (F, c) := classParams cl (crop ≠ 0) Farg ctxArg.toNat
    let sel : Selection Int :=
      { listing := listing
        filter := if mode = 1 ∨ mode = 3 then some filter else none
        lists := if mode = 2 ∨ mode = 3 then some lists else none
        listsRootGiven := rootGiven ≠ 0
        hasRegex := hasRegex ≠ 0
        regexOk := fun _ => true }
    let nOf (f : Int) : Option Nat :=
      match (poolIds.zip poolNs).lookup f with
      | some n => if n < 0 then none else some n.toNat
      | none => none
    match buildH5Raw listingSortedCurrent dedupCurrent dedupOnNormalisedCurrent normEntry (fun a b => decide (a ≤ b)) sel
        (fun f => regexIds.contains f) nOf F with
    | .error e => "err " ++ errName e
    | .ok P =>
      let nMain (f : Int) : Nat := (nOf f).getD 0
      let nX (f : Int) : Nat := (((poolIds.zip extraNs).lookup f).getD 0).toNat
      okG ([P.data.map (·.1), P.data.map fun x => (x.2 : Int), P.vols.map (·.1),
            P.vols.map fun x => (x.2.1 : Int), P.vols.map fun x => (x.2.2 : Int)] ++
        idxs.map fun idx =>
          match h5Item P nMain c idx with
          | .error e => [-1, errCode e]
          | .ok (f, s, es) =>
            let main := f :: (s : Int) :: es.map (encMain f)
            if hasExtra ≠ 0 then
              match h5ItemExtra P nX c idx with
              | .ok xs => main ++ [-7] ++ xs.map (encComp f)
              | .error e => [-1, errCode e]
            else main)
  | _ => "err BadOp"

def opCmr (ctxCode mode rootGiven : Int) (poolIds as0 bs0 selIds idxs : List Int) (lists : List (List Int)) : String :=
  let ctx : CmrContext := if ctxCode = 1 then .slice else if ctxCode = 2 then .time else .none
  let table := poolIds.zip (as0.zip bs0)
  let sel : Selection Int :=
    { listing := if mode = 0 then selIds else []
      filter := if mode = 1 then some selIds else none
      lists := if mode = 2 then some lists else none
      listsRootGiven := rootGiven ≠ 0
      hasRegex := false, regexOk := fun _ => true }
  let shapeOpt (f : Int) : Option (Nat × Nat) :=
    match table.lookup f with
    | some (a, b) => if a < 0 then none else some (a.toNat, b.toNat)
    | none => none
  match buildCmrRaw cmrListingSortedCurrent dedupCurrent dedupOnNormalisedCurrent normEntry (fun a b => decide (a ≤ b)) sel ctx
      (fun f => shapeOpt (f % 1000)) with
  | .error e => "err " ++ errName e
  | .ok P =>
    let shapeOf (f : Int) : Nat × Nat := (shapeOpt (f % 1000)).getD (0, 0)
    okG ([P.data.map (·.1), P.data.map fun x => (x.2 : Int), P.vols.map (·.1),
          P.vols.map fun x => (x.2.1 : Int), P.vols.map fun x => (x.2.2 : Int)] ++
      idxs.map fun idx =>
        match cmrItem P ctx shapeOf idx with
        | .error e => [-1, errCode e]
        | .ok (f, s, blk) => f :: (s : Int) :: blk.flatMap fun (k, l) => [(k : Int), (l : Int)])

def opSliceIdx (F : FilterArg) (n : Int) : String :=
  match F with
  | .slice sl =>
    if sl.step == some 0 then "err ValueError" else
    let (a, b, st) := sliceIndices sl n
    okG [[a, b, st], [(rangeLen a b st : Int)], pyRange a b st]
  | _ => "err BadOp"

def opFakeIdx (sampleSize : Nat) (ndim shape0 : Int) (given : List Int) (seeds : List Int) (idxs : List Int) : String :=
  match fakeNames given sampleSize (fun b k => b * 100000 + (k : Int)) with
  | .error e => "err " ++ errName e
  | .ok names =>
    let nz := (fakeNumSlices ndim shape0).toNat
    let P := fakeBuild names (nats seeds) nz
    okG ([names, P.data.map (·.1), P.data.map fun x => (x.2.1 : Int), P.data.map fun x => (x.2.2 : Int),
          P.vols.map (·.1), P.vols.map fun x => (x.2.1 : Int), P.vols.map fun x => (x.2.2 : Int)] ++
      idxs.map fun idx =>
        match fakeIndex P idx with
        | .error e => [-1, errCode e]
        | .ok (f, s, sd) => [f, (s : Int), (sd : Int)])

def step (op : String) (gs : List (List Int)) : String :=
  match op, gs with
  | "parse", [f, ids, ns] =>
    match parseFilter f with
    | some F => if ids.length ≠ ns.length then "err BadOp" else opParse F ids ns
    | none => "err BadOp"
  | "items", [f, ids, ns, [c], idxs] =>
    match parseFilter f with
    | some F => if ids.length ≠ ns.length ∨ c < 0 then "err BadOp" else opItems F ids ns c.toNat idxs
    | none => "err BadOp"
  | "dataset", hdr :: f :: poolIds :: poolNs :: listing :: filter :: regexIds :: extraNs :: idxs :: lists =>
    match parseFilter f with
    | some F =>
      if poolIds.length ≠ poolNs.length ∨ poolIds.length ≠ extraNs.length then "err BadOp"
      else opDataset hdr F poolIds poolNs listing filter regexIds extraNs idxs lists
    | none => "err BadOp"
  | "cmr", [ctx, mode, rootGiven] :: ids :: as :: bs :: sel :: idxs :: lists =>
    if ids.length ≠ as.length ∨ ids.length ≠ bs.length then "err BadOp" else opCmr ctx mode rootGiven ids as bs sel idxs lists
  | "bisect", [xs, [x]] =>
    if xs.any (· < 0) then "err BadOp" else okG [[(bisectRightBin (nats xs) x : Int)]]
  | "sliceidx", [f, [n]] =>
    match parseFilter f with
    | some F => if n < 0 then "err BadOp" else opSliceIdx F n
    | none => "err BadOp"
  | "dedup", [xs] => okG [dedupFirst xs]
  | "fakeidx", [[sampleSize, ndim, shape0], given, seeds, idxs] =>
    if sampleSize < 0 ∨ shape0 < 0 ∨ seeds.any (· < 0) then "err BadOp"
    else opFakeIdx sampleSize.toNat ndim shape0 given seeds idxs
  | "sheppidx", [[nz], idxs] =>
    if nz < 1 then "err BadOp" else
    okG (idxs.map fun idx =>
      match sheppIndex nz.toNat idx with
      | .error e => [-1, errCode e]
      | .ok (s, k, r) => [(s : Int), (k : Int), r])
  | "locate", [sizes, [idx]] =>
    if sizes.any (· < 0) then "err BadOp" else
    match concatGet (nats sizes) idx with
    | .ok (d, j) => okG [[(d : Int), (j : Int)]]
    | .error e => "err " ++ errName e
  | "locatex", [objSizes, pattern, [idx, _ty]] =>
    if objSizes.any (· < 0) ∨ pattern.any (fun p => p < 0 ∨ (objSizes.length : Int) ≤ p) then "err BadOp" else
    match concatGetRep (nats objSizes) (nats pattern) idx with
    | .ok (d, o, j) => okG [[(d : Int), (o : Int), (j : Int)]]
    | .error e => "err " ++ errName e
  | "fake", [[coils, seed, given], shape] =>
    if coils < 1 ∨ seed < 0 ∨ given < 0 ∨ shape.any (· < 1) then "err BadOp" else
    let a := blobArgs (nats shape) coils.toNat given.toNat
    let ((b, off), g) := fakeDraws symRng fakeTableCurrent a coils.toNat seed.toNat [GOp.init]
    okG [encOps g, encOps b, encOps (off.getD [])]
  | "shepp", [[coils, seed, zero], [nx, ny]] =>
    if coils < 1 ∨ seed < 0 ∨ nx < 0 ∨ ny < 0 then "err BadOp" else
    let k := sheppNoiseCount coils.toNat nx.toNat ny.toNat
    let ((off, z), g) := sheppDraws symRng sheppTableCurrent coils.toNat seed.toNat (zero ≠ 0) k [GOp.init]
    okG [encOps g, encOps (off.getD []), encOps (z.getD [])]
  | _, _ => "err BadOp"

end DirectVerif.Driver.C12
