import DirectVerif.Driver.Common
import DirectVerif.Model.Train
import DirectVerif.Model.C16Events
/-!
Line-protocol driver for C16 (and the toy glue shared with C15): runs `Train.runRangeT` on the exact
toy instance (linear model, L1 sum loss, SGD with momentum, WarmupMultiStepLR).

  loop  d bs k T pinned | mu_n mu_d | method warmupIters base_n base_d gamma_n gamma_d wf_n wf_d
        | milestones… | X (N·d ints) | y (N ints) | w0 (d ints)
  → ok  (θ₀_n θ₀_d … lr_n lr_d) per iteration        (parameters and logged lr after every iteration)

  hist  d bs k T 0 aux | mu | sched | ms | X | y | w0 | ckSteps valSteps hasVal
        | (total kill(-1 = none) where swv resume stale-batch(-1 = none)) per process | (site touch needsVal) per row of the between-table
  → ok  per process: start n latest(-1 = none) last_epoch | then per completed iteration:
        it θ… lr-in-effect lr-after-scheduler-step            (`C16E.history` on the toy instance)
-/
namespace DirectVerif.Driver.C16
open DirectVerif DirectVerif.Driver DirectVerif.Train

def mkR (n d : Int) : Rat := mkRat n d.toNat
def ratG (r : Rat) : List Int := [r.num, (r.den : Int)]
def vecG (v : Toy.Vec) : List Int := v.flatMap ratG

structure ToyCfg where
  d : Nat
  bs : Nat
  k : Nat
  total : Nat
  mu : Rat
  sched : Sched.MultiStep
  rows : Array (Toy.Vec × Rat)
  w0 : Toy.Vec

def parseMethod : Int → Sched.Warmup
  | 0 => .constant
  | 1 => .linear
  | _ => .unknown

def parseSched : List Int → List Int → Option Sched.MultiStep
  | [m, wi, bn, bd, gn, gd, wn, wd], ms =>
    some { base := mkR bn bd, gamma := mkR gn gd, milestones := ms, wf := mkR wn wd, warmupIters := wi,
           method := parseMethod m }
  | _, _ => none

def parseToy (hdr mu sched ms xs ys w0 : List Int) : Option ToyCfg := do
  let (d, bs, k, total) ← match hdr with
    | d :: bs :: k :: total :: _ => some (d.toNat, bs.toNat, k.toNat, total.toNat)
    | _ => none
  let mu ← match mu with
    | [n, dd] => some (mkR n dd)
    | _ => none
  let sc ← parseSched sched ms
  if d = 0 ∨ xs.length ≠ ys.length * d ∨ w0.length ≠ d ∨ ys.isEmpty then none else
  let xr : List Toy.Vec := (chunksOf d xs).map fun r => r.map fun (i : Int) => (i : Rat)
  let rows := (xr.zip (ys.map fun (i : Int) => (i : Rat))).toArray
  some { d, bs, k, total, mu, sched := sc, rows, w0 := w0.map fun (i : Int) => (i : Rat) }

def ToyCfg.batch (c : ToyCfg) (it : Nat) : Toy.Batch :=
  (List.range c.bs).map fun j => c.rows[(it * c.bs + j) % c.rows.size]!

def ToyCfg.lrAt (c : ToyCfg) (e : Nat) : Rat := (c.sched.lr (e : Int)).getD 0

/-- what the real constructors / loop reject before or while running -/
def ToyCfg.reject (c : ToyCfg) : Option String :=
  if !(Sched.sorted c.sched.milestones) then some "ValueError"
  else if (c.sched.lr 0).isNone then some "ValueError"          -- scheduler construction calls get_lr at last_epoch 0
  else if c.k = 0 ∧ c.total > 0 then some "ZeroDivisionError"
  else none

def ToyCfg.init (c : ToyCfg) : St Toy.Vec (Option Toy.Vec) Toy.Vec Nat :=
  ⟨c.w0, none, List.replicate c.d 0, 0, 0⟩

/-- `aux`: an additional model in `self.models` (parameters `w ++ v`); `oom`: iterations that hit the OOM recovery -/
def opLoop (c : ToyCfg) (pinned aux : Bool) (oom : List Int) : String :=
  match c.reject with
  | some e => "err " ++ e
  | none =>
    let table := if pinned then loopTablePinned else loopTable
    let cfg : Cfg := { k := c.k }
    let ops := if aux then Toy.opsAux c.d c.mu else Toy.ops c.d c.mu
    let init : St Toy.Vec (Option Toy.Vec) Toy.Vec Nat :=
      if aux then ⟨c.w0 ++ List.replicate c.d 0, none, List.replicate (2 * c.d) 0, 0, 0⟩ else c.init
    let isOom : Nat → Bool := fun i => oom.contains (i : Int)
    let states := (List.range c.total).map fun n =>
      if oom.isEmpty then runRangeT table ops c.lrAt cfg c.batch init 0 (n + 1)
      else runRangeO ops c.lrAt cfg c.batch isOom init 0 (n + 1)
    -- one record per *completed* iteration (a skipped one logs nothing)
    let recs := (List.range c.total).zip states |>.filter (fun (n, _) => !isOom n) |>.map (·.2)
    okG (recs.map fun s => vecG s.theta ++ ratG (c.lrAt s.epoch))

/-! ### histories of processes with everything that happens between iterations (`Model/C16Events.lean`) -/

def parseSite : Int → Option C16E.Site
  | 0 => some .prologue | 1 => some .logFirst | 2 => some .validationLoop | 3 => some .checkpoint
  | 4 => some .writeLogs | 5 => some .killSave | _ => none

def parseTouch : Int → Option C16E.Touch
  | 0 => some .zeroGrad | 1 => some .optStep | 2 => some .schedStep | 3 => some .scalerUpdate | 4 => some .backward
  | 5 => some .gradWrite | 6 => some .lrWrite | 7 => some .loadState | 8 => some .doIterUnguarded | _ => none

def parseTable : List Int → Option C16E.Table
  | [] => some []
  | s :: t :: n :: rest => do
    let site ← parseSite s
    let touch ← parseTouch t
    let tl ← parseTable rest
    some ({ site, touch, needsVal := n != 0 } :: tl)
  | _ => none

def parseProcs : List Int → Option (List C16E.Proc)
  | [] => some []
  | total :: kill :: _where :: swv :: res :: stale :: rest => do
    let tl ← parseProcs rest
    some ({ total := total.toNat, kill := if kill < 0 then none else some kill.toNat, swv := swv != 0,
            resume := res != 0, stale := if stale < 0 then none else some stale.toNat } :: tl)
  | _ => none

def opHist (c : ToyCfg) (aux : Bool) (ev : List Int) (procs : List C16E.Proc) (tbl : C16E.Table) : String :=
  match c.reject, ev with
  | some e, _ => "err " ++ e
  | none, [ck, vs, hv] =>
    let cfg : Cfg := { k := c.k }
    let e : C16E.EvCfg := { ckSteps := ck.toNat, valSteps := vs.toNat, hasVal := hv != 0 }
    let ops := if aux then Toy.opsAux c.d c.mu else Toy.ops c.d c.mu
    let init : St Toy.Vec (Option Toy.Vec) Toy.Vec Nat :=
      if aux then ⟨c.w0 ++ List.replicate c.d 0, none, List.replicate (2 * c.d) 0, 0, 0⟩ else c.init
    let out := C16E.history tbl C16E.resumeStart ops c.lrAt cfg e c.batch init none procs
    okG (out.flatMap fun ps =>
      [(ps.start : Int), (ps.recs.length : Int), (match ps.latest with | some (l, _) => (l : Int) | none => -1),
        (ps.s.epoch : Int)] ::
      ps.recs.map fun r => (r.it : Int) :: (vecG r.theta ++ ratG (c.lrAt r.epochBefore) ++ ratG (c.lrAt r.epochAfter)))
  | none, _ => "err BadOp"

def step (op : String) (gs : List (List Int)) : String :=
  match op, gs with
  | "hist", [hdr, mu, sched, ms, xs, ys, w0, ev, procs, tbl] =>
    match parseToy hdr mu sched ms xs ys w0, parseProcs procs, parseTable tbl with
    | some c, some ps, some t => opHist c (hdr.getD 5 0 == 1) ev ps t
    | _, _, _ => "err BadOp"
  | "loop", [hdr, mu, sched, ms, xs, ys, w0] =>
    match parseToy hdr mu sched ms xs ys w0 with
    | some c => opLoop c (hdr.getD 4 0 == 1) (hdr.getD 5 0 == 1) []
    | none => "err BadOp"
  | "loop", [hdr, mu, sched, ms, xs, ys, w0, oom] =>
    match parseToy hdr mu sched ms xs ys w0 with
    | some c => opLoop c (hdr.getD 4 0 == 1) (hdr.getD 5 0 == 1) oom
    | none => "err BadOp"
  | _, _ => "err BadOp"

end DirectVerif.Driver.C16
