import DirectVerif.Model.Basic
/-!
Line-protocol plumbing shared by the per-property drivers.

  OPNAME g0 | g1 | g2 …      (groups of space-separated integers separated by `|`)

Answers: `ok g0 | g1 …` or `err <Kind>`.
A per-property driver is `def step (op : String) (gs : List (List Int)) : String` in
`DirectVerif/Driver/Cxx.lean`; the harness generates the two-line `main` file and runs it with
`lake env lean --run`.
-/
namespace DirectVerif.Driver
open DirectVerif

def parseGroups (s : String) : Option (List (List Int)) :=
  let groups := s.splitOn "|"
  groups.mapM fun g =>
    (g.splitOn " ").filter (· ≠ "") |>.mapM String.toInt?

def fmtInts (xs : List Int) : String := " ".intercalate (xs.map toString)
def fmtGroups (gs : List (List Int)) : String := " | ".intercalate (gs.map fmtInts)
def okG (gs : List (List Int)) : String := "ok " ++ fmtGroups gs
def okT (t : Tensor Int) : String := "ok " ++ fmtGroups [t.shape.map Int.ofNat, t.data]
def nats (xs : List Int) : List Nat := xs.map Int.toNat
def b2i (b : Bool) : Int := if b then 1 else 0

def mkT (shape data : List Int) : Option (Tensor Int) :=
  let t : Tensor Int := { shape := nats shape, data := data }
  if t.wellFormed then some t else none

def stepLine (step : String → List (List Int) → String) (line : String) : String :=
  let l := line.trimAscii.toString
  match l.splitOn " " with
  | [] => "err BadOp"
  | op :: _ =>
    match parseGroups (l.drop op.length).toString with
    | none => "err BadOp"
    | some gs => step op gs

partial def loop (step : String → List (List Int) → String) (h out : IO.FS.Stream) : IO Unit := do
  let line ← h.getLine
  if line.isEmpty then return ()
  out.putStrLn (stepLine step line)
  loop step h out

def mainWith (step : String → List (List Int) → String) : IO Unit := do
  let out ← IO.getStdout
  loop step (← IO.getStdin) out
  out.flush

end DirectVerif.Driver
