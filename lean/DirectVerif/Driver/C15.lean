import DirectVerif.Driver.Common
import DirectVerif.Driver.C16
import DirectVerif.Model.Ckpt
import DirectVerif.Model.Train
import DirectVerif.Model.C15Engine
/-!
Line-protocol driver for C15.

  saveops it pinned | chunk sizes…                    → the operation list of `Checkpointer.save(it)`
       answer: one group per op: `1 F` openTrunc, `2 F len [content…]` write, `3 F` close, `4 F F'` replace;
       `F` = `kind it` (kind 0 model_<it>.pt, 1 model_<it>.pt.tmp, 2 last_model.txt, 3 last_model.txt.tmp)
  crash pinned | (it sid size)* prev saves | it sid size | chunk sizes | n m   (m = -1: no partial write)
       → ok 0 (nothing loaded) | ok 1 it sid | err ValueError / FileNotFoundError / Corrupt
  dirload | last_model.txt code points, or -1 when absent | (it sid size written)*
  lr method warmupIters lo hi | base_n base_d gamma_n gamma_d wf_n wf_d | milestones…
       → ok (lr_n lr_d)* for last_epoch in [lo, hi)
  train d bs k T ckSteps pinnedKill | mu | sched | milestones | X | y | w0 | (kind j p)* stops
       → per process: `start done latest epoch | θ… | lr…`
-/
namespace DirectVerif.Driver.C15
open DirectVerif DirectVerif.Driver DirectVerif.Ckpt DirectVerif.Train
open DirectVerif.Driver.C16 (mkR ratG vecG ToyCfg parseToy parseSched)

def fnameG : FName → List Int
  | .model it => [0, it]
  | .modelTmp it => [1, it]
  | .last => [2, 0]
  | .lastTmp => [3, 0]
  | .other n => [4, n]

def isLastKind : FName → Bool
  | .last | .lastTmp => true
  | _ => false

def opG : FsOp → List Int
  | .openTrunc f => 1 :: fnameG f
  | .write f c => 2 :: fnameG f ++ [(c.length : Int)] ++ (if isLastKind f then c.map Int.ofNat else [])
  | .close f => 3 :: fnameG f
  | .replace s t => 4 :: fnameG s ++ fnameG t
  | .unlink f => 5 :: fnameG f

/-- chunks of the given sizes with dummy content -/
def dummyChunks (sizes : List Int) : List Bytes := sizes.map fun n => List.replicate n.toNat 0

def kindOf : Int → FKind
  | 0 => .model
  | 1 => .modelTmp
  | 2 => .last
  | _ => .lastTmp

/-- statement table as triples `code kind kind'`: 1 openW, 2 writePayload, 3 writeLabel, 4 closeF, 5 replace;
an empty group stands for the hand-written `saveTable` -/
def parseTable : List Int → Option (List Stmt)
  | [] => some []
  | c :: a :: b :: r =>
    (parseTable r).bind fun tl =>
      (match c with
        | 1 => some (Stmt.openW (kindOf a))
        | 2 => some (Stmt.writePayload (kindOf a))
        | 3 => some (Stmt.writeLabel (kindOf a))
        | 4 => some (Stmt.closeF (kindOf a))
        | 5 => some (Stmt.replace (kindOf a) (kindOf b))
        | 6 => some Stmt.prune
        | _ => none).map (· :: tl)
  | _ => none

def tableOf (pinned : Bool) (codes : List Int) : Option (List Stmt) :=
  if pinned then some saveTablePinned else
  match codes with
  | [] => some saveTable
  | _ => parseTable codes

def opSaveOps (it : Int) (t : List Stmt) (sizes : List Int) (dels : List Int := []) : String :=
  okG ((opsOfX t it (dummyChunks sizes) dels).map opG)

def fmtLoad : LoadResult Nat → String
  | .none => "ok 0"
  | .ok it sid => s!"ok 1 {it} {sid}"
  | .error .valueError => "err ValueError"
  | .error .fileNotFound => "err FileNotFoundError"
  | .error .corrupt => "err Corrupt"

def triples : List Int → Option (List (Int × Nat × Nat))
  | [] => some []
  | it :: sid :: size :: r => (triples r).map ((it, sid.toNat, size.toNat) :: ·)
  | _ => none

def opCrash (t : List Stmt) (prev : List (Int × Nat × Nat)) (new : Int × Nat × Nat) (sizes : List Int)
    (n : Nat) (m : Option Nat) (stale : List Int := []) : String :=
  let sv := opsOf t
  let d := prev.foldl (fun d (it, sid, size) => run d (sv it [toyEncode sid size])) Dir.empty
  -- an earlier save that crashed at `(sn, sm)` and left its temporaries behind
  let d := match stale with
    | [sit, ssid, ssize, sn, sm] =>
      run d (crashAt (sv sit (chunk (toyEncode ssid.toNat ssize.toNat) (sizes.map Int.toNat))) sn.toNat
        (if sm < 0 then none else some sm.toNat))
    | _ => d
  let (it, sid, size) := new
  let ops := sv it (chunk (toyEncode sid size) (sizes.map Int.toNat))
  fmtLoad (loadLatest toyDecode (run d (crashAt ops n m)))

def quads : List Int → Option (List (Int × Nat × Nat × Nat))
  | [] => some []
  | it :: sid :: size :: w :: r => (quads r).map ((it, sid.toNat, size.toNat, w.toNat) :: ·)
  | _ => none

def opDirLoad (last : List Int) (files : List (Int × Nat × Nat × Nat)) : String :=
  let d0 : Dir := if last = [-1] then Dir.empty else Dir.empty.set .last (some (last.map Int.toNat))
  let d := files.foldl (fun d (it, sid, size, w) => d.set (.model it) (some ((toyEncode sid size).take w))) d0
  fmtLoad (loadLatest toyDecode d)

def opLr (hdr rats ms : List Int) : String :=
  match hdr, rats with
  | [m, wi, lo, hi], [bn, bd, gn, gd, wn, wd] =>
    match parseSched [m, wi, bn, bd, gn, gd, wn, wd] ms with
    | none => "err BadOp"
    | some c =>
      if !(Sched.sorted ms) then "err ValueError" else
      let vals := (irange lo hi).map c.lr
      if vals.any Option.isNone then "err ValueError" else
      okG [vals.flatMap fun v => ratG (v.getD 0)]
  | _, _ => "err BadOp"

def ratsOf : List Int → List Rat
  | n :: d :: r => mkR n d :: ratsOf r
  | _ => []

/-- `lrcos method warmupIters lo hi maxIters | base wf | cos(π·e/max) for e in [lo, hi) as exact rationals` -/
def opLrCos (hdr rats cs : List Int) : String :=
  match hdr, rats with
  | [m, wi, lo, hi, mx], [bn, bd, wn, wd] =>
    let c : Sched.Cosine := { base := mkR bn bd, maxIters := mx, wf := mkR wn wd, warmupIters := wi,
                              method := C16.parseMethod m }
    let tab := (ratsOf cs).toArray
    let cosPi : Int → Int → Rat := fun e _ => tab[(e - lo).toNat]!
    let vals := (irange lo hi).map (c.lr cosPi)
    if vals.any Option.isNone then "err ValueError" else okG [vals.flatMap fun v => ratG (v.getD 0)]
  | _, _ => "err BadOp"

/-! ### serialisation of toy snapshots (so that the model's directory holds bytes) -/

def zig (i : Int) : Nat := if i ≥ 0 then 2 * i.toNat else 2 * (-i).toNat - 1
def unzig (n : Nat) : Int := if n % 2 == 0 then ((n / 2 : Nat) : Int) else -(((n + 1) / 2 : Nat) : Int)
def encVec (v : Toy.Vec) : List Nat := v.length :: v.flatMap fun r => [zig r.num, r.den]

def decRats : Nat → List Nat → Option (Toy.Vec × List Nat)
  | 0, r => some ([], r)
  | n + 1, a :: b :: r => (decRats n r).map fun (v, rest) => (mkRat (unzig a) b :: v, rest)
  | _, _ => none
def decVec : List Nat → Option (Toy.Vec × List Nat)
  | n :: r => decRats n r
  | [] => none

abbrev ToySnap := Snap Toy.Vec (Option Toy.Vec) Nat

def encSnap (c : ToySnap) : Bytes :=
  let body := encVec c.theta ++ (match c.ostate with
    | none => [0]
    | some v => 1 :: encVec v) ++ [c.epoch, c.scaler]
  (body.length + 1) :: body

def decSnap (b : Bytes) : Option ToySnap :=
  match b with
  | n :: body =>
    if b.length ≠ n then none else
    match decVec body with
    | none => none
    | some (theta, r) =>
      match r with
      | 0 :: [e, sc] => some ⟨theta, none, e, sc⟩
      | 1 :: r' =>
        match decVec r' with
        | some (v, [e, sc]) => some ⟨theta, some v, e, sc⟩
        | _ => none
      | _ => none
  | [] => none

def mkRun (c : ToyCfg) (ckSteps : Nat) (pinnedKill : Bool) (t : List Stmt) :
    Run Toy.Vec (Option Toy.Vec) Toy.Vec Toy.Batch Rat Nat :=
  { saveTbl := t, ops := Toy.ops c.d c.mu, lrAt := c.lrAt, cfg := { k := c.k }, batch := c.batch, init := c.init,
    total := c.total, ckSteps := ckSteps, encode := fun s => [encSnap s], decode := decSnap,
    killLabel := if pinnedKill then killLabelPinned else killLabel }

/-- crash points of a save as the harness produces them on the real code, for any table: 0 the payload temporary is
open and empty (everything before its first write is done), 1 half of the first payload write, 2 just before the
first `os.replace`, 3 just after it, 4 just before the second, 5 after it -/
def crashPoint (ops : List FsOp) (p : Nat) : Nat × Option Nat :=
  let isW (o : FsOp) : Bool := match o with
    | .write (.modelTmp _) _ | .write (.model _) _ => true
    | _ => false
  let isR (o : FsOp) : Bool := match o with
    | .replace _ _ => true
    | _ => false
  let w := ops.findIdx isW
  let r1 := ops.findIdx isR
  let r2 := r1 + 1 + (ops.drop (r1 + 1)).findIdx isR
  match p with
  | 0 => (w, none)
  | 1 => (w, some 1)
  | 2 => (r1, none)
  | 3 => (r1 + 1, none)
  | 4 => (r2, none)
  | _ => (r2 + 1, none)

def parseStops (r : Run Toy.Vec (Option Toy.Vec) Toy.Vec Toy.Batch Rat Nat) : List Int → Option (List Stop)
  | [] => some []
  | kind :: j :: p :: rest =>
    (parseStops r rest).map fun tl =>
      (match kind with
        | 1 => Stop.vanishAfter j.toNat
        | 2 => Stop.killDuring j.toNat
        | 3 => -- the payload content does not matter for the crash point: any strict prefix is unloadable
          let (n, m) := crashPoint (opsOf r.saveTbl 0 [[0, 0, 0, 0]]) p.toNat
          Stop.crashInSave j.toNat n m
        | _ => Stop.finish) :: tl
  | _ => none

def latestLabel (r : Run Toy.Vec (Option Toy.Vec) Toy.Vec Toy.Batch Rat Nat) (d : Dir) : Int :=
  match loadLatest r.decode d with
  | .ok it _ => it
  | _ => -1

def opTrain (c : ToyCfg) (ckSteps : Nat) (pinnedKill : Bool) (t : List Stmt) (stops : List Int) : String :=
  match c.reject with
  | some e => "err " ++ e
  | none =>
    let r := mkRun c ckSteps pinnedKill t
    match parseStops r stops with
    | none => "err BadOp"
    | some sts => Id.run do
      let mut d : Dir := Dir.empty
      let mut out : List (List Int) := []
      for st in sts ++ [Stop.finish] do
        let (s0, start) : St Toy.Vec (Option Toy.Vec) Toy.Vec Nat × Nat := match loadLatest r.decode d with
          | .ok label c => (restore r.ops.zero c, (resumeStart label).toNat)
          | _ => (r.init, 0)
        match r.process st d with
        | none => return "err LoadFailed"
        | some (s, d') =>
          let done := s.epoch - s0.epoch
          let lrs := (List.range done).flatMap fun j => ratG (r.lrAt (s0.epoch + 1 + j))
          out := out ++ [[(start : Int), (done : Int), latestLabel r d', (s.epoch : Int), (s.scaler : Int)], vecG s.theta, lrs]
          d := d'
      return okG out

def pairs : List Int → Option Bundle.Objs
  | [] => some []
  | k :: v :: r => (pairs r).map ((k.toNat, v.toNat) :: ·)
  | _ => none

/-- `bundle` saver pairs | loader pairs | mode | keys → loader states after load | keys left in the returned dict -/
def opBundle (a b : Bundle.Objs) (mode : Int) (keys : List Int) : String :=
  let m : Bundle.Mode := match mode with
    | 0 => .full
    | 1 => .onlyModels
    | _ => .select (keys.map Int.toNat)
  let file := Bundle.save a
  match Bundle.load b file m with
  | .error _ => "err KeyError"
  | .ok b' => okG [b'.map fun kv => (kv.2 : Int), (Bundle.leftover b file m).map Int.ofNat]

/-! ### the code around the core (`Model/C15Engine.lean`) -/
open DirectVerif.C15E in
/-- aliases of "latest": 1000000 stands for the string "latest" -/
def parseAliases (xs : List Int) : List (Option Int) := xs.map fun x => if x == 1000000 then none else some x

open DirectVerif.C15E in
def parseArg (kind n : Int) : LoadArg :=
  match kind with
  | 0 => .none
  | 1 => .latest
  | 2 => .int n
  | 3 => .otherStr
  | _ => .notIntNorStr

open DirectVerif.C15E in
/-- `loadreq aliases | last_model.txt code points or -1 | (it sid size written)* | kind n` -/
def opLoadReq (aliases last : List Int) (files : List (Int × Nat × Nat × Nat)) (kind n : Int) : String :=
  let d0 : Dir := if last = [-1] then Dir.empty else Dir.empty.set .last (some (last.map Int.toNat))
  let d := files.foldl (fun d (it, sid, size, w) => d.set (.model it) (some ((toyEncode sid size).take w))) d0
  fmtLoad (loadT (parseAliases aliases) toyDecode d (parseArg kind n))

open DirectVerif.C15E in
def parseModule : List Int → Option Api.Module
  | [] => none
  | dp :: r => (pairs r).map fun ps => { dp := dp == 1, params := ps }

open DirectVerif.C15E in
/-- `ckapi saveToDisk unwrapMain unwrapRegex label reqKind reqN | aliases | saver main | saver aux | saver others | kwargs
| loader main | loader aux | loader others` -/
def opCkApi (hdr aliases sm sa so kw lm la lo : List Int) : String :=
  match hdr, parseModule sm, parseModule lm, pairs so, pairs kw, pairs lo with
  | [std, um, ur, label, rk, rn], some smain, some lmain, some sothers, some kwargs, some lothers =>
    let cs : Api.Ctor := { saveToDisk := std == 1, unwrapMain := um == 1, unwrapRegex := ur == 1 }
    let cl : Api.Ctor := { unwrapMain := um == 1, unwrapRegex := ur == 1 }
    let saver : Api.Objs := ⟨smain, parseModule sa, sothers⟩
    let loader : Api.Objs := ⟨lmain, parseModule la, lothers⟩
    let req : Api.Req := if rk == 9 then .modelsFromFile else .load (parseArg rk rn)
    match Api.roundTrip (parseAliases aliases) cs saver kwargs label.toNat cl loader req with
    | .raised .valueError => "err ValueError"
    | .raised .fileNotFound => "err FileNotFoundError"
    | .raised .corrupt => "err Corrupt"
    | .missingKeys => "err NotImplementedError"
    | .nothing => "ok 0"
    | .loaded it o left =>
      okG [[1, it.getD (-1)], o.main.params.map (fun nv => (nv.2 : Int)),
           (o.aux.map fun m => m.params.map (fun nv => (nv.2 : Int))).getD [],
           o.others.map (fun kv => (kv.2 : Int)), left.map Int.ofNat]
  | _, _, _, _, _, _ => "err BadOp"

open DirectVerif.C15E in
/-- init chain as `cond chained nActs act…` per branch (cond 0 = resumed-and-init, 1 = init; act 0 loadModels, 1 swvTrue,
2 loadFull) -/
def parseInitTableF : Nat → List Int → Option (List InitBranch)
  | _, [] => some []
  | 0, _ => none
  | fuel + 1, c :: ch :: n :: r =>
    let acts := (r.take n.toNat).map fun (a : Int) => match a with
      | 0 => InitAct.loadModels
      | 1 => InitAct.swvTrue
      | _ => InitAct.loadFull
    (parseInitTableF fuel (r.drop n.toNat)).map fun tl =>
      { cond := if c == 0 then .resumedAndInit else .init, chained := ch == 1, acts := acts } :: tl
  | _, _ => none

open DirectVerif.C15E in
def parseInitTable (xs : List Int) : Option (List InitBranch) := parseInitTableF (xs.length + 1) xs

open DirectVerif.C15E in
def evG : Event → List Int
  | .validate it => [1, it]
  | .save l => [2, l]
  | .log it => [3, it]
  | .iter _ => []

abbrev ModeSnap := Snap (Bool × Toy.Vec) (Option Toy.Vec) Nat

def encSnapM (c : ModeSnap) : Bytes :=
  let body := (if c.theta.1 then 1 else 0) :: encVec c.theta.2 ++ (match c.ostate with
    | none => [0]
    | some v => 1 :: encVec v) ++ [c.epoch, c.scaler]
  (body.length + 1) :: body

def decSnapM (b : Bytes) : Option ModeSnap :=
  match b with
  | n :: fl :: body =>
    if b.length ≠ n then none else
    match decVec body with
    | none => none
    | some (theta, r) =>
      match r with
      | 0 :: [e, sc] => some ⟨(fl == 1, theta), none, e, sc⟩
      | 1 :: r' =>
        match decVec r' with
        | some (v, [e, sc]) => some ⟨(fl == 1, theta), some v, e, sc⟩
        | _ => none
      | _ => none
  | _ => none

open DirectVerif.C15E in
/-- `vtrain` toy groups (7) | (kind j p resume init swv)* processes | valSteps hasVal tailCode | init file θ (num den)* |
init chain codes | save table codes
 → per process `start done latest epoch scaler | flag θ… | events…` -/
def opVTrain (c : ToyCfg) (ckSteps : Nat) (procs extra initTheta chain tbl : List Int) : String :=
  match c.reject, extra, parseInitTable chain, tableOf false tbl with
  | some e, _, _, _ => "err " ++ e
  | none, [valSteps, hasVal, tailCode], some initTbl, some t =>
    let tail : ValTail := match tailCode with
      | 0 => .allModels
      | 1 => .mainOnly
      | _ => .nothing
    let v := C15E.Toy.vcfgOf tail valSteps.toNat (hasVal == 1)
    let r : Run (Bool × Toy.Vec) (Option Toy.Vec) Toy.Vec Toy.Batch Rat Nat :=
      { saveTbl := t, ops := C15E.Toy.opsMode c.d c.mu, lrAt := c.lrAt, cfg := { k := c.k }, batch := c.batch,
        init := ⟨(true, c.w0 ++ List.replicate c.d 0), none, List.replicate (2 * c.d) 0, 0, 0⟩,
        total := c.total, ckSteps := ckSteps, encode := fun s => [encSnapM s], decode := decSnapM }
    let file : ModeSnap := ⟨(true, ratsOf initTheta), some (List.replicate (2 * c.d) 1), 7, 3⟩
    let rec go (ps : List Int) (d : Dir) (out : List (List Int)) (fuel : Nat) : String :=
      match fuel, ps with
      | _, [] => okG out
      | 0, _ => "err BadOp"
      | fuel + 1, kind :: j :: p :: res :: ini :: swv :: rest =>
        let stop : Stop := match kind with
          | 1 => .vanishAfter j.toNat
          | 2 => .killDuring j.toNat
          | 4 => .killDuring j.toNat      -- a RuntimeError inside `_do_iteration`: the same `checkpoint_and_write_to_logs(iter_idx)`
          | 3 =>
            let (n, m) := crashPoint (opsOf r.saveTbl 0 [[0, 0, 0, 0]]) p.toNat
            .crashInSave j.toNat n m
          | _ => .finish
        -- kind 5: the process dies outside the kill path at statement boundary `p` of iteration `j`:
        -- 2 / 3 before / after `optimizer.step()`, 4 / 5 before / after `lr_scheduler.step()`, 6 at the entry of the
        -- periodic save, 7 inside `write_to_logs`
        let die : Option Die := if kind == 5 then
            some (match p with
              | 2 => ⟨j.toNat, 3, 0⟩
              | 3 => ⟨j.toNat, 4, 0⟩
              | 4 => ⟨j.toNat, 6, 0⟩
              | 5 => ⟨j.toNat, 7, 0⟩
              | 6 => ⟨j.toNat, 7, 1⟩
              | _ => ⟨j.toNat, 7, 2⟩)
          else none
        match vprocessT initTbl r v ⟨res == 1, ini == 1, swv == 1⟩ file stop d die with
        | none => "err LoadFailed"
        | some (plan, s, d', ev) =>
          let done := ev.filter (fun e => match e with | .iter _ => true | _ => false) |>.length
          let lat : Int := match loadLatest r.decode d' with
            | .ok it _ => it
            | _ => -1
          go rest d' (out ++ [[(plan.startIter : Int), (done : Int), lat, (s.epoch : Int), (s.scaler : Int)],
                              (if s.theta.1 then 1 else 0) :: vecG s.theta.2, ev.flatMap evG]) fuel
      | _, _ => "err BadOp"
    go procs Dir.empty [] (procs.length + 1)
  | _, _, _, _ => "err BadOp"

open DirectVerif.C15E in
/-- `lrstate method warmupIters | base gamma wf (num den)* | milestones | e m lr'n lr'd optRestored schRestored`
 → `last_epoch step_count | base_lr | lr after the resume and after each of m further steps` -/
def opLrState (hdr rats ms ctl : List Int) : String :=
  match hdr, rats, ctl with
  | [m, wi], [bn, bd, gn, gd, wn, wd], [e, more, ln, ld, optR, schR] =>
    match parseSched [m, wi, bn, bd, gn, gd, wn, wd] ms with
    | none => "err BadOp"
    | some c =>
      if !(Sched.sorted ms) then "err ValueError" else
      if (c.lr 0).isNone then "err ValueError" else
      let f : Rat → Int → Rat := fun base ep => (({ c with base := base } : Sched.MultiStep).lr ep).getD 0
      let saved := Lr.steps f (Lr.construct f c.base) e.toNat
      let x := Lr.resume f (mkR ln ld) saved (optR == 1) (schR == 1)
      let seq := (List.range (more.toNat + 1)).map fun n => (Lr.steps f x n).1.lr
      let fin := Lr.steps f x more.toNat
      okG [[fin.2.lastEpoch, (fin.2.stepCount : Int)], ratG fin.2.baseLr ++ ratG fin.1.initialLr, seq.flatMap ratG]
  | _, _, _ => "err BadOp"

/-- `exc | (it sid size)* complete previous saves | it sid size | chunk sizes | n m | table codes | unwindFrom per statement (-1 = none)`:
the write that is operation `n` of the save raises after `m` bytes; Python unwinds; then `load('latest')` -/
def opExc (prev : List (Int × Nat × Nat)) (new : Int × Nat × Nat) (sizes : List Int) (n m : Nat) (t : List Stmt)
    (unw : List Int) : String :=
  let d := prev.foldl (fun d (it, sid, size) => run d (opsOf t it [toyEncode sid size])) Dir.empty
  let xt : List XStmt := (t.zip unw).map fun (st, u) => ⟨st, if u < 0 then none else some u.toNat⟩
  let (it, sid, size) := new
  fmtLoad (loadLatest toyDecode (run d (excOps xt it (chunk (toyEncode sid size) (sizes.map Int.toNat)) n m)))

def step (op : String) (gs : List (List Int)) : String :=
  match op, gs with
  | "saveops", [[it, pinned], sizes, tbl] =>
    match tableOf (pinned == 1) tbl with
    | some t => opSaveOps it t sizes
    | none => "err BadOp"
  | "saveops", [[it, pinned], sizes, tbl, dels] =>
    match tableOf (pinned == 1) tbl with
    | some t => opSaveOps it t sizes dels
    | none => "err BadOp"
  | "crash", [[pinned], prev, [it, sid, size], sizes, [n, m], tbl] =>
    match triples prev, tableOf (pinned == 1) tbl with
    | some pv, some t =>
      opCrash t pv (it, sid.toNat, size.toNat) sizes n.toNat (if m < 0 then none else some m.toNat)
    | _, _ => "err BadOp"
  | "crash", [[pinned], prev, [it, sid, size], sizes, [n, m], tbl, stale] =>
    match triples prev, tableOf (pinned == 1) tbl with
    | some pv, some t =>
      opCrash t pv (it, sid.toNat, size.toNat) sizes n.toNat (if m < 0 then none else some m.toNat) stale
    | _, _ => "err BadOp"
  | "dirload", [last, files] =>
    match quads files with
    | some fs => opDirLoad last fs
    | none => "err BadOp"
  | "lr", [hdr, rats, ms] => opLr hdr rats ms
  | "lrcos", [hdr, rats, cs] => opLrCos hdr rats cs
  | "bundle", [a, b, [mode], keys] =>
    match pairs a, pairs b with
    | some a, some b => opBundle a b mode keys
    | _, _ => "err BadOp"
  | "train", [hdr, mu, sched, ms, xs, ys, w0, stops, tbl] =>
    match parseToy hdr mu sched ms xs ys w0, tableOf false tbl with
    | some c, some t => opTrain c (hdr.getD 4 1).toNat (hdr.getD 5 0 == 1) t stops
    | _, _ => "err BadOp"
  | "exc", [prev, [it, sid, size], sizes, [n, m], tbl, unw] =>
    match triples prev, tableOf false tbl with
    | some pv, some t =>
      if unw.length ≠ t.length then "err BadOp" else opExc pv (it, sid.toNat, size.toNat) sizes n.toNat m.toNat t unw
    | _, _ => "err BadOp"
  | "loadreq", [aliases, last, files, [kind, n]] =>
    match quads files with
    | some fs => opLoadReq aliases last fs kind n
    | none => "err BadOp"
  | "ckapi", [hdr, aliases, sm, sa, so, kw, lm, la, lo] => opCkApi hdr aliases sm sa so kw lm la lo
  | "vtrain", [hdr, mu, sched, ms, xs, ys, w0, procs, extra, initTheta, chain, tbl] =>
    match parseToy hdr mu sched ms xs ys w0 with
    | some c => opVTrain c (hdr.getD 4 1).toNat procs extra initTheta chain tbl
    | none => "err BadOp"
  | "lrstate", [hdr, rats, ms, ctl] => opLrState hdr rats ms ctl
  | "solver", [[a, b]] => okG [C15E.solverSteps a b]
  | "events", [[ck, vs, total, start]] =>
    okG [(C15E.schedule ck.toNat vs.toNat total.toNat start.toNat (total.toNat - start.toNat)).flatMap evG]
  | _, _ => "err BadOp"

end DirectVerif.Driver.C15
