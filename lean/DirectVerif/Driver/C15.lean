import DirectVerif.Driver.Common
import DirectVerif.Driver.C16
import DirectVerif.Model.Ckpt
import DirectVerif.Model.Train
/-!
Line-protocol driver for C15.

  saveops it pinned | chunk sizes…                    → the operation list of `Checkpointer.save(it)`
       answer: one group per op: `1 F` openTrunc, `2 F len [content…]` write, `3 F` close, `4 F F'` replace;
       `F` = `kind it` (kind 0 model_<it>.pt, 1 model_<it>.pt.tmp, 2 last_model.txt, 3 last_model.txt.tmp)
  crash pinned | (it sid size)* prev saves | it sid size | chunk sizes | n m   (m = -1: no partial write)
       → ok 0 (nothing loaded) | ok 1 it sid | err ValueError / FileNotFoundError / Corrupt
  dirload | last_model.txt code points, or -1 when absent | (it sid size written)*
  lr method warmupIters lo hi | base_n base_d gamma_n gamma_d wf_n wf_d | milestones…
       → ok (lr_n lr_d)* for last_epoch in [lo, hi)
  train d bs k T ckSteps pinnedKill | mu | sched | milestones | X | y | w0 | (kind j p)* stops
       → per process: `start done latest epoch | θ… | lr…`
-/
namespace DirectVerif.Driver.C15
open DirectVerif DirectVerif.Driver DirectVerif.Ckpt DirectVerif.Train
open DirectVerif.Driver.C16 (mkR ratG vecG ToyCfg parseToy parseSched)

def fnameG : FName → List Int
  | .model it => [0, it]
  | .modelTmp it => [1, it]
  | .last => [2, 0]
  | .lastTmp => [3, 0]
  | .other n => [4, n]

def isLastKind : FName → Bool
  | .last | .lastTmp => true
  | _ => false

def opG : FsOp → List Int
  | .openTrunc f => 1 :: fnameG f
  | .write f c => 2 :: fnameG f ++ [(c.length : Int)] ++ (if isLastKind f then c.map Int.ofNat else [])
  | .close f => 3 :: fnameG f
  | .replace s t => 4 :: fnameG s ++ fnameG t

/-- chunks of the given sizes with dummy content -/
def dummyChunks (sizes : List Int) : List Bytes := sizes.map fun n => List.replicate n.toNat 0

def kindOf : Int → FKind
  | 0 => .model
  | 1 => .modelTmp
  | 2 => .last
  | _ => .lastTmp

/-- statement table as triples `code kind kind'`: 1 openW, 2 writePayload, 3 writeLabel, 4 closeF, 5 replace;
an empty group stands for the hand-written `saveTable` -/
def parseTable : List Int → Option (List Stmt)
  | [] => some []
  | c :: a :: b :: r =>
    (parseTable r).bind fun tl =>
      (match c with
        | 1 => some (Stmt.openW (kindOf a))
        | 2 => some (Stmt.writePayload (kindOf a))
        | 3 => some (Stmt.writeLabel (kindOf a))
        | 4 => some (Stmt.closeF (kindOf a))
        | 5 => some (Stmt.replace (kindOf a) (kindOf b))
        | _ => none).map (· :: tl)
  | _ => none

def tableOf (pinned : Bool) (codes : List Int) : Option (List Stmt) :=
  if pinned then some saveTablePinned else
  match codes with
  | [] => some saveTable
  | _ => parseTable codes

def opSaveOps (it : Int) (t : List Stmt) (sizes : List Int) : String :=
  okG ((opsOf t it (dummyChunks sizes)).map opG)

def fmtLoad : LoadResult Nat → String
  | .none => "ok 0"
  | .ok it sid => s!"ok 1 {it} {sid}"
  | .error .valueError => "err ValueError"
  | .error .fileNotFound => "err FileNotFoundError"
  | .error .corrupt => "err Corrupt"

def triples : List Int → Option (List (Int × Nat × Nat))
  | [] => some []
  | it :: sid :: size :: r => (triples r).map ((it, sid.toNat, size.toNat) :: ·)
  | _ => none

def opCrash (t : List Stmt) (prev : List (Int × Nat × Nat)) (new : Int × Nat × Nat) (sizes : List Int)
    (n : Nat) (m : Option Nat) (stale : List Int := []) : String :=
  let sv := opsOf t
  let d := prev.foldl (fun d (it, sid, size) => run d (sv it [toyEncode sid size])) Dir.empty
  -- an earlier save that crashed at `(sn, sm)` and left its temporaries behind
  let d := match stale with
    | [sit, ssid, ssize, sn, sm] =>
      run d (crashAt (sv sit (chunk (toyEncode ssid.toNat ssize.toNat) (sizes.map Int.toNat))) sn.toNat
        (if sm < 0 then none else some sm.toNat))
    | _ => d
  let (it, sid, size) := new
  let ops := sv it (chunk (toyEncode sid size) (sizes.map Int.toNat))
  fmtLoad (loadLatest toyDecode (run d (crashAt ops n m)))

def quads : List Int → Option (List (Int × Nat × Nat × Nat))
  | [] => some []
  | it :: sid :: size :: w :: r => (quads r).map ((it, sid.toNat, size.toNat, w.toNat) :: ·)
  | _ => none

def opDirLoad (last : List Int) (files : List (Int × Nat × Nat × Nat)) : String :=
  let d0 : Dir := if last = [-1] then Dir.empty else Dir.empty.set .last (some (last.map Int.toNat))
  let d := files.foldl (fun d (it, sid, size, w) => d.set (.model it) (some ((toyEncode sid size).take w))) d0
  fmtLoad (loadLatest toyDecode d)

def opLr (hdr rats ms : List Int) : String :=
  match hdr, rats with
  | [m, wi, lo, hi], [bn, bd, gn, gd, wn, wd] =>
    match parseSched [m, wi, bn, bd, gn, gd, wn, wd] ms with
    | none => "err BadOp"
    | some c =>
      if !(Sched.sorted ms) then "err ValueError" else
      let vals := (irange lo hi).map c.lr
      if vals.any Option.isNone then "err ValueError" else
      okG [vals.flatMap fun v => ratG (v.getD 0)]
  | _, _ => "err BadOp"

def ratsOf : List Int → List Rat
  | n :: d :: r => mkR n d :: ratsOf r
  | _ => []

/-- `lrcos method warmupIters lo hi maxIters | base wf | cos(π·e/max) for e in [lo, hi) as exact rationals` -/
def opLrCos (hdr rats cs : List Int) : String :=
  match hdr, rats with
  | [m, wi, lo, hi, mx], [bn, bd, wn, wd] =>
    let c : Sched.Cosine := { base := mkR bn bd, maxIters := mx, wf := mkR wn wd, warmupIters := wi,
                              method := C16.parseMethod m }
    let tab := (ratsOf cs).toArray
    let cosPi : Int → Int → Rat := fun e _ => tab[(e - lo).toNat]!
    let vals := (irange lo hi).map (c.lr cosPi)
    if vals.any Option.isNone then "err ValueError" else okG [vals.flatMap fun v => ratG (v.getD 0)]
  | _, _ => "err BadOp"

/-! ### serialisation of toy snapshots (so that the model's directory holds bytes) -/

def zig (i : Int) : Nat := if i ≥ 0 then 2 * i.toNat else 2 * (-i).toNat - 1
def unzig (n : Nat) : Int := if n % 2 == 0 then ((n / 2 : Nat) : Int) else -(((n + 1) / 2 : Nat) : Int)
def encVec (v : Toy.Vec) : List Nat := v.length :: v.flatMap fun r => [zig r.num, r.den]

def decRats : Nat → List Nat → Option (Toy.Vec × List Nat)
  | 0, r => some ([], r)
  | n + 1, a :: b :: r => (decRats n r).map fun (v, rest) => (mkRat (unzig a) b :: v, rest)
  | _, _ => none
def decVec : List Nat → Option (Toy.Vec × List Nat)
  | n :: r => decRats n r
  | [] => none

abbrev ToySnap := Snap Toy.Vec (Option Toy.Vec) Nat

def encSnap (c : ToySnap) : Bytes :=
  let body := encVec c.theta ++ (match c.ostate with
    | none => [0]
    | some v => 1 :: encVec v) ++ [c.epoch, c.scaler]
  (body.length + 1) :: body

def decSnap (b : Bytes) : Option ToySnap :=
  match b with
  | n :: body =>
    if b.length ≠ n then none else
    match decVec body with
    | none => none
    | some (theta, r) =>
      match r with
      | 0 :: [e, sc] => some ⟨theta, none, e, sc⟩
      | 1 :: r' =>
        match decVec r' with
        | some (v, [e, sc]) => some ⟨theta, some v, e, sc⟩
        | _ => none
      | _ => none
  | [] => none

def mkRun (c : ToyCfg) (ckSteps : Nat) (pinnedKill : Bool) (t : List Stmt) :
    Run Toy.Vec (Option Toy.Vec) Toy.Vec Toy.Batch Rat Nat :=
  { saveTbl := t, ops := Toy.ops c.d c.mu, lrAt := c.lrAt, cfg := { k := c.k }, batch := c.batch, init := c.init,
    total := c.total, ckSteps := ckSteps, encode := fun s => [encSnap s], decode := decSnap,
    killLabel := if pinnedKill then killLabelPinned else killLabel }

/-- crash points of a save as the harness produces them on the real code, for any table: 0 the payload temporary is
open and empty (everything before its first write is done), 1 half of the first payload write, 2 just before the
first `os.replace`, 3 just after it, 4 just before the second, 5 after it -/
def crashPoint (ops : List FsOp) (p : Nat) : Nat × Option Nat :=
  let isW (o : FsOp) : Bool := match o with
    | .write (.modelTmp _) _ | .write (.model _) _ => true
    | _ => false
  let isR (o : FsOp) : Bool := match o with
    | .replace _ _ => true
    | _ => false
  let w := ops.findIdx isW
  let r1 := ops.findIdx isR
  let r2 := r1 + 1 + (ops.drop (r1 + 1)).findIdx isR
  match p with
  | 0 => (w, none)
  | 1 => (w, some 1)
  | 2 => (r1, none)
  | 3 => (r1 + 1, none)
  | 4 => (r2, none)
  | _ => (r2 + 1, none)

def parseStops (r : Run Toy.Vec (Option Toy.Vec) Toy.Vec Toy.Batch Rat Nat) : List Int → Option (List Stop)
  | [] => some []
  | kind :: j :: p :: rest =>
    (parseStops r rest).map fun tl =>
      (match kind with
        | 1 => Stop.vanishAfter j.toNat
        | 2 => Stop.killDuring j.toNat
        | 3 => -- the payload content does not matter for the crash point: any strict prefix is unloadable
          let (n, m) := crashPoint (opsOf r.saveTbl 0 [[0, 0, 0, 0]]) p.toNat
          Stop.crashInSave j.toNat n m
        | _ => Stop.finish) :: tl
  | _ => none

def latestLabel (r : Run Toy.Vec (Option Toy.Vec) Toy.Vec Toy.Batch Rat Nat) (d : Dir) : Int :=
  match loadLatest r.decode d with
  | .ok it _ => it
  | _ => -1

def opTrain (c : ToyCfg) (ckSteps : Nat) (pinnedKill : Bool) (t : List Stmt) (stops : List Int) : String :=
  match c.reject with
  | some e => "err " ++ e
  | none =>
    let r := mkRun c ckSteps pinnedKill t
    match parseStops r stops with
    | none => "err BadOp"
    | some sts => Id.run do
      let mut d : Dir := Dir.empty
      let mut out : List (List Int) := []
      for st in sts ++ [Stop.finish] do
        let (s0, start) : St Toy.Vec (Option Toy.Vec) Toy.Vec Nat × Nat := match loadLatest r.decode d with
          | .ok label c => (restore r.ops.zero c, (resumeStart label).toNat)
          | _ => (r.init, 0)
        match r.process st d with
        | none => return "err LoadFailed"
        | some (s, d') =>
          let done := s.epoch - s0.epoch
          let lrs := (List.range done).flatMap fun j => ratG (r.lrAt (s0.epoch + 1 + j))
          out := out ++ [[(start : Int), (done : Int), latestLabel r d', (s.epoch : Int), (s.scaler : Int)], vecG s.theta, lrs]
          d := d'
      return okG out

def pairs : List Int → Option Bundle.Objs
  | [] => some []
  | k :: v :: r => (pairs r).map ((k.toNat, v.toNat) :: ·)
  | _ => none

/-- `bundle` saver pairs | loader pairs | mode | keys → loader states after load | keys left in the returned dict -/
def opBundle (a b : Bundle.Objs) (mode : Int) (keys : List Int) : String :=
  let m : Bundle.Mode := match mode with
    | 0 => .full
    | 1 => .onlyModels
    | _ => .select (keys.map Int.toNat)
  let file := Bundle.save a
  match Bundle.load b file m with
  | .error _ => "err KeyError"
  | .ok b' => okG [b'.map fun kv => (kv.2 : Int), (Bundle.leftover b file m).map Int.ofNat]

def step (op : String) (gs : List (List Int)) : String :=
  match op, gs with
  | "saveops", [[it, pinned], sizes, tbl] =>
    match tableOf (pinned == 1) tbl with
    | some t => opSaveOps it t sizes
    | none => "err BadOp"
  | "crash", [[pinned], prev, [it, sid, size], sizes, [n, m], tbl] =>
    match triples prev, tableOf (pinned == 1) tbl with
    | some pv, some t =>
      opCrash t pv (it, sid.toNat, size.toNat) sizes n.toNat (if m < 0 then none else some m.toNat)
    | _, _ => "err BadOp"
  | "crash", [[pinned], prev, [it, sid, size], sizes, [n, m], tbl, stale] =>
    match triples prev, tableOf (pinned == 1) tbl with
    | some pv, some t =>
      opCrash t pv (it, sid.toNat, size.toNat) sizes n.toNat (if m < 0 then none else some m.toNat) stale
    | _, _ => "err BadOp"
  | "dirload", [last, files] =>
    match quads files with
    | some fs => opDirLoad last fs
    | none => "err BadOp"
  | "lr", [hdr, rats, ms] => opLr hdr rats ms
  | "lrcos", [hdr, rats, cs] => opLrCos hdr rats cs
  | "bundle", [a, b, [mode], keys] =>
    match pairs a, pairs b with
    | some a, some b => opBundle a b mode keys
    | _, _ => "err BadOp"
  | "train", [hdr, mu, sched, ms, xs, ys, w0, stops, tbl] =>
    match parseToy hdr mu sched ms xs ys w0, tableOf false tbl with
    | some c, some t => opTrain c (hdr.getD 4 1).toNat (hdr.getD 5 0 == 1) t stops
    | _, _ => "err BadOp"
  | _, _ => "err BadOp"

end DirectVerif.Driver.C15
