import DirectVerif.Driver.Common
import DirectVerif.Model.Pipeline
import DirectVerif.Model.PipelinePrePost
/-!
Line-protocol interpreter of the C08 model over exact rationals (`Rat`).

Tensors travel as `nc ns cplx | d0 d1 …` (integers) and come back as
`key nc ns cplx | numerators | denominators`.  The FFT-based externals are the identity (the harness builds
the real pipeline with identity forward / backward operators for these cases), the centre crop is the
real index computation of `Model/Crop.lean`, masks and split masks are passed in (they are outputs of the
mask functions, which C04–C07 / C11 cover), `kOf` is a table.

  OP   cfg-flags | nc ns h w | data | mask | acs | crop_h crop_w | eps_num eps_den | kOf table | padCoilsTo | in-mask | tgt-mask
  (`pipeline`, `prepost`;  `given gm ga gs | smap-data | …same groups…` for samples that already contain masks / maps)
-/
namespace DirectVerif.Driver.C08
open DirectVerif DirectVerif.Driver DirectVerif.Pipeline

/-- exact square root of a rational that is a perfect square (otherwise the floor of the parts: the
harness only feeds perfect squares and says so in its quantifier) -/
def ratSqrt (q : Rat) : Rat :=
  if q ≤ 0 then 0 else (Nat.sqrt q.num.toNat : Rat) / (Nat.sqrt q.den : Rat)

def ratOps : Ops Rat where
  zero := 0
  one := 1
  add := (· + ·)
  mul := (· * ·)
  div := (· / ·)
  neg := (- ·)
  lt := fun a b => decide (a < b)
  isZero := fun a => decide (a = 0)
  sqrt := ratSqrt
  ofNat := fun n => (n : Rat)

def toRat (xs : List Int) : List Rat := xs.map fun (i : Int) => (i : Rat)

/-- centre crop of the two spatial axes of a `blocks × h × w × stride` tensor -/
def cropHW (blocks h w stride ch cw : Nat) (data : List Rat) : List Rat :=
  let t : Tensor Rat := { shape := [blocks, h, w, stride], data := data }
  let t := t.alongAxis 1 (Crop.centerCrop ch)
  let t := t.alongAxis 2 (Crop.centerCrop cw)
  t.data

structure Line where
  nc : Nat
  ns : Nat
  h : Nat
  w : Nat
  mask : List Bool
  acs : List Bool
  ch : Nat
  cw : Nat
  eps : Rat
  kTab : List Nat
  padTo : Nat
  inMask : List Bool
  tgtMask : List Bool

def mkExt (l : Line) : Ext Rat where
  lin := fun ln _ v =>
    match ln with
    | .cropMask =>      -- `complex_center_crop` of a sample-provided mask `(1, [1,] h, w, 1)`
        if l.ch = 0 then v else { v with data := cropHW 1 l.h l.w 1 l.ch l.cw v.data }
    | _ => v
  crop := fun center _ v =>
    if !center || l.ch = 0 then v else
      { v with data := cropHW (v.nc * v.ns) l.h l.w v.stride l.ch l.cw v.data }
  mask := fun src _ _ _ _ _ => match src with | .sampling => l.mask | .acs => l.acs
  split := fun input _ _ _ => if input then l.inMask else l.tgtMask
  eps := l.eps
  kOf := fun n =>
    -- table indexed by the number of selected (non-zero) coils
    let chunk := (if l.ch = 0 then l.h * l.w else l.ch * l.cw) * l.ns
    l.kTab.getD (if chunk = 0 then 0 else n / chunk) 1
  padCoilsTo := l.padTo
  espirit := fun v => v

def decodeRecon : Int → Recon
  | 0 => .ifft | 1 => .rss | 2 => .complex | 3 => .complexMod | 4 => .sense | _ => .senseMod
def decodeSK : Int → ScalingKey
  | 0 => .key .maskedKspace | 1 => .key .kspace | 2 => .key .bodyCoilImage | 3 => .given | _ => .none
def decodeCrop : Int → CropArg
  | 0 => .none | 1 => .tuple | _ => .name
def decodeSMap : Int → SMap
  | 0 => .espirit | 1 => .rssEstimate | _ => .unit
def decodeSplit : Int → Split
  | 0 => .uniform | 1 => .gaussian | _ => .half

/-- flags in the order of the `Config` fields -/
def decodeCfg (f : List Int) : Option Config :=
  if f.length ≠ 24 then none else
  let b (i : Nat) : Bool := f.getD i 0 ≠ 0
  some { crop := decodeCrop (f.getD 0 0), imageCenterCrop := b 1, rescale := b 2, pad := b 3, rotation := b 4,
         flip := b 5, reverse := b 6, paddingEps := b 7, maskFunc := b 8, compressCoils := b 9, padCoils := b 10,
         bodyCoil := b 11, estimateSmaps := b 12, smapType := decodeSMap (f.getD 13 0), smapGaussian := b 14,
         deleteAcsMask := b 15, deleteKspace := b 16, recon := decodeRecon (f.getD 17 0),
         scalingKey := decodeSK (f.getD 18 0), percentile := b 19, useSeed := b 20, ssl := b 21,
         split := decodeSplit (f.getD 22 0), splitKeepAcs := b 23 }

def keyOrder : List Key :=
  [.kspace, .maskedKspace, .samplingMask, .acsMask, .padding, .sensitivityMap, .scalingFactor, .target,
   .bodyCoilImage, .inputKspace, .inputSamplingMask, .targetSamplingMask]

def keyIdx (k : Key) : Int := (keyOrder.idxOf k : Nat)

def fmtVal (k : Key) (v : Val Rat) : List (List Int) :=
  [[keyIdx k, v.nc, v.ns, b2i v.cplx], v.data.map (·.num), v.data.map fun q => (q.den : Int)]

def fmtStore (s : Store Rat) : String :=
  okG (keyOrder.flatMap fun k => match s k with | some v => fmtVal k v | none => [])

def errName : Err → String
  | .keyError _ => "KeyError"
  | .typeError _ => "TypeError"
  | .shapeMismatch _ => "ShapeError"
  | .unsupported => "Unsupported"

def bools (xs : List Int) : List Bool := xs.map (· ≠ 0)

def fmtE (r : Except ErrE (Store Rat)) : String :=
  match r with
  | .ok s => fmtStore s
  | .error (.base e) => "err " ++ errName e
  | .error (.indexError _) => "err IndexError"

/-- `which`: 0 = `build_mri_transforms`, 1 = `build_pre_mri_transforms` ++ `build_post_mri_transforms`,
2 = `build_mri_transforms` on a sample that already contains tensor entries (`given = [gm, ga, gs]`: the `mask` /
`acs` groups are then the *sample's* masks, `smap` the sample's sensitivity map).  All three run the refined
semantics `execE` (with the `IndexError` branch of the percentile scaling). -/
def opPipeline (which : Nat) (gs : List (List Int)) (given smap : List Int) : String :=
  match gs with
  | [flags, [nc, ns, h, w], data, mask, acs, [ch, cw], [en, ed], ktab, [padTo], inM, tgM] =>
    match decodeCfg flags with
    | none => "err BadOp"
    | some cfg =>
      -- stages whose externals are not modelled exactly
      if cfg.rescale || cfg.pad || cfg.rotation || cfg.flip || cfg.reverse || cfg.compressCoils || cfg.smapGaussian
         || (cfg.crop != .none && !cfg.imageCenterCrop) || (cfg.estimateSmaps && cfg.smapType == .espirit) then "err Unsupported"
      else
      let l : Line := { nc := nc.toNat, ns := ns.toNat, h := h.toNat, w := w.toNat, mask := bools mask, acs := bools acs,
                        ch := ch.toNat, cw := cw.toNat, eps := (en : Rat) / (ed : Rat), kTab := nats ktab,
                        padTo := padTo.toNat, inMask := bools inM, tgtMask := bools tgM }
      if data.length ≠ l.nc * l.ns * l.h * l.w * 2 then "err BadOp" else
      let x : Val Rat := { nc := l.nc, ns := l.ns, cplx := true, data := toRat data }
      match which with
      | 0 => fmtE (runE ratOps (mkExt l) ⟨[], []⟩ (build cfg) x)
      | 1 => fmtE (runE ratOps (mkExt l) ⟨[], []⟩ (buildPrePost cfg) x)
      | _ =>
        let b (i : Nat) : Bool := given.getD i 0 ≠ 0
        let mv (bs : List Bool) : Val Rat := { data := bs.map fun v => if v then 1 else 0 }
        let g : Given Rat :=
          { samplingMask := if b 0 then some (mv l.mask) else none,
            acsMask := if b 1 then some (mv l.acs) else none,
            sensitivityMap := if b 2 then some { nc := l.nc, ns := l.ns, cplx := true, data := toRat smap } else none }
        fmtE (execE ratOps (mkExt l) ⟨[], []⟩ (program (build cfg)) (givenStore x g))
  | _ => "err BadOp"

/-- a single primitive on explicit operands: `prim code | nc ns cplx | data | nc ns cplx | data …` -/
def opPrim (code : Int) (aux : List Int) (vals : List (Val Rat)) : String :=
  let X : Ext Rat := { lin := fun _ _ v => v, crop := fun _ _ v => v, mask := fun _ _ _ _ _ _ => [], split := fun _ _ _ _ => [],
                       eps := (aux.getD 0 0 : Rat) / (aux.getD 1 1 : Rat), kOf := fun _ => (aux.getD 2 1).toNat,
                       padCoilsTo := (aux.getD 3 0).toNat, espirit := fun v => v }
  let op : Option Op := match code with
    | 0 => some .applyMask | 1 => some .applyPadding | 2 => some .sumSlices | 3 => some (.threshold thrCurrent)
    | 4 => some .rss | 5 => some .safeDiv | 6 => some .unitMap | 7 => some .kthModulus | 8 => some .maxModulus
    | 9 => some .sumCoils | 10 => some .modulus | 11 => some .senseCombine | 12 => some .padCoils
    | _ => none
  match op with
  | none => "err BadOp"
  | some op =>
    let arity := match op with | .applyMask | .applyPadding | .safeDiv | .senseCombine => 2 | _ => 1
    if vals.length ≠ arity then "err BadOp" else
    let v := evalOp ratOps X ⟨[], []⟩ op vals
    okG [[v.nc, v.ns, b2i v.cplx], v.data.map (·.num), v.data.map fun q => (q.den : Int)]

def parseVals : List (List Int) → Option (List (Val Rat))
  | [] => some []
  | [nc, ns, c] :: data :: rest =>
      (parseVals rest).map fun vs => ({ nc := nc.toNat, ns := ns.toNat, cplx := c ≠ 0, data := toRat data } : Val Rat) :: vs
  | _ => none

/-- the static degree check of a configuration (`1` = well-typed and normalised) -/
def opDegrees (flags : List Int) : String :=
  match decodeCfg flags with
  | none => "err BadOp"
  | some cfg => okG [[b2i (degreesOk cfg.ssl (build cfg))]]

def parseStore : List (List Int) → Option (Store Rat)
  | [] => some fun _ => none
  | [k, nc, ns, c] :: data :: rest =>
      match keyOrder[k.toNat]? with
      | none => none
      | some key =>
        (parseStore rest).map fun s =>
          s.set key (some { nc := nc.toNat, ns := ns.toNat, cplx := c ≠ 0, data := toRat data })
  | _ => none

/-- one transform class on an explicit sample: `stage code a b | eps_num eps_den k padTo | (key nc ns cplx | data)*` -/
def opStage (hd aux : List Int) (s : Store Rat) : String :=
  let X : Ext Rat := { lin := fun _ _ v => v, crop := fun _ _ v => v, mask := fun _ _ _ _ _ _ => [], split := fun _ _ _ _ => [],
                       eps := (aux.getD 0 0 : Rat) / (aux.getD 1 1 : Rat), kOf := fun _ => (aux.getD 2 1).toNat,
                       padCoilsTo := (aux.getD 3 0).toNat, espirit := fun v => v }
  let a := hd.getD 1 0
  let b := hd.getD 2 0
  let st : Option Stage := match hd.getD 0 (-1) with
    | 0 => some (.computeZeroPadding .kspace .padding thrCurrent)
    | 1 => some (.applyZeroPadding .kspace .padding)
    | 2 => some (.applyMask .samplingMask .kspace .maskedKspace)
    | 3 => some (.computeScalingFactor (decodeSK a) (b ≠ 0) .scalingFactor)
    | 4 => some (.normalize .scalingFactor [.kspace, .maskedKspace])
    | 5 => some (.computeImage .kspace .target (decodeRecon a))
    | 6 => some (.padCoilDimension .kspace)
    | 7 => some (.estimateSensitivityMap .kspace (decodeSMap a) false)
    | 8 => some (.deleteKeys [.acsMask, .kspace])
    | 9 => some (.renameKeys [.maskedKspace, .acsMask] [.inputKspace, .kspace])
    | _ => none
  match st with
  | none => "err BadOp"
  | some st =>
    match exec ratOps X ⟨[], []⟩ (compile st) s with
    | .ok s' => fmtStore s'
    | .error e => "err " ++ errName e

def step (op : String) (gs : List (List Int)) : String :=
  match op, gs with
  | "pipeline", gs => opPipeline 0 gs [] []
  | "prepost", gs => opPipeline 1 gs [] []
  | "given", given :: smap :: gs => opPipeline 2 gs given smap
  | "prim", (code :: aux) :: rest =>
    match parseVals rest with
    | some vs => opPrim code aux vs
    | none => "err BadOp"
  | "degrees", [flags] => opDegrees flags
  | "stage", hd :: aux :: rest =>
    match parseStore rest with
    | some s => opStage hd aux s
    | none => "err BadOp"
  | _, _ => "err BadOp"

end DirectVerif.Driver.C08
