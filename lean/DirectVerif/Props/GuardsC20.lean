import DirectVerif.Gen.C20
import DirectVerif.Lemmas.C20Guard
/-!
# C20 (phase 3) — values, not just shapes: guards of constructors and consumers, keyword policies, attribute chains

`Props/C20.lean` proves that every shipped tree merges into the typed schema and that every name resolves.  This file
proves what happens to the *values* afterwards, on tables the translator extracts from the source on every run
(`Gen/C20.lean`: `guardRows`, `softRows`, `classInfos`, `consumers`, `cfgChains…`, `engineModelFields`, `strToClassSites`):

* every value a shipped file (or a dataclass default) hands to a model / masking-function / dataset constructor passes the
  argument-validation guards of the class it is routed to (`if x not in [...]: raise`, `all(0 < f < 1 …)`,
  `isinstance(f, int)`, `auxiliary_steps == -1 or 0 < … <= num_steps`, `len(shape) in [2, 3]`, if/elif/else-raise chains, guards
  that only fire in `forward`), with Python's semantics of `DirectEnum.__eq__` and of OmegaConf's conversions;
* every value that selects a branch of a dispatch *without* a raising `else` (`_get_model_config`, `ConjGrad.cg`) names one
  of the branches — otherwise it would silently select the fallback;
* `Model(**cfg)`, `Dataset(transform=…, **cfg)`, `MaskFunc(**init_args)` bind, including the `for key in kwargs: raise` loops;
* `validation.crop`, `training.loss.crop`, `inference.crop` are values `_compute_resolution` accepts; `training.optimizer`
  is a class of `torch.optim`;
* every `cfg.a.b.c` the package reads is a declared field; every `cfg.model.<field>` an engine reads is a field of the
  config class of every shipped file that selects that engine;
* the transform schema and `build_mri_transforms` agree in both directions, and `dict_flatten` never merges two keys.

Generic lemmas about the evaluator (`Lemmas/C20Guard.lean`) say what a verdict means.
-/
namespace DirectVerif.C20
open DirectVerif DirectVerif.Config DirectVerif.Gen.C20

def ofStr (s : String) : Str := s.toList.map Char.toNat
def sym (s : String) : Sym := tables.symbols.idxOf (pack (ofStr s))

/-! ## constructor guards -/

/-- **every model block of every shipped file passes the guards of its model class** (main model and additional models;
file value over config-class default over constructor default, as `initialize_models_from_config` passes them) -/
theorem shipped_model_values_pass_guards : ∀ c ∈ configs, modelGuardsOk tables gtables c.2 = true := by decide +kernel

/-- **the default configuration of every registered model passes the guards of its class** -/
theorem model_defaults_pass_guards : ∀ m ∈ registeredModels, modelDefaultGuardsOk tables gtables m.1 = true := by
  decide +kernel

/-- **every dataset block of every shipped file passes the guards of its masking function and of its dataset class** —
untyped training / validation blocks with the callee's own defaults, the typed inference block with the defaults (and the
int → float conversion) of `MaskingConfig` / the dataset's config class -/
theorem shipped_block_values_pass_guards : ∀ c ∈ configs, blockGuardsOk tables gtables maskingSchema c.2 = true := by
  decide +kernel

/-- the typed defaults of every dataset config class pass the guards of the dataset class -/
theorem dataset_defaults_pass_guards : ∀ d ∈ registeredDatasets, datasetDefaultGuardsOk tables gtables d = true := by
  decide +kernel

/-- nothing was waved through: on the shipped model blocks and on the model defaults every guard is *decided* -/
theorem model_guards_all_decided :
    (∀ c ∈ configs, ∀ b ∈ modelBlocksOf tables c.2, ∀ cls, modelClassOf tables b = some cls →
      guardsVerdict tables gtables 0 cls (modelSchema tables b) b = 1) := by decide +kernel

/-- non-vacuity: guards exist, for all three kinds of constructors and for a consumer -/
example : guardRows.length ≥ 40 ∧ ([0, 1, 2, 3].all fun r => guardRows.any (·.route == r)) = true := by decide +kernel

/-- the evaluator rejects what the real constructors reject (literal blocks against the generated tables):
`VSharpNet(image_init=ZEROS)`, `VSharpNet(auxiliary_steps=0)`, `auxiliary_steps > num_steps`,
`CartesianRandom(center_fractions=[0.1])`, `FastMRIRandom(center_fractions=[12])`, and — typed inference block —
`CartesianRandom(center_fractions=[12])` because `tuple[float, …]` turns 12 into 12.0 -/
theorem guards_reject_witnesses :
    modelBlockGuardsOk tables gtables (.map [(sym "model_name", .str (sym "vsharp.vsharp.VSharpNet") 0),
                                             (sym "image_init", .str (sym "ZEROS") 0)]) = false ∧
    modelBlockGuardsOk tables gtables (.map [(sym "model_name", .str (sym "vsharp.vsharp.VSharpNet") 0),
                                             (sym "auxiliary_steps", .int 0)]) = false ∧
    modelBlockGuardsOk tables gtables (.map [(sym "model_name", .str (sym "vsharp.vsharp.VSharpNet") 0),
                                             (sym "num_steps", .int 4), (sym "auxiliary_steps", .int 5)]) = false ∧
    modelBlockGuardsOk tables gtables (.map [(sym "model_name", .str (sym "vsharp.vsharp.VSharpNet") 0),
                                             (sym "num_steps", .int 4), (sym "auxiliary_steps", .int 4)]) = true ∧
    guardsPass tables gtables 1 (packPair (maskFuncTarget (ofStr "CartesianRandom"))) none
      (.map [(sym "accelerations", .list [.int 4]), (sym "center_fractions", .list [.float (sym "0.1")])]) = false ∧
    guardsPass tables gtables 1 (packPair (maskFuncTarget (ofStr "FastMRIRandom"))) none
      (.map [(sym "accelerations", .list [.int 4]), (sym "center_fractions", .list [.int 12])]) = false ∧
    guardsPass tables gtables 1 (packPair (maskFuncTarget (ofStr "CartesianRandom"))) none
      (.map [(sym "accelerations", .list [.int 4]), (sym "center_fractions", .list [.int 12])]) = true ∧
    guardsPass tables gtables 1 (packPair (maskFuncTarget (ofStr "CartesianRandom"))) (some maskingSchema)
      (.map [(sym "accelerations", .list [.int 4]), (sym "center_fractions", .list [.int 12])]) = false := by
  decide +kernel

/-! ## dispatches without a raising `else` -/

/-- **every architecture / update-rule name in a shipped model block is one its dispatch knows** (so the block builds the
network it names, not the fallback of `_get_model_config` / `ConjGrad.cg`) -/
theorem shipped_names_select_named_branch : ∀ c ∈ configs, modelNamesOk tables gtables c.2 = true := by decide +kernel

/-- the same for the default configuration of every registered model -/
theorem default_names_select_named_branch :
    ∀ m ∈ registeredModels, modelDefaultNamesOk tables gtables m.1 = true := by decide +kernel

/-- the pinned tree (repaired in /repo by typing the fields as the enums they hold): `ConjGradNetConfig.denoiser_architecture`
was a `str` field, so `NORMUNET` (shipped `base_conjgradnet.yaml`) stayed a plain string and the default was stored as the
text `ModelName.RESNET`; the dispatch of `_get_model_config` compares with plain lower-case literals and both fell through
to `Conv2d`.  Likewise `cg_param_update_type` stored `CGUpdateType.FR` and `ConjGrad.cg` ran the `BAN` update.  With the
enum member the same dispatch takes the named branch. -/
theorem str_typed_architecture_pinned_violates :
    let dispatch : Guard := .oneOf [.str (pack (ofStr "unet")) false, .str (pack (ofStr "normunet")) false,
      .str (pack (ofStr "resnet")) false, .str (pack (ofStr "didn")) false, .str (pack (ofStr "conv")) true] true
    let cg : Guard := .oneOf [.str (pack (ofStr "FR")) false, .str (pack (ofStr "PRP")) false,
      .str (pack (ofStr "DY")) false, .str (pack (ofStr "BAN")) true] true
    evalGuard dispatch (.s (.str (ofStr "NORMUNET") false)) (fun _ => .unknown) = some false ∧
    evalGuard dispatch (.s (.str (ofStr "ModelName.RESNET") false)) (fun _ => .unknown) = some false ∧
    evalGuard cg (.s (.str (ofStr "CGUpdateType.FR") false)) (fun _ => .unknown) = some false ∧
    evalGuard dispatch (.s (.str (ofStr "normunet") true)) (fun _ => .unknown) = some true ∧
    evalGuard cg (.s (.str (ofStr "FR") true)) (fun _ => .unknown) = some true := by decide

/-- **no `str`-typed field of any config class defaults to an enum member** — decided twice: on the introspected
dataclasses (`strFieldEnumDefaults`, the exact list) and on the generated schema table (no `str` field's default is the text
`Cls.NAME` of a member of any enum the schema knows).  This is the well-formedness condition whose violation caused the
misrouted defaults of the pinned tree. -/
theorem str_fields_hold_no_enum_member :
    strFieldEnumDefaults = [] ∧ ∀ s ∈ schemas, strDefaultsPlain gtables s.2 = true := by decide +kernel

/-- the predicate bites on the pinned declaration `denoiser_architecture: str = ModelName.RESNET` -/
theorem str_field_enum_default_pinned_violates :
    strDefaultsPlain gtables (.struct 0 [(sym "denoiser_architecture", .str, .str (sym "ModelName.RESNET") 0)]) = false ∧
    strDefaultsPlain gtables (.struct 0 [(sym "denoiser_architecture", .str, .str (sym "resnet") 0)]) = true := by
  decide +kernel

/-- non-vacuity: there are such dispatches, and an enum-typed field passes where the `str`-typed one does not -/
example : softRows.length ≥ 4 := by decide +kernel
example : modelBlockNamesOk tables gtables (.map [(sym "model_name", .str (sym "vsharp.vsharp.VSharpNet") 0),
    (sym "image_model_architecture", .str (sym "NORMUNET") 0)]) = true := by decide +kernel

/-! ## constructors bind -/

/-- **`Model(**cfg)` binds for every registered model**, *including* the `for key in kwargs: if key not in …: raise`
loops: every config field is a named parameter or let through by the keyword policy, every parameter without default is a
field (or an operator).  Strengthens `model_configs_accepted`, which treated `**kwargs` as accepting everything. -/
theorem model_constructors_bind : ∀ m ∈ registeredModels, modelCtorOk tables gtables m = true := by decide +kernel

/-- `build_dataset`'s `Cls(transform=…, **fields)` binds for every registered dataset class -/
theorem dataset_constructors_bind : ∀ d ∈ registeredDatasets, datasetCtorOk tables gtables kTransform d = true := by
  decide +kernel

/-- every masking block of every shipped file supplies the parameters its masking function insists on -/
theorem masking_constructors_bind : ∀ c ∈ configs, blocksBindOk tables gtables c.2 = true := by decide +kernel

/-- a keyword policy bites: `RIM(**{…, bogus_key_zz: 1})` is rejected, `steps` is let through -/
example :
    (match classInfo gtables 0 (packPair (modelTarget (ofStr "rim.rim.RIM"))) with
     | some info => (kwAllowed info.kwPolicy (ofStr "bogus_key_zz"), kwAllowed info.kwPolicy (ofStr "steps"))
     | none => (true, false)) = (false, true) := by decide +kernel

/-! ## configuration values consumed by functions -/

/-- **`validation.crop`, `training.loss.crop`, `inference.crop` of every shipped file are values `_compute_resolution`
accepts** (`"header"` or falsy) whenever the section is in use -/
theorem consumed_values_accepted :
    ∀ c ∈ configs, ∀ k ∈ consumers, consumerOk tables gtables (installedRoot tables) c.2 k = true := by decide +kernel

/-- … and so are the dataclass defaults (repaired in /repo: `ValidationConfig.crop` is now `None`) -/
theorem default_consumed_values_accepted :
    ∀ k ∈ consumers, consumerOk tables gtables (installedRoot tables) (.map []) { k with needs := [] } = true := by
  decide +kernel

/-- the pinned tree's default `ValidationConfig.crop = "training"` is a value the guard of `_compute_resolution` rejects -/
theorem validation_crop_pinned_violates :
    evalGuard (.oneOf [.str (pack (ofStr "header")) false] true) (.s (.str (ofStr "training") false)) (fun _ => .unknown)
      = some false := by decide

/-- non-vacuity: the call chains from the three configuration values to `_compute_resolution` were found in the source
(a chain the translator can no longer follow is dropped from `consumers` and reported as unverified — never an alarm by
itself; the oracle and the attribute-chain theorem still see the value) -/
example : consumers.length + consumersUnverified = 3 := by decide

/-- **`training.optimizer` of every shipped file, and its default, is an attribute of `torch.optim`** -/
theorem optimizers_resolve :
    (∀ c ∈ configs, optimizerOk tables kOptimizer c.2 = true) ∧ optimizerOk tables kOptimizer (.map []) = true := by
  decide +kernel

/-! ## attribute chains -/

/-- **every `cfg.a.b.c` / `self.cfg.a.b` / `env.cfg.a.b` read or written anywhere under `direct/` names declared fields**
of `DefaultConfig` with the section classes installed -/
theorem package_attribute_chains_declared : ∀ c ∈ cfgChainsPackage, chainOk (installedRoot tables) c.1 = true := by
  decide +kernel

/-- the same for the scripts under `projects/`, for every function that is referenced anywhere.
Full statement: all chains.  `projects/calgary_campinas/predict_test.py:inference_cfg_validation` (never called) reads
`cfg.inference.dataset.transforms.crop`, which the typed schema keeps under `cropping` (`uncalled_chain_current_violates`). -/
theorem project_attribute_chains_declared_partial :
    ∀ c ∈ cfgChainsProjects, c.2 = true → chainOk (installedRoot tables) c.1 = true := by decide +kernel

theorem uncalled_chain_current_violates :
    chainOk (installedRoot tables) [sym "inference", sym "dataset", sym "transforms", sym "crop"] = false ∧
    chainOk (installedRoot tables) [sym "inference", sym "dataset", sym "transforms", sym "cropping", sym "crop"] = true := by
  decide +kernel

/-- **every `self.cfg.model.<field>` an engine class (or a base it inherits from) reads is a field of the model config
class of every shipped file that selects that engine** -/
theorem engine_model_fields_declared : ∀ c ∈ configs, engineFieldsOk tables engineModelFields c.2 = true := by
  decide +kernel

example : cfgChainsPackage.length ≥ 30 ∧ engineModelFields.length ≥ 3 := by decide +kernel

/-- every `str_to_class` call site is one of the look-ups the model covers; the only other one is `MobileNetV2`'s
`norm_layer` look-up in `torch.nn`, a class without a config class -/
theorem str_to_class_sites_modelled :
    ∀ s ∈ strToClassSites, s.2.2 = true ∨
      (s.1 = pack (ofStr "direct/nn/mobilenet/mobilenet.py") ∧ s.2.1 = pack (ofStr "__init__")) := by decide +kernel

example : strToClassSites.length ≥ 9 := by decide +kernel

/-- no shipped file uses `${…}` interpolation or a Hydra-style `defaults` list (neither is part of the merge model) -/
theorem no_interpolation : interpolations = 0 := by decide

/-! ## transform schema and transform builder, both directions -/

/-- every parameter of `build_mri_transforms` without a default is one the callers supply themselves -/
theorem builder_required_supplied :
    ∀ p ∈ builderRequired, p ∈ [sym "forward_operator", sym "backward_operator", sym "mask_func"] := by decide +kernel

/-- **every option of `build_mri_transforms` can be set from the typed schema**: each parameter other than the three the
callers supply is a leaf key of `TransformsConfig` (the converse is `transform_keys_accepted`) -/
theorem builder_params_configurable :
    ∀ p ∈ builderParams, p ∈ [sym "forward_operator", sym "backward_operator", sym "mask_func"] ∨
      p ∈ schemaLeafKeys 8 transformSchema := by decide +kernel

/-- `dict_flatten` drops the group names: no two groups of the schema, and no two groups of any shipped block (legacy flat
layout included), define the same leaf key -/
theorem flatten_injective :
    nodup (schemaLeafKeys 8 transformSchema) = true ∧
    (∀ c ∈ configs, ∀ b ∈ sectionBlocks tables c.2 tables.kTraining ++ sectionBlocks tables c.2 tables.kValidation,
      rawFlattenInjective tables b = true) := by decide +kernel

/-- a block that sets `crop` both flat and under `cropping` is caught -/
example : rawFlattenInjective tables (.map [(tables.kTransforms, .map [(sym "crop", .null),
    (sym "cropping", .map [(sym "crop", .null)])])]) = false := by decide +kernel

/-! ## the merge stage: what is checked and what is not (proved in `Lemmas/C20Guard.lean`) -/

/-- **specification of the merge stage**: `mergeCheck` accepts a file exactly when it is a map with a `model` block, every
model block (`model`, then the additional models) names importable classes and merges into its config class, and every
top-level key passes its own check — no key is skipped, none is looked at twice (`merge_order_as_modelled` ties this to
the statement order of `setup_common_environment`) -/
theorem mergeCheck_spec (t : Tables) (file : Val) :
    mergeCheck t file = .ok () ↔
      ∃ kvs blocks, file = .map kvs ∧ modelBlocks t file = .ok blocks ∧
        (∀ b ∈ blocks, checkModelBlock t b.2 = .ok ()) ∧ (∀ kv ∈ kvs, checkTopKey t file kv.1 kv.2 = .ok ()) :=
  Config.mergeCheck_ok_iff t file

/-- **what the real merge does not check**: a `List[Any]` field accepts every list whatsoever … -/
theorem list_any_unchecked (xs : List Val) : validate (.list .any) (.list xs) = .ok () := Config.list_any_unchecked xs

def isListAny : Ty → Bool
  | .list .any => true
  | _ => false

/-- … and `training.datasets` / `validation.datasets` *are* `List[Any]` fields of the generated schema: the merge never
looks inside a training / validation dataset block -/
theorem dataset_blocks_untyped :
    isListAny (tyAt tables.training [tables.kDatasets]) = true ∧
    isListAny (tyAt tables.validation [tables.kDatasets]) = true := by decide +kernel

/-- **what *is* checked for such a block** (by the consumers, `build_transforms_from_environment`): a `transforms` map with
a `masking` entry `build_masking_function` can be called with, and flattened transform keys that are builder parameters —
nothing else; the values are the business of the guard theorems above -/
theorem rawBlockCheck_spec (t : Tables) (b : Val) :
    rawBlockCheck t b = .ok () ↔
      ∃ kvs m, b.get? t.kTransforms = some (.map kvs) ∧ lookup t.kMasking kvs = some m ∧
        maskingCheck t m = .ok () ∧ transformsCheck t (.map kvs) = .ok () :=
  Config.rawBlockCheck_ok_iff t b

/-- the hypotheses are satisfiable: a shipped file meets the specification -/
example : ∃ c ∈ configs, mergeCheck tables c.2 = .ok () := by decide +kernel

/-! ## what a verdict means (proved in `Lemmas/C20Guard.lean`) -/

/-- `guardsPass` is exactly "no row of the class evaluates to `some false`" -/
theorem guardsPass_iff (T : Tables) (G : GTables) (route : Nat) (cls : PStr × PStr) (schema : Option Ty) (block : Val) :
    guardsPass T G route cls schema block = true ↔
      ∀ r ∈ rowsOf G route cls,
        evalRow r (envOf T G schema block (((classInfo G (if route = 4 then 0 else route) cls).map (·.params)).getD []))
          ≠ some false :=
  Config.guardsPass_iff T G route cls schema block

/-- a membership guard passes a scalar exactly when Python's `==` finds it among the constants -/
theorem oneOf_spec (cs : List GConst) (x : PyS) (o : Sym → PyV) :
    evalGuard (.oneOf cs false) (.s x) o = some true ↔ pyMem x cs = some true :=
  Config.oneOf_spec cs x o

/-- `DirectEnum.__eq__` in the model: a plain string equals an enum constant iff the lower-cased texts agree, and equals a
plain constant iff the texts agree -/
theorem pyEq_str (s t : Str) (e f : Bool) :
    pyEq (.str s e) (.str (pack t) f) = some (if e || f then lower s == lower (unpack (pack t)) else pack s == pack t) :=
  rfl

/-- `all(lo < f < hi for f in fs)` on exact rationals -/
theorem allBetween_spec (lo hi : Int) (xs : List (Int × Nat)) (o : Sym → PyV) :
    evalGuard (.allBetween lo hi) (.list (xs.map fun x => .num x.1 x.2 false)) o = some true ↔
      ∀ x ∈ xs, lo * x.2 < x.1 ∧ x.1 < hi * x.2 :=
  Config.allBetween_spec lo hi xs o

/-- hypotheses of the spec lemmas are satisfiable -/
example : evalGuard (.allBetween 0 1) (.list [.num 1 10 false, .num 2 25 false]) (fun _ => .unknown) = some true := by decide
example : pyMem (.str (ofStr "SENSE") true) [.str (pack (ofStr "sense")) false] = some true := by decide

end DirectVerif.C20
