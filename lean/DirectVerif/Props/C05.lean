import DirectVerif.Model.Rng
import DirectVerif.Lemmas.C05
/-!
# C05 — seeded masks are reproducible and independent of call history

Property theorems only.  They hold for **every** RNG-access table satisfying the decidable predicate
`tableOk` (every draw statement reads `self.rng` — or the locally built stream of
`integerize_seed` — lexically inside `with temp_seed(…, seed)`), for every abstract stream
implementation `Ops`, every body program, every state and every op history.  `Bridge/C05.lean`
discharges `tableOk` for the table generated from /repo's current source by `decide`.

libc's `rand` state is *not* restored by a call (the Cython kernels `srand` it): it is excluded from
`seeded_call_restores` (documented partial); the kernels' seeds are themselves in-scope draws from
the private stream (`KernelCall.ok`, also discharged on the generated table), so kernel results are
part of the history-independent output.
-/
namespace DirectVerif.C05
open DirectVerif DirectVerif.Rng
variable {σ Seed Req Val Out : Type}

/-- the call as the code performs it equals `temp_seed(self.rng, seed)` around a body that works on
`self.rng` only: save, seed, body, restore -/
theorem call_eq_tempSeed (t : Table) (ht : tableOk t = true) (O : Ops σ Seed Req Val)
    (prog : Prog Req Val Out) (hp : SitesIn t.length prog) (seed : Option Seed) (i : Nat) (st : State σ Val) :
    call t O prog seed i st = tempSeed O seed i (bodyIn t O seed i prog) st := by
  rw [call_ok t O seed ht prog hp]
  simp only [tempSeed, bodyIn, State.setPriv, effSeed, if_true]
  congr 2
  funext j
  by_cases h : j = i <;> simp [h]

/-- **history / state / instance independence of a seeded call**: the output is the same from any
two states (whatever calls, perturbations of the global generators, or instance creations produced
them) and on any two instances -/
theorem seeded_call_history_independent (t : Table) (ht : tableOk t = true) (O : Ops σ Seed Req Val)
    (prog : Prog Req Val Out) (hp : SitesIn t.length prog) (s : Seed) (i i' : Nat) (st st' : State σ Val) :
    (call t O prog (some s) i st).1 = (call t O prog (some s) i' st').1 := by
  rw [call_ok t O _ ht prog hp, call_ok t O _ ht prog hp]
  exact (runIn_seeded t O s prog _ _ _ _ _).1

/-- the seeded output is a function of `(seed, program)` alone -/
theorem seeded_call_out_eq (t : Table) (ht : tableOk t = true) (O : Ops σ Seed Req Val)
    (prog : Prog Req Val Out) (hp : SitesIn t.length prog) (s : Seed) (i : Nat) (st : State σ Val) :
    (call t O prog (some s) i st).1 = (runIn t O (some s) prog (O.seedTo s) 0 none).out := by
  rw [call_ok t O _ ht prog hp]
  exact (runIn_seeded t O s prog _ _ _ _ _).1

/-- same generator object or another one: no difference -/
theorem instance_independent (t : Table) (ht : tableOk t = true) (O : Ops σ Seed Req Val)
    (prog : Prog Req Val Out) (hp : SitesIn t.length prog) (s : Seed) (i i' : Nat) (st : State σ Val) :
    (call t O prog (some s) i st).1 = (call t O prog (some s) i' st).1 :=
  seeded_call_history_independent t ht O prog hp s i i' st st

/-- **a call (seeded or not) leaves every private stream and the global numpy / torch / python
streams exactly as they were** (libc and the OS entropy counter excluded) -/
theorem seeded_call_restores (t : Table) (ht : tableOk t = true) (O : Ops σ Seed Req Val)
    (prog : Prog Req Val Out) (hp : SitesIn t.length prog) (seed : Option Seed) (i : Nat) (st : State σ Val) :
    (call t O prog seed i st).2.priv = st.priv ∧ (call t O prog seed i st).2.np = st.np ∧
    (call t O prog seed i st).2.torch = st.torch ∧ (call t O prog seed i st).2.py = st.py := by
  rw [call_ok t O _ ht prog hp, setPriv_self]
  exact ⟨rfl, rfl, rfl, rfl⟩

/-- a seeded call does not consume OS entropy either -/
theorem seeded_call_no_entropy (t : Table) (ht : tableOk t = true) (O : Ops σ Seed Req Val)
    (prog : Prog Req Val Out) (hp : SitesIn t.length prog) (s : Seed) (i : Nat) (st : State σ Val) :
    (call t O prog (some s) i st).2.ent = st.ent := by
  rw [call_ok t O _ ht prog hp, setPriv_self]
  exact (runIn_seeded t O s prog _ st.ent st.ent _ st.libc).2.2.2

/-- **lift to arbitrary histories**: after *any* list of ops `h` (seeded calls with any seed,
unseeded calls, other shapes / generators / `return_acs`, on any instance, new instances, draws from
or re-seedings of the global generators), from *any* state, the observed seeded call returns what it
returns as the only op from any other state on any other instance -/
theorem history_independent {G A : Type} (t : Table) (ht : tableOk t = true) (O : Ops σ Seed Req Val)
    (body : G → A → Prog Req Val Out) (hb : ∀ g a, SitesIn t.length (body g a))
    (h : List (Op Seed Req G A)) (g : G) (a : A) (s : Seed) (i i' : Nat) (st st' : State σ Val) :
    observe t O body st (h ++ [.call g a i (some s)]) = observe t O body st' [.call g a i' (some s)] := by
  unfold observe
  rw [run_append]
  simp only [run, step, List.getLast?_append, List.getLast?_singleton, Option.some_or, Option.join_some]
  exact congrArg some (seeded_call_history_independent t ht O _ (hb g a) s i i' _ st')

/-- every op that is a generator call leaves the three global streams and all private streams
untouched, so the globals after a history are those of the non-call ops alone -/
theorem history_call_keeps_globals {G A : Type} (t : Table) (ht : tableOk t = true) (O : Ops σ Seed Req Val)
    (body : G → A → Prog Req Val Out) (hb : ∀ g a, SitesIn t.length (body g a))
    (g : G) (a : A) (seed : Option Seed) (i : Nat) (st : State σ Val) :
    (step t O body st (.call g a i seed)).1.np = st.np ∧ (step t O body st (.call g a i seed)).1.torch = st.torch ∧
    (step t O body st (.call g a i seed)).1.py = st.py ∧ (step t O body st (.call g a i seed)).1.priv = st.priv := by
  have := seeded_call_restores t ht O (body g a) (hb g a) seed i st
  simp only [step]
  exact ⟨this.2.1, this.2.2.1, this.2.2.2, this.1⟩

/-- **the data pipeline's mask is a function of (shape, file name) only**: `CreateSamplingMask` with
`use_seed` hands `seedOf filename` to the generator, so two samples of the same file (two slices of a
volume, in any loading order, in any worker, after any histories, on any generator instance) get the
same mask -/
theorem create_sampling_mask_reproducible {G A F : Type} (t : Table) (ht : tableOk t = true) (O : Ops σ Seed Req Val)
    (body : G → A → Prog Req Val Out) (hb : ∀ g a, SitesIn t.length (body g a)) (seedOf : F → Seed) (fname : F)
    (h h' : List (Op Seed Req G A)) (g : G) (a : A) (i i' : Nat) (st st' : State σ Val) :
    observe t O body st (h ++ [.call g a i (transformSeed true seedOf fname)]) =
    observe t O body st' (h' ++ [.call g a i' (transformSeed true seedOf fname)]) := by
  simp only [transformSeed, if_true]
  rw [history_independent t ht O body hb h g a (seedOf fname) i i' st st',
      history_independent t ht O body hb h' g a (seedOf fname) i' i' st' st']

/-- a call that raises inside the seeded scope is a call whose program stops early: it restores like
any other (`seeded_call_restores` quantifies over every program), and the next seeded call is
unaffected -/
theorem call_after_failed_call {G A : Type} (t : Table) (ht : tableOk t = true) (O : Ops σ Seed Req Val)
    (body : G → A → Prog Req Val Out) (hb : ∀ g a, SitesIn t.length (body g a))
    (failing : Op Seed Req G A) (g : G) (a : A) (s : Seed) (i : Nat) (st : State σ Val) :
    observe t O body st [failing, .call g a i (some s)] = observe t O body st [.call g a i (some s)] :=
  history_independent t ht O body hb [failing] g a s i i st st

/-! ### ACS branch and mask branch -/

theorem sitesIn_bind {X : Type} {n : Nat} {p : Prog Req Val X} {f : X → Prog Req Val Out}
    (hp : SitesIn n p) (hf : ∀ x, SitesIn n (f x)) : SitesIn n (p.bind f) := by
  induction hp with
  | ret o => exact hf o
  | draw hs _ ih => exact .draw hs ih
  | reseed hs _ ih => exact .reseed hs ih
  | kernel _ ih => exact .kernel ih

/-- running `p >>= f` is running `p`, then `f` on its result from where `p` left the streams -/
theorem runIn_bind {X : Type} (t : Table) (O : Ops σ Seed Req Val) (seed : Option Seed)
    (f : X → Prog Req Val Out) :
    ∀ (p : Prog Req Val X) (cur : σ) (e : Nat) (l : Option Val),
      runIn t O seed (p.bind f) cur e l =
        { runIn t O seed (f (runIn t O seed p cur e l).out) (runIn t O seed p cur e l).cur
            (runIn t O seed p cur e l).ent (runIn t O seed p cur e l).libc with
          trace := (runIn t O seed p cur e l).trace ++
            (runIn t O seed (f (runIn t O seed p cur e l).out) (runIn t O seed p cur e l).cur
              (runIn t O seed p cur e l).ent (runIn t O seed p cur e l).libc).trace } := by
  intro p
  induction p with
  | ret x => intro cur e l; simp [Prog.bind, runIn]
  | draw site r k ih =>
    intro cur e l
    by_cases h : (lookup t site).src = .priv
    · rw [Prog.bind, runIn, runIn]; simp only [h, if_true]; rw [ih]; simp
    · rw [Prog.bind, runIn, runIn]; simp only [h, if_false]; rw [ih]; simp
  | reseed site k ih =>
    intro cur e l
    by_cases h : (lookup t site).src = .priv
    · rw [Prog.bind, runIn, runIn]; simp only [h, if_true]; rw [ih]
    · rw [Prog.bind, runIn, runIn]; simp only [h, if_false]; rw [ih]
  | kernel v k ih => intro cur e l; rw [Prog.bind, runIn, runIn, ih]

/-- **the `return_acs` branch and the mask branch perform the same leading draws**: with the same
seed the ACS call's request sequence is a prefix of the mask call's, both see the same leading
values `x`, the ACS output is `acsOf x` and the mask is produced by `rest x` (which ORs `acsOf x`
in) — so the returned ACS is the ACS of the returned mask -/
theorem acs_and_mask_share_first_draws {X : Type} (t : Table) (O : Ops σ Seed Req Val) (seed : Option Seed)
    (lead : Prog Req Val X) (acsOf : X → Out) (rest : X → Prog Req Val Out) (cur : σ) (e : Nat) (l : Option Val) :
    let L := runIn t O seed lead cur e l
    (runIn t O seed (withAcs lead acsOf rest true) cur e l).trace = L.trace ∧
    (runIn t O seed (withAcs lead acsOf rest true) cur e l).trace <+:
      (runIn t O seed (withAcs lead acsOf rest false) cur e l).trace ∧
    (runIn t O seed (withAcs lead acsOf rest true) cur e l).out = acsOf L.out ∧
    (runIn t O seed (withAcs lead acsOf rest false) cur e l).out =
      (runIn t O seed (rest L.out) L.cur L.ent L.libc).out := by
  intro L
  unfold withAcs
  rw [runIn_bind, runIn_bind]
  simp [runIn, L]

/-- and the whole seeded ACS call is history independent like the mask call (it is a call) -/
theorem acs_call_history_independent {X : Type} (t : Table) (ht : tableOk t = true) (O : Ops σ Seed Req Val)
    (lead : Prog Req Val X) (acsOf : X → Out) (rest : X → Prog Req Val Out)
    (hl : SitesIn t.length lead) (hr : ∀ x, SitesIn t.length (rest x)) (b : Bool)
    (s : Seed) (i i' : Nat) (st st' : State σ Val) :
    (call t O (withAcs lead acsOf rest b) (some s) i st).1 = (call t O (withAcs lead acsOf rest b) (some s) i' st').1 := by
  apply seeded_call_history_independent t ht
  unfold withAcs
  refine sitesIn_bind hl fun x => ?_
  cases b
  · exact hr x
  · exact .ret _

/-! ### what goes wrong when the premise fails (concrete counter-models, by evaluation) -/

/-- toy streams: a stream is a number, a draw returns it and increments -/
def toyOps : Ops Nat Nat Unit Nat where
  seedTo := fun s => 1000 * (s + 1)
  draw := fun s _ => (s, s + 1)
  intz := fun s => s
  entropy := fun n => 77 + n

def toyState (np : Nat) : State Nat Nat := ⟨fun _ => 5, np, 0, 0, none, 0⟩

/-- one draw, returned -/
def oneDraw : Prog Unit Nat Nat := .draw 0 () fun v => .ret v

/-- a draw from the global numpy stream makes the seeded output depend on the history -/
theorem global_draw_violates :
    (call [⟨.npGlobal, true⟩] toyOps oneDraw (some 3) 0 (toyState 10)).1 ≠
    (call [⟨.npGlobal, true⟩] toyOps oneDraw (some 3) 0 (toyState 11)).1 := by decide

/-- … and advances the global stream -/
theorem global_draw_not_restored :
    (call [⟨.npGlobal, true⟩] toyOps oneDraw (some 3) 0 (toyState 10)).2.np ≠ (toyState 10).np := by decide

/-- a private draw outside the `with` sees the unseeded stream and leaves it advanced -/
theorem unscoped_draw_violates :
    (call [⟨.priv, false⟩] toyOps oneDraw (some 3) 0 (toyState 10)).1 = 5 ∧
    (call [⟨.priv, false⟩] toyOps oneDraw (some 3) 0 (toyState 10)).2.priv 0 = 6 := by decide

/-! ### non-vacuity: the hypotheses are satisfiable and the conclusion is informative -/

example : tableOk [⟨.priv, true⟩, ⟨.fresh, true⟩] = true := by decide
example : SitesIn 1 oneDraw := .draw (by decide) fun _ => .ret _
/-- the seeded draw really comes from the seeded private stream (4000 = seedTo 3) -/
example : (call [⟨.priv, true⟩] toyOps oneDraw (some 3) 0 (toyState 10)).1 = 4000 := by decide
example : (call [⟨.priv, true⟩] toyOps oneDraw (some 3) 7 (toyState 99)).1 = 4000 := by decide
/-- different seeds give different outputs: the theorem is not about a constant function -/
example : (call [⟨.priv, true⟩] toyOps oneDraw (some 4) 0 (toyState 10)).1 = 5000 := by decide
/-- an unseeded call depends on OS entropy (so `some s` in the theorem is necessary) -/
example : (call [⟨.priv, true⟩] toyOps oneDraw none 0 (toyState 10)).1 = 78000 := by decide
/-- a history with every kind of op before the observed call -/
example :
    observe [⟨.priv, true⟩] toyOps (fun (_ : Unit) (_ : Unit) => oneDraw) (toyState 10)
      ([.call () () 0 none, .newInst 1, .drawGlobal 0 (), .seedGlobal 1 9, .call () () 1 (some 8),
        .drawGlobal 2 ()] ++ [.call () () 0 (some 3)]) = some 4000 := by decide

end DirectVerif.C05
