import DirectVerif.Model.Rng
import DirectVerif.Lemmas.C05
/-!
# C05 — seeded masks are reproducible and independent of call history

Property theorems only.  They hold for **every** RNG-access table satisfying the decidable predicate
`tableOk` (every draw statement reads `self.rng` — or the locally built stream of
`integerize_seed` — lexically inside `with temp_seed(…, seed)`), for every abstract stream
implementation `Ops`, every body program, every state and every op history.  `Bridge/C05.lean`
discharges `tableOk` for the table generated from /repo's current source by `decide`.

libc's `rand` state is a stream of the model like the others.  It is *not* restored by a call: every
Cython kernel run does `srand(v)` (with `v` an in-scope draw from the private stream) and then draws.
What is proved about it (for every body keeping the discipline `LibcOk` = "no `rand()` loop before an
`srand` of the same call", which `kernelProg_libcOk` derives from the generated `.pyx` event table):
the seeded output does not depend on the state libc was in (`seeded_call_history_independent`, hence two
kernels interleaved in one process cannot influence each other: `interleaved_kernel_calls_independent`);
after a seeded call libc is either untouched or in a state that is a function of (seed, program) alone
(`libc_after_seeded_call`); a call without a kernel run leaves it where it was
(`call_without_kernel_keeps_libc`); `libc_not_restored` is the witness that it is, in general, changed.
-/
namespace DirectVerif.C05
open DirectVerif DirectVerif.Rng
variable {σ Seed Req Val Out : Type}

/-- the call as the code performs it equals `temp_seed(self.rng, seed)` around a body that works on
`self.rng` only: save, seed, body, restore -/
theorem call_eq_tempSeed (t : Table) (ht : tableOk t = true) (O : Ops σ Seed Req Val)
    (prog : Prog Req Val Out) (hp : SitesIn t.length prog) (seed : Option Seed) (i : Nat) (st : State σ Val) :
    call t O prog seed i st = tempSeed O seed i (bodyIn t O seed i prog) st := by
  rw [call_ok t O seed ht prog hp]
  simp only [tempSeed, bodyIn, State.setPriv, effSeed, if_true]
  congr 2
  funext j
  by_cases h : j = i <;> simp [h]

/-- **history / state / instance independence of a seeded call**: the output is the same from any
two states (whatever calls, perturbations of the global generators, or instance creations produced
them) and on any two instances -/
theorem seeded_call_history_independent (t : Table) (ht : tableOk t = true) (O : Ops σ Seed Req Val)
    (prog : Prog Req Val Out) (hp : SitesIn t.length prog) (hl : LibcOk false prog)
    (s : Seed) (i i' : Nat) (st st' : State σ Val) :
    (call t O prog (some s) i st).1 = (call t O prog (some s) i' st').1 := by
  rw [call_ok t O _ ht prog hp, call_ok t O _ ht prog hp]
  exact (runIn_seeded t O s prog false hl _ _ _ _ _ (by simp)).1

/-- the seeded output is a function of `(seed, program)` alone -/
theorem seeded_call_out_eq (t : Table) (ht : tableOk t = true) (O : Ops σ Seed Req Val)
    (prog : Prog Req Val Out) (hp : SitesIn t.length prog) (hl : LibcOk false prog)
    (s : Seed) (i : Nat) (st : State σ Val) (l0 : σ) :
    (call t O prog (some s) i st).1 = (runIn t O (some s) prog (O.seedTo s) 0 l0).out := by
  rw [call_ok t O _ ht prog hp]
  exact (runIn_seeded t O s prog false hl _ _ _ _ _ (by simp)).1

/-- same generator object or another one: no difference -/
theorem instance_independent (t : Table) (ht : tableOk t = true) (O : Ops σ Seed Req Val)
    (prog : Prog Req Val Out) (hp : SitesIn t.length prog) (hl : LibcOk false prog)
    (s : Seed) (i i' : Nat) (st : State σ Val) :
    (call t O prog (some s) i st).1 = (call t O prog (some s) i' st).1 :=
  seeded_call_history_independent t ht O prog hp hl s i i' st st

/-- **a call (seeded or not, whatever it does with libc) leaves every private stream and the global
numpy / torch / python streams exactly as they were** (libc: see `libc_after_seeded_call`; the OS
entropy counter: see `seeded_call_no_entropy`) -/
theorem seeded_call_restores (t : Table) (ht : tableOk t = true) (O : Ops σ Seed Req Val)
    (prog : Prog Req Val Out) (hp : SitesIn t.length prog) (seed : Option Seed) (i : Nat) (st : State σ Val) :
    (call t O prog seed i st).2.priv = st.priv ∧ (call t O prog seed i st).2.np = st.np ∧
    (call t O prog seed i st).2.torch = st.torch ∧ (call t O prog seed i st).2.py = st.py := by
  rw [call_ok t O _ ht prog hp, setPriv_self]
  exact ⟨rfl, rfl, rfl, rfl⟩

/-- a seeded call does not consume OS entropy either -/
theorem seeded_call_no_entropy (t : Table) (ht : tableOk t = true) (O : Ops σ Seed Req Val)
    (prog : Prog Req Val Out) (hp : SitesIn t.length prog) (hl : LibcOk false prog)
    (s : Seed) (i : Nat) (st : State σ Val) :
    (call t O prog (some s) i st).2.ent = st.ent := by
  rw [call_ok t O _ ht prog hp, setPriv_self]
  exact (runIn_seeded t O s prog false hl _ st.ent st.ent st.libc st.libc (fun _ => rfl)).2.2.2.1

/-! ### libc: exactly what is not restored -/

/-- **libc after a seeded call**: from any two states, on any two instances, either both calls left libc
exactly where it was (no kernel ran), or both left it in the *same* state — the one reached from
`srand(v)` of the last kernel run, a function of (seed, program) alone.  So the only thing a seeded call
does not put back is libc, and what it leaves there is itself reproducible. -/
theorem libc_after_seeded_call (t : Table) (ht : tableOk t = true) (O : Ops σ Seed Req Val)
    (prog : Prog Req Val Out) (hp : SitesIn t.length prog) (hl : LibcOk false prog)
    (s : Seed) (i i' : Nat) (st st' : State σ Val) :
    ((call t O prog (some s) i st).2.libc = st.libc ∧ (call t O prog (some s) i' st').2.libc = st'.libc) ∨
    (call t O prog (some s) i st).2.libc = (call t O prog (some s) i' st').2.libc := by
  rw [call_ok t O _ ht prog hp, call_ok t O _ ht prog hp]
  exact (runIn_seeded t O s prog false hl _ st.ent st'.ent st.libc st'.libc (by simp)).2.2.2.2

/-- a call (seeded or not) of a generator without a Cython kernel leaves libc where it was -/
theorem call_without_kernel_keeps_libc (t : Table) (ht : tableOk t = true) (O : Ops σ Seed Req Val)
    (prog : Prog Req Val Out) (hp : SitesIn t.length prog) (hn : NoLibc prog)
    (seed : Option Seed) (i : Nat) (st : State σ Val) :
    (call t O prog seed i st).2.libc = st.libc := by
  rw [call_ok t O _ ht prog hp]
  exact runIn_noLibc t O seed prog hn _ _ _

/-- **a kernel run as the `.pyx` files perform it keeps the discipline**: when the generated event list of the
kernel starts with `srand(seed)` (`pyxSrandFirst`), `kernelProg` seeds libc before its `rand()` loop -/
theorem kernelProg_libcOk (evs : List String) (h : pyxSrandFirst evs = true) (b : Bool) (v : Val) (r : Req)
    (k : Val → Prog Req Val Out) (hk : ∀ x, LibcOk true (k x)) :
    LibcOk b (kernelProg (pyxSrandFirst evs) v r k) := by
  rw [h]
  exact .srand (.crand hk)

/-- **lift to arbitrary histories**: after *any* list of ops `h` (seeded calls with any seed,
unseeded calls, other shapes / generators / classes / `return_acs`, on any instance, new instances,
deep copies / pickle round trips / forks of instances, draws from or re-seedings of the global numpy,
torch, python and libc generators), from *any* state, the observed seeded call returns what it
returns as the only op from any other state on any other instance -/
theorem history_independent {G A : Type} (t : Table) (ht : tableOk t = true) (O : Ops σ Seed Req Val)
    (body : G → A → Prog Req Val Out) (hb : ∀ g a, SitesIn t.length (body g a)) (hl : ∀ g a, LibcOk false (body g a))
    (h : List (Op Seed Req G A)) (g : G) (a : A) (s : Seed) (i i' : Nat) (st st' : State σ Val) :
    observe t O body st (h ++ [.call g a i (some s)]) = observe t O body st' [.call g a i' (some s)] := by
  unfold observe
  rw [run_append]
  simp only [run, step, List.getLast?_append, List.getLast?_singleton, Option.some_or, Option.join_some]
  exact congrArg some (seeded_call_history_independent t ht O _ (hb g a) (hl g a) s i i' _ st')

/-- every op that is a generator call leaves the three global streams and all private streams
untouched, so the globals after a history are those of the non-call ops alone -/
theorem history_call_keeps_globals {G A : Type} (t : Table) (ht : tableOk t = true) (O : Ops σ Seed Req Val)
    (body : G → A → Prog Req Val Out) (hb : ∀ g a, SitesIn t.length (body g a))
    (g : G) (a : A) (seed : Option Seed) (i : Nat) (st : State σ Val) :
    (step t O body st (.call g a i seed)).1.np = st.np ∧ (step t O body st (.call g a i seed)).1.torch = st.torch ∧
    (step t O body st (.call g a i seed)).1.py = st.py ∧ (step t O body st (.call g a i seed)).1.priv = st.priv := by
  have := seeded_call_restores t ht O (body g a) (hb g a) seed i st
  simp only [step]
  exact ⟨this.2.1, this.2.2.1, this.2.2.2, this.1⟩

/-- **the data pipeline's mask is a function of (shape, file name) only**: `CreateSamplingMask` with
`use_seed` hands `seedOf filename` to the generator, so two samples of the same file (two slices of a
volume, in any loading order, in any worker, after any histories, on any generator instance) get the
same mask -/
theorem create_sampling_mask_reproducible {G A F : Type} (t : Table) (ht : tableOk t = true) (O : Ops σ Seed Req Val)
    (body : G → A → Prog Req Val Out) (hb : ∀ g a, SitesIn t.length (body g a)) (hl : ∀ g a, LibcOk false (body g a))
    (seedOf : F → Seed) (fname : F)
    (h h' : List (Op Seed Req G A)) (g : G) (a : A) (i i' : Nat) (st st' : State σ Val) :
    observe t O body st (h ++ [.call g a i (transformSeed true seedOf fname)]) =
    observe t O body st' (h' ++ [.call g a i' (transformSeed true seedOf fname)]) := by
  simp only [transformSeed, if_true]
  rw [history_independent t ht O body hb hl h g a (seedOf fname) i i' st st',
      history_independent t ht O body hb hl h' g a (seedOf fname) i' i' st' st']

/-- a call that raises inside the seeded scope is a call whose program stops early: it restores like
any other (`seeded_call_restores` quantifies over every program), and the next seeded call is
unaffected -/
theorem call_after_failed_call {G A : Type} (t : Table) (ht : tableOk t = true) (O : Ops σ Seed Req Val)
    (body : G → A → Prog Req Val Out) (hb : ∀ g a, SitesIn t.length (body g a)) (hl : ∀ g a, LibcOk false (body g a))
    (failing : Op Seed Req G A) (g : G) (a : A) (s : Seed) (i : Nat) (st : State σ Val) :
    observe t O body st [failing, .call g a i (some s)] = observe t O body st [.call g a i (some s)] :=
  history_independent t ht O body hb hl [failing] g a s i i st st

/-- **two kernels interleaved in one process cannot influence each other**: a call of any generator `g₁` (say one
that runs `gaussian_mask_2d`) on any instance, seeded or not, or any perturbation of libc (`srand`, `rand()` by
anybody: `drawGlobal 3`, `seedGlobal 3`), between the start of the process and the observed seeded call of `g₂`
(say VD-Poisson) changes nothing in what `g₂` returns, because every kernel run re-seeds before it draws -/
theorem interleaved_kernel_calls_independent {G A : Type} (t : Table) (ht : tableOk t = true) (O : Ops σ Seed Req Val)
    (body : G → A → Prog Req Val Out) (hb : ∀ g a, SitesIn t.length (body g a)) (hl : ∀ g a, LibcOk false (body g a))
    (g₁ g₂ : G) (a₁ a₂ : A) (seed₁ : Option Seed) (s : Seed) (i₁ i₂ : Nat) (r : Req) (sl : Seed) (st st' : State σ Val) :
    observe t O body st [.call g₁ a₁ i₁ seed₁, .drawGlobal 3 r, .seedGlobal 3 sl, .drawGlobal 3 r, .call g₂ a₂ i₂ (some s)] =
    observe t O body st' [.call g₂ a₂ i₂ (some s)] :=
  history_independent t ht O body hb hl [.call g₁ a₁ i₁ seed₁, .drawGlobal 3 r, .seedGlobal 3 sl, .drawGlobal 3 r]
    g₂ a₂ s i₂ i₂ st st'

/-- **deep copy / pickle / fork of a generator mid-history**: the copy returns, for the same seed, what the
original returns (and what a fresh object returns in another process) -/
theorem clone_call_same {G A : Type} (t : Table) (ht : tableOk t = true) (O : Ops σ Seed Req Val)
    (body : G → A → Prog Req Val Out) (hb : ∀ g a, SitesIn t.length (body g a)) (hl : ∀ g a, LibcOk false (body g a))
    (h : List (Op Seed Req G A)) (g : G) (a : A) (s : Seed) (i j : Nat) (st st' : State σ Val) :
    observe t O body st (h ++ [.clone i j, .call g a j (some s)]) = observe t O body st' [.call g a i (some s)] := by
  have := history_independent t ht O body hb hl (h ++ [.clone i j]) g a s j i st st'
  simpa [List.append_assoc] using this

/-- an unseeded call on a copy continues from OS entropy, not from the original's stream: the copy's private
stream is the original's (`clone` copies it) and a call puts it back -/
theorem clone_copies_stream {G A : Type} (t : Table) (O : Ops σ Seed Req Val) (body : G → A → Prog Req Val Out)
    (i j : Nat) (st : State σ Val) :
    (step t O body st (.clone i j)).1.priv j = st.priv i ∧ (step t O body st (.clone i j)).1.np = st.np ∧
    (step t O body st (.clone i j)).1.libc = st.libc := by
  simp [step, State.setPriv]

/-! ### the global streams after a whole history -/

/-- is this op a generator call -/
def isCall {G A : Type} : Op Seed Req G A → Bool
  | .call .. => true
  | _ => false

/-- the three named global streams of a state -/
def globals (st : State σ Val) : σ × σ × σ := (st.np, st.torch, st.py)

theorem step_noncall_globals {G A : Type} (t : Table) (O : Ops σ Seed Req Val) (body : G → A → Prog Req Val Out)
    (op : Op Seed Req G A) (hop : isCall op = false) (st st' : State σ Val) (h : globals st = globals st') :
    globals (step t O body st op).1 = globals (step t O body st' op).1 := by
  simp only [globals, Prod.mk.injEq] at h
  obtain ⟨h1, h2, h3⟩ := h
  cases op with
  | call g a i seed => simp [isCall] at hop
  | newInst i => simp [step, globals, State.setPriv, h1, h2, h3]
  | drawGlobal w r =>
    by_cases w0 : w = 0
    · simp [step, globals, w0, h1, h2, h3]
    · by_cases w1 : w = 1
      · simp [step, globals, w1, h1, h2, h3]
      · by_cases w2 : w = 2
        · simp [step, globals, w2, h1, h2, h3]
        · simp [step, globals, w0, w1, w2, h1, h2, h3]
  | seedGlobal w s =>
    by_cases w0 : w = 0
    · simp [step, globals, w0, h2, h3]
    · by_cases w1 : w = 1
      · simp [step, globals, w1, h1, h3]
      · by_cases w2 : w = 2
        · simp [step, globals, w2, h1, h2]
        · simp [step, globals, w0, w1, w2, h1, h2, h3]
  | clone s d => simp [step, globals, State.setPriv, h1, h2, h3]

/-- **the global numpy / torch / python streams after any history are those produced by the non-generator ops
alone**: deleting every generator call (seeded or not, of any generator, on any instance, raising or not) from a
history changes nothing in the three global streams, whatever the states of private streams, libc and entropy -/
theorem history_globals_eq_noncall {G A : Type} (t : Table) (ht : tableOk t = true) (O : Ops σ Seed Req Val)
    (body : G → A → Prog Req Val Out) (hb : ∀ g a, SitesIn t.length (body g a)) :
    ∀ (h : List (Op Seed Req G A)) (st st' : State σ Val), globals st = globals st' →
      globals (run t O body st h).1 = globals (run t O body st' (h.filter fun op => !isCall op)).1 := by
  intro h
  induction h with
  | nil => intro st st' hg; simpa [run] using hg
  | cons op h ih =>
    intro st st' hg
    by_cases hc : isCall op = true
    · have hkeep : globals (step t O body st op).1 = globals st := by
        cases op with
        | call g a i seed =>
          have := seeded_call_restores t ht O (body g a) (hb g a) seed i st
          simp only [globals, step]
          rw [this.2.1, this.2.2.1, this.2.2.2]
        | _ => simp [isCall] at hc
      simp only [run, List.filter_cons, hc, Bool.not_true, Bool.false_eq_true, if_false]
      exact ih _ _ (hkeep.trans hg)
    · have hc' : isCall op = false := by simpa using hc
      simp only [run, List.filter_cons, hc', Bool.not_false, if_true]
      exact ih _ _ (step_noncall_globals t O body op hc' st st' hg)

/-! ### ACS branch and mask branch -/

theorem sitesIn_bind {X : Type} {n : Nat} {p : Prog Req Val X} {f : X → Prog Req Val Out}
    (hp : SitesIn n p) (hf : ∀ x, SitesIn n (f x)) : SitesIn n (p.bind f) := by
  induction hp with
  | ret o => exact hf o
  | draw hs _ ih => exact .draw hs ih
  | reseed hs _ ih => exact .reseed hs ih
  | srand _ ih => exact .srand ih
  | crand _ ih => exact .crand ih

/-- leading draws that do not touch libc followed by a disciplined rest are disciplined -/
theorem libcOk_bind {X : Type} {b : Bool} {p : Prog Req Val X} {f : X → Prog Req Val Out}
    (hp : NoLibc p) (hf : ∀ x, LibcOk b (f x)) : LibcOk b (p.bind f) := by
  induction hp with
  | ret o => exact hf o
  | draw _ ih => exact .draw ih
  | reseed _ ih => exact .reseed ih

/-- running `p >>= f` is running `p`, then `f` on its result from where `p` left the streams -/
theorem runIn_bind {X : Type} (t : Table) (O : Ops σ Seed Req Val) (seed : Option Seed)
    (f : X → Prog Req Val Out) :
    ∀ (p : Prog Req Val X) (cur : σ) (e : Nat) (l : σ),
      runIn t O seed (p.bind f) cur e l =
        { runIn t O seed (f (runIn t O seed p cur e l).out) (runIn t O seed p cur e l).cur
            (runIn t O seed p cur e l).ent (runIn t O seed p cur e l).libc with
          trace := (runIn t O seed p cur e l).trace ++
            (runIn t O seed (f (runIn t O seed p cur e l).out) (runIn t O seed p cur e l).cur
              (runIn t O seed p cur e l).ent (runIn t O seed p cur e l).libc).trace } := by
  intro p
  induction p with
  | ret x => intro cur e l; simp [Prog.bind, runIn]
  | draw site r k ih =>
    intro cur e l
    by_cases h : (lookup t site).src = .priv
    · rw [Prog.bind, runIn, runIn]; simp only [h, if_true]; rw [ih]; simp
    · rw [Prog.bind, runIn, runIn]; simp only [h, if_false]; rw [ih]; simp
  | reseed site k ih =>
    intro cur e l
    by_cases h : (lookup t site).src = .priv
    · rw [Prog.bind, runIn, runIn]; simp only [h, if_true]; rw [ih]
    · rw [Prog.bind, runIn, runIn]; simp only [h, if_false]; rw [ih]
  | srand v k ih => intro cur e l; rw [Prog.bind, runIn, runIn, ih]
  | crand r k ih => intro cur e l; rw [Prog.bind, runIn, runIn, ih]

/-- **the `return_acs` branch and the mask branch perform the same leading draws**: with the same
seed the ACS call's request sequence is a prefix of the mask call's, both see the same leading
values `x`, the ACS output is `acsOf x` and the mask is produced by `rest x` (which ORs `acsOf x`
in) — so the returned ACS is the ACS of the returned mask -/
theorem acs_and_mask_share_first_draws {X : Type} (t : Table) (O : Ops σ Seed Req Val) (seed : Option Seed)
    (lead : Prog Req Val X) (acsOf : X → Out) (rest : X → Prog Req Val Out) (cur : σ) (e : Nat) (l : σ) :
    let L := runIn t O seed lead cur e l
    (runIn t O seed (withAcs lead acsOf rest true) cur e l).trace = L.trace ∧
    (runIn t O seed (withAcs lead acsOf rest true) cur e l).trace <+:
      (runIn t O seed (withAcs lead acsOf rest false) cur e l).trace ∧
    (runIn t O seed (withAcs lead acsOf rest true) cur e l).out = acsOf L.out ∧
    (runIn t O seed (withAcs lead acsOf rest false) cur e l).out =
      (runIn t O seed (rest L.out) L.cur L.ent L.libc).out := by
  intro L
  unfold withAcs
  rw [runIn_bind, runIn_bind]
  simp [runIn, L]

/-- and the whole seeded ACS call is history independent like the mask call (it is a call) -/
theorem acs_call_history_independent {X : Type} (t : Table) (ht : tableOk t = true) (O : Ops σ Seed Req Val)
    (lead : Prog Req Val X) (acsOf : X → Out) (rest : X → Prog Req Val Out)
    (hl : SitesIn t.length lead) (hr : ∀ x, SitesIn t.length (rest x))
    (hll : NoLibc lead) (hlr : ∀ x, LibcOk false (rest x)) (b : Bool)
    (s : Seed) (i i' : Nat) (st st' : State σ Val) :
    (call t O (withAcs lead acsOf rest b) (some s) i st).1 = (call t O (withAcs lead acsOf rest b) (some s) i' st').1 := by
  apply seeded_call_history_independent t ht
  · unfold withAcs
    refine sitesIn_bind hl fun x => ?_
    cases b
    · exact hr x
    · exact .ret _
  · unfold withAcs
    refine libcOk_bind hll fun x => ?_
    cases b
    · exact hlr x
    · exact .ret _

/-! ### what goes wrong when the premise fails (concrete counter-models, by evaluation) -/

/-- toy streams: a stream is a number, a draw returns it and increments -/
def toyOps : Ops Nat Nat Unit Nat where
  seedTo := fun s => 1000 * (s + 1)
  draw := fun s _ => (s, s + 1)
  intz := fun s => s
  entropy := fun n => 77 + n
  srandTo := fun v => 500000 + v

def toyState (np : Nat) : State Nat Nat := ⟨fun _ => 5, np, 0, 0, 9, 0⟩

/-- same, with libc in state `l` -/
def toyStateL (l : Nat) : State Nat Nat := ⟨fun _ => 5, 10, 0, 0, l, 0⟩

/-- a kernel generator: one private draw `v` (the kernel's integer seed), one kernel run, result returned -/
def oneKernel (srandFirst : Bool) : Prog Unit Nat Nat :=
  .draw 0 () fun v => kernelProg srandFirst v () fun x => .ret x

/-- **libc is not restored**: after a seeded kernel call libc is where the kernel's `rand()` loop left it -/
theorem libc_not_restored :
    (call [⟨.priv, true⟩] toyOps (oneKernel true) (some 3) 0 (toyStateL 9)).2.libc = 504001 ∧
    (call [⟨.priv, true⟩] toyOps (oneKernel true) (some 3) 0 (toyStateL 9)).2.libc ≠ (toyStateL 9).libc := by decide

/-- … but what it leaves there, and what it returns, do not depend on where libc was -/
example :
    (call [⟨.priv, true⟩] toyOps (oneKernel true) (some 3) 0 (toyStateL 9)).1 =
    (call [⟨.priv, true⟩] toyOps (oneKernel true) (some 3) 0 (toyStateL 123)).1 ∧
    (call [⟨.priv, true⟩] toyOps (oneKernel true) (some 3) 0 (toyStateL 9)).2.libc =
    (call [⟨.priv, true⟩] toyOps (oneKernel true) (some 3) 0 (toyStateL 123)).2.libc := by decide

/-- a kernel whose `rand()` loop starts before `srand(seed)` returns something that depends on whoever used libc
before (another kernel, another generator, another library) -/
theorem rand_before_srand_violates :
    (call [⟨.priv, true⟩] toyOps (oneKernel false) (some 3) 0 (toyStateL 9)).1 ≠
    (call [⟨.priv, true⟩] toyOps (oneKernel false) (some 3) 0 (toyStateL 123)).1 := by decide

/-- and such a body does not keep the discipline: `LibcOk false` fails at the leading `crand` -/
theorem rand_before_srand_not_libcOk : ¬ LibcOk false (oneKernel false) := by
  intro h
  cases h with
  | draw hk =>
    have := hk 0
    simp only [kernelProg, Bool.false_eq_true, if_false] at this
    cases this

/-- one draw, returned -/
def oneDraw : Prog Unit Nat Nat := .draw 0 () fun v => .ret v

/-- a draw from the global numpy stream makes the seeded output depend on the history -/
theorem global_draw_violates :
    (call [⟨.npGlobal, true⟩] toyOps oneDraw (some 3) 0 (toyState 10)).1 ≠
    (call [⟨.npGlobal, true⟩] toyOps oneDraw (some 3) 0 (toyState 11)).1 := by decide

/-- … and advances the global stream -/
theorem global_draw_not_restored :
    (call [⟨.npGlobal, true⟩] toyOps oneDraw (some 3) 0 (toyState 10)).2.np ≠ (toyState 10).np := by decide

/-- a private draw outside the `with` sees the unseeded stream and leaves it advanced -/
theorem unscoped_draw_violates :
    (call [⟨.priv, false⟩] toyOps oneDraw (some 3) 0 (toyState 10)).1 = 5 ∧
    (call [⟨.priv, false⟩] toyOps oneDraw (some 3) 0 (toyState 10)).2.priv 0 = 6 := by decide

/-! ### non-vacuity: the hypotheses are satisfiable and the conclusion is informative -/

example : tableOk [⟨.priv, true⟩, ⟨.fresh, true⟩] = true := by decide
example : SitesIn 1 oneDraw := .draw (by decide) fun _ => .ret _
example : LibcOk false oneDraw := .draw fun _ => .ret _
example : NoLibc oneDraw := .draw fun _ => .ret _
example : SitesIn 1 (oneKernel true) := .draw (by decide) fun _ => .srand (.crand fun _ => .ret _)
example : LibcOk false (oneKernel true) := .draw fun _ => .srand (.crand fun _ => .ret _)
example : pyxSrandFirst ["srand:seed", "rand", "rand"] = true := by decide
example : pyxSrandFirst ["rand", "srand:seed"] = false := by decide
example : pyxSrandFirst ["srand:seed", "rand", "srand:other"] = false := by decide
/-- the seeded draw really comes from the seeded private stream (4000 = seedTo 3) -/
example : (call [⟨.priv, true⟩] toyOps oneDraw (some 3) 0 (toyState 10)).1 = 4000 := by decide
example : (call [⟨.priv, true⟩] toyOps oneDraw (some 3) 7 (toyState 99)).1 = 4000 := by decide
/-- different seeds give different outputs: the theorem is not about a constant function -/
example : (call [⟨.priv, true⟩] toyOps oneDraw (some 4) 0 (toyState 10)).1 = 5000 := by decide
/-- an unseeded call depends on OS entropy (so `some s` in the theorem is necessary) -/
example : (call [⟨.priv, true⟩] toyOps oneDraw none 0 (toyState 10)).1 = 78000 := by decide
/-- a history with every kind of op before the observed call -/
example :
    observe [⟨.priv, true⟩] toyOps (fun (_ : Unit) (_ : Unit) => oneDraw) (toyState 10)
      ([.call () () 0 none, .newInst 1, .drawGlobal 0 (), .seedGlobal 1 9, .call () () 1 (some 8),
        .drawGlobal 2 (), .clone 1 4, .drawGlobal 3 (), .seedGlobal 3 2] ++ [.call () () 4 (some 3)]) = some 4000 := by decide
/-- a kernel generator observed after another kernel call and libc perturbations -/
example :
    observe [⟨.priv, true⟩] toyOps (fun (_ : Unit) (_ : Unit) => oneKernel true) (toyStateL 9)
      [.call () () 0 (some 8), .drawGlobal 3 (), .call () () 1 (some 3)] =
    observe [⟨.priv, true⟩] toyOps (fun (_ : Unit) (_ : Unit) => oneKernel true) (toyStateL 77)
      [.call () () 0 (some 3)] := by decide
/-- deleting the calls of a history leaves the global streams as they are -/
example :
    globals (run [⟨.priv, true⟩] toyOps (fun (_ : Unit) (_ : Unit) => oneDraw) (toyState 10)
      [.call () () 0 none, .drawGlobal 0 (), .call () () 1 (some 8), .seedGlobal 1 9]).1 =
    globals (run [⟨.priv, true⟩] toyOps (fun (_ : Unit) (_ : Unit) => oneDraw) (toyState 10)
      [.drawGlobal 0 (), .seedGlobal 1 9]).1 := by decide

end DirectVerif.C05
