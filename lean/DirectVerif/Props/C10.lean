import DirectVerif.Model.Crop
import DirectVerif.Lemmas.C10Bbox
/-!
# C10 — cropping and zero-padding are exact, centred and mutually inverse

Property theorems only.  All statements are about the hand-written model `Model/Crop.lean`; the tie
to the code is `Bridge/C10.lean` (translated arithmetic) plus the correspondence check.
-/
namespace DirectVerif.C10
open DirectVerif DirectVerif.Crop

/-- start index = floor of half the size difference (for every parity) -/
theorem center_crop_lower_floor (n s : Int) :
    2 * centerCropLower n s ≤ n - s ∧ n - s ≤ 2 * centerCropLower n s + 1 := by
  unfold centerCropLower; omega

/-- the centre crop has exactly the requested size -/
theorem center_crop_length {α} (s : Nat) (xs : List α) (h : s ≤ xs.length) :
    (centerCrop s xs).length = s := by
  unfold centerCrop slice centerCropLower
  simp only [List.length_drop, List.length_take]
  omega

/-- the centre crop is exactly the central window: element `i` is `xs[i + (n - s) / 2]` -/
theorem center_crop_window {α} (s : Nat) (xs : List α) (h : s ≤ xs.length) (i : Nat) (hi : i < s) :
    (centerCrop s xs)[i]? = xs[i + (xs.length - s) / 2]? := by
  unfold centerCrop slice centerCropLower
  have e : ((↑xs.length - ↑s : Int) / 2).toNat = (xs.length - s) / 2 := by omega
  rw [e, List.getElem?_drop, List.getElem?_take]
  have : (xs.length - s) / 2 + i < (xs.length - s) / 2 + s := by omega
  simp only [this, if_true]
  congr 1; omega

/-- zero padding places the data after `before = (N - n) / 2` fill values … -/
theorem pad_length {α} (fill : α) (N : Nat) (xs : List α) (h : xs.length ≤ N) :
    (padTo fill N xs).length = N := by
  simp only [padTo, fPad, padAfter, padBefore, List.length_append, List.length_replicate]
  omega

theorem pad_places {α} (fill : α) (N : Nat) (xs : List α) (h : xs.length ≤ N) (i : Nat)
    (hi : i < xs.length) : (padTo fill N xs)[i + (N - xs.length) / 2]? = xs[i]? := by
  simp only [padTo, fPad, padAfter, padBefore]
  have e : (max 0 ((↑N - ↑xs.length : Int) / 2)).toNat = (N - xs.length) / 2 := by omega
  rw [e, List.append_assoc, List.getElem?_append_right (by simp),
    List.length_replicate, List.getElem?_append_left (by omega)]
  congr 1; omega

/-- … and only fill values elsewhere -/
theorem pad_fill_before {α} (fill : α) (N : Nat) (xs : List α) (i : Nat)
    (hi : i < (N - xs.length) / 2) : (padTo fill N xs)[i]? = some fill := by
  simp only [padTo, fPad, padAfter, padBefore]
  have e : (max 0 ((↑N - ↑xs.length : Int) / 2)).toNat = (N - xs.length) / 2 := by omega
  rw [e, List.append_assoc, List.getElem?_append_left (by simpa using hi)]
  simp [hi]

/-- **Zero-padding followed by a centre crop back to the original size is the identity**, for every
size and every parity of the size difference. -/
theorem pad_then_center_crop_id {α} (fill : α) (N : Nat) (xs : List α) (h : xs.length ≤ N) :
    centerCrop xs.length (padTo fill N xs) = xs := by
  apply List.ext_getElem?
  intro i
  by_cases hi : i < xs.length
  · rw [center_crop_window _ _ (by rw [pad_length fill N xs h]; exact h) i hi,
      pad_length fill N xs h, pad_places fill N xs h i hi]
  · have hl := center_crop_length xs.length (padTo fill N xs) (by rw [pad_length fill N xs h]; exact h)
    rw [List.getElem?_eq_none (by omega), List.getElem?_eq_none (by omega)]

/-- the pinned tree's `pad_tensor` (before/after swapped by the list reversal) violates the law for
odd differences — kept as a regression witness. -/
theorem pad_swapped_violates :
    centerCrop 3 (padToSwapped (0 : Int) 6 [1, 2, 3]) ≠ [1, 2, 3] := by decide

theorem pairs_getD (l : List (Int × Int)) (f g : Int × Int → Int) (k : Nat) (hk : k < l.length) :
    ((l.flatMap fun d => [f d, g d]).getD (2 * k) 0, (l.flatMap fun d => [f d, g d]).getD (2 * k + 1) 0)
      = (f l[k], g l[k]) := by
  induction l generalizing k with
  | nil => simp at hk
  | cons d ds ih =>
    cases k with
    | zero => simp
    | succ k =>
      have hk' : k < ds.length := by simpa using hk
      have := ih k hk'
      simp only [List.flatMap_cons, List.cons_append, List.nil_append,
        show 2 * (k + 1) = 2 * k + 1 + 1 by omega, List.getD_cons_succ, List.getElem_cons_succ]
      exact this

/-- the flat list handed to `F.pad` assigns, to the `k`-th axis from the last, `(before, after)` of
that axis — for any number of axes. -/
theorem pad_pairs_axis (dims : List (Int × Int)) (k : Nat) (hk : k < dims.length) :
    padOfAxisFromLast (padPairs false dims) k =
      (padBefore (dims.reverse[k]'(by simpa using hk)).1 (dims.reverse[k]'(by simpa using hk)).2,
       padAfter (dims.reverse[k]'(by simpa using hk)).1 (dims.reverse[k]'(by simpa using hk)).2) := by
  have e : padPairs false dims =
      dims.reverse.flatMap fun d => [padBefore d.1 d.2, padAfter d.1 d.2] := by
    unfold padPairs
    rw [List.reverse_flatMap]
    congr 1
  unfold padOfAxisFromLast
  rw [e]
  exact pairs_getD dims.reverse (fun d => padBefore d.1 d.2) (fun d => padAfter d.1 d.2) k
    (by simpa using hk)

/-- bounding-box crop: whenever the box reaches the tensor (`0 ≤ coord + size`, `coord ≤ n`) the result
is the addressed window, out-of-range parts filled with the pad value. -/
theorem bbox_length {α} (fill : α) (xs : List α) (coord : Int) (size : Nat) :
    (bboxSpec fill xs coord size).length = size := by
  simp [bboxSpec]

theorem bbox_inside_is_window {α} (fill : α) (xs : List α) (coord : Int) (size : Nat) (i : Nat)
    (hi : i < size) (h0 : 0 ≤ coord + i) (h1 : coord + i < xs.length) :
    (bboxSpec fill xs coord size)[i]? = xs[(coord + i).toNat]? := by
  unfold bboxSpec
  rw [List.getElem?_map, List.getElem?_range hi]
  simp only [Option.map_some, h0, h1, and_self, if_true]
  rw [List.getD_eq_getElem?_getD]
  have : (coord + ↑i).toNat < xs.length := by omega
  simp [List.getElem?_eq_getElem this]

theorem bbox_outside_is_fill {α} (fill : α) (xs : List α) (coord : Int) (size : Nat) (i : Nat)
    (hi : i < size) (h : coord + i < 0 ∨ (xs.length : Int) ≤ coord + i) :
    (bboxSpec fill xs coord size)[i]? = some fill := by
  unfold bboxSpec
  rw [List.getElem?_map, List.getElem?_range hi]
  simp only [Option.map_some]
  have : ¬ (0 ≤ coord + ↑i ∧ coord + ↑i < ↑xs.length) := by omega
  simp [this]

/-- **bounding-box crop = addressed window with pad fill, for every box** (inside, overlapping,
touching or disjoint; any sign of the coordinate). -/
theorem bbox_correct {α} (fill : α) (xs : List α) (c : Int) (s : Nat) :
    cropToBbox fill xs c s = .ok (bboxSpec fill xs c s) := by
  unfold cropToBbox
  simp only
  by_cases h0 : bboxLOff c = 0 ∧ bboxROff xs.length c s = 0
  · rw [if_pos h0]
    congr 1
    have hc : 0 ≤ c ∧ c + s ≤ xs.length := by
      unfold bboxLOff bboxROff at h0
      obtain ⟨h1, h2⟩ := h0
      split at h1 <;> split at h2 <;> omega
    apply List.ext_getElem?
    intro k
    rw [bboxRegion_eq, slice_getElem?, bboxSpec_getElem?]
    by_cases hk : k < s
    · have e1 : (min (max c 0) ↑xs.length).toNat + k <
          (min (max (max c 0) (min (c + ↑s) ↑xs.length)) ↑xs.length).toNat := by omega
      have e2 : 0 ≤ c + ↑k ∧ c + ↑k < ↑xs.length := by omega
      simp only [e1, hk, e2, and_self, if_true]
      congr 1; omega
    · have e1 : ¬ (min (max c 0) ↑xs.length).toNat + k <
          (min (max (max c 0) (min (c + ↑s) ↑xs.length)) ↑xs.length).toNat := by omega
      simp only [e1, hk, if_false]
  · rw [if_neg h0]
    have hl : bboxLOff c = max (-c) 0 := by unfold bboxLOff; split <;> omega
    have hr : bboxROff xs.length c s = max (c + s - xs.length) 0 := by unfold bboxROff; split <;> omega
    have hw : (min (max (bboxLOff c) (↑s - bboxROff (↑xs.length) c ↑s)) ↑s).toNat - (min (bboxLOff c) ↑s).toNat
        = (bboxRegion xs c s).length := by
      rw [bboxRegion_length, hl, hr]; omega
    rw [if_pos hw]
    congr 1
    apply List.ext_getElem?
    intro k
    rw [bboxSpec_getElem?, List.getElem?_append, List.getElem?_append, List.getElem?_replicate,
      List.getElem?_replicate]
    simp only [List.length_append, List.length_replicate]
    rw [bboxRegion_length, bboxRegion_eq, slice_getElem?, hl, hr]
    rw [bboxRegion_length, hl, hr] at hw
    by_cases hk : k < s
    · simp only [hk, if_true]
      by_cases hin : 0 ≤ c + ↑k ∧ c + ↑k < ↑xs.length
      · rw [if_pos hin]
        have a1 : k < (min (max (-c) 0) ↑s).toNat +
            ((min (max (max c 0) (min (c + ↑s) ↑xs.length)) ↑xs.length).toNat - (min (max c 0) ↑xs.length).toNat) := by omega
        have a2 : ¬ k < (min (max (-c) 0) ↑s).toNat := by omega
        have a3 : (min (max c 0) ↑xs.length).toNat + (k - (min (max (-c) 0) ↑s).toNat) <
            (min (max (max c 0) (min (c + ↑s) ↑xs.length)) ↑xs.length).toNat := by omega
        rw [if_pos a1, if_neg a2, if_pos a3]
        congr 1; omega
      · rw [if_neg hin]
        by_cases a2 : k < (min (max (-c) 0) ↑s).toNat
        · have a1 : k < (min (max (-c) 0) ↑s).toNat +
            ((min (max (max c 0) (min (c + ↑s) ↑xs.length)) ↑xs.length).toNat - (min (max c 0) ↑xs.length).toNat) := by omega
          simp only [a1, a2, if_true]
        · have a1 : ¬ k < (min (max (-c) 0) ↑s).toNat +
            ((min (max (max c 0) (min (c + ↑s) ↑xs.length)) ↑xs.length).toNat - (min (max c 0) ↑xs.length).toNat) := by omega
          rw [if_neg a1]
          have a4 : k - ((min (max (-c) 0) ↑s).toNat +
            ((min (max (max c 0) (min (c + ↑s) ↑xs.length)) ↑xs.length).toNat - (min (max c 0) ↑xs.length).toNat)) <
            (s : Int).toNat - (min (max (-c) 0) ↑s).toNat -
              ((min (max (max (-c) 0) (↑s - max (c + ↑s - ↑xs.length) 0)) ↑s).toNat - (min (max (-c) 0) ↑s).toNat) := by omega
          rw [if_pos a4]
    · simp only [hk, if_false]
      have a1 : ¬ k < (min (max (-c) 0) ↑s).toNat +
            ((min (max (max c 0) (min (c + ↑s) ↑xs.length)) ↑xs.length).toNat - (min (max c 0) ↑xs.length).toNat) := by omega
      rw [if_neg a1]
      have a4 : ¬ k - ((min (max (-c) 0) ↑s).toNat +
            ((min (max (max c 0) (min (c + ↑s) ↑xs.length)) ↑xs.length).toNat - (min (max c 0) ↑xs.length).toNat)) <
            (s : Int).toNat - (min (max (-c) 0) ↑s).toNat -
              ((min (max (max (-c) 0) (↑s - max (c + ↑s - ↑xs.length) 0)) ↑s).toNat - (min (max (-c) 0) ↑s).toNat) := by omega
      rw [if_neg a4]



/-- a box lying inside the axis (`0 ≤ lp`, `lp + s ≤ n` — what `complex_random_crop` guarantees for its drawn and
clipped corner, `0 ≤ lp ≤ limit = n - s`) is returned as exactly the window `xs[lp : lp + s]`, no fill value involved -/
theorem bbox_inside_eq_slice {α} (fill : α) (xs : List α) (lp s : Nat) (h : lp + s ≤ xs.length) :
    cropToBbox fill xs lp s = .ok (slice xs lp (lp + s)) := by
  rw [bbox_correct]
  congr 1
  apply List.ext_getElem?
  intro k
  rw [bboxSpec_getElem?, slice_getElem?]
  by_cases hk : k < s
  · have h1 : (0:Int) ≤ ↑lp + ↑k ∧ (↑lp + ↑k : Int) < ↑xs.length := by omega
    have h2 : lp + k < lp + s := by omega
    simp only [hk, h1, h2, and_self, if_true]
    congr 1
  · have h2 : ¬ lp + k < lp + s := by omega
    simp only [hk, h2, if_false]

/-! ### `crop_to_largest`: padding every item of a list to the largest shape -/

/-- `crop_to_largest` returns, per axis, the window of length `max` starting at `-floor((max - n)/2)`, pad value outside -/
theorem crop_to_largest_spec {α} (fill : α) (mx : Nat) (xs : List α) :
    cropToLargest1 fill mx xs = .ok (bboxSpec fill xs (cropToLargestStart mx xs.length) mx) :=
  bbox_correct fill xs _ mx

/-- the data sits `floor((max - n) / 2)` after the start of the padded item (the convention of `pad_tensor`) … -/
theorem crop_to_largest_places {α} (fill : α) (mx : Nat) (xs : List α) (h : xs.length ≤ mx) (i : Nat) (hi : i < xs.length) :
    (bboxSpec fill xs (cropToLargestStart mx xs.length) mx)[i + (mx - xs.length) / 2]? = xs[i]? := by
  rw [bboxSpec_getElem?]
  unfold cropToLargestStart
  have e : -((↑mx - ↑xs.length : Int) / 2) + ↑(i + (mx - xs.length) / 2) = (i : Int) := by omega
  have h1 : i + (mx - xs.length) / 2 < mx := by omega
  rw [if_pos h1, e, if_pos (by omega)]
  simp

/-- … and everything else is the pad value -/
theorem crop_to_largest_fill {α} (fill : α) (mx : Nat) (xs : List α) (h : xs.length ≤ mx) (k : Nat) (hk : k < mx)
    (hout : k < (mx - xs.length) / 2 ∨ (mx - xs.length) / 2 + xs.length ≤ k) :
    (bboxSpec fill xs (cropToLargestStart mx xs.length) mx)[k]? = some fill := by
  rw [bboxSpec_getElem?]
  unfold cropToLargestStart
  rw [if_pos hk, if_neg (by omega)]

/-- **`crop_to_largest` followed by a centre crop back to the item's size is the identity — every size, every parity of
the difference** (full statement; holds since 40ede8a) -/
theorem crop_to_largest_center_crop_id {α} (fill : α) (mx : Nat) (xs : List α) (h : xs.length ≤ mx) :
    centerCrop xs.length (bboxSpec fill xs (cropToLargestStart mx xs.length) mx) = xs := by
  apply List.ext_getElem?
  intro i
  have hl : (bboxSpec fill xs (cropToLargestStart mx xs.length) mx).length = mx := bbox_length _ _ _ _
  by_cases hi : i < xs.length
  · rw [center_crop_window _ _ (by rw [hl]; exact h) i hi, hl]
    exact crop_to_largest_places fill mx xs h i hi
  · have hcl := center_crop_length xs.length (bboxSpec fill xs (cropToLargestStart mx xs.length) mx) (by rw [hl]; exact h)
    rw [List.getElem?_eq_none (by omega), List.getElem?_eq_none (by omega)]

/-- `crop_to_largest` and `pad_tensor` agree: same placement, pad value elsewhere -/
theorem crop_to_largest_eq_pad {α} (fill : α) (mx : Nat) (xs : List α) (h : xs.length ≤ mx) :
    bboxSpec fill xs (cropToLargestStart mx xs.length) mx = padTo fill mx xs := by
  apply List.ext_getElem?
  intro k
  have hl : (bboxSpec fill xs (cropToLargestStart mx xs.length) mx).length = mx := bbox_length _ _ _ _
  have hp := pad_length fill mx xs h
  by_cases hk : k < mx
  · by_cases hin : (mx - xs.length) / 2 ≤ k ∧ k < (mx - xs.length) / 2 + xs.length
    · obtain ⟨i, rfl⟩ : ∃ i, k = i + (mx - xs.length) / 2 := ⟨k - (mx - xs.length) / 2, by omega⟩
      rw [crop_to_largest_places fill mx xs h i (by omega), pad_places fill mx xs h i (by omega)]
    · rw [crop_to_largest_fill fill mx xs h k hk (by omega)]
      simp only [padTo, fPad, padAfter, padBefore]
      have e : (max 0 ((↑mx - ↑xs.length : Int) / 2)).toNat = (mx - xs.length) / 2 := by omega
      rw [e, List.append_assoc, List.getElem?_append, List.getElem?_append]
      simp only [List.length_replicate, List.getElem?_replicate]
      by_cases h1 : k < (mx - xs.length) / 2
      · simp [h1]
      · have h2 : ¬ k - (mx - xs.length) / 2 < xs.length := by omega
        have h3 : k - (mx - xs.length) / 2 - xs.length <
            (max 0 (↑mx - ↑xs.length - max 0 ((↑mx - ↑xs.length : Int) / 2))).toNat := by omega
        simp [h1, h2, h3]
  · rw [List.getElem?_eq_none (by omega), List.getElem?_eq_none (by omega)]

/-- the pinned tree (`-(max - n) // 2`, i.e. `ceil` fill values before the data) violated the identity for odd
differences: an item of length 2 padded to 3 was `[pad, 1, 2]`, centre-cropped back `[pad, 1]` — regression witness -/
theorem crop_to_largest_pinned_violates :
    cropToLargest1Pinned (0 : Int) 3 [1, 2] = .ok [0, 1, 2] ∧ centerCrop 2 [(0 : Int), 1, 2] ≠ [1, 2] := by decide

example : cropToLargest1 (9 : Int) 4 [1, 2] = .ok [9, 1, 2, 9] := by decide
example : cropToLargest1 (9 : Int) 3 [1, 2] = .ok [1, 2, 9] := by decide

/-! ### dtype of the padded patch of `crop_to_bbox` -/

/-- `torch.full(size, pad_value, dtype=data.dtype)` keeps the element type for every input type -/
theorem bbox_patch_dtype_preserved (d : ElemType) : patchDtype .full d = d := rfl

/-- pinned tree (`pad_value * ones(size, dtype=data.dtype)`): a bool input came back as an integer tensor; an allocation
without `dtype=` (seeded C10-2) turns everything into float — regression witnesses -/
theorem bbox_patch_dtype_pinned_violates : patchDtype .scaledOnes .bool ≠ .bool ∧ patchDtype .noDtype .int ≠ .int := by decide

/-! ### k-space crop / pad ≡ image-space crop / pad under the backward operator -/

/-- **`PadKspace`**: for any operator pair with `bwd ∘ fwd = id` and a `view_as_complex`/`view_as_real` pair that are
mutually inverse (with the pad acting on the complex view), the image of the padded k-space is the padded image:
`bwd (PadKspace k) = vr (pad (vc (bwd k)))`. -/
theorem pad_kspace_image_equiv {α} (o : KOps α) (hinv : ∀ y, o.bwd (o.fwd y) = y) (k : α) :
    o.bwd (runPlan o padKspacePlan k) = o.vr (o.pad (o.vc (o.bwd k))) := by
  simp only [runPlan, padKspacePlan, List.foldl, KOp.run, hinv]

/-- **`CropKspace`**: the image of the cropped k-space is the cropped image, `bwd (CropKspace k) = crop (bwd k)`. -/
theorem crop_kspace_image_equiv {α} (o : KOps α) (hinv : ∀ y, o.bwd (o.fwd y) = y) (k : α) :
    o.bwd (runPlan o cropKspacePlan k) = o.crop (o.bwd k) := by
  simp only [runPlan, cropKspacePlan, List.foldl, KOp.run, hinv]

/-- consequently pad-then-crop in k-space is the identity on the image whenever it is in image space
(`crop ∘ vr ∘ pad ∘ vc = id`, which is `pad_then_center_crop_id` lifted by `Lemmas/TensorLiftC10`). -/
theorem crop_pad_kspace_image_id {α} (o : KOps α) (hinv : ∀ y, o.bwd (o.fwd y) = y)
    (hcp : ∀ x, o.crop (o.vr (o.pad (o.vc x))) = x) (k : α) :
    o.bwd (runPlan o cropKspacePlan (runPlan o padKspacePlan k)) = o.bwd k := by
  rw [crop_kspace_image_equiv o hinv, pad_kspace_image_equiv o hinv, hcp]

/-- non-vacuity: identity operators with list pad / crop satisfy the hypotheses -/
example : ∀ y : List Int, (id ∘ id) y = y := fun _ => rfl
example : runPlan (α := List Int) ⟨id, id, id, id, padTo 0 6, centerCrop 3⟩ cropKspacePlan
    (runPlan ⟨id, id, id, id, padTo 0 6, centerCrop 3⟩ padKspacePlan [1, 2, 3]) = [1, 2, 3] := by decide

/-- non-vacuity: hypotheses of the main theorems are met by concrete odd/even cases -/
example : centerCrop 3 (padTo (0 : Int) 6 [1, 2, 3]) = [1, 2, 3] := by decide
example : centerCrop 2 (padTo (0 : Int) 7 [1, 2]) = [1, 2] := by decide
example : padTo (0 : Int) 6 [1, 2, 3] = [0, 1, 2, 3, 0, 0] := by decide
example : cropToBbox (9 : Int) [0, 1, 2, 3, 4] (-2) 4 = .ok [9, 9, 0, 1] := by decide
example : cropToBbox (9 : Int) [0, 1, 2, 3, 4] 7 2 = .ok [9, 9] := by decide   -- disjoint box

end DirectVerif.C10
