import Mathlib.Analysis.InnerProductSpace.Adjoint
import Mathlib.Analysis.Calculus.Deriv.Add
import Mathlib.Analysis.Calculus.Deriv.Mul
import Mathlib.Analysis.Calculus.Deriv.Pow
import DirectVerif.Lemmas.C19Term
import DirectVerif.Lemmas.C19Batch
import DirectVerif.Lemmas.C19Sites
import DirectVerif.Lemmas.C19Unnorm
import DirectVerif.Lemmas.C19Stop
import DirectVerif.Lemmas.C19State
/-!
# C19 — data-consistency blocks implement the MRI physics exactly

Property theorems only.  All statements are about `loglik`, `cgInit`, `cgStep`, `cgIter`, `cgLoop`,
`cg`, `conjGradForward` of `Model/DataConsistency.lean` — the definitions the driver executes over
Gaussian rationals — instantiated with `mathOps F Fb Ex R M`: images `E` and multi-coil k-space `G`
arbitrary complex inner-product spaces, the five operators arbitrary linear maps subject to
`Physics`: `Fb` the adjoint of `F` (C01: the normalised pair is unitary), `R` the adjoint of `Ex`
(C02), `M` an orthogonal projection (C03).  `A = M F E` (`fwdModel`), `A† = R Fb M` (`adjModel`).

Floating-point rounding ("to solver tolerance") is outside these theorems; it is checked on the
real code by the oracle against a dense solve.
-/
open ComplexInnerProductSpace DirectVerif.DataConsistency
open scoped ComplexConjugate

namespace DirectVerif.C19
variable {E : Type*} [NormedAddCommGroup E] [InnerProductSpace ℂ E]
variable {G : Type*} [NormedAddCommGroup G] [InnerProductSpace ℂ G]
variable {F Fb : G →ₗ[ℂ] G} {Ex : E →ₗ[ℂ] G} {R : G →ₗ[ℂ] E} {M : G →ₗ[ℂ] G}

local notation "𝒪" => mathOps F Fb Ex R M

/-! ## MRILogLikelihood -/

/-- `A† = R Fb M` really is the adjoint of `A = M F E` -/
theorem adjModel_is_adjoint (P : Physics F Fb Ex R M) (x : E) (w : G) :
    ⟪fwdModel F Ex M x, w⟫ = ⟪x, adjModel Fb R M w⟫ := adjModel_adjoint P x w

/-- in finite dimension `A†` is Mathlib's `LinearMap.adjoint A` -/
theorem adjModel_eq_adjoint [FiniteDimensional ℂ E] [FiniteDimensional ℂ G] (P : Physics F Fb Ex R M) :
    adjModel Fb R M = LinearMap.adjoint (fwdModel F Ex M) := by
  rw [LinearMap.eq_adjoint_iff]
  intro w x
  rw [← inner_conj_symm, ← adjModel_adjoint P, inner_conj_symm]

/-- **`MRILogLikelihood.forward` equals `s · A†(A x − M y)`**, the analytic gradient of
`s · ½‖M F E x − M y‖²`, for every image, data, sensitivity map and mask. -/
theorem loglik_eq_gradient (P : Physics F Fb Ex R M) (s : ℂ) (x : E) (y : G) :
    loglik 𝒪 s x y = s • adjModel Fb R M (fwdModel F Ex M x - M y) :=
  loglik_eq_adjoint_residual P s x y

/-- the same through Mathlib's adjoint -/
theorem loglik_eq_adjoint [FiniteDimensional ℂ E] [FiniteDimensional ℂ G] (P : Physics F Fb Ex R M)
    (s : ℂ) (x : E) (y : G) :
    loglik 𝒪 s x y = s • LinearMap.adjoint (fwdModel F Ex M) (fwdModel F Ex M x - M y) := by
  rw [loglik_eq_gradient P, adjModel_eq_adjoint P]

/-- **gradient, as an exact expansion**: for all `x h`,
`f (x + h) = f x + re⟪loglik x, h⟫ + ½‖A h‖²` with `f x = ½‖M F E x − M y‖²`. -/
theorem loglik_is_gradient (P : Physics F Fb Ex R M) (x h : E) (y : G) :
    dataFit F Ex M (x + h) y =
      dataFit F Ex M x y + (⟪loglik 𝒪 1 x y, h⟫).re + ‖fwdModel F Ex M h‖ ^ 2 / 2 :=
  dataFit_expansion P x h y

/-- **gradient, as a derivative**: the derivative of `t ↦ f (x + t h)` at `0` is `re⟪loglik x, h⟫`
for every direction `h` -/
theorem loglik_directional_derivative (P : Physics F Fb Ex R M) (x h : E) (y : G) :
    HasDerivAt (fun t : ℝ => dataFit F Ex M (x + (t : ℂ) • h) y) (⟪loglik 𝒪 1 x y, h⟫).re 0 := by
  have e : (fun t : ℝ => dataFit F Ex M (x + (t : ℂ) • h) y) =
      fun t : ℝ => dataFit F Ex M x y + t * (⟪loglik 𝒪 1 x y, h⟫).re +
        t ^ 2 * (‖fwdModel F Ex M h‖ ^ 2 / 2) := by
    funext t
    rw [dataFit_expansion P, inner_smul_right, Complex.re_ofReal_mul, map_smul, norm_smul,
      Complex.norm_real, mul_pow, Real.norm_eq_abs, sq_abs]
    ring
  rw [e]
  have h1 : HasDerivAt (fun t : ℝ => t * (⟪loglik 𝒪 1 x y, h⟫).re) (1 * (⟪loglik 𝒪 1 x y, h⟫).re) 0 :=
    HasDerivAt.mul_const (hasDerivAt_id (0 : ℝ)) _
  have h2 : HasDerivAt (fun t : ℝ => t ^ 2 * (‖fwdModel F Ex M h‖ ^ 2 / 2))
      ((2 : ℕ) * (0 : ℝ) ^ (2 - 1) * (‖fwdModel F Ex M h‖ ^ 2 / 2)) 0 :=
    HasDerivAt.mul_const (hasDerivAt_pow 2 (0 : ℝ)) _
  have h3 := HasDerivAt.add (HasDerivAt.const_add (dataFit F Ex M x y) h1) h2
  refine HasDerivAt.congr_deriv (f' := 1 * (⟪loglik 𝒪 1 x y, h⟫).re +
    (2 : ℕ) * (0 : ℝ) ^ (2 - 1) * (‖fwdModel F Ex M h‖ ^ 2 / 2)) h3 ?_
  simp

/-- … and for the un-masked data term `½‖M F E x − y‖²` of the property statement (it differs from
`dataFit` by a constant) -/
theorem loglik_is_gradient_unmasked (P : Physics F Fb Ex R M) (x h : E) (y : G) :
    ‖fwdModel F Ex M (x + h) - y‖ ^ 2 / 2 =
      ‖fwdModel F Ex M x - y‖ ^ 2 / 2 + (⟪loglik 𝒪 1 x y, h⟫).re + ‖fwdModel F Ex M h‖ ^ 2 / 2 := by
  rw [dataFit_unmasked P, dataFit_unmasked P, dataFit_expansion P]; ring

/-- the expansion determines the gradient: any `g` with the same first-order term is the block's
output -/
theorem loglik_gradient_unique (P : Physics F Fb Ex R M) (x g : E) (y : G)
    (hg : ∀ h : E, dataFit F Ex M (x + h) y =
      dataFit F Ex M x y + (⟪g, h⟫).re + ‖fwdModel F Ex M h‖ ^ 2 / 2) :
    g = loglik 𝒪 1 x y := by
  apply gradient_unique
  intro h
  have := hg h
  rw [dataFit_expansion P] at this
  linarith

/-- **vanishes on consistent data**: `y = A x₀` -/
theorem loglik_zero_on_consistent (P : Physics F Fb Ex R M) (s : ℂ) (x₀ : E) :
    loglik 𝒪 s x₀ (fwdModel F Ex M x₀) = 0 := by
  apply loglik_zero_of_masked_consistent
  simp only [fwdModel, LinearMap.comp_apply, P.mask_idem]

/-- … already when the data agree with `F E x₀` on the sampled positions only (no assumption on the
operators at all) -/
theorem loglik_zero_on_masked_consistent (s : ℂ) (x₀ : E) (y : G) (hy : M y = M (F (Ex x₀))) :
    loglik 𝒪 s x₀ y = 0 :=
  loglik_zero_of_masked_consistent s x₀ y hy

/-- **un-normalised operators**: when the backward operator is `c ·` the adjoint `Fa` of the forward
operator (`ifftn` with `norm=None` is `F*/N`: `c = 1/N`) the block is `c ·` the gradient. -/
theorem loglik_unnormalised {Fa : G →ₗ[ℂ] G} (P : Physics F Fa Ex R M) (c s : ℂ)
    (hFb : ∀ v, Fb v = c • Fa v) (x : E) (y : G) :
    loglik 𝒪 s x y = c • (s • adjModel Fa R M (fwdModel F Ex M x - M y)) := by
  rw [loglik_scaled_backward Fa c s hFb, loglik_eq_gradient P]

/-! ## ConjGrad -/

/-- **`B_op x = b` is the regularised normal equation `(A†A + λ) x = A† y + λ z`** -/
theorem normal_equations (P : Physics F Fb Ex R M) (lam : ℂ) (x z : E) (y : G) :
    bOp 𝒪 lam x = rhs 𝒪 lam y z ↔
      adjModel Fb R M (fwdModel F Ex M x) + lam • x = adjModel Fb R M y + lam • z := by
  rw [bOp_eq, bLin_apply P]; rfl

/-- the state after `k` passes through the loop body of `cg(x0, y, S, mask, lambd, z)` -/
def iterate {K V W : Type*} (o : Ops K V W) (lam : K) (y : W) (z x0 : V) (u : Update) (k : ℕ) :
    CGState K V :=
  cgIter o u (bOp o lam) k (cgInit o lam y z x0)

/-- the energy of the regularised normal equations, `½⟪x, Bx⟫ − re⟪b, x⟫` with `B = B_op`,
`b = A† y + λ z`; up to a constant it is `½‖x − x*‖²_B` (`energy_is_error`) and also
`½(‖A x − M y‖² + λ‖x − z‖²)`, the objective in the docstring of `ConjGrad` -/
noncomputable def cgEnergy (F Fb : G →ₗ[ℂ] G) (Ex : E →ₗ[ℂ] G) (R : G →ₗ[ℂ] E) (M : G →ₗ[ℂ] G)
    (lam : ℝ) (y : G) (z x : E) : ℝ :=
  energy (bLin F Fb Ex R M (lam : ℂ)) (rhs (mathOps F Fb Ex R M) (lam : ℂ) y z) x

/-- the energy **is** the objective in the docstring of `ConjGrad`,
`½(‖A x − M y‖² + λ‖x − z‖²)`, up to a constant -/
theorem cgEnergy_eq_objective (P : Physics F Fb Ex R M) (lam : ℝ) (y : G) (z x : E) :
    cgEnergy F Fb Ex R M lam y z x =
      (‖fwdModel F Ex M x - M y‖ ^ 2 + lam * ‖x - z‖ ^ 2) / 2 - (‖M y‖ ^ 2 + lam * ‖z‖ ^ 2) / 2 := by
  have hrhs : rhs 𝒪 (lam : ℂ) y z = adjModel Fb R M y + (lam : ℂ) • z := rfl
  have hy : (⟪adjModel Fb R M y, x⟫).re = (⟪fwdModel F Ex M x, M y⟫).re := by
    rw [re_inner_symm, ← adjModel_adjoint P]
    simp only [fwdModel, LinearMap.comp_apply]
    rw [P.mask_sa, P.mask_sa (F (Ex x)), P.mask_idem]
  unfold cgEnergy energy
  rw [hrhs, bLin_apply P, inner_add_right, inner_add_left, inner_smul_right, inner_smul_left,
    ← adjModel_adjoint P, Complex.add_re, Complex.add_re, Complex.conj_ofReal, Complex.re_ofReal_mul,
    Complex.re_ofReal_mul, hy, re_inner_self, re_inner_self, norm_sub_sq (𝕜 := ℂ), norm_sub_sq (𝕜 := ℂ),
    re_inner_symm z x]
  simp only [RCLike.re_to_complex]
  ring

/-- the objective of the docstring of `ConjGrad` -/
noncomputable def objective (F : G →ₗ[ℂ] G) (Ex : E →ₗ[ℂ] G) (M : G →ₗ[ℂ] G) (lam : ℝ) (y : G)
    (z x : E) : ℝ :=
  (‖fwdModel F Ex M x - M y‖ ^ 2 + lam * ‖x - z‖ ^ 2) / 2

section
variable (P : Physics F Fb Ex R M) (lam : ℝ) (hl : 0 < lam) (y : G) (z x0 : E)

/-- the state before the loop satisfies the invariant -/
theorem cgInit_inv :
    CGInv (bLin F Fb Ex R M (lam : ℂ)) (rhs 𝒪 (lam : ℂ) y z) (cgInit 𝒪 (lam : ℂ) y z x0) where
  res := rfl
  rr := rfl
  pr := rfl
  cj := rfl

include P hl

/-- the loop invariant holds after every pass, for FR (default) and PRP -/
theorem cg_invariant (u : Update) (hu : u = .FR ∨ u = .PRP) (k : ℕ) :
    CGInv (bLin F Fb Ex R M (lam : ℂ)) (rhs 𝒪 (lam : ℂ) y z) (iterate 𝒪 (lam : ℂ) y z x0 u k) := by
  unfold iterate
  rw [bOp_eq]
  exact cgIter_inv F Fb Ex R M (bLin_spd P lam hl) u hu k (cgInit_inv lam y z x0)

/-- `r_k = b − B x_k`: the carried residual is the true residual of the normal equations -/
theorem cg_residual (u : Update) (hu : u = .FR ∨ u = .PRP) (k : ℕ) :
    (iterate 𝒪 (lam : ℂ) y z x0 u k).r =
      rhs 𝒪 (lam : ℂ) y z - bOp 𝒪 (lam : ℂ) (iterate 𝒪 (lam : ℂ) y z x0 u k).x := by
  rw [bOp_eq]; exact (cg_invariant P lam hl y z x0 u hu k).res

/-- the cached `rk_norm_sq_old` is `⟪r_k, r_k⟫` -/
theorem cg_cached_norm (u : Update) (hu : u = .FR ∨ u = .PRP) (k : ℕ) :
    (iterate 𝒪 (lam : ℂ) y z x0 u k).rr =
      ⟪(iterate 𝒪 (lam : ℂ) y z x0 u k).r, (iterate 𝒪 (lam : ℂ) y z x0 u k).r⟫ :=
  (cg_invariant P lam hl y z x0 u hu k).rr

/-- `⟪p_k, r_k⟫ = ⟪r_k, r_k⟫` -/
theorem cg_pr_orth (u : Update) (hu : u = .FR ∨ u = .PRP) (k : ℕ) :
    ⟪(iterate 𝒪 (lam : ℂ) y z x0 u k).p, (iterate 𝒪 (lam : ℂ) y z x0 u k).r⟫ =
      ⟪(iterate 𝒪 (lam : ℂ) y z x0 u k).r, (iterate 𝒪 (lam : ℂ) y z x0 u k).r⟫ :=
  (cg_invariant P lam hl y z x0 u hu k).pr

/-- the step length uses `⟪r_k, B p_k⟫`; on the invariant this is the textbook `⟪p_k, B p_k⟫` -/
theorem cg_step_length_denominator (u : Update) (hu : u = .FR ∨ u = .PRP) (k : ℕ) :
    ⟪(iterate 𝒪 (lam : ℂ) y z x0 u k).r, bOp 𝒪 (lam : ℂ) (iterate 𝒪 (lam : ℂ) y z x0 u k).p⟫ =
      ⟪(iterate 𝒪 (lam : ℂ) y z x0 u k).p, bOp 𝒪 (lam : ℂ) (iterate 𝒪 (lam : ℂ) y z x0 u k).p⟫ := by
  rw [bOp_eq]; exact (cg_invariant P lam hl y z x0 u hu k).cj

/-- all residuals are mutually orthogonal (in particular `⟪r_{k+1}, r_k⟫ = 0`) -/
theorem cg_residuals_orthogonal (u : Update) (hu : u = .FR ∨ u = .PRP) (i k : ℕ) (hik : i < k) :
    ⟪(iterate 𝒪 (lam : ℂ) y z x0 u i).r, (iterate 𝒪 (lam : ℂ) y z x0 u k).r⟫ = 0 := by
  unfold iterate
  rw [bOp_eq]
  exact (cg_full_orth F Fb Ex R M (bLin_spd P lam hl) u hu (cgInit_inv lam y z x0) rfl k i hik).1

/-- all search directions are mutually `B`-conjugate (in particular `⟪p_k, B p_{k+1}⟫ = 0`) -/
theorem cg_directions_conjugate (u : Update) (hu : u = .FR ∨ u = .PRP) (i k : ℕ) (hik : i < k) :
    ⟪(iterate 𝒪 (lam : ℂ) y z x0 u i).p,
      bOp 𝒪 (lam : ℂ) (iterate 𝒪 (lam : ℂ) y z x0 u k).p⟫ = 0 := by
  unfold iterate
  rw [bOp_eq]
  exact (cg_full_orth F Fb Ex R M (bLin_spd P lam hl) u hu (cgInit_inv lam y z x0) rfl k i hik).2

/-- **in exact arithmetic the Polak–Ribière variant computes the same iterates as the default** -/
theorem cg_prp_eq_fr (k : ℕ) :
    iterate 𝒪 (lam : ℂ) y z x0 .PRP k = iterate 𝒪 (lam : ℂ) y z x0 .FR k := by
  induction k with
  | zero => rfl
  | succ k ih =>
    have inv := cg_invariant P lam hl y z x0 .FR (Or.inl rfl) k
    unfold iterate at ih inv ⊢
    rw [cgIter_succ, cgIter_succ, ih]
    rw [bOp_eq] at inv ⊢
    exact prp_eq_fr F Fb Ex R M (bLin_spd P lam hl) inv

/-- **the energy never increases from one pass to the next** -/
theorem cg_energy_monotone (u : Update) (hu : u = .FR ∨ u = .PRP) (k : ℕ) :
    cgEnergy F Fb Ex R M lam y z (iterate 𝒪 (lam : ℂ) y z x0 u (k + 1)).x ≤
      cgEnergy F Fb Ex R M lam y z (iterate 𝒪 (lam : ℂ) y z x0 u k).x := by
  have inv := cg_invariant P lam hl y z x0 u hu k
  unfold iterate at inv ⊢
  rw [cgIter_succ]
  rw [bOp_eq] at inv ⊢
  exact cg_energy_step_le F Fb Ex R M (bLin_spd P lam hl) u inv

/-- **never worse than its starting point**, after any number of passes -/
theorem cg_energy_le_start (u : Update) (hu : u = .FR ∨ u = .PRP) (k : ℕ) :
    cgEnergy F Fb Ex R M lam y z (iterate 𝒪 (lam : ℂ) y z x0 u k).x ≤
      cgEnergy F Fb Ex R M lam y z x0 := by
  induction k with
  | zero => exact le_rfl
  | succ k ih => exact (cg_energy_monotone P lam hl y z x0 u hu k).trans ih

/-- what `cg` returns: the `x` of some iterate `j ≤ num_iters`; `j < num_iters` only if the stopping
test fired on the (true) squared residual norm of that iterate — "to solver tolerance" -/
theorem cg_returns_iterate (u : Update) (hu : u = .FR ∨ u = .PRP) (n : ℕ) (stop : ℂ → Bool) :
    ∃ j, j ≤ n ∧ cg 𝒪 u n stop (lam : ℂ) x0 y z = (iterate 𝒪 (lam : ℂ) y z x0 u j).x ∧
      (j < n → stop ⟪rhs 𝒪 (lam : ℂ) y z - bOp 𝒪 (lam : ℂ) (iterate 𝒪 (lam : ℂ) y z x0 u j).x,
                    rhs 𝒪 (lam : ℂ) y z - bOp 𝒪 (lam : ℂ) (iterate 𝒪 (lam : ℂ) y z x0 u j).x⟫ = true) := by
  obtain ⟨j, hj, e, hs⟩ := cgLoop_spec F Fb Ex R M u (bOp 𝒪 (lam : ℂ)) stop n (cgInit 𝒪 (lam : ℂ) y z x0)
  refine ⟨j, hj, e, fun h => ?_⟩
  rw [← cg_residual P lam hl y z x0 u hu j, ← cg_cached_norm P lam hl y z x0 u hu j]
  exact hs h

/-- **`ConjGrad.cg` is never worse than its starting point** (any `num_iters`, any `tol`) -/
theorem cg_never_worse (u : Update) (hu : u = .FR ∨ u = .PRP) (n : ℕ) (stop : ℂ → Bool) :
    cgEnergy F Fb Ex R M lam y z (cg 𝒪 u n stop (lam : ℂ) x0 y z) ≤ cgEnergy F Fb Ex R M lam y z x0 := by
  obtain ⟨j, _, e, _⟩ := cg_returns_iterate P lam hl y z x0 u hu n stop
  rw [e]; exact cg_energy_le_start P lam hl y z x0 u hu j

/-- **`ConjGrad.forward` (start `x0 = z`) is never worse than `z`** -/
theorem conjGrad_never_worse (u : Update) (hu : u = .FR ∨ u = .PRP) (n : ℕ) (stop : ℂ → Bool) :
    cgEnergy F Fb Ex R M lam y z (conjGradForward 𝒪 u n stop (lam : ℂ) y z) ≤
      cgEnergy F Fb Ex R M lam y z z :=
  cg_never_worse P lam hl y z z u hu n stop

/-- **`ConjGrad.forward` never increases the objective `½(‖A x − M y‖² + λ‖x − z‖²)`** over its
starting point `z` — for the default and the Polak–Ribière update, any `num_iters`, any `tol` -/
theorem conjGrad_objective_never_worse (u : Update) (hu : u = .FR ∨ u = .PRP) (n : ℕ) (stop : ℂ → Bool) :
    objective F Ex M lam y z (conjGradForward 𝒪 u n stop (lam : ℂ) y z) ≤ objective F Ex M lam y z z := by
  have := conjGrad_never_worse P lam hl y z u hu n stop
  rw [cgEnergy_eq_objective P, cgEnergy_eq_objective P] at this
  unfold objective
  linarith

/-- the energy measures the `B`-norm distance to the solution `x*` of the normal equations -/
theorem energy_is_error (x xs : E) (hs : bOp 𝒪 (lam : ℂ) xs = rhs 𝒪 (lam : ℂ) y z) :
    cgEnergy F Fb Ex R M lam y z x =
      cgEnergy F Fb Ex R M lam y z xs + (⟪x - xs, bOp 𝒪 (lam : ℂ) (x - xs)⟫).re / 2 := by
  rw [bOp_eq] at hs ⊢
  exact energy_eq_error (bLin_spd P lam hl) _ x xs hs

/-- **fixed point**: the residual vanishes iff the iterate solves
`(A†A + λ) x = A† y + λ z` -/
theorem cg_fixed_point (u : Update) (hu : u = .FR ∨ u = .PRP) (k : ℕ) :
    (iterate 𝒪 (lam : ℂ) y z x0 u k).r = 0 ↔
      adjModel Fb R M (fwdModel F Ex M (iterate 𝒪 (lam : ℂ) y z x0 u k).x) +
        (lam : ℂ) • (iterate 𝒪 (lam : ℂ) y z x0 u k).x = adjModel Fb R M y + (lam : ℂ) • z := by
  rw [← normal_equations P, cg_residual P lam hl y z x0 u hu k, sub_eq_zero, eq_comm]

/-- **finite termination**: in dimension `n` the `n`-th iterate solves the normal equations exactly -/
theorem cg_finite_termination [FiniteDimensional ℂ E] (u : Update) (hu : u = .FR ∨ u = .PRP) :
    adjModel Fb R M (fwdModel F Ex M (iterate 𝒪 (lam : ℂ) y z x0 u (Module.finrank ℂ E)).x) +
      (lam : ℂ) • (iterate 𝒪 (lam : ℂ) y z x0 u (Module.finrank ℂ E)).x =
        adjModel Fb R M y + (lam : ℂ) • z := by
  rw [← cg_fixed_point P lam hl y z x0 u hu]
  unfold iterate
  rw [bOp_eq]
  exact cgIter_finite_termination F Fb Ex R M (bLin_spd P lam hl) u hu (cgInit_inv lam y z x0) rfl

/-! ### "to solver tolerance within `num_iters`": what the stopping rule guarantees on exit (exact arithmetic) -/

/-- **exit guarantee of `ConjGrad.cg`** with the code's own test `rk_norm_sq_new.abs().sqrt().mean() < tol` (`stopTol`):
the returned `x` is the iterate of pass `j ≤ num_iters`; if the loop was left early (`j < num_iters`) the TRUE residual of
the returned `x` satisfies `‖b − B x‖ < 2·tol` (the mean over the `(re, im)` pair halves the norm), and `j` is the first such
pass: at every earlier pass the true residual norm was still `≥ 2·tol`. -/
theorem cg_exit_guarantee (u : Update) (hu : u = .FR ∨ u = .PRP) (n : ℕ) (tol : ℝ) :
    ∃ j, j ≤ n ∧ cg 𝒪 u n (stopTol tol) (lam : ℂ) x0 y z = (iterate 𝒪 (lam : ℂ) y z x0 u j).x ∧
      (j < n → 0 < j ∧
        ‖rhs 𝒪 (lam : ℂ) y z - bOp 𝒪 (lam : ℂ) (iterate 𝒪 (lam : ℂ) y z x0 u j).x‖ < 2 * tol) ∧
      (∀ i, 0 < i → i < j →
        2 * tol ≤ ‖rhs 𝒪 (lam : ℂ) y z - bOp 𝒪 (lam : ℂ) (iterate 𝒪 (lam : ℂ) y z x0 u i).x‖) := by
  obtain ⟨j, hj, e, hs, hfirst⟩ :=
    cgLoop_spec_first 𝒪 u (bOp 𝒪 (lam : ℂ)) (stopTol tol) n (cgInit 𝒪 (lam : ℂ) y z x0)
  have key : ∀ k, stopTol tol (iterate 𝒪 (lam : ℂ) y z x0 u k).rr = true ↔
      ‖rhs 𝒪 (lam : ℂ) y z - bOp 𝒪 (lam : ℂ) (iterate 𝒪 (lam : ℂ) y z x0 u k).x‖ < 2 * tol := by
    intro k
    rw [cg_cached_norm P lam hl y z x0 u hu k, stopTol_inner_self, cg_residual P lam hl y z x0 u hu k]
  refine ⟨j, hj, e, fun h => ⟨(hs h).1, (key j).mp (hs h).2⟩, fun i h1 h2 => ?_⟩
  have := hfirst i h1 h2
  by_contra hc
  rw [not_le] at hc
  have ht := (key i).mpr hc
  unfold iterate at ht
  rw [ht] at this
  exact Bool.noConfusion this

/-- **within the dimension the tolerance IS reached** (exact arithmetic): with `num_iters ≥ dim` and `tol > 0` the returned `x`
solves the normal equations up to `‖b − B x‖ < 2·tol` — either the test fired, or all `dim` passes ran and the residual
is exactly zero (finite termination).  For `num_iters < dim` (the shipped budgets 10–15 on 10⁴-pixel images) reaching the
tolerance is a numerical matter, checked by the oracle. -/
theorem cg_reaches_tolerance [FiniteDimensional ℂ E] (u : Update) (hu : u = .FR ∨ u = .PRP) (n : ℕ)
    (hn : Module.finrank ℂ E ≤ n) (tol : ℝ) (ht : 0 < tol) :
    ‖rhs 𝒪 (lam : ℂ) y z - bOp 𝒪 (lam : ℂ) (cg 𝒪 u n (stopTol tol) (lam : ℂ) x0 y z)‖ < 2 * tol := by
  obtain ⟨j, hj, e, hs, _⟩ := cg_exit_guarantee P lam hl y z x0 u hu n tol
  rw [e]
  by_cases hjn : j < n
  · exact (hs hjn).2
  · have hjn' : j = n := by omega
    subst hjn'
    have h0 : (iterate 𝒪 (lam : ℂ) y z x0 u j).r = 0 := by
      unfold iterate
      rw [bOp_eq]
      have hz := cgIter_finite_termination F Fb Ex R M (bLin_spd P lam hl) u hu (cgInit_inv lam y z x0) rfl
      have := cgIter_r_zero F Fb Ex R M (bLin_spd P lam hl) u hu (cgInit_inv lam y z x0)
        (Module.finrank ℂ E) (j - Module.finrank ℂ E) hz
      rwa [Nat.add_sub_cancel' hn] at this
    rw [← cg_residual P lam hl y z x0 u hu j, h0, norm_zero]
    linarith

/-- `tol ≤ 0` (e.g. `tol = 0`) disables the test: all `num_iters` passes run -/
theorem cg_no_tolerance (u : Update) (n : ℕ) (tol : ℝ) (ht : tol ≤ 0) :
    cg 𝒪 u n (stopTol tol) (lam : ℂ) x0 y z = (iterate 𝒪 (lam : ℂ) y z x0 u n).x := by
  have e : stopTol tol = fun _ => false := funext (stopTol_nonpos tol ht)
  rw [e]
  exact cgLoop_never_stop 𝒪 u _ n _

/-- the solution is unique, so "the" solution of the normal equations is well defined -/
theorem normal_equations_unique (x x' : E)
    (h : bOp 𝒪 (lam : ℂ) x = rhs 𝒪 (lam : ℂ) y z) (h' : bOp 𝒪 (lam : ℂ) x' = rhs 𝒪 (lam : ℂ) y z) :
    x = x' := by
  rw [bOp_eq] at h h'
  have e : bLin F Fb Ex R M (lam : ℂ) (x - x') = 0 := by rw [map_sub, h, h', sub_self]
  have := (bLin_spd P lam hl).eq_zero (x - x') (by rw [e, inner_zero_right])
  exact sub_eq_zero.mp this

end
/-! ## ConjGrad with the un-normalised operator pair -/

/-- **`normalized=False`** (`backward = d² · adjoint(forward)`, `d² = 1/N`): `ConjGrad.forward` is the conjugate-gradient
run for the adjoint pair `(d F, d F†)` on data `d y`; it never increases
`½(d²‖M F E x − M y‖² + λ‖x − z‖²)` over its start and (by `cg_finite_termination` for that pair) solves
`(d² A†A + λ) x = d² A† y + λ z`. -/
theorem conjGrad_unnormalised_never_worse {Fa : G →ₗ[ℂ] G} (P : Physics F Fa Ex R M) (d lam : ℝ) (hl : 0 < lam)
    (y : G) (z : E) (u : Update) (hu : u = .FR ∨ u = .PRP) (n : ℕ) (stop : ℂ → Bool) :
    objective ((d : ℂ) • F) Ex M lam ((d : ℂ) • y) z
        (conjGradForward (mathOps F (((d : ℂ) * (d : ℂ)) • Fa) Ex R M) u n stop (lam : ℂ) y z) ≤
      objective ((d : ℂ) • F) Ex M lam ((d : ℂ) • y) z z := by
  have e : conjGradForward (mathOps F (((d : ℂ) * (d : ℂ)) • Fa) Ex R M) u n stop (lam : ℂ) y z =
      conjGradForward (mathOps ((d : ℂ) • F) ((d : ℂ) • Fa) Ex R M) u n stop (lam : ℂ) ((d : ℂ) • y) z :=
    cg_unnormalised d u n stop (lam : ℂ) z z y
  rw [e]
  exact conjGrad_objective_never_worse (physics_scaled P d) lam hl ((d : ℂ) • y) z u hu n stop

/-! ## ConjGrad on a batch -/
section Batch

/-- one sample of a batch over Mathlib's spaces (each sample has its own sensitivity map and mask) -/
structure MathSample (E : Type*) (G : Type*) [NormedAddCommGroup E] [InnerProductSpace ℂ E]
    [NormedAddCommGroup G] [InnerProductSpace ℂ G] where
  F : G →ₗ[ℂ] G
  Fb : G →ₗ[ℂ] G
  Ex : E →ₗ[ℂ] G
  R : G →ₗ[ℂ] E
  M : G →ₗ[ℂ] G
  x0 : E
  y : G
  z : E

noncomputable def MathSample.toSample (m : MathSample E G) : Sample ℂ E G :=
  { o := mathOps m.F m.Fb m.Ex m.R m.M, x0 := m.x0, y := m.y, z := m.z }

/-- **per sample, `ConjGrad.cg` on a batch is never worse than that sample's starting point** — although the pass
at which the loop is left is decided by the batch mean of the residual norms (`cg_batch_mean_stop`), every sample's
output is one of its own iterates, and every iterate is no worse than the start. -/
theorem cg_batch_never_worse (ms : List (MathSample E G)) (hP : ∀ m ∈ ms, Physics m.F m.Fb m.Ex m.R m.M)
    (lam : ℝ) (hl : 0 < lam) (u : Update) (hu : u = .FR ∨ u = .PRP) (n : ℕ) (stopB : List ℂ → Bool)
    (b : ℕ) (m : MathSample E G) (hb : ms[b]? = some m) :
    ∃ xb, (cgBatch u n stopB (lam : ℂ) (ms.map MathSample.toSample))[b]? = some xb ∧
      cgEnergy m.F m.Fb m.Ex m.R m.M lam m.y m.z xb ≤ cgEnergy m.F m.Fb m.Ex m.R m.M lam m.y m.z m.x0 := by
  obtain ⟨j, _, hj⟩ := cgBatch_per_sample u n stopB (lam : ℂ) (ms.map MathSample.toSample)
  have hs : (ms.map MathSample.toSample)[b]? = some m.toSample := by simp [hb]
  refine ⟨_, hj b m.toSample hs, ?_⟩
  exact cg_energy_le_start (hP m (List.mem_of_getElem? hb)) lam hl m.y m.z m.x0 u hu j

/-- the same in terms of the objective `½(‖A x − M y‖² + λ‖x − z‖²)` of each sample -/
theorem cg_batch_objective_never_worse (ms : List (MathSample E G)) (hP : ∀ m ∈ ms, Physics m.F m.Fb m.Ex m.R m.M)
    (lam : ℝ) (hl : 0 < lam) (u : Update) (hu : u = .FR ∨ u = .PRP) (n : ℕ) (stopB : List ℂ → Bool)
    (b : ℕ) (m : MathSample E G) (hb : ms[b]? = some m) :
    ∃ xb, (cgBatch u n stopB (lam : ℂ) (ms.map MathSample.toSample))[b]? = some xb ∧
      objective m.F m.Ex m.M lam m.y m.z xb ≤ objective m.F m.Ex m.M lam m.y m.z m.x0 := by
  obtain ⟨xb, e, h⟩ := cg_batch_never_worse ms hP lam hl u hu n stopB b m hb
  refine ⟨xb, e, ?_⟩
  have P := hP m (List.mem_of_getElem? hb)
  rw [cgEnergy_eq_objective P, cgEnergy_eq_objective P] at h
  unfold objective
  linarith

end Batch

/-! ## Call histories on one instance -/
section History

/-- **the likelihood-gradient block answers the analytic gradient after ANY call history** on the same instance — other
masks, scalings, images, the same k-space object again — provided its calls write no state (the translated table
`Gen.C19.dc_state_writes`, empty by `Bridge.C19.dc_state_writes_ok`).  `σ` is whatever `__init__` put on the instance. -/
theorem loglik_gradient_after_any_history {σ : Type} (P : Physics F Fb Ex R M) (ws : List StateWrite) (reach : List String)
    (hw : stateWritesOk ws reach = true) (eff : StateWrite → σ → ℂ × E × G → σ) (s0 : σ)
    (hist : List (ℂ × E × G)) (s : ℂ) (x : E) (y : G) :
    (Stateful.mk (fun _ a => loglik 𝒪 a.1 a.2.1 a.2.2) (applyWrites eff ws)).call s0 hist (s, x, y) =
      s • adjModel Fb R M (fwdModel F Ex M x - M y) := by
  rw [dc_history_independent ws reach hw]
  exact loglik_eq_gradient P s x y

/-- the same for `ConjGrad.forward`: after any history the answer is never worse than its own start `z` -/
theorem conjGrad_never_worse_after_any_history {σ : Type} (P : Physics F Fb Ex R M) (ws : List StateWrite)
    (reach : List String) (hw : stateWritesOk ws reach = true) (eff : StateWrite → σ → ℝ × G × E → σ) (s0 : σ)
    (hist : List (ℝ × G × E)) (u : Update) (hu : u = .FR ∨ u = .PRP) (n : ℕ) (stop : ℂ → Bool)
    (lam : ℝ) (hl : 0 < lam) (y : G) (z : E) :
    objective F Ex M lam y z
        ((Stateful.mk (fun _ a => conjGradForward 𝒪 u n stop (a.1 : ℂ) a.2.1 a.2.2) (applyWrites eff ws)).call s0 hist
          (lam, y, z)) ≤ objective F Ex M lam y z z := by
  rw [dc_history_independent ws reach hw]
  exact conjGrad_objective_never_worse P lam hl y z u hu n stop

end History

/-! ## The hypotheses are satisfiable (non-vacuity) -/
section Examples

/-- one pixel, one coil: forward operator = multiplication by `i` (unitary), backward = by `−i`,
sensitivity `2 + i`, full mask -/
theorem physics_example :
    Physics (Complex.I • (LinearMap.id : ℂ →ₗ[ℂ] ℂ)) ((-Complex.I) • LinearMap.id)
      ((2 + Complex.I) • (LinearMap.id : ℂ →ₗ[ℂ] ℂ)) ((2 - Complex.I) • LinearMap.id) LinearMap.id where
  bwd_adjoint := by
    intro u v
    simp only [LinearMap.smul_apply, LinearMap.id_apply, inner_smul_left, inner_smul_right, Complex.conj_I]
  reduce_adjoint := by
    intro x w
    simp only [LinearMap.smul_apply, LinearMap.id_apply, inner_smul_left, inner_smul_right, map_add,
      Complex.conj_I, map_ofNat]
    ring
  mask_sa := fun _ _ => rfl
  mask_idem := fun _ => rfl

/-- the same with the empty mask -/
theorem physics_example_empty_mask :
    Physics (Complex.I • (LinearMap.id : ℂ →ₗ[ℂ] ℂ)) ((-Complex.I) • LinearMap.id)
      ((2 + Complex.I) • (LinearMap.id : ℂ →ₗ[ℂ] ℂ)) ((2 - Complex.I) • LinearMap.id) 0 where
  bwd_adjoint := physics_example.bwd_adjoint
  reduce_adjoint := physics_example.reduce_adjoint
  mask_sa := by intro u v; simp
  mask_idem := by intro u; simp

example (s x y : ℂ) := loglik_eq_gradient physics_example s x y
example (x h y : ℂ) := loglik_is_gradient physics_example x h y
example (x h y : ℂ) := loglik_directional_derivative physics_example x h y
example (s x₀ : ℂ) := loglik_zero_on_consistent physics_example s x₀
example (s x y : ℂ) :=
  loglik_unnormalised (Fb := (1 / 4 : ℂ) • ((-Complex.I) • (LinearMap.id : ℂ →ₗ[ℂ] ℂ))) physics_example
    (1 / 4) s (fun _ => rfl) x y
example (y z x0 : ℂ) := cg_invariant physics_example 1 one_pos y z x0 .FR (Or.inl rfl) 3
example (y z x0 : ℂ) := cg_energy_monotone physics_example_empty_mask (1 / 20) (by norm_num) y z x0 .PRP (Or.inr rfl) 2
example (y z : ℂ) :=
  conjGrad_objective_never_worse physics_example 10 (by norm_num) y z .FR (Or.inl rfl) 10 (fun _ => false)
example (y z x0 : ℂ) := cg_finite_termination physics_example 1 one_pos y z x0 .PRP (Or.inr rfl)
example (y z x0 : ℂ) := cg_prp_eq_fr physics_example 1 one_pos y z x0 5
example (x0 y z : ℂ) :=
  cg_batch_never_worse
    [⟨Complex.I • LinearMap.id, (-Complex.I) • LinearMap.id, (2 + Complex.I) • LinearMap.id, (2 - Complex.I) • LinearMap.id,
      LinearMap.id, x0, y, z⟩]
    (by intro m hm; simp only [List.mem_singleton] at hm; subst hm; exact physics_example)
    1 one_pos .FR (Or.inl rfl) 10 (fun _ => false) 0 _ rfl
example (y z x0 : ℂ) := cg_exit_guarantee physics_example 1 one_pos y z x0 .FR (Or.inl rfl) 10 (1 / 1000000)
example (y z x0 : ℂ) :=
  cg_reaches_tolerance physics_example 1 one_pos y z x0 .PRP (Or.inr rfl) 10 (by simp) (1 / 1000000) (by norm_num)
example (y z x0 : ℂ) := cg_no_tolerance physics_example 1 one_pos y z x0 .FR 3 0 le_rfl
example (s x y : ℂ) :=
  loglik_gradient_after_any_history (σ := Unit) physics_example [] dcRequiredReach (by decide) (fun _ t _ => t) ()
    [(1, 2, 3), (2, 2, 0)] s x y
example (x y : ℂ) := dcGradAfter_eq_loglik physics_example x y
example (x y : ℂ) := hardDC_sampled (fun _ w => w) physics_example x y

end Examples

end DirectVerif.C19
