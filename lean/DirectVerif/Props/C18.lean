import DirectVerif.Model.BatchSep
import Mathlib.Algebra.BigOperators.Group.Finset.Basic
import Mathlib.Data.Fintype.Basic
/-!
# C18 — in evaluation mode a sample's reconstruction is independent of its batch

Property theorems only.  `Separable` operations give a sample the same output alone or with arbitrary companions
(`batch_independent`); separability is closed under composition, holds for every reduction that does not touch the
batch axis (`norm_separable`, for *every* reduction table satisfying the decidable predicate that `Bridge/C18.lean`
checks on the table generated from /repo), fails for reductions that do (`reduce_axis0_not_separable`); modules that
do not write their own state answer a repeated call identically (`no_hidden_state_across_calls`); coil sums are
invariant under any permutation applied to maps and data together, and so is every expand/reduce based
data-consistency block.
-/
namespace DirectVerif.C18
open DirectVerif DirectVerif.BatchSep

/-! ## separability -/

theorem separable_map {α β : Type} (g : α → β) : Separable (List.map g) := ⟨g, fun _ => rfl⟩

theorem separable_id {α : Type} : Separable (fun xs : List α => xs) := ⟨id, fun xs => (List.map_id xs).symm⟩

theorem separable_comp {α β γ : Type} {f : List α → List β} {g : List β → List γ}
    (hf : Separable f) (hg : Separable g) : Separable (g ∘ f) := by
  obtain ⟨f₁, hf⟩ := hf
  obtain ⟨g₁, hg⟩ := hg
  exact ⟨g₁ ∘ f₁, fun xs => by simp [Function.comp, hf, hg]⟩

/-- **the property**: for a separable operation the output of a sample is the same whether it is processed alone or
anywhere inside a batch of arbitrary companions (any batch size, any position, any companion values) -/
theorem batch_independent {α β : Type} {f : List α → List β} (h : Separable f) (pre post : List α) (x : α) :
    (f (pre ++ x :: post))[pre.length]? = (f [x])[0]? := by
  obtain ⟨f₁, hf⟩ := h
  simp [hf]

/-- the output batch has the input's size, and companions are treated the same way -/
theorem separable_length {α β : Type} {f : List α → List β} (h : Separable f) (xs : List α) :
    (f xs).length = xs.length := by
  obtain ⟨f₁, hf⟩ := h
  simp [hf]

/-- element-wise combination of two separable branches (skip connections, `x − mean`, `· / std`, gates) -/
theorem separable_zipWith {α β γ δ : Type} {f : List α → List β} {g : List α → List γ} (op : β → γ → δ)
    (hf : Separable f) (hg : Separable g) : Separable (fun xs => List.zipWith op (f xs) (g xs)) := by
  obtain ⟨f₁, hf⟩ := hf
  obtain ⟨g₁, hg⟩ := hg
  refine ⟨fun a => op (f₁ a) (g₁ a), fun xs => ?_⟩
  simp only [hf, hg]
  induction xs with
  | nil => rfl
  | cons a xs ih => simp [ih]

/-! ## reductions -/

/-- reducing any axis other than the batch axis is a per-sample operation -/
theorem batchedReduce_succ (comb : List NT → NT) (d : Nat) :
    batchedReduce comb (d + 1) = List.map (reduceAt comb d) := by
  funext batch
  simp [batchedReduce, reduceAt]

theorem reduce_separable (comb : List NT → NT) (d : Nat) (hd : 1 ≤ d) : Separable (batchedReduce comb d) := by
  obtain ⟨k, rfl⟩ : ∃ k, d = k + 1 := ⟨d - 1, by omega⟩
  rw [batchedReduce_succ]
  exact separable_map _

theorem foldl_reduce_separable (comb : List NT → NT) (ds : List Nat) (h : ∀ d ∈ ds, 1 ≤ d) :
    Separable (fun b => ds.foldl (fun b d => batchedReduce comb d b) b) := by
  induction ds with
  | nil => exact separable_id
  | cons d ds ih =>
    have h1 := reduce_separable comb d (h d (by simp))
    have h2 := ih fun d' hd' => h d' (by simp [hd'])
    exact separable_comp h1 h2

/-- **every reduction of a well-formed table is separable**: whatever the combining function (mean, std, sum, …) -/
theorem norm_separable (t : Table) (ht : t.wf = true) (r : Red) (hr : r ∈ t) (comb : List NT → NT) :
    Separable (r.apply comb) := by
  have hp : r.perSample = true := List.all_eq_true.mp ht r hr
  simp only [Red.perSample, Bool.and_eq_true, Bool.not_eq_true', List.all_eq_true, decide_eq_true_eq] at hp
  obtain ⟨⟨⟨_, hne⟩, hax⟩, _⟩ := hp
  unfold Red.apply
  simp only [hne, Bool.false_eq_true, if_false]
  apply foldl_reduce_separable
  intro d hd
  unfold Red.natAxes at hd
  rw [List.mem_mergeSort] at hd
  obtain ⟨a, ha, rfl⟩ := List.mem_map.mp hd
  have := (hax a ha).1
  omega

/-- conversely, a reduction over the batch axis couples the samples: summing axis 0 is not separable -/
theorem reduce_axis0_not_separable :
    ¬ Separable (batchedReduce (fun xs => .leaf (xs.foldl (fun acc t => match t with | .leaf v => acc + v | _ => acc) 0)) 0) := by
  rintro ⟨f₁, hf⟩
  have h1 := hf [.leaf 1, .leaf 2]
  simp [batchedReduce, reduceAt] at h1

/-- the integer model of the group normalisation is separable … -/
theorem normBatch_separable (groups : Nat) : Separable (normBatch groups) := separable_map _

/-- … whereas statistics over a view that merges the batch into the groups are not: a concrete witness -/
theorem normWholeBatch_not_separable : ¬ Separable (normWholeBatch 1) := by
  rintro ⟨f₁, hf⟩
  have h1 := hf [[1, 2], [5, 9]]
  have h2 := hf [[1, 2]]
  have e1 : normWholeBatch 1 [[1, 2], [5, 9]] = [[4, 17, 620], [4, 17, 620]] := by decide
  have e2 : normWholeBatch 1 [[1, 2]] = [[2, 3, 2]] := by decide
  rw [e1] at h1
  rw [e2] at h2
  simp only [List.map_cons, List.map_nil, List.cons.injEq, and_true] at h1 h2
  rw [← h2] at h1
  exact absurd h1.1 (by decide)

/-! ## no hidden state across calls -/

/-- a forward pass that never assigns to `self.*` is a function of its inputs: whatever calls came before, the same input
gives the same output, and the state is unchanged -/
theorem no_hidden_state_across_calls {σ ι ο : Type} (m : Module σ ι ο) (ro : ∀ s x, (m s x).1 = s) (s : σ)
    (history : List ι) : runCalls m s history = (s, history.map fun x => (m s x).2) := by
  induction history with
  | nil => rfl
  | cons x xs ih =>
    simp only [runCalls, List.map_cons]
    have e : m s x = (s, (m s x).2) := Prod.ext (ro s x) rfl
    rw [e, ih]

/-- in particular repeated evaluation is identical, after any history -/
theorem repeated_evaluation_identical {σ ι ο : Type} (m : Module σ ι ο) (ro : ∀ s x, (m s x).1 = s) (s : σ)
    (history : List ι) (x : ι) :
    (runCalls m s (history ++ [x, x])).2 = (history.map fun x => (m s x).2) ++ [(m s x).2, (m s x).2] := by
  rw [no_hidden_state_across_calls m ro]; simp

/-- a module that *does* write its state can answer the second call differently (witness: a call counter) -/
theorem hidden_state_witness :
    (runCalls (fun (s : Nat) (x : Nat) => (s + 1, x + s)) 0 [5, 5]).2 = [5, 6] := by decide

/-! ## coil permutations -/

/-- **coil sums are permutation invariant** (any commutative monoid, any finite coil count): applying the same
permutation to sensitivity maps and data leaves `Σ_i f(S_i, y_i)` unchanged -/
theorem coil_sum_perm_invariant {M N : Type} [AddCommMonoid M] {n : Nat} (σ : Equiv.Perm (Fin n)) (S y : Fin n → N)
    (f : N → N → M) : ∑ i, f (S (σ i)) (y (σ i)) = ∑ i, f (S i) (y i) :=
  Equiv.sum_comp σ fun i => f (S i) (y i)

theorem cadd_comm (a b : G) : cadd a b = cadd b a := by
  simp only [cadd]; exact Prod.ext (Int.add_comm _ _) (Int.add_comm _ _)
theorem cadd_assoc (a b c : G) : cadd (cadd a b) c = cadd a (cadd b c) := by
  simp only [cadd]; exact Prod.ext (Int.add_assoc _ _ _) (Int.add_assoc _ _ _)

/-- the list form used by the executable model: `csum` of any per-coil term is invariant under `List.Perm` -/
theorem csum_perm {α : Type} (g : α → G) {p q : List α} (h : p.Perm q) : csum (p.map g) = csum (q.map g) := by
  induction h with
  | nil => rfl
  | cons x _ ih => simp only [List.map_cons, csum, List.foldr_cons] at *; rw [ih]
  | swap x y l =>
    simp only [List.map_cons, csum, List.foldr_cons]
    rw [← cadd_assoc, ← cadd_assoc, cadd_comm (g y) (g x)]
  | trans _ _ ih1 ih2 => exact ih1.trans ih2

/-- `reduce (σ·S) (σ·y) = reduce S y` -/
theorem reduce_perm_invariant {p q : List (G × G)} (h : p.Perm q) : reducePix p = reducePix q := csum_perm _ h

/-- `expand (σ·S) x = σ·(expand S x)` -/
theorem expand_perm_equivariant {s s' : List G} (h : s.Perm s') (x : G) : (expandPix s x).Perm (expandPix s' x) :=
  h.map _

/-- propagation through an expand/reduce based data-consistency block -/
theorem dc_block_perm_invariant {p q : List (G × G)} (h : p.Perm q) (x : G) : dcPix p x = dcPix q x := csum_perm _ h

/-- the standardisation layer is coil-equivariant: permuting the coils permutes its per-coil outputs -/
theorem standardize_perm_equivariant {p q : List (G × G)} (h : p.Perm q) : (standardizePix p).Perm (standardizePix q) := by
  unfold standardizePix
  rw [reduce_perm_invariant h]
  exact h.map _

/-! ## non-vacuity -/

example : Table.wf [⟨"NormUnetModel2d.norm", "mean", 3, [-1], true⟩, ⟨"reduce_operator", "sum", 5, [1], true⟩] = true := by decide
example : Table.wf [⟨"ConjGrad.cg", "mean", 1, [], true⟩] = false := by decide
example : normBatch 2 [[1, 2, 3, 5], [0, 0, 4, 4]] = [[2, 3, 2, 2, 8, 8], [2, 0, 0, 2, 8, 0]] := by decide
example : (normBatch 2 [[7, 7, 7, 7], [1, 2, 3, 5], [9, 9, 9, 9]])[1]? = (normBatch 2 [[1, 2, 3, 5]])[0]? := by decide
example : reducePix [((1, 2), (3, 4)), ((0, 1), (5, 6))] = reducePix [((0, 1), (5, 6)), ((1, 2), (3, 4))] := by decide
example : ([((1, 2), (3, 4)), ((0, 1), (5, 6))] : List (G × G)).Perm [((0, 1), (5, 6)), ((1, 2), (3, 4))] :=
  List.Perm.swap _ _ _

end DirectVerif.C18
