import DirectVerif.Model.BatchSep
import DirectVerif.Lemmas.C18Prims
import DirectVerif.Lemmas.C18Coil
import Mathlib.Algebra.BigOperators.Group.Finset.Basic
import Mathlib.Data.Fintype.Basic
/-!
# C18 — in evaluation mode a sample's reconstruction is independent of its batch

Property theorems only.  `Separable` operations give a sample the same output alone or with arbitrary companions
(`batch_independent`); separability is closed under composition, holds for every reduction that does not touch the
batch axis (`norm_separable`, for *every* reduction table satisfying the decidable predicate that `Bridge/C18.lean`
checks on the table generated from /repo), fails for reductions that do (`reduce_axis0_not_separable`); modules that
do not write their own state answer a repeated call identically (`no_hidden_state_across_calls`); coil sums are
invariant under any permutation applied to maps and data together, and so is every expand/reduce based
data-consistency block.
-/
namespace DirectVerif.C18
open DirectVerif DirectVerif.BatchSep

/-! ## separability -/

theorem separable_map {α β : Type} (g : α → β) : Separable (List.map g) := ⟨g, fun _ => rfl⟩

theorem separable_id {α : Type} : Separable (fun xs : List α => xs) := ⟨id, fun xs => (List.map_id xs).symm⟩

theorem separable_comp {α β γ : Type} {f : List α → List β} {g : List β → List γ}
    (hf : Separable f) (hg : Separable g) : Separable (g ∘ f) := by
  obtain ⟨f₁, hf⟩ := hf
  obtain ⟨g₁, hg⟩ := hg
  exact ⟨g₁ ∘ f₁, fun xs => by simp [Function.comp, hf, hg]⟩

/-- **the property**: for a separable operation the output of a sample is the same whether it is processed alone or
anywhere inside a batch of arbitrary companions (any batch size, any position, any companion values) -/
theorem batch_independent {α β : Type} {f : List α → List β} (h : Separable f) (pre post : List α) (x : α) :
    (f (pre ++ x :: post))[pre.length]? = (f [x])[0]? := by
  obtain ⟨f₁, hf⟩ := h
  simp [hf]

/-- the output batch has the input's size, and companions are treated the same way -/
theorem separable_length {α β : Type} {f : List α → List β} (h : Separable f) (xs : List α) :
    (f xs).length = xs.length := by
  obtain ⟨f₁, hf⟩ := h
  simp [hf]

/-- element-wise combination of two separable branches (skip connections, `x − mean`, `· / std`, gates) -/
theorem separable_zipWith {α β γ δ : Type} {f : List α → List β} {g : List α → List γ} (op : β → γ → δ)
    (hf : Separable f) (hg : Separable g) : Separable (fun xs => List.zipWith op (f xs) (g xs)) := by
  obtain ⟨f₁, hf⟩ := hf
  obtain ⟨g₁, hg⟩ := hg
  refine ⟨fun a => op (f₁ a) (g₁ a), fun xs => ?_⟩
  simp only [hf, hg]
  induction xs with
  | nil => rfl
  | cons a xs ih => simp [ih]

/-! ## reductions -/

/-- reducing any axis other than the batch axis is a per-sample operation -/
theorem batchedReduce_succ (comb : List NT → NT) (d : Nat) :
    batchedReduce comb (d + 1) = List.map (reduceAt comb d) := by
  funext batch
  simp [batchedReduce, reduceAt]

theorem reduce_separable (comb : List NT → NT) (d : Nat) (hd : 1 ≤ d) : Separable (batchedReduce comb d) := by
  obtain ⟨k, rfl⟩ : ∃ k, d = k + 1 := ⟨d - 1, by omega⟩
  rw [batchedReduce_succ]
  exact separable_map _

theorem foldl_reduce_separable (comb : List NT → NT) (ds : List Nat) (h : ∀ d ∈ ds, 1 ≤ d) :
    Separable (fun b => ds.foldl (fun b d => batchedReduce comb d b) b) := by
  induction ds with
  | nil => exact separable_id
  | cons d ds ih =>
    have h1 := reduce_separable comb d (h d (by simp))
    have h2 := ih fun d' hd' => h d' (by simp [hd'])
    exact separable_comp h1 h2

/-- **every reduction of a well-formed table is separable**: whatever the combining function (mean, std, sum, …) -/
theorem norm_separable (t : Table) (ht : t.wf = true) (r : Red) (hr : r ∈ t) (comb : List NT → NT) :
    Separable (r.apply comb) := by
  have hp : r.perSample = true := List.all_eq_true.mp ht r hr
  simp only [Red.perSample, Bool.and_eq_true, Bool.not_eq_true', List.all_eq_true, decide_eq_true_eq] at hp
  obtain ⟨⟨⟨_, hne⟩, hax⟩, _⟩ := hp
  unfold Red.apply
  simp only [hne, Bool.false_eq_true, if_false]
  apply foldl_reduce_separable
  intro d hd
  unfold Red.natAxes at hd
  rw [List.mem_mergeSort] at hd
  obtain ⟨a, ha, rfl⟩ := List.mem_map.mp hd
  have := (hax a ha).1
  omega

/-- conversely, a reduction over the batch axis couples the samples: summing axis 0 is not separable -/
theorem reduce_axis0_not_separable :
    ¬ Separable (batchedReduce (fun xs => .leaf (xs.foldl (fun acc t => match t with | .leaf v => acc + v | _ => acc) 0)) 0) := by
  rintro ⟨f₁, hf⟩
  have h1 := hf [.leaf 1, .leaf 2]
  simp [batchedReduce, reduceAt] at h1

/-- the integer model of the group normalisation is separable … -/
theorem normBatch_separable (groups : Nat) : Separable (normBatch groups) := separable_map _

/-- … whereas statistics over a view that merges the batch into the groups are not: a concrete witness -/
theorem normWholeBatch_not_separable : ¬ Separable (normWholeBatch 1) := by
  rintro ⟨f₁, hf⟩
  have h1 := hf [[1, 2], [5, 9]]
  have h2 := hf [[1, 2]]
  have e1 : normWholeBatch 1 [[1, 2], [5, 9]] = [[4, 17, 620], [4, 17, 620]] := by decide
  have e2 : normWholeBatch 1 [[1, 2]] = [[2, 3, 2]] := by decide
  rw [e1] at h1
  rw [e2] at h2
  simp only [List.map_cons, List.map_nil, List.cons.injEq, and_true] at h1 h2
  rw [← h2] at h1
  exact absurd h1.1 (by decide)

/-! ## no hidden state across calls -/

/-- a forward pass that never assigns to `self.*` is a function of its inputs: whatever calls came before, the same input
gives the same output, and the state is unchanged -/
theorem no_hidden_state_across_calls {σ ι ο : Type} (m : Module σ ι ο) (ro : ∀ s x, (m s x).1 = s) (s : σ)
    (history : List ι) : runCalls m s history = (s, history.map fun x => (m s x).2) := by
  induction history with
  | nil => rfl
  | cons x xs ih =>
    simp only [runCalls, List.map_cons]
    have e : m s x = (s, (m s x).2) := Prod.ext (ro s x) rfl
    rw [e, ih]

/-- in particular repeated evaluation is identical, after any history -/
theorem repeated_evaluation_identical {σ ι ο : Type} (m : Module σ ι ο) (ro : ∀ s x, (m s x).1 = s) (s : σ)
    (history : List ι) (x : ι) :
    (runCalls m s (history ++ [x, x])).2 = (history.map fun x => (m s x).2) ++ [(m s x).2, (m s x).2] := by
  rw [no_hidden_state_across_calls m ro]; simp

/-- a module that *does* write its state can answer the second call differently (witness: a call counter) -/
theorem hidden_state_witness :
    (runCalls (fun (s : Nat) (x : Nat) => (s + 1, x + s)) 0 [5, 5]).2 = [5, 6] := by decide

/-! ## coil permutations -/

/-- **coil sums are permutation invariant** (any commutative monoid, any finite coil count): applying the same
permutation to sensitivity maps and data leaves `Σ_i f(S_i, y_i)` unchanged -/
theorem coil_sum_perm_invariant {M N : Type} [AddCommMonoid M] {n : Nat} (σ : Equiv.Perm (Fin n)) (S y : Fin n → N)
    (f : N → N → M) : ∑ i, f (S (σ i)) (y (σ i)) = ∑ i, f (S i) (y i) :=
  Equiv.sum_comp σ fun i => f (S i) (y i)

theorem cadd_comm (a b : G) : cadd a b = cadd b a := by
  simp only [cadd]; exact Prod.ext (Int.add_comm _ _) (Int.add_comm _ _)
theorem cadd_assoc (a b c : G) : cadd (cadd a b) c = cadd a (cadd b c) := by
  simp only [cadd]; exact Prod.ext (Int.add_assoc _ _ _) (Int.add_assoc _ _ _)

/-- the list form used by the executable model: `csum` of any per-coil term is invariant under `List.Perm` -/
theorem csum_perm {α : Type} (g : α → G) {p q : List α} (h : p.Perm q) : csum (p.map g) = csum (q.map g) := by
  induction h with
  | nil => rfl
  | cons x _ ih => simp only [List.map_cons, csum, List.foldr_cons] at *; rw [ih]
  | swap x y l =>
    simp only [List.map_cons, csum, List.foldr_cons]
    rw [← cadd_assoc, ← cadd_assoc, cadd_comm (g y) (g x)]
  | trans _ _ ih1 ih2 => exact ih1.trans ih2

/-- `reduce (σ·S) (σ·y) = reduce S y` -/
theorem reduce_perm_invariant {p q : List (G × G)} (h : p.Perm q) : reducePix p = reducePix q := csum_perm _ h

/-- `expand (σ·S) x = σ·(expand S x)` -/
theorem expand_perm_equivariant {s s' : List G} (h : s.Perm s') (x : G) : (expandPix s x).Perm (expandPix s' x) :=
  h.map _

/-- propagation through an expand/reduce based data-consistency block -/
theorem dc_block_perm_invariant {p q : List (G × G)} (h : p.Perm q) (x : G) : dcPix p x = dcPix q x := csum_perm _ h

/-- the standardisation layer is coil-equivariant: permuting the coils permutes its per-coil outputs -/
theorem standardize_perm_equivariant {p q : List (G × G)} (h : p.Perm q) : (standardizePix p).Perm (standardizePix q) := by
  unfold standardizePix
  rw [reduce_perm_invariant h]
  exact h.map _


/-! # Phase 3 — whole forward passes as data-flow graphs over generated primitive tables -/

/-! ## permutes, concatenation -/

/-- **a `permute` that keeps the batch axis first is a per-sample operation** (it is a product of adjacent axis swaps
none of which touches axis 0) — for the literal found at every `permute` call site of `direct/nn` -/
theorem permute_keeps_batch_separable (perm : List Nat) (h : perm.head? = some 0 ∨ perm = []) : Separable (batchedPermute perm) := by
  unfold batchedPermute
  apply sep_foldl (fun d => batchedAlong transpose01 d)
  intro d hd
  apply along_separable
  rcases h with h | h
  · exact sortSwaps_swaps_pos perm h d (List.mem_reverse.mp hd)
  · subst h; simp [sortSwaps] at hd

/-- whereas moving the batch axis is not: swapping axes 0 and 1 exchanges samples and rows -/
theorem permute_moving_batch_not_separable : ¬ Separable (batchedPermute [1, 0]) := by
  rintro ⟨f₁, hf⟩
  have h1 := hf [.node [.leaf 1, .leaf 2]]
  have e1 : batchedPermute [1, 0] [.node [.leaf 1, .leaf 2]] = [.node [.leaf 1], .node [.leaf 2]] := rfl
  rw [e1] at h1
  simp at h1

/-- `cat` / `stack` of two separable branches along any axis other than the batch axis -/
theorem cat_separable {α : Type} (d : Nat) (hd : 1 ≤ d) {f g : List α → List NT} (hf : Separable f) (hg : Separable g) :
    Separable (fun xs => batchedCat d (f xs) (g xs)) := by
  obtain ⟨k, rfl⟩ : ∃ k, d = k + 1 := ⟨d - 1, by omega⟩
  simp only [batchedCat_succ]
  exact sep_zipWith _ hf hg

/-- along the batch axis it changes the number of samples: not a batched operation at all -/
theorem cat_axis0_changes_batch (a b : List NT) : (batchedCat 0 a b).length = a.length + b.length := by
  rw [batchedCat_zero, List.length_append]

/-! ## the closure over data-flow graphs -/

/-- an interpretation is sound when every primitive the judgement accepts denotes a separable operation -/
def SoundInterp (I : Interp) : Prop := ∀ p : Prim, p.ok = true → Separable (I.prim p)

/-- **closure**: whatever way a forward pass wires per-sample kernels, accepted primitives and sample-wise combinations
together, the result is separable -/
theorem prog_separable (I : Interp) (hI : SoundInterp I) (e : Prog) (h : e.prims.all Prim.ok = true) : Separable (e.eval I) := by
  induction e with
  | input => exact sep_id
  | kern n e ih => exact sep_comp (f := e.eval I) (g := List.map (I.kern n)) (ih h) (sep_map _)
  | prim p e ih =>
    simp only [Prog.prims, List.all_cons, Bool.and_eq_true] at h
    exact sep_comp (f := e.eval I) (g := I.prim p) (ih h.2) (hI p h.1)
  | zip n a b iha ihb =>
    simp only [Prog.prims, List.all_append, Bool.and_eq_true] at h
    exact sep_zipWith (f := a.eval I) (g := b.eval I) _ (iha h.1) (ihb h.2)

theorem natAxis_pos (rank : Nat) (a : Int) (h0 : a ≠ 0) (hneg : a < 0 → 1 ≤ a + rank) : 1 ≤ natAxis rank a := by
  unfold natAxis normAxis
  split <;> omega

theorem swapPerm_head (rank a b : Nat) (ha : 1 ≤ a) (hb : 1 ≤ b) :
    (swapPerm rank a b).head? = some 0 ∨ swapPerm rank a b = [] := by
  unfold swapPerm
  cases rank with
  | zero => right; rfl
  | succ r =>
    left
    rw [List.range_succ_eq_map]
    simp only [List.map_cons, List.head?_cons, Option.some.injEq]
    have h1 : ¬ (0 = a) := by omega
    have h2 : ¬ (0 = b) := by omega
    simp [h1, h2]

theorem axesAvoid_form0 (args : List Int) (h : axesAvoidBatch 0 args = true) : ∀ a ∈ args, a ≠ 0 := by
  intro a ha
  simp only [axesAvoidBatch, beq_self_eq_true, Bool.true_and, Bool.and_eq_true, Bool.not_eq_true',
    List.all_eq_true, bne_iff_ne, ne_eq, Nat.reduceBEq, Bool.false_and, Bool.or_false] at h
  exact h.2 a ha

theorem axesAvoid_form3 (args : List Int) (h : axesAvoidBatch 3 args = true) : 1 ≤ args.headD 1 := by
  simp only [axesAvoidBatch, Nat.reduceBEq, Bool.false_and, Bool.false_or, beq_self_eq_true, Bool.true_and, Bool.or_false,
    Bool.and_eq_true, Bool.not_eq_true', List.all_eq_true, decide_eq_true_eq] at h
  cases args with
  | nil => simp at h
  | cons a rest => exact h.2 a (by simp)

theorem alongSem_separable (rank : Prim → Nat) (along opq : String → NT → NT) (p : Prim)
    (hr : ∀ a ∈ p.args, a < 0 → 1 ≤ a + rank p) (h : p.form = 0 ∨ p.form = 3 → axesAvoidBatch p.form p.args = true) :
    Separable (alongSem rank along opq p) := by
  unfold alongSem
  by_cases h0 : p.form = 0
  · simp only [h0, beq_self_eq_true, if_true]
    apply foldl_along_separable
    intro d hd
    rw [List.mem_mergeSort] at hd
    obtain ⟨a, ha, rfl⟩ := List.mem_map.mp hd
    have h := h (Or.inl h0)
    rw [h0] at h
    exact natAxis_pos _ _ (axesAvoid_form0 _ h a ha) (hr a ha)
  · have e0 : (p.form == 0) = false := by simp [h0]
    by_cases h3 : p.form = 3
    · simp only [h3, beq_self_eq_true, if_true]
      apply foldl_along_separable
      intro d hd
      have hd' := (List.mem_filter.mp (List.mem_reverse.mp hd)).2
      simp only [decide_eq_true_eq] at hd'
      have h := h (Or.inr h3)
      rw [h3] at h
      have := axesAvoid_form3 _ h
      omega
    · have e3 : (p.form == 3) = false := by simp [h3]
      simp only [e0, e3, Bool.false_eq_true, if_false]
      exact sep_map _

theorem permSem_separable (rank : Prim → Nat) (p : Prim) (hr : ∀ a ∈ p.args, a < 0 → 1 ≤ a + rank p)
    (h : (if p.form == 0 then p.args.head? == some 0 else p.form == 1 && !p.args.isEmpty && p.args.all (· != 0)) = true) :
    Separable (permSem rank p) := by
  unfold permSem
  by_cases h0 : p.form = 0
  · simp only [h0, beq_self_eq_true, if_true] at h ⊢
    apply permute_keeps_batch_separable
    left
    cases hargs : p.args with
    | nil => simp [hargs] at h
    | cons a rest =>
      simp only [hargs, List.head?_cons, beq_iff_eq, Option.some.injEq] at h
      subst h
      rfl
  · have e0 : (p.form == 0) = false := by simp [h0]
    simp only [e0, Bool.false_eq_true, if_false, Bool.and_eq_true, Bool.not_eq_true'] at h ⊢
    apply permute_keeps_batch_separable
    obtain ⟨⟨_, hne⟩, hall⟩ := h
    have hall' : ∀ a ∈ p.args, a ≠ 0 := fun a ha => by simpa using List.all_eq_true.mp hall a ha
    cases hargs : p.args with
    | nil => simp [hargs] at hne
    | cons a rest =>
      rw [hargs] at hall' hr
      apply swapPerm_head
      · simp only [List.headD_cons]
        exact natAxis_pos _ _ (hall' a (by simp)) (hr a (by simp))
      · cases rest with
        | nil =>
          simp only [List.getD_cons_succ, List.getD_nil]
          exact natAxis_pos _ _ (by omega) (by omega)
        | cons b rest' =>
          simp only [List.getD_cons_succ, List.getD_cons_zero]
          exact natAxis_pos _ _ (hall' b (by simp)) (hr b (by simp))

/-- **the standard interpretation is sound**, provided negative axes address axes of the operand other than the first
(`|a| < rank`): reductions, along-axis operations, flattening, permutes, transposes, batch-keeping reshapes -/
theorem stdInterp_sound (rank : Prim → Nat) (along : String → NT → NT) (opq : String → NT → NT) (zp : String → NT → NT → NT)
    (hr : ∀ p : Prim, ∀ a ∈ p.args, a < 0 → 1 ≤ a + rank p) : SoundInterp (stdInterp rank along opq zp) := by
  intro p hok
  show Separable (fun batch => if p.ok then
      (if p.family == 0 || p.family == 1 || p.family == 4 then alongSem rank along opq p batch
       else if p.family == 2 then permSem rank p batch else batch.map (opq p.op))
    else batchedAlong (along p.op) 0 batch)
  simp only [hok, if_true]
  by_cases hA : (p.family == 0 || p.family == 1 || p.family == 4) = true
  · simp only [hA, if_true]
    apply alongSem_separable rank along opq p (hr p)
    unfold Prim.ok at hok
    simp only [Bool.or_eq_true, beq_iff_eq] at hA
    rcases hA with (hA | hA) | hA
    · rw [hA] at hok
      simp only [Bool.or_eq_true, Bool.and_eq_true, beq_iff_eq] at hok
      rcases hok with h | ⟨h1, _⟩
      · exact fun _ => h
      · -- `form = 1` with a warning-only sink: the value never reaches the output; `alongSem` is a per-sample map
        intro hf
        omega
    · rw [hA] at hok; exact fun _ => hok
    · rw [hA] at hok
      simp only [Bool.and_eq_true, beq_iff_eq] at hok
      intro _
      simp [axesAvoidBatch, hok.1.1, hok.1.2, hok.2]
  · have eA : (p.family == 0 || p.family == 1 || p.family == 4) = false := by simpa using hA
    simp only [eA, Bool.false_eq_true, if_false]
    by_cases h2 : p.family = 2
    · simp only [h2, beq_self_eq_true, if_true]
      apply permSem_separable rank p (hr p)
      unfold Prim.ok at hok
      rw [h2] at hok
      exact hok
    · have e2 : (p.family == 2) = false := by simp [h2]
      simp only [e2, Bool.false_eq_true, if_false]
      exact sep_map _

/-- a call site the judgement rejects denotes (in the standard interpretation) the same operation along the batch axis -/
theorem stdInterp_rejected (rank : Prim → Nat) (along : String → NT → NT) (opq : String → NT → NT) (zp : String → NT → NT → NT)
    (p : Prim) (h : p.ok = false) : (stdInterp rank along opq zp).prim p = batchedAlong (along p.op) 0 := by
  funext batch
  simp [stdInterp, h]

/-- **every zoo model whose generated table passes is separable, however its forward wires its primitives**: for a model
row `m` of the generated `modelFuncs` with `m.ok primTable`, any data-flow graph that only uses primitives of the
functions the model executes denotes a separable operation -/
theorem model_separable (tbl : List FuncRow) (m : ModelRow) (hm : m.ok tbl = true) (I : Interp) (hI : SoundInterp I) (e : Prog)
    (he : ∀ p ∈ e.prims, p ∈ m.prims tbl) : Separable (e.eval I) := by
  apply prog_separable I hI
  rw [List.all_eq_true]
  intro p hp
  have hp' := he p hp
  unfold ModelRow.prims at hp'
  obtain ⟨i, hi, hpi⟩ := List.mem_flatMap.mp hp'
  unfold ModelRow.ok at hm
  have := List.all_eq_true.mp hm i hi
  cases hf : tbl[i]? with
  | none => simp [hf] at hpi
  | some f =>
    simp only [hf] at this hpi
    unfold FuncRow.ok at this
    simp only [Bool.and_eq_true] at this
    exact List.all_eq_true.mp this.1 p hpi

/-! ## `batch * coil` folds -/

/-- **`MultiCoil.forward` with `coil_to_batch`** (fold coils into the batch, run the model, un-fold): a sample's output is
the same alone or anywhere in a batch of arbitrary companions (all with `c` coils) -/
theorem multiCoilFold_batch_independent {α β : Type} (f : α → β) (c : Nat) (pre post : List (List α)) (x : List α)
    (h : ∀ y ∈ pre ++ x :: post, y.length = c) :
    (multiCoilFold f c (pre ++ x :: post))[pre.length]? = (multiCoilFold f c [x])[0]? := by
  rw [multiCoilFold_eq f c _ h, multiCoilFold_eq f c [x] (by intro y hy; simp at hy; rw [hy]; exact h x (by simp))]
  simp

/-- the coil-major un-fold agrees with the row-major one for a single sample … -/
theorem unmergeCB_batch_one {α : Type} [Inhabited α] (c : Nat) (ys : List α) (h : ys.length = c) :
    unmergeCB 1 c ys = unmergeBC 1 c ys := by
  unfold unmergeCB unmergeBC
  simp only [List.range_one, List.map_cons, List.map_nil, Nat.mul_one, Nat.add_zero, Nat.zero_mul, List.drop_zero, List.cons.injEq, and_true]
  rw [← h, List.take_length]
  apply List.ext_getElem?
  intro i
  by_cases hi : i < ys.length
  · simp [List.getElem?_range hi, List.getElem?_eq_getElem hi, List.getD_eq_getElem?_getD]
  · simp [List.getElem?_eq_none (Nat.le_of_not_lt hi)]
    omega

/-- … but mixes the coils of different samples as soon as there are two samples with two coils -/
theorem unmergeCB_mixes_samples :
    (unmergeCB 2 2 (mergeBC [[10, 11], [20, 21]]))[0]? = some [10, 20] ∧ (unmergeBC 2 2 (mergeBC [[10, 11], [20, 21]]))[0]? = some [10, 11] := by
  decide

/-! ## effects -/

/-- **a call that performs no write** (no attribute, buffer, class attribute, module-level name, memo table, process-wide
switch) leaves the store as it was and answers every call of any history as a function of the initial store and that
call's input -/
theorem call_without_writes_is_pure {ι ο : Type} (c : Call ι ο) (h : ∀ s x, (c s x).1 = []) (s : Store) (history : List ι) :
    runCalls c.toModule s history = (s, history.map fun x => (c s x).2) := by
  apply no_hidden_state_across_calls
  intro s x
  simp [Call.toModule, h, applyWrites]

/-- **interleaved instances**: two instances sharing class / module / process state, neither of which writes, answer any
interleaved history exactly as they would alone on a fresh store -/
theorem interleaved_instances_independent {ι ο : Type} (a b : Call ι ο) (ha : ∀ s x, (a s x).1 = []) (hb : ∀ s x, (b s x).1 = [])
    (s : Store) (history : List (ι ⊕ ι)) :
    runTwo a b s history = (s, history.map fun x => match x with | .inl x => (a s x).2 | .inr x => (b s x).2) := by
  induction history with
  | nil => rfl
  | cons x xs ih =>
    cases x with
    | inl x => simp only [runTwo, ha, applyWrites, List.foldl_nil, ih, List.map_cons]
    | inr x => simp only [runTwo, hb, applyWrites, List.foldl_nil, ih, List.map_cons]

/-- a class-level cache written by one instance changes what the *other* instance answers (witness) -/
theorem shared_class_state_witness :
    (runTwo (fun s (x : Int) => ([(Loc.cls "last", x)], x + s (Loc.cls "last")))
            (fun s (x : Int) => ([], x + s (Loc.cls "last"))) (fun _ => 0) [.inr 5, .inl 7, .inr 5]).2 = [5, 7, 12] := by
  decide

/-! ## coil expressions -/

/-- **every network built from per-coil maps, element-wise combinations of coil tensors, broadcasts of images and coil
sums reconstructs the same image for every coil order** (Gaussian integers as the scalar type of the executable model) -/
theorem coil_program_invariant (i : IExpr G) (σ : List Nat) (inp : List (G × G)) (hσ : σ.Perm (List.range inp.length)) :
    i.eval cadd (0, 0) (gather σ inp) = i.eval cadd (0, 0) inp :=
  iexpr_invariant cadd (0, 0) cadd_comm cadd_assoc i σ inp hσ

/-- … and every k-space-valued output is reordered with the coils -/
theorem coil_program_equivariant (e : CExpr G) (σ : List Nat) (inp : List (G × G)) (hσ : σ.Perm (List.range inp.length)) :
    e.eval cadd (0, 0) (gather σ inp) = gather σ (e.eval cadd (0, 0) inp) :=
  cexpr_equivariant cadd (0, 0) cadd_comm cadd_assoc e σ inp hσ

/-- the data-consistency step the driver executes is such an expression: `Σ conj(S)·(S·x − y)` with `inp = (S, y)` -/
def dcExpr (x : G) : IExpr G :=
  .sum (.zip (fun s d => cmul (conj s) d) .k (.zip csub (.bcast (fun x s => cmul s x) (.const x) .k) .s))

theorem dcPix_is_coil_program (sy : List (G × G)) (x : G) : dcPix sy x = (dcExpr x).eval cadd (0, 0) sy := by
  unfold dcPix dcExpr csum
  simp only [IExpr.eval, CExpr.eval]
  congr 1
  induction sy with
  | nil => rfl
  | cons p ps ih =>
    simp only [List.map_cons, List.zipWith_cons_cons]
    rw [ih]

/-- `reduce_operator` likewise (`inp = (S, y)`) -/
def reduceExpr : IExpr G := .sum (.zip (fun s d => cmul (conj s) d) .k .s)

theorem reducePix_is_coil_program (sx : List (G × G)) : reducePix sx = reduceExpr.eval cadd (0, 0) sx := by
  unfold reducePix reduceExpr csum
  simp only [IExpr.eval, CExpr.eval]
  congr 1
  induction sx with
  | nil => rfl
  | cons p ps ih =>
    simp only [List.map_cons, List.zipWith_cons_cons]
    rw [ih]

/-- outside the language: singling out a coil, or mixing coils with position-dependent weights (a convolution over the
coil axis as channels) — neither is invariant (witnesses) -/
theorem select_coil_not_invariant : selectCoil 0 0 (gather [1, 0] [3, 4]) ≠ selectCoil 0 0 [3, 4] := by decide

theorem coil_as_channels_not_equivariant :
    coilMix (fun i j => (i : Int) + 2 * j) (gather [1, 0] [3, 4]) ≠ gather [1, 0] (coilMix (fun i j => (i : Int) + 2 * j) [3, 4]) := by decide


/-! ## size-dependent chunking of a coil sum -/

/-- **`range(n // k)` chunks sum only the first `(n / k)·k` coils** -/
theorem chunkSumFloor_eq (k : Nat) (xs : List G) : chunkSumFloor k xs = csum (xs.take (xs.length / k * k)) :=
  chunkSum_eq_take k _ xs

/-- complete when the chunk size divides the coil count (4, 8, 16 coils with `k = 8` show nothing) … -/
theorem chunkSumFloor_complete (k : Nat) (xs : List G) (h : xs.length % k = 0) : chunkSumFloor k xs = csum xs := by
  rw [chunkSumFloor_eq]
  have : xs.length / k * k = xs.length := by
    have := Nat.div_add_mod xs.length k
    rw [h, Nat.add_zero, Nat.mul_comm] at this
    exact this
  rw [this, List.take_length]

/-- … **whereas `⌈n / k⌉` chunks (or `torch.split`) always give the full sum**, for every coil count and chunk size -/
theorem chunkSumCeil_complete (k : Nat) (hk : 0 < k) (xs : List G) : chunkSumCeil k xs = csum xs := by
  unfold chunkSumCeil
  rw [chunkSum_eq_take]
  have h : xs.length ≤ (xs.length + k - 1) / k * k := by
    have h1 := Nat.div_add_mod (xs.length + k - 1) k
    have h2 := Nat.mod_lt (xs.length + k - 1) hk
    rw [Nat.mul_comm] at h1
    omega
  rw [List.take_of_length_le h]

/-- hence the complete chunked sum is invariant under every reordering of the coils … -/
theorem chunkSumCeil_perm_invariant (k : Nat) (hk : 0 < k) {p q : List G} (h : p.Perm q) : chunkSumCeil k p = chunkSumCeil k q := by
  rw [chunkSumCeil_complete k hk, chunkSumCeil_complete k hk]
  simpa using csum_perm id h

/-- … and the floor version is not: with 3 coils and chunks of 2 the last coil is dropped, and which coil is last depends on
the order (witness) -/
theorem chunkSumFloor_drops_remainder :
    chunkSumFloor 2 [(1, 0), (2, 0), (4, 0)] = (3, 0) ∧ chunkSumFloor 2 [(4, 0), (1, 0), (2, 0)] = (5, 0) ∧
      csum [(1, 0), (2, 0), (4, 0)] = (7, 0) := by decide

/-! ## non-vacuity -/

example : Table.wf [⟨"NormUnetModel2d.norm", "mean", 3, [-1], true⟩, ⟨"reduce_operator", "sum", 5, [1], true⟩] = true := by decide
example : Table.wf [⟨"ConjGrad.cg", "mean", 1, [], true⟩] = false := by decide
example : normBatch 2 [[1, 2, 3, 5], [0, 0, 4, 4]] = [[2, 3, 2, 2, 8, 8], [2, 0, 0, 2, 8, 0]] := by decide
example : (normBatch 2 [[7, 7, 7, 7], [1, 2, 3, 5], [9, 9, 9, 9]])[1]? = (normBatch 2 [[1, 2, 3, 5]])[0]? := by decide
example : reducePix [((1, 2), (3, 4)), ((0, 1), (5, 6))] = reducePix [((0, 1), (5, 6)), ((1, 2), (3, 4))] := by decide
example : ([((1, 2), (3, 4)), ((0, 1), (5, 6))] : List (G × G)).Perm [((0, 1), (5, 6)), ((1, 2), (3, 4))] :=
  List.Perm.swap _ _ _


-- phase 3
example : Prim.ok ⟨"Unet2d.forward", 2, "permute", 0, [0, 3, 1, 2], 0⟩ = true := by decide
example : Prim.ok ⟨"x", 2, "permute", 0, [1, 0, 2], 0⟩ = false := by decide
example : Prim.ok ⟨"x", 1, "cat", 0, [0], 0⟩ = false := by decide
example : Prim.ok ⟨"x", 0, "mean", 1, [], 0⟩ = false := by decide
example : Prim.ok ⟨"RIM.forward", 0, "max", 1, [], 1⟩ = true := by decide
example : Prim.ok ⟨"x", 3, "view", 1, [2], 0⟩ = false := by decide
example : Prim.ok ⟨"MRILogLikelihood.forward", 8, "loop-chunked", 2, [2, 4, 8], 0⟩ = false := by decide
example : Prim.ok ⟨"RIM.forward", 8, "if-training", 0, [32], 0⟩ = true := by decide
example : Prim.ok ⟨"MultiCoil._compute_model_per_coil", 8, "loop-full", 3, [2, 4, 32], 0⟩ = true := by decide
example : FuncRow.ok ⟨"MultiCoil.forward", [⟨"MultiCoil.forward", 3, "reshape", 2, [2], 0⟩]⟩ = false := by decide
example : FuncRow.ok ⟨"MultiCoil.forward", [⟨"MultiCoil.forward", 3, "reshape", 2, [2], 0⟩, ⟨"MultiCoil.forward", 3, "reshape", 0, [1], 0⟩]⟩ = true := by decide
example : batchedPermute [0, 2, 1] [.node [.node [.leaf 1, .leaf 2], .node [.leaf 3, .leaf 4]]] = [.node [.node [.leaf 1, .leaf 3], .node [.leaf 2, .leaf 4]]] := rfl
example : multiCoilFold (· + 1) 2 [[1, 2], [5, 6], [8, 9]] = [[2, 3], [6, 7], [9, 10]] := by decide
example : ([1, 0] : List Nat).Perm (List.range ([((1, 2), (3, 4)), ((0, 1), (5, 6))] : List (G × G)).length) := by decide
example : ModelRow.ok [⟨"Unet2d.forward", [⟨"Unet2d.forward", 0, "sum", 0, [1], 0⟩, ⟨"Unet2d.forward", 2, "permute", 0, [0, 3, 1, 2], 0⟩]⟩] ("Unet2d", [0]) = true := by decide
example : ModelRow.ok [⟨"ConjGrad.cg", [⟨"ConjGrad.cg", 0, "mean", 1, [], 0⟩]⟩] ("ConjGradNet", [0]) = false := by decide
example : ∀ s x, ((fun (s : Store) (x : Int) => (([] : List (Loc × Int)), x + s (Loc.attr "weight"))) s x).1 = [] := fun _ _ => rfl
example : EffRow.ok ⟨"RIM.forward", 3, "RIM._zero_states[key]"⟩ = false := by decide
example : EffRow.ok ⟨"RIM.forward", 9, "cell_output.set_"⟩ = true := by decide
example : (dcExpr (1, 1)).eval cadd (0, 0) (gather [1, 0] [((1, 2), (3, 4)), ((0, 1), (5, 6))]) =
    (dcExpr (1, 1)).eval cadd (0, 0) [((1, 2), (3, 4)), ((0, 1), (5, 6))] := by decide
theorem natAbs_le_foldl_max (l : List Int) (m : Nat) :
    m ≤ l.foldl (fun m a => max m a.natAbs) m ∧ ∀ a ∈ l, a.natAbs ≤ l.foldl (fun m a => max m a.natAbs) m := by
  induction l generalizing m with
  | nil => simp
  | cons b l ih =>
    obtain ⟨h1, h2⟩ := ih (max m b.natAbs)
    refine ⟨by simp only [List.foldl_cons]; omega, ?_⟩
    intro a ha
    simp only [List.foldl_cons]
    rcases List.mem_cons.mp ha with rfl | ha
    · omega
    · exact h2 a ha
/-- the rank hypothesis of `stdInterp_sound` is satisfiable (any rank above the largest |axis| of the call site) -/
example : ∃ I : Interp, SoundInterp I :=
  ⟨stdInterp (fun p => p.args.foldl (fun m a => max m a.natAbs) 0 + 1) (fun _ t => t) (fun _ t => t) (fun _ a _ => a),
    stdInterp_sound (fun p => p.args.foldl (fun m a => max m a.natAbs) 0 + 1) _ _ _ (by
      intro p a ha hneg
      have := (natAbs_le_foldl_max p.args 0).2 a ha
      omega)⟩
end DirectVerif.C18
