import DirectVerif.Model.MaskBudget
import DirectVerif.Lemmas.C07
import DirectVerif.Lemmas.C07Equi
import DirectVerif.Model.C07Magic
import DirectVerif.Model.C07Bisect
import DirectVerif.Lemmas.C07Bisect
import DirectVerif.Lemmas.C07Magic
/-!
# C07 — the realised sampling budget matches the requested acceleration

Property theorems only, about the definitions of `Model/MaskBudget.lean` (the ones the driver runs).
`N` columns (or `rows·cols` cells), `L` ACS columns/cells, acceleration `R`, target `N / R`.

* Gaussian 1-D/2-D: **within one half sample** (`gaussian_budget`, exact bound `1/2`, attained at ties),
  under the explicit feasibility hypothesis `#ACS + 1/2 ≤ N/R`; otherwise exactly the ACS
  (`gaussian_budget_infeasible`).  The kernel loop adds exactly `k + 1` new cells on every candidate
  stream on which it returns (`gaussian_loop_adds_exactly`).
* Variable-density Poisson: whenever the generator returns, `|R_actual − R| < tol` (`bisection_post`).
* Random: `L + (N − L)·prob = N/R` (`random_prob_formula`); the statement "in expectation over seeds"
  then *assumes* that numpy's `uniform` is uniform on [0, 1) — not a theorem about numpy.
* Equispaced: algebra of the adjusted acceleration, grid size, positions in range and strictly
  increasing, count decomposition, and **`equispaced_budget : |count − N/R| ≤ 2`** for every N, L,
  `R ≥ 2`, offset (full strength; the bound is attained).
* Magic (offset) masks: `magic_count_formula` (exact count), `magic_budget_bounds` / `magic_budget_abs` (bracket),
  `magic_deviates_by_design` (why they are not judged against `N / R`).

Further property-level theorems (namespace `DirectVerif.C07`) live in their own modules, all obligations of the check:
`Lemmas/C07Bisect.lean` (the slope interval of the VD-Poisson bisection: `bisection_iv_post`, `bisection_iv_eq_bisect`,
`bisection_iv_slopes_inside`, `bisection_exact_halves`, `bisection_exact_never_raises`), `Lemmas/C07RandomProps.lean`
(`random_count_decomp`, `random_frames_count`, `random_total_formula`, `random_expectation`, `random_expectation_exact`,
`choose_pair_same_index`), `Lemmas/C07State.lean` (`history_budget`, `shared_array_violates`), `Lemmas/C07Ties.lean`
(`equi_ties_irrelevant`, `equi_ties_half_even`), `Lemmas/C07Circus.lean` (`circus_count_le_picks`,
`circus_even_square_budget`).
-/
namespace DirectVerif.C07
open DirectVerif DirectVerif.MaskBudget

/-! ### Random line masks -/

/-- the probability as coded makes the expected number of sampled columns exactly `N / R` -/
theorem random_prob_formula (N R L : ℚ) (hR : R ≠ 0) (hNL : N ≠ L) :
    L + (N - L) * randomProb N R L = N / R := by
  have h : N - L ≠ 0 := sub_ne_zero.mpr hNL
  unfold randomProb
  field_simp
  ring

theorem random_expected_count (N R L : ℚ) (hR : R ≠ 0) (hNL : N ≠ L) :
    expectedCount N L (randomProb N R L) = N / R := random_prob_formula N R L hR hNL

/-- it is a probability exactly in the feasible range `L ≤ N/R ≤ N` -/
theorem random_prob_unit (N R L : ℚ) (hL : L < N) (h1 : L ≤ N / R) (h2 : N / R ≤ N) :
    0 ≤ randomProb N R L ∧ randomProb N R L ≤ 1 := by
  have h : 0 < N - L := sub_pos.mpr hL
  unfold randomProb
  constructor
  · exact div_nonneg (by linarith) h.le
  · rw [div_le_one h]; linarith

/-- every column of a frame is `acs ∨ (u < prob)` — the Bernoulli structure the expectation is about -/
theorem random_mask_column (N L : Int) (p : ℚ) (us : List ℚ) (i : Nat) (hi : i < N.toNat) :
    (randomMask N L p us)[i]? = some (inAcs N L i || decide (us.getD i 1 < p)) := by
  unfold randomMask
  simp [hi]

/-! ### the pair a call uses -/

/-- with several accelerations per instance the drawn index selects the centre fraction and the
acceleration **of the same position**: the budget below is the one of the chosen pair -/
theorem choose_pairs (accs cfs : List ℚ) (i : Nat) (c r : ℚ)
    (h : chooseAcceleration false accs cfs i = .ok (c, r)) : cfs[i]? = some c ∧ accs[i]? = some r := by
  unfold chooseAcceleration at h
  simp only [Bool.false_eq_true, if_false] at h
  cases hc : cfs[i]? <;> cases hr : accs[i]? <;> simp_all

/-- `uniform_range=True` is rejected, whatever the lists and the draw -/
theorem choose_uniform_rejects (accs cfs : List ℚ) (i : Nat) :
    chooseAcceleration true accs cfs i = .error "NotImplementedError" := by
  simp [chooseAcceleration]

example : chooseAcceleration false [4, 8] [2 / 25, 1 / 25] 1 = .ok (1 / 25, 8) := by decide +kernel

/-! ### Gaussian 1-D / 2-D -/

/-- **the kernel loop adds exactly `k + 1 − count` new cells** (so `k + 1` from `count = 0`; none when
`k < 0`), never clears a cell and keeps the size — for every candidate stream on which it returns -/
theorem gaussian_loop_adds_exactly (k : Int) :
    ∀ (cands : List Int) (count : Int) (mask m' : List Bool),
      gaussLoop k cands count mask = some m' →
        countTrue m' = countTrue mask + (k + 1 - count).toNat ∧ m'.length = mask.length ∧
        ∀ i, mask.getD i false = true → m'.getD i false = true := by
  intro cands
  induction cands with
  | nil =>
    intro count mask m' h
    unfold gaussLoop at h
    split_ifs at h with hc
    simp only [Option.some.injEq] at h
    subst h
    refine ⟨?_, rfl, fun _ h => h⟩
    have : (k + 1 - count).toNat = 0 := by omega
    omega
  | cons c cs ih =>
    intro count mask m' h
    unfold gaussLoop at h
    split_ifs at h with hc hin
    · -- accepted
      obtain ⟨h0, h1, h2⟩ := hin
      have hlt : c.toNat < mask.length := by omega
      obtain ⟨e1, e2, e3⟩ := ih _ _ _ h
      rw [countTrue_set_new mask c.toNat hlt h2] at e1
      refine ⟨?_, ?_, ?_⟩
      · have : (k + 1 - count).toNat = (k + 1 - (count + 1)).toNat + 1 := by omega
        omega
      · simpa using e2
      · intro i hi
        apply e3
        by_cases hic : i = c.toNat
        · subst hic; simp [List.getD_eq_getElem?_getD, hlt]
        · simpa [List.getD_eq_getElem?_getD, List.getElem?_set, Ne.symm hic] using hi
    · exact ih _ _ _ h
    · simp only [Option.some.injEq] at h
      subst h
      refine ⟨?_, rfl, fun _ h => h⟩
      have : (k + 1 - count).toNat = 0 := by omega
      omega

/-- **Gaussian budget, feasible case**: if the request is non-negative, i.e. `#ACS + 1/2 ≤ x` with
`x = N/R` (1-D) or `rows·cols/R` (2-D), and the loop returns, the realised count differs from the
target by at most one half sample (the property says "within one sample") -/
theorem gaussian_budget (x : ℚ) (mask m' : List Bool) (cands : List Int)
    (hfeas : (countTrue mask : ℚ) + 1 / 2 ≤ x)
    (hrun : gaussLoop (gaussianRequest x (countTrue mask)) cands 0 mask = some m') :
    |(countTrue m' : ℚ) - x| ≤ 1 / 2 := by
  obtain ⟨e, _, _⟩ := gaussian_loop_adds_exactly _ cands 0 mask m' hrun
  have hk : 0 ≤ gaussianRequest x (countTrue mask) := by
    by_contra hneg
    rw [not_le] at hneg
    have := (rnd_neg_iff _).mp hneg
    push_cast at this
    linarith
  have hnat : ((gaussianRequest x (countTrue mask) + 1 - 0).toNat : ℚ) = (gaussianRequest x (countTrue mask) : ℚ) + 1 := by
    have : ((gaussianRequest x (countTrue mask) + 1 - 0).toNat : ℤ) = gaussianRequest x (countTrue mask) + 1 := by omega
    exact_mod_cast this
  rw [e]
  push_cast
  rw [hnat]
  have hs := rnd_spec (x - (countTrue mask : ℚ) - 1)
  unfold gaussianRequest
  push_cast
  rw [abs_le] at hs ⊢
  constructor <;> linarith [hs.1, hs.2]

/-- **infeasible case**: if `x < #ACS + 1/2` the request is negative and nothing is added — the mask
is exactly the ACS, whatever the candidates -/
theorem gaussian_budget_infeasible (x : ℚ) (mask : List Bool) (cands : List Int)
    (hinf : x < (countTrue mask : ℚ) + 1 / 2) :
    gaussLoop (gaussianRequest x (countTrue mask)) cands 0 mask = some mask := by
  have hk : gaussianRequest x (countTrue mask) < 0 := by
    apply (rnd_neg_iff _).mpr
    push_cast
    linarith
  cases cands with
  | nil => unfold gaussLoop; rw [if_neg (by omega)]
  | cons c cs => unfold gaussLoop; rw [if_neg (by omega)]

/-- feasibility is exactly non-negativity of the request -/
theorem gaussian_feasible_iff (x : ℚ) (acs : Int) : 0 ≤ gaussianRequest x acs ↔ (acs : ℚ) + 1 / 2 ≤ x := by
  unfold gaussianRequest
  rw [← not_lt, rnd_neg_iff, not_lt]
  constructor <;> intro h <;> linarith

/-- probed on the real code: 128×128, R = 12, centre scale 0.1 (disc of 1513 cells) is infeasible -/
example : gaussianRequest ((128 * 128 : ℚ) / 12) 1513 < 0 := by decide +kernel
/-- … and 32 columns, R = 4, 3 ACS columns is feasible with request 4 (adds 5: 3 + 5 = 8 = 32/4) -/
example : gaussianRequest ((32 : ℚ) / 4) 3 = 4 := by decide +kernel
example : gaussLoop 1 [5, 5, 100, -1, 3, 0, 7] 0 [true, false, false, false, false, false] =
    some [true, false, false, true, false, true] := by decide
/-- `gaussian_budget` instantiated: 1 ACS cell, target 7/2, request 2, three cells added, |4 − 7/2| = 1/2 -/
example : |(countTrue [true, false, true, true, false, true] : ℚ) - 7 / 2| ≤ 1 / 2 :=
  gaussian_budget (7 / 2) [true, false, false, false, false, false] _ [5, 5, 100, -1, 3, 0, 7, 2]
    (by norm_num [countTrue]) (by decide +kernel)
/-- the tie `x − L − 1 = 1/2` attains the bound `1/2` -/
example : gaussianRequest ((27 : ℚ) / 2) 12 = 0 := by decide +kernel


/-! ### Magic (offset-sampling) line masks

The Magic generators round the adjusted acceleration to an integer, so they are **not** judged against
`N / R` (see `magic_deviates_by_design`).  What they realise is characterised exactly and bracketed, so a
change of their arithmetic (offsets, halves, rounding, the union with the ACS block) breaks a theorem, a
bridge lemma or the correspondence on counts. -/

/-- **exact count of a Magic frame**: `#ACS` plus the comb points of the two half-rows that fall outside the
ACS block — for every width, ACS size `1 ≤ L ≤ N`, integer step `adj ≥ 1` and offset -/
theorem magic_count_formula (N L adj off : Nat) (hL : 1 ≤ L) (hLN : L ≤ N) :
    magicCount N L adj off = magicCountFormula N L adj off := by
  rw [magicCount_halves N L adj off hL hLN]
  have hpad0 : 0 ≤ acsPad (N : Int) (L : Int) := by unfold acsPad; omega
  have hneg : magicNegIn N L ≤ N / 2 := by unfold magicNegIn; omega
  have hpos : magicPosIn N L ≤ N - N / 2 := by unfold magicPosIn acsPad; omega
  have hsum : magicNegIn N L + magicPosIn N L = L := by unfold magicNegIn magicPosIn acsPad; omega
  rw [countP_prefix_or _ _ _ hneg, countP_prefix_or _ _ _ hpos]
  have c : ∀ o x, (List.range x).countP (fun i => combAt o adj i) = strideCount o adj x := fun o x => countP_comb o adj x
  rw [c, c, c, c]
  unfold magicCountFormula
  have hp : (magicPosLen N).toNat = N - N / 2 := by unfold magicPosLen; omega
  have hn : (magicNegLen N).toNat = N / 2 := by unfold magicNegLen; omega
  rw [hp, hn]
  omega

/-- the capped ACS request is at least one column and never more than the target (or 1) -/
theorem magic_low_bounds (l t : Int) : 1 ≤ magicLow l t ∧ magicLow l t ≤ max t 1 := by
  unfold magicLow; omega

/-- the two comb offsets are at most `offset + 2` -/
theorem magic_offsets_le (off : Nat) :
    (magicOffPos off).toNat ≤ off + 2 ∧ (magicOffNeg off).toNat ≤ off + 2 ∧ 1 ≤ (magicOffPos off).toNat := by
  unfold magicOffPos magicOffNeg
  split_ifs <;> omega

/-- **bracket of the Magic budget**: with `d = count − #ACS` non-ACS columns sampled,
`adj·d ≤ (N − L) + 2·(adj − 1)` and `(N − L) ≤ adj·d + 2·(adj + 1)` — the comb of step `adj` covers the
`N − L` non-ACS columns up to one period per half-row (plus the offset head-room of at most `adj + 1`) -/
theorem magic_budget_bounds (N L adj off : Nat) (hL : 1 ≤ L) (hLN : L ≤ N) (hadj : 1 ≤ adj) (hoff : off < adj) :
    adj * magicCount N L adj off ≤ adj * L + (N - L) + 2 * (adj - 1) ∧
    adj * L + (N - L) ≤ adj * magicCount N L adj off + 2 * (adj + 1) := by
  rw [magic_count_formula N L adj off hL hLN]
  unfold magicCountFormula
  have hp : (magicPosLen N).toNat = N - N / 2 := by unfold magicPosLen; omega
  have hn : (magicNegLen N).toNat = N / 2 := by unfold magicNegLen; omega
  rw [hp, hn]
  have hneg : magicNegIn N L ≤ N / 2 := by unfold magicNegIn; omega
  have hpos : magicPosIn N L ≤ N - N / 2 := by unfold magicPosIn acsPad; omega
  have hsum : magicNegIn N L + magicPosIn N L = L := by unfold magicNegIn magicPosIn acsPad; omega
  obtain ⟨o1, o2, _⟩ := magic_offsets_le off
  obtain ⟨p1, p2⟩ := strideCount_window (magicOffPos off).toNat adj (magicPosIn N L) (N - N / 2) hadj hpos
  obtain ⟨n1, n2⟩ := strideCount_window (magicOffNeg off).toNat adj (magicNegIn N L) (N / 2) hadj hneg
  have m1 : max (adj - 1) ((magicOffPos off).toNat - magicPosIn N L) ≤ adj + 1 := by omega
  have m2 : max (adj - 1) ((magicOffNeg off).toNat - magicNegIn N L) ≤ adj + 1 := by omega
  rw [Nat.mul_add, Nat.mul_add]
  constructor <;> omega

/-- the same bracket over ℚ: the number of non-ACS columns sampled is `(N − L)/adj` up to `2 + 2/adj` -/
theorem magic_budget_abs (N L adj off : Nat) (hL : 1 ≤ L) (hLN : L ≤ N) (hadj : 1 ≤ adj) (hoff : off < adj) :
    |(magicCount N L adj off : ℚ) - ((L : ℚ) + ((N : ℚ) - L) / adj)| ≤ 2 + 2 / (adj : ℚ) := by
  obtain ⟨h1, h2⟩ := magic_budget_bounds N L adj off hL hLN hadj hoff
  have ha : (0 : ℚ) < (adj : ℚ) := by exact_mod_cast hadj
  have e1 : ((adj * magicCount N L adj off : ℕ) : ℚ) ≤ ((adj * L + (N - L) + 2 * (adj - 1) : ℕ) : ℚ) := by exact_mod_cast h1
  have e2 : ((adj * L + (N - L) : ℕ) : ℚ) ≤ ((adj * magicCount N L adj off + 2 * (adj + 1) : ℕ) : ℚ) := by exact_mod_cast h2
  push_cast [Nat.cast_sub hLN, Nat.cast_sub hadj] at e1 e2
  rw [abs_le]
  constructor
  · rw [neg_le_sub_iff_le_add, ← sub_nonneg]
    have : (magicCount N L adj off : ℚ) + (2 + 2 / (adj : ℚ)) - ((L : ℚ) + ((N : ℚ) - L) / adj) =
        ((adj : ℚ) * magicCount N L adj off + 2 * (adj + 1) - (adj * L + (N - L))) / adj := by
      field_simp
    rw [this]
    exact div_nonneg (by linarith) ha.le
  · rw [sub_le_iff_le_add, ← sub_nonneg]
    have : (2 + 2 / (adj : ℚ)) + ((L : ℚ) + ((N : ℚ) - L) / adj) - (magicCount N L adj off : ℚ) =
        ((adj : ℚ) * L + (N - L) + 2 * (adj - 1) - adj * magicCount N L adj off + 4) / adj := by
      field_simp; ring
    rw [this]
    exact div_nonneg (by linarith) ha.le

/-- a call whose ACS block uses up the budget (`adjusted_acceleration = 0`) raises in `rng.randint(0, high=0)` -/
theorem magic_frame_rejects (N lRaw : Int) (R : ℚ) (off : Int) (h : (magicParams N lRaw R).2.2 ≤ 0) :
    magicFrame N lRaw R off = .error "ValueError" := by
  unfold magicFrame
  simp only [h, if_true]

/-- the whole arithmetic of a call: whenever a frame is produced its count is the closed form in the call's own
`(target, num_low_freqs, adjusted_acceleration)` -/
theorem magic_frame_count (N lRaw : Int) (R : ℚ) (off : Int) (m : List Bool) (hN : 1 ≤ N)
    (hcap : (magicParams N lRaw R).2.1 ≤ N) (h : magicFrame N lRaw R off = .ok m) :
    countTrue m = magicCountFormula N.toNat (magicParams N lRaw R).2.1.toNat (magicParams N lRaw R).2.2.toNat off.toNat := by
  dsimp only [magicFrame] at h
  split_ifs at h with hadj
  simp only [Except.ok.injEq] at h
  subst h
  have hL := (magic_low_bounds lRaw (magicTarget N R)).1
  have hL' : 1 ≤ (magicParams N lRaw R).2.1 := hL
  exact magic_count_formula _ _ _ _ (by omega) (by omega)

/-- the target never exceeds the width for accelerations ≥ 1 -/
theorem magic_target_le (N : Int) (R : ℚ) (hN : 0 ≤ N) (hR : 1 ≤ R) : magicTarget N R ≤ N := by
  unfold magicTarget
  have hq : (N : ℚ) / R ≤ N := by
    have : (0 : ℚ) ≤ (N : ℚ) := by exact_mod_cast hN
    exact div_le_self this hR
  have h1 := rnd_floor_or ((N : ℚ) / R)
  have hfl : ((N : ℚ) / R).floor ≤ N := by
    rw [floor_eq]; exact Int.floor_le_iff.mpr (by linarith)
  rcases h1 with h | h
  · rw [h]; exact hfl
  · -- rounding up happens only when the fractional part is ≥ 1/2, impossible at floor = N
    rw [h]
    by_contra hc
    have hfN : ((N : ℚ) / R).floor = N := by omega
    have := floor_le' ((N : ℚ) / R)
    have hfrac : (N : ℚ) / R - ((N : ℚ) / R).floor ≤ 0 := by rw [hfN]; linarith
    unfold roundHalfEven at h
    split_ifs at h with a b c <;> first | omega | linarith

/-- **Magic deviates from `N / R` by design** (not a defect; inherited from fastMRI): 400 columns, `R = 4`, 32 ACS
columns → target 100, `adjusted_acceleration = round(400 / 68) = 6`, and offset 0 realises 93 columns, 7 short -/
theorem magic_deviates_by_design :
    magicParams 400 32 4 = (100, 32, 6) ∧ magicFrame 400 32 4 0 = .ok (magicMask 400 32 6 0) ∧
    magicCount 400 32 6 0 = 93 := by
  refine ⟨by decide +kernel, by decide +kernel, by decide +kernel⟩

example : magicCountFormula 400 32 6 0 = 93 := by decide +kernel
/-- hypotheses of `magic_budget_bounds` are satisfiable, and the bracket is tight on the upper side:
`N = 12`, `L = 2`, `adj = 5`, offset 0 → comb points 6+1 → column 7 and 6−1−2 → column 3: count 4, `5·4 = 5·2 + 10` -/
example : magicCount 12 2 5 0 = 4 := by decide +kernel

/-! ### Variable-density Poisson -/

/-- **post-condition of the bisection**: whenever `poisson` returns (on any sequence of kernel
results), the realised acceleration is within the configured tolerance -/
theorem bisection_post (R tol : ℚ) :
    ∀ (ps : List Probe) (n : Nat) (a : ℚ) (m : Nat), bisect R tol ps n = .returned a m → |a - R| < tol := by
  intro ps
  induction ps with
  | nil => intro n a m h; simp [bisect] at h
  | cons p ps ih =>
    intro n a m h
    unfold bisect at h
    split_ifs at h with h1 h2
    · simp only [Outcome.returned.injEq] at h
      rw [← h.1, ← absQ_eq]; exact h1
    · exact ih _ _ _ h

theorem applyPost_id (post : List PostStmt) (h : ∀ s ∈ post, s.modifiesMask = false) (a : ℚ) :
    applyPost post a = a := by
  unfold applyPost
  induction post generalizing a with
  | nil => rfl
  | cons s post ih =>
    simp only [List.foldl_cons, h s List.mem_cons_self, Bool.false_eq_true, if_false]
    exact ih (fun t ht => h t (List.mem_cons_of_mem _ ht)) a

/-- **post-condition about the returned mask** (what the caller gets): if no statement between the
last tolerance evaluation and `return mask` modifies `mask`, every returned mask realises the
requested acceleration within the tolerance -/
theorem bisection_post_returned (R tol : ℚ) (ps : List Probe) (post : List PostStmt)
    (h : ∀ s ∈ post, s.modifiesMask = false) (a : ℚ) (n : Nat)
    (hr : poisson R tol ps post = .returned a n) : |a - R| < tol := by
  unfold poisson at hr
  cases hb : bisect R tol ps 0 with
  | returned a' n' =>
    rw [hb] at hr
    simp only [Outcome.returned.injEq] at hr
    rw [← hr.1, applyPost_id post h]
    exact bisection_post R tol ps 0 a' n' hb
  | raised n' => rw [hb] at hr; simp at hr
  | running n' => rw [hb] at hr; simp at hr

/-- … for the generated table of post statements, whatever they compute -/
theorem bisection_post_returned_table (R tol : ℚ) (ps : List Probe) (tbl : List (String × Bool))
    (h : postOk tbl = true) (effect : ℚ → ℚ) (a : ℚ) (n : Nat)
    (hr : poisson R tol ps (postOfTable tbl effect) = .returned a n) : |a - R| < tol := by
  apply bisection_post_returned R tol ps _ _ a n hr
  intro s hs
  simp only [postOfTable, List.mem_map] at hs
  obtain ⟨t, ht, rfl⟩ := hs
  have := List.all_eq_true.mp h t ht
  simpa using this

/-- a mask-modifying statement after the tolerance test breaks it: the test saw 4.1 (within 0.2 of
4), the caller gets a mask cropped to acceleration 4.6 -/
theorem post_modification_violates :
    poisson 4 (1 / 5) [⟨41 / 10, false⟩] [⟨true, fun a => a + 1 / 2⟩] = .returned (23 / 5) 1 ∧
    ¬ |(23 / 5 : ℚ) - 4| < 1 / 5 := by
  refine ⟨by decide +kernel, by norm_num⟩

example : poisson 4 (1 / 5) [⟨41 / 10, false⟩] (postOfTable [("raise_if", false)] id) = .returned (41 / 10) 1 := by
  decide +kernel

/-- it raises only on a probe that missed the tolerance with the interval exhausted -/
theorem bisection_raises (R tol : ℚ) :
    ∀ (ps : List Probe) (n m : Nat), bisect R tol ps n = .raised m →
      ∃ p ∈ ps, p.stalled = true ∧ ¬ |p.accel - R| < tol := by
  intro ps
  induction ps with
  | nil => intro n m h; simp [bisect] at h
  | cons p ps ih =>
    intro n m h
    unfold bisect at h
    split_ifs at h with h1 h2
    · exact ⟨p, List.mem_cons_self, h2, by rw [← absQ_eq]; exact h1⟩
    · obtain ⟨p', hp', h'⟩ := ih _ _ h
      exact ⟨p', List.mem_cons_of_mem _ hp', h'⟩

/-- in terms of the sampled fraction: `cells / count` within `tol` of `R` pins `count` between
`cells / (R + tol)` and `cells / (R − tol)` -/
theorem bisection_fraction_bounds (cells count R tol : ℚ) (hc : 0 < count) (htol : tol < R)
    (h : |cells / count - R| < tol) : cells / (R + tol) < count ∧ count < cells / (R - tol) := by
  rw [abs_lt] at h
  have h1 : cells / count < R + tol := by linarith [h.2]
  have h2 : R - tol < cells / count := by linarith [h.1]
  have hp : 0 < R + tol := by linarith
  have hm : 0 < R - tol := by linarith
  constructor
  · rw [div_lt_iff₀ hp]
    rw [div_lt_iff₀ hc] at h1
    linarith
  · rw [lt_div_iff₀ hm]
    rw [lt_div_iff₀ hc] at h2
    linarith

example : bisect 4 (1 / 10) [⟨5, false⟩, ⟨3, false⟩, ⟨81 / 20, false⟩] 0 = .returned (81 / 20) 3 := by decide +kernel
example : bisect 4 (1 / 10) [⟨5, false⟩, ⟨3, true⟩] 0 = .raised 2 := by decide +kernel


/-! ### Equispaced line masks -/

/-- the adjusted acceleration spreads the non-ACS budget over the non-ACS columns:
`(N − L) / adjusted = N/R − L` -/
theorem equispaced_algebra (N R L : ℚ) (hR : R ≠ 0) (hNL : N ≠ L) (hLR : L * R ≠ N) :
    (N - L) / adjAccel N R L = N / R - L := by
  have h1 : L - N ≠ 0 := sub_ne_zero.mpr (Ne.symm hNL)
  have h2 : L * R - N ≠ 0 := sub_ne_zero.mpr hLR
  unfold adjAccel
  field_simp
  ring

/-- the adjusted acceleration is at least the nominal one (equal when there is no ACS) -/
theorem adjAccel_ge (N R L : ℚ) (hL : 0 ≤ L) (hR : 1 ≤ R) (hLR : L * R < N) : R ≤ adjAccel N R L := by
  have hden : 0 < N - L * R := sub_pos.mpr hLR
  have e : adjAccel N R L = (R * (N - L)) / (N - L * R) := by
    unfold adjAccel
    rw [show R * (L - N) = -(R * (N - L)) by ring, show L * R - N = -(N - L * R) by ring, neg_div_neg_eq]
  rw [e, le_div_iff₀ hden]
  nlinarith [mul_nonneg (mul_nonneg (by linarith : (0 : ℚ) ≤ R) hL) (by linarith : (0 : ℚ) ≤ R - 1)]

/-- the grid `np.arange(offset, N − 1, a)` has `⌈(N − 1 − offset)/a⌉` points -/
theorem equispaced_grid_size (N : Int) (a : ℚ) (off : Int) (ha : 0 < a) (hoff : (off : ℚ) ≤ (N : ℚ) - 1) :
    (equiPositions N a off).length = arangeLen off (N - 1) a ∧
    ((N : ℚ) - 1 - off) / a ≤ ((equiPositions N a off).length : ℚ) ∧
    ((equiPositions N a off).length : ℚ) < ((N : ℚ) - 1 - off) / a + 1 := by
  rw [positions_length]
  exact ⟨rfl, arangeLen_bounds _ _ _ ha hoff⟩

/-- for `a > 1` the rounded grid points are pairwise distinct (strictly increasing) column indices
in `[offset, N − 1]` -/
theorem equispaced_positions (N : Int) (a : ℚ) (off : Int) (ha : 1 < a) :
    (equiPositions N a off).Pairwise (· < ·) ∧ ∀ p ∈ equiPositions N a off, off ≤ p ∧ p ≤ N - 1 :=
  ⟨positions_strict N a off ha, positions_range N a off (by linarith)⟩

/-- **realised count = #ACS + #(grid points outside the ACS block)** -/
theorem equispaced_count (N L : Int) (R : ℚ) (off : Int) (hL0 : 0 ≤ L) (hLN : L ≤ N)
    (ha : 1 < adjAccel N R L) (hoff : 0 ≤ off) :
    equiCount N L R off = L.toNat + ((equiPositions N (adjAccel N R L) off).filter fun p => !inAcs N L p).length :=
  equi_count_decomp N L _ off hL0 hLN ha hoff

/-- **budget of an equispaced frame, full strength** (the property's "within two columns"): for every
width, ACS size, acceleration `R ≥ 2` (so the adjusted acceleration is ≥ 2), feasible pair `L·R < N`
and every offset the generator can draw, `|count − N/R| ≤ 2`; the value 2 is attained
(e.g. N = 60, R = 3, L = 4, offset 3: count 18).

Lower side: with `A` grid points below the ACS block, `J` below its end, and `m` in total, the three
slacks `s₁ = x_A − (pad − ½)`, `s₂ = (pad + L − ½) − x_{J−1}`, `s₃ = x_m − (N − 1)` are ≥ 0 and
`(A + m − J + 1)·a = N − L − (offset + 1) + s₁ + s₂ + s₃`; when `offset + 1 > a` (the offset bound
`round(a)` rounded up) the integer `d = m − J + 1 − A` would satisfy `0 < d·a < a` because the block
is centred (`N − L = 2·pad − ε`, `ε ∈ {0, 1}`) — impossible. -/
theorem equispaced_budget (N L : Int) (R : ℚ) (off : Int) (hL0 : 0 ≤ L) (hR : 2 ≤ R)
    (hfeas : (L : ℚ) * R < N) (hoff : 0 ≤ off) (hoffb : off < offsetBound (adjAccel N R L)) :
    |(equiCount N L R off : ℚ) - (N : ℚ) / R| ≤ 2 := by
  have hLq : (0 : ℚ) ≤ (L : ℚ) := by exact_mod_cast hL0
  have hR0 : (0 : ℚ) < R := by linarith
  have hage := adjAccel_ge (N : ℚ) R L hLq (by linarith) hfeas
  have ha2 : 2 ≤ adjAccel N R L := by linarith
  have hLNq : (L : ℚ) < N := by nlinarith
  have hLN : L ≤ N := by
    have : (L : ℤ) < N := by exact_mod_cast hLNq
    omega
  have halg := equispaced_algebra (N : ℚ) R L (ne_of_gt hR0) (ne_of_gt hLNq) (ne_of_lt hfeas)
  obtain ⟨_, hup⟩ := equi_count_bounds N L (adjAccel N R L) off hL0 hLN (by linarith) hoff
  have hlo := equi_count_lower N L (adjAccel N R L) off hL0 hLN ha2 hoff hoffb
  unfold equiCount countTrue at *
  rw [abs_le]
  constructor <;> linarith

/-- the bound 2 is attained -/
example : (equiCount 60 4 3 3 : ℚ) - (60 : ℚ) / 3 = -2 := by
  have : equiCount 60 4 3 3 = 18 := by decide +kernel
  rw [this]; norm_num

/-
For accelerations `1 < R < 2` (outside the property's range 2…12) the adjusted acceleration may be
below 2 and the centring argument above needs `a ≥ 2`; what holds there is `equispaced_budget_partial`
(upper side in full, lower side up to the slack `1/(2a)`).  The exhaustive enumeration of the model
and of the implementation over N = 32…400, R ∈ {2,…,12, 2.5, 5.5}, four centre fractions and every
offset is kept in the check as supporting evidence (worst observed deviation: exactly 2).
-/

/-- budget of an equispaced frame for every acceleration `R > 1` (weaker lower side) -/
theorem equispaced_budget_partial (N L : Int) (R : ℚ) (off : Int) (hL0 : 0 ≤ L) (hR : 1 < R)
    (hfeas : (L : ℚ) * R < N) (hoff : 0 ≤ off) (hoffb : off < offsetBound (adjAccel N R L)) :
    (N : ℚ) / R - 2 - 1 / (2 * adjAccel N R L) ≤ (equiCount N L R off : ℚ) ∧
    (equiCount N L R off : ℚ) < (N : ℚ) / R + 2 := by
  have hLq : (0 : ℚ) ≤ (L : ℚ) := by exact_mod_cast hL0
  have hR0 : (0 : ℚ) < R := by linarith
  have hage := adjAccel_ge (N : ℚ) R L hLq hR.le hfeas
  have ha : 1 < adjAccel N R L := by linarith
  have ha0 : 0 < adjAccel N R L := by linarith
  have hLNq : (L : ℚ) < N := by nlinarith
  have hLN : L ≤ N := by
    have : (L : ℤ) < N := by exact_mod_cast hLNq
    omega
  have halg := equispaced_algebra (N : ℚ) R L (ne_of_gt hR0) (ne_of_gt hLNq) (ne_of_lt hfeas)
  obtain ⟨hlo, hup⟩ := equi_count_bounds N L (adjAccel N R L) off hL0 hLN ha hoff
  have hoff1 : (1 + (off : ℚ)) ≤ adjAccel N R L + 1 / 2 := by
    have h1 : off + 1 ≤ offsetBound (adjAccel N R L) := by omega
    have h2 : ((off + 1 : ℤ) : ℚ) ≤ ((offsetBound (adjAccel N R L) : ℤ) : ℚ) := by exact_mod_cast h1
    have h3 := rnd_upper (adjAccel N R L)
    unfold offsetBound at h2
    push_cast at h2
    linarith
  have hfrac : (1 + (off : ℚ)) / adjAccel N R L ≤ 1 + 1 / (2 * adjAccel N R L) := by
    rw [div_le_iff₀ ha0]
    have : (1 + 1 / (2 * adjAccel N R L)) * adjAccel N R L = adjAccel N R L + 1 / 2 := by
      field_simp
    linarith
  unfold equiCount countTrue at *
  constructor <;> linarith

/-- in particular: within 9/4 of a column for every acceleration ≥ 2 -/
theorem equispaced_budget_abs_partial (N L : Int) (R : ℚ) (off : Int) (hL0 : 0 ≤ L) (hR : 2 ≤ R)
    (hfeas : (L : ℚ) * R < N) (hoff : 0 ≤ off) (hoffb : off < offsetBound (adjAccel N R L)) :
    |(equiCount N L R off : ℚ) - (N : ℚ) / R| ≤ 9 / 4 := by
  have hLq : (0 : ℚ) ≤ (L : ℚ) := by exact_mod_cast hL0
  have hage := adjAccel_ge (N : ℚ) R L hLq (by linarith) hfeas
  obtain ⟨h1, h2⟩ := equispaced_budget_partial N L R off hL0 (by linarith) hfeas hoff hoffb
  have ha2 : 2 ≤ adjAccel N R L := by linarith
  have : 1 / (2 * adjAccel N R L) ≤ 1 / 4 := by
    rw [div_le_div_iff₀ (by linarith) (by norm_num)]; linarith
  rw [abs_le]
  constructor <;> linarith

/-- the probe of the source comment: 32 columns, R = 4, 3 ACS columns, offset 2 → exactly 8 = 32/4 -/
example : equiCount 32 3 4 2 = 8 ∧ equiPositions 32 (adjAccel 32 4 3) 2 = [2, 8, 14, 19, 25] := by decide +kernel
/-- hypotheses of `equispaced_budget_partial` are satisfiable -/
example : (0 : Int) ≤ 3 ∧ (1 : ℚ) < 4 ∧ ((3 : Int) : ℚ) * 4 < (32 : Int) ∧ (2 : Int) < offsetBound (adjAccel 32 4 3) := by
  refine ⟨by decide, by norm_num, by norm_num, by decide +kernel⟩

end DirectVerif.C07
