import DirectVerif.Lemmas.C06Assemble
import DirectVerif.Lemmas.C06Seed
import DirectVerif.Lemmas.C06Round
import DirectVerif.Lemmas.C06Crop
import DirectVerif.Model.C06Grid
/-!
# C06 — the autocalibration region is fully sampled, centred and of the requested size

Property theorems only, about the executable model `Model/MaskGeom.lean` (the definitions the driver
runs).  Tie to the code: `Bridge/C06.lean` (translated `center_mask_func` pad / slice,
`zero_pad_to_center` start, `centered_disk_mask` predicate) and the correspondence check.

Line generators: `centerMask n l` (FastMRI*/Cartesian*/Gaussian1D) and `zeroPadRow n l`
(KtUniform/KtGaussian1D, repaired start) — exactly `l` contiguous columns containing `n / 2`,
balanced within one column.  2-D generators: `centeredDisk` — a disc about the centre *sample*
`(rows / 2, cols / 2)`, point-symmetric about it.  Every generator: ACS ⊆ mask.
-/
namespace DirectVerif.C06
open DirectVerif DirectVerif.MaskGeom DirectVerif.C06Seed

/-! ## the centre block of the line generators -/

/-- the block is `[pad, pad + l)` with `pad = (n - l + 1) / 2` -/
theorem acs_block (n l : Nat) (h : l ≤ n) (i : Nat) :
    (centerMask n l).getD i false = decide ((n - l + 1) / 2 ≤ i ∧ i < (n - l + 1) / 2 + l) :=
  getD_centerMask n l h i

/-- exactly the requested number of columns -/
theorem acs_count (n l : Nat) (h : l ≤ n) : (centerMask n l).count true = l :=
  count_centerMask n l h

/-- contiguous -/
theorem acs_contiguous (n l : Nat) (h : l ≤ n) (i j k : Nat) (hij : i ≤ j) (hjk : j ≤ k)
    (hi : (centerMask n l).getD i false = true) (hk : (centerMask n l).getD k false = true) :
    (centerMask n l).getD j false = true := by
  rw [acs_block n l h] at hi hk ⊢
  simp only [decide_eq_true_eq] at hi hk ⊢
  omega

/-- contains the k-space centre column `n / 2` -/
theorem acs_contains_centre (n l : Nat) (h1 : 1 ≤ l) (h : l ≤ n) :
    (centerMask n l).getD (n / 2) false = true := by
  rw [acs_block n l h]
  simp only [decide_eq_true_eq]
  omega

/-- balanced about the centre column within one column -/
theorem acs_balanced (n l : Nat) (h : l ≤ n) :
    leftCount (centerMask n l) ≤ rightCount (centerMask n l) + 1 ∧
    rightCount (centerMask n l) ≤ leftCount (centerMask n l) + 1 := by
  rw [leftCount_centerMask n l h, rightCount_centerMask n l h]
  omega

/-- left and right counts explicitly: `n/2 - pad` columns left of the centre, `pad + l - 1 - n/2` right -/
theorem acs_left_right (n l : Nat) (h1 : 1 ≤ l) (h : l ≤ n) :
    leftCount (centerMask n l) = n / 2 - (n - l + 1) / 2 ∧
    rightCount (centerMask n l) = (n - l + 1) / 2 + l - 1 - n / 2 := by
  rw [leftCount_centerMask n l h, rightCount_centerMask n l h]
  omega

/-! ## the Kt generators' block (`zero_pad_to_center`, repaired start) -/

/-- the repaired `zero_pad_to_center` of an all-ones block is the same centre block -/
theorem kt_acs_eq_center (n l : Nat) (h : l ≤ n) : zeroPadRow n l = some (centerMask n l) :=
  zeroPadRow_eq_centerMask n l h

theorem kt_acs_count (n l : Nat) (h : l ≤ n) : ∃ r, zeroPadRow n l = some r ∧ r.count true = l :=
  ⟨_, kt_acs_eq_center n l h, acs_count n l h⟩

theorem kt_acs_contains_centre (n l : Nat) (h1 : 1 ≤ l) (h : l ≤ n) :
    ∃ r, zeroPadRow n l = some r ∧ r.getD (n / 2) false = true :=
  ⟨_, kt_acs_eq_center n l h, acs_contains_centre n l h1 h⟩

theorem kt_acs_balanced (n l : Nat) (h : l ≤ n) :
    ∃ r, zeroPadRow n l = some r ∧ leftCount r ≤ rightCount r + 1 ∧ rightCount r ≤ leftCount r + 1 :=
  ⟨_, kt_acs_eq_center n l h, acs_balanced n l h⟩

/-- a block wider than the axis is rejected (numpy cannot broadcast it into the slice) -/
theorem kt_acs_too_wide (n l : Nat) (h : n < l) : zeroPadRow n l = none := by
  unfold zeroPadRow zeroPadRowWith
  have : ¬ l = n := by omega
  simp [this, h]

/-- pinned tree (`(target - current) // 2`): N = 14, L = 3 → columns 5..7, centre column 7: two ACS
columns left of the centre, none right of it -/
theorem kt_acs_balance_pinned_violates :
    ∃ r, zeroPadRowWith zeroPadStartPinned 14 3 = some r ∧ ¬ (leftCount r ≤ rightCount r + 1) := by
  decide

/-- pinned tree: N = 16, L = 1 → column 7, the centre column 8 is not in the ACS -/
theorem kt_acs_centre_pinned_violates :
    ∃ r, zeroPadRowWith zeroPadStartPinned 16 1 = some r ∧ r.getD (16 / 2) false = false := by
  decide

/-! ## `num_low_freqs` glue -/

/-- Magic generators: the ACS width is capped by the sampling budget and is at least one column -/
theorem magic_cap (l target : Int) :
    1 ≤ magicCap l target ∧ (1 ≤ target → magicCap l target ≤ target) ∧
    (1 ≤ l → l ≤ target → magicCap l target = l) ∧ (1 ≤ target → target ≤ l → magicCap l target = target) := by
  unfold magicCap pyMax pyMin
  refine ⟨?_, ?_, ?_, ?_⟩ <;> (repeat' split) <;> omega

/-- the Magic interior is drawn only when the capped ACS leaves budget: otherwise `adjusted = 0` and
`rng.randint(0, high=0)` raises (`ValueError: high <= 0`) -/
theorem magic_adjusted_zero_iff (n : Nat) (target l : Int) (ht : target - l ≤ (n : Int)) :
    magicAdjusted n target l = 0 ↔ target - l ≤ 0 := by
  unfold magicAdjusted
  constructor
  · intro h
    by_cases hp : target - l > 0
    · rw [if_pos hp] at h
      exact absurd h (roundDiv_pos n (target - l).toNat (by omega) (by omega))
    · omega
  · intro h
    have : ¬ (target - l > 0) := by omega
    rw [if_neg this]

/-- Random / Equispaced glue -/
theorem num_low_freqs_cases (r c : Int) : numLowFreqs true r c = r ∧ numLowFreqs false r c = c := by
  simp [numLowFreqs]

/-! ## discs -/

/-- `centered_disk_mask` at cell `(x, y)` -/
theorem disc_cell (rows cols : Nat) (radius : Int) (x y : Nat) (hy : y < cols) (hx : x < rows) :
    (centeredDisk rows cols radius).getD (x * cols + y) false = inDisk rows cols radius x y :=
  getD_centeredDisk rows cols radius x y hx hy

/-- **point symmetry about the centre sample** `(rows / 2, cols / 2)`: a cell and its mirror image
(when both are on the grid) are in the disc together — every parity of `rows`, `cols`. -/
theorem disc_symmetric (rows cols : Nat) (radius : Int) (x y x' y' : Nat)
    (hx : x + x' = 2 * (rows / 2)) (hy : y + y' = 2 * (cols / 2)) :
    inDisk rows cols radius x y = inDisk rows cols radius x' y' := by
  unfold inDisk
  have ex : ((x : Int) - ((rows / 2 : Nat) : Int)) = -(((x' : Int) - ((rows / 2 : Nat) : Int))) := by omega
  have ey : ((y : Int) - ((cols / 2 : Nat) : Int)) = -(((y' : Int) - ((cols / 2 : Nat) : Int))) := by omega
  rw [ex, ey, sq_neg, sq_neg]

/-- the mirror image of a disc cell lies on the grid whenever the disc does not reach row 0 / column 0
(`radius ≤ rows / 2`, `radius ≤ cols / 2`) — for even sizes row 0 and column 0 have no mirror image,
for odd sizes every cell has one. -/
theorem disc_mirror_on_grid (rows cols : Nat) (radius : Int) (x y : Nat) (hx : x < rows) (hy : y < cols)
    (hr : radius ≤ (rows / 2 : Nat)) (hc : radius ≤ (cols / 2 : Nat)) (h0 : 0 ≤ radius)
    (hin : inDisk rows cols radius x y = true) :
    2 * (rows / 2) - x < rows ∧ 2 * (cols / 2) - y < cols ∧ x ≤ 2 * (rows / 2) ∧ y ≤ 2 * (cols / 2) :=
  disc_mirror_bounds rows cols radius x y hx hy hr hc h0 hin

/-- the centre sample is in the disc as soon as the radius is at least one -/
theorem disc_contains_centre (rows cols : Nat) (radius : Int) (h : 1 ≤ radius) :
    inDisk rows cols radius (rows / 2) (cols / 2) = true := by
  unfold inDisk MaskGeom.sq
  simp only [Int.sub_self, Int.mul_zero, Int.add_zero, decide_eq_true_eq]
  exact Int.mul_pos (by omega) (by omega)

/-- radius zero (centre fraction below `π / (rows · cols)`): the disc is empty -/
theorem disc_empty_of_radius_zero (rows cols : Nat) (x y : Nat) : inDisk rows cols 0 x y = false := by
  unfold inDisk
  have h1 := MaskGeom.sq_nonneg ((x : Int) - ((rows / 2 : Nat) : Int))
  have h2 := MaskGeom.sq_nonneg ((y : Int) - ((cols / 2 : Nat) : Int))
  have h3 : MaskGeom.sq 0 = 0 := rfl
  simp only [h3, decide_eq_false_iff_not, Int.not_lt]
  omega

/-- CIRCUS without centre fraction: what the disc search returns is `disc ∩ mask` for one of the
radii, hence a subset of the mask -/
theorem circus_disc_subset (rows cols : Nat) (mask : List Bool) (thr : List Int) (r : List Bool)
    (h : circusDisc rows cols mask thr = some r) :
    (∃ t ∈ thr, r = andL (diskLe rows cols t) mask) ∧ ∀ i, r.getD i false = true → mask.getD i false = true :=
  circusDisc_spec rows cols mask thr r h

/-- the search returns iff some radius has more than 10 % of its disc unsampled; on a fully sampled
grid it never returns (for any number of radii) -/
theorem circus_disc_none_iff (rows cols : Nat) (mask : List Bool) (thr : List Int) :
    circusDisc rows cols mask thr = none ↔
      ∀ t ∈ thr, ¬ (10 * (diskLe rows cols t).count true > 11 * (andL (diskLe rows cols t) mask).count true) :=
  circusDisc_none_iff rows cols mask thr

theorem circus_disc_full_never_returns (rows cols : Nat) (thr : List Int) :
    circusDisc rows cols (List.replicate (rows * cols) true) thr = none :=
  circusDisc_full rows cols thr

/-! ## ACS ⊆ mask, for every generator, mode, shape, interior (draw) -/

/-- The ACS mask returned with `return_acs = True` is a subset of the sampling mask produced with the
same arguments (same interior = same seed), element by element, for each of the 14 generators. -/
theorem acs_subset_mask (g : Gen) (m : Mode) (shape : List Nat) (spec : AcsSpec) (interior : List (List Bool))
    (hlen : ∀ p ∈ interior, p.length = patLen g.family (rowsOf shape) (colsOf shape))
    (ta tm : Tensor Bool) (ha : assemble g m shape spec true interior = .ok ta)
    (hm : assemble g m shape spec false interior = .ok tm) :
    ta.shape = tm.shape ∧ ∀ i : Nat, ta.data[i]? = some true → tm.data[i]? = some true :=
  assemble_acs_subset g m shape spec interior hlen ta tm ha hm

/-! ## one object, many requests: seeds, pair choice, call histories (`Model/C06Seed.lean`)

`call` is the machine selected by the translated facts (`Bridge.C06.code_machine`): `temp_seed` hands the seed to
`rng.seed` unchanged, nothing but the (restored) random stream is written.  All statements hold for every random
stream (`RngOps`), every configuration (any number of pairs), every history, every seed — falsy ones included. -/

section histories
variable {σ Seed : Type}

/-- a request leaves the object exactly as it found it -/
theorem call_leaves_object (ops : RngOps σ Seed) (cfg : Cfg σ) (o : Obj σ) (c : Call Seed) :
    (call ops cfg o c).2 = o := by rw [call_eq]

/-- **history independence**: whatever the object (and whichever object) has served before, a request gets the
answer a brand-new object gives — a function of (shape, seed, return_acs) alone -/
theorem answer_history_independent (ops : RngOps σ Seed) (cfg : Cfg σ) (o o' : Obj σ) (h h' : List (Call Seed))
    (c : Call Seed) :
    lastAnswer .unchanged .none ops cfg o (h ++ [c]) = lastAnswer .unchanged .none ops cfg o' (h' ++ [c]) := by
  rw [lastAnswer_append, lastAnswer_append]

/-- every answer of a history, at once -/
theorem history_answers (ops : RngOps σ Seed) (cfg : Cfg σ) (o : Obj σ) (cs : List (Call Seed)) :
    (run ops cfg o cs).1 = cs.map (oneShot ops cfg) := by rw [run_eq]

/-- the ACS request and the mask request with the same arguments select the same (centre fraction, acceleration)
pair — the index is the first draw of the stream seeded with the caller's seed, in both -/
theorem same_pair_selected (ops : RngOps σ Seed) (cfg : Cfg σ) (shape : List Nat) (s : Seed) :
    oneShot ops cfg ⟨shape, s, true⟩ =
        assemble cfg.gen cfg.mode shape (cfg.spec (ops.choice (ops.seed s) cfg.npairs) shape) true (cfg.interior (ops.seed s) shape) ∧
    oneShot ops cfg ⟨shape, s, false⟩ =
        assemble cfg.gen cfg.mode shape (cfg.spec (ops.choice (ops.seed s) cfg.npairs) shape) false (cfg.interior (ops.seed s) shape) :=
  ⟨rfl, rfl⟩

/-- **ACS ⊆ mask across histories**: the ACS an object returns for `(shape, seed)` after any history is a subset of
the sampling mask any object of the same configuration returns for `(shape, seed)` after any other history. -/
theorem acs_subset_mask_any_history (ops : RngOps σ Seed) (cfg : Cfg σ) (o₁ o₂ : Obj σ) (h₁ h₂ : List (Call Seed))
    (shape : List Nat) (s : Seed)
    (hlen : ∀ p ∈ cfg.interior (ops.seed s) shape, p.length = patLen cfg.gen.family (rowsOf shape) (colsOf shape))
    (ta tm : Tensor Bool)
    (ha : lastAnswer .unchanged .none ops cfg o₁ (h₁ ++ [⟨shape, s, true⟩]) = some (.ok ta))
    (hm : lastAnswer .unchanged .none ops cfg o₂ (h₂ ++ [⟨shape, s, false⟩]) = some (.ok tm)) :
    ta.shape = tm.shape ∧ ∀ i : Nat, ta.data[i]? = some true → tm.data[i]? = some true := by
  rw [lastAnswer_append] at ha hm
  simp only [Option.some.injEq] at ha hm
  exact assemble_acs_subset cfg.gen cfg.mode shape _ _ hlen ta tm ha hm

/-- the width of the ACS of a line generator is the width configured for the selected pair, after any history -/
theorem acs_width_any_history (ops : RngOps σ Seed) (cfg : Cfg σ) (o : Obj σ) (h : List (Call Seed))
    (shape : List Nat) (s : Seed) (l : Int)
    (hspec : cfg.spec (ops.choice (ops.seed s) cfg.npairs) shape = .lines l) :
    lastAnswer .unchanged .none ops cfg o (h ++ [⟨shape, s, true⟩]) =
      some (assemble cfg.gen cfg.mode shape (.lines l) true (cfg.interior (ops.seed s) shape)) := by
  rw [lastAnswer_append, (same_pair_selected ops cfg shape s).1, hspec]

end histories

/-! ## from the configured pair to the ACS width -/

/-- the constructor guards decide which branch of the glue runs: an accepted FastMRI* centre fraction is multiplied
with the width and rounded, an accepted Cartesian* value is the number of lines itself -/
theorem ctor_selects_branch (cols : Nat) (p : PairCfg) (isInt : Bool) :
    (∀ g, (g = .fastmriRandom ∨ g = .fastmriEquispaced) → ctorAccepts g p isInt = true →
      numLow g cols p = C06Round.roundMul cols p.cfNum p.cfDen) ∧
    (∀ g, (g = .cartesianRandom ∨ g = .cartesianEquispaced) → ctorAccepts g p isInt = true →
      numLow g cols p = C06Round.truncQ p.cfNum p.cfDen) := by
  constructor
  · rintro g (rfl | rfl) h <;>
    · simp only [ctorAccepts, C06Round.fractionAccepted, Int.one_mul, Int.ofNat_lt, Bool.and_eq_true, decide_eq_true_eq] at h
      simp [numLow, numLowFreqs, h.2]
  · rintro g (rfl | rfl) h <;>
    · simp only [ctorAccepts, C06Round.countAccepted, Int.one_mul, Int.ofNat_lt, Bool.and_eq_true, decide_eq_true_eq] at h
      have : ¬ p.cfNum < p.cfDen := by omega
      simp [numLow, numLowFreqs, this]

/-- Magic generators: the width is the raw width capped by the budget `round(cols / acceleration)`, at least 1 -/
theorem magic_width_bounds (g : Gen) (hg : g = .fastmriMagic ∨ g = .cartesianMagic) (cols : Nat) (p : PairCfg) :
    1 ≤ numLow g cols p ∧
    (1 ≤ C06Round.roundQuot cols p.accNum p.accDen → numLow g cols p ≤ C06Round.roundQuot cols p.accNum p.accDen) := by
  rcases hg with rfl | rfl <;>
  · simp only [numLow]
    exact ⟨(magic_cap _ _).1, fun h => (magic_cap _ _).2.1 (by exact_mod_cast h)⟩

/-- **"fraction times width, rounded"**, float arithmetic included: `int(round(cols * cf))` is within
`1/2 + cols·cf·2^-53` of the exact product `cols · cf` (`cf = cfNum / cfDen` the exact value of the double; both
sides multiplied by `2 · 2^53 · cfDen`) -/
theorem fraction_width_close (cols cfNum cfDen : Nat) (h0 : cols * cfNum ≠ 0) (hd : cfDen ≠ 0) :
    2 * 2 ^ 53 * (C06Round.roundMul cols cfNum cfDen * cfDen) ≤ 2 * 2 ^ 53 * (cols * cfNum) + 2 ^ 53 * cfDen + 2 * (cols * cfNum) ∧
    2 * 2 ^ 53 * (cols * cfNum) ≤ 2 * 2 ^ 53 * (C06Round.roundMul cols cfNum cfDen * cfDen) + 2 ^ 53 * cfDen + 2 * (cols * cfNum) :=
  C06Round.roundFl_close (cols * cfNum) cfDen h0 hd

/-- the sampling budget of the Magic generators, `int(round(cols / acceleration))`, likewise -/
theorem budget_close (cols accNum accDen : Nat) (h0 : cols * accDen ≠ 0) (hd : accNum ≠ 0) :
    2 * 2 ^ 53 * (C06Round.roundQuot cols accNum accDen * accNum) ≤ 2 * 2 ^ 53 * (cols * accDen) + 2 ^ 53 * accNum + 2 * (cols * accDen) ∧
    2 * 2 ^ 53 * (cols * accDen) ≤ 2 * 2 ^ 53 * (C06Round.roundQuot cols accNum accDen * accNum) + 2 ^ 53 * accNum + 2 * (cols * accDen) :=
  C06Round.roundFl_close (cols * accDen) accNum h0 hd

/-- Python's `round` is a nearest integer and takes the even neighbour on a tie -/
theorem round_nearest_ties_even (num den q : Nat) (hd : 0 < den) :
    (2 * (C06Round.roundHalfEven num den * den) ≤ 2 * num + den ∧ 2 * num ≤ 2 * (C06Round.roundHalfEven num den * den) + den) ∧
    (den % 2 = 0 → C06Round.roundHalfEven (q * den + den / 2) den = if q % 2 = 0 then q else q + 1) :=
  ⟨C06Round.roundHalfEven_nearest num den hd, C06Round.roundHalfEven_tie q den hd⟩

/-- the whole chain for the FastMRI Random / Equispaced generators: an accepted centre fraction gives a centred block of
exactly `int(round(cols * cf))` columns -/
theorem fastmri_acs_count (g : Gen) (hg : g = .fastmriRandom ∨ g = .fastmriEquispaced) (cols : Nat) (p : PairCfg) (isInt : Bool)
    (hacc : ctorAccepts g p isInt = true) (hle : C06Round.roundMul cols p.cfNum p.cfDen ≤ cols) :
    (centerMask cols (numLow g cols p)).count true = C06Round.roundMul cols p.cfNum p.cfDen ∧
    (1 ≤ C06Round.roundMul cols p.cfNum p.cfDen → (centerMask cols (numLow g cols p)).getD (cols / 2) false = true) := by
  rw [(ctor_selects_branch cols p isInt).1 g hg hacc]
  exact ⟨acs_count cols _ hle, fun h1 => acs_contains_centre cols _ h1 hle⟩

/-- the Cartesian generators: an accepted line count is the width itself -/
theorem cartesian_acs_count (g : Gen) (hg : g = .cartesianRandom ∨ g = .cartesianEquispaced) (cols : Nat) (p : PairCfg) (isInt : Bool)
    (hacc : ctorAccepts g p isInt = true) (hle : C06Round.truncQ p.cfNum p.cfDen ≤ cols) :
    (centerMask cols (numLow g cols p)).count true = C06Round.truncQ p.cfNum p.cfDen := by
  rw [(ctor_selects_branch cols p isInt).2 g hg hacc]
  exact acs_count cols _ hle

/-- 8 · 0.3125 = 2.5 → 2 and 24 · 0.0625 = 1.5 → 2 (ties to even); 25 · 0.08 (a non-representable fraction) → 2;
round(10 / 4) = 2, round(30 / 4) = 8 -/
example : C06Round.roundMul 8 5 16 = 2 ∧ C06Round.roundMul 24 1 16 = 2 ∧
    C06Round.roundMul 25 5764607523034235 72057594037927936 = 2 ∧ C06Round.roundQuot 10 4 1 = 2 ∧ C06Round.roundQuot 30 4 1 = 8 := by
  decide
example : ctorAccepts .fastmriRandom { cfNum := 1, cfDen := 8, accNum := 4, accDen := 1, radii := [] } false = true ∧
    ctorAccepts .cartesianRandom { cfNum := 1, cfDen := 8, accNum := 4, accDen := 1, radii := [] } true = false ∧
    ctorAccepts .cartesianRandom { cfNum := 4, cfDen := 1, accNum := 4, accDen := 1, radii := [] } false = false := by decide

/-- a two-pair configuration on a 1 × 4 grid (ACS widths 3 and 1) and a stream given by tables -/
def demoCfg : Cfg Nat where
  gen := .cartesianRandom
  mode := .static
  npairs := 2
  spec k _ := .lines (if k = 0 then 3 else 1)
  interior _ _ := [[false, false, false, false]]

/-- **why the seed must go through unchanged** (`rng.seed(seed or None)`): seed `0` is falsy, the ACS request and the
mask request read OS entropy independently (choices 0 and 1): ACS columns 1..3, mask column 2 only -/
theorem seed_or_none_violates :
    ((runWith .orNone .none (tableOps [0] [0, 1] [true]) demoCfg newObj [⟨[1, 4, 2], 0, true⟩, ⟨[1, 4, 2], 0, false⟩]).1.map
        fun r => r.toOption.map (·.data)) =
      [some [false, true, true, true], some [false, false, true, false]] := by decide

/-- the same two requests on the code as it is: the mask contains the ACS -/
example :
    ((run (tableOps [0] [0, 1] [true]) demoCfg newObj [⟨[1, 4, 2], 0, true⟩, ⟨[1, 4, 2], 0, false⟩]).1.map
        fun r => r.toOption.map (·.data)) =
      [some [false, true, true, true], some [false, true, true, true]] := by decide

/-- **why nothing may be remembered** (an ACS memo keyed by the shape): seeds 0 and 1 select the pairs with widths 3
and 1; the second ACS request on the same object gets the first block (3 columns instead of 1) -/
theorem shape_memo_violates :
    ((runWith .unchanged .byShape (tableOps [0, 1] [] []) demoCfg newObj [⟨[1, 4, 2], 0, true⟩, ⟨[1, 4, 2], 1, true⟩]).1.map
        fun r => r.toOption.map (·.data)) =
      [some [false, true, true, true], some [false, true, true, true]] ∧
    (oneShot (tableOps [0, 1] [] []) demoCfg ⟨[1, 4, 2], 1, true⟩).toOption.map (·.data) = some [false, false, true, false] ∧
    (oneShot (tableOps [0, 1] [] []) demoCfg ⟨[1, 4, 2], 1, false⟩).toOption.map (·.data) = some [false, false, true, false] := by
  decide

/-- the hypotheses of `acs_subset_mask_any_history` are satisfiable: both requests return, after different histories -/
example :
    (lastAnswer .unchanged .none (tableOps [0, 1] [] []) demoCfg newObj ([⟨[1, 4, 2], 1, true⟩] ++ [⟨[1, 4, 2], 0, true⟩])).map
        (·.toOption.isSome) = some true ∧
    (lastAnswer .unchanged .none (tableOps [0, 1] [] []) demoCfg newObj ([] ++ [⟨[1, 4, 2], 0, false⟩])).map
        (·.toOption.isSome) = some true := by decide

/-! ## VariableDensityPoisson with `crop_corner=True` (`Model/C06Crop.lean`)

`acs_subset_mask` above is about `assemble`, which has no crop.  With `crop_corner=True` the code now crops the
rasterised pattern and THEN ORs the disc (repaired order); the pinned tree cropped after OR-ing the disc. -/

open DirectVerif.C06Crop in
/-- **ACS ⊆ mask with and without `crop_corner`**, every shape, radius, raster: each cell of the disc returned by
`return_acs=True` is sampled in the frame the mask request builds -/
theorem poisson_crop_acs_subset (crop : Bool) (rows cols : Nat) (radius : Int) (raster : List Bool)
    (hl : raster.length = rows * cols) (k : Nat) (hd : (centeredDisk rows cols radius).getD k false = true) :
    (poissonFrame crop rows cols radius raster).getD k false = true :=
  poissonFrame_disc_cell crop rows cols radius raster hl k hd

open DirectVerif.C06Crop in
/-- the pinned order: a disc cell was in the mask iff no crop was requested or the cell lies inside the ellipse -/
theorem poisson_crop_pinned_acs_cell (crop : Bool) (rows cols : Nat) (radius : Int) (raster : List Bool)
    (hl : raster.length = rows * cols) (k : Nat) (hd : (centeredDisk rows cols radius).getD k false = true) :
    (poissonFramePinned crop rows cols radius raster).getD k false = (!crop || (ellipse rows cols).getD k false) :=
  poissonFramePinned_disc_cell crop rows cols radius raster hl k hd

open DirectVerif.C06Crop in
/-- **pinned tree**: rows = 24, cols = 8, centre fraction 0.5 (radius 5 > cols / 2): the disc cell (12, 0) = flat
index 96 is returned by `return_acs=True` but was cropped out of the mask, whatever was rasterised -/
theorem poisson_crop_corner_pinned_violates :
    (centeredDisk 24 8 5).getD 96 false = true ∧
    (poissonFramePinned true 24 8 5 (List.replicate (24 * 8) true)).getD 96 false = false ∧
    subsetB (centeredDisk 24 8 5) (poissonFramePinned true 24 8 5 (List.replicate (24 * 8) true)) = false := by decide +kernel

open DirectVerif.C06Crop in
/-- hypotheses satisfiable; the same configuration on the current order -/
example : (centeredDisk 24 8 5).getD 96 false = true ∧
    subsetB (centeredDisk 24 8 5) (poissonFrame true 24 8 5 (List.replicate (24 * 8) false)) = true := by decide +kernel

/-! ## index arithmetic of the disc helpers (`Model/C06Grid.lean`) -/

/-- **why the grids must be wide**: in `uint16` the squared distance of the corner (0, 0) of a 512 × 512 k-space from
the centre, 2 · 256² = 131072, wraps to 0 — the corner is "inside" every disc of radius ≥ 1, while in ℤ it is outside
a disc of radius 100 -/
theorem disc_uint16_wraps_violates :
    C06Grid.inDiskWrapped 16 512 512 100 0 0 = true ∧ inDisk 512 512 100 0 0 = false ∧
    C06Grid.inDiskWrapped 16 368 368 58 1 0 = true ∧ inDisk 368 368 58 1 0 = false := by decide

/-- in a 64-bit type nothing wraps for these sizes: the wrapped predicate is the exact one -/
example : C06Grid.inDiskWrapped 64 512 512 100 0 0 = inDisk 512 512 100 0 0 ∧
    C06Grid.inDiskWrapped 64 368 368 58 184 184 = true := by decide

/-! ## non-vacuity / regression examples -/

example : centerMask 14 3 = [false, false, false, false, false, false, true, true, true, false, false, false, false, false] := by
  decide
example : (centerMask 16 1).getD 8 false = true := by decide
example : zeroPadRow 14 3 = some (centerMask 14 3) := by decide
example : leftCount (centerMask 14 3) = 1 ∧ rightCount (centerMask 14 3) = 1 := by decide
example : leftCount (centerMask 15 4) = 1 ∧ rightCount (centerMask 15 4) = 2 := by decide
example : magicCap 5 3 = 3 ∧ magicCap 0 3 = 1 ∧ magicCap 2 3 = 2 := by decide
example : inDisk 8 8 2 4 4 = true ∧ inDisk 8 8 2 3 4 = true ∧ inDisk 8 8 2 5 4 = true ∧ inDisk 8 8 2 2 4 = false := by decide
/-- the hypotheses of `acs_subset_mask` are satisfiable (both branches return) -/
example : (assemble .ktUniform .dynamic [2, 2, 4, 1] (.lines 2) true [[true, false, false, false], [false, false, false, true]]).toOption.isSome = true
    ∧ (assemble .ktUniform .dynamic [2, 2, 4, 1] (.lines 2) false [[true, false, false, false], [false, false, false, true]]).toOption.isSome = true := by
  decide
example : (assemble .radial .static [3, 3, 2] (.search [1, 2]) true [[true, true, false, true, true, true, false, true, false]]).toOption.map (·.data)
    = some [true, true, false, true, true, true, false, true, false] := by decide
example : (assemble .fastmriRandom .dynamic [2, 2, 4, 1] (.lines 2) true [[false, false, false, false], [true, false, false, false]]).toOption.map (·.shape)
    = some [1, 2, 2, 4, 1] := by decide

end DirectVerif.C06
