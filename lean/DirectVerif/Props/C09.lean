import DirectVerif.Lemmas.C09
/-!
# C09 — estimated and refined sensitivity maps are normalised and finite

Property theorems only, about the definitions of `Model/Sens.lean` that the driver executes (there
with exact rationals, here with `ℝ`, `Real.sqrt` and field division: `realNum`).

`S : SMap ℝ` is indexed `[coil][pixel]`, any number of coils (0, 1, many), any number of pixels
(2-D, 3-D: the spatial axes are flattened), ragged lists allowed.  `fibre S p` is the list of the
coil values at pixel `p`, `sumSqAt S p = Σ_coils |S_i p|²`.

Finiteness is stated as independence of the value of a division by zero: the results are the
same for *every* `div` that agrees with the given one on non-zero divisors (`*_indep_div_zero`),
so no NaN/Inf produced by `x / 0` can reach a sensitivity map.  Float32 rounding and overflow of
the squared sum are outside these theorems (oracle-checked on the implementation in 2^±60).
-/
namespace DirectVerif.C09
open DirectVerif DirectVerif.Sens

/-- the norm the code divides by vanishes exactly when all coils vanish at the pixel -/
theorem normAt_eq_zero_iff (S : SMap ℝ) (p : Nat) :
    normAt realNum S p = 0 ↔ ∀ c ∈ fibre S p, c = (0, 0) := by
  unfold normAt sumSqAt realNum
  simp only
  rw [Real.sqrt_eq_zero (sumsq_nonneg _)]
  exact sumsq_eq_zero _

/-- **Core**: after the renormalisation step the sum over coils of `|S|²` is exactly `1` at every
pixel where some coil is non-zero and `0` where all coils vanish. -/
theorem sumSqAt_renorm (S : SMap ℝ) (p : Nat) :
    sumSqAt (renorm realNum S) p = if sumSqAt S p = 0 then 0 else 1 := by
  have hfib : fibre (renorm realNum S) p = _ := fibre_divMapWith (safeDivide realNum) S (normAt realNum S) p
  have hs0 := sumsq_nonneg (fibre S p)
  unfold sumSqAt
  rw [hfib]
  by_cases hs : ((fibre S p).map Sens.sq).sum = 0
  · have hn : normAt realNum S p = 0 := by
      unfold normAt sumSqAt; rw [hs, realNum_sqrt]; exact Real.sqrt_zero
    have hf : (fun c : ℝ × ℝ => (safeDivide realNum c.1 (normAt realNum S p), safeDivide realNum c.2 (normAt realNum S p)))
        = fun _ => ((0 : ℝ), (0 : ℝ)) := by
      funext c; rw [safeDivide_real_zero _ _ hn, safeDivide_real_zero _ _ hn]
    rw [hf, if_pos hs]
    exact sumsq_zero_map _
  · have hn : normAt realNum S p ≠ 0 := by
      unfold normAt sumSqAt; rw [realNum_sqrt, Ne, Real.sqrt_eq_zero hs0]; exact hs
    have hnn : normAt realNum S p * normAt realNum S p = ((fibre S p).map Sens.sq).sum := by
      unfold normAt sumSqAt; rw [realNum_sqrt]
      exact Real.mul_self_sqrt hs0
    have hf : (fun c : ℝ × ℝ => (safeDivide realNum c.1 (normAt realNum S p), safeDivide realNum c.2 (normAt realNum S p)))
        = fun c => (c.1 / normAt realNum S p, c.2 / normAt realNum S p) := by
      funext c; rw [safeDivide_real_ne _ _ hn, safeDivide_real_ne _ _ hn]
    rw [hf, if_neg hs, sumsq_div _ _ hn, hnn]
    exact div_self hs

/-- **`renorm_unit_or_zero`**: for any coil count and any pixel, `Σ_i |S_i p|² = 1` or all coils are
exactly `0` at `p`. -/
theorem renorm_unit_or_zero (S : SMap ℝ) (p : Nat) :
    sumSqAt (renorm realNum S) p = 1 ∨ ∀ c ∈ fibre (renorm realNum S) p, c = (0, 0) := by
  rw [sumSqAt_renorm]
  by_cases hs : sumSqAt S p = 0
  · right
    have h0 : sumSqAt (renorm realNum S) p = 0 := by rw [sumSqAt_renorm, if_pos hs]
    exact (sumsq_eq_zero _).mp h0
  · left; rw [if_neg hs]

/-- … and the zero case happens exactly when all coils of the input vanish at `p` (no signal). -/
theorem renorm_zero_iff (S : SMap ℝ) (p : Nat) :
    (∀ c ∈ fibre (renorm realNum S) p, c = (0, 0)) ↔ (∀ c ∈ fibre S p, c = (0, 0)) := by
  rw [← sumsq_eq_zero, ← sumsq_eq_zero]
  have h := sumSqAt_renorm S p
  unfold sumSqAt at h
  rw [h]
  by_cases hs : ((fibre S p).map sq).sum = 0 <;> simp [hs]

theorem renorm_unit (S : SMap ℝ) (p : Nat) (h : ∃ c ∈ fibre S p, c ≠ (0, 0)) :
    sumSqAt (renorm realNum S) p = 1 := by
  rw [sumSqAt_renorm, if_neg]
  intro hs
  obtain ⟨c, hc, hne⟩ := h
  exact hne ((sumsq_eq_zero _).mp hs c hc)

/-- **Idempotence** of the renormalisation (as a whole tensor, not only per pixel). -/
theorem renorm_idempotent (S : SMap ℝ) : renorm realNum (renorm realNum S) = renorm realNum S := by
  have key : ∀ p (x : ℝ),
      safeDivide realNum (safeDivide realNum x (normAt realNum S p)) (normAt realNum (renorm realNum S) p)
        = safeDivide realNum x (normAt realNum S p) := by
    intro p x
    by_cases hn : normAt realNum S p = 0
    · rw [safeDivide_real_zero x _ hn]
      by_cases h2 : normAt realNum (renorm realNum S) p = 0
      · exact safeDivide_real_zero _ _ h2
      · rw [safeDivide_real_ne _ _ h2]; simp
    · have hs : sumSqAt S p ≠ 0 := by
        intro hs; apply hn; unfold normAt; rw [hs, realNum_sqrt]; exact Real.sqrt_zero
      have h1 : normAt realNum (renorm realNum S) p = 1 := by
        unfold normAt; rw [sumSqAt_renorm, if_neg hs, realNum_sqrt]; exact Real.sqrt_one
      rw [h1, safeDivide_real_ne _ 1 one_ne_zero, div_one]
  calc renorm realNum (renorm realNum S)
      = divMapWith (safeDivide realNum) (divMapWith (safeDivide realNum) S (normAt realNum S))
          (normAt realNum (renorm realNum S)) := rfl
    _ = S.map (fun coil => coil.mapIdx fun p c =>
          (safeDivide realNum (safeDivide realNum c.1 (normAt realNum S p)) (normAt realNum (renorm realNum S) p),
           safeDivide realNum (safeDivide realNum c.2 (normAt realNum S p)) (normAt realNum (renorm realNum S) p))) :=
        divMapWith_divMapWith _ _ _ _
    _ = divMapWith (safeDivide realNum) S (normAt realNum S) := by
        unfold divMapWith
        apply List.map_congr_left
        intro coil _
        congr 1
        funext p c
        rw [key p c.1, key p c.2]
    _ = renorm realNum S := rfl

/-- the RSS estimate is the renormalised ACS image (the second normalisation changes nothing) -/
theorem estimate_eq_renorm (a : SMap ℝ) : estimateRSS realNum a = renorm realNum a := by
  unfold estimateRSS
  rw [show rssNormalise realNum a = renorm realNum a from rfl]
  exact renorm_idempotent a

/-- **`estimate_normalised`**: the RSS-estimated map is unit-or-zero at every pixel, zero exactly
where the ACS image has no signal in any coil. -/
theorem estimate_normalised (a : SMap ℝ) (p : Nat) :
    (sumSqAt (estimateRSS realNum a) p = 1 ∨ ∀ c ∈ fibre (estimateRSS realNum a) p, c = (0, 0)) ∧
    ((∀ c ∈ fibre (estimateRSS realNum a) p, c = (0, 0)) ↔ (∀ c ∈ fibre a p, c = (0, 0))) := by
  rw [estimate_eq_renorm]
  exact ⟨renorm_unit_or_zero a p, renorm_zero_iff a p⟩

/-- **`single_coil`**: with one coil every pixel has modulus `1` or is exactly `0`. -/
theorem single_coil (coil : List (ℝ × ℝ)) (p : Nat) :
    ∀ c ∈ fibre (estimateRSS realNum [coil]) p, Sens.sq c = 1 ∨ c = (0, 0) := by
  intro c hc
  rw [estimate_eq_renorm] at hc
  have hf : fibre (renorm realNum [coil]) p = [c] := by
    have : (fibre (renorm realNum [coil]) p).length ≤ 1 := by
      unfold fibre renorm divMap divMapWith
      exact le_trans (List.length_filterMap_le _ _) (by simp)
    match hfl : fibre (renorm realNum [coil]) p, this, hc with
    | [d], _, hc => simp at hc; rw [hc]
  rcases renorm_unit_or_zero [coil] p with h | h
  · left; unfold sumSqAt at h; rw [hf] at h; simpa using h
  · right; exact h c hc

/-- **`empty_acs_all_zero`**: an all-zero ACS image (empty ACS mask, zero coils) gives an all-zero
map — every division is guarded. -/
theorem empty_acs_all_zero (a : SMap ℝ) (h : ∀ coil ∈ a, ∀ c ∈ coil, c = (0, 0)) :
    estimateRSS realNum a = a := by
  rw [estimate_eq_renorm]
  unfold renorm divMap divMapWith
  conv_rhs => rw [← List.map_id a]
  apply List.map_congr_left
  intro coil hcoil
  apply List.ext_getElem?
  intro p
  simp only [List.getElem?_mapIdx, id]
  cases hp : coil[p]? with
  | none => rfl
  | some c =>
    have hc : c = (0, 0) := h coil hcoil c (List.mem_of_getElem? hp)
    have hn : normAt realNum a p = 0 := by
      rw [normAt_eq_zero_iff]
      intro d hd
      obtain ⟨coil', hc', hd'⟩ := List.mem_filterMap.mp hd
      exact h coil' hc' d (List.mem_of_getElem? hd')
    subst hc
    simp only [Option.map_some, safeDivide_real_zero _ _ hn]

/-- **`refined_normalised`**: whatever the refinement network returns (`refine` arbitrary), the
engine's sensitivity map is unit-or-zero at every pixel. -/
theorem refined_normalised (hasModel : Bool) (refine : SMap ℝ → SMap ℝ) (S : SMap ℝ) (p : Nat) :
    sumSqAt (computeSensitivityMap realNum hasModel refine S) p = 1 ∨
    ∀ c ∈ fibre (computeSensitivityMap realNum hasModel refine S) p, c = (0, 0) := by
  unfold computeSensitivityMap
  exact renorm_unit_or_zero _ p

/-- the unit map after renormalisation: `c` coils of modulus `1/√c` -/
theorem unit_map_normalised (coils pixels : Nat) (hc : 0 < coils) (p : Nat) (hp : p < pixels) :
    sumSqAt (estimateUnit realNum coils pixels) p = 1 := by
  unfold estimateUnit
  apply renorm_unit
  refine ⟨(1, 0), ?_, by simp⟩
  unfold fibre unitMap
  rw [List.mem_filterMap]
  exact ⟨List.replicate pixels (1, 0), by simp [List.mem_replicate]; omega, by simp [hp]⟩

/-! ## finiteness: no result depends on the value of a division by zero -/

section indep
variable {α : Type} [Zero α] [DecidableEq α]

theorem safeDivide_zero (num : Num α) (a : α) : safeDivide num a 0 = 0 := by simp [safeDivide]

/-- **`safe_divide_finite`**: `safe_divide` only ever uses quotients with a non-zero divisor. -/
theorem safe_divide_indep_div_zero (num num' : Num α) (hd : ∀ a b, b ≠ 0 → num.div a b = num'.div a b)
    (a b : α) : safeDivide num a b = safeDivide num' a b := by
  unfold safeDivide
  by_cases hb : b = 0
  · simp [hb]
  · simp [hb, hd a b hb]

variable [Add α] [Mul α]

theorem renorm_indep_div_zero (num num' : Num α) (hs : num.sqrt = num'.sqrt)
    (hd : ∀ a b, b ≠ 0 → num.div a b = num'.div a b) (S : SMap α) : renorm num S = renorm num' S := by
  have hn : normAt num S = normAt num' S := by funext p; unfold normAt; rw [hs]
  unfold renorm divMap
  rw [hn]
  apply divMapWith_congr
  intro coil _ p c _
  rw [safe_divide_indep_div_zero num num' hd, safe_divide_indep_div_zero num num' hd]

theorem estimateRSS_indep_div_zero (num num' : Num α) (hs : num.sqrt = num'.sqrt)
    (hd : ∀ a b, b ≠ 0 → num.div a b = num'.div a b) (a : SMap α) :
    estimateRSS num a = estimateRSS num' a := by
  unfold estimateRSS
  rw [show rssNormalise num a = renorm num a from rfl, show rssNormalise num' a = renorm num' a from rfl,
    renorm_indep_div_zero num num' hs hd a, renorm_indep_div_zero num num' hs hd]

theorem computeSensitivityMap_indep_div_zero (num num' : Num α) (hs : num.sqrt = num'.sqrt)
    (hd : ∀ a b, b ≠ 0 → num.div a b = num'.div a b) (hasModel : Bool) (refine : SMap α → SMap α)
    (S : SMap α) :
    computeSensitivityMap num hasModel refine S = computeSensitivityMap num' hasModel refine S := by
  unfold computeSensitivityMap
  exact renorm_indep_div_zero num num' hs hd _

end indep

/-! ## finiteness, directly: closure of a "finite" predicate -/

/-- what is assumed of the arithmetic: the ring operations and `sqrt` keep values finite, and so
does division **by a non-zero divisor** (division by zero may return anything: NaN, Inf) -/
structure FiniteClosed {α : Type} [Zero α] [Add α] [Mul α] (num : Num α) (fin : α → Prop) : Prop where
  zero : fin 0
  add : ∀ a b, fin a → fin b → fin (a + b)
  mul : ∀ a b, fin a → fin b → fin (a * b)
  sqrt : ∀ a, fin a → fin (num.sqrt a)
  div : ∀ a b, fin a → fin b → b ≠ 0 → fin (num.div a b)

section finite
variable {α : Type} [Zero α] [Add α] [Mul α] [DecidableEq α]

/-- **`safe_divide_finite`**: `safe_divide` of finite values is finite, whatever `x / 0` is. -/
theorem safe_divide_finite (num : Num α) (fin : α → Prop) (hc : FiniteClosed num fin) (a b : α)
    (ha : fin a) (hb : fin b) : fin (safeDivide num a b) := by
  unfold safeDivide
  by_cases h : b = 0
  · simp [h, hc.zero]
  · simp [h, hc.div a b ha hb h]

omit [DecidableEq α] in
theorem sum_finite (num : Num α) (fin : α → Prop) (hc : FiniteClosed num fin) (xs : List α)
    (h : ∀ x ∈ xs, fin x) : fin xs.sum := by
  induction xs with
  | nil => simpa using hc.zero
  | cons x xs ih =>
    rw [List.sum_cons]
    exact hc.add _ _ (h x (by simp)) (ih fun y hy => h y (by simp [hy]))

/-- the entries of a map: every `(re, im)` of every coil -/
def AllFinite (fin : α → Prop) (S : SMap α) : Prop := ∀ coil ∈ S, ∀ c ∈ coil, fin c.1 ∧ fin c.2

omit [DecidableEq α] in
theorem normAt_finite (num : Num α) (fin : α → Prop) (hc : FiniteClosed num fin) (S : SMap α)
    (hS : AllFinite fin S) (p : Nat) : fin (normAt num S p) := by
  unfold normAt sumSqAt
  apply hc.sqrt
  apply sum_finite num fin hc
  intro x hx
  obtain ⟨c, hcm, rfl⟩ := List.mem_map.mp hx
  obtain ⟨coil, hcoil, hget⟩ := List.mem_filterMap.mp hcm
  obtain ⟨h1, h2⟩ := hS coil hcoil c (List.mem_of_getElem? hget)
  exact hc.add _ _ (hc.mul _ _ h1 h1) (hc.mul _ _ h2 h2)

/-- **`renorm_finite`**: the renormalised map of a finite map is finite (zero coils, zero pixels,
one coil, no coil included) — no NaN/Inf can be produced. -/
theorem renorm_finite (num : Num α) (fin : α → Prop) (hc : FiniteClosed num fin) (S : SMap α)
    (hS : AllFinite fin S) : AllFinite fin (renorm num S) := by
  intro coil' hcoil' c' hc'
  unfold renorm divMap divMapWith at hcoil'
  obtain ⟨coil, hcoil, rfl⟩ := List.mem_map.mp hcoil'
  obtain ⟨p, hp, rfl⟩ := List.mem_mapIdx.mp hc'
  have hcin : coil[p] ∈ coil := List.getElem_mem hp
  obtain ⟨h1, h2⟩ := hS coil hcoil _ hcin
  have hn := normAt_finite num fin hc S hS p
  exact ⟨safe_divide_finite num fin hc _ _ h1 hn, safe_divide_finite num fin hc _ _ h2 hn⟩

/-- … hence the RSS estimate and the engine's map are finite for finite inputs / network outputs -/
theorem estimateRSS_finite (num : Num α) (fin : α → Prop) (hc : FiniteClosed num fin) (a : SMap α)
    (ha : AllFinite fin a) : AllFinite fin (estimateRSS num a) := by
  unfold estimateRSS
  exact renorm_finite num fin hc _ (renorm_finite num fin hc a ha)

theorem computeSensitivityMap_finite (num : Num α) (fin : α → Prop) (hc : FiniteClosed num fin)
    (hasModel : Bool) (refine : SMap α → SMap α) (S : SMap α) (hS : AllFinite fin S)
    (hR : AllFinite fin (refine S)) : AllFinite fin (computeSensitivityMap num hasModel refine S) := by
  unfold computeSensitivityMap
  apply renorm_finite num fin hc
  split <;> assumption

end finite

/-- the hypotheses are satisfiable: over ℝ every value is finite -/
example : FiniteClosed realNum (fun _ : ℝ => True) :=
  ⟨trivial, fun _ _ _ _ => trivial, fun _ _ _ _ => trivial, fun _ _ => trivial, fun _ _ _ _ _ => trivial⟩

/-! ## layout: the `[coil][pixel]` reshape and the reduction / unsqueeze axes -/

/-- the entry the driver reads for `(batch b, coil c, pixel p, component k)` is the row-major one -/
theorem flatEntry_eq (B C P : Nat) (data : List Int) (b c p k : Nat) :
    flatEntry B C P data b c p k = data.getD (k + 2 * (p + P * (c + C * b))) 0 := by
  simp [flatEntry, Mask.ravelR]

/-- `toSMap` puts entry `(b, c, p, ·)` of the flat tensor at `[c][p]` -/
theorem toSMap_entry (B C P : Nat) (data : List Int) (b c p : Nat) (hc : c < C) (hp : p < P) :
    ((toSMap B C P data b)[c]?.bind (·[p]?)) =
      some ((flatEntry B C P data b c p 0 : Rat), (flatEntry B C P data b c p 1 : Rat)) := by
  simp [toSMap, List.getElem?_map, List.getElem?_range hc, List.getElem?_range hp]

theorem pySumShape_last (s : List Nat) (x : Nat) : pySumShape (s ++ [x]) (-1) = s := by
  have : ((if (-1 : Int) < 0 then -1 + ((s ++ [x]).length : Int) else -1)).toNat = s.length := by
    simp
  simp only [pySumShape, this]
  simp

theorem pyUnsqueeze_last (s : List Nat) : pyUnsqueeze s (-1) = s ++ [1] := by
  have : ((if (-1 : Int) < 0 then -1 + (s.length : Int) + 1 else -1)).toNat = s.length := by
    simp
  simp only [pyUnsqueeze, this]
  simp

theorem pySumShape_one (n c : Nat) (s : List Nat) : pySumShape (n :: c :: s) 1 = n :: s := by
  simp [pySumShape]

theorem pyUnsqueeze_one (n : Nat) (s : List Nat) : pyUnsqueeze (n :: s) 1 = n :: 1 :: s := by
  simp [pyUnsqueeze]

/-- for every accepted plan the divisor built from a map of shape `(n, c, *spatial, 2)` has shape
`(n, 1, *spatial, 1)`: it is constant along exactly the coil and the complex axis, which is what
`Sens.divMap` (one divisor per pixel, shared by all coils and both components) encodes. -/
theorem divisorShape_of_wf (plan : Bool × Int × List Int × List Int) (h : planWf plan = true)
    (n c : Nat) (sp : List Nat) : divisorShape plan ((n :: c :: sp) ++ [2]) = (n :: 1 :: sp) ++ [1] := by
  obtain ⟨sq, e, axes, uns⟩ := plan
  simp only [planWf, Bool.and_eq_true, Bool.or_eq_true, beq_iff_eq] at h
  obtain ⟨⟨⟨_, _⟩, hax⟩, hun⟩ := h
  subst hax
  rcases hun with hun | hun <;> subst hun
  · simp only [divisorShape, List.foldl_cons, List.foldl_nil]
    rw [pySumShape_last, pySumShape_one, pyUnsqueeze_one, pyUnsqueeze_last]
  · simp only [divisorShape, List.foldl_cons, List.foldl_nil]
    rw [pySumShape_last, pySumShape_one, pyUnsqueeze_last]
    exact pyUnsqueeze_one n (sp ++ [1])

example : planWf normPlan = true := by decide
example : planWf (true, 2, [-1, 1], [-1, 1]) = true := by decide
example : planWf (true, 2, [-1, 0], [1, -1]) = false := by decide
example : planWf (false, 2, [-1, 1], [1, -1]) = false := by decide

/-- without the guard the value of `0 / 0` reaches the map (NaN in float32) -/
theorem unguarded_violates :
    renormUnguarded ratNum [[((0 : Rat), (0 : Rat))]] = [[(1000003, 1000003)]] ∧
    renorm ratNum [[((0 : Rat), (0 : Rat))]] = [[(0, 0)]] := by decide +kernel

/-! ## non-vacuity (exact rationals, the instance the driver runs) -/

/-- two coils, three pixels: a 3-4-12 Pythagorean pixel, an all-zero pixel, a single-coil pixel -/
def exA : SMap Rat := [[(3, 4), (0, 0), (0, 0)], [(12, 0), (0, 0), (0, -2)]]

example : estimateRSS ratNum exA = [[(3/13, 4/13), (0, 0), (0, 0)], [(12/13, 0), (0, 0), (0, -1)]] := by
  decide +kernel
example : sumSqAt (estimateRSS ratNum exA) 0 = 1 ∧ sumSqAt (estimateRSS ratNum exA) 1 = 0 ∧
    sumSqAt (estimateRSS ratNum exA) 2 = 1 := by decide +kernel
example : renorm ratNum (renorm ratNum exA) = renorm ratNum exA := by decide +kernel
example : estimateRSS ratNum [[((0 : Rat), (0 : Rat)), (0, 0)]] = [[(0, 0), (0, 0)]] := by decide +kernel
example : computeSensitivityMap ratNum true (fun _ => exA) [[(1, 0)], [(1, 0)]] = renorm ratNum exA := by
  decide +kernel
example : ∃ c ∈ fibre ([[((3 : ℝ), (4 : ℝ))]] : SMap ℝ) 0, c ≠ (0, 0) :=
  ⟨(3, 4), by simp [fibre], by simp⟩

end DirectVerif.C09
