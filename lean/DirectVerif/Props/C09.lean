import DirectVerif.Lemmas.C09
/-!
# C09 — estimated and refined sensitivity maps are normalised and finite

Property theorems only, about the definitions of `Model/Sens.lean` that the driver executes (there
with exact rationals, here with `ℝ`, `Real.sqrt` and field division: `realNum`).

`S : SMap ℝ` is indexed `[coil][pixel]`, any number of coils (0, 1, many), any number of pixels
(2-D, 3-D: the spatial axes are flattened), ragged lists allowed.  `fibre S p` is the list of the
coil values at pixel `p`, `sumSqAt S p = Σ_coils |S_i p|²`.

Finiteness is stated as independence of the value of a division by zero: the results are the
same for *every* `div` that agrees with the given one on non-zero divisors (`*_indep_div_zero`),
so no NaN/Inf produced by `x / 0` can reach a sensitivity map.  Float32 rounding and overflow of
the squared sum are outside these theorems (oracle-checked on the implementation in 2^±60).
-/
namespace DirectVerif.C09
open DirectVerif DirectVerif.Sens

/-- the norm the code divides by vanishes exactly when all coils vanish at the pixel -/
theorem normAt_eq_zero_iff (S : SMap ℝ) (p : Nat) :
    normAt realNum S p = 0 ↔ ∀ c ∈ fibre S p, c = (0, 0) := by
  unfold normAt sumSqAt realNum
  simp only
  rw [Real.sqrt_eq_zero (sumsq_nonneg _)]
  exact sumsq_eq_zero _

/-- **Core**: after the renormalisation step the sum over coils of `|S|²` is exactly `1` at every
pixel where some coil is non-zero and `0` where all coils vanish. -/
theorem sumSqAt_renorm (S : SMap ℝ) (p : Nat) :
    sumSqAt (renorm realNum S) p = if sumSqAt S p = 0 then 0 else 1 := by
  have hfib : fibre (renorm realNum S) p = _ := fibre_divMapWith (safeDivide realNum) S (normAt realNum S) p
  have hs0 := sumsq_nonneg (fibre S p)
  unfold sumSqAt
  rw [hfib]
  by_cases hs : ((fibre S p).map Sens.sq).sum = 0
  · have hn : normAt realNum S p = 0 := by
      unfold normAt sumSqAt; rw [hs, realNum_sqrt]; exact Real.sqrt_zero
    have hf : (fun c : ℝ × ℝ => (safeDivide realNum c.1 (normAt realNum S p), safeDivide realNum c.2 (normAt realNum S p)))
        = fun _ => ((0 : ℝ), (0 : ℝ)) := by
      funext c; rw [safeDivide_real_zero _ _ hn, safeDivide_real_zero _ _ hn]
    rw [hf, if_pos hs]
    exact sumsq_zero_map _
  · have hn : normAt realNum S p ≠ 0 := by
      unfold normAt sumSqAt; rw [realNum_sqrt, Ne, Real.sqrt_eq_zero hs0]; exact hs
    have hnn : normAt realNum S p * normAt realNum S p = ((fibre S p).map Sens.sq).sum := by
      unfold normAt sumSqAt; rw [realNum_sqrt]
      exact Real.mul_self_sqrt hs0
    have hf : (fun c : ℝ × ℝ => (safeDivide realNum c.1 (normAt realNum S p), safeDivide realNum c.2 (normAt realNum S p)))
        = fun c => (c.1 / normAt realNum S p, c.2 / normAt realNum S p) := by
      funext c; rw [safeDivide_real_ne _ _ hn, safeDivide_real_ne _ _ hn]
    rw [hf, if_neg hs, sumsq_div _ _ hn, hnn]
    exact div_self hs

/-- **`renorm_unit_or_zero`**: for any coil count and any pixel, `Σ_i |S_i p|² = 1` or all coils are
exactly `0` at `p`. -/
theorem renorm_unit_or_zero (S : SMap ℝ) (p : Nat) :
    sumSqAt (renorm realNum S) p = 1 ∨ ∀ c ∈ fibre (renorm realNum S) p, c = (0, 0) := by
  rw [sumSqAt_renorm]
  by_cases hs : sumSqAt S p = 0
  · right
    have h0 : sumSqAt (renorm realNum S) p = 0 := by rw [sumSqAt_renorm, if_pos hs]
    exact (sumsq_eq_zero _).mp h0
  · left; rw [if_neg hs]

/-- … and the zero case happens exactly when all coils of the input vanish at `p` (no signal). -/
theorem renorm_zero_iff (S : SMap ℝ) (p : Nat) :
    (∀ c ∈ fibre (renorm realNum S) p, c = (0, 0)) ↔ (∀ c ∈ fibre S p, c = (0, 0)) := by
  rw [← sumsq_eq_zero, ← sumsq_eq_zero]
  have h := sumSqAt_renorm S p
  unfold sumSqAt at h
  rw [h]
  by_cases hs : ((fibre S p).map sq).sum = 0 <;> simp [hs]

theorem renorm_unit (S : SMap ℝ) (p : Nat) (h : ∃ c ∈ fibre S p, c ≠ (0, 0)) :
    sumSqAt (renorm realNum S) p = 1 := by
  rw [sumSqAt_renorm, if_neg]
  intro hs
  obtain ⟨c, hc, hne⟩ := h
  exact hne ((sumsq_eq_zero _).mp hs c hc)

/-- **Idempotence** of the renormalisation (as a whole tensor, not only per pixel). -/
theorem renorm_idempotent (S : SMap ℝ) : renorm realNum (renorm realNum S) = renorm realNum S := by
  have key : ∀ p (x : ℝ),
      safeDivide realNum (safeDivide realNum x (normAt realNum S p)) (normAt realNum (renorm realNum S) p)
        = safeDivide realNum x (normAt realNum S p) := by
    intro p x
    by_cases hn : normAt realNum S p = 0
    · rw [safeDivide_real_zero x _ hn]
      by_cases h2 : normAt realNum (renorm realNum S) p = 0
      · exact safeDivide_real_zero _ _ h2
      · rw [safeDivide_real_ne _ _ h2]; simp
    · have hs : sumSqAt S p ≠ 0 := by
        intro hs; apply hn; unfold normAt; rw [hs, realNum_sqrt]; exact Real.sqrt_zero
      have h1 : normAt realNum (renorm realNum S) p = 1 := by
        unfold normAt; rw [sumSqAt_renorm, if_neg hs, realNum_sqrt]; exact Real.sqrt_one
      rw [h1, safeDivide_real_ne _ 1 one_ne_zero, div_one]
  calc renorm realNum (renorm realNum S)
      = divMapWith (safeDivide realNum) (divMapWith (safeDivide realNum) S (normAt realNum S))
          (normAt realNum (renorm realNum S)) := rfl
    _ = S.map (fun coil => coil.mapIdx fun p c =>
          (safeDivide realNum (safeDivide realNum c.1 (normAt realNum S p)) (normAt realNum (renorm realNum S) p),
           safeDivide realNum (safeDivide realNum c.2 (normAt realNum S p)) (normAt realNum (renorm realNum S) p))) :=
        divMapWith_divMapWith _ _ _ _
    _ = divMapWith (safeDivide realNum) S (normAt realNum S) := by
        unfold divMapWith
        apply List.map_congr_left
        intro coil _
        congr 1
        funext p c
        rw [key p c.1, key p c.2]
    _ = renorm realNum S := rfl

/-- the RSS estimate is the renormalised ACS image (the second normalisation changes nothing) -/
theorem estimate_eq_renorm (a : SMap ℝ) : estimateRSS realNum a = renorm realNum a := by
  unfold estimateRSS
  rw [show rssNormalise realNum a = renorm realNum a from rfl]
  exact renorm_idempotent a

/-- **`estimate_normalised`**: the RSS-estimated map is unit-or-zero at every pixel, zero exactly
where the ACS image has no signal in any coil. -/
theorem estimate_normalised (a : SMap ℝ) (p : Nat) :
    (sumSqAt (estimateRSS realNum a) p = 1 ∨ ∀ c ∈ fibre (estimateRSS realNum a) p, c = (0, 0)) ∧
    ((∀ c ∈ fibre (estimateRSS realNum a) p, c = (0, 0)) ↔ (∀ c ∈ fibre a p, c = (0, 0))) := by
  rw [estimate_eq_renorm]
  exact ⟨renorm_unit_or_zero a p, renorm_zero_iff a p⟩

/-- **`single_coil`**: with one coil every pixel has modulus `1` or is exactly `0`. -/
theorem single_coil (coil : List (ℝ × ℝ)) (p : Nat) :
    ∀ c ∈ fibre (estimateRSS realNum [coil]) p, Sens.sq c = 1 ∨ c = (0, 0) := by
  intro c hc
  rw [estimate_eq_renorm] at hc
  have hf : fibre (renorm realNum [coil]) p = [c] := by
    have : (fibre (renorm realNum [coil]) p).length ≤ 1 := by
      unfold fibre renorm divMap divMapWith
      exact le_trans (List.length_filterMap_le _ _) (by simp)
    match hfl : fibre (renorm realNum [coil]) p, this, hc with
    | [d], _, hc => simp at hc; rw [hc]
  rcases renorm_unit_or_zero [coil] p with h | h
  · left; unfold sumSqAt at h; rw [hf] at h; simpa using h
  · right; exact h c hc

/-- **`empty_acs_all_zero`**: an all-zero ACS image (empty ACS mask, zero coils) gives an all-zero
map — every division is guarded. -/
theorem empty_acs_all_zero (a : SMap ℝ) (h : ∀ coil ∈ a, ∀ c ∈ coil, c = (0, 0)) :
    estimateRSS realNum a = a := by
  rw [estimate_eq_renorm]
  unfold renorm divMap divMapWith
  conv_rhs => rw [← List.map_id a]
  apply List.map_congr_left
  intro coil hcoil
  apply List.ext_getElem?
  intro p
  simp only [List.getElem?_mapIdx, id]
  cases hp : coil[p]? with
  | none => rfl
  | some c =>
    have hc : c = (0, 0) := h coil hcoil c (List.mem_of_getElem? hp)
    have hn : normAt realNum a p = 0 := by
      rw [normAt_eq_zero_iff]
      intro d hd
      obtain ⟨coil', hc', hd'⟩ := List.mem_filterMap.mp hd
      exact h coil' hc' d (List.mem_of_getElem? hd')
    subst hc
    simp only [Option.map_some, safeDivide_real_zero _ _ hn]

/-- **`refined_normalised`**: whatever the refinement network returns (`refine` arbitrary), the
engine's sensitivity map is unit-or-zero at every pixel. -/
theorem refined_normalised (hasModel : Bool) (refine : SMap ℝ → SMap ℝ) (S : SMap ℝ) (p : Nat) :
    sumSqAt (computeSensitivityMap realNum hasModel refine S) p = 1 ∨
    ∀ c ∈ fibre (computeSensitivityMap realNum hasModel refine S) p, c = (0, 0) := by
  unfold computeSensitivityMap
  exact renorm_unit_or_zero _ p

/-- the unit map after renormalisation: `c` coils of modulus `1/√c` -/
theorem unit_map_normalised (coils pixels : Nat) (hc : 0 < coils) (p : Nat) (hp : p < pixels) :
    sumSqAt (estimateUnit realNum coils pixels) p = 1 := by
  unfold estimateUnit
  apply renorm_unit
  refine ⟨(1, 0), ?_, by simp⟩
  unfold fibre unitMap
  rw [List.mem_filterMap]
  exact ⟨List.replicate pixels (1, 0), by simp [List.mem_replicate]; omega, by simp [hp]⟩

/-! ## finiteness: no result depends on the value of a division by zero -/

section indep
variable {α : Type} [Zero α] [DecidableEq α]

theorem safeDivide_zero (num : Num α) (a : α) : safeDivide num a 0 = 0 := by simp [safeDivide]

/-- **`safe_divide_finite`**: `safe_divide` only ever uses quotients with a non-zero divisor. -/
theorem safe_divide_indep_div_zero (num num' : Num α) (hd : ∀ a b, b ≠ 0 → num.div a b = num'.div a b)
    (a b : α) : safeDivide num a b = safeDivide num' a b := by
  unfold safeDivide
  by_cases hb : b = 0
  · simp [hb]
  · simp [hb, hd a b hb]

variable [Add α] [Mul α]

theorem renorm_indep_div_zero (num num' : Num α) (hs : num.sqrt = num'.sqrt)
    (hd : ∀ a b, b ≠ 0 → num.div a b = num'.div a b) (S : SMap α) : renorm num S = renorm num' S := by
  have hn : normAt num S = normAt num' S := by funext p; unfold normAt; rw [hs]
  unfold renorm divMap
  rw [hn]
  apply divMapWith_congr
  intro coil _ p c _
  rw [safe_divide_indep_div_zero num num' hd, safe_divide_indep_div_zero num num' hd]

theorem estimateRSS_indep_div_zero (num num' : Num α) (hs : num.sqrt = num'.sqrt)
    (hd : ∀ a b, b ≠ 0 → num.div a b = num'.div a b) (a : SMap α) :
    estimateRSS num a = estimateRSS num' a := by
  unfold estimateRSS
  rw [show rssNormalise num a = renorm num a from rfl, show rssNormalise num' a = renorm num' a from rfl,
    renorm_indep_div_zero num num' hs hd a, renorm_indep_div_zero num num' hs hd]

theorem computeSensitivityMap_indep_div_zero (num num' : Num α) (hs : num.sqrt = num'.sqrt)
    (hd : ∀ a b, b ≠ 0 → num.div a b = num'.div a b) (hasModel : Bool) (refine : SMap α → SMap α)
    (S : SMap α) :
    computeSensitivityMap num hasModel refine S = computeSensitivityMap num' hasModel refine S := by
  unfold computeSensitivityMap
  exact renorm_indep_div_zero num num' hs hd _

end indep

/-! ## finiteness, directly: closure of a "finite" predicate -/

/-- what is assumed of the arithmetic: the ring operations and `sqrt` keep values finite, and so
does division **by a non-zero divisor** (division by zero may return anything: NaN, Inf) -/
structure FiniteClosed {α : Type} [Zero α] [Add α] [Mul α] (num : Num α) (fin : α → Prop) : Prop where
  zero : fin 0
  add : ∀ a b, fin a → fin b → fin (a + b)
  mul : ∀ a b, fin a → fin b → fin (a * b)
  sqrt : ∀ a, fin a → fin (num.sqrt a)
  div : ∀ a b, fin a → fin b → b ≠ 0 → fin (num.div a b)

section finite
variable {α : Type} [Zero α] [Add α] [Mul α] [DecidableEq α]

/-- **`safe_divide_finite`**: `safe_divide` of finite values is finite, whatever `x / 0` is. -/
theorem safe_divide_finite (num : Num α) (fin : α → Prop) (hc : FiniteClosed num fin) (a b : α)
    (ha : fin a) (hb : fin b) : fin (safeDivide num a b) := by
  unfold safeDivide
  by_cases h : b = 0
  · simp [h, hc.zero]
  · simp [h, hc.div a b ha hb h]

omit [DecidableEq α] in
theorem sum_finite (num : Num α) (fin : α → Prop) (hc : FiniteClosed num fin) (xs : List α)
    (h : ∀ x ∈ xs, fin x) : fin xs.sum := by
  induction xs with
  | nil => simpa using hc.zero
  | cons x xs ih =>
    rw [List.sum_cons]
    exact hc.add _ _ (h x (by simp)) (ih fun y hy => h y (by simp [hy]))

/-- the entries of a map: every `(re, im)` of every coil -/
def AllFinite (fin : α → Prop) (S : SMap α) : Prop := ∀ coil ∈ S, ∀ c ∈ coil, fin c.1 ∧ fin c.2

omit [DecidableEq α] in
theorem normAt_finite (num : Num α) (fin : α → Prop) (hc : FiniteClosed num fin) (S : SMap α)
    (hS : AllFinite fin S) (p : Nat) : fin (normAt num S p) := by
  unfold normAt sumSqAt
  apply hc.sqrt
  apply sum_finite num fin hc
  intro x hx
  obtain ⟨c, hcm, rfl⟩ := List.mem_map.mp hx
  obtain ⟨coil, hcoil, hget⟩ := List.mem_filterMap.mp hcm
  obtain ⟨h1, h2⟩ := hS coil hcoil c (List.mem_of_getElem? hget)
  exact hc.add _ _ (hc.mul _ _ h1 h1) (hc.mul _ _ h2 h2)

/-- **`renorm_finite`**: the renormalised map of a finite map is finite (zero coils, zero pixels,
one coil, no coil included) — no NaN/Inf can be produced. -/
theorem renorm_finite (num : Num α) (fin : α → Prop) (hc : FiniteClosed num fin) (S : SMap α)
    (hS : AllFinite fin S) : AllFinite fin (renorm num S) := by
  intro coil' hcoil' c' hc'
  unfold renorm divMap divMapWith at hcoil'
  obtain ⟨coil, hcoil, rfl⟩ := List.mem_map.mp hcoil'
  obtain ⟨p, hp, rfl⟩ := List.mem_mapIdx.mp hc'
  have hcin : coil[p] ∈ coil := List.getElem_mem hp
  obtain ⟨h1, h2⟩ := hS coil hcoil _ hcin
  have hn := normAt_finite num fin hc S hS p
  exact ⟨safe_divide_finite num fin hc _ _ h1 hn, safe_divide_finite num fin hc _ _ h2 hn⟩

/-- … hence the RSS estimate and the engine's map are finite for finite inputs / network outputs -/
theorem estimateRSS_finite (num : Num α) (fin : α → Prop) (hc : FiniteClosed num fin) (a : SMap α)
    (ha : AllFinite fin a) : AllFinite fin (estimateRSS num a) := by
  unfold estimateRSS
  exact renorm_finite num fin hc _ (renorm_finite num fin hc a ha)

theorem computeSensitivityMap_finite (num : Num α) (fin : α → Prop) (hc : FiniteClosed num fin)
    (hasModel : Bool) (refine : SMap α → SMap α) (S : SMap α) (hS : AllFinite fin S)
    (hR : AllFinite fin (refine S)) : AllFinite fin (computeSensitivityMap num hasModel refine S) := by
  unfold computeSensitivityMap
  apply renorm_finite num fin hc
  split <;> assumption

end finite

/-- the hypotheses are satisfiable: over ℝ every value is finite -/
example : FiniteClosed realNum (fun _ : ℝ => True) :=
  ⟨trivial, fun _ _ _ _ => trivial, fun _ _ _ _ => trivial, fun _ _ => trivial, fun _ _ _ _ _ => trivial⟩

/-! ## layout: the `[coil][pixel]` reshape and the reduction / unsqueeze axes -/

/-- the entry the driver reads for `(batch b, coil c, pixel p, component k)` is the row-major one -/
theorem flatEntry_eq (B C P : Nat) (data : List Int) (b c p k : Nat) :
    flatEntry B C P data b c p k = data.getD (k + 2 * (p + P * (c + C * b))) 0 := by
  simp [flatEntry, Mask.ravelR]

/-- `toSMap` puts entry `(b, c, p, ·)` of the flat tensor at `[c][p]` -/
theorem toSMap_entry (B C P : Nat) (data : List Int) (b c p : Nat) (hc : c < C) (hp : p < P) :
    ((toSMap B C P data b)[c]?.bind (·[p]?)) =
      some ((flatEntry B C P data b c p 0 : Rat), (flatEntry B C P data b c p 1 : Rat)) := by
  simp [toSMap, List.getElem?_map, List.getElem?_range hc, List.getElem?_range hp]

theorem pySumShape_last (s : List Nat) (x : Nat) : pySumShape (s ++ [x]) (-1) = s := by
  have : ((if (-1 : Int) < 0 then -1 + ((s ++ [x]).length : Int) else -1)).toNat = s.length := by
    simp
  simp only [pySumShape, this]
  simp

theorem pyUnsqueeze_last (s : List Nat) : pyUnsqueeze s (-1) = s ++ [1] := by
  have : ((if (-1 : Int) < 0 then -1 + (s.length : Int) + 1 else -1)).toNat = s.length := by
    simp
  simp only [pyUnsqueeze, this]
  simp

theorem pySumShape_one (n c : Nat) (s : List Nat) : pySumShape (n :: c :: s) 1 = n :: s := by
  simp [pySumShape]

theorem pyUnsqueeze_one (n : Nat) (s : List Nat) : pyUnsqueeze (n :: s) 1 = n :: 1 :: s := by
  simp [pyUnsqueeze]

/-- for every accepted plan the divisor built from a map of shape `(n, c, *spatial, 2)` has shape
`(n, 1, *spatial, 1)`: it is constant along exactly the coil and the complex axis, which is what
`Sens.divMap` (one divisor per pixel, shared by all coils and both components) encodes. -/
theorem divisorShape_of_wf (plan : Bool × Int × List Int × List Int) (h : planWf plan = true)
    (n c : Nat) (sp : List Nat) : divisorShape plan ((n :: c :: sp) ++ [2]) = (n :: 1 :: sp) ++ [1] := by
  obtain ⟨sq, e, axes, uns⟩ := plan
  simp only [planWf, Bool.and_eq_true, Bool.or_eq_true, beq_iff_eq] at h
  obtain ⟨⟨⟨_, _⟩, hax⟩, hun⟩ := h
  subst hax
  rcases hun with hun | hun <;> subst hun
  · simp only [divisorShape, List.foldl_cons, List.foldl_nil]
    rw [pySumShape_last, pySumShape_one, pyUnsqueeze_one, pyUnsqueeze_last]
  · simp only [divisorShape, List.foldl_cons, List.foldl_nil]
    rw [pySumShape_last, pySumShape_one, pyUnsqueeze_last]
    exact pyUnsqueeze_one n (sp ++ [1])

example : planWf normPlan = true := by decide
example : planWf (true, 2, [-1, 1], [-1, 1]) = true := by decide
example : planWf (true, 2, [-1, 0], [1, -1]) = false := by decide
example : planWf (false, 2, [-1, 1], [1, -1]) = false := by decide

/-- without the guard the value of `0 / 0` reaches the map (NaN in float32) -/
theorem unguarded_violates :
    renormUnguarded ratNum [[((0 : Rat), (0 : Rat))]] = [[(1000003, 1000003)]] ∧
    renorm ratNum [[((0 : Rat), (0 : Rat))]] = [[(0, 0)]] := by decide +kernel

/-! ## non-vacuity (exact rationals, the instance the driver runs) -/

/-- two coils, three pixels: a 3-4-12 Pythagorean pixel, an all-zero pixel, a single-coil pixel -/
def exA : SMap Rat := [[(3, 4), (0, 0), (0, 0)], [(12, 0), (0, 0), (0, -2)]]

example : estimateRSS ratNum exA = [[(3/13, 4/13), (0, 0), (0, 0)], [(12/13, 0), (0, 0), (0, -1)]] := by
  decide +kernel
example : sumSqAt (estimateRSS ratNum exA) 0 = 1 ∧ sumSqAt (estimateRSS ratNum exA) 1 = 0 ∧
    sumSqAt (estimateRSS ratNum exA) 2 = 1 := by decide +kernel
example : renorm ratNum (renorm ratNum exA) = renorm ratNum exA := by decide +kernel
example : estimateRSS ratNum [[((0 : Rat), (0 : Rat)), (0, 0)]] = [[(0, 0), (0, 0)]] := by decide +kernel
example : computeSensitivityMap ratNum true (fun _ => exA) [[(1, 0)], [(1, 0)]] = renorm ratNum exA := by
  decide +kernel
example : ∃ c ∈ fibre ([[((3 : ℝ), (4 : ℝ))]] : SMap ℝ) 0, c ≠ (0, 0) :=
  ⟨(3, 4), by simp [fibre], by simp⟩


/-! # phase 3 -/

/-! ## per-pixel positive weights do not change the maps -/

/-- **`renorm_weight_invariant`**: multiplying every pixel's coil vector by a positive weight (the Gaussian
window with a pixel-wise backward operator, a per-pixel gain, a global scale) leaves the normalised
map unchanged — as a whole tensor. -/
theorem renorm_weight_invariant (w : Nat → ℝ) (hw : ∀ p, 0 < w p) (S : SMap ℝ) :
    renorm realNum (weightPixels w S) = renorm realNum S := by
  calc renorm realNum (weightPixels w S)
      = divMapWith (safeDivide realNum) (divMapWith (fun a b => a * b) S w) (normAt realNum (weightPixels w S)) := rfl
    _ = S.map (fun coil => coil.mapIdx fun p c =>
          (safeDivide realNum (c.1 * w p) (normAt realNum (weightPixels w S) p),
           safeDivide realNum (c.2 * w p) (normAt realNum (weightPixels w S) p))) :=
        divMapWith_divMapWith' _ _ _ _ _
    _ = divMapWith (safeDivide realNum) S (normAt realNum S) := by
        rw [divMapWith_eq_map]
        apply List.map_congr_left
        intro coil _
        congr 1
        funext p c
        rw [normAt_weightPixels w S p (le_of_lt (hw p)), safeDivide_real_scale _ _ _ (hw p),
          safeDivide_real_scale _ _ _ (hw p)]
    _ = renorm realNum S := rfl

/-- over ℝ the maps do not depend on the magnitude of the data: any global scale `s > 0` cancels -/
theorem renorm_scale_invariant (s : ℝ) (hs : 0 < s) (S : SMap ℝ) :
    renorm realNum (weightPixels (fun _ => s) S) = renorm realNum S :=
  renorm_weight_invariant _ (fun _ => hs) S

theorem estimate_weight_invariant (w : Nat → ℝ) (hw : ∀ p, 0 < w p) (a : SMap ℝ) :
    estimateRSS realNum (weightPixels w a) = estimateRSS realNum a := by
  rw [estimate_eq_renorm, estimate_eq_renorm, renorm_weight_invariant w hw]

/-- the engine: a refinement output scaled by positive per-pixel factors gives the same maps -/
theorem refined_weight_invariant (w : Nat → ℝ) (hw : ∀ p, 0 < w p) (refine : SMap ℝ → SMap ℝ) (S : SMap ℝ)
    (hS : 1 < S.length) :
    computeSensitivityMap realNum true (fun x => weightPixels w (refine x)) S =
      computeSensitivityMap realNum true refine S := by
  unfold computeSensitivityMap
  have h : (S.length > 1 ∧ true = true) := ⟨hS, rfl⟩
  rw [if_pos h, if_pos h, renorm_weight_invariant w hw]

example : ∀ p : Nat, (0 : ℝ) < (fun _ => (2 : ℝ)) p := fun _ => by norm_num

/-! ## the Gaussian window: `linspace(-1, 1, W)` coordinates, weights, guards -/

/-- `linspace(-1, 1, 1) = [-1]`: the singleton width needs no division -/
theorem linspaceCoord_one {α : Type} [Zero α] [Add α] [Mul α] [DecidableEq α] (num : Num α) (wn : WinNum α) (j : Nat) :
    linspaceCoord num wn 1 j = wn.ofInt (-1) := by
  simp [linspaceCoord]

/-- closed form for `W ≥ 2`: `-1 + 2 j / (W - 1)` -/
theorem linspaceCoord_real (W j : Nat) (hW : 2 ≤ W) :
    linspaceCoord realNum realWin W j = -1 + 2 * (j : ℝ) / ((W : ℝ) - 1) := by
  have h1 : ¬ W ≤ 1 := by omega
  have hne : ((W : ℝ) - 1) ≠ 0 := by
    have : (2 : ℝ) ≤ (W : ℝ) := by exact_mod_cast hW
    linarith
  simp only [linspaceCoord, h1, if_false, realNum, realWin]
  push_cast
  field_simp
  ring

/-- the end points are `-1` and `1` -/
theorem linspaceCoord_endpoints (W : Nat) (hW : 2 ≤ W) :
    linspaceCoord realNum realWin W 0 = -1 ∧ linspaceCoord realNum realWin W (W - 1) = 1 := by
  have hne : ((W : ℝ) - 1) ≠ 0 := by
    have : (2 : ℝ) ≤ (W : ℝ) := by exact_mod_cast hW
    linarith
  constructor
  · rw [linspaceCoord_real W 0 hW]; simp
  · rw [linspaceCoord_real W (W - 1) hW]
    have : ((W - 1 : Nat) : ℝ) = (W : ℝ) - 1 := by
      rw [Nat.cast_sub (by omega)]; simp
    rw [this]
    field_simp
    ring

/-- every coordinate lies in `[-1, 1]` (also for `W = 1`) -/
theorem linspaceCoord_abs_le_one (W j : Nat) (hj : j < W) : |linspaceCoord realNum realWin W j| ≤ 1 := by
  by_cases hW : 2 ≤ W
  · rw [linspaceCoord_real W j hW, abs_le]
    have hpos : (0 : ℝ) < (W : ℝ) - 1 := by
      have : (2 : ℝ) ≤ (W : ℝ) := by exact_mod_cast hW
      linarith
    have hjw : (j : ℝ) ≤ (W : ℝ) - 1 := by
      have : (j : ℝ) + 1 ≤ (W : ℝ) := by exact_mod_cast hj
      linarith
    have hj0 : (0 : ℝ) ≤ (j : ℝ) := Nat.cast_nonneg j
    constructor
    · have : 0 ≤ 2 * (j : ℝ) / ((W : ℝ) - 1) := div_nonneg (by linarith) (le_of_lt hpos)
      linarith
    · have : 2 * (j : ℝ) / ((W : ℝ) - 1) ≤ 2 := by
        rw [div_le_iff₀ hpos]; linarith
      linarith
  · have hW1 : W = 1 := by omega
    subst hW1
    rw [linspaceCoord_one]
    simp [realWin]

section window_indep
variable {α : Type} [Zero α] [Add α] [Mul α] [DecidableEq α]

omit [Add α] [Mul α] [DecidableEq α] in
/-- no coordinate of the window uses a division by zero (`W - 1 ≠ 0` whenever a division happens) -/
theorem linspaceCoord_indep_div_zero (num num' : Num α) (wn : WinNum α)
    (hd : ∀ a b, b ≠ 0 → num.div a b = num'.div a b) (hz : ∀ n : Int, n ≠ 0 → wn.ofInt n ≠ 0) (W j : Nat) :
    linspaceCoord num wn W j = linspaceCoord num' wn W j := by
  unfold linspaceCoord
  by_cases h : W ≤ 1
  · simp [h]
  · simp only [h, if_false]
    exact hd _ _ (hz _ (by omega))

omit [Add α] [DecidableEq α] in
/-- … nor does a weight, when `sigma ≠ 0` (which the guard of the code ensures) -/
theorem gaussWeight_indep_div_zero (num num' : Num α) (wn : WinNum α)
    (hd : ∀ a b, b ≠ 0 → num.div a b = num'.div a b) (hz : ∀ n : Int, n ≠ 0 → wn.ofInt n ≠ 0)
    (sigma : α) (hs : sigma ≠ 0) (W j : Nat) :
    gaussWeight num wn sigma W j = gaussWeight num' wn sigma W j := by
  unfold gaussWeight gaussExponent
  rw [linspaceCoord_indep_div_zero num num' wn hd hz, hd _ _ hs]

omit [Add α] in
/-- the masked / weighted ACS k-space never depends on the value of a division by zero — for every
`sigma` (`None`, `0`, non-zero), every width (`W = 1` included), every mask -/
theorem acsKspace_indep_div_zero (num num' : Num α) (wn : WinNum α)
    (hd : ∀ a b, b ≠ 0 → num.div a b = num'.div a b) (hz : ∀ n : Int, n ≠ 0 → wn.ofInt n ≠ 0)
    (sigma : Option α) (W : Nat) (k : SMap α) (m : Nat → α) :
    acsKspace num wn sigma W k m = acsKspace num' wn sigma W k m := by
  unfold acsKspace
  cases hs : gaussianActive sigma with
  | none => rfl
  | some s =>
    have hs0 : s ≠ 0 := by
      unfold gaussianActive at hs
      cases sigma with
      | none => simp at hs
      | some t =>
        by_cases ht : t = 0
        · simp [ht] at hs
        · simp only [ht, if_false, Option.some.injEq] at hs; rw [← hs]; exact ht
    simp only
    congr 1
    funext p
    exact gaussWeight_indep_div_zero num num' wn hd hz s hs0 W _

end window_indep

/-- the weights are positive and at most one -/
theorem gaussWeight_pos (sigma : ℝ) (W j : Nat) : 0 < gaussWeight realNum realWin sigma W j := by
  unfold gaussWeight realWin
  exact Real.exp_pos _

theorem gaussWeight_le_one (sigma : ℝ) (W j : Nat) : gaussWeight realNum realWin sigma W j ≤ 1 := by
  unfold gaussWeight gaussExponent realWin
  simp only
  rw [Real.exp_le_one_iff]
  have := mul_self_nonneg (realNum.div (linspaceCoord realNum { ofInt := fun n => (n : ℝ), expNeg := fun x => Real.exp (-x) } W j) sigma)
  linarith

/-- the seeded variant `(arange(W) - W // 2) / (W // 2)` divides by zero for a singleton width; `linspace` does not -/
theorem arange_window_violates :
    arangeCoord ratNum ratWin 1 0 = 1000003 ∧ linspaceCoord ratNum ratWin 1 0 = -1 := by decide +kernel

/-- **`estimate_gauss_eq_plain`**: with a pixel-wise backward operator (`B = id`, the situation of the
correspondence) the Gaussian weighting does not change the estimated map at all, for every `sigma`,
width and mask. -/
theorem estimate_gauss_eq_plain (sigma : Option ℝ) (W : Nat) (k : SMap ℝ) (m : Nat → ℝ) :
    estimateRSS realNum (estimateAcsImage realNum realWin id sigma W k m) =
      estimateRSS realNum (estimateAcsImage realNum realWin id none W k m) := by
  unfold estimateAcsImage acsKspace
  cases hs : gaussianActive sigma with
  | none => rfl
  | some s =>
    simp only [id, gaussianActive]
    exact estimate_weight_invariant _ (fun p => gaussWeight_pos s W (p % W)) _

/-- **`estimate_forward_normalised`**: for every backward operator, `sigma`, width, mask and k-space the
estimated map is unit-or-zero at every pixel, zero exactly where the ACS image has no signal. -/
theorem estimate_forward_normalised (B : SMap ℝ → SMap ℝ) (sigma : Option ℝ) (W : Nat) (k : SMap ℝ) (m : Nat → ℝ) (p : Nat) :
    let a := estimateAcsImage realNum realWin B sigma W k m
    (sumSqAt (estimateRSS realNum a) p = 1 ∨ ∀ c ∈ fibre (estimateRSS realNum a) p, c = (0, 0)) ∧
    ((∀ c ∈ fibre (estimateRSS realNum a) p, c = (0, 0)) ↔ (∀ c ∈ fibre a p, c = (0, 0))) :=
  estimate_normalised _ p


/-! ## finiteness of the weighted path -/

section finite2
variable {α : Type} [Zero α] [Add α] [Mul α] [DecidableEq α]

omit [DecidableEq α] in
theorem weightPixels_finite (num : Num α) (fin : α → Prop) (hc : FiniteClosed num fin) (w : Nat → α)
    (hw : ∀ p, fin (w p)) (S : SMap α) (hS : AllFinite fin S) : AllFinite fin (weightPixels w S) := by
  intro coil' hcoil' c' hc'
  unfold weightPixels divMapWith at hcoil'
  obtain ⟨coil, hcoil, rfl⟩ := List.mem_map.mp hcoil'
  obtain ⟨p, hp, rfl⟩ := List.mem_mapIdx.mp hc'
  obtain ⟨h1, h2⟩ := hS coil hcoil _ (List.getElem_mem hp)
  exact ⟨hc.mul _ _ h1 (hw p), hc.mul _ _ h2 (hw p)⟩

/-- the masked k-space of finite data is finite **whatever the mask values are** (the mask is only compared with
`0`, never multiplied in): `torch.where(mask == 0, 0, k)` -/
theorem maskPixels_finite (num : Num α) (fin : α → Prop) (hc : FiniteClosed num fin) (m : Nat → α)
    (S : SMap α) (hS : AllFinite fin S) : AllFinite fin (maskPixels m S) := by
  intro coil' hcoil' c' hc'
  unfold maskPixels at hcoil'
  obtain ⟨coil, hcoil, rfl⟩ := List.mem_map.mp hcoil'
  obtain ⟨p, hp, rfl⟩ := List.mem_mapIdx.mp hc'
  by_cases h : m p = 0
  · simp only [h, if_true]; exact ⟨hc.zero, hc.zero⟩
  · simp only [h, if_false]; exact hS coil hcoil _ (List.getElem_mem hp)

omit [Add α] [Mul α] in
/-- off the mask the ACS k-space is exactly zero, on the mask it is the data itself -/
theorem maskPixels_entry (m : Nat → α) (S : SMap α) (c p : Nat) :
    ((maskPixels m S)[c]?.bind (·[p]?)) =
      (S[c]?.bind (·[p]?)).map fun x => if m p = 0 then ((0 : α), (0 : α)) else x := by
  unfold maskPixels
  simp only [List.getElem?_map]
  cases S[c]? with
  | none => rfl
  | some coil => simp [List.getElem?_mapIdx]

/-- for a 0/1 mask over a semiring-like scalar type masking is the product with the mask (the form the code had
before): stated for ℝ -/
theorem maskPixels_eq_weightPixels_real (m : Nat → ℝ) (hm : ∀ p, m p = 0 ∨ m p = 1) (S : SMap ℝ) :
    maskPixels m S = weightPixels m S := by
  unfold maskPixels weightPixels divMapWith
  apply List.map_congr_left
  intro coil _
  congr 1
  funext p c
  rcases hm p with h | h <;> simp [h]

omit [DecidableEq α] in
/-- **`gaussWeight_finite`**: finite positive weights — every division of the window has a non-zero divisor
(`W - 1` for `W ≥ 2`, none for `W = 1`, `sigma ≠ 0` by the guard), so the weights are finite whatever `x / 0` is -/
theorem gaussWeight_finite (num : Num α) (wn : WinNum α) (fin : α → Prop) (hc : FiniteClosed num fin)
    (hi : ∀ n, fin (wn.ofInt n)) (he : ∀ x, fin x → fin (wn.expNeg x)) (hz : ∀ n : Int, n ≠ 0 → wn.ofInt n ≠ 0)
    (sigma : α) (hs : sigma ≠ 0) (hsf : fin sigma) (W j : Nat) : fin (gaussWeight num wn sigma W j) := by
  unfold gaussWeight gaussExponent
  apply he
  have hx : fin (linspaceCoord num wn W j) := by
    unfold linspaceCoord
    by_cases h : W ≤ 1
    · simp only [h, if_true]; exact hi _
    · simp only [h, if_false]; exact hc.div _ _ (hi _) (hi _) (hz _ (by omega))
  have hq := hc.div _ _ hx hsf hs
  exact hc.mul _ _ hq hq

/-- the masked / weighted ACS k-space of finite data is finite, for every option value -/
theorem acsKspace_finite (num : Num α) (wn : WinNum α) (fin : α → Prop) (hc : FiniteClosed num fin)
    (hi : ∀ n, fin (wn.ofInt n)) (he : ∀ x, fin x → fin (wn.expNeg x)) (hz : ∀ n : Int, n ≠ 0 → wn.ofInt n ≠ 0)
    (sigma : Option α) (hsf : ∀ s, sigma = some s → fin s) (W : Nat) (k : SMap α) (hk : AllFinite fin k)
    (m : Nat → α) : AllFinite fin (acsKspace num wn sigma W k m) := by
  unfold acsKspace
  cases hs : gaussianActive sigma with
  | none => exact maskPixels_finite num fin hc m k hk
  | some s =>
    have hs' : sigma = some s ∧ s ≠ 0 := by
      unfold gaussianActive at hs
      cases sigma with
      | none => simp at hs
      | some t =>
        by_cases ht : t = 0
        · simp [ht] at hs
        · simp only [ht, if_false, Option.some.injEq] at hs; subst hs; exact ⟨rfl, ht⟩
    simp only
    apply weightPixels_finite num fin hc _ _ _ (maskPixels_finite num fin hc m k hk)
    intro p
    exact gaussWeight_finite num wn fin hc hi he hz s hs'.2 (hsf s hs'.1) W _

/-- **`estimate_gauss_finite`**: the map estimated with or without Gaussian weighting is finite, for every
backward operator that keeps finite tensors finite -/
theorem estimate_gauss_finite (num : Num α) (wn : WinNum α) (fin : α → Prop) (hc : FiniteClosed num fin)
    (hi : ∀ n, fin (wn.ofInt n)) (he : ∀ x, fin x → fin (wn.expNeg x)) (hz : ∀ n : Int, n ≠ 0 → wn.ofInt n ≠ 0)
    (B : SMap α → SMap α) (hB : ∀ x, AllFinite fin x → AllFinite fin (B x))
    (sigma : Option α) (hsf : ∀ s, sigma = some s → fin s) (W : Nat) (k : SMap α) (hk : AllFinite fin k)
    (m : Nat → α) :
    AllFinite fin (estimateRSS num (estimateAcsImage num wn B sigma W k m)) := by
  apply estimateRSS_finite num fin hc
  exact hB _ (acsKspace_finite num wn fin hc hi he hz sigma hsf W k hk m)

end finite2

/-- the hypotheses are satisfiable (ℝ, integer casts are injective at 0) -/
example : ∀ n : Int, n ≠ 0 → realWin.ofInt n ≠ 0 := fun n hn => by simpa [realWin] using hn

/-! ## the three map types flow into the common tail; ESPIRiT's last step -/

theorem forward_rss_eq {α : Type} [Zero α] [One α] [Add α] [Mul α] [DecidableEq α] (num : Num α)
    (calib a : SMap α) (coils pixels : Nat) :
    forwardMap num .rssEstimate calib a coils pixels = estimateRSS num a := rfl

theorem forward_unit_eq {α : Type} [Zero α] [One α] [Add α] [Mul α] [DecidableEq α] (num : Num α)
    (calib a : SMap α) (coils pixels : Nat) :
    forwardMap num .unit calib a coils pixels = estimateUnit num coils pixels := rfl

/-- **`forward_normalised`**: whichever map type is configured — and whatever the ESPIRiT calibrator
returns — the module's output is unit-or-zero at every pixel. -/
theorem forward_normalised (ty : MapType) (calib a : SMap ℝ) (coils pixels p : Nat) :
    sumSqAt (forwardMap realNum ty calib a coils pixels) p = 1 ∨
    ∀ c ∈ fibre (forwardMap realNum ty calib a coils pixels) p, c = (0, 0) := by
  unfold forwardMap
  exact renorm_unit_or_zero _ p

/-- for ESPIRiT the zero case is exactly "the calibrator's map vanishes at the pixel" (eigenvalue cropped) -/
theorem forward_espirit_zero_iff (calib a : SMap ℝ) (coils pixels p : Nat) :
    (∀ c ∈ fibre (forwardMap realNum .espirit calib a coils pixels) p, c = (0, 0)) ↔
      (∀ c ∈ fibre calib p, c = (0, 0)) := by
  unfold forwardMap
  exact renorm_zero_iff _ p

theorem forward_indep_div_zero {α : Type} [Zero α] [One α] [Add α] [Mul α] [DecidableEq α] (num num' : Num α)
    (hs : num.sqrt = num'.sqrt) (hd : ∀ a b, b ≠ 0 → num.div a b = num'.div a b) (ty : MapType)
    (calib a : SMap α) (coils pixels : Nat) :
    forwardMap num ty calib a coils pixels = forwardMap num' ty calib a coils pixels := by
  cases ty
  · exact renorm_indep_div_zero num num' hs hd _
  · exact estimateRSS_indep_div_zero num num' hs hd a
  · exact renorm_indep_div_zero num num' hs hd _

theorem forward_finite {α : Type} [Zero α] [One α] [Add α] [Mul α] [DecidableEq α] (num : Num α)
    (fin : α → Prop) (hc : FiniteClosed num fin) (h1 : fin 1) (ty : MapType) (calib a : SMap α)
    (hcal : AllFinite fin calib) (ha : AllFinite fin a) (coils pixels : Nat) :
    AllFinite fin (forwardMap num ty calib a coils pixels) := by
  unfold forwardMap
  apply renorm_finite num fin hc
  cases ty
  · intro coil hcoil c hcc
    unfold unitMap at hcoil
    rw [List.mem_replicate] at hcoil
    rw [hcoil.2, List.mem_replicate] at hcc
    rw [hcc.2]
    exact ⟨h1, hc.zero⟩
  · exact renorm_finite num fin hc a ha
  · exact hcal

/-- ESPIRiT's `x * conj x / |x|` is the modulus of the entry … -/
theorem espiritPhase_real (c : ℝ × ℝ) : espiritPhase realNum c = (Real.sqrt (Sens.sq c), 0) := by
  unfold espiritPhase realNum
  simp only [Real.div_sqrt]

theorem sq_espiritPhase (c : ℝ × ℝ) : Sens.sq (espiritPhase realNum c) = Sens.sq c := by
  rw [espiritPhase_real]
  unfold Sens.sq
  simp only [mul_zero, add_zero]
  exact Real.mul_self_sqrt (sq_nonneg_cx c)

/-- … so the step keeps the per-pixel normalisation the power method established (`Σ|x_i|² = 1` stays `1`
where the eigenvalue passes the crop threshold, `0` where it does not) -/
theorem sumSqAt_espiritTail (x : SMap ℝ) (keep : Nat → ℝ) (p : Nat) :
    sumSqAt (espiritTail realNum x keep) p = keep p * keep p * sumSqAt x p := by
  unfold espiritTail
  rw [sumSqAt_weightPixels]
  congr 1
  unfold sumSqAt fibre
  rw [List.filterMap_map]
  have : (List.filterMap ((fun x => x[p]?) ∘ fun coil => List.map (espiritPhase realNum) coil) x)
      = (List.filterMap (fun x => x[p]?) x).map (espiritPhase realNum) := by
    rw [List.map_filterMap]
    congr 1
    funext coil
    simp [Function.comp, List.getElem?_map]
  rw [this, List.map_map]
  congr 1
  apply List.map_congr_left
  intro c _
  exact sq_espiritPhase c

/-- **but the division is unguarded**: over a type with `x / 0` = poison the step returns poison for a
zero entry (float32: `0 * 0 / 0 = NaN`), and `safe_divide` in the common tail does not remove it -/
theorem espirit_phase_unguarded : espiritPhase ratNum ((0 : Rat), (0 : Rat)) = (1000003, 0) := by decide +kernel

/-! ## which refinement model is applied; channel-first permutations -/

theorem modelChoice_single_coil (h2 h3 : Bool) (nd : Int) : modelChoice false h2 h3 nd = 0 := by
  simp [modelChoice]

theorem modelChoice_no_model (mc : Bool) (nd : Int) : modelChoice mc false false nd = 0 := by
  simp [modelChoice]

/-- 3-D data prefer the 3-D model; the 2-D model is applied slice by slice only when there is no 3-D one -/
theorem modelChoice_3d (h2 : Bool) (nd : Int) (hnd : nd ≠ 2) : modelChoice true h2 true nd = 2 := by
  simp [modelChoice, hnd]

theorem modelChoice_2d (h3 : Bool) : modelChoice true true h3 2 = 1 := by
  simp [modelChoice]

theorem perm2d_roundtrip (n c h w k : Nat) :
    permuteShape permIn2d [n, c, h, w, k] = [n, c, k, h, w] ∧
    permuteShape permOut2d (permuteShape permIn2d [n, c, h, w, k]) = [n, c, h, w, k] := by
  constructor <;> rfl

theorem perm3d_roundtrip (n c s h w k : Nat) :
    permuteShape permIn3d [n, c, s, h, w, k] = [n, c, k, s, h, w] ∧
    permuteShape permOut3d (permuteShape permIn3d [n, c, s, h, w, k]) = [n, c, s, h, w, k] := by
  constructor <;> rfl

example : permInverse permIn2d permOut2d = true ∧ permInverse permIn3d permOut3d = true := by decide


/-! ## magnitudes: the documented float32 range `2^-60 … 2^60`

Statements over ℝ about the *sizes* of the intermediates of `renorm` at one pixel.  float32 has normal numbers
from `2^-126` up to (just below) `2^128`; an operation whose exact result lies in that range is rounded with relative
error `≤ 2^-24` and neither overflows nor underflows.  `rangeLo = 2^-60`, `rangeHi = 2^60`. -/

/-- **`sumsq_in_normal_range`**: at a pixel with at most 64 coils (128 real entries) whose entries are all
`≤ 2^60` in magnitude and one of which is `≥ 2^-60`, every square is `≤ 2^120`, the sum of squares lies in
`[2^-120, 2^127]` — inside the float32 normal range: no overflow, no underflow. -/
theorem sumsq_in_normal_range (v : List (ℝ × ℝ)) (hlen : v.length ≤ 64)
    (hub : ∀ c ∈ v, |c.1| ≤ rangeHi ∧ |c.2| ≤ rangeHi)
    (hlb : ∃ c ∈ v, rangeLo ≤ |c.1| ∨ rangeLo ≤ |c.2|) :
    rangeLo * rangeLo ≤ (v.map Sens.sq).sum ∧ (v.map Sens.sq).sum ≤ 2 ^ 127 := by
  constructor
  · obtain ⟨c, hc, h⟩ := hlb
    have hlo : (0 : ℝ) ≤ rangeLo := by unfold rangeLo; positivity
    have h1 : rangeLo * rangeLo ≤ Sens.sq c := by
      unfold Sens.sq
      rcases h with h | h
      · have := mul_self_ge_of_abs_ge c.1 rangeLo hlo h
        nlinarith [mul_self_nonneg c.2]
      · have := mul_self_ge_of_abs_ge c.2 rangeLo hlo h
        nlinarith [mul_self_nonneg c.1]
    exact le_trans h1 (sq_le_sumsq v c hc)
  · have h := sumsq_le_length v rangeHi hub
    have hl : (v.length : ℝ) ≤ 64 := by exact_mod_cast hlen
    have hb : (0 : ℝ) ≤ 2 * (rangeHi * rangeHi) := by unfold rangeHi; positivity
    calc (v.map Sens.sq).sum ≤ v.length * (2 * (rangeHi * rangeHi)) := h
      _ ≤ 64 * (2 * (rangeHi * rangeHi)) := mul_le_mul_of_nonneg_right hl hb
      _ = 2 ^ 127 := by unfold rangeHi; norm_num

/-- hence the norm the code divides by lies in `[2^-60, 2^64]` … -/
theorem norm_in_normal_range (v : List (ℝ × ℝ)) (hlen : v.length ≤ 64)
    (hub : ∀ c ∈ v, |c.1| ≤ rangeHi ∧ |c.2| ≤ rangeHi)
    (hlb : ∃ c ∈ v, rangeLo ≤ |c.1| ∨ rangeLo ≤ |c.2|) :
    rangeLo ≤ Real.sqrt (v.map Sens.sq).sum ∧ Real.sqrt (v.map Sens.sq).sum ≤ 2 ^ 64 := by
  obtain ⟨h1, h2⟩ := sumsq_in_normal_range v hlen hub hlb
  have hlo : (0 : ℝ) ≤ rangeLo := by unfold rangeLo; positivity
  constructor
  · calc rangeLo = Real.sqrt (rangeLo * rangeLo) := (Real.sqrt_mul_self hlo).symm
      _ ≤ Real.sqrt (v.map Sens.sq).sum := Real.sqrt_le_sqrt h1
  · calc Real.sqrt (v.map Sens.sq).sum ≤ Real.sqrt (2 ^ 64 * 2 ^ 64) :=
          Real.sqrt_le_sqrt (le_trans h2 (by norm_num))
      _ = 2 ^ 64 := Real.sqrt_mul_self (by positivity)

/-- … and a quotient `x / norm` is at most `1` in magnitude (never overflows) and, for an entry of magnitude
`≥ 2^-60`, at least `2^-124` (a normal float32, no underflow). -/
theorem quotient_in_normal_range (v : List (ℝ × ℝ)) (hlen : v.length ≤ 64)
    (hub : ∀ c ∈ v, |c.1| ≤ rangeHi ∧ |c.2| ≤ rangeHi)
    (c : ℝ × ℝ) (hc : c ∈ v) (hx : rangeLo ≤ |c.1|) :
    1 / 2 ^ 124 ≤ |c.1 / Real.sqrt (v.map Sens.sq).sum| ∧ |c.1 / Real.sqrt (v.map Sens.sq).sum| ≤ 1 := by
  obtain ⟨h1, h2⟩ := norm_in_normal_range v hlen hub ⟨c, hc, Or.inl hx⟩
  have hlo : (0 : ℝ) < rangeLo := by unfold rangeLo; positivity
  have hn : 0 < Real.sqrt (v.map Sens.sq).sum := lt_of_lt_of_le hlo h1
  rw [abs_div, abs_of_pos hn]
  constructor
  · rw [le_div_iff₀ hn]
    calc 1 / 2 ^ 124 * Real.sqrt (v.map Sens.sq).sum ≤ 1 / 2 ^ 124 * 2 ^ 64 :=
          mul_le_mul_of_nonneg_left h2 (by positivity)
      _ = rangeLo := by unfold rangeLo; norm_num
      _ ≤ |c.1| := hx
  · rw [div_le_one hn]
    have hsq : c.1 * c.1 ≤ (v.map Sens.sq).sum := by
      have h3 := sq_le_sumsq v c hc
      have h4 : c.1 * c.1 ≤ Sens.sq c := by unfold Sens.sq; nlinarith [mul_self_nonneg c.2]
      exact le_trans h4 h3
    calc |c.1| = Real.sqrt (c.1 * c.1) := (Real.sqrt_mul_self_eq_abs c.1).symm
      _ ≤ Real.sqrt (v.map Sens.sq).sum := Real.sqrt_le_sqrt hsq

/-- the hypotheses are satisfiable, at both ends of the range at once -/
example : ∃ v : List (ℝ × ℝ), v.length ≤ 64 ∧ (∀ c ∈ v, |c.1| ≤ rangeHi ∧ |c.2| ≤ rangeHi) ∧
    (∃ c ∈ v, rangeLo ≤ |c.1| ∨ rangeLo ≤ |c.2|) :=
  ⟨[(rangeHi, 0), (rangeLo, 0)], by simp, by
    have h0 : (0 : ℝ) ≤ rangeHi := by unfold rangeHi; positivity
    simp [abs_of_nonneg h0, h0]
    unfold rangeLo rangeHi; rw [abs_of_nonneg (by positivity)]; norm_num,
   ⟨(rangeHi, 0), by simp, Or.inl (by
    have h0 : (0 : ℝ) ≤ rangeHi := by unfold rangeHi; positivity
    rw [abs_of_nonneg h0]; unfold rangeLo rangeHi; norm_num)⟩⟩

/-- where the range ends (witnesses): a single entry of magnitude `2^64` has a square `2^128`, above every finite
float32 (`< 2^128`): the squared sum overflows to `inf` and the map degenerates to `0`; an entry of magnitude `2^-75`
has a square `2^-150`, below half the smallest positive float32 (`2^-149`): it rounds to `0` and the pixel is treated
as having no signal.  The documented range `2^±60` keeps a margin for up to 64 coils and for the quotient. -/
theorem range_end_witnesses :
    Sens.sq (((2 : ℝ) ^ 64), 0) = 2 ^ 128 ∧ Sens.sq ((1 / (2 : ℝ) ^ 75), 0) = 1 / 2 ^ 150 ∧
    (1 / (2 : ℝ) ^ 150 < 1 / 2 ^ 149) := by
  unfold Sens.sq
  refine ⟨by norm_num, by norm_num, by norm_num⟩

/-- with 64 coils all at `2^60` the bound `2^127` is attained: the range cannot be widened without lowering the coil count -/
theorem range_bound_attained :
    ((List.replicate 64 (((2 : ℝ) ^ 60), ((2 : ℝ) ^ 60))).map Sens.sq).sum = 2 ^ 127 := by
  simp only [List.map_replicate, List.sum_replicate, Sens.sq]
  norm_num


end DirectVerif.C09
