import DirectVerif.Lemmas.C16Module
import DirectVerif.Lemmas.C16Events
/-!
# C16 — an optimiser step uses the mean gradient of all accumulated batches

All statements are about `Train.iter` / `Train.runRange` (`Model/Train.lean`), i.e. the interpretation
of the statement table `Train.loopTable` that the translator regenerates from
`Engine.training_loop` (`Bridge/C16.lean`) and that the driver executes against the real loop.
Model, loss, clipping and optimiser are arbitrary (`Ops`); `k = cfg.k = gradient_steps ≥ 1`.

Finding kept visible here: a checkpoint does not contain the accumulated gradients, so a resume at an
iteration that is not a multiple of `k` loses the part of the window accumulated before the checkpoint
(`resume_mid_window_first_step`, `resume_mid_window_violates`); what does hold is
`resume_window_boundary_partial`.
-/
namespace DirectVerif.C16
open DirectVerif DirectVerif.Train

variable {P O G B L Sc : Type}

/-- **Accumulated step = step on everything accumulated over the window.**  From an empty accumulator
at an iteration `it0 ≡ 0 (mod k)`, `k` iterations perform exactly one optimiser step, at the last of
them, at the window's parameters `s.theta`, on `received (g(θ,b_it0) + … + g(θ,b_{it0+k-1}))`
(`received` = `div_(k)` when `k > 1`, then the optional clipping), with the learning rate of
`last_epoch = s.epoch + k - 1`; the accumulator is empty again and the schedule has advanced `k` times. -/
theorem accumulated_step (ops : Ops P O G B L Sc) (lrAt : Nat → L) (cfg : Cfg) (batch : Nat → B)
    (s : St P O G Sc) (it0 : Nat) (hk : 0 < cfg.k) (h0 : it0 % cfg.k = 0) :
    runRange ops lrAt cfg batch s it0 cfg.k =
      stepWith ops lrAt cfg s (windowSum ops batch s.theta it0 cfg.k s.grad) (s.epoch + cfg.k) := by
  have := runRange_first_step ops lrAt cfg batch s it0 0 h0 hk
  simpa using this

/-- **The optimiser receives the mean of the `k` most recent batches' gradients** (gradients in any
ℚ-module, `div_(k)` = multiplication by `1/k`): `(1/k) • Σ_{j<k} ∇loss(θ_window, batch_{it0+j})`,
clipped when clipping is on. -/
theorem accumulated_step_is_mean [AddCommGroup G] [Module ℚ G]
    (grad : P → B → G) (clip : G → G) (opt : L → P → O → G → P × O) (supd : Sc → Sc)
    (lrAt : Nat → L) (cfg : Cfg) (batch : Nat → B) (s : St P O G Sc) (it0 : Nat)
    (hk : 0 < cfg.k) (h0 : it0 % cfg.k = 0) (hg : s.grad = 0) :
    let mean : G := ((cfg.k : ℚ))⁻¹ • ∑ j ∈ Finset.range cfg.k, grad s.theta (batch (it0 + j))
    let g := if cfg.clipOn then clip mean else mean
    runRange (moduleOps grad clip opt supd : Ops P O G B L Sc) lrAt cfg batch s it0 cfg.k =
      { theta := (opt (lrAt (s.epoch + cfg.k - 1)) s.theta s.ostate g).1,
        ostate := (opt (lrAt (s.epoch + cfg.k - 1)) s.theta s.ostate g).2,
        grad := 0, epoch := s.epoch + cfg.k, scaler := supd s.scaler } := by
  intro mean g
  rw [accumulated_step (moduleOps grad clip opt supd : Ops P O G B L Sc) lrAt cfg batch s it0 hk h0,
    windowSum_eq_sum (moduleOps grad clip opt supd : Ops P O G B L Sc) rfl, hg, zero_add]
  have hr : received (moduleOps grad clip opt supd : Ops P O G B L Sc) cfg
      (∑ j ∈ Finset.range cfg.k, (moduleOps grad clip opt supd : Ops P O G B L Sc).grad s.theta (batch (it0 + j))) = g := by
    by_cases h1 : cfg.k > 1
    · simp [received, h1, moduleOps, g, mean]
    · have : cfg.k = 1 := by omega
      simp [received, this, moduleOps, g, mean]
  simp only [stepWith, hr]
  rfl

/-- **`k = 1`: every batch produces exactly one step with its own gradient** (no division). -/
theorem k1_every_batch_one_step (ops : Ops P O G B L Sc) (lrAt : Nat → L) (cfg : Cfg) (hk : cfg.k = 1)
    (s : St P O G Sc) (it : Nat) (b : B) :
    let g := if cfg.clipOn then ops.clip (ops.add s.grad (ops.grad s.theta b)) else ops.add s.grad (ops.grad s.theta b)
    iter ops lrAt cfg s it b =
      { theta := (ops.opt (lrAt s.epoch) s.theta s.ostate g).1,
        ostate := (ops.opt (lrAt s.epoch) s.theta s.ostate g).2,
        grad := ops.zero, epoch := s.epoch + 1, scaler := ops.supd s.scaler } := by
  intro g
  rw [iter_step ops lrAt cfg s it b (by rw [hk]; exact Nat.mod_one _)]
  simp [received, accum, hk, g]

/-- **The LR schedule advances exactly once per iteration** — in every iteration, step or not; in an
uninterrupted run (`epoch = 0` at iteration 0) iteration `i` therefore uses `lrAt i`. -/
theorem lr_advances_once_per_iteration (ops : Ops P O G B L Sc) (lrAt : Nat → L) (cfg : Cfg) (batch : Nat → B)
    (s : St P O G Sc) (it : Nat) (b : B) (a n : Nat) :
    (iter ops lrAt cfg s it b).epoch = s.epoch + 1 ∧
    (runRange ops lrAt cfg batch s a n).epoch = s.epoch + n :=
  ⟨iter_epoch ops lrAt cfg s it b, runRange_epoch ops lrAt cfg batch s a n⟩

/-- **No gradient is dropped or counted twice**: at every moment of every run, what the optimiser steps
have consumed so far (`delivered`: the undivided accumulator at each step, i.e. `k ·` the mean) plus
what is still pending in `.grad` equals what was there initially plus the gradient of every `backward`
so far (`seen`), each exactly once. -/
theorem no_gradient_dropped_or_doubled [AddCommMonoid G]
    (grad : P → B → G) (divk : Nat → G → G) (clip : G → G) (opt : L → P → O → G → P × O) (supd : Sc → Sc)
    (lrAt : Nat → L) (cfg : Cfg) (batch : Nat → B) (s : St P O G Sc) (a n : Nat) :
    (delivered (addOps grad divk clip opt supd : Ops P O G B L Sc) lrAt cfg batch s a n).sum
        + (runRange (addOps grad divk clip opt supd : Ops P O G B L Sc) lrAt cfg batch s a n).grad
      = s.grad + (seen (addOps grad divk clip opt supd : Ops P O G B L Sc) lrAt cfg batch s a n).sum := by
  induction n with
  | zero => simp [delivered, seen, runRange_zero]
  | succ n ih =>
    have e1 : ∀ x y : G, (addOps grad divk clip opt supd : Ops P O G B L Sc).add x y = x + y := fun _ _ => rfl
    have e2 : (addOps grad divk clip opt supd : Ops P O G B L Sc).zero = 0 := rfl
    have e3 : (addOps grad divk clip opt supd : Ops P O G B L Sc).grad = grad := rfl
    by_cases h : (a + n + 1) % cfg.k = 0
    · rw [runRange_succ, iter_step _ _ _ _ _ _ h]
      simp only [delivered, seen, h, beq_self_eq_true, if_true, List.sum_cons, accum, e1, e2, e3, add_zero]
      have key : ∀ (d gn sg S g : G), d + gn = sg + S → gn + g + d = sg + (g + S) := by
        intro d gn sg S g hh
        calc gn + g + d = (d + gn) + g := by abel
          _ = (sg + S) + g := by rw [hh]
          _ = _ := by abel
      exact key _ _ _ _ _ ih
    · rw [runRange_succ, iter_nostep _ _ _ _ _ _ h]
      have hb : ((a + n + 1) % cfg.k == 0) = false := by simpa using h
      simp only [delivered, seen, hb, Bool.false_eq_true, if_false, List.sum_cons, accum, e1, e3]
      have key : ∀ (d gn sg S g : G), d + gn = sg + S → d + (gn + g) = sg + (g + S) := by
        intro d gn sg S g hh
        calc d + (gn + g) = (d + gn) + g := by abel
          _ = (sg + S) + g := by rw [hh]
          _ = _ := by abel
      exact key _ _ _ _ _ ih

/-- for iteration counts that are multiples of `k` (from an empty accumulator at a window boundary)
nothing is pending: the steps consumed exactly the sum of all batch gradients -/
theorem no_gradient_dropped_or_doubled_whole_windows [AddCommMonoid G]
    (grad : P → B → G) (divk : Nat → G → G) (clip : G → G) (opt : L → P → O → G → P × O) (supd : Sc → Sc)
    (lrAt : Nat → L) (cfg : Cfg) (batch : Nat → B) (s : St P O G Sc) (a m : Nat)
    (h0 : a % cfg.k = 0) (hg : s.grad = 0) :
    (delivered (addOps grad divk clip opt supd : Ops P O G B L Sc) lrAt cfg batch s a (cfg.k * m)).sum
      = (seen (addOps grad divk clip opt supd : Ops P O G B L Sc) lrAt cfg batch s a (cfg.k * m)).sum := by
  have h := no_gradient_dropped_or_doubled grad divk clip opt supd lrAt cfg batch s a (cfg.k * m)
  rw [hg, zero_add] at h
  by_cases hm : cfg.k * m = 0
  · rw [hm]; simp [delivered, seen]
  · have hz := runRange_grad_zero (addOps grad divk clip opt supd : Ops P O G B L Sc) lrAt cfg batch s a (cfg.k * m)
      (by rw [Nat.add_mod, h0, Nat.mul_mod_right]; simp) (by omega)
    rw [hz] at h
    simpa [addOps] using h

/-- **The whole run is a sequence of mean steps**: `m` windows from a window boundary with an empty
accumulator = `m` applications of the one-window step; window `w` uses exactly the batches
`it0 + k·w … it0 + k·w + k − 1`. -/
theorem run_is_sequence_of_window_steps (ops : Ops P O G B L Sc) (lrAt : Nat → L) (cfg : Cfg) (batch : Nat → B)
    (s : St P O G Sc) (it0 m : Nat) (hk : 0 < cfg.k) (h0 : it0 % cfg.k = 0) :
    runRange ops lrAt cfg batch s it0 (cfg.k * m) =
      (List.range m).foldl (fun s w =>
        stepWith ops lrAt cfg s (windowSum ops batch s.theta (it0 + cfg.k * w) cfg.k s.grad) (s.epoch + cfg.k)) s := by
  induction m with
  | zero => simp [runRange_zero]
  | succ m ih =>
    rw [Nat.mul_succ, runRange_add, ih, List.range_succ, List.foldl_append]
    simp only [List.foldl_cons, List.foldl_nil]
    exact accumulated_step ops lrAt cfg batch _ (it0 + cfg.k * m) hk
      (by rw [Nat.add_mod, h0, Nat.mul_mod_right]; simp)

/-! ## resume in the middle of an accumulation window -/

/-- **What holds after a resume mid-window.**  A checkpoint restores `θ`, optimiser, scheduler, scaler
but not `.grad`.  Resuming at `start` with `start % k = r`, `0 < r`: the first optimiser step comes
after `k − r` iterations and receives `div_(k)` of the sum of only these `k − r` batches — the `r`
batches of the window processed before the checkpoint are lost, the divisor stays `k`. -/
theorem resume_mid_window_first_step (ops : Ops P O G B L Sc) (lrAt : Nat → L) (cfg : Cfg) (batch : Nat → B)
    (c : Snap P O Sc) (start r : Nat) (hr : start % cfg.k = r) (hrk : r < cfg.k) :
    runRange ops lrAt cfg batch (restore ops.zero c) start (cfg.k - r) =
      stepWith ops lrAt cfg (restore ops.zero c)
        (windowSum ops batch c.theta start (cfg.k - r) ops.zero) (c.epoch + (cfg.k - r)) :=
  runRange_first_step ops lrAt cfg batch (restore ops.zero c) start r hr hrk

/-- the property as stated fails for a resume mid-window: `k = 2`, batches with gradients
`2, 4, …, 16`, lr 1, checkpoint after iteration 6 (label 6, `start = 7`): the uninterrupted run ends
at `θ = −36`, the resumed one at `θ = −29` (the gradient of batch 6 is lost). -/
theorem resume_mid_window_violates :
    let cfg : Cfg := { k := 2 }
    let batch : Nat → Int := fun i => 2 * (i + 1)
    let init : St Int Unit Int Unit := ⟨0, (), 0, 0, ()⟩
    let U := runRange Toy.intOps (fun _ => (1 : Int)) cfg batch init 0
    (runRange Toy.intOps (fun _ => (1 : Int)) cfg batch (restore 0 (snapshot (U 7))) 7 1).theta ≠ (U 8).theta := by
  decide

/-- **partial**: resuming at a window boundary (`start % k = 0`, always the case for `k = 1`)
reproduces the uninterrupted run -/
theorem resume_window_boundary_partial (ops : Ops P O G B L Sc) (lrAt : Nat → L) (cfg : Cfg) (batch : Nat → B)
    (init : St P O G Sc) (t n : Nat) (hb : (t + 1) % cfg.k = 0) :
    runRange ops lrAt cfg batch (restore ops.zero (snapshot (runRange ops lrAt cfg batch init 0 (t + 1)))) (t + 1) n
      = runRange ops lrAt cfg batch init 0 (t + 1 + n) := by
  have hz := runRange_grad_zero ops lrAt cfg batch init 0 (t + 1) (by simpa using hb) (by omega)
  have e : ∀ u : St P O G Sc, u.grad = ops.zero → restore ops.zero (snapshot u) = u := by
    intro u hu; cases u; simp_all [restore, snapshot]
  rw [e _ hz, runRange_add ops lrAt cfg batch init 0 (t + 1) n, Nat.zero_add]

/-- the pinned tree (`zero_grad()` after every iteration) violates the property: `k = 2`, gradients
2 then 4, lr 1: the mean step gives `θ = −3`, the pinned loop `θ = −2` (only the last batch, halved) -/
theorem zero_grad_pinned_violates :
    let cfg : Cfg := { k := 2 }
    let batch : Nat → Int := fun i => 2 * (i + 1)
    let init : St Int Unit Int Unit := ⟨0, (), 0, 0, ()⟩
    (runRangeT loopTablePinned Toy.intOps (fun _ => (1 : Int)) cfg batch init 0 2).theta = -2 ∧
    (runRange Toy.intOps (fun _ => (1 : Int)) cfg batch init 0 2).theta = -3 := by
  decide

/-! ## additional models (`self.models`), trailing iterations, OOM recovery -/

/-- **Additional models** (`self.models`, e.g. `sensitivity_model`, whose parameters `direct/train.py` puts into the
same optimiser): the loop divides (and clips) the gradients of `self.model` *and* of every additional model
(`Bridge/C16.lean : div_scope_eq`), i.e. the gradient space is the product `G × H` and `accumulated_step_is_mean` applies
to it — both groups receive the mean. -/
theorem additional_models_receive_mean {H : Type} [AddCommGroup G] [Module ℚ G] [AddCommGroup H] [Module ℚ H]
    (grad : P → B → G × H) (clip : G × H → G × H) (opt : L → P → O → G × H → P × O) (supd : Sc → Sc)
    (lrAt : Nat → L) (cfg : Cfg) (batch : Nat → B) (s : St P O (G × H) Sc) (it0 : Nat)
    (hk : 0 < cfg.k) (h0 : it0 % cfg.k = 0) (hg : s.grad = 0) :
    let tot : G × H := ∑ j ∈ Finset.range cfg.k, grad s.theta (batch (it0 + j))
    let g0 : G × H := (((cfg.k : ℚ))⁻¹ • tot.1, ((cfg.k : ℚ))⁻¹ • tot.2)
    let g := if cfg.clipOn then clip g0 else g0
    runRange (moduleOps grad clip opt supd : Ops P O (G × H) B L Sc) lrAt cfg batch s it0 cfg.k =
      { theta := (opt (lrAt (s.epoch + cfg.k - 1)) s.theta s.ostate g).1,
        ostate := (opt (lrAt (s.epoch + cfg.k - 1)) s.theta s.ostate g).2,
        grad := 0, epoch := s.epoch + cfg.k, scaler := supd s.scaler } :=
  accumulated_step_is_mean grad clip opt supd lrAt cfg batch s it0 hk h0 hg

/-- the pinned tree divided only `self.model.parameters()`: the additional group received the **sum** -/
theorem additional_models_pinned_receive_sum {H : Type} [AddCommGroup G] [Module ℚ G] [AddCommGroup H] [Module ℚ H]
    (grad : P → B → G × H) (clip : G × H → G × H) (opt : L → P → O → G × H → P × O) (supd : Sc → Sc)
    (lrAt : Nat → L) (cfg : Cfg) (batch : Nat → B) (s : St P O (G × H) Sc) (it0 : Nat)
    (hk : 1 < cfg.k) (h0 : it0 % cfg.k = 0) (hg : s.grad = 0) :
    let tot : G × H := ∑ j ∈ Finset.range cfg.k, grad s.theta (batch (it0 + j))
    let g0 : G × H := (((cfg.k : ℚ))⁻¹ • tot.1, tot.2)
    let g := if cfg.clipOn then clip g0 else g0
    runRange (moduleOps2Pinned grad clip opt supd : Ops P O (G × H) B L Sc) lrAt cfg batch s it0 cfg.k =
      { theta := (opt (lrAt (s.epoch + cfg.k - 1)) s.theta s.ostate g).1,
        ostate := (opt (lrAt (s.epoch + cfg.k - 1)) s.theta s.ostate g).2,
        grad := 0, epoch := s.epoch + cfg.k, scaler := supd s.scaler } := by
  intro tot g0 g
  rw [accumulated_step (moduleOps2Pinned grad clip opt supd : Ops P O (G × H) B L Sc) lrAt cfg batch s it0 (by omega) h0,
    windowSum_eq_sum (moduleOps2Pinned grad clip opt supd : Ops P O (G × H) B L Sc) rfl, hg, zero_add]
  have hr : received (moduleOps2Pinned grad clip opt supd : Ops P O (G × H) B L Sc) cfg
      (∑ j ∈ Finset.range cfg.k, (moduleOps2Pinned grad clip opt supd : Ops P O (G × H) B L Sc).grad s.theta (batch (it0 + j))) = g := by
    simp [received, hk, moduleOps2Pinned, g, g0, tot]
  simp only [stepWith, hr]
  rfl

/-- regression witness: `k = 2`, gradients 2 then 4 for both groups, lr 1: main parameter `−3` (mean), additional
parameter `−6` (sum) on the pinned tree -/
theorem additional_models_pinned_violates :
    let cfg : Cfg := { k := 2 }
    let batch : Nat → Int := fun i => 2 * (i + 1)
    let init : St (Int × Int) Unit (Int × Int) Unit := ⟨(0, 0), (), (0, 0), 0, ()⟩
    (runRange Toy.intOps2Pinned (fun _ => (1 : Int)) cfg batch init 0 2).theta = (-3, -6) := by
  decide

/-- **Iterations after the last complete window are never applied**: from a boundary with an empty accumulator,
`k·m + r` iterations (`r < k`) leave the parameters, optimiser state of the `k·m`-iteration run; the last `r` batch
gradients are pending in `.grad` (and are lost when training ends there), the schedule has advanced `r` more times. -/
theorem trailing_iterations_pending (ops : Ops P O G B L Sc) (lrAt : Nat → L) (cfg : Cfg) (batch : Nat → B)
    (s : St P O G Sc) (it0 m r : Nat) (h0 : it0 % cfg.k = 0) (hr : r < cfg.k) (hg : s.grad = ops.zero) :
    let s' := runRange ops lrAt cfg batch s it0 (cfg.k * m)
    runRange ops lrAt cfg batch s it0 (cfg.k * m + r) =
      { s' with grad := windowSum ops batch s'.theta (it0 + cfg.k * m) r ops.zero, epoch := s'.epoch + r } := by
  intro s'
  have hb : (it0 + cfg.k * m) % cfg.k = 0 := by rw [Nat.add_mod, h0, Nat.mul_mod_right]; simp
  have hz : s'.grad = ops.zero := by
    by_cases hm : cfg.k * m = 0
    · simp only [s', hm]; exact hg
    · exact runRange_grad_zero ops lrAt cfg batch s it0 (cfg.k * m) hb (by omega)
  rw [runRange_add, runRange_no_boundary ops lrAt cfg batch s' (it0 + cfg.k * m) r
    (fun j hj => mod_window cfg.k (it0 + cfg.k * m) 0 j hb (by omega)), hz]

/-- **OOM recovery** (`zero_grad(); continue`): the skipped iteration changes neither parameters nor optimiser nor
`last_epoch`, and empties the accumulator -/
theorem oom_skip_state (ops : Ops P O G B L Sc) (s : St P O G Sc) :
    (oomSkip ops s).theta = s.theta ∧ (oomSkip ops s).ostate = s.ostate ∧ (oomSkip ops s).epoch = s.epoch ∧
    (oomSkip ops s).grad = ops.zero := ⟨rfl, rfl, rfl, rfl⟩

/-- … so the schedule lags: after `n` iterations of which `c` were skipped, `last_epoch = n − c` (the learning rate of
iteration `i` is `lrAt (i − skips before i)`, not `lrAt i`) -/
theorem oom_skip_schedule_lags (ops : Ops P O G B L Sc) (lrAt : Nat → L) (cfg : Cfg) (batch : Nat → B)
    (oom : Nat → Bool) (s : St P O G Sc) (a n : Nat) :
    (runRangeO ops lrAt cfg batch oom s a n).epoch + oomCount oom a n = s.epoch + n :=
  runRangeO_epoch ops lrAt cfg batch oom s a n

/-- … and a skip inside a window loses the window's earlier batches: one OOM at iteration `it0 + j` of the window
starting at the boundary `it0` (`j + 1 < k`): the step at the end of the window is taken on `div_(k)` of the sum of
only the `k − j − 1` batches *after* the skip, at learning rate `lrAt (epoch + k − 2)` -/
theorem oom_skip_mid_window (ops : Ops P O G B L Sc) (lrAt : Nat → L) (cfg : Cfg) (batch : Nat → B)
    (s : St P O G Sc) (it0 j : Nat) (h0 : it0 % cfg.k = 0) (hj : j + 1 < cfg.k) :
    let oom : Nat → Bool := fun i => i == it0 + j
    let s1 := oomSkip ops (runRange ops lrAt cfg batch s it0 j)
    runRangeO ops lrAt cfg batch oom s it0 cfg.k =
      stepWith ops lrAt cfg s1 (windowSum ops batch s1.theta (it0 + j + 1) (cfg.k - (j + 1)) ops.zero)
        (s1.epoch + (cfg.k - (j + 1))) := by
  intro oom s1
  have e : cfg.k = j + 1 + (cfg.k - (j + 1)) := by omega
  have h1 : runRangeO ops lrAt cfg batch oom s it0 (j + 1) = s1 := by
    rw [runRangeO_succ, runRangeO_no_oom ops lrAt cfg batch oom s it0 j
      (fun i hi => by simp only [oom, beq_eq_false_iff_ne, ne_eq]; omega)]
    simp [oom, s1]
  have h2 : runRangeO ops lrAt cfg batch oom s1 (it0 + (j + 1)) (cfg.k - (j + 1))
      = runRange ops lrAt cfg batch s1 (it0 + (j + 1)) (cfg.k - (j + 1)) :=
    runRangeO_no_oom ops lrAt cfg batch oom s1 _ _ (fun i hi => by simp only [oom, beq_eq_false_iff_ne, ne_eq]; omega)
  conv => lhs; rw [e]
  rw [runRangeO_add, h1, h2]
  have hm : (it0 + (j + 1)) % cfg.k = j + 1 := by
    rw [Nat.add_mod, h0, Nat.zero_add, Nat.mod_mod, Nat.mod_eq_of_lt hj]
  have := runRange_first_step ops lrAt cfg batch s1 (it0 + (j + 1)) (j + 1) hm hj
  rw [this]
  have hs1 : s1.grad = ops.zero := rfl
  rw [hs1, Nat.add_assoc]

/-! ## between iterations: validation rounds, checkpoints, log writes, the kill path, stop and resume

`C16E.history` (`Model/C16Events.lean`) runs processes of `Engine.train` with everything the loop body does around the
gradient statements, interpreting the table of touching statements that the translator regenerates from `validation_loop`,
`evaluate`, `reconstruct_volumes`, `checkpoint_model_at_interval`, `Checkpointer.save`, `write_to_logs…`,
`checkpoint_and_write_to_logs`, `log_first_training_example_and_model` and the prologue of `Engine.train`
(`Bridge/C16.lean : between_table_wf`).  The driver executes the same definitions against the real `Engine.train`. -/

open DirectVerif.C16E in
/-- **Nothing between two iterations touches gradients, optimiser, scheduler or scaler, and `Engine.train` starts from
empty gradients**: under a well-formed table every call site other than the prologue is the identity on the trainer state,
and the prologue leaves exactly `.grad = 0` — whatever gradients the parameters carried when `train()` was entered (a
user's backward pass, a previous `train()` on the same objects that ended inside a window). -/
theorem between_events_leave_state (ops : Ops P O G B L Sc) (lrAt : Nat → L) (tbl : C16E.Table)
    (h : wfBetween tbl = true) (hasVal : Bool) (s : St P O G Sc) :
    (∀ st, st ≠ Site.prologue → site tbl ops lrAt hasVal st s = s) ∧
    site tbl ops lrAt hasVal .prologue s = { s with grad := ops.zero } :=
  ⟨fun st hst => site_of_wf ops lrAt tbl h hasVal st hst s, site_prologue_clears ops lrAt tbl h hasVal s⟩

open DirectVerif.C16E in
/-- **Events do not disturb accumulation**: a process that starts from scratch and is not killed is, on the trainer state,
the plain run of `num_iterations` loop bodies — whatever `validation_steps`, `checkpoint_steps`, `start_with_validation`
are, whether or not validation data is configured, and whatever stale gradients (`p.stale`) the parameters carried; so every theorem above applies to it. -/
theorem events_do_not_disturb_accumulation (ops : Ops P O G B L Sc) (lrAt : Nat → L) (cfg : Cfg) (e : EvCfg)
    (batch : Nat → B) (tbl : C16E.Table) (h : wfBetween tbl = true) (rs : Int → Int → Int) (init : St P O G Sc)
    (hg : init.grad = ops.zero) (p : Proc) (hk : p.kill = none) :
    (runProc tbl rs ops lrAt cfg e batch init none p).s = runRange ops lrAt cfg batch init 0 p.total ∧
    (runProc tbl rs ops lrAt cfg e batch init none p).dead = false := by
  have hstart : procStart tbl rs ops lrAt cfg e batch init none p = ⟨0, init, none, [], false⟩ := by
    unfold procStart
    have : (if p.resume then (none : Option (Nat × Snap P O Sc)) else none) = none := by split <;> rfl
    simp only [this, site_prologue_of_wf ops lrAt tbl h e.hasVal batch init p init hg]
  have := runFrom_eq_runRange ops lrAt cfg e batch tbl h p ⟨0, init, none, [], false⟩ 0 p.total rfl
    (fun j hj => by rw [hk] at hj; cases hj)
  simp only [runProc, hstart, Nat.sub_zero]
  exact ⟨this.1, this.2.1⟩

open DirectVerif.C16E in
/-- **A window inside a process with events still delivers the mean**: `k` iterations from a window boundary of a live
process, with whatever validation rounds / checkpoints / log writes fall inside the window. -/
theorem accumulated_step_is_mean_with_events [AddCommGroup G] [Module ℚ G]
    (grad : P → B → G) (clip : G → G) (opt : L → P → O → G → P × O) (supd : Sc → Sc)
    (lrAt : Nat → L) (cfg : Cfg) (e : EvCfg) (batch : Nat → B) (tbl : C16E.Table) (h : wfBetween tbl = true)
    (p : Proc) (ps : PS P O G Sc) (it0 : Nat) (hd : ps.dead = false)
    (hkill : ∀ j, p.kill = some j → j < it0 ∨ it0 + cfg.k ≤ j)
    (hk : 0 < cfg.k) (h0 : it0 % cfg.k = 0) (hg : ps.s.grad = 0) :
    let mean : G := ((cfg.k : ℚ))⁻¹ • ∑ j ∈ Finset.range cfg.k, grad ps.s.theta (batch (it0 + j))
    let g := if cfg.clipOn then clip mean else mean
    (runFrom tbl (moduleOps grad clip opt supd : Ops P O G B L Sc) lrAt cfg e batch p ps it0 cfg.k).s =
      { theta := (opt (lrAt (ps.s.epoch + cfg.k - 1)) ps.s.theta ps.s.ostate g).1,
        ostate := (opt (lrAt (ps.s.epoch + cfg.k - 1)) ps.s.theta ps.s.ostate g).2,
        grad := 0, epoch := ps.s.epoch + cfg.k, scaler := supd ps.s.scaler } := by
  intro mean g
  rw [(runFrom_eq_runRange (moduleOps grad clip opt supd : Ops P O G B L Sc) lrAt cfg e batch tbl h p ps it0 cfg.k hd
    hkill).1]
  exact accumulated_step_is_mean grad clip opt supd lrAt cfg batch ps.s it0 hk h0 hg

open DirectVerif.C16E in
/-- **The schedule stays in step with the iteration counter across every history of kills, clean stops and resumes**
(also inside accumulation windows): when `start_iter = label + 1` (`Bridge/C16.lean : resume_start_eq`), every completed
iteration `t` of every process ran with `last_epoch = t` — the learning rate in effect is `lrAt t` — and left
`last_epoch = t + 1`; every checkpoint with label `l` holds `last_epoch = l + 1`. -/
theorem lr_in_step_across_resume (ops : Ops P O G B L Sc) (lrAt : Nat → L) (cfg : Cfg) (e : EvCfg) (batch : Nat → B)
    (tbl : C16E.Table) (h : wfBetween tbl = true) (rs : Int → Int → Int)
    (hrs : ∀ label : Nat, rs (label : Int) (cfg.k : Int) = (label : Int) + 1)
    (init : St P O G Sc) (h0 : init.epoch = 0) (hg0 : init.grad = ops.zero) (procs : List Proc) :
    ∀ ps ∈ history tbl rs ops lrAt cfg e batch init none procs,
      (∀ r ∈ ps.recs, r.epochBefore = r.it ∧ r.epochAfter = r.it + 1) ∧
      (∀ lab c, ps.latest = some (lab, c) → c.epoch = lab + 1) :=
  history_inv ops lrAt cfg e batch tbl h rs hrs init h0 hg0 procs none (fun _ _ hl => by cases hl)

open DirectVerif.C16E in
/-- **The scheduler advances exactly `num_iterations` times over a history**: a process that reaches its end has
`last_epoch = start + (num_iterations − start)`, i.e. `num_iterations` when it had anything left to do. -/
theorem scheduler_steps_eq_iterations (ops : Ops P O G B L Sc) (lrAt : Nat → L) (cfg : Cfg) (e : EvCfg) (batch : Nat → B)
    (tbl : C16E.Table) (h : wfBetween tbl = true) (rs : Int → Int → Int)
    (hrs : ∀ label : Nat, rs (label : Int) (cfg.k : Int) = (label : Int) + 1)
    (init : St P O G Sc) (h0 : init.epoch = 0) (hg0 : init.grad = ops.zero)
    (latest : Option (Nat × Snap P O Sc)) (hl : LatestOK latest) (p : Proc) :
    let ps := runProc tbl rs ops lrAt cfg e batch init latest p
    ps.dead = false → ps.start ≤ p.total → ps.s.epoch = p.total := by
  intro ps hd hle
  have hst : ps.start = (procStart tbl rs ops lrAt cfg e batch init latest p).start :=
    (runFrom_start ops lrAt cfg e batch tbl p _ _ _)
  have := (runProc_inv ops lrAt cfg e batch tbl h rs hrs init h0 hg0 latest hl p).2.2 hd
  rw [this]; rw [hst] at hle; omega

open DirectVerif.C16E in
/-- **Histories that only ever resume at window boundaries reproduce the uninterrupted run** (generalises
`resume_window_boundary_partial` to any number of kills / clean stops / resumes with validation rounds, checkpoints and log
writes anywhere, also inside windows): every live process of the history is in the state of the uninterrupted run after as
many iterations as its scheduler has counted — in particular a process that reaches `num_iterations` ends in
`runRange … init 0 num_iterations` (`scheduler_steps_eq_iterations`).  Resumes inside a window are the known finding
(`resume_mid_window_first_step`). -/
theorem resume_at_boundaries_eq_uninterrupted (ops : Ops P O G B L Sc) (lrAt : Nat → L) (cfg : Cfg) (e : EvCfg)
    (batch : Nat → B) (tbl : C16E.Table) (h : wfBetween tbl = true) (rs : Int → Int → Int)
    (hrs : ∀ label : Nat, rs (label : Int) (cfg.k : Int) = (label : Int) + 1)
    (init : St P O G Sc) (h0 : init.epoch = 0) (hg0 : init.grad = ops.zero) (procs : List Proc)
    (hal : ∀ ps ∈ history tbl rs ops lrAt cfg e batch init none procs, ps.start % cfg.k = 0) :
    ∀ ps ∈ history tbl rs ops lrAt cfg e batch init none procs,
      ps.dead = false → ps.s = runRange ops lrAt cfg batch init 0 ps.s.epoch :=
  history_aligned_eq_uninterrupted ops lrAt cfg e batch tbl h rs hrs init h0 hg0 procs none
    (fun _ _ hl => by cases hl) hal

/-- regression witness (seeded C16-5): `optimizer.zero_grad()` at the top of a validation round.  `k = 2`,
`validation_steps = 3`, gradients `2, 4, …`, lr 1, 8 iterations: the validation round after iteration 6 falls inside the
window {6, 7}; the gradient of batch 6 is dropped (`θ = −29` instead of `−36`) -/
theorem validate_zero_grad_violates :
    let cfg : Cfg := { k := 2 }
    let e : C16E.EvCfg := { ckSteps := 1000000, valSteps := 3, hasVal := true }
    let batch : Nat → Int := fun i => 2 * (i + 1)
    let init : St Int Unit Int Unit := ⟨0, (), 0, 0, ()⟩
    let p : C16E.Proc := { total := 8, kill := none, swv := false, resume := false }
    (C16E.runProc C16E.tableValZero C16E.resumeStart Toy.intOps (fun _ => (1 : Int)) cfg e batch init none p).s.theta = -29 ∧
    (C16E.runProc C16E.table C16E.resumeStart Toy.intOps (fun _ => (1 : Int)) cfg e batch init none p).s.theta = -36 ∧
    -- without validation data the early return hides the statement
    (C16E.runProc C16E.tableValZero C16E.resumeStart Toy.intOps (fun _ => (1 : Int)) cfg { e with hasVal := false } batch init
      none p).s.theta = -36 := by
  decide

/-- regression witness (seeded C16-8): without the prologue's `optimizer.zero_grad()` a gradient that sits on the
parameters when `train()` is entered (here: of batch 9, i.e. 20) leaks into the first optimiser step: `k = 2`, two
iterations, `θ = −3` becomes `−13`; the empty table is not well-formed -/
theorem stale_gradients_leak_violates :
    let cfg : Cfg := { k := 2 }
    let e : C16E.EvCfg := { ckSteps := 1000000, valSteps := 1000000, hasVal := false }
    let batch : Nat → Int := fun i => 2 * (i + 1)
    let init : St Int Unit Int Unit := ⟨0, (), 0, 0, ()⟩
    let p : C16E.Proc := { total := 2, kill := none, swv := false, resume := false, stale := some 9 }
    (C16E.runProc C16E.tableNoPrologue C16E.resumeStart Toy.intOps (fun _ => (1 : Int)) cfg e batch init none p).s.theta = -13 ∧
    (C16E.runProc C16E.table C16E.resumeStart Toy.intOps (fun _ => (1 : Int)) cfg e batch init none p).s.theta = -3 ∧
    C16E.wfBetween C16E.tableNoPrologue = false := by
  decide

/-- regression witness (seeded C16-6): `start_iter -= start_iter % gradient_steps` without rewinding the restored
scheduler.  `k = 2`, clean stop after iteration 6 (label 6), resume up to 10 iterations: the resumed process starts at
iteration 6 with `last_epoch = 7`, runs iteration 6 a second time and ends with `last_epoch = 11` for 10 iterations -/
theorem resume_rewind_violates :
    let cfg : Cfg := { k := 2 }
    let e : C16E.EvCfg := { ckSteps := 1000000, valSteps := 1000000, hasVal := false }
    let batch : Nat → Int := fun i => 2 * (i + 1)
    let init : St Int Unit Int Unit := ⟨0, (), 0, 0, ()⟩
    let procs : List C16E.Proc := [{ total := 7, kill := none, swv := false, resume := true },
                                   { total := 10, kill := none, swv := false, resume := true }]
    let H := fun rs => (C16E.history C16E.table rs Toy.intOps (fun _ => (1 : Int)) cfg e batch init none procs).map
      fun ps => (ps.start, ps.s.epoch, ps.recs.map fun r => (r.it, r.epochBefore))
    H C16E.resumeStartRewind = [(0, 7, [(0, 0), (1, 1), (2, 2), (3, 3), (4, 4), (5, 5), (6, 6)]),
                                (6, 11, [(6, 7), (7, 8), (8, 9), (9, 10)])] ∧
    H C16E.resumeStart = [(0, 7, [(0, 0), (1, 1), (2, 2), (3, 3), (4, 4), (5, 5), (6, 6)]),
                          (7, 10, [(7, 7), (8, 8), (9, 9)])] := by
  decide

/-! ## clipping with additional models: one call over the union of all optimised parameters -/

/-- **One `clip_grad_norm_` call over the union = clipping the concatenated gradient against its global norm** (the `clip`
of `additional_models_receive_mean` acts on `G × H` as a whole; `Bridge/C16.lean : clip_form_eq`) -/
theorem clip_one_call_is_global (c : Int) (mods : List (List Int)) :
    (C16E.clipModules C16E.clipForm c mods).flatten = C16E.clip1 c mods.flatten := by
  simp only [C16E.clipModules, C16E.clipForm, C16E.clip1]
  split
  · rfl
  · simp only [C16E.scaleTo, List.map_flatten]; rfl

/-- regression witness (seeded C16-7): one call per module clips every module against its *own* norm: gradients `[6]` and
`[2]`, threshold 4 (L1): the global clip gives `[3], [1]` (norm 4, direction kept), the per-module clip `[4], [2]` -/
theorem clip_per_module_violates :
    C16E.clipModules .oneCallUnion 4 [[6], [2]] = [[3], [1]] ∧ C16E.clipModules .perModule 4 [[6], [2]] = [[4], [2]] ∧
    C16E.clipModules .mainOnly 4 [[6], [2]] = [[4], [2]] := by
  decide

/-! ## parameters without a gradient in a window are skipped (`zero_grad` sets `.grad` to `None`) -/

/-- **A parameter that receives no gradient in a window is not touched by the step** — for every well-formed list of
`zero_grad` forms of the loop body (`Bridge/C16.lean : zero_forms_wf`) the optimiser sees `None` for it, and a `None`
gradient leaves parameter and optimiser state alone, whatever its momentum buffer holds. -/
theorem idle_parameter_skipped (forms : List C16E.ZeroForm) (h : C16E.wfZero forms = true) (lr θ buf : Int) :
    ∀ f ∈ forms, C16E.momStep lr θ buf (C16E.idleGrad f) = (θ, buf) := by
  intro f hf
  have : f = .toNone := by
    simp only [C16E.wfZero, Bool.and_eq_true, List.all_eq_true, beq_iff_eq] at h
    exact h.1 f hf
  subst this; rfl

/-- regression witness (seeded C16-11): `zero_grad(set_to_none=False)` — an idle parameter with momentum buffer 4 at
`θ = 10`, lr 1: skipped under `None`, moved to 8 (buffer 2) under a zero gradient -/
theorem zero_grad_to_zero_violates :
    C16E.momStep 1 10 4 (C16E.idleGrad .toNone) = (10, 4) ∧ C16E.momStep 1 10 4 (C16E.idleGrad .toZero) = (8, 2) ∧
    C16E.wfZero [.toNone, .toZero] = false := by decide

/-! ## mixed precision: the GradScaler protocol of the step branch -/

/-- the scaler operations on a ℚ-module of gradients: `unscale_` multiplies by `1/S` -/
def ampModuleOps [AddCommGroup G] [Module ℚ G] (clip : G → G) (grow : ℚ → ℚ) : C16E.AmpOps G ℚ :=
  { unscale := fun S g => S⁻¹ • g, divk := fun k g => ((k : ℚ))⁻¹ • g, clip := clip, grow := grow }

/-- **Under an enabled GradScaler the optimiser still receives the (clipped) mean**: `.grad` holds `S • a` (`a` = what
was accumulated over the window, `S ≠ 0` the current scale); the step branch hands the optimiser `received a` — the
division by `k`, the unscaling and the clipping commute the right way round: clipping sees unscaled gradients — without
a double-`unscale_` error, and `update()` re-arms the scaler. -/
theorem amp_delivers_unscaled_mean [AddCommGroup G] [Module ℚ G] (clip : G → G) (grow : ℚ → ℚ)
    (cfg : Cfg) (it : Nat) (hs : (it + 1) % cfg.k = 0) (S : ℚ) (hS : S ≠ 0) (a : G) :
    let g0 : G := if cfg.k > 1 then ((cfg.k : ℚ))⁻¹ • a else a
    let r := C16E.ampRun C16E.ampTable (ampModuleOps clip grow) cfg it
      { grad := S • a, scale := S, unscaled := false, delivered := none, error := false }
    r.delivered = some (if cfg.clipOn then clip g0 else g0) ∧ r.error = false ∧ r.unscaled = false ∧ r.scale = grow S := by
  intro g0 r
  have e1 : S⁻¹ • ((cfg.k : ℚ))⁻¹ • S • a = ((cfg.k : ℚ))⁻¹ • a := by
    rw [smul_comm S⁻¹, inv_smul_smul₀ hS]
  have e2 : S⁻¹ • S • a = a := inv_smul_smul₀ hS a
  by_cases hk : cfg.k > 1 <;> by_cases hc : cfg.clipOn = true <;>
    simp [r, g0, C16E.ampRun, C16E.ampTable, C16E.applyAmp, evalGuard, ampModuleOps, hs, hk, hc, e1, e2]

/-- regression witnesses: clipping before `unscale_` clips the *scaled* gradient (scale 8, gradient 3, clip at 4: the
optimiser gets 0 instead of 3); `optimizer.step()` behind the scaler's back steps on the scaled gradient (24) -/
theorem amp_order_violations :
    let cfg : Cfg := { k := 1, clipOn := true }
    let s0 : C16E.AmpSt Int Int := { grad := 24, scale := 8 }
    (C16E.ampRun C16E.ampTable C16E.intAmp cfg 0 s0).delivered = some 3 ∧
    (C16E.ampRun C16E.ampTableClipFirst C16E.intAmp cfg 0 s0).delivered = some 0 ∧
    (C16E.ampRun C16E.ampTableDirect C16E.intAmp { k := 1 } 0 s0).delivered = some 24 ∧
    C16E.wfAmp C16E.ampTableClipFirst = false ∧ C16E.wfAmp C16E.ampTableDirect = false := by
  decide

/-! ## non-vacuity: the hypotheses are satisfiable and the statements say something -/

example : (runRange Toy.intOps (fun _ => (1 : Int)) { k := 3 } (fun i => 3 * (i + 1))
    (⟨0, (), 0, 0, ()⟩ : St Int Unit Int Unit) 0 6).theta = -(2 + 5) * 3 := by decide

example : (0 : Nat) % ({ k := 3 } : Cfg).k = 0 ∧ 0 < ({ k := 3 } : Cfg).k := by decide

example : delivered Toy.intOps (fun _ => (1 : Int)) { k := 2 } (fun i => 2 * (i + 1))
    (⟨0, (), 0, 0, ()⟩ : St Int Unit Int Unit) 0 5 = [14, 6] ∧
  seen Toy.intOps (fun _ => (1 : Int)) { k := 2 } (fun i => 2 * (i + 1))
    (⟨0, (), 0, 0, ()⟩ : St Int Unit Int Unit) 0 5 = [10, 8, 6, 4, 2] := by decide

example : C16E.wfBetween C16E.table = true ∧ C16E.wfBetween C16E.tableValZero = false := by decide

example : C16E.wfAmp C16E.ampTable = true := by decide

/-- the alignment hypothesis of `resume_at_boundaries_eq_uninterrupted` is satisfiable with a kill and a clean stop -/
example : ((C16E.history C16E.table C16E.resumeStart Toy.intOps (fun _ => (1 : Int)) { k := 2 }
      { ckSteps := 3, valSteps := 3, hasVal := true } (fun i => 2 * ((i : Int) + 1)) (⟨0, (), 0, 0, ()⟩ : St Int Unit Int Unit) none
      [{ total := 12, kill := some 6, swv := false, resume := true }, { total := 10, kill := none, swv := true, resume := true },
       { total := 12, kill := none, swv := false, resume := true }]).map fun ps => (ps.start, ps.dead, ps.s.theta))
    = [(0, true, -21), (6, false, -55), (10, false, -78)] := by decide

example : ∀ label : Nat, C16E.resumeStart (label : Int) ((2 : Nat) : Int) = (label : Int) + 1 := fun _ => rfl

end DirectVerif.C16
