import DirectVerif.Lemmas.C16Module
/-!
# C16 — an optimiser step uses the mean gradient of all accumulated batches

All statements are about `Train.iter` / `Train.runRange` (`Model/Train.lean`), i.e. the interpretation
of the statement table `Train.loopTable` that the translator regenerates from
`Engine.training_loop` (`Bridge/C16.lean`) and that the driver executes against the real loop.
Model, loss, clipping and optimiser are arbitrary (`Ops`); `k = cfg.k = gradient_steps ≥ 1`.

Finding kept visible here: a checkpoint does not contain the accumulated gradients, so a resume at an
iteration that is not a multiple of `k` loses the part of the window accumulated before the checkpoint
(`resume_mid_window_first_step`, `resume_mid_window_violates`); what does hold is
`resume_window_boundary_partial`.
-/
namespace DirectVerif.C16
open DirectVerif DirectVerif.Train

variable {P O G B L Sc : Type}

/-- **Accumulated step = step on everything accumulated over the window.**  From an empty accumulator
at an iteration `it0 ≡ 0 (mod k)`, `k` iterations perform exactly one optimiser step, at the last of
them, at the window's parameters `s.theta`, on `received (g(θ,b_it0) + … + g(θ,b_{it0+k-1}))`
(`received` = `div_(k)` when `k > 1`, then the optional clipping), with the learning rate of
`last_epoch = s.epoch + k - 1`; the accumulator is empty again and the schedule has advanced `k` times. -/
theorem accumulated_step (ops : Ops P O G B L Sc) (lrAt : Nat → L) (cfg : Cfg) (batch : Nat → B)
    (s : St P O G Sc) (it0 : Nat) (hk : 0 < cfg.k) (h0 : it0 % cfg.k = 0) :
    runRange ops lrAt cfg batch s it0 cfg.k =
      stepWith ops lrAt cfg s (windowSum ops batch s.theta it0 cfg.k s.grad) (s.epoch + cfg.k) := by
  have := runRange_first_step ops lrAt cfg batch s it0 0 h0 hk
  simpa using this

/-- **The optimiser receives the mean of the `k` most recent batches' gradients** (gradients in any
ℚ-module, `div_(k)` = multiplication by `1/k`): `(1/k) • Σ_{j<k} ∇loss(θ_window, batch_{it0+j})`,
clipped when clipping is on. -/
theorem accumulated_step_is_mean [AddCommGroup G] [Module ℚ G]
    (grad : P → B → G) (clip : G → G) (opt : L → P → O → G → P × O) (supd : Sc → Sc)
    (lrAt : Nat → L) (cfg : Cfg) (batch : Nat → B) (s : St P O G Sc) (it0 : Nat)
    (hk : 0 < cfg.k) (h0 : it0 % cfg.k = 0) (hg : s.grad = 0) :
    let mean : G := ((cfg.k : ℚ))⁻¹ • ∑ j ∈ Finset.range cfg.k, grad s.theta (batch (it0 + j))
    let g := if cfg.clipOn then clip mean else mean
    runRange (moduleOps grad clip opt supd : Ops P O G B L Sc) lrAt cfg batch s it0 cfg.k =
      { theta := (opt (lrAt (s.epoch + cfg.k - 1)) s.theta s.ostate g).1,
        ostate := (opt (lrAt (s.epoch + cfg.k - 1)) s.theta s.ostate g).2,
        grad := 0, epoch := s.epoch + cfg.k, scaler := supd s.scaler } := by
  intro mean g
  rw [accumulated_step (moduleOps grad clip opt supd : Ops P O G B L Sc) lrAt cfg batch s it0 hk h0,
    windowSum_eq_sum (moduleOps grad clip opt supd : Ops P O G B L Sc) rfl, hg, zero_add]
  have hr : received (moduleOps grad clip opt supd : Ops P O G B L Sc) cfg
      (∑ j ∈ Finset.range cfg.k, (moduleOps grad clip opt supd : Ops P O G B L Sc).grad s.theta (batch (it0 + j))) = g := by
    by_cases h1 : cfg.k > 1
    · simp [received, h1, moduleOps, g, mean]
    · have : cfg.k = 1 := by omega
      simp [received, this, moduleOps, g, mean]
  simp only [stepWith, hr]
  rfl

/-- **`k = 1`: every batch produces exactly one step with its own gradient** (no division). -/
theorem k1_every_batch_one_step (ops : Ops P O G B L Sc) (lrAt : Nat → L) (cfg : Cfg) (hk : cfg.k = 1)
    (s : St P O G Sc) (it : Nat) (b : B) :
    let g := if cfg.clipOn then ops.clip (ops.add s.grad (ops.grad s.theta b)) else ops.add s.grad (ops.grad s.theta b)
    iter ops lrAt cfg s it b =
      { theta := (ops.opt (lrAt s.epoch) s.theta s.ostate g).1,
        ostate := (ops.opt (lrAt s.epoch) s.theta s.ostate g).2,
        grad := ops.zero, epoch := s.epoch + 1, scaler := ops.supd s.scaler } := by
  intro g
  rw [iter_step ops lrAt cfg s it b (by rw [hk]; exact Nat.mod_one _)]
  simp [received, accum, hk, g]

/-- **The LR schedule advances exactly once per iteration** — in every iteration, step or not; in an
uninterrupted run (`epoch = 0` at iteration 0) iteration `i` therefore uses `lrAt i`. -/
theorem lr_advances_once_per_iteration (ops : Ops P O G B L Sc) (lrAt : Nat → L) (cfg : Cfg) (batch : Nat → B)
    (s : St P O G Sc) (it : Nat) (b : B) (a n : Nat) :
    (iter ops lrAt cfg s it b).epoch = s.epoch + 1 ∧
    (runRange ops lrAt cfg batch s a n).epoch = s.epoch + n :=
  ⟨iter_epoch ops lrAt cfg s it b, runRange_epoch ops lrAt cfg batch s a n⟩

/-- **No gradient is dropped or counted twice**: at every moment of every run, what the optimiser steps
have consumed so far (`delivered`: the undivided accumulator at each step, i.e. `k ·` the mean) plus
what is still pending in `.grad` equals what was there initially plus the gradient of every `backward`
so far (`seen`), each exactly once. -/
theorem no_gradient_dropped_or_doubled [AddCommMonoid G]
    (grad : P → B → G) (divk : Nat → G → G) (clip : G → G) (opt : L → P → O → G → P × O) (supd : Sc → Sc)
    (lrAt : Nat → L) (cfg : Cfg) (batch : Nat → B) (s : St P O G Sc) (a n : Nat) :
    (delivered (addOps grad divk clip opt supd : Ops P O G B L Sc) lrAt cfg batch s a n).sum
        + (runRange (addOps grad divk clip opt supd : Ops P O G B L Sc) lrAt cfg batch s a n).grad
      = s.grad + (seen (addOps grad divk clip opt supd : Ops P O G B L Sc) lrAt cfg batch s a n).sum := by
  induction n with
  | zero => simp [delivered, seen, runRange_zero]
  | succ n ih =>
    have e1 : ∀ x y : G, (addOps grad divk clip opt supd : Ops P O G B L Sc).add x y = x + y := fun _ _ => rfl
    have e2 : (addOps grad divk clip opt supd : Ops P O G B L Sc).zero = 0 := rfl
    have e3 : (addOps grad divk clip opt supd : Ops P O G B L Sc).grad = grad := rfl
    by_cases h : (a + n + 1) % cfg.k = 0
    · rw [runRange_succ, iter_step _ _ _ _ _ _ h]
      simp only [delivered, seen, h, beq_self_eq_true, if_true, List.sum_cons, accum, e1, e2, e3, add_zero]
      have key : ∀ (d gn sg S g : G), d + gn = sg + S → gn + g + d = sg + (g + S) := by
        intro d gn sg S g hh
        calc gn + g + d = (d + gn) + g := by abel
          _ = (sg + S) + g := by rw [hh]
          _ = _ := by abel
      exact key _ _ _ _ _ ih
    · rw [runRange_succ, iter_nostep _ _ _ _ _ _ h]
      have hb : ((a + n + 1) % cfg.k == 0) = false := by simpa using h
      simp only [delivered, seen, hb, Bool.false_eq_true, if_false, List.sum_cons, accum, e1, e3]
      have key : ∀ (d gn sg S g : G), d + gn = sg + S → d + (gn + g) = sg + (g + S) := by
        intro d gn sg S g hh
        calc d + (gn + g) = (d + gn) + g := by abel
          _ = (sg + S) + g := by rw [hh]
          _ = _ := by abel
      exact key _ _ _ _ _ ih

/-- for iteration counts that are multiples of `k` (from an empty accumulator at a window boundary)
nothing is pending: the steps consumed exactly the sum of all batch gradients -/
theorem no_gradient_dropped_or_doubled_whole_windows [AddCommMonoid G]
    (grad : P → B → G) (divk : Nat → G → G) (clip : G → G) (opt : L → P → O → G → P × O) (supd : Sc → Sc)
    (lrAt : Nat → L) (cfg : Cfg) (batch : Nat → B) (s : St P O G Sc) (a m : Nat)
    (h0 : a % cfg.k = 0) (hg : s.grad = 0) :
    (delivered (addOps grad divk clip opt supd : Ops P O G B L Sc) lrAt cfg batch s a (cfg.k * m)).sum
      = (seen (addOps grad divk clip opt supd : Ops P O G B L Sc) lrAt cfg batch s a (cfg.k * m)).sum := by
  have h := no_gradient_dropped_or_doubled grad divk clip opt supd lrAt cfg batch s a (cfg.k * m)
  rw [hg, zero_add] at h
  by_cases hm : cfg.k * m = 0
  · rw [hm]; simp [delivered, seen]
  · have hz := runRange_grad_zero (addOps grad divk clip opt supd : Ops P O G B L Sc) lrAt cfg batch s a (cfg.k * m)
      (by rw [Nat.add_mod, h0, Nat.mul_mod_right]; simp) (by omega)
    rw [hz] at h
    simpa [addOps] using h

/-- **The whole run is a sequence of mean steps**: `m` windows from a window boundary with an empty
accumulator = `m` applications of the one-window step; window `w` uses exactly the batches
`it0 + k·w … it0 + k·w + k − 1`. -/
theorem run_is_sequence_of_window_steps (ops : Ops P O G B L Sc) (lrAt : Nat → L) (cfg : Cfg) (batch : Nat → B)
    (s : St P O G Sc) (it0 m : Nat) (hk : 0 < cfg.k) (h0 : it0 % cfg.k = 0) :
    runRange ops lrAt cfg batch s it0 (cfg.k * m) =
      (List.range m).foldl (fun s w =>
        stepWith ops lrAt cfg s (windowSum ops batch s.theta (it0 + cfg.k * w) cfg.k s.grad) (s.epoch + cfg.k)) s := by
  induction m with
  | zero => simp [runRange_zero]
  | succ m ih =>
    rw [Nat.mul_succ, runRange_add, ih, List.range_succ, List.foldl_append]
    simp only [List.foldl_cons, List.foldl_nil]
    exact accumulated_step ops lrAt cfg batch _ (it0 + cfg.k * m) hk
      (by rw [Nat.add_mod, h0, Nat.mul_mod_right]; simp)

/-! ## resume in the middle of an accumulation window -/

/-- **What holds after a resume mid-window.**  A checkpoint restores `θ`, optimiser, scheduler, scaler
but not `.grad`.  Resuming at `start` with `start % k = r`, `0 < r`: the first optimiser step comes
after `k − r` iterations and receives `div_(k)` of the sum of only these `k − r` batches — the `r`
batches of the window processed before the checkpoint are lost, the divisor stays `k`. -/
theorem resume_mid_window_first_step (ops : Ops P O G B L Sc) (lrAt : Nat → L) (cfg : Cfg) (batch : Nat → B)
    (c : Snap P O Sc) (start r : Nat) (hr : start % cfg.k = r) (hrk : r < cfg.k) :
    runRange ops lrAt cfg batch (restore ops.zero c) start (cfg.k - r) =
      stepWith ops lrAt cfg (restore ops.zero c)
        (windowSum ops batch c.theta start (cfg.k - r) ops.zero) (c.epoch + (cfg.k - r)) :=
  runRange_first_step ops lrAt cfg batch (restore ops.zero c) start r hr hrk

/-- the property as stated fails for a resume mid-window: `k = 2`, batches with gradients
`2, 4, …, 16`, lr 1, checkpoint after iteration 6 (label 6, `start = 7`): the uninterrupted run ends
at `θ = −36`, the resumed one at `θ = −29` (the gradient of batch 6 is lost). -/
theorem resume_mid_window_violates :
    let cfg : Cfg := { k := 2 }
    let batch : Nat → Int := fun i => 2 * (i + 1)
    let init : St Int Unit Int Unit := ⟨0, (), 0, 0, ()⟩
    let U := runRange Toy.intOps (fun _ => (1 : Int)) cfg batch init 0
    (runRange Toy.intOps (fun _ => (1 : Int)) cfg batch (restore 0 (snapshot (U 7))) 7 1).theta ≠ (U 8).theta := by
  decide

/-- **partial**: resuming at a window boundary (`start % k = 0`, always the case for `k = 1`)
reproduces the uninterrupted run -/
theorem resume_window_boundary_partial (ops : Ops P O G B L Sc) (lrAt : Nat → L) (cfg : Cfg) (batch : Nat → B)
    (init : St P O G Sc) (t n : Nat) (hb : (t + 1) % cfg.k = 0) :
    runRange ops lrAt cfg batch (restore ops.zero (snapshot (runRange ops lrAt cfg batch init 0 (t + 1)))) (t + 1) n
      = runRange ops lrAt cfg batch init 0 (t + 1 + n) := by
  have hz := runRange_grad_zero ops lrAt cfg batch init 0 (t + 1) (by simpa using hb) (by omega)
  have e : ∀ u : St P O G Sc, u.grad = ops.zero → restore ops.zero (snapshot u) = u := by
    intro u hu; cases u; simp_all [restore, snapshot]
  rw [e _ hz, runRange_add ops lrAt cfg batch init 0 (t + 1) n, Nat.zero_add]

/-- the pinned tree (`zero_grad()` after every iteration) violates the property: `k = 2`, gradients
2 then 4, lr 1: the mean step gives `θ = −3`, the pinned loop `θ = −2` (only the last batch, halved) -/
theorem zero_grad_pinned_violates :
    let cfg : Cfg := { k := 2 }
    let batch : Nat → Int := fun i => 2 * (i + 1)
    let init : St Int Unit Int Unit := ⟨0, (), 0, 0, ()⟩
    (runRangeT loopTablePinned Toy.intOps (fun _ => (1 : Int)) cfg batch init 0 2).theta = -2 ∧
    (runRange Toy.intOps (fun _ => (1 : Int)) cfg batch init 0 2).theta = -3 := by
  decide

/-! ## additional models (`self.models`), trailing iterations, OOM recovery -/

/-- **Additional models** (`self.models`, e.g. `sensitivity_model`, whose parameters `direct/train.py` puts into the
same optimiser): the loop divides (and clips) the gradients of `self.model` *and* of every additional model
(`Bridge/C16.lean : div_scope_eq`), i.e. the gradient space is the product `G × H` and `accumulated_step_is_mean` applies
to it — both groups receive the mean. -/
theorem additional_models_receive_mean {H : Type} [AddCommGroup G] [Module ℚ G] [AddCommGroup H] [Module ℚ H]
    (grad : P → B → G × H) (clip : G × H → G × H) (opt : L → P → O → G × H → P × O) (supd : Sc → Sc)
    (lrAt : Nat → L) (cfg : Cfg) (batch : Nat → B) (s : St P O (G × H) Sc) (it0 : Nat)
    (hk : 0 < cfg.k) (h0 : it0 % cfg.k = 0) (hg : s.grad = 0) :
    let tot : G × H := ∑ j ∈ Finset.range cfg.k, grad s.theta (batch (it0 + j))
    let g0 : G × H := (((cfg.k : ℚ))⁻¹ • tot.1, ((cfg.k : ℚ))⁻¹ • tot.2)
    let g := if cfg.clipOn then clip g0 else g0
    runRange (moduleOps grad clip opt supd : Ops P O (G × H) B L Sc) lrAt cfg batch s it0 cfg.k =
      { theta := (opt (lrAt (s.epoch + cfg.k - 1)) s.theta s.ostate g).1,
        ostate := (opt (lrAt (s.epoch + cfg.k - 1)) s.theta s.ostate g).2,
        grad := 0, epoch := s.epoch + cfg.k, scaler := supd s.scaler } :=
  accumulated_step_is_mean grad clip opt supd lrAt cfg batch s it0 hk h0 hg

/-- the pinned tree divided only `self.model.parameters()`: the additional group received the **sum** -/
theorem additional_models_pinned_receive_sum {H : Type} [AddCommGroup G] [Module ℚ G] [AddCommGroup H] [Module ℚ H]
    (grad : P → B → G × H) (clip : G × H → G × H) (opt : L → P → O → G × H → P × O) (supd : Sc → Sc)
    (lrAt : Nat → L) (cfg : Cfg) (batch : Nat → B) (s : St P O (G × H) Sc) (it0 : Nat)
    (hk : 1 < cfg.k) (h0 : it0 % cfg.k = 0) (hg : s.grad = 0) :
    let tot : G × H := ∑ j ∈ Finset.range cfg.k, grad s.theta (batch (it0 + j))
    let g0 : G × H := (((cfg.k : ℚ))⁻¹ • tot.1, tot.2)
    let g := if cfg.clipOn then clip g0 else g0
    runRange (moduleOps2Pinned grad clip opt supd : Ops P O (G × H) B L Sc) lrAt cfg batch s it0 cfg.k =
      { theta := (opt (lrAt (s.epoch + cfg.k - 1)) s.theta s.ostate g).1,
        ostate := (opt (lrAt (s.epoch + cfg.k - 1)) s.theta s.ostate g).2,
        grad := 0, epoch := s.epoch + cfg.k, scaler := supd s.scaler } := by
  intro tot g0 g
  rw [accumulated_step (moduleOps2Pinned grad clip opt supd : Ops P O (G × H) B L Sc) lrAt cfg batch s it0 (by omega) h0,
    windowSum_eq_sum (moduleOps2Pinned grad clip opt supd : Ops P O (G × H) B L Sc) rfl, hg, zero_add]
  have hr : received (moduleOps2Pinned grad clip opt supd : Ops P O (G × H) B L Sc) cfg
      (∑ j ∈ Finset.range cfg.k, (moduleOps2Pinned grad clip opt supd : Ops P O (G × H) B L Sc).grad s.theta (batch (it0 + j))) = g := by
    simp [received, hk, moduleOps2Pinned, g, g0, tot]
  simp only [stepWith, hr]
  rfl

/-- regression witness: `k = 2`, gradients 2 then 4 for both groups, lr 1: main parameter `−3` (mean), additional
parameter `−6` (sum) on the pinned tree -/
theorem additional_models_pinned_violates :
    let cfg : Cfg := { k := 2 }
    let batch : Nat → Int := fun i => 2 * (i + 1)
    let init : St (Int × Int) Unit (Int × Int) Unit := ⟨(0, 0), (), (0, 0), 0, ()⟩
    (runRange Toy.intOps2Pinned (fun _ => (1 : Int)) cfg batch init 0 2).theta = (-3, -6) := by
  decide

/-- **Iterations after the last complete window are never applied**: from a boundary with an empty accumulator,
`k·m + r` iterations (`r < k`) leave the parameters, optimiser state of the `k·m`-iteration run; the last `r` batch
gradients are pending in `.grad` (and are lost when training ends there), the schedule has advanced `r` more times. -/
theorem trailing_iterations_pending (ops : Ops P O G B L Sc) (lrAt : Nat → L) (cfg : Cfg) (batch : Nat → B)
    (s : St P O G Sc) (it0 m r : Nat) (h0 : it0 % cfg.k = 0) (hr : r < cfg.k) (hg : s.grad = ops.zero) :
    let s' := runRange ops lrAt cfg batch s it0 (cfg.k * m)
    runRange ops lrAt cfg batch s it0 (cfg.k * m + r) =
      { s' with grad := windowSum ops batch s'.theta (it0 + cfg.k * m) r ops.zero, epoch := s'.epoch + r } := by
  intro s'
  have hb : (it0 + cfg.k * m) % cfg.k = 0 := by rw [Nat.add_mod, h0, Nat.mul_mod_right]; simp
  have hz : s'.grad = ops.zero := by
    by_cases hm : cfg.k * m = 0
    · simp only [s', hm]; exact hg
    · exact runRange_grad_zero ops lrAt cfg batch s it0 (cfg.k * m) hb (by omega)
  rw [runRange_add, runRange_no_boundary ops lrAt cfg batch s' (it0 + cfg.k * m) r
    (fun j hj => mod_window cfg.k (it0 + cfg.k * m) 0 j hb (by omega)), hz]

/-- **OOM recovery** (`zero_grad(); continue`): the skipped iteration changes neither parameters nor optimiser nor
`last_epoch`, and empties the accumulator -/
theorem oom_skip_state (ops : Ops P O G B L Sc) (s : St P O G Sc) :
    (oomSkip ops s).theta = s.theta ∧ (oomSkip ops s).ostate = s.ostate ∧ (oomSkip ops s).epoch = s.epoch ∧
    (oomSkip ops s).grad = ops.zero := ⟨rfl, rfl, rfl, rfl⟩

/-- … so the schedule lags: after `n` iterations of which `c` were skipped, `last_epoch = n − c` (the learning rate of
iteration `i` is `lrAt (i − skips before i)`, not `lrAt i`) -/
theorem oom_skip_schedule_lags (ops : Ops P O G B L Sc) (lrAt : Nat → L) (cfg : Cfg) (batch : Nat → B)
    (oom : Nat → Bool) (s : St P O G Sc) (a n : Nat) :
    (runRangeO ops lrAt cfg batch oom s a n).epoch + oomCount oom a n = s.epoch + n :=
  runRangeO_epoch ops lrAt cfg batch oom s a n

/-- … and a skip inside a window loses the window's earlier batches: one OOM at iteration `it0 + j` of the window
starting at the boundary `it0` (`j + 1 < k`): the step at the end of the window is taken on `div_(k)` of the sum of
only the `k − j − 1` batches *after* the skip, at learning rate `lrAt (epoch + k − 2)` -/
theorem oom_skip_mid_window (ops : Ops P O G B L Sc) (lrAt : Nat → L) (cfg : Cfg) (batch : Nat → B)
    (s : St P O G Sc) (it0 j : Nat) (h0 : it0 % cfg.k = 0) (hj : j + 1 < cfg.k) :
    let oom : Nat → Bool := fun i => i == it0 + j
    let s1 := oomSkip ops (runRange ops lrAt cfg batch s it0 j)
    runRangeO ops lrAt cfg batch oom s it0 cfg.k =
      stepWith ops lrAt cfg s1 (windowSum ops batch s1.theta (it0 + j + 1) (cfg.k - (j + 1)) ops.zero)
        (s1.epoch + (cfg.k - (j + 1))) := by
  intro oom s1
  have e : cfg.k = j + 1 + (cfg.k - (j + 1)) := by omega
  have h1 : runRangeO ops lrAt cfg batch oom s it0 (j + 1) = s1 := by
    rw [runRangeO_succ, runRangeO_no_oom ops lrAt cfg batch oom s it0 j
      (fun i hi => by simp only [oom, beq_eq_false_iff_ne, ne_eq]; omega)]
    simp [oom, s1]
  have h2 : runRangeO ops lrAt cfg batch oom s1 (it0 + (j + 1)) (cfg.k - (j + 1))
      = runRange ops lrAt cfg batch s1 (it0 + (j + 1)) (cfg.k - (j + 1)) :=
    runRangeO_no_oom ops lrAt cfg batch oom s1 _ _ (fun i hi => by simp only [oom, beq_eq_false_iff_ne, ne_eq]; omega)
  conv => lhs; rw [e]
  rw [runRangeO_add, h1, h2]
  have hm : (it0 + (j + 1)) % cfg.k = j + 1 := by
    rw [Nat.add_mod, h0, Nat.zero_add, Nat.mod_mod, Nat.mod_eq_of_lt hj]
  have := runRange_first_step ops lrAt cfg batch s1 (it0 + (j + 1)) (j + 1) hm hj
  rw [this]
  have hs1 : s1.grad = ops.zero := rfl
  rw [hs1, Nat.add_assoc]

/-! ## non-vacuity: the hypotheses are satisfiable and the statements say something -/

example : (runRange Toy.intOps (fun _ => (1 : Int)) { k := 3 } (fun i => 3 * (i + 1))
    (⟨0, (), 0, 0, ()⟩ : St Int Unit Int Unit) 0 6).theta = -(2 + 5) * 3 := by decide

example : (0 : Nat) % ({ k := 3 } : Cfg).k = 0 ∧ 0 < ({ k := 3 } : Cfg).k := by decide

example : delivered Toy.intOps (fun _ => (1 : Int)) { k := 2 } (fun i => 2 * (i + 1))
    (⟨0, (), 0, 0, ()⟩ : St Int Unit Int Unit) 0 5 = [14, 6] ∧
  seen Toy.intOps (fun _ => (1 : Int)) { k := 2 } (fun i => 2 * (i + 1))
    (⟨0, (), 0, 0, ()⟩ : St Int Unit Int Unit) 0 5 = [10, 8, 6, 4, 2] := by decide

end DirectVerif.C16
