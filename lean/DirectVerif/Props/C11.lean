import DirectVerif.Lemmas.C11Split
import DirectVerif.Lemmas.C11Float
import DirectVerif.Lemmas.C11History
/-!
# C11 — self-supervised mask splitting is a partition that honours ratio and ACS

Property theorems only; all statements are about the executable model `Model/SslSplit.lean` that the
driver runs (`gaussianFill`, `gaussianSplit`, `uniformSplit`, `halfSplit`, `forward*`).  They hold for
**every** mask, ACS mask, protected-region size, requested count, and every candidate stream / choice
list on which the fill returns.  `cell g k` is cell `k` of the flat grid (`false` outside).

Tie to the code: `Bridge/C11.lean` (translated loop guard, acceptance test, slice bounds, count / cap /
seed expressions, mask algebra) + the correspondence check (replay on the reconstructed libc stream and
the recorded `rng.choice` draws).
-/
namespace DirectVerif.C11
open DirectVerif DirectVerif.SslSplit

/-! ## the rejection kernel -/

/-- the kernel only marks free cells (`mask == 1`) -/
theorem gaussian_fill_subset_free {n : Int} {nrow ncol : Nat} {free : Grid} {cs : List (Int × Int)} {t : Grid}
    (h : gaussianFill n nrow ncol free (zeros free.length) cs = some t) : Sub t free ∧ t.length = free.length :=
  ⟨(fill_some h).2.1, (fill_some h).1⟩

/-- …and when it returns it has marked exactly `n + 1` of them (`while count <= n`) -/
theorem gaussian_fill_count {n : Int} {nrow ncol : Nat} {free : Grid} {cs : List (Int × Int)} {t : Grid}
    (h : gaussianFill n nrow ncol free (zeros free.length) cs = some t) : cnt t = (n + 1).toNat :=
  (fill_some h).2.2

/-- **Regression witness of the pre-repair hang.**  Called with a request `c` such that `c + 1` exceeds the
number of free cells, the kernel has not returned after *any* finite prefix of *any* candidate stream. -/
theorem gaussian_fill_diverges_if_infeasible (c : Int) (nrow ncol : Nat) (free : Grid)
    (h : (cnt free : Int) < c + 1) : ∀ cs, gaussianFillPinned c nrow ncol free cs = none :=
  fun cs => fill_none_of_infeasible cs h

/-- on a candidate prefix that contains every free cell at least once the kernel has returned **iff** the
request is feasible -/
theorem gaussian_fill_terminates_iff (n : Int) (nrow ncol : Nat) (free : Grid) (cs : List (Int × Int))
    (hc : Covers nrow ncol free cs) :
    (gaussianFill n nrow ncol free (zeros free.length) cs).isSome = true ↔ n + 1 ≤ (cnt free : Int) := by
  constructor
  · intro h
    apply Classical.byContradiction
    intro hn
    rw [fill_none_of_infeasible cs (by omega)] at h
    cases h
  · exact fill_some_of_covers hc

/-- **Termination.**  For every candidate stream in which every free cell occurs at least once (in
particular every fair stream), a feasible request is served after finitely many candidates. -/
theorem gaussian_fill_terminates (n : Int) (nrow ncol : Nat) (free : Grid) (s : Nat → Int × Int)
    (hs : ∀ k, cell free k = true → ∃ m, InRange nrow ncol (s m) ∧ flatIdx ncol (s m) = k)
    (hf : n + 1 ≤ (cnt free : Int)) :
    ∃ fuel, (gaussianFill n nrow ncol free (zeros free.length) (streamPrefix s fuel)).isSome = true := by
  obtain ⟨fuel, hc⟩ := covering_prefix s hs
  exact ⟨fuel, fill_some_of_covers hc hf⟩

/-- quantitative form: if every free cell shows up among the first `W` candidates, a feasible request is served
within `W` candidates, and extending the prefix does not change the result (the kernel has returned) -/
theorem gaussian_fill_terminates_within (n : Int) (nrow ncol : Nat) (free : Grid) (s : Nat → Int × Int) (W : Nat)
    (hc : Covers nrow ncol free (streamPrefix s W)) (hf : n + 1 ≤ (cnt free : Int)) :
    ∃ t, gaussianFill n nrow ncol free (zeros free.length) (streamPrefix s W) = some t ∧
      ∀ more, gaussianFill n nrow ncol free (zeros free.length) (streamPrefix s W ++ more) = some t := by
  have h := fill_some_of_covers (n := n) hc hf
  cases hg : gaussianFill n nrow ncol free (zeros free.length) (streamPrefix s W) with
  | none => rw [hg] at h; cases h
  | some t => exact ⟨t, rfl, fun more => gaussianFill_stable hg more⟩

/-- **Repeated candidates do not matter** — the split on a candidate list equals the split on its first
occurrences (this is how arbitrarily long libc streams are replayed by the check) -/
theorem gaussian_split_dedup (keep : Bool) (a0 a1 : Int) (nrow ncol : Nat) (mask acs : Grid) (c : Int)
    (hl : acs.length = mask.length) (cs : List (Int × Int)) :
    gaussianSplit keep a0 a1 nrow ncol mask acs c (dedup cs) = gaussianSplit keep a0 a1 nrow ncol mask acs c cs := by
  unfold gaussianSplit
  simp only
  have e : (reducedMask keep mask acs).length = (freeMask keep a0 a1 nrow ncol mask acs).length := by
    rw [length_reducedMask keep mask acs hl, length_freeMask keep a0 a1 nrow ncol mask acs hl]
  rw [e, gaussianFill_dedup]

/-- the repaired cap makes every request feasible -/
theorem capped_request_feasible (c : Int) (free : Nat) : capRequest c free + 1 ≤ (free : Int) := by
  unfold capRequest; omega

/-- size the capped request produces: `min(c + 1, #free)` for every sensible request -/
theorem capped_count (c : Int) (free : Nat) (hc : 0 ≤ c) :
    (capRequest c free + 1).toNat = min (c + 1).toNat free := by
  unfold capRequest; omega

/-! ## the Gaussian split -/

theorem gaussianSplit_some {keep : Bool} {a0 a1 : Int} {nrow ncol : Nat} {mask acs : Grid} {c : Int}
    {cs : List (Int × Int)} {r : Grid × Grid} (hl : acs.length = mask.length)
    (h : gaussianSplit keep a0 a1 nrow ncol mask acs c cs = some r) :
    ∃ t0, t0.length = mask.length ∧ Sub t0 (freeMask keep a0 a1 nrow ncol mask acs) ∧
      cnt t0 = (capRequest c (cnt (freeMask keep a0 a1 nrow ncol mask acs)) + 1).toNat ∧
      r = finish keep (reducedMask keep mask acs) acs t0 := by
  unfold gaussianSplit at h
  simp only at h
  have e : (reducedMask keep mask acs).length = (freeMask keep a0 a1 nrow ncol mask acs).length := by
    rw [length_reducedMask keep mask acs hl, length_freeMask keep a0 a1 nrow ncol mask acs hl]
  rw [e] at h
  split at h
  · cases h
  · rename_i t0 hf
    injection h with h
    obtain ⟨h1, h2, h3⟩ := fill_some hf
    exact ⟨t0, by rw [h1, length_freeMask keep a0 a1 nrow ncol mask acs hl], h2, h3, h.symm⟩

/-- **Union.** `input ∪ target = mask` (`= mask ∪ acs` when the ACS region is kept in both; that is `mask`
whenever `acs ⊆ mask`) -/
theorem gaussian_split_union {keep : Bool} {a0 a1 : Int} {nrow ncol : Nat} {mask acs : Grid} {c : Int}
    {cs : List (Int × Int)} {i t : Grid} (hl : acs.length = mask.length)
    (h : gaussianSplit keep a0 a1 nrow ncol mask acs c cs = some (i, t)) :
    gOr i t = if keep then gOr mask acs else mask := by
  obtain ⟨t0, h1, h2, _, h4⟩ := gaussianSplit_some hl h
  have F := finish_facts keep a0 a1 nrow ncol mask acs t0 hl h1 h2
  rw [← h4] at F
  have hi := (F 0).1
  have ht := (F 0).2.1
  simp only at hi ht
  apply eq_of_cells
  · cases keep <;> simp [hi, ht, hl]
  · intro k
    rw [cell_gOr i t (by rw [hi, ht]), (F k).2.2.1]
    cases keep
    · simp
    · simp [cell_gOr mask acs hl.symm]

/-- **Disjointness.** `input ∩ target = ∅`, resp. exactly the ACS region with `keep_acs` -/
theorem gaussian_split_disjoint {keep : Bool} {a0 a1 : Int} {nrow ncol : Nat} {mask acs : Grid} {c : Int}
    {cs : List (Int × Int)} {i t : Grid} (hl : acs.length = mask.length)
    (h : gaussianSplit keep a0 a1 nrow ncol mask acs c cs = some (i, t)) :
    gAnd i t = if keep then acs else zeros mask.length := by
  obtain ⟨t0, h1, h2, _, h4⟩ := gaussianSplit_some hl h
  have F := finish_facts keep a0 a1 nrow ncol mask acs t0 hl h1 h2
  rw [← h4] at F
  have hi := (F 0).1
  have ht := (F 0).2.1
  simp only at hi ht
  apply eq_of_cells
  · cases keep <;> simp [hi, ht, hl]
  · intro k
    rw [cell_gAnd i t (by rw [hi, ht]), (F k).2.2.2.1]
    cases keep
    · simp [cell_zeros]
    · simp

/-- **The protected central region stays in the input mask** (and out of the target) -/
theorem gaussian_protected_in_input {a0 a1 : Int} {nrow ncol : Nat} {mask acs : Grid} {c : Int}
    {cs : List (Int × Int)} {i t : Grid} (hl : acs.length = mask.length)
    (h : gaussianSplit false a0 a1 nrow ncol mask acs c cs = some (i, t)) (k : Nat)
    (hp : protectedCell nrow ncol a0 a1 k = true) (hm : cell mask k = true) :
    cell i k = true ∧ cell t k = false := by
  obtain ⟨t0, h1, h2, _, h4⟩ := gaussianSplit_some hl h
  have F := finish_facts false a0 a1 nrow ncol mask acs t0 hl h1 h2 k
  rw [← h4] at F
  exact F.2.2.2.2.2 rfl hp hm

/-- with `keep_acs` every ACS cell is in both masks -/
theorem gaussian_acs_kept {a0 a1 : Int} {nrow ncol : Nat} {mask acs : Grid} {c : Int}
    {cs : List (Int × Int)} {i t : Grid} (hl : acs.length = mask.length)
    (h : gaussianSplit true a0 a1 nrow ncol mask acs c cs = some (i, t)) (k : Nat) (ha : cell acs k = true) :
    cell i k = true ∧ cell t k = true := by
  obtain ⟨t0, h1, h2, _, h4⟩ := gaussianSplit_some hl h
  have F := finish_facts true a0 a1 nrow ncol mask acs t0 hl h1 h2 k
  rw [← h4] at F
  have := F.2.2.2.1
  simp only [ha, Bool.and_true, Bool.and_eq_true] at this
  exact this

/-- **Target size and location.**  Outside the kept ACS region the target consists of exactly
`min(c, #free - 1) + 1` cells, all of them free cells (sampled, not protected, not ACS). -/
theorem gaussian_target_count {keep : Bool} {a0 a1 : Int} {nrow ncol : Nat} {mask acs : Grid} {c : Int}
    {cs : List (Int × Int)} {i t : Grid} (hl : acs.length = mask.length)
    (h : gaussianSplit keep a0 a1 nrow ncol mask acs c cs = some (i, t)) :
    ∃ t0, (∀ k, cell t0 k = (cell t k && !(keep && cell acs k))) ∧
      Sub t0 (freeMask keep a0 a1 nrow ncol mask acs) ∧
      cnt t0 = (capRequest c (cnt (freeMask keep a0 a1 nrow ncol mask acs)) + 1).toNat := by
  obtain ⟨t0, h1, h2, h3, h4⟩ := gaussianSplit_some hl h
  have F := finish_facts keep a0 a1 nrow ncol mask acs t0 hl h1 h2
  rw [← h4] at F
  exact ⟨t0, fun k => ((F k).2.2.2.2.1).symm, h2, h3⟩

/-- **Target ⊆ free cells** (Gaussian): every target cell outside the kept ACS region is a sampled cell that
is neither protected nor ACS -/
theorem gaussian_target_subset_free {keep : Bool} {a0 a1 : Int} {nrow ncol : Nat} {mask acs : Grid} {c : Int}
    {cs : List (Int × Int)} {i t : Grid} (hl : acs.length = mask.length)
    (h : gaussianSplit keep a0 a1 nrow ncol mask acs c cs = some (i, t)) (k : Nat)
    (hk : cell t k = true) (ha : (keep && cell acs k) = false) :
    cell mask k = true ∧ (keep = false → protectedCell nrow ncol a0 a1 k = false) := by
  obtain ⟨t0, h1, h2, _⟩ := gaussian_target_count hl h
  have h0 : cell t0 k = true := by rw [h1 k, hk, ha]; rfl
  have := h2 k h0
  rw [cell_freeMask keep a0 a1 nrow ncol mask acs hl] at this
  revert this
  cases keep <;> cases cell mask k <;> cases protectedCell nrow ncol a0 a1 k <;> simp

/-- when the protected region does not wrap (`a // 2 ≤ n // 2` on both axes — every `acs_region` up to the full
mask) it is the centred window `[n//2 - a//2, n//2 + a//2)` of rows and columns -/
theorem protected_region_centred (nrow ncol : Nat) (a0 a1 : Int) (k : Nat) (h0 : 0 ≤ a0) (h1 : 0 ≤ a1)
    (w0 : a0 / 2 ≤ (nrow : Int) / 2) (w1 : a1 / 2 ≤ (ncol : Int) / 2) :
    protectedCell nrow ncol a0 a1 k = true ↔
      (((nrow : Int) / 2 - a0 / 2 ≤ (k / ncol : Nat) ∧ ((k / ncol : Nat) : Int) < (nrow : Int) / 2 + a0 / 2 ∧ k / ncol < nrow) ∧
       ((ncol : Int) / 2 - a1 / 2 ≤ (k % ncol : Nat) ∧ ((k % ncol : Nat) : Int) < (ncol : Int) / 2 + a1 / 2 ∧ k % ncol < ncol)) := by
  unfold protectedCell
  rw [Bool.and_eq_true, List.contains_iff_mem, List.contains_iff_mem, mem_regionIdx nrow a0 _ h0 w0,
    mem_regionIdx ncol a1 _ h1 w1]

/-- "follows the ratio within one sample": for a request `c ≥ 0` that fits (`c + 1 ≤ #free`) the target
has exactly `c + 1` new cells, otherwise all free cells -/
theorem gaussian_target_follows_ratio (c : Int) (free : Nat) (hc : 0 ≤ c) :
    (c + 1 ≤ free → (capRequest c free + 1).toNat = (c + 1).toNat) ∧
    ((free : Int) < c + 1 → (capRequest c free + 1).toNat = free) := by
  unfold capRequest; omega

/-- the exact-rational requested count brackets `ρ · S`: `c - 1 < S·p/q ≤ c` -/
theorem ratio_ceil_spec (S p q : Int) (hq : 0 < q) :
    S * p ≤ ratioCeil S p q * q ∧ (ratioCeil S p q - 1) * q < S * p := by
  unfold ratioCeil
  have h1 := Int.ediv_mul_le (-(S * p)) (Int.ne_of_gt hq)
  have h2 := Int.lt_ediv_add_one_mul_self (-(S * p)) hq
  generalize (-(S * p)) / q = y at *
  rw [Int.add_mul, Int.one_mul] at h2
  rw [Int.sub_mul, Int.one_mul, Int.neg_mul]
  constructor <;> omega

theorem ratio_floor_spec (S p q : Int) (hq : 0 < q) :
    ratioFloor S p q * q ≤ S * p ∧ S * p < (ratioFloor S p q + 1) * q := by
  unfold ratioFloor
  have h1 := Int.ediv_mul_le (S * p) (Int.ne_of_gt hq)
  have h2 := Int.lt_ediv_add_one_mul_self (S * p) hq
  exact ⟨h1, h2⟩

/-- **The split terminates for every mask, ratio and protected region** (current tree): on every candidate
stream in which each free cell occurs at least once, the split returns after finitely many candidates —
no feasibility condition is needed thanks to the cap. -/
theorem gaussian_split_terminates (keep : Bool) (a0 a1 : Int) (nrow ncol : Nat) (mask acs : Grid) (c : Int)
    (hl : acs.length = mask.length) (s : Nat → Int × Int)
    (hs : ∀ k, cell (freeMask keep a0 a1 nrow ncol mask acs) k = true →
      ∃ m, InRange nrow ncol (s m) ∧ flatIdx ncol (s m) = k) :
    ∃ fuel, (gaussianSplit keep a0 a1 nrow ncol mask acs c (streamPrefix s fuel)).isSome = true := by
  obtain ⟨fuel, hf⟩ := gaussian_fill_terminates
    (capRequest c (cnt (freeMask keep a0 a1 nrow ncol mask acs))) nrow ncol _ s hs
    (capped_request_feasible c _)
  refine ⟨fuel, ?_⟩
  unfold gaussianSplit
  simp only
  have e : (reducedMask keep mask acs).length = (freeMask keep a0 a1 nrow ncol mask acs).length := by
    rw [length_reducedMask keep mask acs hl, length_freeMask keep a0 a1 nrow ncol mask acs hl]
  rw [e]
  cases hg : gaussianFill _ nrow ncol (freeMask keep a0 a1 nrow ncol mask acs) _ (streamPrefix s fuel) with
  | none => rw [hg] at hf; cases hf
  | some t => rfl

/-- the tree before the repair never returns when the uncapped request exceeds the free cells -/
theorem gaussian_split_pinned_diverges (keep : Bool) (a0 a1 : Int) (nrow ncol : Nat) (mask acs : Grid) (c : Int)
    (h : (cnt (freeMask keep a0 a1 nrow ncol mask acs) : Int) < c + 1) :
    ∀ cs, gaussianSplitPinned keep a0 a1 nrow ncol mask acs c cs = none := by
  intro cs
  unfold gaussianSplitPinned
  simp only
  rw [gaussian_fill_diverges_if_infeasible c nrow ncol _ h cs]

/-- concrete instance: 4×4 full mask, protected region (2, 2), ratio 0.9 → request ⌈14.4⌉ = 15, 12 free cells -/
theorem gaussian_split_pinned_violates :
    ∀ cs, gaussianSplitPinned false 2 2 4 4 (List.replicate 16 true) (zeros 16) (ratioCeil 16 9 10) cs = none :=
  gaussian_split_pinned_diverges false 2 2 4 4 _ _ _ (by decide)

/-! ## the uniform split -/

theorem uniformSplit_ok {keep : Bool} {a0 a1 : Int} {nrow ncol : Nat} {mask acs : Grid} {count : Nat}
    {chosen : List Nat} {r : Grid × Grid} (hl : acs.length = mask.length)
    (h : uniformSplit keep a0 a1 nrow ncol mask acs count chosen = .ok r) :
    ∃ t0, t0.length = mask.length ∧ Sub t0 (freeMask keep a0 a1 nrow ncol mask acs) ∧
      cnt t0 = (if count = 0 ∨ cnt (freeMask keep a0 a1 nrow ncol mask acs) = 0 then 0 else count) ∧
      r = finish keep (reducedMask keep mask acs) acs t0 := by
  unfold uniformSplit at h
  simp only at h
  split at h
  · cases h
  · rename_i t0 hf
    injection h with h
    obtain ⟨h1, h2, h3⟩ := uniformFill_ok hf
    exact ⟨t0, by rw [h1, length_freeMask keep a0 a1 nrow ncol mask acs hl], h2, h3, h.symm⟩

theorem uniform_split_union {keep : Bool} {a0 a1 : Int} {nrow ncol : Nat} {mask acs : Grid} {count : Nat}
    {chosen : List Nat} {i t : Grid} (hl : acs.length = mask.length)
    (h : uniformSplit keep a0 a1 nrow ncol mask acs count chosen = .ok (i, t)) :
    gOr i t = if keep then gOr mask acs else mask := by
  obtain ⟨t0, h1, h2, _, h4⟩ := uniformSplit_ok hl h
  have F := finish_facts keep a0 a1 nrow ncol mask acs t0 hl h1 h2
  rw [← h4] at F
  have hi := (F 0).1
  have ht := (F 0).2.1
  simp only at hi ht
  apply eq_of_cells
  · cases keep <;> simp [hi, ht, hl]
  · intro k
    rw [cell_gOr i t (by rw [hi, ht]), (F k).2.2.1]
    cases keep
    · simp
    · simp [cell_gOr mask acs hl.symm]

theorem uniform_split_disjoint {keep : Bool} {a0 a1 : Int} {nrow ncol : Nat} {mask acs : Grid} {count : Nat}
    {chosen : List Nat} {i t : Grid} (hl : acs.length = mask.length)
    (h : uniformSplit keep a0 a1 nrow ncol mask acs count chosen = .ok (i, t)) :
    gAnd i t = if keep then acs else zeros mask.length := by
  obtain ⟨t0, h1, h2, _, h4⟩ := uniformSplit_ok hl h
  have F := finish_facts keep a0 a1 nrow ncol mask acs t0 hl h1 h2
  rw [← h4] at F
  have hi := (F 0).1
  have ht := (F 0).2.1
  simp only at hi ht
  apply eq_of_cells
  · cases keep <;> simp [hi, ht, hl]
  · intro k
    rw [cell_gAnd i t (by rw [hi, ht]), (F k).2.2.2.1]
    cases keep
    · simp [cell_zeros]
    · simp

theorem uniform_protected_in_input {a0 a1 : Int} {nrow ncol : Nat} {mask acs : Grid} {count : Nat}
    {chosen : List Nat} {i t : Grid} (hl : acs.length = mask.length)
    (h : uniformSplit false a0 a1 nrow ncol mask acs count chosen = .ok (i, t)) (k : Nat)
    (hp : protectedCell nrow ncol a0 a1 k = true) (hm : cell mask k = true) :
    cell i k = true ∧ cell t k = false := by
  obtain ⟨t0, h1, h2, _, h4⟩ := uniformSplit_ok hl h
  have F := finish_facts false a0 a1 nrow ncol mask acs t0 hl h1 h2 k
  rw [← h4] at F
  exact F.2.2.2.2.2 rfl hp hm

/-- uniform target: exactly the requested `count = ⌊#free·ρ⌋` cells, all free (nothing when nothing is
requested or nothing is free) -/
theorem uniform_target_count {keep : Bool} {a0 a1 : Int} {nrow ncol : Nat} {mask acs : Grid} {count : Nat}
    {chosen : List Nat} {i t : Grid} (hl : acs.length = mask.length)
    (h : uniformSplit keep a0 a1 nrow ncol mask acs count chosen = .ok (i, t)) :
    ∃ t0, (∀ k, cell t0 k = (cell t k && !(keep && cell acs k))) ∧
      Sub t0 (freeMask keep a0 a1 nrow ncol mask acs) ∧
      cnt t0 = (if count = 0 ∨ cnt (freeMask keep a0 a1 nrow ncol mask acs) = 0 then 0 else count) := by
  obtain ⟨t0, h1, h2, h3, h4⟩ := uniformSplit_ok hl h
  have F := finish_facts keep a0 a1 nrow ncol mask acs t0 hl h1 h2
  rw [← h4] at F
  exact ⟨t0, fun k => ((F k).2.2.2.2.1).symm, h2, h3⟩

theorem uniform_target_subset_free {keep : Bool} {a0 a1 : Int} {nrow ncol : Nat} {mask acs : Grid} {count : Nat}
    {chosen : List Nat} {i t : Grid} (hl : acs.length = mask.length)
    (h : uniformSplit keep a0 a1 nrow ncol mask acs count chosen = .ok (i, t)) (k : Nat)
    (hk : cell t k = true) (ha : (keep && cell acs k) = false) :
    cell mask k = true ∧ (keep = false → protectedCell nrow ncol a0 a1 k = false) := by
  obtain ⟨t0, h1, h2, _⟩ := uniform_target_count hl h
  have h0 : cell t0 k = true := by rw [h1 k, hk, ha]; rfl
  have := h2 k h0
  rw [cell_freeMask keep a0 a1 nrow ncol mask acs hl] at this
  revert this
  cases keep <;> cases cell mask k <;> cases protectedCell nrow ncol a0 a1 k <;> simp

/-- the uniform split is total on every draw `rng.choice` can return (no exception path is left) -/
theorem uniform_split_total (keep : Bool) (a0 a1 : Int) (nrow ncol : Nat) (mask acs : Grid) (count : Nat)
    (chosen : List Nat) (hv : validChoice count (freeMask keep a0 a1 nrow ncol mask acs) chosen = true) :
    ∃ r, uniformSplit keep a0 a1 nrow ncol mask acs count chosen = .ok r := by
  obtain ⟨t, ht⟩ := uniformFill_total hv
  exact ⟨finish keep (reducedMask keep mask acs) acs t, by unfold uniformSplit; simp only [ht]⟩

/-- before the repair `uniform_fill` raised (0/0 probabilities) whenever no free cell was left -/
theorem uniform_fill_pinned_violates : uniformFillPinned 0 (zeros 4) [] = .error .nanProb := by decide

/-! ## the half split (4 directions) -/

/-- **Partition + protected region** for every direction, mask, ACS mask and protected-region size -/
theorem half_split_partition (d : Dir) (xs ys : List Int) (keep : Bool) (a0 a1 : Int) (nrow ncol : Nat) (mask acs : Grid)
    (hl : acs.length = mask.length) :
    gOr (halfSplit d xs ys keep a0 a1 nrow ncol mask acs).1 (halfSplit d xs ys keep a0 a1 nrow ncol mask acs).2
      = (if keep then gOr mask acs else mask) ∧
    gAnd (halfSplit d xs ys keep a0 a1 nrow ncol mask acs).1 (halfSplit d xs ys keep a0 a1 nrow ncol mask acs).2
      = (if keep then acs else zeros mask.length) := by
  have hp := length_halfParts d xs ys nrow ncol mask
  have hg := length_protectedGrid nrow ncol a0 a1 mask.length
  cases keep
  · simp only [halfSplit, Bool.false_eq_true, if_false]
    have l1 : (gOr (halfParts d xs ys nrow ncol mask).1 (gAnd mask (protectedGrid nrow ncol a0 a1 mask.length))).length
        = mask.length := by simp [hp.1, hg]
    have l2 : (gAndNot (halfParts d xs ys nrow ncol mask).2 (protectedGrid nrow ncol a0 a1 mask.length)).length
        = mask.length := by simp [hp.2, hg]
    have cellI : ∀ k, cell (gOr (halfParts d xs ys nrow ncol mask).1 (gAnd mask (protectedGrid nrow ncol a0 a1 mask.length))) k
        = ((cell mask k && inputSideC d xs ys nrow ncol (k / ncol) (k % ncol)) ||
           (cell mask k && cell (protectedGrid nrow ncol a0 a1 mask.length) k)) := fun k => by
      rw [cell_gOr _ _ (by simp [hp.1, hg]), cell_gAnd _ _ hg.symm, (cell_halfParts d xs ys nrow ncol mask k).1]
    have cellT : ∀ k, cell (gAndNot (halfParts d xs ys nrow ncol mask).2 (protectedGrid nrow ncol a0 a1 mask.length)) k
        = ((cell mask k && !inputSideC d xs ys nrow ncol (k / ncol) (k % ncol)) &&
           !cell (protectedGrid nrow ncol a0 a1 mask.length) k) := fun k => by
      rw [cell_gAndNot _ _ (by simp [hp.2, hg]), (cell_halfParts d xs ys nrow ncol mask k).2]
    constructor
    · apply eq_of_cells _ _ (by simp [l1, l2])
      intro k
      rw [cell_gOr _ _ (by rw [l1, l2]), cellI, cellT]
      cases cell mask k <;> cases inputSideC d xs ys nrow ncol (k / ncol) (k % ncol) <;>
        cases cell (protectedGrid nrow ncol a0 a1 mask.length) k <;> rfl
    · apply eq_of_cells _ _ (by simp [l1, l2])
      intro k
      rw [cell_gAnd _ _ (by rw [l1, l2]), cellI, cellT, cell_zeros]
      cases cell mask k <;> cases inputSideC d xs ys nrow ncol (k / ncol) (k % ncol) <;>
        cases cell (protectedGrid nrow ncol a0 a1 mask.length) k <;> rfl
  · simp only [halfSplit, if_true]
    have l1 : (gOr (halfParts d xs ys nrow ncol mask).1 acs).length = mask.length := by simp [hp.1, hl]
    have l2 : (gOr (halfParts d xs ys nrow ncol mask).2 acs).length = mask.length := by simp [hp.2, hl]
    constructor
    · apply eq_of_cells _ _ (by simp [l1, l2, hl])
      intro k
      rw [cell_gOr _ _ (by rw [l1, l2]), cell_gOr _ _ (by rw [hp.1, hl]), cell_gOr _ _ (by rw [hp.2, hl]),
        cell_gOr _ _ hl.symm, (cell_halfParts d xs ys nrow ncol mask k).1, (cell_halfParts d xs ys nrow ncol mask k).2]
      cases cell mask k <;> cases inputSideC d xs ys nrow ncol (k / ncol) (k % ncol) <;> cases cell acs k <;> rfl
    · apply eq_of_cells _ _ (by simp [l1, l2, hl])
      intro k
      rw [cell_gAnd _ _ (by rw [l1, l2]), cell_gOr _ _ (by rw [hp.1, hl]), cell_gOr _ _ (by rw [hp.2, hl]),
        (cell_halfParts d xs ys nrow ncol mask k).1, (cell_halfParts d xs ys nrow ncol mask k).2]
      cases cell mask k <;> cases inputSideC d xs ys nrow ncol (k / ncol) (k % ncol) <;> cases cell acs k <;> rfl

/-- on the exact `linspace` fractions the coordinate form of the side test is the rational one that the
bridge ties to the source -/
theorem inputSideC_exact (d : Dir) (nrow ncol i j : Nat) (hi : i < nrow) (hj : j < ncol) :
    inputSideC d (exactXs nrow ncol) (exactYs nrow ncol) nrow ncol i j = inputSide d nrow ncol i j := by
  have hx : (exactXs nrow ncol).getD i 0 = coordNum nrow i * coordDen ncol := by
    simp [exactXs, List.getD_eq_getElem?_getD, hi]
  have hy : (exactYs nrow ncol).getD j 0 = coordNum ncol j * coordDen nrow := by
    simp [exactYs, List.getD_eq_getElem?_getD, hj]
  cases d <;> simp only [inputSideC, inputSide, hx, hy]

/-- **float32 vs exact diagonals.**  With all coordinates on one integer scale: if the float32 coordinates are
within `err` of the exact ones and the exact sum is farther than `2·err` from 0, both give the same side —
the two splits can differ only on cells whose exact coordinates cancel (the anti-diagonal) -/
theorem diag_float_agrees_off_boundary (fx fy ex ey err : Int) (hx : fx - ex ≤ err ∧ ex - fx ≤ err)
    (hy : fy - ey ≤ err ∧ ey - fy ≤ err) (hb : 2 * err < ex + ey ∨ ex + ey < -(2 * err)) :
    (fx + fy ≤ 0 ↔ ex + ey ≤ 0) ∧ (fx - (-fy) ≤ 0 ↔ ex - (-ey) ≤ 0) := by
  constructor <;> constructor <;> intro h <;> omega

theorem half_protected_in_input (d : Dir) (xs ys : List Int) (a0 a1 : Int) (nrow ncol : Nat) (mask acs : Grid) (k : Nat)
    (hp : protectedCell nrow ncol a0 a1 k = true) (hm : cell mask k = true) :
    cell (halfSplit d xs ys false a0 a1 nrow ncol mask acs).1 k = true ∧
    cell (halfSplit d xs ys false a0 a1 nrow ncol mask acs).2 k = false := by
  have hl := length_halfParts d xs ys nrow ncol mask
  have hg := length_protectedGrid nrow ncol a0 a1 mask.length
  have hk := cell_true_lt _ _ hm
  simp only [halfSplit, Bool.false_eq_true, if_false]
  rw [cell_gOr _ _ (by simp [hl.1, hg]), cell_gAnd _ _ hg.symm, cell_gAndNot _ _ (by simp [hl.2, hg]),
    cell_protectedGrid _ _ _ _ _ _ hk, hp, hm]
  simp

/-- before the repair the half split ignored `acs_region`: 6×6 full mask, protected (4, 4), horizontal —
the protected centre cell (3, 3) is in the target -/
theorem half_split_pinned_violates :
    protectedCell 6 6 4 4 21 = true ∧
      cell (halfSplitPinned .horizontal [] [] false 6 6 (List.replicate 36 true) (zeros 36)).2 21 = true := by decide

/-! ## `forward`: k-spaces, seeds, determinism -/

/-- **The split k-spaces are the k-space restricted to the two masks** (all three splitters; by definition
of `splitOut`, which the driver executes) -/
theorem split_kspaces (cells : Nat) (k : List Int) (m : Grid × Grid) :
    (splitOut cells k m).inputK = applyMaskK cells m.1 k ∧ (splitOut cells k m).targetK = applyMaskK cells m.2 k ∧
    (splitOut cells k m).inputMask = m.1 ∧ (splitOut cells k m).targetMask = m.2 := ⟨rfl, rfl, rfl, rfl⟩

/-- entries of a restricted k-space: the original value on the mask, exactly 0 elsewhere -/
theorem split_kspace_entry (cells : Nat) (m : Grid) (k : List Int) (idx : Nat) :
    (applyMaskK cells m k).getD idx 0 = if cell m ((idx / 2) % cells) then k.getD idx 0 else 0 :=
  getD_applyMaskK cells m k idx

/-- without `keep_acs` the two k-spaces add up to the masked k-space, entry by entry: nothing is lost,
nothing is counted twice -/
theorem split_kspaces_sum (cells : Nat) (mask i t : Grid) (k : List Int) (hi : i.length = t.length)
    (hu : gOr i t = mask) (hd : gAnd i t = zeros mask.length) (idx : Nat) :
    (applyMaskK cells i k).getD idx 0 + (applyMaskK cells t k).getD idx 0 = (applyMaskK cells mask k).getD idx 0 := by
  rw [getD_applyMaskK, getD_applyMaskK, getD_applyMaskK]
  have h1 := cell_gOr i t hi ((idx / 2) % cells)
  have h2 := cell_gAnd i t hi ((idx / 2) % cells)
  rw [hu] at h1
  rw [hd, cell_zeros] at h2
  rw [h1]
  revert h2
  cases cell i ((idx / 2) % cells) <;> cases cell t ((idx / 2) % cells) <;> simp

/-- `int(np.mean(seed))` is the floor of the mean code point -/
theorem gaussian_seed_floor_mean (t : List Nat) (h : t ≠ []) :
    gaussianSeed t * t.length ≤ (t.sum : Int) ∧ (t.sum : Int) < (gaussianSeed t + 1) * t.length := by
  unfold gaussianSeed
  have hp : (0 : Int) < t.length := by
    have := List.length_pos_iff.mpr h; omega
  exact ⟨Int.ediv_mul_le _ (Int.ne_of_gt hp), Int.lt_ediv_add_one_mul_self _ hp⟩

/-- **Determinism.**  With `use_seed` the Gaussian split of a sample is a function of
(mask, acs, file name, slice, configuration) only: the ambient random state (call history, global numpy
stream, OS entropy) does not enter. -/
theorem split_deterministic_gaussian (src : Sources) (cfg : Cfg) (h : cfg.useSeed = true) (amb₁ amb₂ : Ambient)
    (fuel nrow ncol : Nat) (filename slice : List Nat) (mask acs : Grid) (k : List Int) :
    forwardGaussian src cfg amb₁ fuel nrow ncol filename slice mask acs k =
      forwardGaussian src cfg amb₂ fuel nrow ncol filename slice mask acs k := by
  simp only [forwardGaussian, h, if_true]

theorem split_deterministic_uniform (src : Sources) (cfg : Cfg) (h : cfg.useSeed = true) (amb₁ amb₂ : Ambient)
    (nrow ncol : Nat) (filename slice : List Nat) (mask acs : Grid) (k : List Int) :
    forwardUniform src cfg amb₁ nrow ncol filename slice mask acs k =
      forwardUniform src cfg amb₂ nrow ncol filename slice mask acs k := by
  simp only [forwardUniform, h, if_true]

/-- the seed only sees the concatenation `str(filename) + str(slice_no)` -/
theorem seed_of_concat (f₁ s₁ f₂ s₂ : List Nat) (h : f₁ ++ s₁ = f₂ ++ s₂) :
    gaussianSeed (seedTuple f₁ s₁) = gaussianSeed (seedTuple f₂ s₂) := by
  simp only [seedTuple, h]

/-- **Batch collation.**  A split mask has the shape of the per-sample sampling mask, so whenever that mask
broadcasts against the per-sample k-space of the same rank, the collated masks `(B, …)` broadcast against the
collated k-space `(B, C, …)` with the batch axes meeting — for every batch size, 2-D and 3-D alike. -/
theorem split_mask_collates (B : Nat) (ms ks : List Nat) (hl : ms.length = ks.length) (hb : broadcastsTo ms ks = true) :
    broadcastsTo (B :: splitMaskShape ms) (B :: ks) = true ∧ batchAligned (B :: splitMaskShape ms) (B :: ks) = true := by
  have hz : ((ms.reverse ++ [B]).zip (ks.reverse ++ [B])).all (fun ab => ab.1 == 1 || ab.1 == ab.2) = true := by
    simp only [broadcastsTo, Bool.and_eq_true] at hb
    rw [List.zip_append (by simp [hl]), List.all_append, hb.2]
    simp
  simp only [broadcastsTo, splitMaskShape, batchAligned, List.length_cons, hl, List.reverse_cons, hz, Bool.and_eq_true,
    decide_eq_true_eq, beq_iff_eq, and_true]
  exact Nat.le_refl _

/-- before the repair the split masks of 3-D data had rank 4: collated `(2, 1, H, W, 1)` does not broadcast against
`(2, 3, S, H, W, 2)` (RuntimeError), and for batch = coils it broadcasts with the batch axis on the coil axis -/
theorem split_mask_rank_pinned_violates :
    broadcastsTo (2 :: splitMaskShapePinned [1, 1, 6, 8, 1]) [2, 3, 2, 6, 8, 2] = false ∧
    (broadcastsTo (3 :: splitMaskShapePinned [1, 1, 6, 8, 1]) [3, 3, 2, 6, 8, 2] = true ∧
     batchAligned (3 :: splitMaskShapePinned [1, 1, 6, 8, 1]) [3, 3, 2, 6, 8, 2] = false) := by decide

/-! ## the float32 product behind the requested count -/

/-- **`int(ceil(float32(S)·float32(ρ)))` versus `⌈S·p/q⌉`** (and the same for the floor), for `S · p < 2^22`:
equal unless `S·p/q` is an integer `k`; then the float32 product may land just off `k` and the ceiling is `k`
or `k + 1`, the floor `k` or `k - 1`.  `countCeilF32` / `countFloorF32` are the executable binary32 model the
driver runs (compared with torch on every run). -/
theorem requested_count_f32 (S p q : Nat) (hq : 0 < q) (hsp : S * p < 2 ^ 22) :
    (¬ (q : Int) ∣ (S : Int) * p → countCeilF32 S p q = ratioCeil S p q ∧ countFloorF32 S p q = ratioFloor S p q) ∧
    ((q : Int) ∣ (S : Int) * p →
      (countCeilF32 S p q = ratioCeil S p q ∨ countCeilF32 S p q = ratioCeil S p q + 1) ∧
      (countFloorF32 S p q = ratioFloor S p q ∨ countFloorF32 S p q = ratioFloor S p q - 1)) :=
  count_f32_spec S p q hq hsp

/-- within one sample of the exact-rational count, always (same range) -/
theorem requested_count_f32_within_one (S p q : Nat) (hq : 0 < q) (hsp : S * p < 2 ^ 22) :
    ratioCeil S p q ≤ countCeilF32 S p q ∧ countCeilF32 S p q ≤ ratioCeil S p q + 1 ∧
    ratioFloor S p q - 1 ≤ countFloorF32 S p q ∧ countFloorF32 S p q ≤ ratioFloor S p q := by
  have h := count_f32_spec S p q hq hsp
  by_cases hd : (q : Int) ∣ (S : Int) * p
  · have := h.2 hd; omega
  · have := h.1 hd; omega

theorem ratioCeil_nonneg (S p q : Nat) (hq : 0 < q) : 0 ≤ ratioCeil S p q := by
  have h := (ratio_ceil_spec S p q (by exact_mod_cast hq)).1
  by_contra hn
  have h1 : ratioCeil (S : Int) p q * (q : Int) ≤ -1 * (q : Int) :=
    Int.mul_le_mul_of_nonneg_right (by omega) (by omega)
  have h2 : (0 : Int) ≤ (S : Int) * p := Int.mul_nonneg (by omega) (by omega)
  omega

theorem ratioFloor_nonneg (S p q : Nat) : 0 ≤ ratioFloor S p q := by
  unfold ratioFloor
  exact Int.ediv_nonneg (Int.mul_nonneg (by omega) (by omega)) (by omega)

/-- **The target size follows the requested ratio — end to end, with the float32 product in place.**  The Gaussian
split as the code computes it (`c = int(ceil(float32(S)·float32(ρ)))`, capped, `c + 1` cells placed): outside the kept
ACS region the target has `⌈S·ρ⌉ + 1` or `⌈S·ρ⌉ + 2` cells when that many are free, and every free cell otherwise.
No count is an input any more: `S` is the number of sampled cells outside the ACS, `ρ = p / q`. -/
theorem gaussian_target_size_f32 {keep : Bool} {a0 a1 : Int} {nrow ncol : Nat} {mask acs : Grid} (p q : Nat)
    {cs : List (Int × Int)} {i t : Grid} (hl : acs.length = mask.length) (hq : 0 < q)
    (hsp : cnt (reducedMask keep mask acs) * p < 2 ^ 22)
    (h : gaussianSplit keep a0 a1 nrow ncol mask acs (countCeilF32 (cnt (reducedMask keep mask acs)) p q) cs = some (i, t)) :
    ∃ t0, (∀ k, cell t0 k = (cell t k && !(keep && cell acs k))) ∧ Sub t0 (freeMask keep a0 a1 nrow ncol mask acs) ∧
      (ratioCeil (cnt (reducedMask keep mask acs)) p q + 2 ≤ cnt (freeMask keep a0 a1 nrow ncol mask acs) →
        (cnt t0 : Int) = ratioCeil (cnt (reducedMask keep mask acs)) p q + 1 ∨
        (cnt t0 : Int) = ratioCeil (cnt (reducedMask keep mask acs)) p q + 2) ∧
      ((cnt (freeMask keep a0 a1 nrow ncol mask acs) : Int) < ratioCeil (cnt (reducedMask keep mask acs)) p q + 1 →
        cnt t0 = cnt (freeMask keep a0 a1 nrow ncol mask acs)) ∧
      cnt t0 ≤ cnt (freeMask keep a0 a1 nrow ncol mask acs) := by
  obtain ⟨t0, h1, h2, h3⟩ := gaussian_target_count hl h
  have hw := requested_count_f32_within_one (cnt (reducedMask keep mask acs)) p q hq hsp
  have hn := ratioCeil_nonneg (cnt (reducedMask keep mask acs)) p q hq
  refine ⟨t0, h1, h2, ?_, ?_, ?_⟩ <;> (rw [h3]; unfold capRequest; omega)

/-- the same for the uniform split (`count = int(float32(F)·float32(ρ))`, `F` the number of free cells): the target has
`⌊F·ρ⌋` or `⌊F·ρ⌋ - 1` cells outside the kept ACS region, all of them free -/
theorem uniform_target_size_f32 {keep : Bool} {a0 a1 : Int} {nrow ncol : Nat} {mask acs : Grid} (p q : Nat)
    {chosen : List Nat} {i t : Grid} (hl : acs.length = mask.length) (hq : 0 < q)
    (hsp : cnt (freeMask keep a0 a1 nrow ncol mask acs) * p < 2 ^ 22)
    (h : uniformSplit keep a0 a1 nrow ncol mask acs
      (countFloorF32 (cnt (freeMask keep a0 a1 nrow ncol mask acs)) p q).toNat chosen = .ok (i, t)) :
    ∃ t0, (∀ k, cell t0 k = (cell t k && !(keep && cell acs k))) ∧ Sub t0 (freeMask keep a0 a1 nrow ncol mask acs) ∧
      (cnt t0 : Int) ≤ ratioFloor (cnt (freeMask keep a0 a1 nrow ncol mask acs)) p q ∧
      ratioFloor (cnt (freeMask keep a0 a1 nrow ncol mask acs)) p q - 1 ≤ cnt t0 := by
  obtain ⟨t0, h1, h2, h3⟩ := uniform_target_count hl h
  have hw := requested_count_f32_within_one (cnt (freeMask keep a0 a1 nrow ncol mask acs)) p q hq hsp
  have hn := ratioFloor_nonneg (cnt (freeMask keep a0 a1 nrow ncol mask acs)) p q
  have hz : cnt (freeMask keep a0 a1 nrow ncol mask acs) = 0 →
      ratioFloor (cnt (freeMask keep a0 a1 nrow ncol mask acs)) p q = 0 := by
    intro h0; rw [h0]; simp [ratioFloor]
  refine ⟨t0, h1, h2, ?_, ?_⟩ <;> (rw [h3]; split <;> omega)

/-- binary32 rounding as executed has relative error at most 2^-24 -/
theorem round_f32_error (num den : Nat) (hd : 0 < den) :
    |qval (roundF32 num den) - (num : ℚ) / den| * 2 ^ 24 ≤ (num : ℚ) / den :=
  (roundF32_spec num den hd).2

/-! ## the SSL branch around the splitter -/

/-- **Key plumbing.**  For every transform tail and engine key table that pass the decidable check `plumbingOk`
(`Bridge/C11.lean` shows the tables read from `/repo` pass it, for keep_acs on and off): the k-space the
network is trained on is the masked k-space restricted to the input mask, and the reference of the k-space
loss is the masked k-space restricted to the target mask. -/
theorem ssl_plumbing_sound (tail : List KeyOp) (r : EngineReads) (h : plumbingOk tail r = true) (e : Env) :
    ∃ s, runOps tail preTail = some s ∧
      (sget s r.trainK).bind (denoteK e) = some (applyMaskK e.cells e.input e.masked) ∧
      (sget s r.lossK).bind (denoteK e) = some (applyMaskK e.cells e.target e.masked) ∧
      sget s r.trainMask = some (.splitMask true) ∧ sget s r.project = some (.splitMask false) ∧
      sget s r.lossImage = some (.image (.restr false .maskedK)) := by
  unfold plumbingOk at h
  split at h
  · cases h
  · rename_i s hs
    simp only [Bool.and_eq_true, beq_iff_eq] at h
    obtain ⟨⟨⟨⟨⟨⟨h1, h2⟩, h3⟩, h4⟩, h5⟩, _⟩, _⟩ := h
    refine ⟨s, hs, ?_, ?_, h2, h3, h5⟩
    · rw [h1]; simp [denoteK]
    · rw [h4]; simp [denoteK]

/-- **What the k-space loss sees** (training step of the SSL engines): entry by entry, the projected
prediction minus the reference is `pred - k` on target cells that were held out from the input, and exactly
`0` everywhere else — off the target mask both are 0, on cells kept in both masks (ACS) data consistency
reproduces the measurement. -/
theorem ssl_loss_support (cells : Nat) (i t : Grid) (k pred : List Int) (hc : 0 < cells) (hi : i.length = cells)
    (hp : pred.length = k.length) (idx : Nat) :
    (sslOutput cells i t (applyMaskK cells i k) pred).getD idx 0 - (applyMaskK cells t k).getD idx 0 =
      if cell t ((idx / 2) % cells) && !cell i ((idx / 2) % cells) then pred.getD idx 0 - k.getD idx 0 else 0 := by
  have hlt : (idx / 2) % cells < i.length := by rw [hi]; exact Nat.mod_lt _ hc
  unfold sslOutput
  rw [getD_applyMaskK, getD_applyMaskK,
    getD_zipWith_add _ _ (by rw [length_applyMaskK, length_applyMaskK, hp]), getD_applyMaskK, getD_applyMaskK,
    cell_gNot i _ hlt]
  cases cell t ((idx / 2) % cells) <;> cases cell i ((idx / 2) % cells) <;> simp

/-! ## call histories on one splitter object; the seed across interpreter processes; admissible ratios -/

/-- **History independence (the code as it is).**  A splitter object that keeps nothing between calls answers
every call of every history exactly as a fresh object would, whatever it was asked before — same file and slice
with another mask, other files with the same mask, batched or single calls (a batched call is the sequence of its
samples).  `runHist none` is what the driver's `hist` operation executes. -/
theorem history_independent {ι κ ο : Type} [BEq κ] (cap : Nat) (f : ι → ο) (c : List (κ × ο)) (xs : List ι) :
    runHist none cap f c xs = xs.map f :=
  runHist_none_eq cap f xs c

/-- …for **every** write table that passes the decidable predicate `stateWritesOk` (`Bridge/C11.lean`:
`state_writes_ok` for the table read from `/repo`) -/
theorem history_independent_of_table {ο : Type} (t : List StateWrite) (h : stateWritesOk t = true) (cap : Nat)
    (f : SampleIn → ο) (c : List (List (List Nat) × ο)) (xs : List SampleIn) :
    runHist ((memoOfTable t).map keyOf) cap f c xs = xs.map f := by
  unfold memoOfTable
  rw [h]
  exact runHist_none_eq cap f xs c

/-- **A memo of split results is invisible when its key determines the split** — for every bound of the LRU
dictionary, every history, every consistent initial content -/
theorem memo_invisible_of_key_complete {ο : Type} (parts : List KeyPart) (cap : Nat) (f : SampleIn → ο)
    (hk : ∀ x y, (∀ p ∈ parts, partOf x p = partOf y p) → f x = f y) (xs : List SampleIn) :
    runHist (some (keyOf parts)) cap f [] xs = xs.map f :=
  runHist_complete (keyOf parts) cap f (fun x y h => hk x y ((keyOf_eq_iff parts x y).mp h)) xs []
    (fun _ he => by cases he)

/-- the key (file name, slice, mask, ACS mask) is complete for every split function -/
theorem full_key_complete (x y : SampleIn)
    (h : ∀ p ∈ [KeyPart.filename, .slice, .mask, .acs], partOf x p = partOf y p) : x = y := by
  have h1 := h .filename (by simp)
  have h2 := h .slice (by simp)
  have h3 := bits_inj _ _ (h .mask (by simp))
  have h4 := bits_inj _ _ (h .acs (by simp))
  cases x; cases y
  simp only [partOf] at h1 h2 h3 h4
  simp [h1, h2, h3, h4]

theorem memo_full_key_invisible {ο : Type} (cap : Nat) (f : SampleIn → ο) (xs : List SampleIn) :
    runHist (some (keyOf [.filename, .slice, .mask, .acs])) cap f [] xs = xs.map f :=
  memo_invisible_of_key_complete _ cap f (fun x y h => by rw [full_key_complete x y h]) xs

/-- **…and visible otherwise**: if two samples agree on the key parts but split differently, the history
`[x, y]` on one object answers `y` with the split of `x` (any bound ≥ 1) -/
theorem memo_stale_of_key_incomplete {ο : Type} (parts : List KeyPart) (cap : Nat) (hcap : 1 ≤ cap) (f : SampleIn → ο)
    (x y : SampleIn) (hxy : ∀ p ∈ parts, partOf x p = partOf y p) (hne : f x ≠ f y) :
    runHist (some (keyOf parts)) cap f [] [x, y] = [f x, f x] ∧
    runHist (some (keyOf parts)) cap f [] [x, y] ≠ [x, y].map f := by
  have hkey : keyOf parts y = keyOf parts x := ((keyOf_eq_iff parts x y).mpr hxy).symm
  have h1 : runHist (some (keyOf parts)) cap f [] [x, y] = [f x, f x] := by
    have hc : ¬ (1 > cap) := by omega
    simp [runHist, memoStep, hc, hkey]
  refine ⟨h1, ?_⟩
  rw [h1]
  intro h
  simp only [List.map_cons, List.map_nil, List.cons.injEq, and_true, true_and] at h
  exact hne h

/-- the witness of that kind of regression on the model's own half split: a memo keyed by (file name, slice)
answers the second mask of the same slice with the split of the first — `input ∪ target` is not the mask -/
theorem memo_without_mask_violates :
    let f : SampleIn → Grid × Grid := fun s => halfSplit .vertical [] [] false 0 0 2 2 s.mask s.acs
    let x : SampleIn := { filename := [102], slice := [49], mask := [true, true, false, true], acs := zeros 4 }
    let y : SampleIn := { filename := [102], slice := [49], mask := [true, false, true, true], acs := zeros 4 }
    (runHist (some (keyOf [.filename, .slice])) 4096 f [] [x, y]).map (fun r => gOr r.1 r.2) = [x.mask, x.mask] ∧
    x.mask ≠ y.mask := by decide

/-- **Determinism across interpreter processes.**  With a seed derivation that does not read the process, a seeded
sample is split identically in every process (a run and its resumption, every data-loader worker, training and
inference) -/
theorem split_deterministic_across_processes (d : SeedFn) (hd : ∀ p₁ p₂ f s, d p₁ f s = d p₂ f s) (p₁ p₂ : Proc)
    (src : Sources) (cfg : Cfg) (fuel nrow ncol : Nat) (filename slice : List Nat) (mask acs : Grid) (k : List Int) :
    forwardGaussianIn d p₁ src cfg fuel nrow ncol filename slice mask acs k =
      forwardGaussianIn d p₂ src cfg fuel nrow ncol filename slice mask acs k ∧
    forwardUniformIn d p₁ src cfg nrow ncol filename slice mask acs k =
      forwardUniformIn d p₂ src cfg nrow ncol filename slice mask acs k := by
  simp only [forwardGaussianIn, forwardUniformIn, hd p₁ p₂ filename slice, and_self]

/-- the derivation of the code as it is (`Bridge/C11.lean`: `seed_of_code_eq`, `seed_calls_ok`) does not read the process… -/
theorem seed_of_code_process_free (p₁ p₂ : Proc) (f s : List Nat) : seedOfCode p₁ f s = seedOfCode p₂ f s := rfl

/-- …and `forward…In seedOfCode` is the seeded `forward…` the driver executes, in every process -/
theorem forward_in_code_eq (p : Proc) (src : Sources) (cfg : Cfg) (h : cfg.useSeed = true) (amb : Ambient)
    (fuel nrow ncol : Nat) (filename slice : List Nat) (mask acs : Grid) (k : List Int) :
    forwardGaussianIn seedOfCode p src cfg fuel nrow ncol filename slice mask acs k =
      forwardGaussian src cfg amb fuel nrow ncol filename slice mask acs k ∧
    forwardUniformIn seedOfCode p src cfg nrow ncol filename slice mask acs k =
      forwardUniform src cfg amb nrow ncol filename slice mask acs k := by
  simp only [forwardGaussianIn, forwardGaussian, forwardUniformIn, forwardUniform, seedOfCode, h, if_true, and_self]

/-- a derivation through a per-process salt (Python's `hash` of a string) splits the same sample differently in two
processes -/
theorem salted_seed_violates : ∃ (src : Sources) (cfg : Cfg) (p₁ p₂ : Proc),
    forwardGaussianIn seedSalted p₁ src cfg 1 1 2 [102] [49] [true, true] (zeros 2) [] ≠
    forwardGaussianIn seedSalted p₂ src cfg 1 1 2 [102] [49] [true, true] (zeros 2) [] :=
  ⟨{ ratioIdx := fun _ _ => 0, choice := fun _ _ _ => [],
     candidates := fun s _ _ _ => if s % 2 = 0 then [(0, 0)] else [(0, 1)] },
   { keep := false, a0 := 0, a1 := 0, useSeed := true, request := fun _ _ => 0, nRatios := 1 },
   { salt := 0 }, { salt := 1 }, by decide⟩

/-- **Every reader of the split keys.**  For every site table passing `engineSiteOk` (`Bridge/C11.lean`:
`engine_sites_ok` for the eight readers found under `direct/nn`) and every transform tail passing `plumbingOk`
against the canonical key table: what a site trains on is the masked k-space restricted to the input mask, the mask
it passes on (if any) is the input mask, what a `_do_iteration` projects on is the target mask — and it does so
exactly under the condition `engineUsesSplit`. -/
theorem engine_sites_sound (tail : List KeyOp) (sites : List EngineSite) (hs : sites.all engineSiteOk = true)
    (r : EngineReads) (hr : r.trainK = "input_kspace" ∧ r.trainMask = "input_sampling_mask" ∧
      r.project = "target_sampling_mask") (hp : plumbingOk tail r = true) (e : Env) :
    ∃ smp, runOps tail preTail = some smp ∧ ∀ s ∈ sites,
      (sget smp s.trainK).bind (denoteK e) = some (applyMaskK e.cells e.input e.masked) ∧
      (s.trainMask ≠ "" → sget smp s.trainMask = some (.splitMask true)) ∧
      (s.iteration = true → sget smp s.project = some (.splitMask false)) ∧
      s.cond = (if s.joint then "ssl&train" else "train") := by
  obtain ⟨smp, h0, h1, _, h3, h4, _⟩ := ssl_plumbing_sound tail r hp e
  refine ⟨smp, h0, ?_⟩
  intro s hsm
  have hk := List.all_eq_true.mp hs s hsm
  simp only [engineSiteOk, Bool.and_eq_true, Bool.or_eq_true, beq_iff_eq, Bool.not_eq_true'] at hk
  obtain ⟨⟨⟨⟨hc, htk⟩, _⟩, hm⟩, hpj⟩ := hk
  refine ⟨by rw [htk, ← hr.1]; exact h1, ?_, ?_, hc⟩
  · intro hne
    rcases hm with ⟨hm1, _⟩ | ⟨⟨_, hm1⟩, _⟩
    · rw [hm1, ← hr.2.1]; exact h3
    · exact absurd hm1 hne
  · intro hit
    rw [hit] at hpj
    simp only [if_true] at hpj
    rw [hpj, ← hr.2.2]; exact h4

/-- what the condition means: an SSL engine uses the split input whenever it trains, a joint engine only on `is_ssl`
samples, and outside training nobody does -/
theorem engine_uses_split_spec (isSsl : Bool) :
    (engineUsesSplit joint false isSsl = false) ∧ (engineUsesSplit false true isSsl = true) ∧
    (engineUsesSplit true true isSsl = isSsl) := by
  cases isSsl <;> simp [engineUsesSplit]

/-- **Enum-valued options may be strings.**  When every test of the direction goes through `__eq__`
(`Bridge/C11.lean`: `enum_compares_ok` for the comparisons read from `/repo`), the half split does not depend on
whether the direction arrives as the `HalfSplitType` member or as a lower / UPPER / MiXeD-case string — the driver's
`hsplit` runs `resolveDir .eq` on the form the real call used. -/
theorem option_form_irrelevant (f : OptForm) (d : Dir) : resolveDir .eq f d = some d := rfl

/-- for every comparison table passing `enumComparesOk`, every recorded operator is of the `__eq__` kind, under which
every form of the option passes the test -/
theorem enum_compares_sound (t : List (String × String × String)) (h : enumComparesOk t = true) :
    ∀ r ∈ t, ∃ op, cmpOfText r.2.2 = some op ∧ ∀ f, cmpHolds op f = true := by
  intro r hr
  have := List.all_eq_true.mp h r hr
  simp only [beq_iff_eq] at this
  exact ⟨.eq, this, fun _ => rfl⟩

/-- identity (and hash-based) tests do not recognise a string: the dispatch falls through — with the code's
`in [HORIZONTAL, VERTICAL]` outer test still passing, both masks stay empty and `input ∪ target ≠ mask` -/
theorem identity_compare_violates :
    resolveDir .is_ .lower .horizontal = none ∧ resolveDir .is_ .member .horizontal = some .horizontal ∧
    resolveDir .hashed .upper .vertical = none ∧ resolveDir .hashed .lower .vertical = some .vertical ∧
    cmpOfText "is" = some .is_ ∧ enumComparesOk [("MaskSplitter._half_split", "direction ~ HalfSplitType.HORIZONTAL", "is")] = false := by
  decide

/-- **Admissible ratios.**  For a ratio the constructor accepts (`0 < p/q < 1`) the requested counts stay inside
the mask: `1 ≤ ⌈S·ρ⌉ ≤ S` for a non-empty mask and `0 ≤ ⌊S·ρ⌋ < S` (hence both parts of a uniform split of ≥ 1 free
cells… the input keeps at least one free cell) -/
theorem ratio_counts_in_range (S p q : Int) (hv : ratioValid p q = true) (hS : 0 < S) :
    1 ≤ ratioCeil S p q ∧ ratioCeil S p q ≤ S ∧ 0 ≤ ratioFloor S p q ∧ ratioFloor S p q < S := by
  simp only [ratioValid, Bool.and_eq_true, decide_eq_true_eq] at hv
  obtain ⟨hp, hpq⟩ := hv
  have hq : 0 < q := by omega
  have hc := ratio_ceil_spec S p q hq
  have hf := ratio_floor_spec S p q hq
  have hsp : 0 < S * p := Int.mul_pos hS hp
  have hsq : S * p < S * q := Int.mul_lt_mul_of_pos_left hpq hS
  refine ⟨?_, ?_, ?_, ?_⟩
  · by_contra hn
    have : ratioCeil S p q * q ≤ 0 := Int.mul_nonpos_of_nonpos_of_nonneg (by omega) (by omega)
    omega
  · by_contra hn
    have : S * q ≤ (ratioCeil S p q - 1) * q := Int.mul_le_mul_of_nonneg_right (by omega) (by omega)
    omega
  · by_contra hn
    have : (ratioFloor S p q + 1) * q ≤ 0 := Int.mul_nonpos_of_nonpos_of_nonneg (by omega) (by omega)
    omega
  · by_contra hn
    have : S * q ≤ ratioFloor S p q * q := Int.mul_le_mul_of_nonneg_right (by omega) (by omega)
    omega

/-- a ratio of exactly 0 or 1 (which the constructor rejects) would ask for nothing / for everything -/
theorem ratio_edge_rejected : ratioValid 0 1 = false ∧ ratioValid 1 1 = false ∧ ratioValid 3 2 = false ∧
    ratioValid (-1) 4 = false ∧ ratioValid 1 1000 = true ∧ ratioValid 999 1000 = true := by decide

/-! ## non-vacuity: the hypotheses are met by concrete runs of the same definitions -/
example : stateWritesOk [{ func := "MaskSplitter.__init__", method := "__init__", scope := "self", target := "rng", how := "assign" }] = true ∧
    stateWritesOk [{ func := "MaskSplitter._split_sample", method := "_split_sample", scope := "self", target := "_split_cache",
                     how := "subscript" }] = false ∧
    stateWritesOk [{ func := "fill:uniform_fill", method := "uniform_fill", scope := "decorator", target := "functools.lru_cache", how := "cache" }] = false := by decide
example : seedCallsOk ["tuple", "map", "ord", "str", "int", "np.mean"] = true ∧ seedCallsOk ["hash", "str", "int"] = false := by decide
example : runHist (κ := Nat) none 0 (fun n : Nat => n + 1) [] [1, 2, 1] = [2, 3, 2] := by decide

/-- 2×3 grid, 5 sampled cells: concrete Gaussian runs (plain, keep_acs, protected region + capped request) -/
example : gaussianSplit false 0 0 2 3 [true, true, false, true, true, true] (zeros 6) 1
      [(0, 0), (5, 5), (0, 0), (1, 2), (1, 1)] =
    some ([false, true, false, true, true, false], [true, false, false, false, false, true]) := by decide
example : gaussianSplit true 0 0 2 3 [true, true, false, true, true, true] [false, true, false, false, true, false] 0
      [(0, 1), (1, 0)] =
    some ([true, true, false, false, true, true], [false, true, false, true, true, false]) := by decide
example : gaussianSplit false 2 2 2 3 [true, true, false, true, true, true] (zeros 6) 7 [(0, 0), (1, 0), (0, 2), (1, 2)] =
    some ([true, true, false, true, true, false], [false, false, false, false, false, true]) := by decide
/-- the same run with the count the code computes: `int(ceil(float32(5) · float32(0.2))) = 1` -/
example : gaussianSplit false 0 0 2 3 [true, true, false, true, true, true] (zeros 6) (countCeilF32 5 1 5)
      [(0, 0), (5, 5), (0, 0), (1, 2), (1, 1)] =
    some ([false, true, false, true, true, false], [true, false, false, false, false, true]) := by decide
example : uniformSplit false 0 0 2 3 [true, true, false, true, true, true] (zeros 6) (countFloorF32 5 2 5).toNat [4, 0] =
    .ok ([false, true, false, true, false, true], [true, false, false, false, true, false]) := by decide
example : Covers 1 2 [true, true] [(0, 1), (0, 0)] := by
  intro k hk
  have : k < 2 := cell_true_lt _ _ hk
  match k, this with
  | 0, _ => exact ⟨(0, 0), by simp, by decide, rfl⟩
  | 1, _ => exact ⟨(0, 1), by simp, by decide, rfl⟩
example : uniformSplit false 0 0 2 3 [true, true, false, true, true, true] (zeros 6) 2 [4, 0] =
    .ok ([false, true, false, true, false, true], [true, false, false, false, true, false]) := by decide
example : uniformSplit false 2 2 2 2 [true, true, true, true] (zeros 4) 0 [] =
    .ok ([true, true, true, true], [false, false, false, false]) := by decide
example : halfSplit .diagRight (exactXs 3 3) (exactYs 3 3) false 0 0 3 3 (List.replicate 9 true) (zeros 9) =
    ([true, true, true, true, true, false, true, false, false],
     [false, false, false, false, false, true, false, true, true]) := by decide
example : halfSplit .horizontal [] [] false 2 2 4 4 (List.replicate 16 true) (zeros 16) =
    ([true, true, true, true, true, true, true, true, false, true, true, false, false, false, false, false],
     [false, false, false, false, false, false, false, false, true, false, false, true, true, true, true, true]) := by
  decide
example : gaussianSeed (seedTuple [102, 46, 104, 53] [49, 50]) = 67 := by decide
/-- without seeding the result does depend on the ambient state -/
example : ∃ (src : Sources) (cfg : Cfg) (a₁ a₂ : Ambient), cfg.useSeed = false ∧
    forwardGaussian src cfg a₁ 0 1 2 [] [] [true, true] (zeros 2) [] ≠
    forwardGaussian src cfg a₂ 0 1 2 [] [] [true, true] (zeros 2) [] :=
  ⟨{ ratioIdx := fun _ _ => 0, choice := fun _ _ _ => [], candidates := fun s _ _ _ => if s = 0 then [(0, 0)] else [(0, 1)] },
   { keep := false, a0 := 0, a1 := 0, useSeed := false, request := fun _ _ => 0, nRatios := 1 },
   { entropy := [], globalDraw := 0 }, { entropy := [], globalDraw := 1 }, rfl, by decide⟩
/-- the wrap-around of an over-sized protected region (outside the property's quantifier): on a 10-axis
`acs_region = 14` protects indices 8, 9 only -/
example : plumbingOk
    [.addFlag "is_ssl" true, .split "masked_kspace" false "input_" "target_" "sampling_mask" "acs_mask",
     .delete ["acs_mask"], .rename ["input_masked_kspace", "target_masked_kspace"] ["input_kspace", "kspace"],
     .delete ["masked_kspace", "sampling_mask"], .computeImage "kspace" "target"]
    { trainK := "input_kspace", trainMask := "input_sampling_mask", evalK := "masked_kspace", evalMask := "sampling_mask",
      project := "target_sampling_mask", lossK := "kspace", lossImage := "target" } = true := by decide
/-- a tail that forgets the rename leaves the fully sampled k-space under the loss key: rejected -/
example : plumbingOk
    [.addFlag "is_ssl" true, .split "masked_kspace" false "input_" "target_" "sampling_mask" "acs_mask"]
    { trainK := "input_kspace", trainMask := "input_sampling_mask", evalK := "masked_kspace", evalMask := "sampling_mask",
      project := "target_sampling_mask", lossK := "kspace", lossImage := "target" } = false := by decide
example : regionIdx 10 14 = [8, 9] := by decide
example : regionIdx 10 4 = [3, 4, 5, 6] := by decide
example : broadcastsTo [1, 1, 6, 8, 1] [3, 2, 6, 8, 2] = true ∧ broadcastsTo [1, 6, 8, 1] [3, 6, 8, 2] = true := by decide
/-- the float32 product lifts 50 · 0.3 just above 15 -/
example : countCeilF32 50 3 10 = 16 ∧ ratioCeil 50 3 10 = 15 ∧ countFloorF32 50 3 10 = 15 := by decide
example : dedup [(0, 0), (5, 5), (0, 0), (1, 2), (5, 5)] = [(0, 0), (5, 5), (1, 2)] := by decide
example : regionIdx 7 7 = [0, 1, 2, 3, 4, 5] := by decide

end DirectVerif.C11
