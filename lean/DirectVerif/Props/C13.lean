import DirectVerif.Lemmas.C13Misc
import DirectVerif.Lemmas.C13Machine
/-!
# C13 — samplers partition the data across ranks and never mix volumes in a batch

Property theorems only (helper lemmas: `Lemmas/C13*.lean`).  All statements are about the executable
model `Model/Sampler.lean`, which the driver runs against the real samplers on every check.
Quantification is over **all** layouts, world sizes, ranks, batch sizes, limits and operation histories.
-/
namespace DirectVerif.C13
open DirectVerif DirectVerif.Sampler

/-! ## `chunks` -/

/-- the chunks concatenate back to the list: nothing dropped, duplicated or reordered -/
theorem chunks_flatten {α} (xs : List α) (k : Nat) (hk : 0 < k) : (chunks xs k).flatten = xs :=
  chunks_flatten' xs k hk

/-- exactly `k` chunks (some possibly empty) -/
theorem chunks_length {α} (xs : List α) (k : Nat) : (chunks xs k).length = k :=
  chunks_length' xs k

/-- sizes differ by at most one, larger chunks first -/
theorem chunks_sizes_differ_le_one {α} (xs : List α) (k i j : Nat) (hi : i < k) (hj : j < k) :
    ((chunks xs k).getD i []).length ≤ ((chunks xs k).getD j []).length + 1 ∧
      (i ≤ j → ((chunks xs k).getD j []).length ≤ ((chunks xs k).getD i []).length) := by
  rw [chunks_getD_length xs k i hi, chunks_getD_length xs k j hj]
  exact ⟨chunkLen_le_succ _ _ _ _, fun h => chunkLen_antitone _ _ h⟩

/-- chunk `r` is the contiguous window `xs[s r : s (r+1)]` of a monotone boundary sequence from `0` to
`len xs` -/
theorem chunks_contiguous_in_order {α} (xs : List α) (k : Nat) (hk : 0 < k) :
    (∀ r, r < k → (chunks xs k).getD r [] =
      slice xs (chunkStart xs.length k r) (chunkStart xs.length k (r + 1))) ∧
    chunkStart xs.length k 0 = 0 ∧ chunkStart xs.length k k = xs.length ∧
    (∀ i j, i ≤ j → chunkStart xs.length k i ≤ chunkStart xs.length k j) := by
  refine ⟨?_, chunkStart_zero _ _, chunkStart_last _ _ hk, fun i j h => chunkStart_mono _ _ h⟩
  intro r hr
  rw [chunks_getD xs k r hr, chunkStart_succ]

example : chunks [10, 11, 12, 13, 14, 15, 16] 3 = [[10, 11, 12], [13, 14], [15, 16]] := by decide
example : chunks [10, 11] 4 = [[10], [11], [], []] := by decide

/-! ## `DistributedSequentialSampler` -/

/-- the volumes of ranks `0 … world-1`, concatenated, are the (limited) volume list -/
theorem rank_volumes_cover (layout : List Nat) (world : Nat) (hw : 0 < world) (limit : Int) :
    (List.range world).flatMap (fun r => rankVols layout world r limit) =
      applyLimit (volumes layout) limit :=
  rank_volumes_cover' layout world hw limit

/-- **Concatenating the samplers of ranks `0 … world-1` gives every dataset index exactly once, in
order** (ranks may be empty when `world` exceeds the number of volumes). -/
theorem ranks_cover_exactly_once (layout : List Nat) (world : Nat) (hw : 0 < world) :
    (List.range world).flatMap (fun r => seqSampler layout world r 0) = List.range layout.sum := by
  unfold seqSampler
  rw [← List.flatMap_assoc, rank_volumes_cover layout world hw 0]
  simp only [applyLimit, if_true, volumes, volsFrom_flatMap_indices, List.range_eq_range']

/-- with a volume limit `L > 0` the ranks cover exactly the indices of the first `L` volumes -/
theorem ranks_cover_exactly_once_limit (layout : List Nat) (world : Nat) (hw : 0 < world) (L : Nat)
    (hL : 0 < L) :
    (List.range world).flatMap (fun r => seqSampler layout world r L) =
      List.range (layout.take L).sum := by
  unfold seqSampler
  rw [← List.flatMap_assoc, rank_volumes_cover layout world hw L]
  have hne : ¬ ((L : Int) = 0) := by omega
  simp only [applyLimit, hne, if_false, pySlice, slice, volumes]
  have e1 : (if (0 : Int) < 0 then max ((0 : Int) + ↑(volsFrom 0 0 layout).length) 0
      else min 0 ↑(volsFrom 0 0 layout).length).toNat = 0 := by
    simp only [Int.lt_irrefl, if_false]; omega
  have e2 : (if (L : Int) < 0 then max ((L : Int) + ↑(volsFrom 0 0 layout).length) 0
      else min (L : Int) ↑(volsFrom 0 0 layout).length).toNat = min L (volsFrom 0 0 layout).length := by
    have : ¬ ((L : Int) < 0) := by omega
    simp only [this, if_false]; omega
  rw [e1, e2, List.drop_zero, volsFrom_take, volsFrom_flatMap_indices, List.range_eq_range',
    volsFrom_length, ← List.take_eq_take_min]

/-- how many volumes `filenames[:limit]` keeps, with Python's semantics: `None`/0 = all, a positive limit = the
first `limit` (all if there are fewer), a negative limit = all but the last `-limit` -/
def keptVolumes (len : Nat) (limit : Int) : Nat :=
  if limit = 0 then len else if limit < 0 then (limit + len).toNat else min limit.toNat len

theorem applyLimit_eq_take {α} (xs : List α) (limit : Int) :
    applyLimit xs limit = xs.take (keptVolumes xs.length limit) := by
  unfold applyLimit keptVolumes
  by_cases h0 : limit = 0
  · simp [h0]
  · simp only [h0, if_false, pySlice, slice]
    have e1 : (if (0 : Int) < 0 then max ((0 : Int) + ↑xs.length) 0 else min 0 ↑xs.length).toNat = 0 := by
      simp only [Int.lt_irrefl, if_false]; omega
    rw [e1, List.drop_zero]
    congr 1
    by_cases hneg : limit < 0
    · simp only [hneg, if_true]; omega
    · simp only [hneg, if_false]; omega

/-- **for every value of `limit_number_of_volumes`** the ranks together cover exactly the indices of the kept
volumes, each once, in order (generalises `ranks_cover_exactly_once` and `ranks_cover_exactly_once_limit`;
a limit larger than the number of volumes keeps all, a negative one drops volumes from the end) -/
theorem ranks_cover_exactly_once_any_limit (layout : List Nat) (world : Nat) (hw : 0 < world) (limit : Int) :
    (List.range world).flatMap (fun r => seqSampler layout world r limit) =
      List.range (layout.take (keptVolumes layout.length limit)).sum := by
  unfold seqSampler
  rw [← List.flatMap_assoc, rank_volumes_cover layout world hw limit, applyLimit_eq_take, volumes,
    volsFrom_take, volsFrom_flatMap_indices, List.range_eq_range', volsFrom_length]

example : keptVolumes 4 0 = 4 ∧ keptVolumes 4 2 = 2 ∧ keptVolumes 4 9 = 4 ∧ keptVolumes 4 (-1) = 3 ∧
    keptVolumes 4 (-7) = 0 := by decide
example : (List.range 2).map (fun r => seqSampler [2, 3, 1, 2] 2 r 3) = [[0, 1, 2, 3, 4], [5]] := by decide

/-- rank `r` receives the contiguous block of volumes `s r … s (r+1) - 1` (chunk boundaries `s`), hence
the contiguous block of dataset indices starting after the volumes before it: each volume's slices
in ascending order, volumes in dataset order. -/
theorem rank_indices_contiguous (layout : List Nat) (world r : Nat) (hr : r < world) :
    seqSampler layout world r 0 =
      List.range' ((layout.take (chunkStart layout.length world r)).sum)
        ((slice layout (chunkStart layout.length world r) (chunkStart layout.length world (r + 1))).sum) := by
  unfold seqSampler rankVols
  simp only [applyLimit, if_true, volumes]
  rw [chunks_getD _ _ _ hr, ← chunkStart_succ, volsFrom_length, volsFrom_slice,
    volsFrom_flatMap_indices, Nat.zero_add]

/-- **Each volume is assigned to exactly one rank**, at its position within that rank's block. -/
theorem volume_on_one_rank_in_order (layout : List Nat) (world : Nat) (hw : 0 < world) (i : Nat)
    (hi : i < layout.length) :
    ∃ r, r < world ∧
      chunkStart layout.length world r ≤ i ∧ i < chunkStart layout.length world (r + 1) ∧
      (rankVols layout world r 0)[i - chunkStart layout.length world r]? = (volumes layout)[i]? ∧
      ∀ r', r' < world → chunkStart layout.length world r' ≤ i →
        i < chunkStart layout.length world (r' + 1) → r' = r := by
  -- the owner is the last rank whose block starts at or before `i`
  have hex : ∀ k, k ≤ world → i < chunkStart layout.length world k →
      ∃ r, r < k ∧ chunkStart layout.length world r ≤ i ∧ i < chunkStart layout.length world (r + 1) := by
    intro k
    induction k with
    | zero => intro _ h; rw [chunkStart_zero] at h; omega
    | succ k ih =>
      intro hk h
      by_cases hc : chunkStart layout.length world k ≤ i
      · exact ⟨k, by omega, hc, h⟩
      · obtain ⟨r, hr, h1, h2⟩ := ih (by omega) (by omega)
        exact ⟨r, by omega, h1, h2⟩
  obtain ⟨r, hr, h1, h2⟩ := hex world (Nat.le_refl _) (by rw [chunkStart_last _ _ hw]; exact hi)
  refine ⟨r, hr, h1, h2, ?_, ?_⟩
  · unfold rankVols
    simp only [applyLimit, if_true]
    have hl : (volumes layout).length = layout.length := volsFrom_length 0 0 layout
    rw [chunks_getD _ _ _ hr, ← chunkStart_succ, hl]
    unfold slice
    rw [List.getElem?_drop, List.getElem?_take]
    have e : chunkStart layout.length world r + (i - chunkStart layout.length world r) = i := by omega
    rw [e]
    simp only [h2, if_true]
  · intro r' _ h1' h2'
    by_cases hlt : r' < r
    · have := chunkStart_mono layout.length world (show r' + 1 ≤ r by omega); omega
    · by_cases hgt : r < r'
      · have := chunkStart_mono layout.length world (show r + 1 ≤ r' by omega); omega
      · omega

example : (List.range 3).map (fun r => seqSampler [2, 3, 1, 2] 3 r 0) = [[0, 1, 2, 3, 4], [5], [6, 7]] := by
  decide
/-- ranks beyond the number of volumes are empty, not an error -/
example : (List.range 4).map (fun r => seqSampler [2, 3] 4 r 0) = [[0, 1], [2, 3, 4], [], []] := by decide

/-! ## `BatchVolumeSampler`, for every pass of every operation history -/

/-- the batch sampler that `build_batch_sampler(dataset, bs, "sequential", …)` constructs -/
def mkBVS (layout : List Nat) (world rank : Nat) (limit : Int) (bs : Nat) : BVS :=
  BVS.mk' (rankVols layout world rank limit) bs

/-- operations never change the object, so a history is answered operation by operation -/
theorem bvs_run_eq (b : BVS) (ops : List Op) : b.run ops = ops.map fun op => (b.step op).2 := by
  induction ops with
  | nil => rfl
  | cons op ops ih =>
    have : (b.step op).1 = b := by cases op <;> rfl
    simp only [BVS.run, this, ih, List.map_cons]

/-- **Every pass of every history** (`iter; len; iter; iter …` in any order, any length) returns the
same batches: for each volume of the rank, in order, its indices cut into pieces of `bs`. -/
theorem bvs_every_pass (layout : List Nat) (hl : ∀ n ∈ layout, 0 < n) (world rank : Nat) (limit : Int)
    (bs : Nat) (hbs : 0 < bs) (ops : List Op) (bb : List (List Nat))
    (h : Out.batches bb ∈ (mkBVS layout world rank limit bs).run ops) :
    bb = (rankVols layout world rank limit).flatMap fun v => chunksOf bs v.indices := by
  rw [bvs_run_eq, List.mem_map] at h
  obtain ⟨op, _, hop⟩ := h
  cases op with
  | len => simp [BVS.step] at hop
  | iter =>
    simp only [BVS.step, Out.batches.injEq] at hop
    rw [← hop]
    exact bvs_iterate_eq _ bs hbs (rankVols_pos layout world rank limit hl)

/-- the `m`-th successive iteration of the same object equals the first, for every `m` -/
theorem bvs_mth_pass_eq (layout : List Nat) (hl : ∀ n ∈ layout, 0 < n) (world rank : Nat) (limit : Int)
    (bs : Nat) (hbs : 0 < bs) (m : Nat) :
    (mkBVS layout world rank limit bs).run (List.replicate m Op.iter) =
      List.replicate m (Out.batches
        ((rankVols layout world rank limit).flatMap fun v => chunksOf bs v.indices)) := by
  rw [bvs_run_eq, List.map_replicate]
  congr 1
  simp only [BVS.step]
  congr 1
  exact bvs_iterate_eq _ bs hbs (rankVols_pos layout world rank limit hl)

/-- **every batch of every pass holds consecutive indices of a single volume** -/
theorem bvs_batches_single_volume_consecutive (layout : List Nat) (hl : ∀ n ∈ layout, 0 < n)
    (world rank : Nat) (limit : Int) (bs : Nat) (hbs : 0 < bs) (ops : List Op) (bb : List (List Nat))
    (h : Out.batches bb ∈ (mkBVS layout world rank limit bs).run ops) :
    ∀ batch ∈ bb, ∃ v ∈ rankVols layout world rank limit, ∃ c m,
      batch = List.range' c m ∧ v.start ≤ c ∧ c + m ≤ v.stop ∧ 0 < m := by
  rw [bvs_every_pass layout hl world rank limit bs hbs ops bb h]
  intro batch hb
  rw [List.mem_flatMap] at hb
  obtain ⟨v, hv, hbv⟩ := hb
  have hp := rankVols_pos layout world rank limit hl v hv
  obtain ⟨c, m, e, h1, h2, h3, _⟩ := chunksOf_range'_mem bs hbs _ _ batch hbv
  exact ⟨v, hv, c, m, e, h1, by omega, h3⟩

/-- **no batch is longer than the batch size** (and none is empty) -/
theorem bvs_batch_len_le (layout : List Nat) (hl : ∀ n ∈ layout, 0 < n)
    (world rank : Nat) (limit : Int) (bs : Nat) (hbs : 0 < bs) (ops : List Op) (bb : List (List Nat))
    (h : Out.batches bb ∈ (mkBVS layout world rank limit bs).run ops) :
    ∀ batch ∈ bb, 0 < batch.length ∧ batch.length ≤ bs := by
  rw [bvs_every_pass layout hl world rank limit bs hbs ops bb h]
  intro batch hb
  rw [List.mem_flatMap] at hb
  obtain ⟨v, _, hbv⟩ := hb
  obtain ⟨c, m, e, _, _, h3, h4⟩ := chunksOf_range'_mem bs hbs _ _ batch hbv
  rw [e, List.length_range']
  exact ⟨h3, h4⟩

theorem flatMap_length_sum {α β} (l : List α) (f : α → List β) :
    (l.flatMap f).length = (l.map fun a => (f a).length).sum := by
  induction l with
  | nil => rfl
  | cons a l ih => simp [ih]

/-- **the number of batches of every pass equals what `len()` reports** anywhere in the history -/
theorem bvs_num_batches_eq_len (layout : List Nat) (hl : ∀ n ∈ layout, 0 < n)
    (world rank : Nat) (limit : Int) (bs : Nat) (hbs : 0 < bs) (ops ops' : List Op)
    (bb : List (List Nat)) (n : Nat)
    (h : Out.batches bb ∈ (mkBVS layout world rank limit bs).run ops)
    (h' : Out.len n ∈ (mkBVS layout world rank limit bs).run ops') : bb.length = n := by
  rw [bvs_every_pass layout hl world rank limit bs hbs ops bb h]
  rw [bvs_run_eq, List.mem_map] at h'
  obtain ⟨op, _, hop⟩ := h'
  cases op with
  | iter => simp [BVS.step] at hop
  | len =>
    simp only [BVS.step, Out.len.injEq] at hop
    rw [← hop, flatMap_length_sum]
    simp only [mkBVS, BVS.mk']
    congr 1
    apply List.map_congr_left
    intro v _
    rw [chunksOf_length bs hbs, Vol.indices, List.length_range', Vol.size]

/-- **no index is dropped or duplicated**: the batches of every pass flatten to the rank's index list -/
theorem bvs_flatten_eq_indices (layout : List Nat) (hl : ∀ n ∈ layout, 0 < n)
    (world rank : Nat) (limit : Int) (bs : Nat) (hbs : 0 < bs) (ops : List Op) (bb : List (List Nat))
    (h : Out.batches bb ∈ (mkBVS layout world rank limit bs).run ops) :
    bb.flatten = seqSampler layout world rank limit := by
  rw [bvs_every_pass layout hl world rank limit bs hbs ops bb h]
  unfold seqSampler
  generalize rankVols layout world rank limit = vols
  induction vols with
  | nil => rfl
  | cons v vs ih => simp [ih, chunksOf_flatten bs hbs]

/-- the sampler built on a `DistributedSequentialSampler` never evaluates `None - 1` -/
theorem bvs_never_raises (layout : List Nat) (world rank : Nat) (limit : Int) (bs : Nat) :
    (mkBVS layout world rank limit bs).raises = false := by
  simp only [mkBVS, BVS.mk', BVS.raises]
  generalize rankVols layout world rank limit = vols
  cases vols <;> simp

-- hypotheses are satisfiable; three passes and a `len` in between, a rank without volumes
example : (mkBVS [3, 1, 5] 2 0 0 2).run [.iter, .len, .iter, .iter] =
    [.batches [[0, 1], [2], [3]], .len 3, .batches [[0, 1], [2], [3]], .batches [[0, 1], [2], [3]]] := by decide
example : (mkBVS [3, 1, 5] 2 1 0 2).run [.iter, .len] = [.batches [[4, 5], [6, 7], [8]], .len 3] := by decide
example : (mkBVS [3] 2 1 0 2).run [.iter, .len, .iter] = [.batches [], .len 0, .batches []] := by decide
example : ∀ n ∈ [3, 1, 5], 0 < n := by decide

/-! ## `BatchVolumeSampler` with several live iterators: abandoned passes and interleavings

`Model/C13Machine.lean`: the sampler object plus any number of generator objects (`iter(bs)`), each advanced by
`next`, abandoned at any `yield`, interleaved in any order with each other and with `len()`.  The object is
everything `__iter__` reads from `self`; no operation writes it (bridge: `bvs_iter_self_writes = []`,
`bvs_init_iterator_attrs = []`, `seq_iter_is_indices`). -/

/-- the batches of the one pass over the rank's volumes: each volume's indices cut into pieces of `bs` -/
def passSpec (layout : List Nat) (world rank : Nat) (limit : Int) (bs : Nat) : List (List Nat) :=
  (rankVols layout world rank limit).flatMap fun v => chunksOf bs v.indices

/-- whatever clients do with iterators of the object, the object stays as constructed -/
theorem bvs_machine_object_unchanged (b : BVS) (ops : List MOp) : ((Machine.init b).exec ops).obj = b :=
  Machine.exec_obj _ ops

/-- **Every pass started in any reachable state yields exactly the single-volume consecutive batches.**
After an arbitrary history `pre` (complete passes, passes abandoned half-way, several iterators alive, `len`),
a new `iter(bs)` returns a generator whose `n`-th `next` is the `n`-th batch of `passSpec` (and
`StopIteration` from the end on), for every continuation `ops` that interleaves it with anything else. -/
theorem bvs_pass_after_any_history (layout : List Nat) (hl : ∀ n ∈ layout, 0 < n) (world rank : Nat)
    (limit : Int) (bs : Nat) (hbs : 0 < bs) (pre ops : List MOp)
    (hna : MOp.abandon ((Machine.init (mkBVS layout world rank limit bs)).exec pre).gens.length ∉ ops) :
    nextOuts ((Machine.init (mkBVS layout world rank limit bs)).exec pre).gens.length ops
        ((((Machine.init (mkBVS layout world rank limit bs)).exec pre).step .iter).1.run ops) =
      (List.range (ops.count (.next ((Machine.init (mkBVS layout world rank limit bs)).exec pre).gens.length))).map
        fun n => MOut.ofOpt ((passSpec layout world rank limit bs)[n]?) := by
  generalize hm : (Machine.init (mkBVS layout world rank limit bs)).exec pre = m at *
  have hobj : m.obj = mkBVS layout world rank limit bs := by
    rw [← hm]; exact Machine.exec_obj _ pre
  have hg : (m.step .iter).1.gens[m.gens.length]? = some (some GenSt.fresh) := by
    simp [Machine.step]
  rw [machine_pass_general ops _ _ _ hg hna, Machine.step_obj, hobj]
  simp only [BVS.remaining, passSpec, mkBVS]
  rw [bvs_iterate_eq _ bs hbs (rankVols_pos layout world rank limit hl)]

/-- the same for an arbitrary object (any inner sampler, any `volume_indices`, also inconsistent ones — the
`bvsmraw` driver operation): a pass started after any history is the pass of a fresh object, `b.iterate` -/
theorem bvs_any_object_pass_after_any_history (b : BVS) (pre ops : List MOp)
    (hna : MOp.abandon ((Machine.init b).exec pre).gens.length ∉ ops) :
    nextOuts ((Machine.init b).exec pre).gens.length ops ((((Machine.init b).exec pre).step .iter).1.run ops) =
      (List.range (ops.count (.next ((Machine.init b).exec pre).gens.length))).map
        fun n => MOut.ofOpt (b.iterate[n]?) := by
  generalize hm : (Machine.init b).exec pre = m at *
  have hobj : m.obj = b := by rw [← hm]; exact Machine.exec_obj _ pre
  have hg : (m.step .iter).1.gens[m.gens.length]? = some (some GenSt.fresh) := by simp [Machine.step]
  rw [machine_pass_general ops _ _ _ hg hna, Machine.step_obj, hobj]
  rfl

/-- the one pass has exactly `len()` batches: an iterator run to the end returns `len()` batches and then
`StopIteration` (with `bvs_pass_after_any_history`: the `n`-th `next` is a batch iff `n < len()`) -/
theorem bvs_pass_length_eq_len (layout : List Nat) (world rank : Nat) (limit : Int) (bs : Nat) (hbs : 0 < bs) :
    (passSpec layout world rank limit bs).length = (mkBVS layout world rank limit bs).numBatches := by
  rw [passSpec, flatMap_length_sum]
  simp only [mkBVS, BVS.mk']
  congr 1
  apply List.map_congr_left
  intro v _
  rw [chunksOf_length bs hbs, Vol.indices, List.length_range', Vol.size]

/-- **every batch that any iterator returns at any point of any interleaved history** holds consecutive
indices of a single volume of the rank, at most `bs` of them -/
theorem bvs_machine_batches_single_volume (layout : List Nat) (hl : ∀ n ∈ layout, 0 < n) (world rank : Nat)
    (limit : Int) (bs : Nat) (hbs : 0 < bs) (ops : List MOp) (batch : List Nat)
    (h : MOut.batch batch ∈ (Machine.init (mkBVS layout world rank limit bs)).run ops) :
    ∃ v ∈ rankVols layout world rank limit, ∃ c m,
      batch = List.range' c m ∧ v.start ≤ c ∧ c + m ≤ v.stop ∧ 0 < m ∧ m ≤ bs := by
  have hb := machine_batches_mem _ ops _ (Machine.inv_init _) batch h
  simp only [mkBVS] at hb
  rw [bvs_iterate_eq _ bs hbs (rankVols_pos layout world rank limit hl), List.mem_flatMap] at hb
  obtain ⟨v, hv, hbv⟩ := hb
  have hp := rankVols_pos layout world rank limit hl v hv
  obtain ⟨c, m, e, h1, h2, h3, h4⟩ := chunksOf_range'_mem bs hbs _ _ batch hbv
  exact ⟨v, hv, c, m, e, h1, by omega, h3, h4⟩

/-- `len()` anywhere in an interleaved history reports the number of batches of a pass -/
theorem bvs_machine_len (layout : List Nat) (world rank : Nat) (limit : Int) (bs : Nat) (hbs : 0 < bs)
    (pre : List MOp) :
    (((Machine.init (mkBVS layout world rank limit bs)).exec pre).step .len).2 =
      .len (passSpec layout world rank limit bs).length := by
  rw [bvs_pass_length_eq_len _ _ _ _ _ hbs]
  simp only [Machine.step, Machine.exec_obj, Machine.init]

-- a pass abandoned after the first volume, then a full pass; two interleaved passes (`zip(bs, bs)`)
example : (Machine.init (mkBVS [3, 2] 1 0 0 2)).run
      [.iter, .next 0, .next 0, .abandon 0, .len, .iter, .next 1, .next 1, .next 1, .next 1, .next 1] =
    [.handle 0, .batch [0, 1], .batch [2], .closed, .len 3, .handle 1, .batch [0, 1], .batch [2], .batch [3, 4],
     .stop, .stop] := by decide
example : (Machine.init (mkBVS [3, 2] 1 0 0 2)).run
      [.iter, .iter, .next 0, .next 1, .next 0, .next 1, .next 0, .next 1, .next 0, .next 1] =
    [.handle 0, .handle 1, .batch [0, 1], .batch [0, 1], .batch [2], .batch [2], .batch [3, 4], .batch [3, 4],
     .stop, .stop] := by decide
example : MOp.abandon ((Machine.init (mkBVS [3, 2] 1 0 0 2)).exec [.iter, .next 0, .abandon 0]).gens.length ∉
    [MOp.next 1, .len, .next 1] := by decide

/-- Regression witness: on the pre-repair object (iterator and `_next_value` stored on the object and
consumed) the **second** pass over layout `[2, 3]` with batch size 4 mixes both volumes in one batch. -/
theorem bvs_pinned_second_pass_violates :
    BVS.iteratePinnedTimes 2 (BVSPinned.mk' (volumes [2, 3]) 4) =
        [[[0, 1], [2, 3, 4]], [[0, 1, 2, 3], [4]]] ∧
      singleVolume (volumes [2, 3]) [0, 1, 2, 3] = false := by decide

/-- Outside the property's quantifier (volumes have ≥ 1 slice): an *empty* volume (all slices filtered
out) followed by others stalls `next_value` and batches then mix volumes.  This is why every theorem
above carries `∀ n ∈ layout, 0 < n`. -/
theorem bvs_empty_volume_mixes :
    (BVS.mk' (volumes [2, 0, 3, 3]) 4).iterate = [[0, 1], [2, 3, 4, 5], [6, 7]] ∧
      singleVolume (volumes [2, 0, 3, 3]) [2, 3, 4, 5] = false := by decide

/-! ## `ConcatDatasetBatchSampler` -/

/-- member `m`'s index block starts where member `m-1`'s ends (`cumulative_sizes`) -/
theorem concat_offset_succ (sizes : List Nat) (m : Nat) (hm : m < sizes.length) :
    concatOffset sizes (m + 1) = concatOffset sizes m + sizes[m] := by
  rw [concatOffset_eq sizes (m + 1) (by omega), concatOffset_eq sizes m (by omega), List.take_add_one,
    List.sum_append]
  simp [List.getElem?_eq_getElem hm]

/-- **Every training batch lies inside one member's index range** — the member drawn — and is full,
for every draw history and every member stream with values below the member's size. -/
theorem concat_batch_single_member (sizes : List Nat) (bs : Nat) (hbs : 0 < bs)
    (streams : List (List Nat)) (draws : List Nat)
    (hs : ∀ m (hm : m < sizes.length), ∀ x ∈ streams.getD m [], x < sizes[m])
    (i m : Nat) (hm : m < sizes.length) (batch : List Nat) (hd : draws[i]? = some m)
    (hb : (concatRun sizes bs streams draws)[i]? = some (some batch)) :
    batch.length = bs ∧
      ∀ e ∈ batch, concatOffset sizes m ≤ e ∧ e < concatOffset sizes (m + 1) := by
  obtain ⟨t, hlen, ht⟩ := concatRunFrom_spec sizes bs streams draws _ i m batch hd hb
  obtain ⟨h1, h2⟩ := concat_batch_props bs _ t hbs _ batch hlen ht
  refine ⟨h1, ?_⟩
  intro e he
  obtain ⟨x, hx, hxe⟩ := h2 e he
  have := hs m hm x (List.mem_of_mem_take hx)
  rw [concat_offset_succ sizes m hm]
  omega

example : concatRun [3, 2] 2 [[2, 0, 1, 1, 0, 2], [1, 0, 0, 1]] [1, 0, 0, 1] =
    [some [4, 3], some [2, 0], some [1, 1], some [3, 4]] := by decide

/-! ## `DistributedSampler` -/

/-- rank `r` sees elements `r, r + world, r + 2·world, …` of the shared infinite stream -/
theorem dist_stream_get (perms : List (List Nat)) (rank world : Nat) (hw : 0 < world) (k : Nat) :
    (distStream perms rank world)[k]? = (infinitePrefix perms)[rank + k * world]? :=
  islice_getElem? world hw k _ rank

/-- **The rank streams partition the infinite stream**: every position `n` of the stream is delivered
to exactly one rank, at exactly one position of that rank's stream. -/
theorem strided_partition (world : Nat) (hw : 0 < world) (n : Nat) :
    ∃ r k, r < world ∧ r + k * world = n ∧
      ∀ r' k', r' < world → r' + k' * world = n → r' = r ∧ k' = k := by
  refine ⟨n % world, n / world, Nat.mod_lt _ hw, ?_, ?_⟩
  · rw [Nat.mul_comm]; exact Nat.mod_add_div n world
  · intro r' k' hr' h
    subst h
    rw [Nat.add_mul_mod_self_right, Nat.mod_eq_of_lt hr', Nat.add_mul_div_right _ _ hw,
      Nat.div_eq_of_lt hr', Nat.zero_add]
    exact ⟨rfl, rfl⟩

example : (List.range 3).map (fun r => distStream [[2, 0, 1, 3], [1, 3, 0, 2]] r 3) =
    [[2, 3, 0], [0, 1, 2], [1, 3]] := by decide

/-- the infinite stream is epoch after epoch: position `e·size + j` holds element `j` of epoch `e` -/
theorem infinite_get (size : Nat) (perms : List (List Nat)) (hp : ∀ p ∈ perms, p.length = size) (e j : Nat)
    (hj : j < size) :
    (infinitePrefix perms)[e * size + j]? = (perms[e]?).bind (·[j]?) := by
  unfold infinitePrefix
  induction perms generalizing e with
  | nil => simp
  | cons p ps ih =>
    have hlen : p.length = size := hp p (by simp)
    cases e with
    | zero =>
      simp only [Nat.zero_mul, Nat.zero_add, List.flatten_cons, List.getElem?_cons_zero, Option.bind_some]
      rw [List.getElem?_append_left (by omega)]
    | succ e =>
      simp only [List.flatten_cons, List.getElem?_cons_succ]
      rw [List.getElem?_append_right (by rw [hlen, Nat.add_mul]; omega)]
      rw [show (e + 1) * size + j - p.length = e * size + j by rw [hlen, Nat.add_mul]; omega]
      exact ih (fun q hq => hp q (by simp [hq])) e

/-- **Dealing the rank streams out round-robin reproduces the shared stream**: position `n` of the stream is
element `n / world` of rank `n % world`.  Nothing is padded or duplicated when the dataset size is not a multiple of
the world size — a rank's stream simply runs on into the next epoch's permutation. -/
theorem dist_interleave_reconstructs (perms : List (List Nat)) (world : Nat) (hw : 0 < world) (n : Nat) :
    (distStream perms (n % world) world)[n / world]? = (infinitePrefix perms)[n]? := by
  rw [dist_stream_get perms _ world hw, Nat.mul_comm, Nat.mod_add_div]

/-- hence, with `infinite_get`: element `j` of epoch `e` goes to rank `(e·size + j) % world` — every element of
every epoch permutation to exactly one rank (`strided_partition`), for every epoch, shuffled or not -/
theorem dist_epoch_element_owner (size : Nat) (perms : List (List Nat)) (hp : ∀ p ∈ perms, p.length = size)
    (world : Nat) (hw : 0 < world) (e j : Nat) (hj : j < size) :
    (distStream perms ((e * size + j) % world) world)[(e * size + j) / world]? = (perms[e]?).bind (·[j]?) := by
  rw [dist_interleave_reconstructs perms world hw, infinite_get size perms hp e j hj]

example : (distStream [[2, 0, 1], [1, 2, 0]] ((1 * 3 + 1) % 2) 2)[(1 * 3 + 1) / 2]? = some 2 := by decide

/-! ## `len()`: `math.ceil(n / bs)` in binary64 versus the integer ceiling

The code computes the true quotient in binary64 and takes `math.ceil`.  Write `F = m / 2^s` for the computed
quotient and `q` for the integer ceiling of `n / bs`.  IEEE-754 division is correctly rounded, hence monotone
and exact on representable values; this gives `F ≤ q` (as `n/bs ≤ q` and `q` is representable) and `y₀ ≤ F` for
every representable `y₀ ≤ n/bs`.  The three theorems below provide the witness `y₀ = (q-1) + 2^{-t}` with
`bs ≤ 2^t < 2·bs`: it lies below `n/bs` whenever `bs` does not divide `n`, it is representable (its
numerator stays below `2^53`) for all `n < 2^52`, and the sandwich forces `ceil F = q`.  So for `n < 2^52` the
float expression equals the integer ceiling — the only thing assumed is IEEE-754's correct rounding. -/

/-- the dyadic witness does not exceed the true quotient: `((q-1)·2^t + 1) / 2^t ≤ n / bs` -/
theorem float_ceil_witness_le (n bs q t : Nat) (hq : (q - 1) * bs < n) (ht : bs ≤ 2 ^ t) :
    ((q - 1) * 2 ^ t + 1) * bs ≤ n * 2 ^ t := by
  have h1 : ((q - 1) * bs + 1) * 2 ^ t ≤ n * 2 ^ t := Nat.mul_le_mul_right _ hq
  have h2 : ((q - 1) * 2 ^ t + 1) * bs = (q - 1) * bs * 2 ^ t + bs := by
    rw [Nat.add_mul, Nat.one_mul, Nat.mul_assoc, Nat.mul_comm (2 ^ t) bs, ← Nat.mul_assoc]
  have h3 : ((q - 1) * bs + 1) * 2 ^ t = (q - 1) * bs * 2 ^ t + 2 ^ t := by
    rw [Nat.add_mul, Nat.one_mul]
  omega

/-- … and is representable in binary64 (53-bit significand) for every `n < 2^52` -/
theorem float_ceil_witness_representable (n bs q t : Nat) (hn : n < 2 ^ 52) (hq : (q - 1) * bs ≤ n)
    (ht : 2 ^ t < 2 * bs) : (q - 1) * 2 ^ t + 1 ≤ 2 ^ 53 := by
  have h1 : (q - 1) * 2 ^ t ≤ (q - 1) * (2 * bs) := Nat.mul_le_mul_left _ (Nat.le_of_lt ht)
  have h2 : (q - 1) * (2 * bs) = 2 * ((q - 1) * bs) := by
    rw [Nat.mul_comm 2 bs, ← Nat.mul_assoc, Nat.mul_comm]
  have h3 : (2 : Nat) ^ 53 = 2 * 2 ^ 52 := by decide
  omega

/-- a computed quotient `F = m / 2^s` squeezed between the witness and `q` has ceiling `q` -/
theorem float_ceil_of_sandwich (m s q t : Nat) (hq : 0 < q)
    (hlow : ((q - 1) * 2 ^ t + 1) * 2 ^ s ≤ m * 2 ^ t) (hup : m ≤ q * 2 ^ s) :
    ceilDiv m (2 ^ s) = q := by
  have hP : 0 < 2 ^ s := Nat.pow_pos (by decide)
  have hT : 0 < 2 ^ t := Nat.pow_pos (by decide)
  have hlt : (q - 1) * 2 ^ s < m := by
    apply Nat.lt_of_mul_lt_mul_right (a := 2 ^ t)
    have e : (q - 1) * 2 ^ s * 2 ^ t = (q - 1) * 2 ^ t * 2 ^ s := by
      rw [Nat.mul_assoc, Nat.mul_comm (2 ^ s), ← Nat.mul_assoc]
    have e2 : ((q - 1) * 2 ^ t + 1) * 2 ^ s = (q - 1) * 2 ^ t * 2 ^ s + 2 ^ s := by
      rw [Nat.add_mul, Nat.one_mul]
    omega
  unfold ceilDiv
  have hq1 : (q - 1) * 2 ^ s + 2 ^ s = q * 2 ^ s := by
    have : q = (q - 1) + 1 := by omega
    conv => rhs; rw [this, Nat.add_mul, Nat.one_mul]
  apply Nat.div_eq_of_lt_le
  · omega
  · rw [Nat.add_mul, Nat.one_mul]; omega

example : ceilDiv 7 2 = 4 ∧ ((4 - 1) * 2 ^ 1 + 1) * 2 ^ 1 ≤ 7 * 2 ^ 1 ∧ 7 ≤ 4 * 2 ^ 1 := by decide

/-- a power of two in `[bs, 2·bs)` -/
theorem exists_pow_two_between (bs : Nat) (hbs : 0 < bs) : ∃ t, bs ≤ 2 ^ t ∧ 2 ^ t < 2 * bs := by
  have h1 : 2 ^ bs.log2 ≤ bs := Nat.log2_self_le (by omega)
  have h2 : bs < 2 ^ (bs.log2 + 1) := Nat.lt_log2_self
  have h3 : 2 ^ (bs.log2 + 1) = 2 * 2 ^ bs.log2 := by rw [Nat.pow_succ, Nat.mul_comm]
  by_cases he : 2 ^ bs.log2 = bs
  · exact ⟨bs.log2, by omega, by omega⟩
  · exact ⟨bs.log2 + 1, by omega, by omega⟩

/-- **`math.ceil(n / bs)` computed in binary64 is the integer ceiling for every `n < 2^52`**, for every
rounding of the quotient that is monotone and exact on representable values.  The computed quotient is
`F = m / 2^s` (every finite float is such a dyadic).  `hlow`: every dyadic `a / 2^t` with `a ≤ 2^53`
(53-bit significand: representable) that does not exceed `n / bs` does not exceed `F`; `hup`: the mirror image.
Both follow from correct rounding (round-to-nearest is monotone and fixes representable values); nothing else
is assumed — in particular not that the quotient is computed exactly. -/
theorem float_ceil_eq (n bs : Nat) (hbs : 0 < bs) (hn : n < 2 ^ 52) (m s : Nat)
    (hlow : ∀ a t, a ≤ 2 ^ 53 → a * bs ≤ n * 2 ^ t → a * 2 ^ s ≤ m * 2 ^ t)
    (hup : ∀ a t, a ≤ 2 ^ 53 → n * 2 ^ t ≤ a * bs → m * 2 ^ t ≤ a * 2 ^ s) :
    ceilDiv m (2 ^ s) = ceilDiv n bs := by
  have hP : 0 < 2 ^ s := Nat.pow_pos (by decide)
  have h53 : (2 : Nat) ^ 53 = 2 * 2 ^ 52 := by decide
  -- q = ⌈n / bs⌉ with (q - 1)·bs < n ≤ q·bs  (or n = 0 = q)
  have hq1 : n ≤ ceilDiv n bs * bs := by
    unfold ceilDiv
    have := Nat.div_add_mod (n + bs - 1) bs
    have := Nat.mod_lt (n + bs - 1) hbs
    rw [Nat.mul_comm]; omega
  have hq2 : 0 < n → (ceilDiv n bs - 1) * bs < n ∧ 0 < ceilDiv n bs := by
    intro hn0
    unfold ceilDiv
    have h1 : 1 ≤ (n + bs - 1) / bs := (Nat.le_div_iff_mul_le hbs).mpr (by omega)
    have h2 := Nat.div_mul_le_self (n + bs - 1) bs
    have h3 : ((n + bs - 1) / bs - 1) * bs = (n + bs - 1) / bs * bs - bs := by
      rw [Nat.sub_mul, Nat.one_mul]
    omega
  have hqle : ceilDiv n bs ≤ n := by
    unfold ceilDiv
    rcases Nat.eq_zero_or_pos n with h0 | h0
    · subst h0; simp; omega
    · exact Nat.div_le_of_le_mul (by
        have : n ≤ bs * n := Nat.le_mul_of_pos_left n hbs
        have : 1 ≤ bs * n := by omega
        have h4 : bs + n ≤ bs * n + 1 := by
          cases bs with
          | zero => omega
          | succ b =>
            cases n with
            | zero => omega
            | succ k => rw [Nat.succ_mul, Nat.mul_succ]; omega
        omega)
  -- upper side: q is representable and ≥ n / bs
  have hU : m ≤ ceilDiv n bs * 2 ^ s := by
    have := hup (ceilDiv n bs) 0 (by omega) (by simpa using hq1)
    simpa using this
  rcases Nat.eq_zero_or_pos n with h0 | h0
  · subst h0
    have hq0 : ceilDiv 0 bs = 0 := ceilDiv_zero bs hbs
    rw [hq0] at hU ⊢
    have : m = 0 := by omega
    subst this
    exact ceilDiv_zero _ hP
  · obtain ⟨hq3, hq4⟩ := hq2 h0
    obtain ⟨t, ht1, ht2⟩ := exists_pow_two_between bs hbs
    have hrep := float_ceil_witness_representable n bs (ceilDiv n bs) t hn (Nat.le_of_lt hq3) ht2
    have hwit := float_ceil_witness_le n bs (ceilDiv n bs) t hq3 ht1
    exact float_ceil_of_sandwich m s (ceilDiv n bs) t hq4 (hlow _ t hrep hwit) hU

-- the hypotheses are satisfiable: an exactly representable quotient (7 / 2 = 3.5 = 7 / 2^1)
example : ceilDiv 7 (2 ^ 1) = ceilDiv 7 2 :=
  float_ceil_eq 7 2 (by decide) (by decide) 7 1 (fun a t _ h => by simpa using h) (fun a t _ h => by simpa using h)

end DirectVerif.C13
