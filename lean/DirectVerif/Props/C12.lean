import DirectVerif.Lemmas.C12Ext
/-!
# C12 — datasets map every index to exactly one slice of one volume, reproducibly

Property theorems only; all statements are about the definitions of `Model/Dataset.lean` that the
driver executes (`parseFilenames`, `sliceList`, `numSlices`, `getSliceWindow`, `h5Item`, `locate`,
`fakeItem`, `sheppItem`).  The tie to `/repo` is `Bridge/C12.lean` + the correspondence check.

Specification vocabulary (defined in `Lemmas/C12.lean`):
`readable files` — the files that can be opened, in order; `dataOf filt vs` — volume after volume the
admissible slices in increasing order; `Contiguous s vols e` — consecutive ranges from `s` to `e`;
`windowSpec c n s j` — slice `s - c + j` if that lies in the file, else a zero block.
-/
namespace DirectVerif.C12
open DirectVerif DirectVerif.Dataset

/-! ## index ranges of `H5SliceData` -/

/-- **The per-volume index ranges are contiguous, ordered, start at 0, end at `len(dataset)`**, for
every list of distinct files (readable or not), every slice count and every slice filter … -/
theorem ranges_contiguous {φ : Type} [DecidableEq φ] (files : List (φ × Option Nat)) (filt : Option PySliceT)
    (hnd : ((readable files).map (·.1)).Nodup) :
    Contiguous 0 (parseFilenames files filt).vols (parseFilenames files filt).data.length := by
  obtain ⟨h1, h2, _⟩ := parse_spec files filt hnd
  rw [h1, h2]
  simpa using volsFrom_contiguous filt 0 (readable files)

/-- … hence they **partition `0 … len-1`**: every index lies in the range of exactly one volume. -/
theorem ranges_partition {φ : Type} [DecidableEq φ] (files : List (φ × Option Nat)) (filt : Option PySliceT)
    (hnd : ((readable files).map (·.1)).Nodup) (i : Nat)
    (hi : i < (parseFilenames files filt).data.length) :
    ∃ k, (∃ hk : k < (parseFilenames files filt).vols.length,
        ((parseFilenames files filt).vols[k]).2.1 ≤ i ∧ i < ((parseFilenames files filt).vols[k]).2.2) ∧
      ∀ k', (∃ hk' : k' < (parseFilenames files filt).vols.length,
        ((parseFilenames files filt).vols[k']).2.1 ≤ i ∧ i < ((parseFilenames files filt).vols[k']).2.2) → k' = k := by
  have hc := ranges_contiguous files filt hnd
  obtain ⟨k, hk, h1, h2⟩ := contiguous_cover hc i (by omega) hi
  refine ⟨k, ⟨hk, h1, h2⟩, ?_⟩
  rintro k' ⟨hk', g1, g2⟩
  exact contiguous_disjoint hc i k' k hk' hk ⟨g1, g2⟩ ⟨h1, h2⟩

/-- one range per readable file, in file order; unreadable files get none -/
theorem ranges_files {φ : Type} [DecidableEq φ] (files : List (φ × Option Nat)) (filt : Option PySliceT)
    (hnd : ((readable files).map (·.1)).Nodup) :
    (parseFilenames files filt).vols.map (·.1) = (readable files).map (·.1) := by
  rw [(parse_spec files filt hnd).2.1]
  generalize readable files = vs
  generalize 0 = c
  induction vs generalizing c with
  | nil => rfl
  | cons x r ih => simp [volsFrom, ih]

/-- `len(range(*filter.indices(n)))`, which the code uses as the length of the volume's range, **is**
the number of slices of that file that entered `self.data` (for every filter, every step sign,
out-of-range bounds included; a volume that is empty after filtering gets an empty range). -/
theorem range_length_is_admissible_count (filt : Option PySliceT) (n : Nat) :
    numSlices filt n = (sliceList filt n).length := numSlices_eq_length filt n

/-- the enumeration `pyRange a b st` has the semantics of Python's `x in range(a, b, st)` -/
theorem range_membership (a b st x : Int) :
    (0 < st → (x ∈ pyRange a b st ↔ a ≤ x ∧ x < b ∧ (x - a) % st = 0)) ∧
    (st < 0 → (x ∈ pyRange a b st ↔ b < x ∧ x ≤ a ∧ (a - x) % (-st) = 0)) :=
  ⟨mem_pyRange_pos a b st x, mem_pyRange_neg a b st x⟩

/-- the admitted slices of a file are strictly increasing, lie in the file, and are exactly the
members of `range(*filter.indices(n))` -/
theorem slices_sorted_admissible (filt : Option PySliceT) (n : Nat) :
    (sliceList filt n).Pairwise (· < ·) ∧
    ∀ x, x ∈ sliceList filt n ↔ x < n ∧ ∀ sl, filt = some sl →
      (x : Int) ∈ pyRange (sliceIndices sl n).1 (sliceIndices sl n).2.1 (sliceIndices sl n).2.2 := by
  cases filt with
  | none => exact ⟨List.pairwise_lt_range, fun x => by simp [sliceList]⟩
  | some sl =>
    refine ⟨(List.pairwise_lt_range).filter _, fun x => ?_⟩
    simp [sliceList]

/-- **Item `i` is the slice its volume range designates**: for the `k`-th readable file `(f, n)` the
range is `[a, a + #admissible)` and `data[a + r]` is `(f, r-th smallest admissible slice of f)`. -/
theorem item_designated {φ : Type} [DecidableEq φ] (files : List (φ × Option Nat)) (filt : Option PySliceT)
    (hnd : ((readable files).map (·.1)).Nodup) (k : Nat) (hk : k < (readable files).length) :
    ∃ a, (parseFilenames files filt).vols[k]? =
        some ((readable files)[k].1, a, a + (sliceList filt (readable files)[k].2).length) ∧
      ∀ r (hr : r < (sliceList filt (readable files)[k].2).length),
        (parseFilenames files filt).data[a + r]? =
          some ((readable files)[k].1, (sliceList filt (readable files)[k].2)[r]) := by
  obtain ⟨h1, h2, _⟩ := parse_spec files filt hnd
  obtain ⟨a, ha, hd⟩ := volsFrom_get filt (readable files) 0 k hk
  refine ⟨a, by rw [h2]; exact ha, fun r hr => ?_⟩
  rw [h1]
  simpa using hd [] rfl r hr

/-- … and conversely: `data[i] = (f, s)` **iff** `i = start_k + r` for a volume `k` with file `f`
whose `r`-th admissible slice is `s`. -/
theorem item_designated_iff {φ : Type} [DecidableEq φ] (files : List (φ × Option Nat)) (filt : Option PySliceT)
    (hnd : ((readable files).map (·.1)).Nodup) (i : Nat) (f : φ) (s : Nat) :
    (parseFilenames files filt).data[i]? = some (f, s) ↔
      ∃ (k a b r : Nat), (parseFilenames files filt).vols[k]? = some (f, a, b) ∧ i = a + r ∧ i < b ∧
        ∃ n : Nat, (readable files)[k]? = some (f, n) ∧ (sliceList filt n)[r]? = some s := by
  constructor
  · intro h
    have hi : i < (parseFilenames files filt).data.length := by
      rcases Nat.lt_or_ge i (parseFilenames files filt).data.length with h' | h'
      · exact h'
      · rw [List.getElem?_eq_none h'] at h; cases h
    obtain ⟨k, ⟨hk, g1, g2⟩, _⟩ := ranges_partition files filt hnd i hi
    have hk' : k < (readable files).length := by
      have := congrArg List.length (ranges_files files filt hnd); simp at this; omega
    obtain ⟨a, ha, hd⟩ := item_designated files filt hnd k hk'
    rw [List.getElem?_eq_getElem hk] at ha
    have e := Option.some.inj ha
    rw [e] at g1 g2
    simp only at g1 g2
    have hr : i - a < (sliceList filt (readable files)[k].2).length := by omega
    have := hd (i - a) hr
    rw [show a + (i - a) = i by omega, h] at this
    have e2 := Option.some.inj this
    refine ⟨k, a, a + (sliceList filt (readable files)[k].2).length, i - a, ?_, by omega, g2,
      (readable files)[k].2, ?_, ?_⟩
    · rw [List.getElem?_eq_getElem hk, e, (Prod.mk.inj e2).1]
    · rw [List.getElem?_eq_getElem hk', (Prod.mk.inj e2).1]
    · rw [List.getElem?_eq_getElem hr, (Prod.mk.inj e2).2]
  · rintro ⟨k, a, b, r, hv, rfl, hb, n, hn, hs⟩
    have hk' : k < (readable files).length := by
      rcases Nat.lt_or_ge k (readable files).length with h' | h'
      · exact h'
      · rw [List.getElem?_eq_none h'] at hn; cases hn
    obtain ⟨a', ha, hd⟩ := item_designated files filt hnd k hk'
    rw [List.getElem?_eq_getElem hk'] at hn
    have en := Option.some.inj hn
    rw [hv] at ha
    have ea := Option.some.inj ha
    have hfa : f = (readable files)[k].1 := (Prod.mk.inj ea).1
    have haa : a = a' := (Prod.mk.inj (Prod.mk.inj ea).2).1
    have hn2 : n = (readable files)[k].2 := by rw [en]
    subst haa
    have hr : r < (sliceList filt (readable files)[k].2).length := by
      rcases Nat.lt_or_ge r (sliceList filt (readable files)[k].2).length with h' | h'
      · exact h'
      · rw [hn2, List.getElem?_eq_none h'] at hs; cases hs
    rw [hd r hr, hfa]
    rw [hn2, List.getElem?_eq_getElem hr] at hs
    rw [Option.some.inj hs]


/-- what holds for **every** list of files, repeated names included: `self.data` is volume after volume
the admissible slices in increasing order (the `dict` is not involved) -/
theorem data_designated_partial {φ : Type} [DecidableEq φ] (files : List (φ × Option Nat)) (filt : Option PySliceT) :
    (parseFilenames files filt).data = dataOf filt (readable files) := parse_data_spec files filt

/-- regression (pinned tree: repeated names reached the fold): `volume_indices` is keyed by file name, so a
name that occurs twice (overlapping `.lst` lists, a repeated entry of `filenames_filter`) kept only its last
range: indices `0 … 2` below belong to no volume although `len(dataset) = 9`.  The current constructors
drop repeated names first (`select_nodup`). -/
theorem duplicate_names_pinned_violates :
    (parseFilenames [((1 : Nat), some 3), (2, some 3), (1, some 3)] none).vols = [(1, 6, 9), (2, 3, 6)] ∧
    (parseFilenames [((1 : Nat), some 3), (2, some 3), (1, some 3)] none).data.length = 9 ∧
    ∀ v ∈ (parseFilenames [((1 : Nat), some 3), (2, some 3), (1, some 3)] none).vols, ¬ (v.2.1 ≤ 0 ∧ 0 < v.2.2) := by
  decide

/-! ## which files: `filenames_filter` / `filenames_lists` / directory listing / `regex_filter` -/

/-- an explicit `filenames_filter` decides alone (listing and lists are not consulted) -/
theorem select_filter_wins {φ : Type} [DecidableEq φ] (srt : Bool) (le : φ → φ → Bool) (sel : Selection φ) (fs : List φ)
    (h : sel.filter = some fs) :
    selectFiles srt true le sel =
      .ok (if sel.hasRegex then (dedupFirst fs).filter sel.regexOk else dedupFirst fs) := by
  simp [selectFiles, h]

/-- **the selected files never repeat a name** (whatever the filter, the lists or the listing contain), so
the hypothesis of the partition theorems is met by every dataset the constructors build … -/
theorem select_nodup {φ : Type} [DecidableEq φ] (srt : Bool) (le : φ → φ → Bool) (sel : Selection φ) (fs : List φ)
    (h : selectFiles srt true le sel = .ok fs) : fs.Nodup := by
  unfold selectFiles at h
  simp only [if_true] at h
  split at h
  · cases h
  · rename_i base hb
    have e := Except.ok.inj h
    rw [← e]
    split
    · exact (dedupFirst_nodup base).sublist List.filter_sublist
    · exact dedupFirst_nodup base

/-- … **hence every `H5SliceData`-based dataset has contiguous ranges covering `0 … len-1`**, with no
assumption on its arguments. -/
theorem build_ranges_contiguous {φ : Type} [DecidableEq φ] (srt : Bool) (le : φ → φ → Bool) (sel : Selection φ)
    (nOf : φ → Option Nat) (F : FilterArg) (P : Parsed φ) (h : buildH5 srt true le sel nOf F = .ok P) :
    Contiguous 0 P.vols P.data.length := by
  unfold buildH5 at h
  split at h
  · cases h
  · rename_i fs hfs
    have hnd : ((readable (fs.map fun f => (f, nOf f))).map (·.1)).Nodup := by
      rw [readable_map_fst]
      exact (select_nodup srt le sel fs hfs).sublist List.filter_sublist
    unfold parseChecked at h
    cases F with
    | none => simp only at h; rw [← Except.ok.inj h]; exact ranges_contiguous _ none hnd
    | other =>
      simp only at h
      split at h
      · cases h
      · rw [← Except.ok.inj h]; exact ranges_contiguous _ none hnd
    | slice sl =>
      simp only at h
      split at h
      · cases h
      · rw [← Except.ok.inj h]; exact ranges_contiguous _ (some sl) hnd

/-- every dataset the constructors build **is** the fold over a duplicate-free file list, so `item_designated`,
`item_designated_iff`, `ranges_files` apply to it with their distinctness hypothesis discharged -/
theorem build_is_parse {φ : Type} [DecidableEq φ] (srt : Bool) (le : φ → φ → Bool) (sel : Selection φ)
    (nOf : φ → Option Nat) (F : FilterArg) (P : Parsed φ) (h : buildH5 srt true le sel nOf F = .ok P) :
    ∃ fs filt, selectFiles srt true le sel = .ok fs ∧ P = parseFilenames (fs.map fun f => (f, nOf f)) filt ∧
      ((readable (fs.map fun f => (f, nOf f))).map (·.1)).Nodup := by
  unfold buildH5 at h
  split at h
  · cases h
  · rename_i fs hfs
    have hnd : ((readable (fs.map fun f => (f, nOf f))).map (·.1)).Nodup := by
      rw [readable_map_fst]
      exact (select_nodup srt le sel fs hfs).sublist List.filter_sublist
    unfold parseChecked at h
    cases F with
    | none => simp only at h; exact ⟨fs, none, hfs, (Except.ok.inj h).symm, hnd⟩
    | other =>
      simp only at h
      split at h
      · cases h
      · exact ⟨fs, none, hfs, (Except.ok.inj h).symm, hnd⟩
    | slice sl =>
      simp only at h
      split at h
      · cases h
      · exact ⟨fs, some sl, hfs, (Except.ok.inj h).symm, hnd⟩

/-! ### the entries as given: spellings of a file name -/

/-- **entries that are equal after normalisation (`pathlib.Path(_)`) are merged**: the names the constructors keep are
exactly the normalised forms of the given entries, each once, in order of first occurrence — whatever mixture of
spellings (`str` / `Path`, `dir//f`, `dir/./f`) the filter or the lists contain -/
theorem dedup_merges_normalisation_equal {ρ φ : Type} [DecidableEq φ] (norm : ρ → φ) (raw : List ρ) :
    (dedupFirst (raw.map norm)).Nodup ∧ (∀ x, x ∈ dedupFirst (raw.map norm) ↔ ∃ a ∈ raw, norm a = x) ∧
    ∀ a b, a ∈ raw → b ∈ raw → norm a = norm b →
      norm a ∈ dedupFirst (raw.map norm) ∧ ((dedupFirst (raw.map norm)).filter fun y => y = norm b).length = 1 := by
  refine ⟨dedupFirst_nodup _, fun x => by rw [mem_dedupFirst]; simp, fun a b ha _ hab => ?_⟩
  have hm : norm a ∈ dedupFirst (raw.map norm) := by rw [mem_dedupFirst]; exact List.mem_map_of_mem ha
  refine ⟨hm, ?_⟩
  rw [← hab]
  have hnd := dedupFirst_nodup (raw.map norm)
  generalize dedupFirst (raw.map norm) = l at hm hnd
  induction l with
  | nil => cases hm
  | cons y ys ih =>
    rw [List.nodup_cons] at hnd
    by_cases hy : y = norm a
    · subst hy
      simp only [List.filter_cons, decide_true, if_true, List.length_cons]
      have : ys.filter (fun z => decide (z = norm a)) = [] := by
        rw [List.filter_eq_nil_iff]; intro z hz; simp only [decide_eq_true_eq]; intro e; subst e; exact hnd.1 hz
      rw [this]; rfl
    · have hm' : norm a ∈ ys := by
        rcases List.mem_cons.mp hm with h | h
        · exact absurd h.symm hy
        · exact h
      simp only [List.filter_cons, hy, decide_false, Bool.false_eq_true, if_false]
      exact ih hm' hnd.2

/-- the selection over entries as given **is** the selection over their normalised forms (current tree), so every
result about `selectFiles` / `buildH5` applies: no repeated name, ranges partition `0 … len-1` -/
theorem select_raw_nodup {ρ φ : Type} [DecidableEq ρ] [DecidableEq φ] (srt : Bool) (norm : ρ → φ) (le : φ → φ → Bool)
    (sel : Selection ρ) (rx : φ → Bool) (fs : List φ) (h : selectFilesRaw srt true true norm le sel rx = .ok fs) :
    fs.Nodup := by
  simp only [selectFilesRaw, if_true] at h
  exact select_nodup srt le _ fs h

theorem build_raw_ranges_contiguous {ρ φ : Type} [DecidableEq ρ] [DecidableEq φ] (srt : Bool) (norm : ρ → φ)
    (le : φ → φ → Bool) (sel : Selection ρ) (rx : φ → Bool) (nOf : φ → Option Nat) (F : FilterArg) (P : Parsed φ)
    (h : buildH5Raw srt true true norm le sel rx nOf F = .ok P) : Contiguous 0 P.vols P.data.length := by
  apply build_ranges_contiguous srt le (sel.mapNorm norm rx) nOf F P
  simpa only [buildH5Raw, selectFilesRaw, if_true, buildH5] using h

/-- regression (seen-set over the entries as given, cast to `Path` afterwards): one file mentioned in two spellings
(`norm` identifies them) is kept twice — its slices are in `data` twice, its range once: indices `0 … 2` belong to no
volume -/
theorem dedup_on_raw_entries_violates :
    selectFilesRaw false true false (fun (x : Nat × Nat) => x.2) (fun a b => decide (a ≤ b))
        ⟨[], some [(0, 5), (1, 5)], none, false, false, fun _ => true⟩ (fun _ => true) = .ok [5, 5] ∧
    (buildH5Raw false true false (fun (x : Nat × Nat) => x.2) (fun a b => decide (a ≤ b))
        ⟨[], some [(0, 5), (1, 5)], none, false, false, fun _ => true⟩ (fun _ => true) (fun _ => some 3) .none).toOption.map
        (fun P => (P.vols, P.data.length)) = some ([(5, 3, 6)], 6) := by
  constructor <;> rfl

/-- a list of contiguous ranges from 0 to `len` partitions `0 … len-1` -/
theorem contiguous_partition {φ : Type} {vols : List (φ × Nat × Nat)} {len : Nat} (hc : Contiguous 0 vols len) (i : Nat)
    (hi : i < len) :
    ∃ k, (∃ hk : k < vols.length, (vols[k]).2.1 ≤ i ∧ i < (vols[k]).2.2) ∧
      ∀ k', (∃ hk' : k' < vols.length, (vols[k']).2.1 ≤ i ∧ i < (vols[k']).2.2) → k' = k := by
  obtain ⟨k, hk, h1, h2⟩ := contiguous_cover hc i (by omega) hi
  refine ⟨k, ⟨hk, h1, h2⟩, ?_⟩
  rintro k' ⟨hk', g1, g2⟩
  exact contiguous_disjoint hc i k' k hk' hk ⟨g1, g2⟩ ⟨h1, h2⟩

/-- … and therefore **every index of every dataset the `H5SliceData` constructors build lies in the range of exactly
one volume** (no hypothesis on the arguments: repeated names, unreadable files, any filter, any listing order). -/
theorem build_ranges_partition {φ : Type} [DecidableEq φ] (srt : Bool) (le : φ → φ → Bool) (sel : Selection φ)
    (nOf : φ → Option Nat) (F : FilterArg) (P : Parsed φ) (h : buildH5 srt true le sel nOf F = .ok P) (i : Nat)
    (hi : i < P.data.length) :
    ∃ k, (∃ hk : k < P.vols.length, (P.vols[k]).2.1 ≤ i ∧ i < (P.vols[k]).2.2) ∧
      ∀ k', (∃ hk' : k' < P.vols.length, (P.vols[k']).2.1 ≤ i ∧ i < (P.vols[k']).2.2) → k' = k :=
  contiguous_partition (build_ranges_contiguous srt le sel nOf F P h) i hi

/-- the same for **`CMRxReconDataset`** as its constructor builds it (`buildCmr`: selection with de-duplication, then
the fold with `num_slices = a·b | a | b`) — no hypothesis on the arguments -/
theorem cmr_build_ranges_contiguous {φ : Type} [DecidableEq φ] (srt : Bool) (le : φ → φ → Bool) (sel : Selection φ)
    (ctx : CmrContext) (shapeOf : φ → Option (Nat × Nat)) (P : Parsed φ)
    (h : buildCmr srt true le sel ctx shapeOf = .ok P) : Contiguous 0 P.vols P.data.length := by
  unfold buildCmr at h
  split at h
  · cases h
  · rename_i fs hfs
    rw [← Except.ok.inj h]
    apply ranges_contiguous
    have e : ((fs.map fun f => (f, shapeOf f)).map fun x => (x.1, x.2.map fun ab => cmrNumSlices ctx ab.1 ab.2)) =
        fs.map fun f => (f, (shapeOf f).map fun ab => cmrNumSlices ctx ab.1 ab.2) := by
      rw [List.map_map]; rfl
    rw [e, readable_map_fst]
    exact (select_nodup srt le sel fs hfs).sublist List.filter_sublist

theorem cmr_build_ranges_partition {φ : Type} [DecidableEq φ] (srt : Bool) (le : φ → φ → Bool) (sel : Selection φ)
    (ctx : CmrContext) (shapeOf : φ → Option (Nat × Nat)) (P : Parsed φ)
    (h : buildCmr srt true le sel ctx shapeOf = .ok P) (i : Nat) (hi : i < P.data.length) :
    ∃ k, (∃ hk : k < P.vols.length, (P.vols[k]).2.1 ≤ i ∧ i < (P.vols[k]).2.2) ∧
      ∀ k', (∃ hk' : k' < P.vols.length, (P.vols[k']).2.1 ≤ i ∧ i < (P.vols[k']).2.2) → k' = k :=
  contiguous_partition (cmr_build_ranges_contiguous srt le sel ctx shapeOf P h) i hi

/-- **with the listing sorted, the selected files — hence the whole index ↦ (file, slice) mapping — do
not depend on the order in which the operating system lists the directory** -/
theorem select_listing_invariant {φ : Type} [DecidableEq φ] (dd : Bool) (le : φ → φ → Bool)
    (htot : ∀ a b, le a b = true ∨ le b a = true)
    (htr : ∀ a b c, le a b = true → le b c = true → le a c = true)
    (hanti : ∀ a b, le a b = true → le b a = true → a = b)
    (sel : Selection φ) (listing' : List φ) (h : sel.listing.Perm listing') :
    selectFiles true dd le { sel with listing := listing' } = selectFiles true dd le sel := by
  simp only [selectFiles, if_true]
  rw [sortFiles_eq_of_perm le htot htr hanti sel.listing listing' h]

theorem build_listing_invariant {φ : Type} [DecidableEq φ] (dd : Bool) (le : φ → φ → Bool)
    (htot : ∀ a b, le a b = true ∨ le b a = true)
    (htr : ∀ a b c, le a b = true → le b c = true → le a c = true)
    (hanti : ∀ a b, le a b = true → le b a = true → a = b)
    (sel : Selection φ) (listing' : List φ) (h : sel.listing.Perm listing') (nOf : φ → Option Nat) (F : FilterArg) :
    (buildH5 true dd le { sel with listing := listing' } nOf F).toOption.map (fun P => (P.data, P.vols)) =
      (buildH5 true dd le sel nOf F).toOption.map (fun P => (P.data, P.vols)) := by
  unfold buildH5
  rw [select_listing_invariant dd le htot htr hanti sel listing' h]

/-- regression (pinned tree: `list(self.root.glob("*.h5"))` unsorted) — two directories with the same
files, listed in different orders by the operating system, gave different datasets -/
theorem listing_order_pinned_violates :
    (selectFiles false false (fun a b => decide (a ≤ b))
        ⟨[(2 : Nat), 1], none, none, false, false, fun _ => true⟩).toOption ≠
      (selectFiles false false (fun a b => decide (a ≤ b))
        ⟨[1, 2], none, none, false, false, fun _ => true⟩).toOption := by
  decide

/-- `FastMRIDataset` / `CalgaryCampinasDataset` never receive a context or a user slice filter -/
theorem class_params_spec (crop : Bool) (sl : FilterArg) (c : Nat) :
    (classParams .fastmri crop sl c).2 = 0 ∧ (classParams .calgary crop sl c).2 = 0 ∧
    (classParams .h5 crop sl c).2 = c := ⟨rfl, rfl, rfl⟩

/-! ## `CMRxReconDataset` -/

/-- the per-volume ranges of `CMRxReconDataset` are those of the same fold with
`num_slices = a·b` (2-D), `a` (context "slice"), `b` (context "time") -/
theorem cmr_ranges_contiguous {φ : Type} [DecidableEq φ] (ctx : CmrContext) (files : List (φ × Option (Nat × Nat)))
    (hnd : ((readable (files.map fun x => (x.1, x.2.map fun ab => cmrNumSlices ctx ab.1 ab.2))).map (·.1)).Nodup) :
    Contiguous 0 (cmrParse ctx files).vols (cmrParse ctx files).data.length :=
  ranges_contiguous _ none hnd

/-- **2-D items**: `slice_no = s` addresses slice `s / b`, frame `s % b` of the file, and every
`(k, l)` is addressed by exactly `s = k·b + l` -/
theorem cmr_index_spec (a b s : Nat) (h : s < a * b) :
    cmrBlock .none a b s = some [(s / b, s % b)] ∧ s / b < a ∧ s % b < b := by
  have hb : 0 < b := by
    rcases Nat.eq_zero_or_pos b with h0 | h0
    · subst h0; simp at h
    · exact h0
  refine ⟨by simp [cmrBlock, cmrPairs_getElem? a b s h], ?_, Nat.mod_lt _ hb⟩
  exact Nat.div_lt_of_lt_mul (by rw [Nat.mul_comm]; exact h)

theorem cmr_index_onto (a b k l : Nat) (hk : k < a) (hl : l < b) :
    k * b + l < a * b ∧ cmrBlock .none a b (k * b + l) = some [(k, l)] := by
  have hlt : k * b + l < a * b := by
    calc k * b + l < k * b + b := by omega
      _ = (k + 1) * b := by rw [Nat.succ_mul]
      _ ≤ a * b := Nat.mul_le_mul_right b hk
  refine ⟨hlt, ?_⟩
  rw [(cmr_index_spec a b _ hlt).1]
  have hb : 0 < b := by omega
  rw [Nat.mul_comm k b, Nat.mul_add_div hb, Nat.mul_add_mod, Nat.div_eq_of_lt hl, Nat.mod_eq_of_lt hl]
  simp

/-- 3-D items: context "slice" returns all frames of slice `s`, context "time" all slices of frame `s` -/
theorem cmr_block_context (a b s : Nat) :
    (s < a → cmrBlock .slice a b s = some ((List.range b).map fun l => (s, l))) ∧
    (s < b → cmrBlock .time a b s = some ((List.range a).map fun k => (k, s))) := by
  constructor <;> intro h <;> simp [cmrBlock, h]

/-- `H5SliceData.__getitem__` (non-negative index): the item is `data[i]` together with the stack
of that slice; negative indices address from the end (Python list indexing). -/
theorem h5_item_spec {φ : Type} (P : Parsed φ) (nOf : φ → Nat) (c i : Nat) (f : φ) (s : Nat)
    (h : P.data[i]? = some (f, s)) : h5Item P nOf c i = .ok (f, s, sliceStack c (nOf f) s) := by
  unfold h5Item pyIndex
  have h0 : ¬ ((i : Int) < 0) := by omega
  simp [h0, h]

theorem h5_item_negative {φ : Type} (P : Parsed φ) (nOf : φ → Nat) (c k : Nat) (hk : k < P.data.length) :
    h5Item P nOf c (-((k : Int) + 1)) = h5Item P nOf c ((P.data.length - 1 - k : Nat) : Int) := by
  unfold h5Item pyIndex
  have h0 : -((k : Int) + 1) < 0 := by omega
  have h1 : ¬ (((P.data.length - 1 - k : Nat) : Int) < 0) := by omega
  have h2 : ¬ (-((k : Int) + 1) + (P.data.length : Int) < 0) := by omega
  have e : (-((k : Int) + 1) + (P.data.length : Int)).toNat = P.data.length - 1 - k := by omega
  simp only [h0, h1, h2, if_true, if_false, e, Int.toNat_natCast]

/-! ## context windows -/

/-- **the window has `2c+1` entries** for every file length `n ≥ 1`, every slice `0 ≤ s < n`, every
context `c` (also when `2c+1 > n`, and when both ends stick out) -/
theorem window_length (c n s : Nat) (hs : s < n) : (getSliceWindow c n s).length = 2 * c + 1 :=
  Dataset.window_length c n s hs

/-- **the centre of the window is the requested slice** -/
theorem window_centre (c n s : Nat) (hs : s < n) : (getSliceWindow c n s)[c]? = some (Entry.slice s) :=
  Dataset.window_centre c n s hs

/-- **entry `j` is slice `s - c + j` when that lies in the file, a zero block otherwise** -/
theorem window_entries (c n s : Nat) (hs : s < n) (j : Nat) (hj : j < 2 * c + 1) :
    (getSliceWindow c n s)[j]? =
      some (if (0 : Int) ≤ (s : Int) - c + j ∧ (s : Int) - c + j < n then
              Entry.slice ((s : Int) - c + j).toNat else Entry.zero) :=
  Dataset.window_entries c n s hs j hj

/-- regression examples: the pinned tree's fill condition `curr_shape[0] < num_slices - 1` returned
2-slice windows at the ends of a 3-slice file (and never padded 2-slice files) -/
theorem window_pinned_violates : (getSliceWindowPinned 1 3 0).length ≠ 2 * 1 + 1 := by decide
theorem window_pinned_violates_two_slices : (getSliceWindowPinned 1 2 1).length ≠ 2 * 1 + 1 := by decide

/-! ## `ConcatDataset` -/

/-- the cumulative sizes are non-decreasing — the precondition under which `bisect_right` is the
number of entries `≤ idx` -/
theorem cumsum_sorted (sizes : List Nat) : (cumsum sizes).Pairwise (· ≤ ·) :=
  (cumsumFrom_sorted 0 sizes).1

/-- **`bisect.bisect_right` as CPython computes it (binary search) meets its documented contract** on every
non-decreasing list: with `r` the result, all of `xs[:r]` are `≤ x` and all of `xs[r:]` are `> x` — nothing about the
library function is assumed by the theorems below, the executed `locate` runs the binary search. -/
theorem bisect_right_contract (xs : List Nat) (x : Int) (hs : xs.Pairwise (· ≤ ·)) :
    bisectRightBin xs x ≤ xs.length ∧
    ∀ i (hi : i < xs.length), (i < bisectRightBin xs x ↔ ((xs[i] : Nat) : Int) ≤ x) := by
  rw [bisectRightBin_eq_count xs x hs]
  exact ⟨bisectRight_le_length xs x, fun i hi => bisectRight_lt_iff xs x hs i hi⟩

/-- … in particular on the cumulative sizes of any list of members -/
theorem bisect_right_on_cumsum (sizes : List Nat) (x : Int) :
    bisectRightBin (cumsum sizes) x = bisectRight (cumsum sizes) x :=
  bisectRightBin_eq_count _ _ (cumsum_sorted sizes)

/-- the binary search does **not** count on unsorted lists (the sortedness of `cumsum` is needed) -/
theorem bisect_unsorted_differs : bisectRightBin [5, 1, 1] 1 ≠ ([5, 1, 1].filter fun v => decide ((v : Int) ≤ 1)).length := by
  decide

/-- **`idx ↦ (member d, local index j)`** with `j < sizes[d]`, `idx = sizes[0] + … + sizes[d-1] + j`,
for every list of member sizes (zeros allowed) and every `0 ≤ idx < len` -/
theorem concat_locate_spec (sizes : List Nat) (idx : Nat) (h : idx < sizes.sum) :
    ∃ d j, locate sizes idx = .ok (d, j) ∧ ∃ hd : d < sizes.length, j < sizes[d] ∧
      idx = (sizes.take d).sum + j := Dataset.concat_locate_spec sizes idx h

/-- … and that pair is the only one -/
theorem concat_locate_unique (sizes : List Nat) (d d' j j' : Nat) (hd : d < sizes.length)
    (hd' : d' < sizes.length) (hj : j < sizes[d]) (hj' : j' < sizes[d'])
    (h : (sizes.take d).sum + j = (sizes.take d').sum + j') : d = d' ∧ j = j' :=
  Dataset.concat_locate_unique sizes d d' j j' hd hd' hj hj' h

/-- **`ConcatDataset[idx]` is entry `idx` of the flat enumeration** `[(d, j) for d, m in enumerate(members) for j in
range(len(m))]` of the members' items (members of length 0 allowed, the same object may occur several times) -/
theorem concat_is_flat_enumeration (sizes : List Nat) (idx : Nat) (h : idx < sizes.sum) :
    ∃ p, locate sizes idx = .ok p ∧ (flatPairs sizes)[idx]? = some p := by
  obtain ⟨d, j, h1, hd, hj, e⟩ := Dataset.concat_locate_spec sizes idx h
  refine ⟨(d, j), h1, ?_⟩
  have := flatPairsFrom_getElem? 0 sizes d j hd hj
  rw [e]; simpa [flatPairs] using this

theorem flat_enumeration_length (sizes : List Nat) : (flatPairs sizes).length = sizes.sum :=
  flatPairsFrom_length 0 sizes

/-- **negative indices** `-len ≤ idx < 0` address `len + idx` -/
theorem concat_negative (sizes : List Nat) (idx : Int) (h0 : idx < 0) (h1 : -(sizes.sum : Int) ≤ idx) :
    locate sizes idx = locate sizes ((sizes.sum : Int) + idx) := Dataset.concat_negative sizes idx h0 h1

/-- indices outside `-len … len-1` are rejected, never wrapped -/
theorem concat_out_of_range (sizes : List Nat) (idx : Int) :
    (idx < -(sizes.sum : Int) → locate sizes idx = .error .valueError) ∧
    ((sizes.sum : Int) ≤ idx → locate sizes idx = .error .indexError) :=
  ⟨concat_rejects_below sizes idx, concat_rejects_above sizes idx⟩

/-! ### the index map of `ConcatDataset` is an order-preserving bijection (phase 4) -/

/-- **onto**: every item `j` of every member position `d` (members of size 0 have none; the same object may sit at
several positions) is served by the index `sizes[0] + … + sizes[d-1] + j`, which lies in `[0, len)` -/
theorem concat_locate_onto (sizes : List Nat) (d j : Nat) (hd : d < sizes.length) (hj : j < sizes[d]) :
    (sizes.take d).sum + j < sizes.sum ∧ locate sizes (((sizes.take d).sum + j : Nat) : Int) = .ok (d, j) := by
  have hlt : (sizes.take d).sum + j < sizes.sum := by
    have h1 := List.take_append_drop (d + 1) sizes
    have h2 : (sizes.take (d + 1)).sum + (sizes.drop (d + 1)).sum = sizes.sum := by rw [← List.sum_append, h1]
    rw [List.take_add_one, List.sum_append] at h2
    simp [List.getElem?_eq_getElem hd] at h2
    omega
  refine ⟨hlt, ?_⟩
  obtain ⟨d', j', h1, hd', hj', e⟩ := Dataset.concat_locate_spec sizes _ hlt
  obtain ⟨rfl, rfl⟩ := Dataset.concat_locate_unique sizes d d' j j' hd hd' hj hj' e
  exact h1

/-- **one-to-one** on `[0, len)` -/
theorem concat_locate_injective (sizes : List Nat) (i i' : Nat) (h : i < sizes.sum) (h' : i' < sizes.sum)
    (e : locate sizes i = locate sizes i') : i = i' := by
  obtain ⟨d, j, h1, _, _, e1⟩ := Dataset.concat_locate_spec sizes i h
  obtain ⟨d', j', h2, _, _, e2⟩ := Dataset.concat_locate_spec sizes i' h'
  rw [h1, h2] at e
  injection e with e; injection e with ed ej
  subst ed; subst ej; omega

/-- **order-preserving**: a larger index lies in a later member position, or later in the same one -/
theorem concat_locate_strict_mono (sizes : List Nat) (i i' : Nat) (hlt : i < i') (h' : i' < sizes.sum)
    (d j d' j' : Nat) (e : locate sizes i = .ok (d, j)) (e' : locate sizes i' = .ok (d', j')) :
    d < d' ∨ (d = d' ∧ j < j') := by
  obtain ⟨d0, j0, h1, hd, hj, e1⟩ := Dataset.concat_locate_spec sizes i (by omega)
  obtain ⟨d1, j1, h2, hd', hj', e2⟩ := Dataset.concat_locate_spec sizes i' h'
  rw [h1] at e; rw [h2] at e'
  injection e with e; injection e with ed ej
  injection e' with e'; injection e' with ed' ej'
  subst ed; subst ej; subst ed'; subst ej'
  rcases Nat.lt_trichotomy d0 d1 with hl | heq | hg
  · exact Or.inl hl
  · subst heq; exact Or.inr ⟨rfl, by omega⟩
  · exfalso
    -- the whole of position `d1` lies before position `d0`
    have h3 : (sizes.take (d1 + 1)).sum ≤ (sizes.take d0).sum := by
      have : sizes.take (d1 + 1) = (sizes.take d0).take (d1 + 1) := by
        rw [List.take_take]; congr 1; omega
      rw [this]
      have := List.take_append_drop (d1 + 1) (sizes.take d0)
      calc ((sizes.take d0).take (d1 + 1)).sum
          ≤ ((sizes.take d0).take (d1 + 1)).sum + ((sizes.take d0).drop (d1 + 1)).sum := by omega
        _ = (sizes.take d0).sum := by rw [← List.sum_append, this]
    rw [List.take_add_one, List.sum_append] at h3
    simp [List.getElem?_eq_getElem hd'] at h3
    omega

/-- **the bijection in one statement**: `idx ↦ locate sizes idx` and `(d, j) ↦ sizes[0] + … + sizes[d-1] + j` are
mutually inverse between `[0, len)` and `{(d, j) | d < #members, j < sizes[d]}` — for every list of member sizes -/
theorem concat_locate_bijection (sizes : List Nat) :
    (∀ i, i < sizes.sum → ∃ d j, locate sizes (i : Int) = .ok (d, j) ∧ ∃ hd : d < sizes.length, j < sizes[d] ∧
        (sizes.take d).sum + j = i) ∧
    (∀ d j (hd : d < sizes.length), j < sizes[d] →
        (sizes.take d).sum + j < sizes.sum ∧ locate sizes (((sizes.take d).sum + j : Nat) : Int) = .ok (d, j)) := by
  refine ⟨fun i h => ?_, fun d j hd hj => concat_locate_onto sizes d j hd hj⟩
  obtain ⟨d, j, h1, hd, hj, e⟩ := Dataset.concat_locate_spec sizes i h
  exact ⟨d, j, h1, hd, hj, e.symm⟩

/-- **the same object listed several times**: the object served is the one at the located position, and the local
index is within *that object's* length — whatever the pattern of repetitions -/
theorem concat_repeated_objects (objSizes pattern : List Nat) (hp : pattern ≠ []) (i : Nat)
    (h : i < (pattern.map fun p => objSizes.getD p 0).sum) :
    ∃ d j, concatGetRep objSizes pattern i = .ok (d, pattern.getD d 0, j) ∧ d < pattern.length ∧
      j < objSizes.getD (pattern.getD d 0) 0 ∧ ((pattern.take d).map fun p => objSizes.getD p 0).sum + j = i := by
  obtain ⟨d, j, h1, hd, hj, e⟩ := Dataset.concat_locate_spec _ i h
  have hne : (pattern.map fun p => objSizes.getD p 0).isEmpty = false := by
    cases pattern with
    | nil => exact absurd rfl hp
    | cons a as => rfl
  refine ⟨d, j, ?_, by simpa using hd, ?_, ?_⟩
  · simp only [concatGetRep, concatGet, hne, h1]; rfl
  · have hd2 : d < pattern.length := by simpa using hd
    simpa [List.getD_eq_getElem?_getD, List.getElem?_eq_getElem hd2] using hj
  · rw [← List.map_take] at e; exact e.symm

/-! ## reproducibility of the synthetic items -/

/-- **`FakeMRIBlobsDataset[i]` does not depend on the state of the global RNG**: whenever the seed
plumbing table is all-true (it is for the current tree: `Bridge.C12.fake_table_ok`), for every RNG
implementation, render function, coil count, per-sample seed and slice. -/
theorem item_deterministic {G V O : Type} (R : Rng G V) (t : SeedTable) (ht : t.allTrue = true)
    (render : V × Option V → Nat → O) (a : BlobArgs) (coils seed sliceNo : Nat) (g g' : G) :
    (fakeItem R t render a coils seed sliceNo g).1 = (fakeItem R t render a coils seed sliceNo g').1 := by
  obtain ⟨a, b, c, d, e, f⟩ := t
  simp only [SeedTable.allTrue, Bool.and_eq_true] at ht
  obtain ⟨⟨⟨⟨⟨rfl, rfl⟩, rfl⟩, rfl⟩, rfl⟩, rfl⟩ := ht
  simp only [fakeItem, fakeDraws, simSens, Bool.and_self, if_true, Bool.true_or]
  by_cases hc : coils = 1 <;> simp [hc]

/-- an access history: any sequence of accesses — to this or to *other* dataset objects (their own coil
count, per-sample seed, slice) — interleaved with arbitrary perturbations of the global stream; the state
the stream is left in.  Dataset objects share nothing else (`Bridge.C12.shared_state_table_ok`). -/
def runHistory {G V O : Type} (R : Rng G V) (t : SeedTable) (render : V × Option V → Nat → O) :
    G → List ((BlobArgs × Nat × Nat × Nat) × (G → G)) → G
  | g, [] => g
  | g, ((a, coils, seed, sl), perturb) :: rest =>
    runHistory R t render (perturb (fakeItem R t render a coils seed sl g).2) rest

/-- **… nor on the access history**: after any two histories (accesses to any objects, in any order, with
repetitions), from any two initial states, loading the same `(seed, slice)` gives the same item (same
index twice, permuted orders, another identically constructed dataset, other datasets accessed in
between). -/
theorem item_history_independent {G V O : Type} (R : Rng G V) (t : SeedTable) (ht : t.allTrue = true)
    (render : V × Option V → Nat → O) (a : BlobArgs) (coils seed sliceNo : Nat) (g g' : G)
    (hist hist' : List ((BlobArgs × Nat × Nat × Nat) × (G → G))) :
    (fakeItem R t render a coils seed sliceNo (runHistory R t render g hist)).1 =
      (fakeItem R t render a coils seed sliceNo (runHistory R t render g' hist')).1 :=
  item_deterministic R t ht render a coils seed sliceNo _ _

/-- regression examples: the pinned tree (seed not handed to `make_blobs`; `if seed:`) returned
items that depend on the global stream -/
theorem fake_pinned_violates :
    (fakeItem toyRng fakeTablePinned (fun d _ => d) ⟨1, 2, 18⟩ 1 5 0 0).1 ≠
      (fakeItem toyRng fakeTablePinned (fun d _ => d) ⟨1, 2, 18⟩ 1 5 0 1).1 := by decide
theorem sens_truthy_seed_violates :
    (fakeItem toyRng ⟨true, true, true, true, true, false⟩ (fun d _ => d) ⟨2, 2, 18⟩ 2 0 0 0).1 ≠
      (fakeItem toyRng ⟨true, true, true, true, true, false⟩ (fun d _ => d) ⟨2, 2, 18⟩ 2 0 0 1).1 := by decide

/-- **`SheppLoganDataset[i]` does not depend on the state of the global RNG** whenever its seed
plumbing table is all-true (it is for the current tree: `Bridge.C12.shepp_table_ok`): the sensitivity
offset comes from the global stream freshly seeded with the slice's seed, the noise of all-zero
outer slices from a private stream seeded with it. -/
theorem shepp_item_deterministic {G V O : Type} (R : Rng G V) (t : SheppTable) (ht : t.allTrue = true)
    (render : Option V × Option V → O) (coils seed : Nat) (zero : Bool) (k : Nat) (g g' : G) :
    (sheppItem R t render coils seed zero k g).1 = (sheppItem R t render coils seed zero k g').1 := by
  obtain ⟨a, b, c⟩ := t
  simp only [SheppTable.allTrue, Bool.and_eq_true] at ht
  obtain ⟨⟨rfl, rfl⟩, rfl⟩ := ht
  simp only [sheppItem, sheppDraws, simSens, if_true, Bool.true_or]
  by_cases hc : coils = 1 <;> cases zero <;> simp [hc]

/-- regression (pinned tree, `sheppTablePinned`: noise from the *global* stream): the item was
reproducible only with several coils (the global stream had just been seeded by
`simulate_sensitivity_maps`) or for slices that are not identically zero (no noise drawn) … -/
theorem shepp_pinned_partial {G V O : Type} (R : Rng G V)
    (render : Option V × Option V → O) (coils seed : Nat) (zero : Bool) (k : Nat) (g g' : G)
    (h : coils ≠ 1 ∨ zero = false) :
    (sheppItem R sheppTablePinned render coils seed zero k g).1 =
      (sheppItem R sheppTablePinned render coils seed zero k g').1 := by
  simp only [sheppItem, sheppDraws, simSens, sheppTablePinned, if_true, Bool.true_or]
  by_cases hc : coils = 1
  · have : zero = false := by rcases h with h | h; exact absurd hc h; exact h
    subst this; simp [hc]
  · cases zero <;> simp [hc]

/-- … and with one coil nothing seeded the global stream before the noise of an all-zero outer slice
was drawn from it: two accesses differed -/
theorem shepp_pinned_violates :
    (sheppItem toyRng sheppTablePinned id 1 7 true 4 0).1 ≠
      (sheppItem toyRng sheppTablePinned id 1 7 true 4 1).1 := by decide

/-- **an epoch's items do not depend on the schedule**: whatever state the global stream is in when position `p` of the
epoch is served (`pre p` — another worker process with its forked copy of the stream, a later epoch, other datasets
served in between, a pickled / deep-copied dataset object in another process), the items are the same. -/
theorem epoch_schedule_independent {G V O : Type} (R : Rng G V) (t : SeedTable) (ht : t.allTrue = true)
    (render : V × Option V → Nat → O) (epoch : List (BlobArgs × Nat × Nat × Nat)) (pre pre' : Nat → G) :
    (epoch.zipIdx.map fun (x, p) => (fakeItem R t render x.1 x.2.1 x.2.2.1 x.2.2.2 (pre p)).1) =
      (epoch.zipIdx.map fun (x, p) => (fakeItem R t render x.1 x.2.1 x.2.2.1 x.2.2.2 (pre' p)).1) := by
  apply List.map_congr_left
  rintro ⟨x, p⟩ _
  exact item_deterministic R t ht render _ _ _ _ _ _

/-- accesses to `FakeMRIBlobsDataset` and `SheppLoganDataset` objects and arbitrary other uses of the global stream,
in any order (`SheppLoganDataset` with several coils *seeds the global stream* as a side effect) -/
inductive Access (G : Type) where
  | fake (a : BlobArgs) (coils seed slice : Nat)
  | shepp (coils seed : Nat) (zero : Bool) (k : Nat)
  | perturb (f : G → G)

def runMixed {G V : Type} (R : Rng G V) (ft : SeedTable) (st : SheppTable) : G → List (Access G) → G
  | g, [] => g
  | g, .fake a coils seed _ :: rest => runMixed R ft st (fakeDraws R ft a coils seed g).2 rest
  | g, .shepp coils seed zero k :: rest => runMixed R ft st (sheppDraws R st coils seed zero k g).2 rest
  | g, .perturb f :: rest => runMixed R ft st (f g) rest

/-- **both kinds of synthetic items are independent of any mixed access history** -/
theorem mixed_history_independent {G V O O' : Type} (R : Rng G V) (ft : SeedTable) (st : SheppTable)
    (hft : ft.allTrue = true) (hst : st.allTrue = true) (render : V × Option V → Nat → O)
    (render' : Option V × Option V → O') (g g' : G) (hist hist' : List (Access G)) :
    (∀ a coils seed sl, (fakeItem R ft render a coils seed sl (runMixed R ft st g hist)).1 =
        (fakeItem R ft render a coils seed sl (runMixed R ft st g' hist')).1) ∧
    (∀ coils seed zero k, (sheppItem R st render' coils seed zero k (runMixed R ft st g hist)).1 =
        (sheppItem R st render' coils seed zero k (runMixed R ft st g' hist')).1) :=
  ⟨fun a coils seed sl => item_deterministic R ft hft render a coils seed sl _ _,
   fun coils seed zero k => shepp_item_deterministic R st hst render' coils seed zero k _ _⟩

/-! ## the request sequence behind a synthetic item -/

/-- the per-centre sample counts of `make_blobs` add up to `n_samples` (every requested sample is drawn once) -/
theorem blob_counts_sum (n k : Nat) (hk : 0 < k) : (blobCounts n k).sum = n := blobCounts_sum n k hk

/-- `make_blobs` makes `centers + 2` requests to its generator: one for the centres, one per centre, the shuffle -/
theorem blob_requests_length (a : BlobArgs) : (blobRequests a).length = a.centers + 2 := by
  simp [blobRequests, blobCounts]

/-- with a seed handed down (current plumbing), every request behind `FakeMRIBlobsDataset[i]` goes to a stream that was
seeded with the item's seed **inside the same access**: the blob requests to a private stream `[seed s, …]`, the
sensitivity offset to the global stream right after `np.random.seed(s)` — no request reaches the state `init` the
global stream was in before the access. -/
theorem fake_requests_all_seeded (a : BlobArgs) (coils seed : Nat) (g : List GOp) :
    (fakeDraws symRng fakeTableCurrent a coils seed g).1.1 = [GOp.seed seed] ++ blobRequests a ∧
    (fakeDraws symRng fakeTableCurrent a coils seed g).1.2 =
      (if coils = 1 then none else some [GOp.seed seed, GOp.uniform]) := by
  by_cases hc : coils = 1 <;> simp [fakeDraws, simSens, fakeTableCurrent, symRng, hc]

theorem shepp_requests_all_seeded (coils seed : Nat) (zero : Bool) (k : Nat) (g : List GOp) :
    (sheppDraws symRng sheppTableCurrent coils seed zero k g).1.1 =
      (if coils = 1 then none else some [GOp.seed seed, GOp.uniform]) ∧
    (sheppDraws symRng sheppTableCurrent coils seed zero k g).1.2 =
      (if zero then some [GOp.seed seed, GOp.randn k] else none) := by
  by_cases hc : coils = 1 <;> cases zero <;> simp [sheppDraws, simSens, sheppTableCurrent, symRng, hc]

/-! ## index structure of the synthetic datasets -/

/-- **`FakeMRIBlobsDataset`: the per-volume ranges are contiguous from 0 and cover `0 … len-1`** for distinct names … -/
theorem fake_ranges_contiguous {φ : Type} [DecidableEq φ] (names : List φ) (seeds : List Nat) (nz : Nat)
    (hnd : names.Nodup) (hlen : names.length ≤ seeds.length) :
    Contiguous 0 (fakeBuild names seeds nz).vols (fakeBuild names seeds nz).data.length := by
  have hr : ((readable (names.map fun f => (f, some nz))).map (·.1)) = names := by
    rw [readable_all_some, List.map_map]; exact List.map_id' _
  have hc := ranges_contiguous (names.map fun f => (f, some nz)) none (by rw [hr]; exact hnd)
  have hl : (parseFilenames (names.map fun f => (f, some nz)) none).data.length = (fakeBuild names seeds nz).data.length := by
    rw [parse_data_spec, readable_all_some, dataOf_none_const]
    simp only [fakeBuild, flatMap_range_length, List.length_zip]
    congr 1; omega
  rw [← hl]; exact hc

/-- … **volume `k` has the range `[k·nz, k·nz + nz)`**: the running counter of `parse_filenames_data` and the closed form
`idx * num_slices` are the same thing (every generated volume has `nz` slices) … -/
theorem fake_ranges_closed_form {φ : Type} [DecidableEq φ] (names : List φ) (seeds : List Nat) (nz k : Nat)
    (hnd : names.Nodup) (hk : k < names.length) :
    (fakeBuild names seeds nz).vols[k]? = some (names[k], k * nz, k * nz + nz) := by
  have hr : ((readable (names.map fun f => (f, some nz))).map (·.1)) = names := by
    rw [readable_all_some, List.map_map]; exact List.map_id' _
  have h2 := (parse_spec (names.map fun f => (f, some nz)) none (by rw [hr]; exact hnd)).2.1
  show (parseFilenames (names.map fun f => (f, some nz)) none).vols[k]? = _
  rw [h2, readable_all_some]
  simpa using volsFrom_const_getElem? names nz 0 k hk

/-- … the names the dataset generates itself (`base00001, base00002, …`, whenever the number of given names differs
from `sample_size`) **are** distinct, for any injective numbering … -/
theorem fake_renamed_names_nodup {φ : Type} (given : List φ) (n : Nat) (mk : φ → Nat → φ)
    (hmk : ∀ b k k', mk b k = mk b k' → k = k') (hne : given.length ≠ n) (names : List φ)
    (h : fakeNames given n mk = .ok names) : names.Nodup ∧ names.length = n := by
  unfold fakeNames at h
  simp only [hne, ne_eq, not_false_eq_true, if_true] at h
  cases given with
  | nil => cases h
  | cons b r =>
    simp only at h
    rw [← Except.ok.inj h]
    refine ⟨?_, by simp⟩
    apply nodup_map_of_inj _ _ _ List.nodup_range
    intro x y hxy
    have := hmk b _ _ hxy
    omega

/-- … and **item `k·nz + s` is slice `s` of volume `k`, generated from volume `k`'s own seed** -/
theorem fake_item_index {φ : Type} [DecidableEq φ] (names : List φ) (seeds : List Nat) (nz k s : Nat)
    (hk : k < names.length) (hk' : k < seeds.length) (hs : s < nz) :
    fakeIndex (fakeBuild names seeds nz) ((k * nz + s : Nat) : Int) = .ok (names[k], s, seeds[k]) := by
  have hlen : k * nz + s < (names.zip seeds).length * nz := by
    have h1 : k < (names.zip seeds).length := by simp [List.length_zip]; omega
    calc k * nz + s < k * nz + nz := by omega
      _ = (k + 1) * nz := by rw [Nat.succ_mul]
      _ ≤ (names.zip seeds).length * nz := Nat.mul_le_mul_right nz h1
  have hnz : 0 < nz := by omega
  have hget := flatMap_range_getElem? (names.zip seeds) nz (fun (x : φ × Nat) s => (x.1, s, x.2)) (k * nz + s) hlen
  have e1 : (k * nz + s) / nz = k := by
    rw [Nat.mul_comm, Nat.mul_add_div hnz, Nat.div_eq_of_lt hs]; rfl
  have e2 : (k * nz + s) % nz = s := by
    rw [Nat.mul_comm, Nat.mul_add_mod, Nat.mod_eq_of_lt hs]
  rw [e1, e2] at hget
  have hz : (names.zip seeds)[k]? = some (names[k], seeds[k]) := by
    rw [List.getElem?_eq_getElem (by simp [List.length_zip]; omega)]; simp
  rw [hz] at hget
  unfold fakeIndex pyIndex
  have h0 : ¬ (((k * nz + s : Nat) : Int) < 0) := by omega
  simp only [h0, if_false, Int.toNat_natCast]
  have hd : (fakeBuild names seeds nz).data =
      (names.zip seeds).flatMap fun x => (List.range nz).map fun s => (x.1, s, x.2) := rfl
  rw [hd, hget]; rfl

/-- observation (outside the quantifier: names are not quantified over): names given explicitly, one per sample, are
used verbatim — a repeated name keeps only its last range, as it did for `H5SliceData` before de-duplication -/
theorem fake_duplicate_names_observation :
    (fakeBuild [(1 : Nat), 1] [10, 11] 3).vols = [(1, 3, 6)] ∧ (fakeBuild [(1 : Nat), 1] [10, 11] 3).data.length = 6 := by
  decide

/-- **`SheppLoganDataset[i]` for `0 ≤ i < nz`**: renders slice `i`, with seed `seed[i]`, and reports `slice_no = i` -/
theorem shepp_index_spec (nz i : Nat) (h : i < nz) : sheppIndex nz (i : Int) = .ok (i, i, (i : Int)) := by
  unfold sheppIndex sheppIndexWith pyIndex
  have h0 : ¬ ((i : Int) < 0) := by omega
  have hm : Int.fmod (i : Int) (nz : Int) = (i : Int) := by
    rw [Int.fmod_eq_emod_of_nonneg _ (by omega)]
    exact Int.emod_eq_of_lt (by omega) (by omega)
  simp [h0, h, hm, sheppReportsIndexAsGiven]

/-- indices outside `-nz … nz-1` are rejected (by `self.seed[idx]`) -/
theorem shepp_index_out_of_range (nz : Nat) (idx : Int) (h : (nz : Int) ≤ idx ∨ idx < -(nz : Int)) :
    sheppIndex nz idx = .error .indexError := by
  unfold sheppIndex sheppIndexWith pyIndex
  rcases h with h | h
  · have h0 : ¬ (idx < 0) := by omega
    have : ¬ (idx.toNat < nz) := by omega
    simp [h0, this]
  · have h0 : idx < 0 := by omega
    have : idx + (nz : Int) < 0 := by omega
    simp [h0, this]

/-- **negative indices `-nz ≤ idx < 0` address slice `nz + idx`**: rendered slice, seed and reported `slice_no` agree -/
theorem shepp_index_negative (nz : Nat) (idx : Int) (h0 : idx < 0) (h1 : -(nz : Int) ≤ idx) :
    sheppIndex nz idx = .ok ((idx + nz).toNat, (idx + nz).toNat, idx + nz) := by
  unfold sheppIndex sheppIndexWith pyIndex
  have hm : Int.fmod idx (nz : Int) = idx + nz := by
    rw [Int.fmod_eq_emod_of_nonneg _ (by omega), ← Int.add_emod_right]
    exact Int.emod_eq_of_lt (by omega) (by omega)
  have hl : (idx + (nz : Int)).toNat < nz := by omega
  have h3 : ¬ (idx + (nz : Int) < 0) := by omega
  simp [h0, h3, hm, hl, sheppReportsIndexAsGiven]

/-- **whatever index is accepted, the item is one slice: the rendered slice, the seed position and the reported
`slice_no` are the same number, and it lies in `0 … nz-1`** (all `nz`, all integers `idx`) -/
theorem shepp_index_consistent (nz : Nat) (idx : Int) (s k : Nat) (r : Int) (h : sheppIndex nz idx = .ok (s, k, r)) :
    k = s ∧ r = (s : Int) ∧ s < nz := by
  by_cases hout : (nz : Int) ≤ idx ∨ idx < -(nz : Int)
  · rw [shepp_index_out_of_range nz idx hout] at h; cases h
  · by_cases h0 : idx < 0
    · rw [shepp_index_negative nz idx h0 (by omega)] at h
      have e := Except.ok.inj h
      simp only [Prod.mk.injEq] at e
      obtain ⟨e1, e2, e3⟩ := e
      omega
    · have hi : idx = ((idx.toNat : Nat) : Int) := by omega
      have hlt : idx.toNat < nz := by omega
      rw [hi, shepp_index_spec nz idx.toNat hlt] at h
      have e := Except.ok.inj h
      simp only [Prod.mk.injEq] at e
      obtain ⟨e1, e2, e3⟩ := e
      omega

/-- what held for negative indices on the pinned tree (`"slice_no": idx`): the **data** was that of slice `nz + idx`,
the reported `slice_no` was `idx` as given … -/
theorem shepp_index_negative_pinned_partial (nz : Nat) (idx : Int) (h0 : idx < 0) (h1 : -(nz : Int) ≤ idx) :
    sheppIndexPinned nz idx = .ok ((idx + nz).toNat, (idx + nz).toNat, idx) := by
  unfold sheppIndexPinned sheppIndexWith pyIndex
  have hm : Int.fmod idx (nz : Int) = idx + nz := by
    rw [Int.fmod_eq_emod_of_nonneg _ (by omega), ← Int.add_emod_right]
    exact Int.emod_eq_of_lt (by omega) (by omega)
  have hl : (idx + (nz : Int)).toNat < nz := by omega
  have h3 : ¬ (idx + (nz : Int) < 0) := by omega
  simp [h0, h3, hm, hl]

/-- … regression (pinned tree): `ds[-1]` of a 4-slice phantom was slice 3 labelled `slice_no = -1`, so
`shepp_index_consistent` failed -/
theorem shepp_negative_index_pinned_violates :
    sheppIndexPinned 4 (-1) = .ok (3, 3, -1) ∧ ¬ (∀ idx s k r, sheppIndexPinned 4 idx = .ok (s, k, r) → r = (s : Int)) := by
  refine ⟨by rfl, fun h => ?_⟩
  have := h (-1) 3 3 (-1) (by rfl)
  omega

/-! ## non-vacuity: the hypotheses are met by concrete instances -/

private def exFiles : List (Nat × Option Nat) := [(1, some 3), (2, none), (3, some 1), (4, some 5)]
private def exFilt : Option PySliceT := some ⟨some 1, none, some 2⟩

example : (parseFilenames exFiles exFilt).vols = [(1, 0, 1), (3, 1, 1), (4, 1, 3)] := by decide
example : (parseFilenames exFiles exFilt).data = [(1, 1), (4, 1), (4, 3)] := by decide
example : (parseFilenames exFiles none).data.length = 9 := by decide
example : 2 < (parseFilenames exFiles exFilt).data.length := by decide
example : 2 < (readable exFiles).length := by decide
example : ((readable exFiles).map (·.1)).Nodup := by decide
example : cmrBlock .none 2 3 4 = some [(1, 1)] := by decide
example : (cmrParse .time [((1 : Nat), some (2, 3)), (2, some (1, 4))]).vols = [(1, 0, 3), (2, 3, 7)] := by decide
example : selectFiles true true (fun a b => decide (a ≤ b)) ⟨[(2 : Nat), 3, 1], none, none, false, true, fun x => x != 3⟩ = .ok [1, 2] := by rfl
example : selectFiles true true (fun a b => decide (a ≤ b)) ⟨[], some [(3 : Nat), 1, 3], none, false, false, fun _ => true⟩ = .ok [3, 1] := by rfl
example : (buildH5 true true (fun a b => decide (a ≤ b)) ⟨[], some [(3 : Nat), 1, 3], none, false, false, fun _ => true⟩ (fun _ => some 2) .none).toOption.map (·.vols) = some [(3, 0, 2), (1, 2, 4)] := by decide
example : sliceList (some ⟨none, none, some (-2)⟩) 5 = [0, 2, 4] := by decide
example : numSlices (some ⟨some 50, some (-50), none⟩) 7 = 0 := by decide
example : (2 : Nat) < 3 ∧ 4 < 2 * 2 + 1 := by decide
example : getSliceWindow 1 3 0 = [.zero, .slice 0, .slice 1] := by decide
example : getSliceWindow 2 2 1 = [.zero, .slice 0, .slice 1, .zero, .zero] := by decide
example : h5Item (parseFilenames exFiles exFilt) (fun f => if f = 4 then 5 else 3) 1 (-1) =
    .ok (4, 3, [.slice 2, .slice 3, .slice 4]) := by rfl
example : (4 : Nat) < [2, 0, 3].sum := by decide
example : locate [2, 0, 3] 4 = .ok (2, 2) := by rfl
example : locate [2, 0, 3] (-1) = .ok (2, 2) := by rfl
example : locate [2, 0, 3] 5 = .error .indexError := by rfl
example : locate [2, 0, 3] (-6) = .error .valueError := by rfl
example : (1 : Nat) < [2, 0, 3, 2].length ∧ (2 : Nat) < [2, 0, 3, 2].length ∧ (1 : Nat) < [2, 0, 3, 2][2] := by decide
example : locate [2, 0, 3, 2] ((([2, 0, 3, 2].take 2).sum + 1 : Nat) : Int) = .ok (2, 1) := by rfl
example : concatGetRep [2, 0, 3] [0, 1, 0, 2, 0] 5 = .ok (3, 2, 1) := by rfl
example : concatGetRep [2, 0, 3] [0, 1, 0, 2, 0] (-1) = .ok (4, 0, 1) := by rfl
example : (5 : Nat) < ([0, 1, 0, 2, 0].map fun p => [2, 0, 3].getD p 0).sum := by decide
example : bisectRightBin (cumsum [2, 0, 3]) 2 = 2 := by decide
example : (cumsum [2, 0, 3]).Pairwise (· ≤ ·) := by decide
example : flatPairs [2, 0, 3] = [(0, 0), (0, 1), (2, 0), (2, 1), (2, 2)] := by decide
example : buildCmr true true (fun a b => decide (a ≤ b)) ⟨[(2 : Nat), 1], none, none, false, false, fun _ => true⟩ .time
    (fun f => if f = 1 then some (2, 3) else none) = .ok ⟨[(1, 0), (1, 1), (1, 2)], [(1, 0, 3)], 3⟩ := by rfl
example : blobCounts 30 4 = [8, 8, 7, 7] := by decide
example : blobRequests ⟨4, 3, 30⟩ = [.uniformN 12, .normalN 24, .normalN 24, .normalN 21, .normalN 21, .shuffleN 30] := by decide
example : blobArgs [3, 6, 5] 4 0 = ⟨4, 3, 30⟩ := by decide
example : fakeNames [(7 : Nat)] 2 (fun b k => b * 100000 + k) = .ok [700001, 700002] := by rfl
example : (fakeBuild [(1 : Nat), 2] [10, 11] 3).vols = [(1, 0, 3), (2, 3, 6)] := by decide
example : (fakeBuild [(1 : Nat), 2] [10, 11] 3).vols[1]? = some (2, 1 * 3, 1 * 3 + 3) := by decide
example : fakeIndex (fakeBuild [(1 : Nat), 2] [10, 11] 3) (-1) = .ok (2, 2, 11) := by rfl
example : [(1 : Nat), 2].Nodup ∧ (1 : Nat) < [(1 : Nat), 2].length ∧ (2 : Nat) < 3 := by decide
example : sheppIndex 4 2 = .ok (2, 2, 2) := by rfl
example : sheppIndex 4 4 = .error .indexError := by rfl
example : sheppIndex 4 (-1) = .ok (3, 3, 3) := by rfl
example : selectFilesRaw true true true (fun (x : Nat × Nat) => x.2) (fun a b => decide (a ≤ b))
    ⟨[], some [(0, 5), (1, 5), (2, 3)], none, false, false, fun _ => true⟩ (fun _ => true) = .ok [5, 3] := by rfl
example : fakeTableCurrent.allTrue = true := by decide
example : (fakeItem toyRng fakeTableCurrent (fun d _ => d) ⟨3, 2, 18⟩ 3 5 0 0).1 = ((6000, some 6000), 0).1 := by decide
example : sheppTableCurrent.allTrue = true := by decide
example : (sheppItem toyRng sheppTableCurrent id 1 7 true 4 0).1 = (sheppItem toyRng sheppTableCurrent id 1 7 true 4 1).1 := by decide
example : (sheppItem toyRng sheppTableCurrent id 2 7 true 4 0).1 = (some 8000, some 8000) := by decide

end DirectVerif.C12
