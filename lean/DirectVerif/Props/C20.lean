import DirectVerif.Gen.C20
import DirectVerif.Lemmas.C20Validate
/-!
# C20 — every shipped configuration and registered name resolves and validates

The quantifier of the property is a finite table (the YAML files under `projects/`, the config dataclasses, the
modules under `direct/nn`, the parameters of the builders) that the translator regenerates from the working tree of
/repo on every run (`Gen/C20.lean`).  The checks below are the executable model `Model/Config.lean` — the *same*
definitions the driver runs in the correspondence check — and kernel evaluation (`decide +kernel`) of a check on
the generated table is a proof about that table.  What makes the checker itself trustworthy is proved generically
in `Lemmas/C20Validate.lean` (`validate` accepts exactly the well-typed trees, rejects unknown keys, …) and restated
here.

The findings of the pinned tree (stale key `cwn_conv`, non-existent JSSL engine names, toy inference masking name left
MISSING, `NormUnetModel2dConfig` without `@dataclass`, `ResNetConfig.image_init`) are repaired in /repo; the statements
below are at full strength (no file, no class excluded).  The `…_pinned_violates` theorems keep the old defects as
witnesses on literal fragments.
-/
namespace DirectVerif.C20
open DirectVerif DirectVerif.Config DirectVerif.Gen.C20

/-! ## helpers to name strings of the generated symbol table -/

def ofString (s : String) : Str := s.toList.map Char.toNat
/-- interned id of a string (`symbols.length`, an id no key or value of any tree has, when the string is not interned) -/
def symOf (s : String) : Sym := tables.symbols.idxOf (pack (ofString s))
def pathOf (c : Sym × Val) : PStr := tables.symbols.getD c.1 0

/-! ## the translator saw the whole tree -/

/-- every module of the configuration layer and of `direct.nn` imports on the running Python, every signature could
be read (a dataclass-instance default — the Python ≥ 3.11 `ValueError: mutable default` — shows up here first) -/
theorem imports_ok : importFailures = [] ∧ parseFailures = [] := by decide

/-- the schema language expresses every field type that occurs (nothing was weakened to `Any`) -/
theorem schema_complete : unsupportedTypes = [] := by decide

/-! ## shipped configurations -/

theorem configs_checked : (configs.all fun c => configOk tables c.2) = true := by decide +kernel

/-- **Every shipped configuration passes the whole pipeline of the model**: its model blocks name importable classes
with config classes, merge into them and into the typed `DefaultConfig` without unknown or ill-typed keys, its
operators and its engine resolve, and every dataset block names a masking function and only transform keys that
`build_mri_transforms` takes. -/
theorem all_shipped_configs_ok : ∀ c ∈ configs, checkConfig tables c.2 = .ok () := fun c hc =>
  configOk_iff.mp (List.all_eq_true.mp configs_checked c hc)

/-- merge stage: the typed schema accepts every file -/
theorem all_shipped_configs_validate : ∀ c ∈ configs, mergeCheck tables c.2 = .ok () := fun c hc =>
  (checkConfig_ok_iff.mp (all_shipped_configs_ok c hc)).1

/-- name resolution: forward / backward operator and engine class exist (model and config classes, dataset config
classes are part of the merge stage; masking functions of the block stage) -/
theorem all_names_resolve :
    ∀ c ∈ configs, operatorsCheck tables c.2 = .ok () ∧ engineCheck tables c.2 = .ok () := fun c hc =>
  let h := checkConfig_ok_iff.mp (all_shipped_configs_ok c hc)
  ⟨h.2.1, h.2.2.1⟩

/-- dataset blocks: masking function named, resolvable, callable; transform keys accepted by the builder -/
theorem all_blocks_accepted : ∀ c ∈ configs, blocksCheck tables c.2 = .ok () := fun c hc =>
  (checkConfig_ok_iff.mp (all_shipped_configs_ok c hc)).2.2.2

/-- non-vacuity: the table is the 87 files (any number ≥ 1 would do) -/
example : configs.length = 87 := by decide
example : (configs.any fun c => configOk tables c.2) = true := by decide +kernel

/-! ## witnesses of the repaired findings of the pinned tree (stated on literal fragments) -/

/-- a `UnetModel2d` block with the stale key `cwn_conv` is rejected with `ConfigKeyError` -/
theorem stale_key_pinned_violates :
    checkModelBlock tables (.map [(symOf "model_name", .str (symOf "unet.unet_2d.UnetModel2d") 0),
                                  (symOf "cwn_conv", .bool true)]) = .error .configKeyError := by decide +kernel

/-- … and accepted without it -/
example : checkModelBlock tables (.map [(symOf "model_name", .str (symOf "unet.unet_2d.UnetModel2d") 0)]) = .ok () := by
  decide +kernel

/-- `UNetJSSLEngine` / `UNetSSLEngine` are not classes of `direct.nn.unet.unet_engine`; `Unet2dJSSLEngine` / `Unet2dSSLEngine` are -/
theorem engine_name_pinned_violates :
    resolves tables.modules (engineTarget (ofString "unet.unet_2d.Unet2d") (some (ofString "UNetJSSLEngine"))) = false ∧
    resolves tables.modules (engineTarget (ofString "unet.unet_2d.Unet2d") (some (ofString "UNetSSLEngine"))) = false ∧
    resolves tables.modules (engineTarget (ofString "unet.unet_2d.Unet2d") (some (ofString "Unet2dJSSLEngine"))) = true ∧
    resolves tables.modules (engineTarget (ofString "unet.unet_2d.Unet2d") (some (ofString "Unet2dSSLEngine"))) = true ∧
    resolves tables.modules (engineTarget (ofString "unet.unet_2d.Unet2d") none) = true := by decide +kernel

/-- a masking block whose `name` is still `???` cannot be turned into a masking function, whatever the tables -/
theorem missing_mask_name_violates (t : Tables) (rest : List (Sym × Val)) :
    maskingCheck t (.map ((t.kName, .missing) :: rest)) = .error .missingMandatoryValue := by
  simp [maskingCheck, lookup]

/-! ## transform schema vs. transform builder -/

/-- **every key of the transform schema is accepted by the transform builder**: the leaf keys of `TransformsConfig`
(nested groups flattened as `dict_flatten` does, `masking` removed as `build_transforms_from_environment` does) are
parameters of `build_mri_transforms` -/
theorem transform_keys_accepted :
    ∀ k ∈ flattenKeys (match transformSchema.defaultVal with
                       | .map kvs => .map (removeKey tables.kMasking kvs)
                       | v => v), k ∈ builderParams := by decide +kernel

/-- non-vacuity: the schema has leaf keys -/
example : (flattenKeys transformSchema.defaultVal).length ≥ 30 := by decide +kernel

/-! ## defaults -/

/-- **every dataclass default is a value of its declared type** (or MISSING), for every config class, recursively -/
theorem defaults_wellformed : ∀ s ∈ schemas, defaultsOk 32 s.2 = true := by decide +kernel

/-- no dataclass instance / mutable literal is used as a class-level default (source scan) -/
theorem no_instance_defaults : instanceDefaults = [] := by decide

example : schemas.length ≥ 40 := by decide +kernel

/-- the pinned defect: a config module whose class body evaluates `TensorboardConfig()` as a default cannot be imported
on Python ≥ 3.11; such a tree makes `imports_ok` and `no_instance_defaults` false — modelled by the tables only -/
example : (["direct/config/defaults.py:LoggingConfig.tensorboard"] : List String) ≠ [] := by decide

/-- **every model class can be called with the fields of its config class, and every parameter it insists on is a
field (or an operator)** -/
theorem model_configs_accepted : ∀ e ∈ modelInits, modelInitOk tables e = true := by decide +kernel

/-- config classes with annotated attributes are dataclasses (pinned tree: `NormUnetModel2dConfig` was not) -/
theorem no_undecorated_configs : undecoratedConfigs = [] := by decide

example : modelInits.length ≥ 15 := by decide +kernel

/-! ## registered names beyond the shipped files -/

/-- every model class under `direct/nn` with a config class is reachable by its `model_name`, has its config class where
`load_model_config_from_name` looks, and — when it is an MRI model — its default engine where `setup_engine` looks -/
theorem all_registered_models_resolve : ∀ m ∈ registeredModels, modelRegistered tables m = true := by decide +kernel

/-- every (concrete) engine class under `direct/nn` lives where `setup_engine` can find it -/
theorem all_registered_engines_reachable : ∀ e ∈ registeredEngines, engineReachable tables e = true := by decide +kernel

/-- every dataset class `build_dataset` can construct has its config class -/
theorem all_registered_datasets_resolve : ∀ d ∈ registeredDatasets, datasetRegistered tables d = true := by decide +kernel

theorem all_registered_mask_functions_resolve : ∀ m ∈ registeredMaskFuncs, maskFuncRegistered tables m = true := by
  decide +kernel

/-- every `TransformsType` member can be written in a configuration -/
theorem all_transforms_types_accepted :
    ∀ n ∈ transformsTypes, transformsTypeAccepted transformSchema kTransformsType n = true := by decide +kernel

/-- every metric / regularizer named in a shipped file is a function of `direct.functionals`, every loss named in a shipped
file is one `MRIModelEngine.build_loss` knows -/
theorem all_referenced_functionals_resolve :
    (∀ f ∈ referencedFunctionals, functionalResolves tables f = true) ∧
    (∀ l ∈ referencedLosses, l ∈ permissibleLosses) := by decide +kernel

/-- **all registered names resolve** (the six statements above as one) -/
theorem all_registered_names_resolve :
    (∀ m ∈ registeredModels, modelRegistered tables m = true) ∧
    (∀ e ∈ registeredEngines, engineReachable tables e = true) ∧
    (∀ d ∈ registeredDatasets, datasetRegistered tables d = true) ∧
    (∀ m ∈ registeredMaskFuncs, maskFuncRegistered tables m = true) ∧
    (∀ n ∈ transformsTypes, transformsTypeAccepted transformSchema kTransformsType n = true) ∧
    (∀ f ∈ referencedFunctionals, functionalResolves tables f = true) ∧
    (∀ l ∈ referencedLosses, l ∈ permissibleLosses) :=
  ⟨all_registered_models_resolve, all_registered_engines_reachable, all_registered_datasets_resolve,
   all_registered_mask_functions_resolve, all_transforms_types_accepted, all_referenced_functionals_resolve.1,
   all_referenced_functionals_resolve.2⟩

/-- non-vacuity -/
example : registeredModels.length ≥ 15 ∧ registeredEngines.length ≥ 15 ∧ registeredDatasets.length ≥ 5 ∧
    registeredMaskFuncs.length ≥ 15 ∧ transformsTypes.length ≥ 2 ∧ referencedFunctionals.length ≥ 3 ∧
    referencedLosses.length ≥ 3 := by decide +kernel

/-- the source scan behind `no_instance_defaults` / `no_undecorated_configs` covers the whole configuration layer -/
theorem scan_covers_config_layer :
    ((["direct/config/defaults.py", "direct/data/datasets_config.py", "direct/common/subsample_config.py",
       "direct/nn/unet/config.py", "direct/nn/vsharp/config.py"].map ofString).all
        fun f => scannedSources.contains f) = true ∧
    scannedSources.length ≥ 20 := by decide +kernel

/-! ## the checker is specified, not just run (proved in `Lemmas/C20Validate.lean`) -/

/-- an undeclared key is always rejected, wherever it stands -/
theorem validate_rejects_unknown_key (cls : Sym) (fields : List (Sym × Ty × Val)) (pre post : List (Sym × Val))
    (k : Sym) (v : Val) (hk : lookup k fields = none) (hpre : validateKVs fields pre = .ok ()) :
    validate (.struct cls fields) (.map (pre ++ (k, v) :: post)) = .error .configKeyError :=
  Config.validate_rejects_unknown_key cls fields pre post k v hk hpre

/-- `validate` accepts exactly the trees that are well typed in the sense of the inductive relation `WellTyped` -/
theorem validate_accepts_iff_wellTyped (ty : Ty) (v : Val) : validate ty v = .ok () ↔ WellTyped ty v :=
  Config.validate_ok_iff ty v

end DirectVerif.C20
