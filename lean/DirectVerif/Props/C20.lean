import DirectVerif.Gen.C20
import DirectVerif.Lemmas.C20Validate
/-!
# C20 — every shipped configuration and registered name resolves and validates

The quantifier of the property is a finite table (the YAML files under `projects/`, the config dataclasses, the
modules under `direct/nn`, the parameters of the builders) that the translator regenerates from the working tree of
/repo on every run (`Gen/C20.lean`).  The checks below are the executable model `Model/Config.lean` — the *same*
definitions the driver runs in the correspondence check — and kernel evaluation (`decide +kernel`) of a check on
the generated table is a proof about that table.  What makes the checker itself trustworthy is proved generically
in `Lemmas/C20Validate.lean` (`validate` accepts exactly the well-typed trees, rejects unknown keys, …) and restated
here.

Pending findings on the current tree (the model mirrors the code; the oracle reports them with replays):
the four files of `pendingPaths` are rejected — by the real code and by the model alike.  The full statement
  `∀ c ∈ configs, checkConfig tables c.2 = .ok ()`
is what `all_shipped_configs_ok_partial` becomes once `pendingPaths = []`.
-/
namespace DirectVerif.C20
open DirectVerif DirectVerif.Config DirectVerif.Gen.C20

/-! ## helpers to name strings of the generated symbol table -/

def ofString (s : String) : Str := s.toList.map Char.toNat
/-- interned id of a string (`symbols.length`, an id no key or value of any tree has, when the string is not interned) -/
def symOf (s : String) : Sym := tables.symbols.idxOf (pack (ofString s))
def pathOf (c : Sym × Val) : PStr := tables.symbols.getD c.1 0

/-- shipped files with a finding that is visible to the model (see the module docstring) -/
def pendingPaths : List String := [
  "projects/CMRxRecon/configs/base_vsharp_2D_dynamic_recon.yaml",   -- stale key `cwn_conv` in a UnetModel2d block
  "projects/JSSL/configs/unet_jssl.yaml",                           -- engine_name UNetJSSLEngine does not exist
  "projects/JSSL/configs/unet_ssl.yaml",                            -- engine_name UNetSSLEngine does not exist
  "projects/toy/base.yaml"]                                         -- inference masking name left MISSING
/-- the same paths packed (numerals, so that the kernel does not re-pack strings for every file) -/
def pending : List PStr := [
  1022324084241395205230802524141896349690194227771402770638275597079721404153811113030670060407350979279093427926924636816563836627699279238820988405085333012762699476176909544242748591601311927680279748748557007061371242827433995369917222874830755474191869688274743425054368556590135404032404473888649012974825221074254111934855641341267295250897058587036203536799770303529072,
  19519593876440446133593310543659112774492976667416235767977504138640246033259773555086341121267997493654850544308682118285854027455236253221142059016216958457055850383810734181225247105171197672375662531390434669253607030896,
  9307667673320982996746688148335987460371483167369952418443320856272870995921515196390724684541325256972486429748042769698822512097386051467789553650430753350036960669384678741979739899090334063057610475677054702452848,
  613270468762235603064124091909210525090433894545349483898396071134050654009731576286562676372054576117241928027168468022711266152808560]
theorem pending_eq : pending = pendingPaths.map fun s => pack (ofString s) := by decide +kernel

/-! ## the translator saw the whole tree -/

/-- every module of the configuration layer and of `direct.nn` imports on the running Python, every signature could
be read (a dataclass-instance default — the Python ≥ 3.11 `ValueError: mutable default` — shows up here first) -/
theorem imports_ok : importFailures = [] ∧ parseFailures = [] := by decide

/-- the schema language expresses every field type that occurs (nothing was weakened to `Any`) -/
theorem schema_complete : unsupportedTypes = [] := by decide

/-! ## shipped configurations -/

theorem configs_checked_partial :
    (configs.all fun c => pending.contains (pathOf c) || configOk tables c.2) = true := by decide +kernel

/-- **Every shipped configuration (but the pending ones) passes the whole pipeline of the model**: its model blocks
name importable classes with config classes, merge into them and into the typed `DefaultConfig` without unknown or
ill-typed keys, its operators and its engine resolve, and every dataset block names a masking function and only
transform keys that `build_mri_transforms` takes. -/
theorem all_shipped_configs_ok_partial :
    ∀ c ∈ configs, pathOf c ∉ pending → checkConfig tables c.2 = .ok () := by
  intro c hc hp
  have h := List.all_eq_true.mp configs_checked_partial c hc
  have hp' : pending.contains (pathOf c) = false := by
    simpa using hp
  rw [hp', Bool.false_or] at h
  exact configOk_iff.mp h

/-- merge stage: the typed schema accepts the file -/
theorem all_shipped_configs_validate_partial :
    ∀ c ∈ configs, pathOf c ∉ pending → mergeCheck tables c.2 = .ok () := fun c hc hp =>
  (checkConfig_ok_iff.mp (all_shipped_configs_ok_partial c hc hp)).1

/-- name resolution: forward / backward operator and engine class exist (model and config classes, dataset config
classes are part of the merge stage; masking functions of the block stage) -/
theorem all_names_resolve_partial :
    ∀ c ∈ configs, pathOf c ∉ pending →
      operatorsCheck tables c.2 = .ok () ∧ engineCheck tables c.2 = .ok () := fun c hc hp =>
  let h := checkConfig_ok_iff.mp (all_shipped_configs_ok_partial c hc hp)
  ⟨h.2.1, h.2.2.1⟩

/-- dataset blocks: masking function named, resolvable, callable; transform keys accepted by the builder -/
theorem all_blocks_accepted_partial :
    ∀ c ∈ configs, pathOf c ∉ pending → blocksCheck tables c.2 = .ok () := fun c hc hp =>
  (checkConfig_ok_iff.mp (all_shipped_configs_ok_partial c hc hp)).2.2.2

/-- non-vacuity: the table is the 87 files (any number ≥ 1 would do), and most are not pending -/
example : configs.length = 87 := by decide
example : ((configs.filter fun c => !pending.contains (pathOf c)).length ≥ 80) := by decide +kernel
example : (configs.any fun c => !pending.contains (pathOf c) && configOk tables c.2) = true := by decide +kernel

/-! ## witnesses of the pending findings (stated on literal fragments, so they survive the repair of the files) -/

/-- a `UnetModel2d` block with the stale key `cwn_conv` is rejected with `ConfigKeyError` -/
theorem stale_key_pinned_violates :
    checkModelBlock tables (.map [(symOf "model_name", .str (symOf "unet.unet_2d.UnetModel2d") 0),
                                  (symOf "cwn_conv", .bool true)]) = .error .configKeyError := by decide +kernel

/-- … and accepted without it -/
example : checkModelBlock tables (.map [(symOf "model_name", .str (symOf "unet.unet_2d.UnetModel2d") 0)]) = .ok () := by
  decide +kernel

/-- `UNetJSSLEngine` / `UNetSSLEngine` are not classes of `direct.nn.unet.unet_engine`; `Unet2dJSSLEngine` / `Unet2dSSLEngine` are -/
theorem engine_name_pinned_violates :
    resolves tables.modules (engineTarget (ofString "unet.unet_2d.Unet2d") (some (ofString "UNetJSSLEngine"))) = false ∧
    resolves tables.modules (engineTarget (ofString "unet.unet_2d.Unet2d") (some (ofString "UNetSSLEngine"))) = false ∧
    resolves tables.modules (engineTarget (ofString "unet.unet_2d.Unet2d") (some (ofString "Unet2dJSSLEngine"))) = true ∧
    resolves tables.modules (engineTarget (ofString "unet.unet_2d.Unet2d") (some (ofString "Unet2dSSLEngine"))) = true ∧
    resolves tables.modules (engineTarget (ofString "unet.unet_2d.Unet2d") none) = true := by decide +kernel

/-- a masking block whose `name` is still `???` cannot be turned into a masking function, whatever the tables -/
theorem missing_mask_name_violates (t : Tables) (rest : List (Sym × Val)) :
    maskingCheck t (.map ((t.kName, .missing) :: rest)) = .error .missingMandatoryValue := by
  simp [maskingCheck, lookup]

/-! ## transform schema vs. transform builder -/

/-- **every key of the transform schema is accepted by the transform builder**: the leaf keys of `TransformsConfig`
(nested groups flattened as `dict_flatten` does, `masking` removed as `build_transforms_from_environment` does) are
parameters of `build_mri_transforms` -/
theorem transform_keys_accepted :
    ∀ k ∈ flattenKeys (match transformSchema.defaultVal with
                       | .map kvs => .map (removeKey tables.kMasking kvs)
                       | v => v), k ∈ builderParams := by decide +kernel

/-- non-vacuity: the schema has leaf keys -/
example : (flattenKeys transformSchema.defaultVal).length ≥ 30 := by decide +kernel

/-! ## defaults -/

/-- **every dataclass default is a value of its declared type** (or MISSING), for every config class, recursively -/
theorem defaults_wellformed : ∀ s ∈ schemas, defaultsOk 32 s.2 = true := by decide +kernel

/-- no dataclass instance / mutable literal is used as a class-level default (source scan) -/
theorem no_instance_defaults : instanceDefaults = [] := by decide

example : schemas.length ≥ 40 := by decide +kernel

/-- the pinned defect: a config module whose class body evaluates `TensorboardConfig()` as a default cannot be imported
on Python ≥ 3.11; such a tree makes `imports_ok` and `no_instance_defaults` false — modelled by the tables only -/
example : (["direct/config/defaults.py:LoggingConfig.tensorboard"] : List String) ≠ [] := by decide

/-- every model class can be called with the fields of its config class, and every parameter it insists on is a
field (or an operator); the classes of `pendingInits` are the exception -/
def pendingInitNames : List String := [
  "NormUnetModel2dConfig",   -- declared without `@dataclass`: its annotated attributes are not fields
  "ResNetConfig"]            -- field `image_init` is not a parameter of `ResNet.__init__`
def pendingInits : List PStr := [
  278891716129161797456994582163704636297445398905963316689374500827553792261848424973091685625895758689276927545846340047737978958,
  355440109637772586867806439269075547844341594274789503077724284264644690]
theorem pendingInits_eq : pendingInits = pendingInitNames.map fun s => pack (ofString s) := by decide +kernel
theorem model_configs_accepted_partial :
    ∀ e ∈ modelInits, e.1.2 ∉ pendingInits → modelInitOk tables e = true := by
  decide +kernel

/-! ## the checker is specified, not just run (proved in `Lemmas/C20Validate.lean`) -/

/-- an undeclared key is always rejected, wherever it stands -/
theorem validate_rejects_unknown_key (cls : Sym) (fields : List (Sym × Ty × Val)) (pre post : List (Sym × Val))
    (k : Sym) (v : Val) (hk : lookup k fields = none) (hpre : validateKVs fields pre = .ok ()) :
    validate (.struct cls fields) (.map (pre ++ (k, v) :: post)) = .error .configKeyError :=
  Config.validate_rejects_unknown_key cls fields pre post k v hk hpre

/-- `validate` accepts exactly the trees that are well typed in the sense of the inductive relation `WellTyped` -/
theorem validate_accepts_iff_wellTyped (ty : Ty) (v : Val) : validate ty v = .ok () ↔ WellTyped ty v :=
  Config.validate_ok_iff ty v

end DirectVerif.C20
