import DirectVerif.Model.Crop
import DirectVerif.Model.C10Modules
import DirectVerif.Lemmas.TensorLift
import DirectVerif.Lemmas.C10Modules
/-!
# C10 — `PadCoilDimensionModule`: the coil axis is padded with exact zeros IN FRONT of the data

All statements are about `Crop.padCoils1` / `Crop.padCoilCall` / `Crop.padCoilDecision`, the definitions the driver op
`padcoil` executes (lifted to tensors by `Tensor.alongAxis`), for every requested coil count and every fibre.
-/
namespace DirectVerif.C10PadCoil
open DirectVerif DirectVerif.Crop DirectVerif.Tensor

variable {α : Type}

/-- closed form: with `0 < num` and at most `num` coils the result is `num - n` zeros followed by the data -/
theorem pad_coils_spec (zero : α) (num : Int) (xs : List α) (h0 : num ≠ 0) (hle : (xs.length : Int) ≤ num) :
    padCoils1 zero num xs = some (List.replicate (num - xs.length).toNat zero ++ xs) := by
  unfold padCoils1 padCoilDecision
  by_cases heq : (xs.length : Int) = num
  · have : ¬ ((xs.length : Int) > num) := by omega
    simp [h0, heq]
  · have h1 : ¬ ((xs.length : Int) > num) := by omega
    have h2 : max (num - (xs.length : Int)) 0 = num - xs.length := by omega
    simp [h0, h1, heq, fPad, h2]

/-- `pad_coils = None` / `0`: the identity, for every coil count -/
theorem pad_coils_none (zero : α) (xs : List α) : padCoils1 zero 0 xs = some xs := by
  simp [padCoils1, padCoilDecision]

/-- the call raises exactly when a coil count was requested and the data already has MORE coils (as coded) -/
theorem pad_coils_raises_iff (zero : α) (num : Int) (xs : List α) :
    padCoils1 zero num xs = none ↔ (num ≠ 0 ∧ (xs.length : Int) > num) := by
  unfold padCoils1 padCoilDecision
  by_cases h0 : num = 0
  · simp [h0]
  · by_cases h1 : (xs.length : Int) > num
    · simp [h0, h1]
    · by_cases h2 : (xs.length : Int) = num <;> simp [h0, h1, h2]

/-- output coil count: exactly `num` whenever a coil count is requested and the call succeeds -/
theorem pad_coils_length (zero : α) (num : Int) (xs ys : List α) (h0 : num ≠ 0) (h : padCoils1 zero num xs = some ys) :
    (ys.length : Int) = num := by
  have hle : (xs.length : Int) ≤ num := by
    by_cases hgt : (xs.length : Int) > num
    · have := (pad_coils_raises_iff zero num xs).2 ⟨h0, hgt⟩
      rw [this] at h; cases h
    · omega
  rw [pad_coils_spec zero num xs h0 hle] at h
  cases h
  simp only [List.length_append, List.length_replicate]
  omega

/-- exact zeros on the added coils: the FIRST `num - n` entries -/
theorem pad_coils_zeros (zero : α) (num : Int) (xs ys : List α) (h0 : num ≠ 0) (hle : (xs.length : Int) ≤ num)
    (h : padCoils1 zero num xs = some ys) (i : Nat) (hi : (i : Int) < num - xs.length) : ys[i]? = some zero := by
  rw [pad_coils_spec zero num xs h0 hle] at h
  cases h
  rw [List.getElem?_append_left (by simp only [List.length_replicate]; omega)]
  simp only [List.getElem?_replicate]
  rw [if_pos (by omega)]

/-- values preserved on the original coils: entry `i` of the data is entry `(num - n) + i` of the result -/
theorem pad_coils_values (zero : α) (num : Int) (xs ys : List α) (h0 : num ≠ 0) (hle : (xs.length : Int) ≤ num)
    (h : padCoils1 zero num xs = some ys) (i : Nat) : ys[(num - xs.length).toNat + i]? = xs[i]? := by
  rw [pad_coils_spec zero num xs h0 hle] at h
  cases h
  rw [List.getElem?_append_right (by simp only [List.length_replicate]; omega)]
  simp only [List.length_replicate, Nat.add_sub_cancel_left]

/-- dropping the added coils gives the data back (so nothing is lost or reordered) -/
theorem pad_coils_drop (zero : α) (num : Int) (xs ys : List α) (h0 : num ≠ 0) (hle : (xs.length : Int) ≤ num)
    (h : padCoils1 zero num xs = some ys) : ys.drop (num - xs.length).toNat = xs := by
  rw [pad_coils_spec zero num xs h0 hle] at h
  cases h
  rw [List.drop_append_of_le_length (by simp)]
  simp

/-- idempotent: a second call (same module, its own output) changes nothing -/
theorem pad_coils_idempotent (zero : α) (num : Int) (xs ys : List α) (h : padCoils1 zero num xs = some ys) :
    padCoils1 zero num ys = some ys := by
  by_cases h0 : num = 0
  · subst h0; exact pad_coils_none zero ys
  · have hl := pad_coils_length zero num xs ys h0 h
    rw [pad_coils_spec zero num ys h0 (by omega)]
    have : (num - (ys.length : Int)).toNat = 0 := by omega
    simp [this]

/-- the pad count of the code, `max(num - cur, 0)`, never disagrees with the branch: in the pad branch it is `num - cur > 0` -/
theorem pad_coil_decision_pad (num cur : Int) (k : Bool) (z : Int) (h : padCoilDecision num cur k = (2, z)) :
    z = num - cur ∧ 0 < z ∧ k = true ∧ num ≠ 0 := by
  unfold padCoilDecision at h
  by_cases h0 : num = 0
  · simp [h0] at h
  · cases k
    · simp [h0] at h
    · by_cases h1 : cur > num
      · simp [h0, h1] at h
      · by_cases h2 : cur = num
        · simp [h0, h2] at h
        · simp only [h0, h1, h2, if_false, Bool.true_eq_false, Prod.mk.injEq, true_and] at h
          refine ⟨?_, ?_, rfl, h0⟩ <;> omega

/-! ### key handling -/

/-- a sample without the key is returned unchanged (no `KeyError`, unlike `PadKspace`) -/
theorem pad_coil_call_missing_key (key : KKey) (f : α → Option α) (s : KSample α) (h : s.get key = none) :
    padCoilCall key f s = some s := by
  simp [padCoilCall, h]

/-- frame: the other k-space key is the same afterwards, whatever `f` does -/
theorem pad_coil_call_frame (key other : KKey) (f : α → Option α) (s s' : KSample α) (hne : other ≠ key)
    (h : padCoilCall key f s = some s') : s'.get other = s.get other := by
  unfold padCoilCall at h
  cases hk : s.get key with
  | none => simp [hk] at h; rw [← h]
  | some x =>
    simp only [hk] at h
    cases hf : f x with
    | none => simp [hf] at h
    | some y =>
      simp only [hf, Option.map_some, Option.some.injEq] at h
      subst h
      cases key <;> cases other <;> simp_all [KSample.get, KSample.set]

/-- the key that was asked for holds `f` of what it held -/
theorem pad_coil_call_writes (key : KKey) (f : α → Option α) (s s' : KSample α) (x : α) (hk : s.get key = some x)
    (h : padCoilCall key f s = some s') : (s'.get key).bind (fun y => some y) = f x := by
  unfold padCoilCall at h
  simp only [hk] at h
  cases hf : f x with
  | none => simp [hf] at h
  | some y =>
    simp only [hf, Option.map_some, Option.some.injEq] at h
    rw [← h]
    cases key <;> simp [KSample.get, KSample.set]

/-- call histories: the module keeps no state, every call answers as a fresh instance would -/
theorem pad_coil_history_independent (key : KKey) (f : α → Option α) (xs : List (KSample α)) :
    (padCoilModule key f).run () xs = xs.map (padCoilCall key f) :=
  C10.stateless_history_independent (padCoilModule key f) (fun _ _ => rfl) xs

/-! ### whole tensors -/

/-- **n-D**: padding the coil axis `a` of a well-formed tensor to `num ≥ n` coils (as the driver does it,
`alongAxis a (fPad 0 (num - n) 0)`) and dropping the first `num - n` entries of that axis gives the tensor back:
all original values are preserved, in order, behind the added coils -/
theorem pad_coils_drop_nd [Inhabited α] (t : Tensor α) (a num : Nat) (zero : α)
    (hwf : t.data.length = prod t.shape) (ha : a < t.shape.length) (hN : t.shape.getD a 1 ≤ num) :
    (t.alongAxis a (fPad zero (num - t.shape.getD a 1) 0)).alongAxis a (List.drop (num - t.shape.getD a 1)) = t := by
  apply TensorLift.alongAxis_cancel t a _ _ num hwf ha
  · intro xs hxs; simp only [fPad, List.length_append, List.length_replicate]; omega
  · intro xs hxs; simp only [List.length_drop]; omega
  · intro xs _; simp [fPad]

/-- non-vacuity -/
example : padCoils1 (0 : Int) 4 [7, 8] = some [0, 0, 7, 8] := by decide
example : padCoils1 (0 : Int) 2 [7, 8] = some [7, 8] := by decide
example : padCoils1 (0 : Int) 1 [7, 8] = none := by decide
example : padCoils1 (0 : Int) 0 [7, 8] = some [7, 8] := by decide
example : padCoilDecision 4 2 true = (2, 2) := by decide
example : padCoilCall .masked (padCoils1 (0 : Int) 3) ⟨some [1], some [5]⟩ = some ⟨some [1], some [0, 0, 5]⟩ := by decide
example : padCoilCall .masked (padCoils1 (0 : Int) 3) ⟨some [1], none⟩ = some ⟨some [1], none⟩ := by decide

end DirectVerif.C10PadCoil
