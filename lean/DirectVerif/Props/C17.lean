import DirectVerif.Lemmas.C17Nets
import DirectVerif.Lemmas.C17ChanEmit
import DirectVerif.Lemmas.C17Min
import DirectVerif.Model.BatchSep
/-!
# C17 — every network in the zoo honours its shape contract for all input sizes

Property theorems only (helper lemmas: `Lemmas/C17.lean`, `Lemmas/C17Nets.lean`).  They are about the shape programs
of `Model/Shapes.lean`, the same definitions the driver executes against the forward hooks of the real networks.
A shape is the list of spatial axes, so every statement holds for 2-D (`[h, w]`) and 3-D (`[z, h, w]`) inputs alike;
`stk`/`tr` are the arbitrary surrounding stack and trace (the programs are used as sub-programs of one another).

"Finite values" is a floating-point statement and is checked at run time only (see the manifest).
-/
namespace DirectVerif.C17
open DirectVerif.Shapes DirectVerif.C17L

/-! ## the bit trick of `NormUnetModel2d.pad` -/

/-- `((n − 1) | 15) + 1` is `16·⌈n/16⌉` … -/
theorem normunet_pad_formula (n : Nat) : mult16 n = 16 * ((n + 15) / 16) := mult16_eq n

/-- … i.e. the **least multiple of 16 that is ≥ n** (for every `n`, including 0 and exact multiples). -/
theorem normunet_pad_multiple_of_16 (n : Nat) :
    16 ∣ mult16 n ∧ n ≤ mult16 n ∧ ∀ m, 16 ∣ m → n ≤ m → mult16 n ≤ m := by
  rw [mult16_eq]
  refine ⟨⟨_, rfl⟩, by omega, ?_⟩
  rintro m ⟨k, rfl⟩ h
  omega

/-- the two pad amounts are floor and ceiling of half the difference, and un-padding the padded length returns `n` -/
theorem normunet_pad_unpad (n : Nat) :
    pad16Lo n + pad16Hi n = mult16 n - n ∧ pad16Lo n ≤ pad16Hi n ∧ pad16Hi n ≤ pad16Lo n + 1 ∧
      unpad16 n (mult16 n) = n := by
  have := le_mult16 n
  refine ⟨?_, ?_, ?_, unpad16_mult16 n⟩ <;> simp only [pad16Lo, pad16Hi] <;> omega

/-! ## U-Net (2-D and 3-D) -/

/-- the pad-by-one lemma of the up path: transposed convolution of the pooled length plus the conditional reflect pad -/
theorem unet_pad_by_one (n : Nat) : 2 * (n / 2) + upPad n (2 * (n / 2)) = n := by
  simp only [upPad]; split <;> simp_all <;> omega

/-- **U-Net shape identity**: with `L` pooling levels every admissible size — odd, even, non-square, not a power of
two — comes back unchanged. -/
theorem unet_shape_id (L : Nat) (s : Shape) (stk tr : List Shape) (h : UAdm L s) :
    ∃ tr', run (unet UnetP.std L) ⟨s, stk, tr⟩ = .ok ⟨s, stk, tr'⟩ := unet_ok L s stk tr h

/-- **minimum size characterised**: admissible ⇔ every axis ≥ `2^L` and the bottleneck `⌊n / 2^L⌋` has more than one
element (otherwise `InstanceNorm` raises `ValueError`, or `avg_pool` raises `RuntimeError` on an axis of length 1) -/
theorem unet_min_size (L : Nat) (s : Shape) :
    UAdm L s ↔ (∀ n ∈ s, 2 ^ L ≤ n) ∧ 1 < numel (s.map (· / 2 ^ L)) := UAdm_iff L s

/-- below the minimum the real structure *fails* (never a padded / cropped result) -/
theorem unet_fails_below_min (L : Nat) (s : Shape) (stk tr : List Shape) (hs : ∀ n ∈ s, 1 ≤ n) (h : ¬ UAdm L s) :
    ∃ e, run (unet UnetP.std L) ⟨s, stk, tr⟩ = .error e := unet_fails L s stk tr hs h

/-- 2-D corollary in the familiar form -/
theorem unet2d_shape_id (L h w : Nat) (hh : 2 ^ L ≤ h) (hw : 2 ^ L ≤ w) (hb : 2 ≤ (h / 2 ^ L) * (w / 2 ^ L)) :
    ∃ tr', run (unet UnetP.std L) ⟨[h, w], [], []⟩ = .ok ⟨[h, w], [], tr'⟩ := by
  apply unet_shape_id
  rw [unet_min_size]
  refine ⟨by simp [hh, hw], ?_⟩
  simp only [List.map_cons, List.map_nil, numel, Nat.mul_one]; omega

/-- **Norm-U-Net**: pad to multiples of 16, U-Net, un-pad — identity whenever the padded size is admissible … -/
theorem normunet_shape_id (L : Nat) (s : Shape) (stk tr : List Shape) (h : UAdm L (s.map mult16)) :
    ∃ tr', run (normUnet UnetP.std L) ⟨s, stk, tr⟩ = .ok ⟨s, stk, tr'⟩ := normUnet_ok L s stk tr h

/-- … which for `L ≤ 3` is *every* non-empty 2-D size … -/
theorem normunet2d_shape_id_le3 (L h w : Nat) (hL : L ≤ 3) (hh : 1 ≤ h) (hw : 1 ≤ w) :
    ∃ tr', run (normUnet UnetP.std L) ⟨[h, w], [], []⟩ = .ok ⟨[h, w], [], tr'⟩ := by
  apply normunet_shape_id
  rw [unet_min_size]
  have e3 : (2 : Nat) ^ L ∣ 16 := (Nat.pow_dvd_pow_iff_le_right (by decide)).mpr (by omega : L ≤ 4)
  have p3 : 2 ^ L ≤ 8 := by
    calc 2 ^ L ≤ 2 ^ 3 := Nat.pow_le_pow_right (by decide) hL
      _ = 8 := rfl
  have hm : ∀ n, 1 ≤ n → 16 ≤ mult16 n := by intro n hn; rw [mult16_eq]; omega
  have hq : ∀ n, 1 ≤ n → 2 ≤ mult16 n / 2 ^ L := by
    intro n hn
    have h16 := hm n hn
    have hpos : 0 < 2 ^ L := Nat.two_pow_pos L
    calc 2 = 16 / 8 := rfl
      _ ≤ 16 / 2 ^ L := Nat.div_le_div_left p3 hpos
      _ ≤ mult16 n / 2 ^ L := Nat.div_le_div_right h16
  refine ⟨?_, ?_⟩
  · intro n hn
    simp only [List.map_cons, List.map_nil, List.mem_cons, List.not_mem_nil, or_false] at hn
    rcases hn with rfl | rfl
    · have := hm h hh; omega
    · have := hm w hw; omega
  · simp only [List.map_cons, List.map_nil, numel, Nat.mul_one]
    have a := hq h hh
    have b := hq w hw
    calc 1 < 2 * 2 := by decide
      _ ≤ _ := Nat.mul_le_mul a b

/-- … while for `L = 4` (the default depth) the padded 16 × 16 bottleneck is 1 × 1: sizes with `h ≤ 16` and `w ≤ 16`
are below the architecture's minimum (`ValueError` from `InstanceNorm2d`). -/
theorem normunet2d_L4_min (h w : Nat) (hh : 1 ≤ h) (hw : 1 ≤ w) :
    UAdm 4 ([h, w].map mult16) ↔ (16 < h ∨ 16 < w) := by
  rw [unet_min_size]
  simp only [List.map_cons, List.map_nil, numel, Nat.mul_one, List.mem_cons, List.not_mem_nil, or_false,
    forall_eq_or_imp, forall_eq, mult16_eq]
  have e : (2 : Nat) ^ 4 = 16 := rfl
  rw [e, Nat.mul_div_cancel_left _ (by decide : 0 < 16), Nat.mul_div_cancel_left _ (by decide : 0 < 16)]
  constructor
  · rintro ⟨_, hb⟩
    have : 1 ≤ (h + 15) / 16 := by omega
    have : 1 ≤ (w + 15) / 16 := by omega
    by_cases c : 16 < h
    · exact Or.inl c
    · right
      have e1 : (h + 15) / 16 = 1 := by omega
      rw [e1] at hb
      omega
  · intro hor
    refine ⟨⟨by omega, by omega⟩, ?_⟩
    have a : 1 ≤ (h + 15) / 16 := by omega
    have b : 1 ≤ (w + 15) / 16 := by omega
    rcases hor with c | c
    · have : 2 ≤ (h + 15) / 16 := by omega
      calc 1 < 2 * 1 := by decide
        _ ≤ _ := Nat.mul_le_mul this b
    · have : 2 ≤ (w + 15) / 16 := by omega
      calc 1 < 1 * 2 := by decide
        _ ≤ _ := Nat.mul_le_mul a this

/-- **3-D U-Net**: axes `≤ 2^L` are zero padded to `2^L` and cropped back -/
theorem unet3d_shape_id (L : Nat) (s : Shape) (stk tr : List Shape) (h : UAdm L (s.map (padPow2 L))) :
    ∃ tr', run (unet3d UnetP.std L) ⟨s, stk, tr⟩ = .ok ⟨s, stk, tr'⟩ := unet3d_ok L s stk tr h

theorem normunet3d_shape_id (L : Nat) (s : Shape) (stk tr : List Shape)
    (h : UAdm L ((s.map mult16).map (padPow2 L))) :
    ∃ tr', run (normUnet3d UnetP.std L) ⟨s, stk, tr⟩ = .ok ⟨s, stk, tr'⟩ := normUnet3d_ok L s stk tr h

theorem unet3d_pad_crop (k n : Nat) : unpadPow2 k n (padPow2 k n) = n := unpadPow2_padPow2 k n

/-! ## MWCNN -/

/-- **MWCNN shape identity** for every number of scales: reflect pad to even, DWT, …, IWT, `crop_to_shape` -/
theorem mwcnn_shape_id (S : Nat) (s : Shape) (stk tr : List Shape) (h : ∀ n ∈ s, mwAxisOk S n = true) :
    ∃ tr', run (mwcnn MwP.std S) ⟨s, stk, tr⟩ = .ok ⟨s, stk, tr'⟩ := mwcnn_ok S s stk tr h

/-- **minimum size**: `num_scales = S + 2` admits exactly the axes longer than `2^S` (below: `RuntimeError`, the
reflect padding by one needs a second sample) -/
theorem mwcnn_min_size (S n : Nat) : mwAxisOk (S + 2) n = true ↔ 2 ^ S + 1 ≤ n := mwAxisOk_iff S n

/-- `crop_to_shape` after IWT never crops more than the one padded sample -/
theorem mwcnn_iwt_crop (n : Nat) (h : n % 2 = 0) : cropTo n (2 * padEvenOut (n / 2)) = n := by
  simp only [cropTo_eq_min, padEvenOut]; omega

/-! ## DIDN / DUB -/

theorem dub_shape_id (e : Bool) (s : Shape) (stk tr : List Shape) (h : ∀ n ∈ s, 2 ≤ n) :
    ∃ tr', run (dub DidnP.std e) ⟨s, stk, tr⟩ = .ok ⟨s, stk, tr'⟩ :=
  dub_ok e s stk tr fun n hn => (dubAxisOk_iff n).mpr (h n hn)

/-- **DIDN shape identity**: strided down-sampling, any number of DUBs and reconstruction convs, sub-pixel up-sampling
and `crop_to_shape` give the input size back for every axis `≥ 3`, with or without the skip connection -/
theorem didn_shape_id (ndubs nconv : Nat) (skip : Bool) (s : Shape) (stk tr : List Shape) (h : ∀ n ∈ s, 3 ≤ n) :
    ∃ tr', run (didn DidnP.std ndubs nconv skip) ⟨s, stk, tr⟩ = .ok ⟨s, stk, tr'⟩ :=
  didn_ok ndubs nconv skip s stk tr fun n hn => (didnAxisOk_iff n).mpr (h n hn)

/-- the crop after sub-pixel up-sampling removes at most one sample: `2·⌈n/2⌉ ∈ {n, n + 1}` -/
theorem didn_subpixel_crop (n : Nat) (h : 1 ≤ n) :
    cropTo n (2 * convOut 3 2 1 1 n) = n ∧ 2 * convOut 3 2 1 1 n ≤ n + 1 := by
  simp only [cropTo_eq_min, convOut]; omega

/-! ## ResNet, Conv2d, Conv2dGRU -/

theorem resnet_shape_id (nblocks : Nat) (s : Shape) (stk tr : List Shape) (h : ∀ n ∈ s, 1 ≤ n) :
    ∃ tr', run (resnet 3 1 nblocks) ⟨s, stk, tr⟩ = .ok ⟨s, stk, tr'⟩ := resnet_ok nblocks s stk tr h

theorem conv_shape_id (bn : Bool) (m : Nat) (s : Shape) (stk tr : List Shape) (h : ∀ n ∈ s, 1 ≤ n) :
    ∃ tr', run (convNet 3 1 bn m) ⟨s, stk, tr⟩ = .ok ⟨s, stk, tr'⟩ := convNet_ok bn m s stk tr h

/-- any stride-1 convolution whose padding compensates its dilated kernel preserves every axis (this is the contract
`padding = k // 2 (+ dilation − 1)` used throughout `direct/nn`) -/
theorem same_conv_preserves (k p d n : Nat) (hk : d * (k - 1) = 2 * p) (hk1 : 1 ≤ k) (hn : 1 ≤ n) :
    convOk k 1 p d n = true ∧ convOut k 1 p d n = n := by
  refine ⟨?_, convOut_same hk hn⟩
  simp only [convOk, Bool.and_eq_true, decide_eq_true_eq]
  omega

/-- **Conv2dGRU shape identity**, full strength: replication padding *and* zero padding, any number of layers, with or
without instance normalisation in the gates. -/
theorem gru_shape_id (repl inorm : Bool) (layers : Nat) (s : Shape) (stk tr : List Shape) (h : ∀ n ∈ s, 1 ≤ n)
    (hn : inorm = true → 1 < numel s) :
    ∃ tr', run (gru repl inorm layers) ⟨s, stk, tr⟩ = .ok ⟨s, stk, tr'⟩ := gru_ok repl inorm layers s stk tr h hn

/-- the fine-grained programs the translator emits (`padTop`/`cropTop`/`pop`/`popSame` instead of the composite stack
operations) run exactly like the programs the theorems are about -/
theorem expanded_program_equiv (p : List Op) (st : State) : run (expand p) st = run p st := run_expand p st

/-- regression witness (pinned tree, repaired by bf46aca): with `replication_padding=False` the dilated block
`idx == 1` (`kernel 3, dilation 2`) was given `padding = 1` instead of `2`: a one-layer cell returned `(H − 2, W − 2)` … -/
theorem gru_zero_padding_pinned_violates :
    (run (gruPinned 1) ⟨[9, 10], [], []⟩).toOption.map (·.cur) = some [7, 8] := by decide

/-- … and a cell with two or more layers raised (`torch.cat` of the block output with the recurrent state). -/
theorem gru_zero_padding_pinned_violates_deep :
    run (gruPinned 2) ⟨[9, 10], [], []⟩ = .error .runtime := by decide

/-! ## group normalisation reshape (known findings), scaling-factor broadcast -/

/-- the `reshape(b, groups, -1)` of the Norm-U-Nets is always possible when the channel count is a multiple of the
group count (the 2-, 4-, 6-channel uses) … -/
theorem norm_reshape_ok (groups c : Nat) (sp : Shape) (hg : groups ≠ 0) (h : groups ∣ c) :
    groupReshapeOk groups c sp = true := by
  obtain ⟨k, rfl⟩ := h
  simp only [groupReshapeOk, Bool.and_eq_true, bne_iff_ne, ne_eq, hg, not_false_eq_true, beq_iff_eq, true_and]
  rw [Nat.mul_assoc]; exact Nat.mul_mod_right _ _

/-- KNOWN FINDING (current tree): `MRIVarSplitNet(kspace_model_architecture="normunet")` builds a Norm-U-Net with **5**
input channels and 2 groups: the reshape fails for every image with an odd number of pixels -/
theorem normunet_groups_current_violates : groupReshapeOk 2 5 [21, 19] = false := by decide

theorem normunet_groups_odd_fails (sp : Shape) (h : numel sp % 2 = 1) : groupReshapeOk 2 5 sp = false := by
  simp only [groupReshapeOk, Bool.and_eq_false_iff, beq_eq_false_iff_ne, ne_eq]
  right; omega

/-- **scaling-factor broadcast** (`CrossDomainNetwork`, repaired by c4a262f): the per-sample factor reshaped to
`(N, 1, 1, 1)` broadcasts against the `(N, H, W, C)` image for every batch size, size and channel count … -/
theorem scaling_broadcast_image (n h w c : Nat) : broadcast [n, h, w, c] [n, 1, 1, 1] = some [n, h, w, c] := by
  by_cases a : h = 1 <;> by_cases b : w = 1 <;> by_cases d : c = 1 <;> simp [broadcast, a, b, d]

/-- … and `(N, 1, 1, 1, 1)` against the `(N, coil, H, W, 2)` k-space -/
theorem scaling_broadcast_kspace (n k h w : Nat) : broadcast [n, k, h, w, 2] [n, 1, 1, 1, 1] = some [n, k, h, w, 2] := by
  by_cases a : h = 1 <;> by_cases b : w = 1 <;> by_cases d : k = 1 <;> simp [broadcast, a, b, d]

/-- regression witness (pinned tree): dividing the `(N, H, W, 2)` image by the `(N,)` factor the engine passes aligned
the batch of factors with the *complex* axis — an error for `N ≥ 3` … -/
theorem scaling_broadcast_pinned_violates (n h w : Nat) (h1 : n ≠ 1) (h2 : n ≠ 2) :
    broadcast [n, h, w, 2] [n] = none := by
  have e : (2 : Nat) ≠ n := fun e => h2 e.symm
  simp [broadcast, h1, e]

/-- … and for `N = 2` it silently scaled the real part by the first sample's factor and the imaginary part by the
second's (the shapes are compatible). -/
theorem scaling_broadcast_n2_pinned_mixes (h w : Nat) : broadcast [2, h, w, 2] [2] = some [2, h, w, 2] := by
  by_cases a : h = 1 <;> by_cases b : w = 1 <;> simp [broadcast, a, b]

theorem foldl_add_replicate_zero (n : Nat) (a : Int) : (List.replicate n (0 : Int)).foldl (· + ·) a = a := by
  induction n generalizing a with
  | zero => rfl
  | succ n ih => simp [List.replicate_succ, ih]

/-- KNOWN FINDING (current tree, finiteness): `MRIVarSplitNet(image_model_architecture="normunet")` feeds the Norm-U-Net
`cat([z, mu·(z − image)])` with `z = image.clone()` in the first iteration: the second normalisation group is
identically zero, so its statistics are `S = 0`, `Q = Σ (n·x − S)² = 0` — `std = 0`, and `(x − mean) / std = 0 / 0`
(NaN) for every input size. -/
theorem normunet_zero_group_current_violates (n : Nat) :
    BatchSep.groupStat (List.replicate n 0) = [(n : Int), 0, 0] := by
  simp only [BatchSep.groupStat, List.length_replicate, List.map_replicate, foldl_add_replicate_zero]
  simp [foldl_add_replicate_zero]

/-! ## the glue of the unrolled networks -/

/-- `permute` pairs between `(N, H, W, C)` and `(N, C, H, W)` are inverse on every rank-4 shape … -/
theorem permute_reshape_roundtrip4 (n h w c : Nat) :
    permute toChannelsLast4 (permute toChannelsFirst4 [n, h, w, c]) = [n, h, w, c] ∧
      permute toChannelsFirst4 [n, h, w, c] = [n, c, h, w] := by
  constructor <;> rfl

/-- … between `(N, coil, H, W, C)` and `(N, coil, C, H, W)` … -/
theorem permute_reshape_roundtrip5 (n k h w c : Nat) :
    permute toChannelsLast5 (permute toChannelsFirst5 [n, k, h, w, c]) = [n, k, h, w, c] ∧
      permute toChannelsFirst5 [n, k, h, w, c] = [n, k, c, h, w] := by
  constructor <;> rfl

/-- … between `(N, Z, H, W, C)` and `(N, C, Z, H, W)` (3-D vSHARP) … -/
theorem permute_reshape_roundtrip3d (n z h w c : Nat) :
    permute toChannelsLast3d (permute toChannelsFirst3d [n, z, h, w, c]) = [n, z, h, w, c] ∧
      permute toChannelsFirst3d [n, z, h, w, c] = [n, c, z, h, w] := by
  constructor <;> rfl

/-- … and `coil_to_batch`: `(N, coil, H, W, C) ↔ (N·coil, H, W, C)` keeps the number of elements and is undone by the
reshape with the inferred `-1`. -/
theorem permute_reshape_roundtrip (n k h w c : Nat) :
    batchToCoil n k (coilToBatch [n, k, h, w, c]) = [n, k, h, w, c] ∧
      numel (coilToBatch [n, k, h, w, c]) = numel [n, k, h, w, c] := by
  refine ⟨rfl, ?_⟩
  simp only [coilToBatch, numel, Nat.mul_one, Nat.mul_assoc]

/-- per-coil application: `select(1, i)` on `(N, coil, C, H, W)` drops the coil axis, `stack(dim=1)` of `coil` results
restores it -/
theorem select_stack_roundtrip (n k c h w : Nat) :
    insertAxis 1 k (dropAxis 1 [n, k, c, h, w]) = [n, k, c, h, w] := rfl

/-- coil reduction / expansion: `sum(dim=1)` of `(N, coil, H, W, 2)` is `(N, H, W, 2)`; `unsqueeze(1)` broadcasts
against the maps back to `(N, coil, H, W, 2)` -/
theorem reduce_expand_shapes (n k h w : Nat) :
    dropAxis 1 [n, k, h, w, 2] = [n, h, w, 2] ∧
      broadcast (insertAxis 1 1 [n, h, w, 2]) [n, k, h, w, 2] = some [n, k, h, w, 2] := by
  refine ⟨rfl, ?_⟩
  by_cases a : k = 1
  · subst a; simp [broadcast, insertAxis]
  · have a' : ¬ 1 = k := fun e => a e.symm
    simp [broadcast, insertAxis, a, a']

/-- **any inverse pair of permutes is a round trip** on every shape of that rank: if `p[q[i]] = i` for all `i` (the
decidable `permInverse`, which the bridge checks for every `(argument permute, result permute)` pair found around a
denoiser call in `direct/nn`), then `x.permute(*p).permute(*q)` has the shape of `x` — for non-square sizes and sizes
that collide with the batch, coil or complex axes alike -/
theorem permute_pair_roundtrip (p q : List Nat) (h : permInverse p q = true) (s : Shape) (hs : s.length = p.length) :
    permute q (permute p s) = s := by
  simp only [permInverse, Bool.and_eq_true, beq_iff_eq, List.all_eq_true, decide_eq_true_eq, List.mem_range] at h
  obtain ⟨⟨hl, hq⟩, hi⟩ := h
  apply List.ext_getElem
  · simp [permute, ← hl, hs]
  · intro i h1 h2
    have hiq : i < q.length := by simpa [permute] using h1
    have hqi : q[i] < p.length := hq _ (List.getElem_mem hiq)
    have e := hi i hiq
    rw [getD_of_lt _ _ hiq, getD_of_lt _ _ hqi] at e
    simp only [permute, List.getElem_map]
    rw [getD_of_lt _ _ (by simpa using hqi)]
    simp only [List.getElem_map, e]
    rw [getD_of_lt _ _ h2]

/-- the channels-first permutations used in `direct/nn` are `toChannelsFirst lead rank`, their partners are inverse, and a
transposing partner (`(0, 3, 2, 1)` for `(0, 2, 3, 1)`) is rejected -/
theorem channels_first_perms :
    toChannelsFirst 1 4 = toChannelsFirst4 ∧ toChannelsFirst 1 5 = toChannelsFirst3d ∧ toChannelsFirst 2 5 = toChannelsFirst5 ∧
      permInverse toChannelsFirst4 toChannelsLast4 = true ∧ permInverse toChannelsFirst5 toChannelsLast5 = true ∧
      permInverse toChannelsFirst3d toChannelsLast3d = true ∧ permInverse [0, 3, 1, 2] [0, 3, 2, 1] = false := by decide

/-- the wrapper around a denoiser call: permute to channels-first, the denoiser replaces `cin` by `cout` channels, permute
back — the outer tensor keeps its layout with `cout` in the last axis (image domain, per-coil k-space domain, 3-D / dynamic) -/
theorem wrapper_shapes (n k z h w cin cout : Nat) :
    permute toChannelsLast4 ((permute toChannelsFirst4 [n, h, w, cin]).set 1 cout) = [n, h, w, cout] ∧
      permute toChannelsLast5 ((permute toChannelsFirst5 [n, k, h, w, cin]).set 2 cout) = [n, k, h, w, cout] ∧
      permute toChannelsLast3d ((permute toChannelsFirst3d [n, z, h, w, cin]).set 1 cout) = [n, z, h, w, cout] :=
  ⟨rfl, rfl, rfl⟩

/-- **an unrolled network preserves shapes**: whatever the prologue, the blocks of one iteration, the number of
iterations, batch size and coil count — every call of a (shape-preserving) denoiser sees and returns the *same*
spatial size `sp`, and the same leading batch (`N`, or `N·coil` for `coil_to_batch`) -/
theorem unrolled_preserves_shape (pre body : List Block) (iters n coil : Nat) (sp : Shape) :
    ∀ c ∈ unrolledCalls pre body iters n coil sp,
      c.inp.drop 2 = sp ∧ c.out.drop 2 = sp ∧ c.inp.head? = c.out.head? ∧
        (c.inp.head? = some n ∨ c.inp.head? = some (n * coil)) := by
  have hb : ∀ b : Block, ∀ c ∈ b.calls n coil sp,
      c.inp.drop 2 = sp ∧ c.out.drop 2 = sp ∧ c.inp.head? = c.out.head? ∧
        (c.inp.head? = some n ∨ c.inp.head? = some (n * coil)) := by
    intro b c hc
    unfold Block.calls at hc
    cases hd : b.dom <;> simp only [hd] at hc
    · simp only [List.mem_singleton] at hc; subst hc; simp
    · have := List.eq_of_mem_replicate hc; subst this; simp
    · simp only [List.mem_singleton] at hc; subst hc; simp
  intro c hc
  unfold unrolledCalls at hc
  rcases List.mem_append.mp hc with h | h
  · obtain ⟨b, _, hcb⟩ := List.mem_flatMap.mp h
    exact hb b c hcb
  · obtain ⟨l, hl, hcl⟩ := List.mem_flatten.mp h
    have := List.eq_of_mem_replicate hl
    subst this
    obtain ⟨b, _, hcb⟩ := List.mem_flatMap.mp hcl
    exact hb b c hcb

/-- the number of denoiser calls is `Σ pre + iters · Σ body` (per-coil blocks count `coil` calls) -/
theorem unrolled_call_count (pre body : List Block) (iters n coil : Nat) (sp : Shape) :
    (unrolledCalls pre body iters n coil sp).length =
      (pre.flatMap fun b => b.calls n coil sp).length + iters * (body.flatMap fun b => b.calls n coil sp).length := by
  simp only [unrolledCalls, List.length_append, List.length_flatten, List.map_replicate, List.sum_replicate_nat]

/-- the calls of an unrolled network are the calls of its block sequence (`Sched.blocks`, which the bridge compares with
the schedule read from each `forward`) -/
theorem unrolledCalls_eq_blocks (pre body : List Block) (iters n coil : Nat) (sp : Shape) :
    unrolledCalls pre body iters n coil sp = (unrolledBlocks pre body iters).flatMap fun b => b.calls n coil sp := by
  simp only [unrolledCalls, unrolledBlocks, List.flatMap_append]
  congr 1
  induction iters with
  | zero => rfl
  | succ k ih => simp only [List.replicate_succ, List.flatten_cons, List.flatMap_append, ih]


/-! ## minimum sizes of the other architectures (what is admissible, and that below it the network *fails*) -/

/-- **3-D U-Net**: every axis is first padded to at least `2^L`, so the only requirement is that *some* axis reaches
`2^(L+1)` — otherwise the bottleneck is a single voxel and `InstanceNorm3d` raises -/
theorem unet3d_min_size (L : Nat) (s : Shape) : UAdm L (s.map (padPow2 L)) ↔ ∃ n ∈ s, 2 ^ (L + 1) ≤ n := unet3d_adm_iff L s

theorem unet3d_fails_below_min (L : Nat) (s : Shape) (stk tr : List Shape) (h : ¬ ∃ n ∈ s, 2 ^ (L + 1) ≤ n) :
    ∃ e, run (unet3d UnetP.std L) ⟨s, stk, tr⟩ = .error e :=
  unet3d_fails L s stk tr fun a => h ((unet3d_adm_iff L s).mp a)

/-- the normalised 3-D U-Net pads to multiples of 16 first: admissible iff some padded axis reaches `2^(L+1)` (for
`L ≤ 3` every non-empty volume; for `L = 4` some axis must exceed 16) -/
theorem normunet3d_min_size (L : Nat) (s : Shape) :
    UAdm L ((s.map mult16).map (padPow2 L)) ↔ ∃ n ∈ s, 2 ^ (L + 1) ≤ mult16 n := by
  rw [unet3d_adm_iff]
  simp only [List.mem_map]
  constructor
  · rintro ⟨_, ⟨n, hn, rfl⟩, h⟩; exact ⟨n, hn, h⟩
  · rintro ⟨n, hn, h⟩; exact ⟨_, ⟨n, hn, rfl⟩, h⟩

theorem normunet3d_fails_below_min (L : Nat) (s : Shape) (stk tr : List Shape) (h : ¬ ∃ n ∈ s, 2 ^ (L + 1) ≤ mult16 n) :
    ∃ e, run (normUnet3d UnetP.std L) ⟨s, stk, tr⟩ = .error e :=
  normUnet3d_fails L s stk tr fun a => h ((normunet3d_min_size L s).mp a)

theorem normunet_fails_below_min (L : Nat) (s : Shape) (stk tr : List Shape) (hs : ∀ n ∈ s, 1 ≤ n) (h : ¬ UAdm L (s.map mult16)) :
    ∃ e, run (normUnet UnetP.std L) ⟨s, stk, tr⟩ = .error e := normUnet_fails L s stk tr hs h

/-- **DUB**: exactly the axes `≥ 2` are admissible (the reflect pad of an odd axis needs a neighbour) … -/
theorem dub_min_size (n : Nat) : dubAxisOk n = true ↔ 2 ≤ n := dubAxisOk_iff n

/-- … and below that it raises -/
theorem dub_fails_below_min (e : Bool) (s : Shape) (stk tr : List Shape) (hs : ∀ n ∈ s, 1 ≤ n) (h : ∃ n ∈ s, n < 2) :
    ∃ err, run (dub DidnP.std e) ⟨s, stk, tr⟩ = .error err := dub_fails e s stk tr hs h

/-- **DIDN**: exactly the axes `≥ 3` (the strided input convolution halves, the first DUB needs `≥ 2`) … -/
theorem didn_min_size (n : Nat) : didnAxisOk n = true ↔ 3 ≤ n := didnAxisOk_iff n

theorem didn_fails_below_min (ndubs nconv : Nat) (skip : Bool) (s : Shape) (stk tr : List Shape) (hs : ∀ n ∈ s, 1 ≤ n)
    (hd : 1 ≤ ndubs) (h : ∃ n ∈ s, n < 3) :
    ∃ err, run (didn DidnP.std ndubs nconv skip) ⟨s, stk, tr⟩ = .error err := didn_fails ndubs nconv skip s stk tr hs hd h

/-- **ResNet, Conv2d, Conv2dGRU (replication or zero padding, dilated block included) have no minimum size**: every
non-empty image, down to a single pixel or a single row, keeps its size (`resnet_shape_id`, `conv_shape_id`,
`gru_shape_id` with `1 ≤ n`); the only exception … -/
theorem no_minimum_size (nblocks m layers : Nat) (bn repl : Bool) (h w : Nat) (hh : 1 ≤ h) (hw : 1 ≤ w) :
    (∃ t, run (resnet 3 1 nblocks) ⟨[h, w], [], []⟩ = .ok ⟨[h, w], [], t⟩) ∧
      (∃ t, run (convNet 3 1 bn m) ⟨[h, w], [], []⟩ = .ok ⟨[h, w], [], t⟩) ∧
      (∃ t, run (gru repl false layers) ⟨[h, w], [], []⟩ = .ok ⟨[h, w], [], t⟩) := by
  have hs : ∀ n ∈ [h, w], 1 ≤ n := by simp [hh, hw]
  exact ⟨resnet_shape_id nblocks _ [] [] hs, conv_shape_id bn m _ [] [] hs, gru_shape_id repl false layers _ [] [] hs (by simp)⟩

/-- … is instance normalisation in the GRU gates: a single-pixel input raises `ValueError` (for every number of layers
`≥ 1`, with replication or zero padding), it is never mapped to a wrong size -/
theorem gru_instnorm_fails_single_pixel (repl : Bool) (layers : Nat) (s : Shape) (stk tr : List Shape) (hs : ∀ n ∈ s, 1 ≤ n)
    (h1 : ¬ 1 < numel s) : run (gru repl true (layers + 1)) ⟨s, stk, tr⟩ = .error .value := by
  simp only [gru, List.append_assoc]
  exact run_append_err (gruLayers_instnorm_fails repl layers s stk tr hs h1)

/-- **MWCNN below its minimum** (`mwcnn_min_size`: some axis `≤ 2^(S−2)` for `S ≥ 2` scales, or a length-1 axis for one
scale): the network *raises* (the reflect pad of a length-1 axis), for every number of scales and every rank — it never returns
a padded or cropped size.  (Converse of `mwcnn_shape_id`: a successful run admits every axis.) -/
theorem mwcnn_fails_below_min (S : Nat) (s : Shape) (stk tr : List Shape) (hs : ∀ n ∈ s, 1 ≤ n)
    (h : ∃ n ∈ s, mwAxisOk S n = false) : ∃ e, run (mwcnn MwP.std S) ⟨s, stk, tr⟩ = .error e := mwcnn_fails S s stk tr hs h

/-- … hence admissibility is *exactly* success -/
theorem mwcnn_succeeds_iff (S : Nat) (s : Shape) (hs : ∀ n ∈ s, 1 ≤ n) :
    (∃ st, run (mwcnn MwP.std S) ⟨s, [], []⟩ = .ok st) ↔ ∀ n ∈ s, mwAxisOk S n = true := by
  constructor
  · rintro ⟨st, h⟩; exact mwcnn_conv S s [] [] st hs h
  · intro h; obtain ⟨t, ht⟩ := mwcnn_shape_id S s [] [] h; exact ⟨_, ht⟩

/-! ## full shapes `(N, C, *spatial)`: the channel arithmetic of the denoisers

`fullRun sp ch n c s` runs the spatial program `sp` and the channel program `ch` (register machine of
`Model/ShapesChan.lean`: every convolution checks its `in_channels` against the running count, `torch.cat` adds the
remembered skip tensors, `+` requires equal counts, DWT/IWT/PixelShuffle multiply and divide) side by side.  Each theorem
gives, for **all** widths and depths, the final full shape `(N, cout, *spatial)`, the number of hook records, and the
batch axis `N` at every hook. -/

/-- **U-Net, full shape**: `UnetModel2d/3d(cin, cout, num_filters = F, num_pool_layers = L)` maps `(N, cin, *s)` to
`(N, cout, *s)`: the filter count doubles per level (`F·2^i`), the transposed convolution halves it, the concatenation
with the skip connection doubles it again, the final 1×1 convolution gives `cout` -/
theorem unet_full_shape (L n cin cout F : Nat) (s : Shape) (hL : 1 ≤ L) (h : UAdm L s) :
    ∃ t, fullRun (unet UnetP.std L) (unetC cin cout F L) n cin s = .ok ⟨n :: cout :: s, t⟩ ∧ t.length = 3 * L + 1 ∧
      ∀ x ∈ t, x.head? = some n := by
  have hc := unetC_ok L cin cout F []
  have hne : L ≠ 0 := by omega
  simp only [hne, if_false] at hc
  have := fullRun_ok (n := n) (unet_shape_id L s [] [] h) hc (by rw [emits_unet, cemits_unetC])
  rwa [emits_unet] at this

/-- **MultiDomainUnet2d, full shape**: `MultiDomainUnet2d(fwd, bwd, cin, cout, num_filters = F, num_pool_layers = L)` with an
even `F` maps `(N, cin, *s)` to `(N, cout, *s)` for all widths and depths: every `MultiDomainConv2d(a, b)` runs two
convolutions with `b // 2` filters (k-space branch and image branch, both on the block's input) and concatenates them; the
skip connections, the transposed multi-domain convolutions and the final 1×1 convolution are as in the U-Net -/
theorem mdunet_full_shape (L n cin cout F : Nat) (s : Shape) (hL : 1 ≤ L) (hF : F % 2 = 0) (h : UAdm L s) :
    ∃ t, fullRun (unet UnetP.std L) (mdUnetC cin cout F L) n cin s = .ok ⟨n :: cout :: s, t⟩ ∧ t.length = 3 * L + 1 ∧
      ∀ x ∈ t, x.head? = some n := by
  have hc := mdUnetC_ok L cin cout F [] hF
  have := fullRun_ok (n := n) (unet_shape_id L s [] [] h) hc (by rw [emits_unet, cemits_mdUnetC]; omega)
  rwa [emits_unet] at this

/-- the channel contract alone, for any register file and any trace -/
theorem mdunet_channels (L cin cout F : Nat) (hF : F % 2 = 0) (regs : List Nat) (tr : List Nat) :
    ∃ tr', runC (mdUnetC cin cout F L) ⟨cin, regs, tr⟩ = .ok ⟨cout, regs, tr'⟩ :=
  mdUnetC_ok L cin cout F regs hF tr

/-- `out_channels // 2` twice: an odd `num_filters` loses a channel in the first multi-domain convolution and the second
one (built for `num_filters` input channels) rejects its input -/
theorem mdunet_odd_filters_fail : ∀ F ∈ [1, 3, 5, 7], ∀ L ∈ [0, 1, 2, 3],
    runC (mdUnetC 2 2 F L) ⟨2, [], []⟩ = .error .runtime := by decide

example : (fullRun (unet UnetP.std 2) (mdUnetC 2 3 4 2) 2 2 [9, 6]).toOption.map (·.final) = some [2, 3, 9, 6] := by decide
example : (fullRun (unet UnetP.std 1) (mdUnetC 4 2 6 1) 3 4 [5, 6]).toOption.map (·.trace) =
    some [[3, 6, 5, 6], [3, 12, 2, 3], [3, 6, 4, 6], [3, 2, 5, 6]] := by decide

/-- the channel contract alone, for any register file (the program is used as a sub-program of the unrolled networks) -/
theorem unet_channels (L cin cout F : Nat) (hL : 1 ≤ L) (regs : List Nat) (tr : List Nat) :
    ∃ tr', runC (unetC cin cout F L) ⟨cin, regs, tr⟩ = .ok ⟨cout, regs, tr'⟩ := by
  have hc := unetC_ok L cin cout F regs
  have hne : L ≠ 0 := by omega
  simp only [hne, if_false] at hc
  exact hc tr

theorem normunet_full_shape (L n cin cout F : Nat) (s : Shape) (hL : 1 ≤ L) (h : UAdm L (s.map mult16)) :
    ∃ t, fullRun (normUnet UnetP.std L) (normUnetC cin cout F L) n cin s = .ok ⟨n :: cout :: s, t⟩ ∧ t.length = 3 * L + 2 ∧
      ∀ x ∈ t, x.head? = some n := by
  have := fullRun_ok (n := n) (normunet_shape_id L s [] [] h) (normUnetC_ok L cin cout F hL []) (emits_normUnet_eq _ cin cout F L)
  have e : emits (normUnet UnetP.std L) = 3 * L + 2 := by
    simp only [normUnet, emits_append, emits_unet]; simp [emits]
  rwa [e] at this

theorem unet3d_full_shape (L n cin cout F : Nat) (s : Shape) (hL : 1 ≤ L) (h : UAdm L (s.map (padPow2 L))) :
    ∃ t, fullRun (unet3d UnetP.std L) (unetC cin cout F L) n cin s = .ok ⟨n :: cout :: s, t⟩ ∧ t.length = 3 * L + 1 ∧
      ∀ x ∈ t, x.head? = some n := by
  have hc := unetC_ok L cin cout F []
  have hne : L ≠ 0 := by omega
  simp only [hne, if_false] at hc
  have := fullRun_ok (n := n) (unet3d_shape_id L s [] [] h) hc (emits_unet3d_eq _ cin cout F L)
  rwa [emits_unet3d_eq UnetP.std cin cout F L, cemits_unetC] at this

theorem normunet3d_full_shape (L n cin cout F : Nat) (s : Shape) (hL : 1 ≤ L) (h : UAdm L ((s.map mult16).map (padPow2 L))) :
    ∃ t, fullRun (normUnet3d UnetP.std L) (normUnetC cin cout F L) n cin s = .ok ⟨n :: cout :: s, t⟩ ∧ t.length = 3 * L + 2 ∧
      ∀ x ∈ t, x.head? = some n := by
  have := fullRun_ok (n := n) (normunet3d_shape_id L s [] [] h) (normUnetC_ok L cin cout F hL []) (emits_normUnet3d_eq _ cin cout F L)
  have e : emits (normUnet3d UnetP.std L) = 3 * L + 2 := by
    simp only [normUnet3d, unet3d, emits_append, emits_unet]; simp [emits]
  rwa [e] at this

/-- **MWCNN, full shape** for every number of scales, width and batch-norm option: DWT quadruples the channels, scale
`idx` works at `F·2^idx`, its `up` block returns `F·2^(idx+1)`, IWT divides by four, the residual sums have equal counts,
and the output has the input's channel count -/
theorem mwcnn_full_shape (bn : Bool) (S n cin F : Nat) (s : Shape) (h : ∀ x ∈ s, mwAxisOk S x = true) :
    ∃ t, fullRun (mwcnn MwP.std S) (mwcnnC bn cin F S) n cin s = .ok ⟨n :: cin :: s, t⟩ ∧
      t.length = emits (mwcnn MwP.std S) ∧ ∀ x ∈ t, x.head? = some n :=
  fullRun_ok (mwcnn_shape_id S s [] [] h) (mwcnnC_ok bn cin F S []) (emits_mwcnn_eq _ bn cin F S)

theorem dub_full_shape (e : Bool) (n c : Nat) (s : Shape) (h : ∀ x ∈ s, 2 ≤ x) :
    ∃ t, fullRun (dub DidnP.std e) (dubC c e) n c s = .ok ⟨n :: c :: s, t⟩ ∧ t.length = emits (dub DidnP.std e) ∧
      ∀ x ∈ t, x.head? = some n :=
  fullRun_ok (dub_shape_id e s [] [] h) (dubC_ok c e []) (emits_dub_eq _ c e)

/-- **DIDN, full shape** for any number of DUBs (`≥ 1`) and reconstruction convolutions, any hidden width: inside a DUB
`c → 2c → 4c`, the sub-pixel layers `8c → 2c` and `4c → c` (`PixelShuffle(2)` divides by four), the concatenations with
the remembered `2c` / `c` tensors; the `nd` reconstruction outputs concatenate to `c·nd` = `recon_agg.in_channels`; with
the (effective) skip connection the input and output channel counts must agree -/
theorem didn_full_shape (nd nc n cin cout c : Nat) (skip : Bool) (s : Shape) (h : ∀ x ∈ s, 3 ≤ x) (hnd : 1 ≤ nd)
    (hskip : skip = true → cin = cout) :
    ∃ t, fullRun (didn DidnP.std nd nc skip) (didnC cin cout c nd nc skip) n cin s = .ok ⟨n :: cout :: s, t⟩ ∧
      t.length = emits (didn DidnP.std nd nc skip) ∧ ∀ x ∈ t, x.head? = some n :=
  fullRun_ok (didn_shape_id nd nc skip s [] [] h) (didnC_ok cin cout c nd nc skip hnd hskip []) (emits_didn_eq _ cin cout c nd nc skip skip)

/-- why `DIDN.__init__` computes `self.skip_connection = in_channels == out_channels and skip_connection`: with different
counts the final `x + out` cannot be formed -/
theorem didn_skip_needs_equal_channels :
    (runC (didnC 2 4 3 1 1 true) ⟨2, [], []⟩).toOption = none ∧
      ((runC (didnC 2 4 3 1 1 false) ⟨2, [], []⟩).toOption.map (·.cur)) = some 4 := by decide

theorem resnet_full_shape (nb n cin cout h : Nat) (bn : Bool) (s : Shape) (hs : ∀ x ∈ s, 1 ≤ x) :
    ∃ t, fullRun (resnet 3 1 (nb + 1)) (resnetC cin cout h bn nb) n cin s = .ok ⟨n :: cout :: s, t⟩ ∧
      t.length = emits (resnet 3 1 (nb + 1)) ∧ ∀ x ∈ t, x.head? = some n :=
  fullRun_ok (resnet_shape_id (nb + 1) s [] [] hs) (resnetC_ok cin cout h bn nb []) (emits_resnet_eq cin cout h bn nb)

theorem conv_full_shape (bn : Bool) (m n cin cout h : Nat) (s : Shape) (hs : ∀ x ∈ s, 1 ≤ x) :
    ∃ t, fullRun (convNet 3 1 bn (m + 1)) (convNetC cin cout h bn (m + 1)) n cin s = .ok ⟨n :: cout :: s, t⟩ ∧
      t.length = emits (convNet 3 1 bn (m + 1)) ∧ ∀ x ∈ t, x.head? = some n := by
  have hc := convNetC_ok bn (m + 1) cin cout h []
  simp only [Nat.succ_ne_zero, if_false] at hc
  exact fullRun_ok (conv_shape_id bn (m + 1) s [] [] hs) hc (emits_convNet_eq bn (m + 1) cin cout h)

/-- below the U-Net's minimum the *full* run fails as well (never a wrong full shape) -/
theorem unet_full_fails_below_min (L n cin cout F : Nat) (s : Shape) (hs : ∀ x ∈ s, 1 ≤ x) (h : ¬ UAdm L s) :
    ∃ e, fullRun (unet UnetP.std L) (unetC cin cout F L) n cin s = .error e := by
  obtain ⟨e, he⟩ := unet_fails_below_min L s [] [] hs h
  exact ⟨e, fullRun_spatial_err he⟩

/-- a wrong width anywhere makes the channel program fail: e.g. an up-path block built as `ConvBlock(ch, ch)` instead of
`ConvBlock(ch * 2, ch)` sees `2·F` channels after the concatenation -/
theorem unet_wrong_width_fails :
    (runC ([.conv 2 3, .conv 3 3, .save, .emit] ++ unetLvC 3 6 0 ++ [.conv 6 3, .emit, .cat [0], .drop 0] ++
      convBlockC 3 3 ++ [.conv 3 2, .emit]) ⟨2, [], []⟩).toOption = none := by decide

/-! ## non-vacuity: the hypotheses are met by odd, even, non-square, non-power-of-two sizes -/

example : UAdm 3 [37, 24] := by simp [UAdm, Pos, numel]
example : UAdm 2 ([5, 7, 9].map (padPow2 2)) := by simp [UAdm, Pos, numel, padPow2]
example : (run (unet UnetP.std 3) ⟨[37, 24], [], []⟩).toOption.map (·.cur) = some [37, 24] := by decide
example : run (unet UnetP.std 2) ⟨[2, 2], [], []⟩ = .error .value := by decide
example : run (unet UnetP.std 2) ⟨[2, 9], [], []⟩ = .error .runtime := by decide
example : (run (normUnet UnetP.std 4) ⟨[17, 5], [], []⟩).toOption.map (·.cur) = some [17, 5] := by decide
example : run (normUnet UnetP.std 4) ⟨[16, 13], [], []⟩ = .error .value := by decide
example : (run (unet3d UnetP.std 2) ⟨[3, 7, 10], [], []⟩).toOption.map (·.cur) = some [3, 7, 10] := by decide
example : ∀ n ∈ [9, 14], mwAxisOk 4 n = true := by decide
example : (run (mwcnn MwP.std 4) ⟨[9, 14], [], []⟩).toOption.map (·.cur) = some [9, 14] := by decide
example : run (mwcnn MwP.std 3) ⟨[2, 8], [], []⟩ = .error .runtime := by decide
example : (run (didn DidnP.std 2 3 true) ⟨[3, 11], [], []⟩).toOption.map (·.cur) = some [3, 11] := by decide
example : run (didn DidnP.std 2 3 false) ⟨[2, 11], [], []⟩ = .error .runtime := by decide
example : (run (gru true true 3) ⟨[5, 6], [], []⟩).toOption.map (·.cur) = some [5, 6] := by decide
example : (run (gru false false 3) ⟨[5, 6], [], []⟩).toOption.map (·.cur) = some [5, 6] := by decide
example : (fullRun (unet UnetP.std 2) (unetC 3 5 7 2) 2 3 [9, 6]).toOption.map (·.final) = some [2, 5, 9, 6] := by decide
example : (fullRun (unet UnetP.std 1) (unetC 3 5 7 1) 2 3 [5, 6]).toOption.map (·.trace) =
    some [[2, 7, 5, 6], [2, 14, 2, 3], [2, 7, 4, 6], [2, 5, 5, 6]] := by decide
example : (fullRun (mwcnn MwP.std 3) (mwcnnC true 4 3 3) 1 4 [7, 10]).toOption.map (·.final) = some [1, 4, 7, 10] := by decide
example : (fullRun (didn DidnP.std 3 2 true) (didnC 2 2 5 3 2 true) 3 2 [5, 9]).toOption.map (·.final) = some [3, 2, 5, 9] := by decide
example : (fullRun (resnet 3 1 2) (resnetC 2 3 4 true 1) 1 2 [1, 7]).toOption.map (·.final) = some [1, 3, 1, 7] := by decide
example : run (unet3d UnetP.std 2) ⟨[7, 7, 7], [], []⟩ = .error .value := by decide
example : (run (unet3d UnetP.std 2) ⟨[1, 1, 8], [], []⟩).toOption.map (·.cur) = some [1, 1, 8] := by decide
example : (run (resnet 3 1 2) ⟨[1, 1], [], []⟩).toOption.map (·.cur) = some [1, 1] := by decide
example : (run (gru false false 2) ⟨[1, 31], [], []⟩).toOption.map (·.cur) = some [1, 31] := by decide
example : run (gru true true 2) ⟨[1, 1], [], []⟩ = .error .value := by decide
example : mwAxisOk 3 2 = false ∧ mwAxisOk 3 3 = true ∧ didnAxisOk 2 = false ∧ dubAxisOk 1 = false := by decide
example : ¬ ∃ n ∈ [7, 7, 7], 2 ^ (2 + 1) ≤ n := by decide
example : ∃ n ∈ [1, 1, 8], 2 ^ (2 + 1) ≤ n := by decide
example : run (didn DidnP.std 1 1 false) ⟨[2, 9], [], []⟩ = .error .runtime ∧ run (dub DidnP.std true) ⟨[1, 4], [], []⟩ = .error .runtime := by
  decide
example : permInverse [0, 1, 4, 2, 3] [0, 1, 3, 4, 2] = true ∧ permRowOk ("RIM", 0, [0, 3, 1, 2], []) = true ∧
    permRowOk ("Unet2d", 0, [0, 3, 1, 2], [0, 3, 2, 1]) = false := by decide
example : mult16 17 = 32 ∧ mult16 16 = 16 ∧ mult16 1 = 16 ∧ pad16Lo 21 = 5 ∧ pad16Hi 21 = 6 := by decide
example : unrolledCalls [] [⟨.perCoil, 2, 2⟩, ⟨.image, 2, 2⟩] 2 1 3 [5, 6] =
    [⟨[1, 2, 5, 6], [1, 2, 5, 6]⟩, ⟨[1, 2, 5, 6], [1, 2, 5, 6]⟩, ⟨[1, 2, 5, 6], [1, 2, 5, 6]⟩, ⟨[1, 2, 5, 6], [1, 2, 5, 6]⟩,
     ⟨[1, 2, 5, 6], [1, 2, 5, 6]⟩, ⟨[1, 2, 5, 6], [1, 2, 5, 6]⟩, ⟨[1, 2, 5, 6], [1, 2, 5, 6]⟩, ⟨[1, 2, 5, 6], [1, 2, 5, 6]⟩] := by
  decide

end DirectVerif.C17
